import Yuiv.Model.C05
/-
C05 (engine structure) — code model of the STRUCTURAL operations on tangles and cobordisms:
`yui-link/src/link/path.rs` (`Path::{new, ends, is_connectable, connect, reduce, unori_eq, min_edge}`),
`yui-khovanov/src/kh/internal/v2/tng.rs` (`TngComp`, `Tng::{new, connect, append_arc, find_comp, remove_at,
endpts, contains, index_of, euler_num, convert_edges}`) and `cob.rs` (`Bottom`, `Dot`, `CobComp::{new, plain, id,
sdl, merge, split, cup, cap, closed, endpts, nbdr_comps, euler_num, deg, is_*, inv, is_connectable, connect,
cap_off, add_dot, convert_edges}`, `Cob::{new, id, src, tgt, connect, is_stackable, stack (= Mul), cap_off, inv,
euler_num, deg, nbdr_comps, is_zero_cob, …}`).  Import-free (core Lean + `Model/C05`).

Representation: exactly the Rust data.  `Path = (edges : Vec<Edge>, closed)`; `TngComp` = `Path`;
`Tng` = `Vec<TngComp>` kept sorted by the `Ord` of `TngComp` = `(is_circle, min_edge)` with a STABLE sort;
`CobComp = (src, tgt, genus, dots)`; `Cob = Vec<CobComp>` kept sorted by the derived lexicographic `Ord`.
`PartialEq` of `TngComp` is `unori_eq` (arcs up to reversal, circles up to rotation/reflection as far as the
code's test goes); `Tng`/`CobComp`/`Cob` equality is the derived component-wise one.

Panics: `assert!`, `debug_assert!` (the harness builds with debug assertions ON), `unwrap`, `Vec::remove` /
index out of range are `Res.panic`.  Loops take fuel (`Res.err` when exhausted; never happens with the fuel given).

Simplifications (documented, not hidden):
 * `HashSet` iteration order.  `CobComp::nbdr_comps` picks "any" source arc and the "first" connectable target
   arc in hash order; the model picks the one with the smallest index.  For boundaries in which every end point
   occurs in exactly one source arc and one target arc the count does not depend on the choice; the
   correspondence run only uses such boundaries.  `Tng::endpts` (a `HashSet`) is a duplicate-free list.
 * an arc always has at least one edge (`Path::new` asserts it, `connect` keeps it), so `ends` of an arc never
   fails; a CIRCLE with no edge can arise (`[e] + [e]`) and then `min_edge` panics when it is compared with
   another circle — modelled at the `Tng` level (`sortComps`); the lexicographic comparison of whole tangles inside `Cob::normalize` uses `min_edge` with
   default `0` for that unreachable-in-the-run corner.
 * `usize`/`i32` overflow is not modelled (edge labels, genus and dots are small).
-/
namespace Yuiv.C05.Tng
open Yuiv Yuiv.C05

/-! ### `Path` / `TngComp` -/

structure Path where
  edges : List Nat
  closed : Bool
deriving DecidableEq, Repr, Inhabited

/-- `Path::new`: `assert!(!edges.is_empty())` -/
def Path.new (edges : List Nat) (closed : Bool) : Res Path :=
  if edges.isEmpty then .panic else .ok ⟨edges, closed⟩

def Path.isArc (p : Path) : Bool := !p.closed

/-- `Path::ends` (`None` for circles; an arc is never empty) -/
def Path.ends (p : Path) : Option (Nat × Nat) :=
  if p.closed then none else
    match p.edges.head?, p.edges.getLast? with
    | some a, some b => some (a, b)
    | _, _ => none

/-- `Path::min_edge`: `edges.iter().min().unwrap()` -/
def Path.minEdge (p : Path) : Res Nat :=
  match p.edges.min? with
  | some m => .ok m
  | none => .panic

def Path.minEdgeD (p : Path) : Nat := (p.edges.min?).getD 0

def Path.contains (p : Path) (e : Nat) : Bool := p.edges.contains e

/-- `Path::is_connectable` -/
def isConnectable (p q : Path) : Bool :=
  match p.ends, q.ends with
  | some (e0, e1), some (f0, f1) => e0 == f0 || e0 == f1 || e1 == f0 || e1 == f1
  | _, _ => false

/-- the four gluing branches of `Path::connect` (before the closing test) -/
def glue (pe qe : List Nat) (e0 e1 f0 f1 : Nat) : Res (List Nat) :=
  if e1 == f0 then .ok (pe ++ qe.tail)                       -- [.., e1) + [f0, ..)
  else if e1 == f1 then .ok (pe ++ qe.dropLast.reverse)      -- [.., e1) + [.., f1)
  else if e0 == f0 then .ok (qe.tail.reverse ++ pe)          -- [e0, ..) + [f0, ..)
  else if e0 == f1 then .ok (qe.dropLast ++ pe)              -- [e0, ..) + [.., f1)
  else .panic

/-- the closing test at the end of `Path::connect` -/
def closeUp (edges : List Nat) : Res Path :=
  match edges.head?, edges.getLast? with
  | some a, some b => if a == b then .ok ⟨edges.dropLast, true⟩ else .ok ⟨edges, false⟩
  | _, _ => .panic

/-- `Path::connect` -/
def Path.connect (p q : Path) : Res Path :=
  if !isConnectable p q then .panic else
    match p.ends, q.ends with
    | some (e0, e1), some (f0, f1) =>
      match glue p.edges q.edges e0 e1 f0 f1 with
      | .ok edges => closeUp edges
      | .panic => .panic
      | .err => .err
    | _, _ => .panic

/-- `Path::reduce` -/
def Path.reduce (p : Path) : Path :=
  if !p.closed && p.edges.length > 2 then
    match p.edges.head?, p.edges.getLast? with
    | some e0, some e1 =>
      let mid := p.edges.tail.dropLast
      match (mid.filter (fun e => e < min e0 e1)).min? with
      | some e2 => ⟨[e0, e2, e1], false⟩
      | none => ⟨[e0, e1], false⟩
    | _, _ => p
  else if p.closed && p.edges.length > 1 then
    match p.edges.min? with
    | some e0 => ⟨[e0], true⟩
    | none => p
  else p

def sumL (l : List Nat) : Nat := l.sum

/-- `Path::unori_eq` = `PartialEq for TngComp` -/
def unoriEq (a b : Path) : Bool :=
  if a.closed != b.closed || a.edges.length != b.edges.length || sumL a.edges != sumL b.edges then false
  else if a.edges == b.edges then true
  else if a.closed then
    let n := a.edges.length
    match a.edges.head? with
    | none => false
    | some a0 =>
      match b.edges.findIdx? (· == a0) with
      | none => false
      | some p =>
        (List.range n).all (fun i => a.edges.getD i 0 == b.edges.getD ((p + i) % n) 0) ||
        (List.range n).all (fun i => a.edges.getD i 0 == b.edges.getD ((p + n - i) % n) 0)
  else
    (List.zip a.edges b.edges.reverse).all (fun ef => ef.1 == ef.2)

/-- `TngComp::convert_edges` (`Path::new` of the mapped edges) -/
def Path.convertEdges (f : Nat → Nat) (p : Path) : Res Path := Path.new (p.edges.map f) p.closed

/-! ### `Tng` -/

abbrev Tng := List Path

/-- `Ord for TngComp`: `(is_circle, min_edge)`; `lt a b` = `a.cmp(b) == Less` -/
def compLt (a b : Path) : Bool :=
  (!a.closed && b.closed) || (a.closed == b.closed && a.minEdgeD < b.minEdgeD)

/-- three-way comparison: 0 = Less, 1 = Equal, 2 = Greater -/
def compCmp (a b : Path) : Nat :=
  if compLt a b then 0 else if compLt b a then 2 else 1

def insertBy {α} (lt : α → α → Bool) (a : α) : List α → List α
  | [] => [a]
  | b :: l => if lt b a then b :: insertBy lt a l else a :: b :: l

/-- stable sort (`slice::sort`): going from the right, an element is placed before the first element that is not
strictly smaller, so equal keys keep their original order -/
def sortBy {α} (lt : α → α → Bool) (l : List α) : List α := l.foldr (fun a acc => insertBy lt a acc) []

/-- `comps.sort()` / `.sorted()`.  `cmp` evaluates `min_edge` only when both sides are of the same kind
(`then_with` is lazy); circles end up adjacent, and a comparison sort must compare elements that are adjacent in
its output, so `min_edge` panics on a circle without edges exactly when there is a second circle. -/
def sortComps (l : List Path) : Res Tng :=
  if (l.filter (·.closed)).length ≥ 2 && l.any (fun c => c.closed && c.edges.isEmpty) then .panic
  else .ok (sortBy compLt l)

/-- `Tng::new` -/
def Tng.new (l : List Path) : Res Tng := sortComps l

def Tng.isClosed (t : Tng) : Bool := t.all (·.closed)
def Tng.containsCircle (t : Tng) : Bool := t.any (·.closed)

def dedup : List Nat → List Nat
  | [] => []
  | a :: l => if (dedup l).contains a then dedup l else a :: dedup l

/-- all ends of arcs, with multiplicity -/
def endsMulti (t : Tng) : List Nat :=
  t.flatMap (fun c => match c.ends with | some (a, b) => [a, b] | none => [])

/-- `Tng::endpts` (`HashSet<Edge>`) as a duplicate-free list -/
def Tng.endpts (t : Tng) : List Nat := dedup (endsMulti t)

/-- `Tng::contains` (`Vec::contains` with `unori_eq`) -/
def Tng.contains (t : Tng) (c : Path) : Bool := t.any (fun x => unoriEq x c)

/-- `Tng::index_of` -/
def Tng.indexOf (t : Tng) (c : Path) : Option Nat := t.findIdx? (fun x => unoriEq x c)

/-- `Tng::find_comp(|c| c.is_circle())` — the loop finder of the builder -/
def Tng.findLoop (t : Tng) : Option Nat := t.findIdx? (·.closed)

/-- `Tng::remove_at` (`Vec::remove` panics when out of range) -/
def Tng.removeAt (t : Tng) (i : Nat) : Res (Path × Tng) :=
  match t[i]? with
  | some c => .ok (c, t.eraseIdx i)
  | none => .panic

/-- `Tng::euler_num`: number of arcs -/
def Tng.eulerNum (t : Tng) : Nat := (t.filter (·.isArc)).length

/-- derived `PartialEq for Tng` -/
def tngEq (a b : Tng) : Bool := a.length == b.length && (List.zip a b).all (fun xy => unoriEq xy.1 xy.2)

/-- `Tng::append_arc` -/
def Tng.appendArc (t : Tng) (arc : Path) : Res Tng :=
  if arc.closed then .panic else
    match t.findIdx? (fun c => isConnectable c arc) with
    | none => sortComps (t ++ [arc])
    | some i =>
      match t[i]? with
      | none => .panic
      | some ci0 =>
        match ci0.connect arc with
        | .ok ci =>
          let t1 := t.set i ci
          match t1.findIdx? (fun c => !(unoriEq c ci) && isConnectable c ci) with
          | none => sortComps t1
          | some j =>
            match t1[j]? with
            | none => .panic
            | some cj =>
              let t2 := t1.eraseIdx j
              -- `self.comps[i]` AFTER the removal (the index is not adjusted in the code)
              match t2[i]? with
              | none => .panic
              | some ck =>
                match ck.connect cj with
                | .ok c' => sortComps (t2.set i c')
                | .panic => .panic
                | .err => .err
        | .panic => .panic
        | .err => .err

/-- the loop of `Tng::connect` -/
def connectLoop : List Path → Tng → Res Tng
  | [], t => .ok t
  | c :: cs, t =>
    if c.closed then connectLoop cs (t ++ [c])
    else
      match Tng.appendArc t c with
      | .ok t' => connectLoop cs t'
      | .panic => .panic
      | .err => .err

/-- `Tng::connect` -/
def Tng.connect (t o : Tng) : Res Tng :=
  match connectLoop o t with
  | .ok t' => sortComps t'
  | .panic => .panic
  | .err => .err

def mapMRes {α β} (f : α → Res β) : List α → Res (List β)
  | [] => .ok []
  | a :: l =>
    match f a with
    | .ok b =>
      match mapMRes f l with
      | .ok bs => .ok (b :: bs)
      | .panic => .panic
      | .err => .err
    | .panic => .panic
    | .err => .err

/-- `Tng::convert_edges` -/
def Tng.convertEdges (f : Nat → Nat) (t : Tng) : Res Tng :=
  match mapMRes (Path.convertEdges f) t with
  | .ok l => Tng.new l
  | .panic => .panic
  | .err => .err

/-- lexicographic `Ord` of `Vec<TngComp>`: 0 = Less, 1 = Equal, 2 = Greater -/
def tngCmp : Tng → Tng → Nat
  | [], [] => 1
  | [], _ :: _ => 0
  | _ :: _, [] => 2
  | a :: as, b :: bs =>
    let c := compCmp a b
    if c == 1 then tngCmp as bs else c

/-! ### `CobComp` -/

inductive Bottom where
  | src | tgt
deriving DecidableEq, Repr

/-- `enum Dot { None, X, Y }` -/
inductive Dot where
  | none | X | Y
deriving DecidableEq, Repr

structure CobComp where
  src : Tng
  tgt : Tng
  genus : Nat
  dots : Nat × Nat
deriving DecidableEq, Repr, Inhabited

/-- equality of `HashSet`s given as duplicate-free lists -/
def setEq (a b : List Nat) : Bool := a.all (b.contains ·) && b.all (a.contains ·)

/-- `CobComp::new`: `debug_assert_eq!(src.endpts(), tgt.endpts())` -/
def CobComp.new (src tgt : Tng) (genus : Nat) (dots : Nat × Nat) : Res CobComp :=
  if setEq (Tng.endpts src) (Tng.endpts tgt) then .ok ⟨src, tgt, genus, dots⟩ else .panic

def CobComp.plain (src tgt : Tng) (genus : Nat) : Res CobComp := CobComp.new src tgt genus (0, 0)

/-- `CobComp::id` (`Tng::from(c)` sorts a one-element vector: no comparison) -/
def CobComp.id (c : Path) : CobComp := ⟨[c], [c], 0, (0, 0)⟩

/-- `CobComp::sdl` -/
def CobComp.sdl (r00 r01 r10 r11 : Path) : Res CobComp :=
  if r00.closed || r01.closed || r10.closed || r11.closed then .panic
  else if unoriEq r00 r10 || unoriEq r00 r11 || unoriEq r01 r10 || unoriEq r01 r11 then .panic
  else
    match Tng.new [r00, r01], Tng.new [r10, r11] with
    | .ok s, .ok t => CobComp.plain s t 0
    | .err, _ => .err
    | _, .err => .err
    | _, _ => .panic

/-- `CobComp::merge` -/
def CobComp.merge (f0 f1 to : Path) : Res CobComp :=
  if !(f0.closed || f1.closed) then .panic else
    match Tng.new [f0, f1] with
    | .ok s => CobComp.plain s [to] 0
    | .panic => .panic
    | .err => .err

/-- `CobComp::split` -/
def CobComp.split (frm t0 t1 : Path) : Res CobComp :=
  if !(t0.closed || t1.closed) then .panic else
    match Tng.new [t0, t1] with
    | .ok t => CobComp.plain [frm] t 0
    | .panic => .panic
    | .err => .err

/-- `CobComp::cup`: `assert!(c.is_circle())` -/
def CobComp.cup (c : Path) : Res CobComp := if c.closed then CobComp.plain [] [c] 0 else .panic

/-- `CobComp::cap` (no assertion in the code; `new` checks the end points) -/
def CobComp.cap (c : Path) : Res CobComp := CobComp.plain [c] [] 0

def CobComp.closedSurf (g : Nat) : CobComp := ⟨[], [], g, (0, 0)⟩

def CobComp.endpts (c : CobComp) : List Nat := Tng.endpts c.src
def CobComp.ndots (c : CobComp) : Nat := c.dots.1 + c.dots.2
def CobComp.bottom (c : CobComp) : Bottom → Tng
  | .src => c.src
  | .tgt => c.tgt
def CobComp.setBottom (c : CobComp) (b : Bottom) (t : Tng) : CobComp :=
  match b with
  | .src => { c with src := t }
  | .tgt => { c with tgt := t }

def CobComp.isClosed (c : CobComp) : Bool := c.src.isEmpty && c.tgt.isEmpty
def CobComp.isCyl (c : CobComp) : Bool := c.src.length == 1 && c.tgt.length == 1
def CobComp.isId (c : CobComp) : Bool :=
  match c.src, c.tgt with
  | [s], [t] => unoriEq s t && c.genus == 0
  | _, _ => false
def CobComp.isInvertible (c : CobComp) : Bool := c.isCyl && c.genus == 0 && c.dots == (0, 0)
def CobComp.isZeroCob (c : CobComp) : Bool := C05.isZeroCob c.isClosed c.genus c.dots.1 c.dots.2
def CobComp.isUnitCob (c : CobComp) : Bool := C05.isUnitCob c.isClosed c.genus c.dots.1 c.dots.2

/-- `CobComp::inv` (`plain` = `new`: the `debug_assert` on end points is re-evaluated) -/
def CobComp.inv (c : CobComp) : Res (Option CobComp) :=
  if c.isInvertible then
    match CobComp.plain c.tgt c.src 0 with
    | .ok i => .ok (some i)
    | .panic => .panic
    | .err => .err
  else .ok none

def arcsOf (t : Tng) : List Path := t.filter (·.isArc)
def circsOf (t : Tng) : Nat := (t.filter (·.closed)).length

/-- inner `loop` of `nbdr_comps`: walk along one side circle.  `c0` = current source arc (already removed from
`S`), `S`/`T` = remaining source / target arcs.  `else { panic!() }` when no target arc fits. -/
def walk : Nat → Path → List Path → List Path → Res (List Path × List Path)
  | 0, _, _, _ => .err
  | f + 1, c0, S, T =>
    match T.findIdx? (fun c => isConnectable c c0) with
    | none => .panic
    | some j =>
      match T[j]? with
      | none => .panic
      | some c1 =>
        let T' := T.eraseIdx j
        match S.findIdx? (fun c => isConnectable c c1) with
        | none => .ok (S, T')
        | some i =>
          match S[i]? with
          | none => .panic
          | some c0' => walk f c0' (S.eraseIdx i) T'

/-- outer `while` of `nbdr_comps`: number of side circles -/
def sideCircs : Nat → List Path → List Path → Res Nat
  | 0, _, _ => .err
  | _ + 1, [], _ => .ok 0
  | f + 1, c0 :: S, T =>
    match walk (S.length + 1) c0 S T with
    | .ok (S', T') =>
      match sideCircs f S' T' with
      | .ok n => .ok (n + 1)
      | .panic => .panic
      | .err => .err
    | .panic => .panic
    | .err => .err

/-- `CobComp::nbdr_comps` of a boundary `(src, tgt)`: `assert_eq!(#src arcs, #tgt arcs)` -/
def nbdrOf (src tgt : Tng) : Res Nat :=
  let S := arcsOf src
  let T := arcsOf tgt
  if S.length != T.length then .panic else
    match sideCircs (S.length + 1) S T with
    | .ok n => .ok (circsOf src + circsOf tgt + n)
    | .panic => .panic
    | .err => .err

def CobComp.nbdr (c : CobComp) : Res Nat := nbdrOf c.src c.tgt

/-- `CobComp::euler_num` = `2 − 2g − #∂` (`C05.eulerNum`) -/
def CobComp.eulerNum (c : CobComp) : Res Int :=
  match c.nbdr with
  | .ok b => .ok (C05.eulerNum b c.genus)
  | .panic => .panic
  | .err => .err

/-- `CobComp::deg` = `χ − #endpts/2 − 2·#dots` (`C05.deg`) -/
def CobComp.deg (c : CobComp) : Res Int :=
  match c.nbdr with
  | .ok b => .ok (C05.deg b c.endpts.length c.genus c.dots.1 c.dots.2)
  | .panic => .panic
  | .err => .err

/-- `CobComp::add_dot` -/
def CobComp.addDot (c : CobComp) : Dot → CobComp
  | .X => { c with dots := (c.dots.1 + 1, c.dots.2) }
  | .Y => { c with dots := (c.dots.1, c.dots.2 + 1) }
  | .none => c

/-- `CobComp::cap_off(b, i)`: `comp(i)` indexes, `assert!(is_circle)`, `remove_at` -/
def CobComp.capOff (c : CobComp) (b : Bottom) (i : Nat) : Res CobComp :=
  match (c.bottom b)[i]? with
  | none => .panic
  | some p => if p.closed then .ok (c.setBottom b ((c.bottom b).eraseIdx i)) else .panic

/-- `CobComp::is_connectable` -/
def CobComp.isConnectable (c d : CobComp) : Bool :=
  c.src.any (fun c1 => c1.isArc && d.src.any (fun c2 => c2.isArc && Tng.isConnectable c1 c2))

/-- number of common end points (`self.endpts().intersection(&other.endpts()).count()`) -/
def sharedEndpts (c d : CobComp) : Nat := (c.endpts.filter (d.endpts.contains ·)).length

/-- the genus bookkeeping shared by `CobComp::connect` and `Cob::stack_comps`:
`g = 2 − (x1 + x2 + b) + a`, `assert!(g >= 0)`, `assert!(g % 2 == 0)`, genus `= g / 2` -/
def genusFrom (x1 x2 : Int) (b a : Nat) : Res Nat :=
  let g : Int := 2 - (x1 + x2 + (b : Int)) + (a : Int)
  if g < 0 then .panic else if g % 2 != 0 then .panic else .ok (g / 2).toNat

/-- `CobComp::connect` (horizontal composition of two components) -/
def CobComp.connect (c d : CobComp) : Res CobComp :=
  if !c.isConnectable d then .panic else
    match c.eulerNum, d.eulerNum with
    | .ok x1, .ok x2 =>
      let a := sharedEndpts c d
      if a == 0 then .panic else
        match Tng.connect c.src d.src with
        | .ok src =>
          match Tng.connect c.tgt d.tgt with
          | .ok tgt =>
            match nbdrOf src tgt with
            | .ok b =>
              match genusFrom x1 x2 b a with
              | .ok g => .ok ⟨src, tgt, g, (c.dots.1 + d.dots.1, c.dots.2 + d.dots.2)⟩
              | .panic => .panic
              | .err => .err
            | .panic => .panic
            | .err => .err
          | .panic => .panic
          | .err => .err
        | .panic => .panic
        | .err => .err
    | .err, _ => .err
    | _, .err => .err
    | _, _ => .panic

/-- `CobComp::convert_edges` (struct literal: no `debug_assert`) -/
def CobComp.convertEdges (f : Nat → Nat) (c : CobComp) : Res CobComp :=
  match Tng.convertEdges f c.src, Tng.convertEdges f c.tgt with
  | .ok s, .ok t => .ok ⟨s, t, c.genus, c.dots⟩
  | .err, _ => .err
  | _, .err => .err
  | _, _ => .panic

/-- derived `PartialEq for CobComp` -/
def cobCompEq (a b : CobComp) : Bool :=
  tngEq a.src b.src && tngEq a.tgt b.tgt && a.genus == b.genus && a.dots == b.dots

/-- derived lexicographic `Ord for CobComp`: `(src, tgt, genus, dots)` -/
def cobCompLt (a b : CobComp) : Bool :=
  let s := tngCmp a.src b.src
  if s != 1 then s == 0 else
    let t := tngCmp a.tgt b.tgt
    if t != 1 then t == 0 else
      if a.genus != b.genus then a.genus < b.genus else
        if a.dots.1 != b.dots.1 then a.dots.1 < b.dots.1 else a.dots.2 < b.dots.2

/-! ### `Cob` -/

abbrev Cob := List CobComp

/-- `Cob::new` / `normalize` -/
def Cob.new (l : List CobComp) : Cob := sortBy cobCompLt l

/-- `Cob::id` -/
def Cob.idFor (t : Tng) : Cob := Cob.new (t.map CobComp.id)

def foldConnect : List Tng → Tng → Res Tng
  | [], t => .ok t
  | s :: ss, t =>
    match Tng.connect t s with
    | .ok t' => foldConnect ss t'
    | .panic => .panic
    | .err => .err

/-- `Cob::src` / `Cob::tgt` -/
def Cob.src (c : Cob) : Res Tng := foldConnect (c.map (·.src)) []
def Cob.tgt (c : Cob) : Res Tng := foldConnect (c.map (·.tgt)) []

def Cob.isZeroCob (c : Cob) : Bool := c.any (·.isZeroCob)
def Cob.isClosed (c : Cob) : Bool := c.all (·.isClosed)
def Cob.isInvertible (c : Cob) : Bool := c.all (·.isInvertible)

def sumRes {α} (f : α → Res Int) : List α → Res Int
  | [] => .ok 0
  | a :: l =>
    match f a, sumRes f l with
    | .ok x, .ok y => .ok (x + y)
    | .err, _ => .err
    | _, .err => .err
    | _, _ => .panic

/-- `Cob::euler_num`, `Cob::deg` (sums over the components) -/
def Cob.eulerNum (c : Cob) : Res Int := sumRes CobComp.eulerNum c
def Cob.deg (c : Cob) : Res Int := sumRes CobComp.deg c
def Cob.nbdr (c : Cob) : Res Int := sumRes (fun x => match x.nbdr with | .ok n => .ok (n : Int) | .panic => .panic | .err => .err) c

/-- `Cob::inv` -/
def Cob.inv (c : Cob) : Res (Option Cob) :=
  if c.isInvertible then
    match mapMRes (fun x => match x.inv with
        | .ok (some i) => .ok i
        | .ok none => .panic
        | .panic => .panic
        | .err => .err) c with
    | .ok l => .ok (some (Cob.new l))
    | .panic => .panic
    | .err => .err
  else .ok none

/-- the `while` loop of `Cob::_connect_comp`: `c` absorbs every connectable component; `kept` in reverse -/
def connectCompLoop (c : CobComp) : List CobComp → List CobComp → Res (CobComp × List CobComp)
  | [], kept => .ok (c, kept.reverse)
  | d :: rest, kept =>
    if c.isConnectable d then
      match c.connect d with
      | .ok c' => connectCompLoop c' rest kept
      | .panic => .panic
      | .err => .err
    else connectCompLoop c rest (d :: kept)

/-- `Cob::_connect_comp` -/
def Cob.connectCompRaw (cob : Cob) (c : CobComp) : Res Cob :=
  match connectCompLoop c cob [] with
  | .ok (c', kept) => .ok (kept ++ [c'])
  | .panic => .panic
  | .err => .err

def connectAll : List CobComp → Cob → Res Cob
  | [], cob => .ok cob
  | c :: cs, cob =>
    match Cob.connectCompRaw cob c with
    | .ok cob' => connectAll cs cob'
    | .panic => .panic
    | .err => .err

/-- `Cob::connect` (horizontal composition) -/
def Cob.connect (cob other : Cob) : Res Cob :=
  match connectAll other cob with
  | .ok r => .ok (Cob.new r)
  | .panic => .panic
  | .err => .err

/-- `Cob::is_stackable` -/
def Cob.isStackable (bot top : Cob) : Bool :=
  (bot.foldl (fun n c => n + c.tgt.length) 0 == top.foldl (fun n c => n + c.src.length) 0) &&
  bot.all (fun c => c.tgt.all (fun a => top.any (fun d => Tng.contains d.src a)))

/-- `for c in comps { if let Some(i) = pool.position(|t| side(t).contains(c)) { q.push_back(pool.remove(i)) } }` -/
def pull (side : CobComp → Tng) : List Path → List CobComp → List CobComp → List CobComp × List CobComp
  | [], pool, q => (pool, q)
  | c :: cs, pool, q =>
    match pool.findIdx? (fun t => Tng.contains (side t) c) with
    | none => pull side cs pool q
    | some i =>
      match pool[i]? with
      | none => pull side cs pool q
      | some t => pull side cs (pool.eraseIdx i) (q ++ [t])

/-- `while let Some(b) = q.pop_front() { pull …; res.push(b) }` (the queue that is drained is not pushed to) -/
def drain (own other : CobComp → Tng) : List CobComp → List CobComp → List CobComp → List CobComp →
    List CobComp × List CobComp × List CobComp
  | [], pool, q, res => (pool, q, res)
  | b :: bs, pool, q, res =>
    let (pool', q') := pull other (own b) pool q
    drain own other bs pool' q' (res ++ [b])

/-- outer `while` of `take_stackable_comps` -/
def bfs : Nat → List CobComp → List CobComp → List CobComp → List CobComp → List CobComp → List CobComp →
    Res (List CobComp × List CobComp × List CobComp × List CobComp)
  | 0, _, _, _, _, _, _ => .err
  | f + 1, bot, top, qBot, qTop, resBot, resTop =>
    if qBot.isEmpty && qTop.isEmpty then .ok (bot, top, resBot, resTop) else
      let (top1, qTop1, resBot1) := drain (·.tgt) (·.src) qBot top qTop resBot
      let (bot1, qBot1, resTop1) := drain (·.src) (·.tgt) qTop1 bot [] resTop
      bfs f bot1 top1 qBot1 [] resBot1 resTop1

/-- `Cob::take_stackable_comps`: `(bot', top', res_bot, res_top)` -/
def takeStackable (bot top : List CobComp) : Res (List CobComp × List CobComp × List CobComp × List CobComp) :=
  let fuel := bot.length + top.length + 2
  match bot, top with
  | b :: bot', _ => bfs fuel bot' top [b] [] [] []
  | [], t :: top' => bfs fuel [] top' [] [t] [] []
  | [], [] => .ok ([], [], [], [])

/-- number of arcs in the targets of `bot` (`a` of `stack_comps`) -/
def tgtArcs (bot : List CobComp) : Nat := bot.foldl (fun n c => n + (arcsOf c.tgt).length) 0

def sumDots (l : List CobComp) : Nat × Nat := l.foldl (fun r c => (r.1 + c.dots.1, r.2 + c.dots.2)) (0, 0)

/-- `Cob::stack_comps` -/
def stackComps (bot top : List CobComp) : Res CobComp :=
  if bot.isEmpty || top.isEmpty then .panic else
    match sumRes CobComp.eulerNum bot, sumRes CobComp.eulerNum top with
    | .ok x0, .ok x1 =>
      let a := tgtArcs bot
      let dots := sumDots (bot ++ top)
      match foldConnect (bot.map (·.src)) [], foldConnect (top.map (·.tgt)) [] with
      | .ok src, .ok tgt =>
        match CobComp.new src tgt 0 dots with
        | .ok c =>
          match c.nbdr with
          | .ok b =>
            match genusFrom x0 x1 b a with
            | .ok g => .ok { c with genus := g }
            | .panic => .panic
            | .err => .err
          | .panic => .panic
          | .err => .err
        | .panic => .panic
        | .err => .err
      | .err, _ => .err
      | _, .err => .err
      | _, _ => .panic
    | .err, _ => .err
    | _, .err => .err
    | _, _ => .panic

/-- main `while` of `Cob::stack` -/
def stackLoop : Nat → List CobComp → List CobComp → List CobComp → Res (List CobComp)
  | 0, _, _, _ => .err
  | f + 1, bot, top, acc =>
    if bot.isEmpty && top.isEmpty then .ok acc else
      match takeStackable bot top with
      | .ok (bot', top', b, t) =>
        if t.isEmpty then
          match b with
          | [b0] => stackLoop f bot' top' (acc ++ [b0])
          | _ => .panic
        else if b.isEmpty then
          match t with
          | [t0] => stackLoop f bot' top' (acc ++ [t0])
          | _ => .panic
        else
          match stackComps b t with
          | .ok c => stackLoop f bot' top' (acc ++ [c])
          | .panic => .panic
          | .err => .err
      | .panic => .panic
      | .err => .err

/-- `Cob::stack` (vertical composition: `bot` first, then `top`); `top * bot` of `impl Mul for Cob` -/
def Cob.stack (bot top : Cob) : Res Cob :=
  if !Cob.isStackable bot top then .panic
  else if bot.isEmpty then .ok top
  else if top.isEmpty then .ok bot
  else
    match stackLoop (bot.length + top.length + 1) bot top [] with
    | .ok r => .ok (Cob.new r)
    | .panic => .panic
    | .err => .err

/-- `Cob::find_comp(b, c)`: first component whose bottom `b` contains `c`, with the position inside -/
def Cob.findComp (cob : Cob) (b : Bottom) (c : Path) : Option (Nat × CobComp × Nat) :=
  match cob.findIdx? (fun comp => (Tng.indexOf (comp.bottom b) c).isSome) with
  | none => none
  | some i =>
    match cob[i]? with
    | none => none
    | some comp =>
      match Tng.indexOf (comp.bottom b) c with
      | none => none
      | some p => some (i, comp, p)

/-- `Cob::cap_off(b, c, dot)` -/
def Cob.capOff (cob : Cob) (b : Bottom) (c : Path) (x : Dot) : Res Cob :=
  if !c.closed then .panic else
    match Cob.findComp cob b c with
    | none => .panic
    | some (i, comp, p) =>
      match comp.capOff b p with
      | .ok comp1 =>
        let comp2 := comp1.addDot x
        if comp2.isUnitCob then .ok (Cob.new (cob.eraseIdx i)) else .ok (Cob.new (cob.set i comp2))
      | .panic => .panic
      | .err => .err

/-- derived `PartialEq for Cob` -/
def cobEq (a b : Cob) : Bool := a.length == b.length && (List.zip a b).all (fun xy => cobCompEq xy.1 xy.2)

end Yuiv.C05.Tng
