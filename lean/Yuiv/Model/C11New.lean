import Yuiv.Model.C11
/-
C11 — code model of `MatrixStr::new` (`yui-matrix/src/sparse/pivot.rs`), import-free (core only).

    let shape = match piv_type { Rows => a.shape(), Cols => (a.ncols(), a.nrows()) };
    let t     = match piv_type { Rows => |i, j| (i, j), Cols => |i, j| (j, i) };
    let (m, n) = shape;
    entries = vec![vec![]; m]; row_wght = vec![0.0; m]; col_wght = vec![0.0; n]; cands = vec![AHashSet::new(); m];
    for (i, j, r) in a.iter() {            // nalgebra `triplet_iter` of the CSC storage: column by column, storage order
        if r.is_zero() { continue }
        let (i, j) = t(i, j);
        entries[i].push(j);
        let w = r.c_weight(); row_wght[i] += w; col_wght[j] += w;
        if pivot_cond.is_cand(r) { cands[i].insert(j); }
    }

The code does NOT transpose the matrix for `PivotType::Cols`; it swaps the two indices of every triplet (closure `t`).
That is what is modelled: the input is the CSC storage itself (`Csc`: shape + per column the stored `(row, value)` pairs
in storage order, stored zeros allowed), the loop body is the existing `Str.push` of `Model/C11.lean` (index out of range
⇒ `Res.panic`), so `matrixStrNew a t c = Str.build m n (exportEntries a t c)`, and `exportEntries` is literally the tuple
list `(i j w c)*` which the harness (`c11.rs`, "trace → Lean model") derives from `a.iter()` and sends to the driver.

A scalar is represented by the four observations `MatrixStr::new` makes of it (`Scl`): `is_zero`, `is_pm_one`, `is_unit`,
`c_weight` (a natural number: see the `weights` assumption of `props/C11.json`).  `PivotCondition::Weight(w)` is
`Cond.weight w2` with `w = w2 / 2` (what the harness generates; for an integer weight `x`, `x ≤ w ⇔ 2·x ≤ w2`).
-/
namespace Yuiv.C11
open Yuiv Res

/-- what `MatrixStr::new` observes of a ring element `r` -/
structure Scl where
  zero : Bool     -- `r.is_zero()`
  pmOne : Bool    -- `r.is_pm_one()`
  unit : Bool     -- `r.is_unit()`
  wt : Nat        -- `r.c_weight()`
deriving Repr, DecidableEq, Inhabited

/-- `PivotCondition` -/
inductive Cond where
  | one
  | weight (w2 : Nat)    -- `Weight(w2 / 2)`
  | anyUnit
deriving Repr, DecidableEq, Inhabited

/-- `PivotCondition::is_cand` -/
def Cond.isCand : Cond → Scl → Bool
  | .one, r => r.pmOne
  | .weight w2, r => r.unit && decide (2 * r.wt ≤ w2)
  | .anyUnit, r => r.unit

/-- `PivotType` -/
inductive PivType where
  | rows | cols
deriving Repr, DecidableEq, Inhabited

/-- the CSC storage of an `SpMat<R>`: column `j` ↦ stored `(row, value)` pairs in storage order -/
structure Csc where
  nrows : Nat
  ncols : Nat
  cols : Array (List (Nat × Scl))
deriving Repr, Inhabited

def Csc.col (a : Csc) (j : Nat) : List (Nat × Scl) := a.cols.getD j []

/-- `a.iter()` = `triplet_iter`: `(i, j, r)` column by column -/
def Csc.iter (a : Csc) : List (Nat × Nat × Scl) :=
  (List.range a.ncols).flatMap fun j => (a.col j).map fun e => (e.1, j, e.2)

/-- the closure `t` -/
def PivType.swap : PivType → Nat → Nat → Nat × Nat
  | .rows, i, j => (i, j)
  | .cols, i, j => (j, i)

/-- `shape` -/
def PivType.shape : PivType → Csc → Nat × Nat
  | .rows, a => (a.nrows, a.ncols)
  | .cols, a => (a.ncols, a.nrows)

/-- what one non-skipped iteration of the loop feeds to `Str.push`: internal `(row, col)`, weight, candidate flag -/
def exportEntry (t : PivType) (c : Cond) (e : Nat × Nat × Scl) : Nat × Nat × Nat × Bool :=
  ((t.swap e.1 e.2.1).1, (t.swap e.1 e.2.1).2, e.2.2.wt, c.isCand e.2.2)

/-- the iterations of the loop that are not skipped by `if r.is_zero() { continue }`, in order -/
def exportEntries (a : Csc) (t : PivType) (c : Cond) : List (Nat × Nat × Nat × Bool) :=
  (a.iter.filter fun e => !e.2.2.zero).map (exportEntry t c)

/-- `MatrixStr::new(a, piv_type, pivot_cond)` -/
def matrixStrNew (a : Csc) (t : PivType) (c : Cond) : Res Str :=
  Str.build (t.shape a).1 (t.shape a).2 (exportEntries a t c)

end Yuiv.C11
