import Yuiv.Model.Res
/-
The machine type `i32` with overflow checks, as used by the definitions that `tools/rs2lean_fn.py` generates with the
target option `int32` (ff.rs: `type I = i32`) — hand-written, import-free, TRUSTED.

An `i32` value is an `Int` in `-2^31 .. 2^31-1`; every operation maps in-range arguments to an in-range result or to
`Res.panic` (the crates are built with overflow checks ON, as the harness and the repository's release profile do).

* `a + b`, `a - b`, `a * b`, `-a` (also as `a.add(&b)`, `a.neg()`, …)   panic when the exact result is outside the range;
* `a / b`, `a % b`              truncating, panic when `b = 0` or the quotient overflows (`MIN / -1`);
* `a.rem_euclid(b)`             `Int.emod` (the non-negative remainder); panics when `b = 0`.  (`MIN.rem_euclid(-1)`
                                also panics in Rust; ff.rs only calls it behind `assert!(p > 0)`, the case is not modelled);
* comparisons, `is_zero`, `is_one`, `is_negative`, `is_positive`   on the integer value;
* `I::gcdx(&a, &b)`             `impl_integer!(i32)` forwards to `num_integer::Integer::extended_gcd`: ASSUMED to be the
                                iteration below (quotients truncating, result normalised to a non-negative gcd; its
                                intermediate values are bounded by the inputs, so no overflow check is modelled).
-/
namespace Yuiv.Rust
open Yuiv Res

namespace I32

def MIN : Int := -2147483648
def MAX : Int := 2147483647
/-- overflow check -/
def chk (x : Int) : Res Int := if MIN ≤ x ∧ x ≤ MAX then ok x else panic

def add (a b : Int) : Res Int := chk (a + b)
def sub (a b : Int) : Res Int := chk (a - b)
def mul (a b : Int) : Res Int := chk (a * b)
def neg (a : Int) : Res Int := chk (-a)
def div (a b : Int) : Res Int := if b = 0 then panic else chk (a.tdiv b)
def rem (a b : Int) : Res Int := if b = 0 then panic else if a = MIN ∧ b = -1 then panic else ok (a.tmod b)
def rem_euclid (a b : Int) : Res Int := if b = 0 then panic else ok (a % b)
def is_zero (a : Int) : Bool := decide (a = 0)
def is_one (a : Int) : Bool := decide (a = 1)
def is_negative (a : Int) : Bool := decide (a < 0)
def is_positive (a : Int) : Bool := decide (0 < a)

/-- loop of `num_integer::Integer::extended_gcd`: state `(r, s, t)`, each a pair (new, old) -/
def xgcdLoop : Nat → Int × Int → Int × Int → Int × Int → Res ((Int × Int) × (Int × Int) × (Int × Int))
  | 0, _, _, _ => err
  | fuel + 1, r, s, t =>
    if r.1 == 0 then ok (r, s, t)
    else
      let q := r.2.tdiv r.1
      xgcdLoop fuel (r.2 - q * r.1, r.1) (s.2 - q * s.1, s.1) (t.2 - q * t.1, t.1)

/-- `I::gcdx(x, y)`: `(gcd, s, t)` with `s·x + t·y = gcd ≥ 0` -/
def gcdx (x y : Int) : Res (Int × Int × Int) := do
  let (r, s, t) ← xgcdLoop (y.natAbs + 2) (y, x) (0, 1) (1, 0)
  if r.2 ≥ 0 then ok (r.2, s.2, t.2) else ok (0 - r.2, 0 - s.2, 0 - t.2)

end I32

end Yuiv.Rust
