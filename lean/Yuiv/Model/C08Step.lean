import Yuiv.Model.Res
import Yuiv.Model.C08
/-
C08 — code model of `Schur::from_partial_triangular` (yui-matrix/src/sparse/schur.rs) together with the
triangular solver it calls (`triang.rs: solve_triangular / solve_triangular_left / _solve_triangular`).

Dense model of the sparse code: a sparse matrix is modelled by its dense content (structural zeros are never
stored by `divide4` / `from_entries`, so "stored entry" = "non-zero entry").  Rust panics are explicit:
  * `assert!(r <= nrows)`, `assert!(r <= ncols)`;
  * `debug_assert!(a.is_triang(t))` (the harness builds the library with debug assertions);
  * `u.inv().unwrap()` on a non-unit diagonal entry that is actually needed;
  * `debug_assert!(b.iter().all(is_zero))` after the substitution.
The outputs (Schur complement and the four transfer matrices) are uniquely determined by the input, so the
correspondence run compares them exactly.
-/
namespace Yuiv.C08
open Yuiv

/-- ring operations of one scalar type (passed explicitly; import-free) -/
structure Ops (α : Type) where
  zero : α
  one : α
  add : α → α → α
  mul : α → α → α
  neg : α → α
  isZero : α → Bool
  inv? : α → Option α
  shw : α → String

abbrev DMat (α : Type) := Array (Array α)

variable {α : Type}

def dget (R : Ops α) (A : DMat α) (i j : Nat) : α := (A.getD i #[]).getD j R.zero

def dmk (m n : Nat) (f : Nat → Nat → α) : DMat α :=
  Array.ofFn (n := m) fun i => Array.ofFn (n := n) fun j => f i.val j.val

def dtranspose (R : Ops α) (A : DMat α) (m n : Nat) : DMat α := dmk n m fun i j => dget R A j i

/-- `a.is_triang(t)` for a square `r × r` matrix -/
def isTriang (R : Ops α) (upper : Bool) (a : DMat α) (r : Nat) : Bool :=
  allN r fun i => allN r fun j =>
    R.isZero (dget R a i j) || (if upper then i ≤ j else j ≤ i)

/-- `collect_diag`: the stored (= non-zero) diagonal entries, in index order -/
def collectDiag (R : Ops α) (a : DMat α) (r : Nat) : List α :=
  (List.range r).filterMap fun i => let v := dget R a i i; if R.isZero v then none else some v

/-- `_solve_triangular(t, a, diag, b)`: substitution on one right-hand side; returns the dense solution -/
def solveCol (R : Ops α) (upper : Bool) (a : DMat α) (r : Nat) (diag : List α) (b : Array α) : Res (Array α) := do
  let idx := List.range diag.length
  let order := if upper then idx.reverse else idx
  let mut b := b
  let mut x : Array α := Array.replicate r R.zero
  for j in order do
    let bj := b.getD j R.zero
    if R.isZero bj then continue
    match R.inv? (diag.getD j R.zero) with
    | none => Res.panic           -- `u.inv().unwrap()`
    | some uinv =>
      let xj := R.mul bj uinv
      for i in [0:r] do
        let aij := dget R a i j
        if !R.isZero aij then
          b := b.setIfInBounds i (R.add (b.getD i R.zero) (R.neg (R.mul aij xj)))
      x := x.setIfInBounds j xj
  -- debug_assert!(b all zero)
  if !(b.all R.isZero) then Res.panic
  return x

/-- `solve_triangular(t, a, y)`: `a x = y`, `a : r × r`, `y : r × k` -/
def solveTri (R : Ops α) (upper : Bool) (a : DMat α) (r : Nat) (y : DMat α) (k : Nat) : Res (DMat α) := do
  Res.assert (isTriang R upper a r)
  let diag := collectDiag R a r
  let mut cols : Array (Array α) := #[]
  for j in [0:k] do
    let b : Array α := Array.ofFn (n := r) fun i => dget R y i.val j
    let x ← solveCol R upper a r diag b
    cols := cols.push x
  return dmk r k fun i j => (cols.getD j #[]).getD i R.zero

/-- `solve_triangular_left(t, a, y)`: `x a = y` through transposes -/
def solveTriLeft (R : Ops α) (upper : Bool) (a : DMat α) (r : Nat) (y : DMat α) (k : Nat) : Res (DMat α) := do
  let xt ← solveTri R (!upper) (dtranspose R a r r) r (dtranspose R y k r) k
  return dtranspose R xt r k

structure SchurOut (α : Type) where
  s : DMat α       -- (m-r) × (n-r)
  fsrc : DMat α    -- (n-r) × n
  bsrc : DMat α    -- n × (n-r)
  ftgt : DMat α    -- (m-r) × m
  btgt : DMat α    -- m × (m-r)

/-- `Schur::from_partial_triangular(t, abcd, r, true)` -/
def schurModel (R : Ops α) (upper : Bool) (M : DMat α) (m n r : Nat) : Res (SchurOut α) := do
  Res.assert (r ≤ m)
  Res.assert (r ≤ n)
  let a := dmk r r fun i j => dget R M i j
  let b := dmk r (n - r) fun i j => dget R M i (r + j)
  let c := dmk (m - r) r fun i j => dget R M (r + i) j
  let d := dmk (m - r) (n - r) fun i j => dget R M (r + i) (r + j)
  let ainvb ← solveTri R upper a r b (n - r)
  -- s = d - c * ainvb  (column by column in the code)
  let s := dmk (m - r) (n - r) fun i j =>
    R.add (dget R d i j) (R.neg ((List.range r).foldl (fun acc t => R.add acc (R.mul (dget R c i t) (dget R ainvb t j))) R.zero))
  let fsrc := dmk (n - r) n fun i j => if j = r + i then R.one else R.zero
  let bsrc := dmk n (n - r) fun i j => if i < r then R.neg (dget R ainvb i j) else if i - r = j then R.one else R.zero
  let cainv ← solveTriLeft R upper a r c (m - r)
  let ftgt := dmk (m - r) m fun i j => if j < r then R.neg (dget R cainv i j) else if j - r = i then R.one else R.zero
  let btgt := dmk m (m - r) fun i j => if i = r + j then R.one else R.zero
  return { s, fsrc, bsrc, ftgt, btgt }

/-! ### scalar instances -/

def opsZ : Ops Int where
  zero := 0
  one := 1
  add := (· + ·)
  mul := (· * ·)
  neg := (- ·)
  isZero := (· == 0)
  inv? := fun a => if a == 1 || a == -1 then some a else none
  shw := toString

def opsP (p : Nat) : Ops Int where
  zero := 0
  one := 1 % (p : Int)
  add := fun a b => (a + b) % (p : Int)
  mul := fun a b => (a * b) % (p : Int)
  neg := fun a => (-a) % (p : Int)
  isZero := fun a => a % (p : Int) == 0
  inv? := fun a => if a % (p : Int) == 0 then none else some (powMod a (p - 2) p)
  shw := fun a => toString (a % (p : Int))

def showRat (q : Rat) : String := s!"{q.num}/{q.den}"

def opsQ : Ops Rat where
  zero := 0
  one := 1
  add := (· + ·)
  mul := (· * ·)
  neg := (- ·)
  isZero := (· == 0)
  inv? := fun a => if a == 0 then none else some a⁻¹
  shw := showRat

def Poly.trim (xs : List Int) : List Int := (xs.reverse.dropWhile (· == 0)).reverse

def Poly.showP (a : Poly) : String :=
  let t := Poly.trim a.c
  if t.isEmpty then "0" else ",".intercalate (t.map toString)

def opsZH : Ops Poly where
  zero := 0
  one := 1
  add := (· + ·)
  mul := (· * ·)
  neg := fun a => ⟨Poly.scaleL (-1) a.c⟩
  isZero := fun a => Poly.isZeroL a.c
  inv? := fun a => match Poly.trim a.c with
    | [1] => some ⟨[1]⟩
    | [-1] => some ⟨[-1]⟩
    | _ => none
  shw := Poly.showP

def showDMat (R : Ops α) (A : DMat α) (m n : Nat) : String :=
  Id.run do
    let mut s := s!"{m} {n}"
    for i in [0:m] do
      for j in [0:n] do
        s := s ++ " " ++ R.shw (dget R A i j)
    return s

def showSchur (R : Ops α) (m n r : Nat) : Res (SchurOut α) → String
  | .ok o => " | ".intercalate [showDMat R o.s (m - r) (n - r), showDMat R o.fsrc (n - r) n, showDMat R o.bsrc n (n - r),
      showDMat R o.ftgt (m - r) m, showDMat R o.btgt m (m - r)]
  | .panic => "panic"
  | .err => "err"

end Yuiv.C08
