import Yuiv.Model.Res
import Yuiv.Model.RustLink
import Yuiv.Model.RustMap
/-
Prelude of the definitions that `tools/rs2lean_fn.py` (target `fn:braid`; renderer tools/rs2lean_link.py) generates from
yui-link/src/braid.rs, in addition to Yuiv/Model/RustLink.lean (hand-written, Mathlib-free, TRUSTED).

* `i32` is the unbounded `Int`: `abs` and the unary minus never overflow (a generator index is below the number of strands).
  `GetSign::sign` of a `Signed` number is `Pos` iff it is positive (`0` is `Neg`).
* `let m: HashMap<K, V> = pairs.collect()` inserts the pairs in order; a later binding of a key OVERWRITES the earlier one
  (`AMap.insert` of Yuiv/Model/RustMap.lean: association list with distinct keys); `m.get(&k)` is the lookup.
-/
namespace Yuiv.Rust
namespace Lk

/-- `i32::abs` -/
def iabs (x : Int) : Int := if x < 0 then -x else x

/-- `GetSign::sign` -/
def isign (x : Int) : Sign := if x > 0 then .Pos else .Neg

abbrev HashMap (K V : Type) := AMap K V

/-- `FromIterator<(K, V)> for HashMap<K, V>` -/
def HashMap.from_iter {K V} [DecidableEq K] (l : List (K × V)) : HashMap K V :=
  l.foldl (fun m kv => AMap.insert m kv.1 kv.2) AMap.new

end Lk
end Yuiv.Rust
