/-
Coefficient rings used by the C16 driver besides `Int` and core `Rat`: F_3 and Z[i].
Import-free.  `Yuiv.Proofs.C16Rings` shows that both are commutative rings, so that the generic theorems of
`Yuiv.Props.C16` (stated for an arbitrary commutative ring) apply to the instances the driver runs.
-/
namespace Yuiv.C16

/-- `FF<3>`: the representative in `0..3` -/
structure F3 where
  v : Fin 3
deriving DecidableEq, Repr

instance : Zero F3 := ⟨⟨0⟩⟩
instance : One F3 := ⟨⟨1⟩⟩
instance : Add F3 := ⟨fun a b => ⟨a.v + b.v⟩⟩
instance : Mul F3 := ⟨fun a b => ⟨a.v * b.v⟩⟩
instance : Neg F3 := ⟨fun a => ⟨0 - a.v⟩⟩

def F3.ofInt (n : Int) : F3 := ⟨⟨(n % 3).toNat % 3, Nat.mod_lt _ (by decide)⟩⟩

/-- `GaussInt<i64> = QuadInt<i64, -1>`: `re + im·i` -/
structure GInt where
  re : Int
  im : Int
deriving DecidableEq, Repr

instance : Zero GInt := ⟨⟨0, 0⟩⟩
instance : One GInt := ⟨⟨1, 0⟩⟩
instance : Add GInt := ⟨fun a b => ⟨a.re + b.re, a.im + b.im⟩⟩
instance : Mul GInt := ⟨fun a b => ⟨a.re * b.re - a.im * b.im, a.re * b.im + a.im * b.re⟩⟩
instance : Neg GInt := ⟨fun a => ⟨-a.re, -a.im⟩⟩

end Yuiv.C16
