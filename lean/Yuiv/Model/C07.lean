import Yuiv.Model.Res
/-
C07 — homology of a chain complex  C1 --d1--> C2 --d2--> C3  over a Euclidean domain.

Import-free executable part (core Lean only):

* `Mat`            dense matrices over `Int` (entries read through `Mat.get`, out of range = 0);
* `check`          the *checker* for one answer of `HomologyCalc::calculate(d1, d2, true)` /
                   `ChainComplex::homology_at`: given `d1, d2`, the reported `rank`, torsion orders `tors`,
                   the coordinate matrix `P` (`Trans::forward_mat`, i.e. `vectorize`) and the generator matrix
                   `Q` (`Trans::backward_mat`, i.e. `devectorize`/`gen`), all over `Z` (`p = 0`) or over
                   `F_p` (entries are representatives), it decides
                       d2·d1 = 0 (precondition),  P·Q = I,  d2·Q = 0,
                       (P·d1) has zero free rows and torsion row k divisible by tors[k];
                   soundness theorems are in `Yuiv/Proofs/C07.lean`, `Yuiv/Props/C07.lean`;
* `snfDiag`, `rankModP`, `homologyOf`   an independent computation of the invariant factors / rank (own
                   elimination, not a transcription of the Rust SNF), giving the uniquely determined part of
                   the answer: `rank = n − rank d1 − rank d2`, torsion = invariant factors `> 1` of `d1`;
* the code model of `HomologyCalc::{calculate, process_snf, result, trans}` (on top of an SNF routine passed as a
  parameter) is in `Yuiv/Model/C07Calc.lean`, the one of `Trans` in `Yuiv/Model/C07Trans.lean`.
-/
namespace Yuiv.C07

/-- dense `r × c` matrix, row-major -/
structure Mat where
  r : Nat
  c : Nat
  e : Array Int
deriving Repr, Inhabited, BEq

namespace Mat

/-- entry `(i, j)`; `0` outside the shape -/
@[inline] def get (A : Mat) (i j : Nat) : Int :=
  if i < A.r ∧ j < A.c then A.e.getD (i * A.c + j) 0 else 0

def wf (A : Mat) : Bool := A.e.size == A.r * A.c

/-- build from an entry function -/
def ofFn (r c : Nat) (f : Nat → Nat → Int) : Mat :=
  ⟨r, c, Array.ofFn (n := r * c) fun k => f (k.val / c) (k.val % c)⟩

def zero (r c : Nat) : Mat := ⟨r, c, Array.replicate (r * c) 0⟩
def id (n : Nat) : Mat := ofFn n n fun i j => if i = j then 1 else 0

/-- `(A·B)[i,j]`, summing over the columns of `A` -/
def dot (A B : Mat) (i j : Nat) : Int :=
  (List.range A.c).foldl (fun s k => s + A.get i k * B.get k j) 0

def mul (A B : Mat) : Mat := ofFn A.r B.c fun i j => dot A B i j

def isZero (A : Mat) : Bool := A.e.all (· == 0)

/-- `submat_rows(lo..hi)` -/
def rows (A : Mat) (lo hi : Nat) : Mat := ofFn (hi - lo) A.c fun i j => A.get (lo + i) j
/-- `submat_cols(lo..hi)` -/
def cols (A : Mat) (lo hi : Nat) : Mat := ofFn A.r (hi - lo) fun i j => A.get i (lo + j)
/-- `a.stack(b)`: `a` on top of `b` -/
def stack (A B : Mat) : Mat := ofFn (A.r + B.r) A.c fun i j => if i < A.r then A.get i j else B.get (i - A.r) j
/-- `a.concat(b)`: `a` left of `b` -/
def concat (A B : Mat) : Mat := ofFn A.r (A.c + B.c) fun i j => if j < A.c then A.get i j else B.get i (j - A.c)

end Mat

/-! ### the checker -/

/-- `x = 0` in `Z/p` (for `p = 0`: in `Z`, because `x % 0 = x`) -/
@[inline] def zeroMod (p : Nat) (x : Int) : Bool := x % (p : Int) == 0

def allIJ (r c : Nat) (f : Nat → Nat → Bool) : Bool :=
  (List.range r).all fun i => (List.range c).all fun j => f i j

/-- `A·B = 0` (mod p) -/
def prodZero (p : Nat) (A B : Mat) : Bool :=
  allIJ A.r B.c fun i j => zeroMod p (Mat.dot A B i j)

/-- `A·B = I` (mod p) -/
def prodId (p : Nat) (A B : Mat) : Bool :=
  allIJ A.r B.c fun i j => zeroMod p (Mat.dot A B i j - if i = j then 1 else 0)

/-- boundaries have zero free coordinates, and torsion coordinate `k` divisible by `tors[k]` -/
def bdryOk (p : Nat) (rank : Nat) (tors : Array Int) (P d1 : Mat) : Bool :=
  allIJ P.r d1.c fun i j =>
    if i < rank then zeroMod p (Mat.dot P d1 i j)
    else Mat.dot P d1 i j % tors.getD (i - rank) 0 == 0

/-- one answer of the implementation together with its input -/
structure Answer where
  p : Nat            -- 0: over Z; a prime: over F_p (then `tors` must be empty)
  d1 : Mat           -- n × m
  d2 : Mat           -- k × n
  rank : Nat
  tors : Array Int
  P : Mat            -- (rank + t) × n   chain -> homology coordinates
  Q : Mat            -- n × (rank + t)   homology coordinates -> chain (columns = generators)

def Answer.n (a : Answer) : Nat := a.d1.r
def Answer.dim (a : Answer) : Nat := a.rank + a.tors.size

def shapesOk (a : Answer) : Bool :=
  a.d1.wf && a.d2.wf && a.P.wf && a.Q.wf &&
  a.d2.c == a.n && a.P.r == a.dim && a.P.c == a.n && a.Q.r == a.n && a.Q.c == a.dim &&
  (a.p == 0 || a.tors.size == 0)

/-- torsion orders are non-zero non-units of `Z` -/
def torsOk (a : Answer) : Bool := a.tors.all fun x => decide (1 < x.natAbs)

inductive Verdict where
  | ok | shape | precond | tors | pq | cycle | bdry
deriving Repr, DecidableEq, Inhabited

def Verdict.text : Verdict → String
  | .ok => "ok" | .shape => "shape" | .precond => "precond" | .tors => "tors"
  | .pq => "pq" | .cycle => "cycle" | .bdry => "bdry"

def check (a : Answer) : Verdict :=
  if !shapesOk a then .shape
  else if !prodZero a.p a.d2 a.d1 then .precond
  else if !torsOk a then .tors
  else if !prodId a.p a.P a.Q then .pq
  else if !prodZero a.p a.d2 a.Q then .cycle
  else if !bdryOk a.p a.rank a.tors a.P a.d1 then .bdry
  else .ok

/-- `assert_eq!(d1.nrows(), d2.ncols())` at the head of `HomologyCalc::calculate` -/
def calcShape (d1 d2 : Mat) : Res Unit := Res.assert (d1.r == d2.c)

/-! ### independent rank / invariant factors (own elimination on rows) -/

abbrev Rows := Array (Array Int)

def Mat.toRows (A : Mat) : Rows :=
  Array.ofFn (n := A.r) fun i => Array.ofFn (n := A.c) fun j => A.get i.val j.val

@[inline] def rget (a : Rows) (i j : Nat) : Int := (a.getD i #[]).getD j 0

def rswapRows (a : Rows) (i j : Nat) : Rows :=
  if i = j then a else
    let ri := a.getD i #[]; let rj := a.getD j #[]
    (a.setIfInBounds i rj).setIfInBounds j ri

def rswapCols (a : Rows) (i j : Nat) : Rows :=
  if i = j then a else
    a.map fun row => let x := row.getD i 0; let y := row.getD j 0; (row.setIfInBounds i y).setIfInBounds j x

/-- row_i += q * row_t -/
def raddRow (a : Rows) (i t : Nat) (q : Int) : Rows :=
  let rt := a.getD t #[]
  a.setIfInBounds i (Array.ofFn (n := (a.getD i #[]).size) fun j => (a.getD i #[]).getD j.val 0 + q * rt.getD j.val 0)

/-- col_j += q * col_t -/
def raddCol (a : Rows) (j t : Nat) (q : Int) : Rows :=
  a.map fun row => row.setIfInBounds j (row.getD j 0 + q * row.getD t 0)

/-- position of a non-zero entry of least absolute value among rows, cols `≥ t` -/
def minEntry (a : Rows) (r c t : Nat) : Option (Nat × Nat × Nat) :=
  (List.range (r - t)).foldl (init := none) fun best di =>
    (List.range (c - t)).foldl (init := best) fun best dj =>
      let x := (rget a (t + di) (t + dj)).natAbs
      if x = 0 then best else
        match best with
        | none => some (x, t + di, t + dj)
        | some (y, _, _) => if x < y then some (x, t + di, t + dj) else best

/-- first entry `(i, j)`, `i, j > t`, not divisible by the pivot `a[t][t]` -/
def nonDivisible (a : Rows) (r c t : Nat) : Option Nat :=
  let pv := rget a t t
  ((List.range (r - t - 1)).find? fun di =>
    (List.range (c - t - 1)).any fun dj => rget a (t + 1 + di) (t + 1 + dj) % pv != 0).map (t + 1 + ·)

/-- Smith diagonal over `Z` (absolute values of the non-zero invariant factors, in divisibility order);
`none` if the fuel runs out. -/
def snfLoop (r c : Nat) : Nat → Rows → Nat → List Int → Option (List Int)
  | 0, _, _, _ => none
  | fuel + 1, a, t, acc =>
    match minEntry a r c t with
    | none => some acc.reverse
    | some (_, i, j) =>
      let a := rswapCols (rswapRows a t i) t j
      let pv := rget a t t
      -- reduce column t and row t by the pivot
      let a := (List.range (r - t - 1)).foldl (init := a) fun a di =>
        let i := t + 1 + di
        let x := rget a i t
        if x = 0 then a else raddRow a i t (-(x / pv))
      let a := (List.range (c - t - 1)).foldl (init := a) fun a dj =>
        let j := t + 1 + dj
        let x := rget a t j
        if x = 0 then a else raddCol a j t (-(x / pv))
      let dirty :=
        (List.range (r - t - 1)).any (fun di => rget a (t + 1 + di) t != 0) ||
        (List.range (c - t - 1)).any (fun dj => rget a t (t + 1 + dj) != 0)
      if dirty then snfLoop r c fuel a t acc
      else
        match nonDivisible a r c t with
        | some i => snfLoop r c fuel (raddRow a t i 1) t acc
        | none => snfLoop r c fuel a (t + 1) ((Int.ofNat pv.natAbs) :: acc)

def snfFuel : Nat := 2000000

def snfDiag (A : Mat) : Option (List Int) := snfLoop A.r A.c snfFuel A.toRows 0 []

/-- inverse of `x ≠ 0` modulo the prime `p` (`x^(p-2)`) -/
def invMod (p : Nat) (x : Int) : Int :=
  (List.range (p - 2)).foldl (fun s _ => s * x % (p : Int)) 1 % (p : Int)

/-- rank over `F_p` by Gauss elimination on representatives -/
def rankLoop (p r c : Nat) : Nat → Rows → Nat → Nat → Nat
  | 0, _, _, rk => rk
  | fuel + 1, a, j, rk =>
    if j ≥ c ∨ rk ≥ r then rk else
      match (List.range (r - rk)).find? (fun di => rget a (rk + di) j % (p : Int) != 0) with
      | none => rankLoop p r c fuel a (j + 1) rk
      | some di =>
        let a := rswapRows a rk (rk + di)
        let inv := invMod p (rget a rk j)
        let a := (List.range (r - rk - 1)).foldl (init := a) fun a di =>
          let i := rk + 1 + di
          let x := rget a i j % (p : Int)
          if x = 0 then a else
            let a := raddRow a i rk (-(x * inv % (p : Int)))
            a.setIfInBounds i ((a.getD i #[]).map (· % (p : Int)))
        rankLoop p r c fuel a (j + 1) (rk + 1)

def rankModP (p : Nat) (A : Mat) : Nat := rankLoop p A.r A.c (A.c + 1) A.toRows 0 0

/-- the uniquely determined part of the answer, computed independently of the implementation:
`(rank, torsion orders > 1 in divisibility order)`; `none`: fuel exhausted or `n < r1 + r2`. -/
def homologyOf (p : Nat) (d1 d2 : Mat) : Option (Nat × List Int) :=
  if p = 0 then do
    let f1 ← snfDiag d1
    let f2 ← snfDiag d2
    if d1.r < f1.length + f2.length then none
    else some (d1.r - f1.length - f2.length, f1.filter (fun x => decide (1 < x)))
  else
    let r1 := rankModP p d1
    let r2 := rankModP p d2
    if d1.r < r1 + r2 then none else some (d1.r - r1 - r2, [])

end Yuiv.C07
