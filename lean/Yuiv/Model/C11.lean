import Std.Data.HashMap
import Yuiv.Model.Res
/-
C11 — code model of `yui-matrix/src/sparse/pivot.rs` (PivotFinder), import-free (core `Init`/`Std` only).

* `Str`        = `MatrixStr` (row → columns in storage order, candidate flags, row/column weights).
                 Weights are natural numbers: for all scalar types used (`i64`, `Ratio<i64>`, `FF<p>`, `Poly`)
                 `c_weight` is integer valued and the `f64` sums are exact, so `partial_cmp` is the order of ℕ.
* `Pivs`       = `PivotData` (col ↦ row with insertion order) as the list of `(row, col)` in insertion order.
* `Worker`     = `RowWorker` + the thread's `loc_pivots` (represented by its length `k`: the shared list is
                 append-only, so the local copy is always the prefix `S.take k`).
* `findFlPivots`, `findFlColPivots` = the two sequential phases.
* `State`/`Act`/`step`/`run` = the parallel phase as a transition system.  A step is what the code does between
                 two lock operations:  `start` (`update_from` under the read lock + `init`), `search`
                 (`traverse` + `choose_candidate`, lock-free, on the snapshot), `validate` (the critical section
                 under the write lock: `update_diff`, then retry with the new snapshot or `set`).
                 The scheduler is the list of actions: any number of workers, any interleaving.
* `topSort`, `result` = Kahn's algorithm of `yui/src/algo/top_sort.rs` and `PivotFinder::result`.
* `permForIndices` = `sparse/util.rs::perm_for_indices`.

Rust panics are `Res.panic` (`assert!(!has_col(j))` in `PivotData::set`, `assert_eq!(status, None)` in
`set_candidate`, the checked `ncand -= 1`, `row_for(j).unwrap()` in `traverse`, `top_sort(..).unwrap()`,
index out of range when the structure is built).  `Res.err` = a step that is not enabled / fuel exhausted.
-/
namespace Yuiv.C11
open Yuiv Res Std

/-! ### MatrixStr -/

structure Str where
  nrows : Nat
  ncols : Nat
  ent : Array (List Nat)   -- row → columns, in storage order
  cnd : Array (List Nat)   -- row → candidate columns
  rowW : Array Nat
  colW : Array Nat
deriving Repr, Inhabited

def Str.empty (m n : Nat) : Str :=
  ⟨m, n, Array.replicate m [], Array.replicate m [], Array.replicate m 0, Array.replicate n 0⟩

/-- one iteration of the loop in `MatrixStr::new` for a non-zero entry `(i, j)` (internal orientation)
with weight `w` and candidate flag `c` -/
def Str.push (s : Str) (i j w : Nat) (c : Bool) : Res Str :=
  if i < s.nrows ∧ j < s.ncols then
    ok { s with
      ent := s.ent.modify i (· ++ [j])
      rowW := s.rowW.modify i (· + w)
      colW := s.colW.modify j (· + w)
      cnd := if c then s.cnd.modify i (· ++ [j]) else s.cnd }
  else panic

def Str.pushAll (s : Str) : List (Nat × Nat × Nat × Bool) → Res Str
  | [] => ok s
  | (i, j, w, c) :: es => do let s ← s.push i j w c; s.pushAll es

def Str.build (m n : Nat) (es : List (Nat × Nat × Nat × Bool)) : Res Str := (Str.empty m n).pushAll es

def colsIn (s : Str) (i : Nat) : List Nat := s.ent.getD i []
def isCand (s : Str) (i j : Nat) : Bool := (s.cnd.getD i []).contains j
def isEmptyRow (s : Str) (i : Nat) : Bool := (colsIn s i).isEmpty
def headColIn (s : Str) (i : Nat) : Option Nat := (colsIn s i).head?

/-- strictly increasing -/
def incrB : List Nat → Bool
  | [] => true
  | a :: l => l.all (fun b => a < b) && incrB l

/-- decidable well-formedness: every row's columns strictly increasing (CSC iteration order), candidate
columns are entries of their row.  Checked by the driver for every structure it receives. -/
def Str.wfB (s : Str) : Bool :=
  (List.range (max s.ent.size s.cnd.size)).all (fun i =>
    incrB (s.ent.getD i []) && (s.cnd.getD i []).all (fun j => (s.ent.getD i []).contains j))

/-- `cmp_rows(i1,i2) != Greater` -/
def leRows (s : Str) (i1 i2 : Nat) : Bool :=
  let w1 := s.rowW.getD i1 0; let w2 := s.rowW.getD i2 0
  w1 < w2 || (w1 == w2 && i1 ≤ i2)
/-- `cmp_cols(j1,j2) == Less` -/
def ltCols (s : Str) (j1 j2 : Nat) : Bool :=
  let w1 := s.colW.getD j1 0; let w2 := s.colW.getD j2 0
  w1 < w2 || (w1 == w2 && j1 < j2)

/-- first element of `js.sorted_by(cmp_cols)` -/
def minCol (s : Str) : List Nat → Option Nat
  | [] => none
  | j :: js => match minCol s js with
    | none => some j
    | some j' => if ltCols s j' j then some j' else some j

/-! ### PivotData -/

abbrev Pivs := List (Nat × Nat)   -- (row, col) in insertion order

def rowFor (S : Pivs) (j : Nat) : Option Nat :=
  match S.find? (fun p => p.2 == j) with
  | some p => some p.1
  | none => none
def hasCol (S : Pivs) (j : Nat) : Bool := (rowFor S j).isSome
def hasRow (S : Pivs) (i : Nat) : Bool := S.any (fun p => p.1 == i)

/-- `PivotData::set` -/
def Pivs.set (S : Pivs) (i j : Nat) : Res Pivs :=
  if hasCol S j then panic else ok (S ++ [(i, j)])

/-! ### sequential phases -/

/-- `remain_rows()` -/
def remainRows (s : Str) (S : Pivs) : List Nat :=
  ((List.range s.nrows).filter (fun i => !hasRow S i && !isEmptyRow s i)).mergeSort (leRows s)

def flLoop (s : Str) : List Nat → Pivs → Res Pivs
  | [], S => ok S
  | i :: is, S =>
    match headColIn s i with
    | none => flLoop s is S
    | some j =>
      if !hasCol S j && isCand s i j then do let S ← S.set i j; flLoop s is S
      else flLoop s is S

/-- `find_fl_pivots` -/
def findFlPivots (s : Str) (S : Pivs) : Res Pivs := flLoop s (remainRows s S) S

/-- `occupied_cols()` (as a list; only membership is used) -/
def occupiedCols (s : Str) (S : Pivs) : List Nat := S.flatMap (fun p => colsIn s p.1)

def flColLoop (s : Str) : List Nat → List Nat → Pivs → Res Pivs
  | [], _, S => ok S
  | i :: is, occ, S =>
    let cands := (colsIn s i).filter (fun j => !occ.contains j && isCand s i j)
    match minCol s cands with
    | none => flColLoop s is occ S
    | some j => do
      let S ← S.set i j
      flColLoop s is (colsIn s i ++ occ) S

/-- `find_fl_col_pivots` -/
def findFlColPivots (s : Str) (S : Pivs) : Res Pivs :=
  flColLoop s (remainRows s S) (occupiedCols s S) S

/-- the two sequential phases, starting from the empty table -/
def seqPhases (s : Str) : Res Pivs := do
  let S ← findFlPivots s []
  findFlColPivots s S

/-! ### RowWorker -/

inductive Mark where
  | none | cand | occ
deriving DecidableEq, Repr, Inhabited

structure Worker where
  row : Nat
  k : Nat                      -- `loc_pivots.count()`: the snapshot is the first `k` shared pivots
  marks : HashMap Nat Mark     -- `status`
  ncand : Nat
  queue : List Nat
  queued : List Nat
  chosen : Option Nat          -- `some j`: between `choose_candidate` and the write lock
deriving Inhabited

def Worker.mark (w : Worker) (j : Nat) : Mark := w.marks.getD j Mark.none
def Worker.hasCandidate (w : Worker) : Bool := w.ncand > 0
def Worker.isCandidate (w : Worker) (j : Nat) : Bool := w.mark j == Mark.cand
def Worker.isOccupied (w : Worker) (j : Nat) : Bool := w.mark j == Mark.occ
def Worker.isQueued (w : Worker) (j : Nat) : Bool := w.queued.contains j

def Worker.enqueue (w : Worker) (j : Nat) : Worker :=
  { w with queue := w.queue ++ [j], queued := j :: w.queued }

/-- `set_candidate`: `assert_eq!(status[i], None)` -/
def Worker.setCandidate (w : Worker) (j : Nat) : Res Worker :=
  if w.mark j = Mark.none then ok { w with marks := w.marks.insert j Mark.cand, ncand := w.ncand + 1 }
  else panic

/-- `set_occupied`: `ncand -= 1` is a checked subtraction -/
def Worker.setOccupied (w : Worker) (j : Nat) : Res Worker :=
  if w.mark j = Mark.cand then
    if w.ncand = 0 then panic
    else ok { w with marks := w.marks.insert j Mark.occ, ncand := w.ncand - 1 }
  else ok { w with marks := w.marks.insert j Mark.occ }

def Worker.new (i k : Nat) : Worker := ⟨i, k, {}, 0, [], [], none⟩

/-- the loop of `init` over the columns of the row; `P` is the snapshot -/
def initLoop (s : Str) (P : Pivs) (i : Nat) : List Nat → Worker → Res Worker
  | [], w => ok w
  | j :: js, w =>
    if hasCol P j then do
      let w ← (w.enqueue j).setOccupied j
      initLoop s P i js w
    else if isCand s i j then do
      let w ← w.setCandidate j
      initLoop s P i js w
    else do
      let w ← w.setOccupied j
      initLoop s P i js w

/-- `RowWorker::init` (after `clear`) -/
def Worker.init (s : Str) (P : Pivs) (i : Nat) : Res Worker :=
  initLoop s P i (colsIn s i) (Worker.new i P.length)

/-- the inner `for &j2 in str.cols_in(i2)` loop of `traverse`, with its early `break` -/
def rowLoop (P : Pivs) : List Nat → Worker → Res Worker
  | [], w => ok w
  | j2 :: js, w => do
    let w := if hasCol P j2 && !w.isQueued j2 then w.enqueue j2 else w
    let w ← w.setOccupied j2
    if !w.hasCandidate then ok w else rowLoop P js w

/-- the `while let Some(j) = self.dequeue()` loop of `traverse` -/
def travLoop (s : Str) (P : Pivs) : Nat → Worker → Res Worker
  | 0, _ => err
  | fuel + 1, w =>
    match w.queue with
    | [] => ok w
    | j :: q =>
      match rowFor P j with
      | none => panic
      | some i2 => do
        let w ← rowLoop P (colsIn s i2) { w with queue := q }
        travLoop s P fuel w

/-- `RowWorker::traverse`; every dequeued column was enqueued at most once per pivot of the snapshot or
by `init`/`update_diff`, so `P.length + queue.length + 1` iterations suffice -/
def traverse (s : Str) (P : Pivs) (w : Worker) : Res Worker :=
  if !w.hasCandidate then ok w
  else travLoop s P (P.length + w.queue.length + 1) w

/-- `choose_candidate`: first of `(0..n).filter(is_candidate).sorted_by(cmp_cols)` -/
def chooseCandidate (s : Str) (w : Worker) : Option Nat :=
  minCol s ((List.range s.ncols).filter (fun j => w.isCandidate j))

/-- `update_diff`: `new` = the pivots added to the shared table since the snapshot, in order -/
def updateDiff : List (Nat × Nat) → Worker → Res Worker
  | [], w => ok w
  | (_, j) :: ps, w =>
    if w.isCandidate j || w.isOccupied j then do
      let w ← (w.enqueue j).setOccupied j
      updateDiff ps w
    else updateDiff ps w

def Worker.shouldRetry (w : Worker) : Bool := !w.queue.isEmpty

/-! ### the parallel phase as a transition system -/

structure State where
  S : Pivs                 -- shared table (behind the RwLock)
  todo : List Nat          -- rows of `remain_rows` not yet handed to a worker
  ws : List Worker         -- tasks in flight
deriving Inhabited

inductive Act where
  /-- a task starts on `row`; its thread's local copy holds the first `k` shared pivots -/
  | start (row k : Nat)
  /-- `traverse` + `choose_candidate` on the snapshot (no lock held).  The choice among the columns still
  marked `Candidate` is left to the schedule (`none` = give up): the code's policy `chooseCandidate`
  (`cmp_cols`: column weight, then index) is one admissible choice, and nothing below depends on it. -/
  | search (row : Nat) (choice : Option Nat)
  /-- the critical section under the write lock -/
  | validate (row : Nat)
deriving Repr, DecidableEq

/-- what a step did (compared with the recorded event of the real run) -/
inductive Outcome where
  | started (k : Nat)
  | candidate (j : Option Nat) (k : Nat)
  | retry (k cur : Nat)
  | commit (j k idx : Nat)
deriving Repr, DecidableEq

def findWorker (ws : List Worker) (i : Nat) : Option Worker := ws.find? (fun w => w.row == i)
def dropWorker (ws : List Worker) (i : Nat) : List Worker := ws.filter (fun w => !(w.row == i))

def step (s : Str) (st : State) : Act → Res (State × Outcome)
  | .start i k =>
    if st.todo.contains i && k ≤ st.S.length && (findWorker st.ws i).isNone then do
      let w ← Worker.init s (st.S.take k) i
      ok ({ st with todo := st.todo.erase i, ws := w :: st.ws }, .started k)
    else err
  | .search i choice =>
    match findWorker st.ws i with
    | none => err
    | some w =>
      if w.chosen.isSome then err else do
      let w ← traverse s (st.S.take w.k) w
      match choice with
      | none => ok ({ st with ws := dropWorker st.ws i }, .candidate none w.k)
      | some j =>
        if w.isCandidate j then
          ok ({ st with ws := { w with chosen := some j } :: dropWorker st.ws i }, .candidate (some j) w.k)
        else err
  | .validate i =>
    match findWorker st.ws i with
    | none => err
    | some w =>
      match w.chosen with
      | none => err
      | some j => do
        let w' ← updateDiff (st.S.drop w.k) w
        if w'.shouldRetry then
          ok ({ st with ws := { w' with k := st.S.length, chosen := none } :: dropWorker st.ws i },
              .retry w.k st.S.length)
        else do
          let S' ← st.S.set w.row j
          ok ({ st with S := S', ws := dropWorker st.ws i }, .commit j w.k st.S.length)

/-- run a schedule; the outcomes are returned in order -/
def run (s : Str) : State → List Act → Res (State × List Outcome)
  | st, [] => ok (st, [])
  | st, a :: as => do
    let (st, o) ← step s st a
    let (st, os) ← run s st as
    ok (st, o :: os)

/-- the state in which `find_cycle_free_pivots_m` starts -/
def initState (s : Str) : Res State := do
  let S ← seqPhases s
  ok ⟨S, remainRows s S, []⟩

/-- the code's own policy for a `search` step of row `i` in state `st` -/
def policyChoice (s : Str) (st : State) (i : Nat) : Option Nat :=
  match findWorker st.ws i with
  | none => none
  | some w =>
    match traverse s (st.S.take w.k) w with
    | ok w' => chooseCandidate s w'
    | _ => none

/-! ### `top_sort` and `result()` -/

/-- the graph handed to `top_sort`: pivot column ↦ the other pivot columns in its row -/
def depGraph (s : Str) (S : Pivs) : List (Nat × List Nat) :=
  S.map (fun p => (p.2, (colsIn s p.1).filter (fun j2 => p.2 != j2 && hasCol S j2)))

def succs (g : List (Nat × List Nat)) (v : Nat) : List Nat :=
  match g.find? (fun e => e.1 == v) with
  | some e => e.2
  | none => []

/-- in-degree table `weight` -/
def indeg (g : List (Nat × List Nat)) (v : Nat) : Nat :=
  (g.flatMap (fun e => e.2)).count v

/-- `for &j in data[&i]: w[j] -= 1; if w[j] == 0 push_back(j)` -/
def relax : List Nat → HashMap Nat Nat → List Nat → Res (HashMap Nat Nat × List Nat)
  | [], wt, q => ok (wt, q)
  | j :: js, wt, q =>
    match wt.get? j with
    | none => panic                                  -- `weight.get_mut(&j).unwrap()`
    | some 0 => panic                                -- checked `*w -= 1`
    | some (c + 1) => relax js (wt.insert j c) (if c = 0 then q ++ [j] else q)

def kahnLoop (g : List (Nat × List Nat)) : Nat → HashMap Nat Nat → List Nat → List Nat → Res (List Nat)
  | 0, _, _, _ => err
  | fuel + 1, wt, q, res =>
    match q with
    | [] => ok res
    | i :: q => do
      let (wt, q) ← relax (succs g i) wt q
      kahnLoop g fuel wt q (res ++ [i])

/-- `top_sort`; `keys` = the (arbitrary) iteration order of the hash map's keys.
`Res.err` = `Err(..)`, on which `result()` panics through `unwrap`. -/
def topSort (g : List (Nat × List Nat)) (keys : List Nat) : Res (List Nat) :=
  if g.isEmpty then ok [] else
  if (g.flatMap (fun e => e.2)).any (fun v => !keys.contains v) then err else   -- "Vertex not in key"
  let wt : HashMap Nat Nat := keys.foldl (fun m v => m.insert v (indeg g v)) {}
  let q := keys.filter (fun v => indeg g v == 0)
  if q.isEmpty then err else
  match kahnLoop g (g.length + 1) wt q [] with
  | ok res => if res.length < g.length then err else ok res
  | r => r

/-- `sorted.into_iter().map(|j| (row_for(j).unwrap(), j))` -/
def attachRows (S : Pivs) : List Nat → Res (List (Nat × Nat))
  | [] => ok []
  | j :: js =>
    match rowFor S j with
    | none => panic
    | some i => do let r ← attachRows S js; ok ((i, j) :: r)

/-- `PivotFinder::result` in the internal orientation (`keys`: hash-map iteration order) -/
def result (s : Str) (S : Pivs) (keys : List Nat) : Res (List (Nat × Nat)) :=
  match topSort (depGraph s S) keys with
  | ok sorted => attachRows S sorted
  | _ => panic

/-! ### `perm_for_indices` -/

/-- `vec` of `perm_for_indices`: the given indices, then the remaining ones in increasing order;
`assert!(i < n)` -/
def permVec (n : Nat) (idx : List Nat) : Res (List Nat) :=
  if idx.all (· < n) then ok (idx ++ (List.range n).filter (fun i => !idx.contains i)) else panic

/-- `for (i, j) in vec.into_iter().enumerate() { inv[j] = i }`, read at `j`: the loop from position `pos`
with the current content `acc` of `inv[j]` -/
def invFrom : List Nat → Nat → Nat → Nat → Nat
  | [], _, _, acc => acc
  | x :: xs, pos, j, acc => invFrom xs (pos + 1) j (if x == j then pos else acc)

/-- `inv[j]` after the loop (`inv` starts as `vec![0; n]`) -/
def invAt (vec : List Nat) (j : Nat) : Nat := invFrom vec 0 j 0

/-! ### checkers applied to the real code's output -/

/-- the order `L` (list of `(row, col)`) makes the leading block upper triangular: no entry of the row of
a later pivot in the column of an earlier one -/
def checkTri (s : Str) : List (Nat × Nat) → Bool
  | [] => true
  | p :: L => L.all (fun q => !(colsIn s q.1).contains p.2) && checkTri s L

def nodupB : List Nat → Bool
  | [] => true
  | a :: l => !l.contains a && nodupB l

/-- distinct rows, distinct columns, every pivot a candidate entry, triangular in the given order -/
def checkPivots (s : Str) (L : List (Nat × Nat)) : Bool :=
  nodupB (L.map (·.1)) && nodupB (L.map (·.2)) && L.all (fun p => isCand s p.1 p.2) && checkTri s L

/-- checker for a table reported by the real code after its sequential phases: the model's own `result`
(Kahn) must succeed on it and yield a permutation of it that passes `checkPivots` -/
def checkInit (s : Str) (S : Pivs) : Bool :=
  match result s S (S.map (·.2)) with
  | ok L => checkPivots s L && L.isPerm S
  | _ => false

end Yuiv.C11
