import Yuiv.Model.Res
/-
Code model for C16: `yui/src/types/lc/lc.rs` (`Lc<X,R>`) and `yui/src/types/poly/{poly,var,var2,var3,mvar,mdeg,h_poly}.rs`.

Import-free (core Lean only).

* `Lc<X,R>` (an `AHashMap<X,R>`) is modelled by an association list `List (X × R)`; the order of the list
  stands for the (unspecified) iteration order of the hash map.  Every function below walks the list exactly as
  the Rust code walks the map; new keys are appended.  Results of the real code and of the model are compared
  as *sorted* term lists, which is justified by `Props.C16.perm_of_coeff_eq` (two well-formed lists with the
  same coefficient function are permutations of each other).
* The coefficient ring is any type with `0, 1, +, -, *` and decidable equality (`is_zero`, `is_one`);
  the theorems assume a commutative ring.
* `usize`/`isize` exponents are `Nat`/`Int` (no overflow: exponents are assumed far below 2^63), except for
  the `usize` subtraction in `MultiDeg::sub_assign`, whose underflow panic is modelled (`mdSubNat`).
-/
namespace Yuiv.C16

/-! ## `Lc<X,R>` -/
section Lc
variable {X Y R S : Type} [DecidableEq X] [DecidableEq Y] [DecidableEq R] [DecidableEq S]
  [Zero R] [One R] [Add R] [Neg R] [Mul R] [Zero S] [Add S]

/-- `Lc::coeff`: `self.data.get(x).unwrap_or(&self.r_zero)` -/
def coeff : List (X × R) → X → R
  | [], _ => 0
  | (y, v) :: t, x => if y = x then v else coeff t x

/-- body of `add_pair` after the zero test: `if contains_key(x) { *get_mut(x) += r } else { insert(x, r) }` -/
def upd : List (X × R) → X → R → List (X × R)
  | [], x, r => [(x, r)]
  | (y, v) :: t, x, r => if y = x then (y, v + r) :: t else (y, v) :: upd t x r

/-- `Lc::add_pair` / `add_pair_ref` -/
def addPair (l : List (X × R)) (p : X × R) : List (X × R) :=
  if p.2 = 0 then l else upd l p.1 p.2

/-- `Lc::clean`: `retain(|_, r| !r.is_zero())` -/
def clean (l : List (X × R)) : List (X × R) := l.filter (fun p => !decide (p.2 = 0))

/-- `FromIterator<(X,R)> for Lc` -/
def fromIter (it : List (X × R)) : List (X × R) := clean (it.foldl addPair [])

/-- `AddAssign<&Lc>` (all `+`/`+=` forms are generated from it by `auto_ops`) -/
def addAssign (a b : List (X × R)) : List (X × R) := clean (b.foldl addPair a)

/-- `SubAssign<&Lc>`: `add_pair_ref((x, &-r))` for every term of `rhs`, then `clean` -/
def subAssign (a b : List (X × R)) : List (X × R) :=
  clean (b.foldl (fun acc p => addPair acc (p.1, -p.2)) a)

/-- `MulAssign<&R>`: nothing if `rhs.is_one()`, else `*r *= rhs` on every value, then `clean` -/
def smul (a : List (X × R)) (r : R) : List (X × R) :=
  if r = 1 then a else clean (a.map (fun p => (p.1, p.2 * r)))

/-- `Neg`: `map_coeffs(|r| -r)`, i.e. re-collected through `from_iter` -/
def neg (a : List (X × R)) : List (X × R) := fromIter (a.map (fun p => (p.1, -p.2)))

/-- `Lc::map_gens` -/
def mapGens (f : X → Y) (a : List (X × R)) : List (Y × R) := fromIter (a.map (fun p => (f p.1, p.2)))

/-- `Lc::map_coeffs` -/
def mapCoeffs (f : R → S) (a : List (X × R)) : List (X × S) := fromIter (a.map (fun p => (p.1, f p.2)))

/-- `Lc::filter_gens` -/
def filterGens (f : X → Bool) (a : List (X × R)) : List (X × R) := fromIter (a.filter (fun p => f p.1))

/-- `Lc::apply` -/
def apply (f : X → List (X × R)) (a : List (X × R)) : List (X × R) :=
  fromIter (a.flatMap (fun p => (f p.1).map (fun q => (q.1, p.2 * q.2))))

/-- the pairs fed to `add_pair` by `Lc::combine`, in the order of the two nested loops -/
def pairs (f : X → X → X) (a b : List (X × R)) : List (X × R) :=
  a.flatMap (fun p => b.map (fun q => (f p.1 q.1, p.2 * q.2)))

/-- `Lc::combine`: `res = zero; for (x,r) in self { for (y,s) in other { res.add_pair((x_map(x,y), r*s)) } }; res.clean()` -/
def combine (f : X → X → X) (a b : List (X × R)) : List (X × R) := fromIter (pairs f a b)

/-- `Lc::nterms` -/
def nterms (a : List (X × R)) : Nat := a.length

/-- `Zero::is_zero for Lc` -/
def isZero (a : List (X × R)) : Bool := a.isEmpty

/-- `PartialEq` of the underlying hash maps: same length and every entry of `a` is an entry of `b` -/
def lookup? : List (X × R) → X → Option R
  | [], _ => none
  | (y, v) :: t, x => if y = x then some v else lookup? t x

def eqv (a b : List (X × R)) : Bool :=
  a.length == b.length && a.all (fun p => lookup? b p.1 == some p.2)

/-- `Lc::is_gen` / `PolyBase::is_mono` -/
def isGen (a : List (X × R)) : Bool :=
  match a with
  | [p] => decide (p.2 = 1)
  | _ => false

end Lc

/-! ## `PolyBase<X,R>`: an `Lc` over a monomial type -/
section Poly
variable {M R : Type} [DecidableEq M] [Mul M] [One M] [DecidableEq R]
  [Zero R] [One R] [Add R] [Neg R] [Mul R]

/-- `Mul for &Lc<X,R>` with `X: Mul`: `combine(rhs, |x, y| x.clone() * y.clone())` -/
def mul (a b : List (M × R)) : List (M × R) := combine (· * ·) a b

/-- `PolyBase::is_const`: `iter().all(|(x, _)| x.is_one())` -/
def isConst (a : List (M × R)) : Bool := a.all (fun p => decide (p.1 = 1))

/-- `PolyBase::const_term` -/
def constTerm (a : List (M × R)) : R := coeff a 1

/-- `One::is_one for PolyBase` -/
def isOne (a : List (M × R)) : Bool := isConst a && decide (constTerm a = 1)

/-- `PolyBase::from_const` -/
def fromConst (r : R) : List (M × R) := fromIter [((1 : M), r)]

/-- `MulAssign<&PolyBase> for PolyBase` with its three special cases
(every `*` between polynomials is generated from it by `auto_ops`) -/
def mulAssign (a b : List (M × R)) : List (M × R) :=
  if isOne b then a
  else if isConst b then smul a (constTerm b)
  else if isConst a then smul b (constTerm a)      -- `*self = rhs * self.const_term()`
  else mul a b

/-- `Pow<usize> for &PolyBase`: `res = one(); for _ in 0..n { res *= self }` -/
def powP (a : List (M × R)) : Nat → List (M × R)
  | 0 => fromConst 1
  | n + 1 => mulAssign (powP a n) a

/-- `AddMon::sum`: fold from zero with `+=` -/
def sumR (l : List R) : R := l.foldl (· + ·) 0

/-- `eval`: `R::sum(self.iter().map(|(i, r)| r * i.eval(x…)))`, `me` is the monomial's `eval` at the point -/
def evalWith (me : M → R) (a : List (M × R)) : R := sumR (a.map (fun p => p.2 * me p.1))

/-- `Iterator::max_by` (the last maximal element wins), on the terms with the order `cmp` on monomials -/
def maxBy (cmp : M → M → Ordering) : List (M × R) → Option (M × R)
  | [] => none
  | p :: t => some (t.foldl (fun acc q => if cmp acc.1 q.1 = .gt then acc else q) p)

/-- `PolyBase::lead_term` w.r.t. `cmp = cmp_grlex`; the zero polynomial gives `(1, 0)` -/
def leadTerm (cmp : M → M → Ordering) (a : List (M × R)) : M × R :=
  (maxBy cmp a).getD (1, 0)

/-- `x.pow(n)` for `usize` exponents -/
def powNat (x : R) : Nat → R
  | 0 => 1
  | n + 1 => powNat x n * x

end Poly

/-! ## monomial types -/

/-- `I::cmp` for the exponent types -/
def cmpI {I : Type} [LT I] [DecidableLT I] [DecidableEq I] (a b : I) : Ordering :=
  if a < b then .lt else if a = b then .eq else .gt

/-- `Var<X,I>(I)` -/
structure Var (I : Type) where
  e : I
deriving DecidableEq, Repr

/-- `Var2<X,Y,I>(I, I)` -/
structure Var2 (I : Type) where
  e0 : I
  e1 : I
deriving DecidableEq, Repr

/-- `Var3<X,Y,Z,I>(I, I, I)` -/
structure Var3 (I : Type) where
  e0 : I
  e1 : I
  e2 : I
deriving DecidableEq, Repr

section Vars
variable {I : Type} [Add I] [Zero I] [LT I] [DecidableLT I] [DecidableEq I]

instance : Mul (Var I) := ⟨fun a b => ⟨a.e + b.e⟩⟩
instance : One (Var I) := ⟨⟨0⟩⟩
def Var.cmpLex (a b : Var I) : Ordering := cmpI a.e b.e
def Var.cmpGrlex (a b : Var I) : Ordering := cmpI a.e b.e

instance : Mul (Var2 I) := ⟨fun a b => ⟨a.e0 + b.e0, a.e1 + b.e1⟩⟩
instance : One (Var2 I) := ⟨⟨0, 0⟩⟩
def Var2.total (a : Var2 I) : I := a.e0 + a.e1
def Var2.cmpLex (a b : Var2 I) : Ordering := (cmpI a.e0 b.e0).then (cmpI a.e1 b.e1)
def Var2.cmpGrlex (a b : Var2 I) : Ordering := (cmpI a.total b.total).then (Var2.cmpLex a b)

instance : Mul (Var3 I) := ⟨fun a b => ⟨a.e0 + b.e0, a.e1 + b.e1, a.e2 + b.e2⟩⟩
instance : One (Var3 I) := ⟨⟨0, 0, 0⟩⟩
def Var3.total (a : Var3 I) : I := a.e0 + a.e1 + a.e2
def Var3.cmpLex (a b : Var3 I) : Ordering :=
  ((cmpI a.e0 b.e0).then (cmpI a.e1 b.e1)).then (cmpI a.e2 b.e2)
def Var3.cmpGrlex (a b : Var3 I) : Ordering := (cmpI a.total b.total).then (Var3.cmpLex a b)

end Vars

/-! ## `MultiDeg<I>`: a `BTreeMap<usize, I>`, modelled by its key-sorted entry list -/
section MDeg
variable {I : Type} [Add I] [Zero I] [LT I] [DecidableLT I] [DecidableEq I]

/-- `Index<usize>`: `self.data.get(&i).unwrap_or(&self._zero)` -/
def mdGet : List (Nat × I) → Nat → I
  | [], _ => 0
  | (j, e) :: t, i => if j = i then e else mdGet t i

/-- `BTreeMap::insert` (overwrites an existing key) -/
def mdInsert : List (Nat × I) → Nat → I → List (Nat × I)
  | [], i, v => [(i, v)]
  | (j, e) :: t, i, v =>
    if i < j then (i, v) :: (j, e) :: t
    else if i = j then (j, v) :: t
    else (j, e) :: mdInsert t i v

/-- `FromIterator<(usize, I)>`: `filter(|(_, v)| !v.is_zero()).collect()` -/
def mdFromIter (it : List (Nat × I)) : List (Nat × I) :=
  (it.filter (fun p => !decide (p.2 = 0))).foldl (fun acc p => mdInsert acc p.1 p.2) []

/-- `From<[I; N]>`: `from_iter(degrees.into_iter().enumerate())` -/
def mdFromArray (ds : List I) : List (Nat × I) := mdFromIter ((List.range ds.length).zip ds)

/-- `MultiDeg::reduce` -/
def mdReduce (l : List (Nat × I)) : List (Nat × I) := l.filter (fun p => !decide (p.2 = 0))

/-- one step of `add_assign`/`sub_assign`: `if !contains_key(i) { insert(i, 0) }; *get_mut(i) op= d` -/
def mdUpd (op : I → I → I) : List (Nat × I) → Nat → I → List (Nat × I)
  | [], i, d => [(i, op 0 d)]
  | (j, e) :: t, i, d =>
    if i < j then (i, op 0 d) :: (j, e) :: t
    else if i = j then (j, op e d) :: t
    else (j, e) :: mdUpd op t i d

/-- `AddAssign<&MultiDeg>` -/
def mdAdd (a b : List (Nat × I)) : List (Nat × I) :=
  mdReduce (b.foldl (fun acc p => mdUpd (· + ·) acc p.1 p.2) a)

/-- `MultiDeg::total` -/
def mdTotal (a : List (Nat × I)) : I := a.foldl (fun res p => res + p.2) 0

/-- `min_index` / `max_index`: `indices().min()` / `.max()` -/
def mdMinIndex : List (Nat × I) → Option Nat
  | [] => none
  | p :: t => some (t.foldl (fun m q => Nat.min m q.1) p.1)
def mdMaxIndex : List (Nat × I) → Option Nat
  | [] => none
  | p :: t => some (t.foldl (fun m q => Nat.max m q.1) p.1)

/-- `MonoOrd::cmp_lex for MultiDeg` -/
def mdCmpLex (a b : List (Nat × I)) : Ordering :=
  let i0 := Nat.min ((mdMinIndex a).getD 0) ((mdMinIndex b).getD 0)
  let i1 := Nat.max ((mdMaxIndex a).getD 0) ((mdMaxIndex b).getD 0)
  (List.range' i0 (i1 + 1 - i0)).foldl (fun res i => res.then (cmpI (mdGet a i) (mdGet b i))) .eq

/-- `MonoOrd::cmp_grlex for MultiDeg` -/
def mdCmpGrlex (a b : List (Nat × I)) : Ordering :=
  (cmpI (mdTotal a) (mdTotal b)).then (mdCmpLex a b)

end MDeg

/-- `SubAssign<&MultiDeg<isize>>` -/
def mdSubInt (a b : List (Nat × Int)) : List (Nat × Int) :=
  mdReduce (b.foldl (fun acc p => mdUpd (· - ·) acc p.1 p.2) a)

/-- one step of `sub_assign` on `usize` exponents: `d_i.sub_assign(d)` panics on underflow (overflow checks on) -/
def mdUpdSubNat : List (Nat × Nat) → Nat → Nat → Res (List (Nat × Nat))
  | [], i, d => if d ≤ 0 then .ok [(i, 0 - d)] else .panic
  | (j, e) :: t, i, d =>
    if i < j then (if d ≤ 0 then .ok ((i, 0 - d) :: (j, e) :: t) else .panic)
    else if i = j then (if d ≤ e then .ok ((j, e - d) :: t) else .panic)
    else (mdUpdSubNat t i d).bind (fun t' => .ok ((j, e) :: t'))

/-- `SubAssign<&MultiDeg<usize>>` -/
def mdSubNat (a b : List (Nat × Nat)) : Res (List (Nat × Nat)) :=
  Res.bind (b.foldl (fun (acc : Res (List (Nat × Nat))) p => Res.bind acc (fun l => mdUpdSubNat l p.1 p.2))
    (Res.ok a)) (fun l => Res.ok (mdReduce l))

/-- `Neg for &MultiDeg<isize>` (no `reduce`: the negative of a non-zero exponent is non-zero) -/
def mdNeg (a : List (Nat × Int)) : List (Nat × Int) := a.map (fun p => (p.1, -p.2))

/-- `MultiVar<X,I>(MultiDeg<I>)` -/
structure MVar (I : Type) where
  d : List (Nat × I)
deriving DecidableEq, Repr

section MVar
variable {I : Type} [Add I] [Zero I] [LT I] [DecidableLT I] [DecidableEq I]
instance : Mul (MVar I) := ⟨fun a b => ⟨mdAdd a.d b.d⟩⟩
instance : One (MVar I) := ⟨⟨[]⟩⟩
def MVar.cmpLex (a b : MVar I) : Ordering := mdCmpLex a.d b.d
def MVar.cmpGrlex (a b : MVar I) : Ordering := mdCmpGrlex a.d b.d
end MVar

/-! ## `HPoly<X,R>`: one homogeneous term `coeff · X^deg` -/
structure HPoly (R : Type) where
  deg : Nat
  coeff : R
deriving Repr

section HPoly
variable {R : Type} [DecidableEq R] [Zero R] [One R] [Add R] [Neg R] [Mul R]

def HPoly.isZero (a : HPoly R) : Bool := decide (a.coeff = 0)
def HPoly.isOne (a : HPoly R) : Bool := a.deg == 0 && decide (a.coeff = 1)
/-- `PartialEq for HPoly` -/
def HPoly.eqv (a b : HPoly R) : Bool :=
  if a.coeff = 0 ∧ b.coeff = 0 then true else a.deg == b.deg && decide (a.coeff = b.coeff)
/-- `AddAssign<&HPoly>` -/
def HPoly.add (a b : HPoly R) : Res (HPoly R) :=
  if a.isZero then .ok b
  else if b.isZero then .ok a
  else if a.deg = b.deg then .ok ⟨a.deg, a.coeff + b.coeff⟩ else .panic
def HPoly.neg (a : HPoly R) : HPoly R := ⟨a.deg, -a.coeff⟩
/-- `SubAssign<&HPoly>` (`R::sub_assign` is `+ (-·)` in a ring) -/
def HPoly.sub (a b : HPoly R) : Res (HPoly R) :=
  if a.isZero then .ok b.neg
  else if b.isZero then .ok a
  else if a.deg = b.deg then .ok ⟨a.deg, a.coeff + -b.coeff⟩ else .panic
/-- `MulAssign<&R>` -/
def HPoly.smul (a : HPoly R) (r : R) : HPoly R := if r = 1 then a else ⟨a.deg, a.coeff * r⟩
/-- `MulAssign<&HPoly>` -/
def HPoly.mul (a b : HPoly R) : HPoly R :=
  if b.isOne then a else ⟨a.deg + b.deg, a.coeff * b.coeff⟩
end HPoly

end Yuiv.C16
