import Yuiv.Model.Res
/-
C14 — code model of the scalar types of `yui` (core Lean only, no Mathlib).

Anchors: yui/src/types/ratio.rs, ff.rs, f2.rs, qint.rs, yui/src/misc/int_ext.rs, yui/src/abst/{ring,euc_ring}.rs.

Integers are modelled by unbounded `Int` (the machine types `i64/i128` coincide with it as long as no
intermediate overflows; the harness keeps them in that range and reports intermediate overflows on
representable results separately).  Rust `/` and `%` on integers truncate (`Int.tdiv`, `Int.tmod`) and
panic on a zero divisor (`tdivR`, `tmodR`).  `num_integer::Integer::{gcd,lcm}` are modelled by
`Int.gcd`, `Int.lcm` (non-negative) — this is part of the trusted base.
-/
namespace Yuiv.C14
open Yuiv Res

/-! ## integers as a ring (int_ext.rs) -/

/-- Rust `a / b` on integers -/
def tdivR (a b : Int) : Res Int := if b = 0 then panic else ok (a.tdiv b)
/-- Rust `a % b` on integers -/
def tmodR (a b : Int) : Res Int := if b = 0 then panic else ok (a.tmod b)

/-- `Ord::cmp` on integers -/
def icmp (x y : Int) : Ordering := if x < y then .lt else if x = y then .eq else .gt

/-- `Ring::is_unit` for integers: `self.is_one() || (-self).is_one()` -/
def intIsUnit (a : Int) : Bool := a == 1 || -a == 1
/-- `Ring::inv` for integers -/
def intInv (a : Int) : Option Int := if intIsUnit a then some a else none
/-- `Ring::normalizing_unit` for integers -/
def intNormUnit (a : Int) : Int := if !(decide (a < 0)) then 1 else -1
/-- `num_integer::Integer::gcd` (trusted: non-negative gcd) -/
def intGcd (a b : Int) : Int := ((Int.gcd a b : Nat) : Int)
/-- `num_integer::Integer::lcm` (trusted: non-negative lcm, `lcm 0 0 = 0`) -/
def intLcm (a b : Int) : Int := ((Int.lcm a b : Nat) : Int)

/-! ## `Ratio<T>` over the integers (ratio.rs) -/

structure Ratio where
  num : Int
  den : Int
deriving DecidableEq, Repr, Inhabited

namespace Ratio

def isZero (r : Ratio) : Bool := r.num == 0
/-- `One::is_one`: `numer == denom` -/
def isOne (r : Ratio) : Bool := r.num == r.den
def isInt (r : Ratio) : Bool := r.den == 1
def isUnit (r : Ratio) : Bool := !r.isZero

/-- `From<T>`: `new_raw(a, 1)` -/
def fromInt (a : Int) : Ratio := ⟨a, 1⟩
def zero : Ratio := fromInt 0
def one : Ratio := fromInt 1

/-- `Ratio::reduce` (ratio.rs:45-70), branch by branch -/
def reduce (r : Ratio) : Res Ratio :=
  if r.num == 0 then
    if r.den != 1 then ok ⟨r.num, 1⟩ else ok r
  else
    let u := intNormUnit r.den
    let r1 : Ratio := if u != 1 then ⟨r.num * u, r.den * u⟩ else r
    if r1.den == 1 || intIsUnit r1.num then ok r1
    else
      let g := intGcd r1.num r1.den
      if g != 1 then do
        let n ← tdivR r1.num g
        let d ← tdivR r1.den g
        ok ⟨n, d⟩
      else ok r1

/-- `Ratio::new`: `assert!(!denom.is_zero())`, then `reduce` -/
def new (n d : Int) : Res Ratio := do
  Res.assert (d != 0)
  reduce ⟨n, d⟩

/-- `x.$method(y)` for `add_assign` (`sb = false`) / `sub_assign` (`sb = true`) -/
def pm (sb : Bool) (x y : Int) : Int := if sb then x - y else x + y

/-- `impl_add_assign_op!` (ratio.rs:165-192): `self ±= rhs` -/
def addSub (sb : Bool) (s r : Ratio) : Res Ratio :=
  let b := s.den
  let c := r.num
  let d := r.den
  if r.isZero then ok s
  else if s.isZero then ok ⟨pm sb s.num c, d⟩
  else if b == d then reduce ⟨pm sb s.num c, s.den⟩
  else do
    let l := intLcm b d
    let x ← tdivR l b
    let y ← tdivR l d
    reduce ⟨pm sb (s.num * x) (y * c), l⟩

def add (s r : Ratio) : Res Ratio := addSub false s r
def sub (s r : Ratio) : Res Ratio := addSub true s r

/-- `Neg`: `Ratio::new(-numer, denom)` -/
def neg (r : Ratio) : Res Ratio := new (-r.num) r.den

/-- `Ring::inv` -/
def inv (r : Ratio) : Res (Option Ratio) :=
  if r.isZero then ok none else do
    let i ← new r.den r.num
    ok (some i)

/-- `MulAssign` (ratio.rs:213-242), branch by branch -/
def mul (s r : Ratio) : Res Ratio :=
  let a := s.num
  let b := s.den
  let c := r.num
  let d := r.den
  if s.isZero || r.isOne then ok s
  else if r.isZero then ok zero
  else if r.isInt then do
    let k := intGcd b c
    let c' ← tdivR c k
    let b' ← tdivR b k
    ok ⟨a * c', b'⟩
  else if s.isInt then do
    let k := intGcd a d
    let a' ← tdivR a k
    let d' ← tdivR d k
    ok ⟨a' * c, d'⟩
  else do
    let k := intGcd a d
    let l := intGcd b c
    let a' ← tdivR a k
    let c' ← tdivR c l
    let b' ← tdivR b l
    let d' ← tdivR d k
    ok ⟨a' * c', b' * d'⟩

/-- `DivAssign`: `assert!(!rhs.is_zero()); *self *= rhs.inv().unwrap()` -/
def div (s r : Ratio) : Res Ratio := do
  Res.assert (!r.isZero)
  match (← inv r) with
  | some i => mul s i
  | none => panic

/-- `div_rem_floor` local to `Ord::cmp` -/
def divRemFloor (a b : Int) : Res (Int × Int) := do
  let q ← tdivR a b
  let r ← tmodR a b
  if r < 0 then ok (q - 1, r + b) else ok (q, r)

/-- `if rev { ord.reverse() } else { ord }` -/
def fin (rev : Bool) (o : Ordering) : Ordering := if rev then o.swap else o

/-- the `loop` of `Ord::cmp` (ratio.rs:373-393); `err` = fuel exhausted -/
def cmpLoop : Nat → Int → Int → Int → Int → Bool → Res Ordering
  | 0, _, _, _, _, _ => err
  | fuel + 1, a, b, c, d, rev => do
    let (q1, r1) ← divRemFloor a b
    let (q2, r2) ← divRemFloor c d
    match icmp q1 q2 with
    | .eq =>
      match r1 == 0, r2 == 0 with
      | true, true => ok (fin rev .eq)
      | true, false => ok (fin rev .lt)
      | false, true => ok (fin rev .gt)
      | false, false => cmpLoop fuel b r1 d r2 (!rev)
    | o => ok (fin rev o)

/-- `Ord::cmp`; the fuel `|b| + 1` is proved sufficient for positive denominators (`Props.C14`) -/
def cmp (x y : Ratio) : Res Ordering :=
  cmpLoop (x.den.natAbs + 1) x.num x.den y.num y.den false

end Ratio

/-! ## `FF<p>` (ff.rs): representative is an `i32` -/

/-- `i32` overflow check (the library is built with overflow checks) -/
def chk32 (x : Int) : Res Int :=
  if -2147483648 ≤ x ∧ x ≤ 2147483647 then ok x else panic

namespace FF

/-- `FF::new`: `assert!(p > 0); Self(a.rem_euclid(p))` (`rem_euclid` is Lean's `%` on `Int`) -/
def new (p a : Int) : Res Int := do
  Res.assert (decide (p > 0))
  ok (a % p)

def isZero (a : Int) : Bool := a == 0
def isOne (a : Int) : Bool := a == 1
def isUnit (a : Int) : Bool := !isZero a

def add (p a b : Int) : Res Int := do let s ← chk32 (a + b); new p s
def sub (p a b : Int) : Res Int := do let s ← chk32 (a - b); new p s
def mul (p a b : Int) : Res Int := do let s ← chk32 (a * b); new p s
def neg (p a : Int) : Res Int := do let s ← chk32 (-a); new p s

/-- loop of `num_integer::Integer::extended_gcd`: state `(r, s, t)`, each a pair -/
def xgcdLoop : Nat → Int × Int → Int × Int → Int × Int → Res ((Int × Int) × (Int × Int) × (Int × Int))
  | 0, _, _, _ => err
  | fuel + 1, r, s, t =>
    if r.1 == 0 then ok (r, s, t)
    else
      let q := r.2.tdiv r.1
      xgcdLoop fuel (r.2 - q * r.1, r.1) (s.2 - q * s.1, s.1) (t.2 - q * t.1, t.1)

/-- `I::gcdx(x, y)` = `num_integer::Integer::extended_gcd`: `(gcd, s, t)` -/
def gcdx (x y : Int) : Res (Int × Int × Int) := do
  let (r, s, t) ← xgcdLoop (y.natAbs + 2) (y, x) (0, 1) (1, 0)
  if r.2 ≥ 0 then ok (r.2, s.2, t.2) else ok (0 - r.2, 0 - s.2, 0 - t.2)

/-- `Ring::inv` -/
def inv (p a : Int) : Res (Option Int) :=
  if isZero a then ok none else do
    let (d, x, _) ← gcdx a p
    Res.assert (d == 1)
    let i ← new p x
    ok (some i)

/-- `Div`: `assert!(!rhs.is_zero()); self * rhs.inv().unwrap()` -/
def div (p a b : Int) : Res Int := do
  Res.assert (!isZero b)
  match (← inv p b) with
  | some i => mul p a i
  | none => panic

end FF

/-! ## `FF2` (f2.rs) -/

namespace FF2

/-- `From<I>`: `a.to_i64().unwrap().is_odd()` -/
def ofInt (a : Int) : Bool := a % 2 == 1
def isZero (a : Bool) : Bool := !a
def isOne (a : Bool) : Bool := a
def add (a b : Bool) : Bool := a != b
def sub (a b : Bool) : Bool := add a b
def mul (a b : Bool) : Bool := a && b
def neg (a : Bool) : Bool := a
def inv (a : Bool) : Option Bool := if isOne a then some a else none
def div (a b : Bool) : Res Bool := do Res.assert (!isZero b); ok a

end FF2

/-! ## `QuadInt<I, D>` (qint.rs): `a + bω` stored as the pair `(a, b)` -/

structure QI where
  l : Int
  r : Int
deriving DecidableEq, Repr, Inhabited

namespace QI

/-- `QuadInt::new`: `assert!(D % 4 != 0)` -/
def new (D : Int) (a b : Int) : Res QI := do
  Res.assert (D.tmod 4 != 0)
  ok ⟨a, b⟩

def zero : QI := ⟨0, 0⟩
def one : QI := ⟨1, 0⟩
def omega : QI := ⟨0, 1⟩
def isZero (x : QI) : Bool := x.l == 0 && x.r == 0
def isOne (x : QI) : Bool := x.l == 1 && x.r == 0

def add (x y : QI) : QI := ⟨x.l + y.l, x.r + y.r⟩
def sub (x y : QI) : QI := ⟨x.l - y.l, x.r - y.r⟩
def neg (x : QI) : QI := ⟨-x.l, -x.r⟩

/-- `QuadInt::conj` -/
def conj (D : Int) (x : QI) : Res QI :=
  let m := D % 4
  if m == 1 then ok ⟨x.l + x.r, -x.r⟩
  else if m == 2 || m == 3 then ok ⟨x.l, -x.r⟩
  else panic

/-- `QuadInt::norm` -/
def norm (D : Int) (x : QI) : Res Int :=
  let a := x.l
  let b := x.r
  let m := D % 4
  if m == 1 then
    let d := (1 - D).tdiv 4
    ok (a * a + a * b + b * b * d)
  else if m == 2 || m == 3 then
    ok (a * a - b * b * D)
  else panic

/-- `Mul` (qint.rs:192-243) with its two shortcut branches -/
def mul (D : Int) (x y : QI) : Res QI :=
  let a := x.l
  let b := x.r
  let c := y.l
  let d := y.r
  if b == 0 then ok ⟨a * c, a * d⟩
  else if d == 0 then ok ⟨a * c, b * c⟩
  else
    let m := D % 4
    if m == 1 then
      let e := (D - 1).tdiv 4
      ok ⟨a * c + b * d * e, a * d + b * c + b * d⟩
    else if m == 2 || m == 3 then
      let e := D
      ok ⟨a * c + b * d * e, a * d + b * c⟩
    else panic

/-- `Ring::is_unit`: `self.norm().is_unit()` -/
def isUnit (D : Int) (x : QI) : Res Bool := do
  let n ← norm D x
  ok (intIsUnit n)

/-- `Ring::inv`: `norm().inv()` then `Self::from(u) * self.conj()` -/
def inv (D : Int) (x : QI) : Res (Option QI) := do
  let n ← norm D x
  match intInv n with
  | some u =>
    let c ← conj D x
    let v ← mul D ⟨u, 0⟩ c
    ok (some v)
  | none => ok none

end QI

end Yuiv.C14
