import Yuiv.Model.C12
/-
Scalar instances for the C12 code model (core Lean only).

* `Int`            ↔ `i64` (the harness keeps all values far away from overflow)
* `Rat` (core)     ↔ `Ratio<i64>`: reduced pair, positive denominator, `0 = 0/1` — the same normal form
* `Fin 5`          ↔ `FF<5>`: canonical representative `0..4`
* `GI`             ↔ `GaussInt<i64>` = `QuadInt<i64,-1>`: pair `(a, b)` for `a + b·i`
-/
namespace Yuiv.C12

instance : Scal Int where
  zero := 0
  one := 1
  add := (· + ·)
  sub := (· - ·)
  mul := (· * ·)
  neg := (- ·)
  isZero a := a == 0
  inv a := if a == 1 || a == -1 then some a else none     -- int_ext.rs: `is_unit ⇒ Some(self)`

instance : Scal Rat where
  zero := 0
  one := 1
  add := (· + ·)
  sub := (· - ·)
  mul := (· * ·)
  neg := (- ·)
  isZero a := a.num == 0
  inv a := if a.num == 0 then none else some a⁻¹         -- ratio.rs: `Ratio::new(denom, numer)`

/-- inverse in `F_5` (the Rust code runs `gcdx`; the value is unique) -/
def f5inv (a : Fin 5) : Option (Fin 5) :=
  if a.val == 0 then none else (List.finRange 5).find? fun x => a * x == 1

instance : Scal (Fin 5) where
  zero := 0
  one := 1
  add := (· + ·)
  sub := (· - ·)
  mul := (· * ·)
  neg := (- ·)
  isZero a := a.val == 0
  inv := f5inv

/-- Gaussian integer `re + im·i` -/
structure GI where
  re : Int
  im : Int
deriving DecidableEq, Repr

namespace GI
def add (x y : GI) : GI := ⟨x.re + y.re, x.im + y.im⟩
def sub (x y : GI) : GI := ⟨x.re - y.re, x.im - y.im⟩
def mul (x y : GI) : GI := ⟨x.re * y.re - x.im * y.im, x.re * y.im + x.im * y.re⟩
def neg (x : GI) : GI := ⟨-x.re, -x.im⟩
def conj (x : GI) : GI := ⟨x.re, -x.im⟩
def norm (x : GI) : Int := x.re * x.re + x.im * x.im
/-- qint.rs: `self.norm().inv().map(|u| Self::from(u) * self.conj())` -/
def inv (x : GI) : Option GI :=
  let n := norm x
  if n == 1 || n == -1 then some (mul ⟨n, 0⟩ (conj x)) else none
end GI

instance : Scal GI where
  zero := ⟨0, 0⟩
  one := ⟨1, 0⟩
  add := GI.add
  sub := GI.sub
  mul := GI.mul
  neg := GI.neg
  isZero a := a.re == 0 && a.im == 0
  inv := GI.inv

end Yuiv.C12
