import Yuiv.Model.KhRef
/-
C04 — Jones polynomial.
 * `jones` : code model of `yui-link/src/util/jones.rs:jones_polynomial` with Laurent polynomials as
   canonical coefficient lists (sorted exponents, no zero coefficient), computed the way the Rust does
   (`a · Σ_s (−q)^{w(s)} (q+q⁻¹)^{r(s)}` with polynomial multiplication and powers);
 * `chiChain` : graded Euler characteristic of the CHAIN groups of the cube reference `KhRef`
   (Σ over generators of (−1)^{h-degree} q^{q-degree});
 * `evalJones`, `evalChi` : the same two quantities as ring elements for a commutative ring `R` and an
   invertible `q ∈ R` (defined directly by the formulas; these are what the theorems quantify over).
-/
namespace Yuiv.C04
open Yuiv.KhRef

/-! ### Laurent polynomials as canonical lists -/

abbrev LP := List (Int × Int)     -- (exponent, coefficient), exponents strictly increasing, coefficients ≠ 0

def LP.addTerm (e c : Int) : LP → LP
  | [] => if c == 0 then [] else [(e, c)]
  | (e', c') :: rest =>
    if e < e' then (if c == 0 then (e', c') :: rest else (e, c) :: (e', c') :: rest)
    else if e == e' then (if c + c' == 0 then rest else (e, c + c') :: rest)
    else (e', c') :: LP.addTerm e c rest

def LP.add (a b : LP) : LP := b.foldl (fun acc t => LP.addTerm t.1 t.2 acc) a
def LP.scaleShift (k e : Int) (a : LP) : LP := (a.filterMap (fun t => if k * t.2 == 0 then none else some (t.1 + e, k * t.2)))
def LP.mul (a b : LP) : LP := a.foldl (fun acc t => LP.add acc (LP.scaleShift t.2 t.1 b)) []
def LP.one : LP := [(0, 1)]
def LP.pow (a : LP) : Nat → LP
  | 0 => LP.one
  | n + 1 => LP.mul (LP.pow a n) a
def LP.mono (e c : Int) : LP := if c == 0 then [] else [(e, c)]

/-- number of circles of the resolution `s` -/
def circleCount (l : Link) (s : Nat) : Nat := (circles l (edgeLabels l) s).size

/-- code model of `jones_polynomial`; `signs` = crossing signs of the unresolved crossings -/
def jones (l : Link) (signs : Array Int) : LP :=
  let n := crossingNum l
  let nNeg : Int := (signs.filter (· < 0)).size
  let nPos : Int := (signs.filter (· > 0)).size
  let a : LP := LP.mono (nPos - 2 * nNeg) (if nNeg % 2 == 0 then 1 else -1)
  let q0 : LP := [(-1, 1), (1, 1)]
  let negq : LP := [(1, -1)]
  let body := (List.range (2 ^ n)).foldl (fun acc s =>
    LP.add acc (LP.mul (LP.pow negq (popcount s n)) (LP.pow q0 (circleCount l s)))) []
  LP.mul a body

/-- graded Euler characteristic of the chain groups of the (unreduced) cube reference -/
def chiChain (l : Link) (signs : Array Int) : LP :=
  let c := mkCube l ⟨0, 0, false⟩
  let nNeg : Int := (signs.filter (· < 0)).size
  let nPos : Int := (signs.filter (· > 0)).size
  let h0 : Int := -nNeg
  let q0 : Int := nPos - 2 * nNeg
  (List.range (2 ^ c.n)).foldl (fun acc s =>
    (c.gensAt s).foldl (fun acc g =>
      LP.addTerm (c.qDeg q0 g) (if (h0 + popcount s c.n) % 2 == 0 then 1 else -1) acc) acc) []

/-! ### the same quantities in an arbitrary commutative ring with an invertible `q` -/

section Eval
variable {R : Type} [Add R] [Mul R] [Neg R] [OfNat R 0] [OfNat R 1]

def npow (x : R) : Nat → R
  | 0 => 1
  | n + 1 => npow x n * x

/-- `q^k` for an integer `k`, given the inverse of `q` -/
def zpow (q qinv : R) (k : Int) : R :=
  match k with
  | Int.ofNat n => npow q n
  | Int.negSucc n => npow qinv (n + 1)

def sumRange (n : Nat) (f : Nat → R) : R := (List.range n).foldl (fun acc i => acc + f i) 0

/-- the state sum of `jones_polynomial`, for any circle-count function `r` on states -/
def evalJones (q qinv : R) (n nPos nNeg : Nat) (r : Nat → Nat) : R :=
  npow (-1 : R) nNeg * zpow q qinv ((nPos : Int) - 2 * nNeg) *
    sumRange (2 ^ n) (fun s => npow (-q) (popcount s n) * npow (q + qinv) (r s))

/-- Σ over generators (state `s`, labelling `m` of the `r s` circles; label X contributes −2)
of `(−1)^{h-degree} q^{q-degree}` with the degree shifts `(−n₋, n₊ − 2n₋)` -/
def evalChi (q qinv : R) (n nPos nNeg : Nat) (r : Nat → Nat) : R :=
  sumRange (2 ^ n) (fun s =>
    sumRange (2 ^ r s) (fun m =>
      npow (-1 : R) (nNeg + popcount s n) *
        zpow q qinv (((nPos : Int) - 2 * nNeg) + (-2 : Int) * popcount m (r s) + r s + popcount s n)))

end Eval

/-- evaluation of a coefficient list at an invertible `q` -/
def LP.eval {R : Type} [Add R] [Mul R] [Neg R] [OfNat R 0] [OfNat R 1] (q qinv : R) (ofInt : Int → R) (a : LP) : R :=
  a.foldl (fun acc t => acc + ofInt t.2 * zpow q qinv t.1) 0

end Yuiv.C04
