import Yuiv.Model.C13
import Yuiv.Model.RustDense
/-
Sparse-matrix primitives used by the definitions that `tools/rs2lean_fn.py` generates from
`yui-matrix/src/sparse/sp_mat.rs` (target `fn:spmat`) — hand-written, import-free apart from the hand model
`Yuiv/Model/C13.lean` (representation) and `Yuiv/Model/RustDense.lean` (`Ctl`), TRUSTED.

`R` is a type with `[Zero R] [One R] [Add R] [DecidableEq R]` (`a.is_zero()` is `a = 0`).  `SpMat<R>` AND the
`CscMatrix<R>` it wraps are the model's `C13.SpMat R` (shape + per column the stored `(row, value)` pairs);
`SpVec<R>` is `C13.SpVec R`; `PermView` is `C13.Perm` (`p.at(i)` ↦ `C13.Perm.at`, which panics out of range);
`Range<usize>` is the pair `(start, end)`; `Vec<T>` is a list.  The nalgebra kernels are those of the model:

  `self.iter()` (`triplet_iter`) ↦ `Sp.iter` = `SpMat.triplets` (column by column);
  `CooMatrix::new / push` ↦ `Sp.Coo.new / push` (`push` panics on an index outside the shape, like nalgebra);
  `CscMatrix::from(&coo)` ↦ `Sp.Coo.to_csc` = the model's `cooToCsc` (duplicates summed);
  `m.disassemble()` ↦ the model's `SpMat.disassemble` (offsets, row indices, values);
  `CscMatrix::try_from_csc_data(m, n, offs, rows, vals)` ↦ `Sp.try_from_csc_data`: `some` of the model's `tryFromCsc`
      when its validity checks pass, `none` otherwise (the code `unwrap()`s it);
  `CscMatrix::zeros(m, n)`, `SpMat::zero((m, n))` ↦ `SpMat.zero`;  `v.into_inner()` ↦ the `dim × 1` matrix `SpVec.toMat`;
  `m.nnz()` ↦ the number of stored entries;  `r.contains(&i)` ↦ `start ≤ i < end`;
  `for x in list { … continue … }` ↦ `Sp.forList`;  `it.enumerate()` ↦ `Sp.enumerate`;  `v[i]` on a `Vec` ↦ `Sp.list_get`.

Target `fn:trans` (trans.rs) uses, besides these, the model's `SpMat.id`, `SpMat.mul`, `SpMat.mulVec`, `fromEntries`,
`fromRowPerm`, `fromColPerm` directly (functions of other files; the last three are tied to sp_mat.rs by `fn:spmat`).
Target `fn:spvec` (sp_vec.rs): `SpVec { inner }` ↦ `Sp.vec_of_inner`, `v.inner` ↦ `Sp.vec_inner`, `v[i] = x` ↦ `Sp.list_set`.
-/
namespace Yuiv.Rust
open Yuiv Res

namespace Sp
variable {R : Type}

abbrev shape (A : C13.SpMat R) : Nat × Nat := (A.nrows, A.ncols)
def iter (A : C13.SpMat R) : List (Nat × Nat × R) := A.triplets
def nnz (A : C13.SpMat R) : Nat := A.cols.flatten.length
def disassemble (A : C13.SpMat R) : List Nat × List Nat × List R := A.disassemble
def vec_inner (v : C13.SpVec R) : C13.SpMat R := v.toMat
/-- the struct literal `SpVec { inner }`: dimension and first column of `inner` (`SpVec::new` asserts `ncols == 1`) -/
def vec_of_inner (A : C13.SpMat R) : C13.SpVec R := ⟨A.nrows, A.cols.getD 0 []⟩
def zero (shape : Nat × Nat) : C13.SpMat R := C13.SpMat.zero shape.1 shape.2
def range_contains (r : Nat × Nat) (i : Nat) : Bool := decide (r.1 ≤ i) && decide (i < r.2)
/-- `SpMat::is_id`: square, every stored diagonal entry `1`, every stored off-diagonal entry `0` -/
def is_id [Zero R] [One R] [DecidableEq R] (A : C13.SpMat R) : Bool :=
  decide (A.nrows = A.ncols) &&
    A.triplets.all (fun t => (decide (t.1 = t.2.1) && decide (t.2.2 = 1)) || (decide (t.1 ≠ t.2.1) && decide (t.2.2 = 0)))

def try_from_csc_data (m n : Nat) (offs rows : List Nat) (vals : List R) : Option (C13.SpMat R) :=
  match C13.tryFromCsc m n offs rows vals with
  | .ok A => some A
  | _ => none

/-- a `CooMatrix` under construction: shape and the pushed triplets in order -/
structure Coo (R : Type) where
  m : Nat
  n : Nat
  es : List (C13.Trip R)

def Coo.new (m n : Nat) : Coo R := ⟨m, n, []⟩
def Coo.push (c : Coo R) (i j : Nat) (a : R) : Res (Coo R) :=
  if i < c.m ∧ j < c.n then ok { c with es := c.es ++ [(i, j, a)] } else panic
def Coo.to_csc [Zero R] [Add R] [DecidableEq R] (c : Coo R) : C13.SpMat R := C13.cooToCsc c.m c.n c.es

/-- `v[i]` on a `Vec` (index panic) -/
def list_get {β : Type} (l : List β) (i : Nat) : Res β :=
  match l[i]? with
  | some x => ok x
  | none => panic

/-- `v[i] = x` on a `Vec` (index panic) -/
def list_set {β : Type} (l : List β) (i : Nat) (x : β) : Res (List β) :=
  if i < l.length then ok (l.set i x) else panic

def enumFrom {β : Type} : Nat → List β → List (Nat × β)
  | _, [] => []
  | k, x :: xs => (k, x) :: enumFrom (k + 1) xs
def enumerate {β : Type} (l : List β) : List (Nat × β) := enumFrom 0 l

/-- `for x in xs { body }` with `continue` / `break`: the final state and `true` when the loop ended normally -/
def forList {σ β : Type} (xs : List β) (f : β → σ → Res (Ctl σ)) (s : σ) : Res (σ × Bool) :=
  match xs with
  | [] => ok (s, true)
  | x :: xs => do
    match (← f x s) with
    | .next s' => forList xs f s'
    | .stop s' => ok (s', true)
    | .exit s' => ok (s', false)

end Sp
end Yuiv.Rust
