import Std.Data.HashMap
/-
Reference model L6 (DESIGN.md §5): Khovanov homology BY DEFINITION — the cube of resolutions of a
link diagram over ℤ with Frobenius parameters (h, t):

    A = R[X]/(X² − hX − t),   Δ1 = X⊗1 + 1⊗X − h·1⊗1,   ΔX = X⊗X + t·1⊗1,
    vertex s ∈ {0,1}ⁿ ↦ A^{⊗ circles(s)},  edge s→s' (one more 1) ↦ ±(merge | split),
    sign (−1)^{#1s before the flipped bit},  degrees shifted by (−n₋, n₊ − 2n₋ [+1 if reduced]).

It mirrors `yui-khovanov/src/kh/internal/v1/cube.rs` + `kh/gen.rs` + `KhComplex::deg_shift_for`
(the straightforward definition the optimised engine v2 must agree with), not the engine itself.
Homology is read off from Smith invariants of the integer differentials (unit-pivot elimination on
sparse rows, then dense SNF of the small remainder).  The linear algebra part is fast array code; it is TOTAL
(structural recursion on fuel) and VERIFIED in `Props/KhSnf.lean` (`smithInvariants` returns a Smith normal form of
the matrix of its well-formed rows, `homologyOf` reports the cells of `Proofs/C03Uct`); `d∘d = 0` of the reference
complex is a theorem (`Props/C01Sq.lean`) and is still re-checked per instance.
Over ℚ and 𝔽_p the ranks follow from the same integer invariants (h, t given by integer
representatives): rank_ℚ = #nonzero factors, rank_{𝔽p} = #factors not divisible by p.
-/
namespace Yuiv.KhRef

inductive CT where | X | Xm | V | H
deriving DecidableEq, Repr, Inhabited

structure Crossing where
  ct : CT
  e : Array Nat          -- 4 edge labels
deriving Repr, Inhabited

abbrev Link := Array Crossing

def CT.isResolved : CT → Bool
  | .V | .H => true
  | _ => false

/-- `Crossing::resolve` -/
def CT.resolve : CT → Bool → CT
  | .X, false | .Xm, true => .H
  | .X, true | .Xm, false => .V
  | c, _ => c

/-- `Crossing::pass` -/
def CT.pass : CT → Nat → Nat
  | .X, j | .Xm, j => (j + 2) % 4
  | .V, j => 3 - j
  | .H, j => (5 - j) % 4

/-- `CrossingType::mirror` -/
def CT.mirror : CT → CT
  | .X => .Xm
  | .Xm => .X
  | c => c

/-- sign contributed when a strand ENTERS a crossing of type `ct` through slot `j`
(`Link::crossing_signs`: `(Xm,1) | (X,3) ⇒ +`, `(Xm,3) | (X,1) ⇒ −`, otherwise none = 0) -/
def slotSign : CT → Nat → Int
  | .X, 3 | .Xm, 1 => 1
  | .X, 1 | .Xm, 3 => -1
  | _, _ => 0

def crossingNum (l : Link) : Nat := (l.filter (fun c => !c.ct.isResolved)).size

/-- `Link::resolved_by`: bit `k` of the state resolves the `k`-th unresolved crossing. -/
def resolvedTypes (l : Link) (s : Nat) : Array CT := Id.run do
  let mut out := Array.mkEmpty l.size
  let mut k := 0
  for c in l do
    if c.ct.isResolved then out := out.push c.ct
    else
      out := out.push (c.ct.resolve (s.testBit k))
      k := k + 1
  return out

/-- all edge labels, sorted, without repetition -/
def edgeLabels (l : Link) : Array Nat := Id.run do
  let mut xs : Array Nat := #[]
  for c in l do
    for x in c.e do
      if !xs.contains x then xs := xs.push x
  return xs.qsort (· < ·)

def indexOf (xs : Array Nat) (x : Nat) : Nat := (xs.findIdx? (· == x)).getD 0

/-- circles of the fully resolved diagram = classes of edge labels identified along the arcs
(`V` joins slots 0–3 and 1–2, `H` joins 0–1 and 2–3); each circle is its sorted list of edge labels;
circles sorted by their least label. -/
def circles (l : Link) (labels : Array Nat) (s : Nat) : Array (Array Nat) := Id.run do
  let ts := resolvedTypes l s
  let m := labels.size
  let mut comp : Array Nat := Array.range m
  for i in [0:l.size] do
    let c := l[i]!
    let pairs : List (Nat × Nat) := match ts[i]! with
      | .V => [(0, 3), (1, 2)]
      | .H => [(0, 1), (2, 3)]
      | _ => []
    for (a, b) in pairs do
      let ca := comp[indexOf labels c.e[a]!]!
      let cb := comp[indexOf labels c.e[b]!]!
      if ca != cb then
        let (lo, hi) := if ca < cb then (ca, cb) else (cb, ca)
        comp := comp.map (fun x => if x == hi then lo else x)
  let mut out : Array (Array Nat) := #[]
  for r in [0:m] do
    if comp[r]! == r then
      let mut cs : Array Nat := #[]
      for x in [0:m] do
        if comp[x]! == r then cs := cs.push labels[x]!
      out := out.push cs
  return out

/-! ### orientation: crossing signs by walking the strands (slot 0 → slot 2 is the positive direction) -/

def partner (l : Link) (i k : Nat) : Option (Nat × Nat) := Id.run do
  let e := l[i]!.e[k]!
  for i' in [0:l.size] do
    for j' in [0:4] do
      if l[i']!.e[j']! == e && !(i' == i && j' == k) then return some (i', j')
  return none

/-- signs of the unresolved crossings (+1 / −1), in order; `none` if some crossing gets no sign
or a walk does not close up within `4·n` steps (malformed code). -/
def crossingSigns (l : Link) : Option (Array Int) := Id.run do
  let n := l.size
  let mut sg : Array Int := Array.replicate n 0
  let mut passed : Array Nat := #[]
  let mut bad := false
  for j0 in [0, 1, 2] do
    -- the later passes only run when some crossing is still unsigned
    let need := j0 == 0 || (Array.range n).any (fun i => !l[i]!.ct.isResolved && sg[i]! == 0)
    if need then
      for i0 in [0:n] do
        if !passed.contains (l[i0]!.e[j0]!) then
          let mut i := i0
          let mut j := j0
          let mut steps := 0
          let mut go := true
          while go do
            if steps ≥ 4 * n then
              bad := true; go := false
            else
              steps := steps + 1
              let c := l[i]!
              passed := passed.push (c.e[j]!)
              if slotSign c.ct j != 0 then sg := sg.set! i (slotSign c.ct j)
              let k := c.ct.pass j
              match partner l i k with
              | none => passed := passed.push (c.e[k]!); go := false
              | some (i', j') =>
                if i' == i0 && j' == j0 then go := false
                else i := i'; j := j'
  if bad then return none
  let mut out : Array Int := #[]
  for i in [0:n] do
    if !l[i]!.ct.isResolved then
      if sg[i]! == 0 then return none
      out := out.push sg[i]!
  return some out

/-! ### the cube -/

structure Params where
  h : Int
  t : Int
  reduced : Bool
deriving Repr

/-- a generator: (state, labelling); bit `c` of `mask` set ⇔ circle `c` carries `X` (else `1`). -/
structure Gen where
  s : Nat
  mask : Nat
deriving BEq, Hashable, Repr, Inhabited

def popcount (x : Nat) (bits : Nat) : Nat := ((List.range bits).filter (fun i => x.testBit i)).length

/-- one term of `d(gen)`: target generator and coefficient -/
abbrev Term := Gen × Int

/-- `KhAlgStr::prod` on basis elements (`true` = X): list of (result label, coefficient) -/
def prod (h t : Int) : Bool → Bool → List (Bool × Int)
  | false, false => [(false, 1)]
  | true, false | false, true => [(true, 1)]
  | true, true => [(true, h), (false, t)]

/-- `KhAlgStr::coprod` -/
def coprod (h t : Int) : Bool → List (Bool × Bool × Int)
  | false => [(true, false, 1), (false, true, 1), (false, false, -h)]
  | true => [(true, true, 1), (false, false, t)]

structure Cube where
  n : Nat
  circ : Array (Array (Array Nat))      -- state ↦ circles
  base : Option Nat                     -- base edge (reduced theory)

def mkCube (l : Link) (p : Params) : Cube :=
  let n := crossingNum l
  let labels := edgeLabels l
  let base : Option Nat :=
    if p.reduced then (if h : 0 < l.size then some ((l[0]).e.foldl min (l[0]).e[0]!) else none) else none
  { n := n, circ := (Array.range (2 ^ n)).map (fun s => circles l labels s), base := base }

def Cube.baseCircle (c : Cube) (s : Nat) : Option Nat :=
  match c.base with
  | none => none
  | some e => (c.circ[s]!).findIdx? (fun cs => cs.contains e)

/-- generators at a vertex -/
def Cube.gensAt (c : Cube) (s : Nat) : Array Gen :=
  let r := (c.circ[s]!).size
  let all := (Array.range (2 ^ r)).map (fun m => Gen.mk s m)
  match c.baseCircle s with
  | none => all
  | some b => all.filter (fun g => g.mask.testBit b)

def setBit (x i : Nat) (b : Bool) : Nat := if b then x ||| (1 <<< i) else x &&& ((2 ^ 64 - 1) ^^^ (1 <<< i))

/-- sign of the cube edge that flips bit `k` of the state `s`: (−1)^{number of 1s of `s` before position `k`} -/
def edgeSign (s k : Nat) : Int := if popcount (s % 2 ^ k) k % 2 == 0 then 1 else -1

/-- `d` on a generator; `none` if two adjacent vertices do not differ by one merge/split -/
def Cube.d (c : Cube) (p : Params) (g : Gen) : Option (Array Term) := Id.run do
  let mut out : Array Term := #[]
  let cs := c.circ[g.s]!
  for k in [0:c.n] do
    if !g.s.testBit k then
      let s' := g.s ||| (1 <<< k)
      let cs' := c.circ[s']!
      let sign : Int := edgeSign g.s k
      -- circles that disappear / appear
      let gone := (Array.range cs.size).filter (fun i => !cs'.contains cs[i]!)
      let born := (Array.range cs'.size).filter (fun i => !cs.contains cs'[i]!)
      -- labels carried over on the common circles
      let mut m0 := 0
      for i in [0:cs.size] do
        if cs'.contains cs[i]! then
          let i' := (cs'.findIdx? (· == cs[i]!)).getD 0
          m0 := setBit m0 i' (g.mask.testBit i)
      if gone.size == 2 && born.size == 1 then
        for (y, a) in prod p.h p.t (g.mask.testBit gone[0]!) (g.mask.testBit gone[1]!) do
          if a != 0 then out := out.push (⟨s', setBit m0 born[0]! y⟩, sign * a)
      else if gone.size == 1 && born.size == 2 then
        for (y1, y2, a) in coprod p.h p.t (g.mask.testBit gone[0]!) do
          if a != 0 then out := out.push (⟨s', setBit (setBit m0 born[0]! y1) born[1]! y2⟩, sign * a)
      else return none
  -- reduced theory: the quotient/sub complex keeps the base circle labelled X
  match c.base with
  | none => return some out
  | some _ =>
    return some (out.filter (fun (y, _) => match c.baseCircle y.s with
      | some b => y.mask.testBit b
      | none => true))

def Cube.qDeg (c : Cube) (q0 : Int) (g : Gen) : Int :=
  let r := (c.circ[g.s]!).size
  let xs := popcount g.mask r
  q0 + (-2 : Int) * xs + r + popcount g.s c.n

/-! ### integer linear algebra (fast; total definitions; specification proved in `Props/KhSnf.lean`) -/

abbrev Row := Array (Nat × Int)       -- sorted by column, no zero entries

def rowGet (r : Row) (j : Nat) : Int := Id.run do
  let mut lo := 0
  let mut hi := r.size
  while lo < hi do
    let mid := (lo + hi) / 2
    let (c, v) := r[mid]!
    if c == j then return v
    else if c < j then lo := mid + 1 else hi := mid
  return 0

/-- `a + k * b` on sorted sparse rows -/
def rowAxpy (a : Row) (k : Int) (b : Row) : Row := Id.run do
  let mut out : Row := Array.mkEmpty (a.size + b.size)
  let mut i := 0
  let mut j := 0
  while i < a.size || j < b.size do
    if j ≥ b.size then out := out.push a[i]!; i := i + 1
    else if i ≥ a.size then out := out.push (b[j]!.1, k * b[j]!.2); j := j + 1
    else
      let (ca, va) := a[i]!
      let (cb, vb) := b[j]!
      if ca < cb then out := out.push (ca, va); i := i + 1
      else if cb < ca then out := out.push (cb, k * vb); j := j + 1
      else
        let v := va + k * vb
        if v != 0 then out := out.push (ca, v)
        i := i + 1; j := j + 1
  return out

def normalizeRow (r : Array (Nat × Int)) : Row := Id.run do
  let sorted := r.qsort (fun a b => a.1 < b.1)
  let mut out : Row := #[]
  for (c, v) in sorted do
    if out.size > 0 && out[out.size - 1]!.1 == c then
      let v' := out[out.size - 1]!.2 + v
      out := out.pop
      if v' != 0 then out := out.push (c, v')
    else if v != 0 then out := out.push (c, v)
  return out

/-- pivot search of `denseDiag`: a non-zero entry of least absolute value in the block `[t,m) × [t,n)`, as
`(absolute value, row, column)` (the first one in row-major order among those of least absolute value) -/
def findPivot (a : Array (Array Int)) (t m n : Nat) : Option (Nat × Nat × Nat) := Id.run do
  let mut best : Option (Nat × Nat × Nat) := none
  for i in [t:m] do
    for j in [t:n] do
      let v := (a[i]![j]!).natAbs
      if v != 0 then
        match best with
        | some (b, _, _) => if v < b then best := some (v, i, j)
        | none => best := some (v, i, j)
  return best

/-- one round of `denseDiag` at level `t` with the pivot at `(pi, pj)`: move it to `(t,t)`, clear column `t` below and
row `t` to the right by Euclidean division. Returns the new matrix, the pivot value, and whether the round was clean
(no remainder appeared, column `t` below and row `t` right are zero) -/
def pivotStep (a0 : Array (Array Int)) (t m n pi pj : Nat) : Array (Array Int) × Int × Bool := Id.run do
  let mut a := a0
  -- move to (t,t)
  if pi != t then
    let r1 := a[pi]!; let r2 := a[t]!
    a := (a.set! pi r2).set! t r1
  if pj != t then
    a := a.map (fun r => (r.set! pj r[t]!).set! t r[pj]!)
  -- clear column t and row t; if a remainder appears, the pivot search restarts with a smaller entry
  let mut clean := true
  let pv := a[t]![t]!
  for i in [t+1:m] do
    let v := a[i]![t]!
    if v != 0 then
      let q := v / pv     -- Int division (floor-ish); remainder handled by restart
      let rt := a[t]!
      a := a.set! i ((a[i]!).mapIdx (fun j x => x - q * rt[j]!))
      if a[i]![t]! != 0 then clean := false
  if clean then
    for j in [t+1:n] do
      let v := a[t]![j]!
      if v != 0 then
        let q := v / pv
        a := a.map (fun r => r.set! j (r[j]! - q * r[t]!))
        if a[t]![j]! != 0 then clean := false
  if clean then
    -- column t below and row t right are zero now?
    let colZero := (List.range (m - t - 1)).all (fun d => a[t + 1 + d]![t]! == 0)
    let rowZero := (List.range (n - t - 1)).all (fun d => a[t]![t + 1 + d]! == 0)
    return (a, pv, colZero && rowZero)
  return (a, pv, false)

/-- the rounds of `denseDiag` at one level `t`, starting with the pivot `piv`: repeat until a round is clean (result:
the cleaned matrix and the absolute value of the last pivot) or the block is zero (`none`). Every unclean round leaves
a non-zero remainder of smaller absolute value than the pivot, so the pivot values strictly decrease and `fuel` = the
absolute value of the first pivot is never exhausted (`Proofs/KhSnf*`). -/
def levelLoop : Nat → Array (Array Int) → Nat → Nat → Nat → Nat × Nat × Nat → Array (Array Int) × Option Int
  | 0, a, _, _, _, _ => (a, none)
  | fuel + 1, a, t, m, n, (_, pi, pj) =>
    let r := pivotStep a t m n pi pj
    if r.2.2 then (r.1, some (Int.ofNat r.2.1.natAbs))
    else
      match findPivot r.1 t m n with
      | none => (r.1, none)
      | some p' => levelLoop fuel r.1 t m n p'

/-- the levels `t, t+1, …` of `denseDiag` (`fuel` ≥ the number of levels left) -/
def denseLoop : Nat → Array (Array Int) → Nat → Nat → Nat → Array Int → Array Int
  | 0, _, _, _, _, diag => diag
  | fuel + 1, a, t, m, n, diag =>
    if t < m && t < n then
      -- pivot: non-zero entry of least absolute value in the remaining block
      match findPivot a t m n with
      | none => diag
      | some p =>
        match levelLoop p.1 a t m n p with
        | (a', some d) => denseLoop fuel a' (t + 1) m n (diag.push d)
        | (_, none) => diag
    else diag

/-- dense Smith diagonal (absolute values of the non-zero diagonal entries, not yet a divisibility chain).
TOTAL: structural recursion on fuel (`min m n + 1` levels; at each level at most |first pivot| rounds); the sequence of
pivot searches and elimination rounds is that of the former `while t < m && t < n` loop. -/
def denseDiag (a0 : Array (Array Int)) : Array Int :=
  let m := a0.size
  if m == 0 then #[]
  else
    let n := a0[0]!.size
    denseLoop (min m n + 1) a0 0 m n #[]

/-- turn a list of positive integers into the divisibility chain with the same product structure -/
def chain (d0 : Array Int) : Array Int := Id.run do
  let mut d := d0
  for i in [0:d.size] do
    for j in [i+1:d.size] do
      let x := d[i]!; let y := d[j]!
      let g := Int.ofNat (Int.gcd x y)
      if g != 0 then
        d := (d.set! i g).set! j (x * y / g)
  return d

/-- one round of the unit-pivot elimination of `smithInvariants`: pick a row with a ±1 entry (preferring short rows),
clear its column in all other rows, drop the row and all rows that became empty; `none` if no row has a ±1 entry -/
def unitStep (rows : Array Row) : Option (Array Row) := Id.run do
  -- a row with a ±1 entry, preferring short rows
  let mut best : Option (Nat × Nat × Nat × Int) := none    -- (len, row, col, value)
  for i in [0:rows.size] do
    let r := rows[i]!
    let better : Bool := match best with
      | some (len, _, _, _) => decide (r.size < len)
      | none => true
    if better then
      match r.find? (fun (_, v) => v == 1 || v == -1) with
      | some (c, v) => best := some (r.size, i, c, v)
      | none => pure ()
  match best with
  | none => return none
  | some (_, i, j, u) =>
    let ri := rows[i]!
    let mut next : Array Row := Array.mkEmpty rows.size
    for k in [0:rows.size] do
      if k != i then
        let rk := rows[k]!
        let a := rowGet rk j
        let rk' := if a == 0 then rk else rowAxpy rk (-(a * u)) ri
        if rk'.size > 0 then next := next.push rk'
    return some next

/-- the unit-pivot phase: rounds of `unitStep` until none applies; every round removes a row, so `fuel = rows.size`
rounds suffice. Returns the remaining rows and the number of rounds. -/
def unitLoop : Nat → Array Row → Nat → Array Row × Nat
  | 0, rows, units => (rows, units)
  | fuel + 1, rows, units =>
    match unitStep rows with
    | none => (rows, units)
    | some next => unitLoop fuel next (units + 1)

/-- Smith invariants of a sparse integer matrix (rows given): (rank, invariant factors ≠ 1 in chain form).
TOTAL: the former `while go` loop is `unitLoop` (structural recursion on fuel `rows.size + 1`). -/
def smithInvariants (rows0 : Array Row) : Nat × Array Int :=
  let rows00 := rows0.filter (fun r => r.size > 0)
  let ru := unitLoop (rows00.size + 1) rows00 0
  let rows := ru.1
  let units := ru.2
  if rows.size == 0 then (units, #[])
  else Id.run do
    -- dense remainder
    let mut cols : Array Nat := #[]
    for r in rows do
      for (c, _) in r do
        if !cols.contains c then cols := cols.push c
    let cols' := cols.qsort (· < ·)
    let dense := rows.map (fun r => cols'.map (fun c => rowGet r c))
    let dg := chain (denseDiag dense)
    return (units + dg.size, dg.filter (fun x => x != 1))

/-! ### homology tables -/

structure Group where
  rank : Nat
  tors : Array Int
deriving Repr, Inhabited

/-- ranks over the field with `p` elements (`p = 0`: ℚ; torsion is not reported over fields) or over ℤ (`none`) -/
inductive Coeff where | Z | Q | Fp (p : Nat)
deriving Repr

def rankOver (k : Coeff) (inv : Nat × Array Int) : Nat :=
  match k with
  | .Z | .Q => inv.1
  | .Fp p => inv.1 - (inv.2.filter (fun x => x % (p : Int) == 0)).size

/-- homology of a complex given degree-wise generator lists and a differential; returns, per position in
`gens`, the group. `d` must map generators of `gens[i]` to combinations of `gens[i+1]`. -/
def homologyOf (k : Coeff) (gens : Array (Array Gen)) (d : Gen → Array Term) : Array Group := Id.run do
  let mut invs : Array (Nat × Array Int) := #[]
  for i in [0:gens.size] do
    if i + 1 < gens.size then
      let tgt := gens[i + 1]!
      let mut idx : Std.HashMap Gen Nat := {}
      for j in [0:tgt.size] do idx := idx.insert tgt[j]! j
      let rows := (gens[i]!).map (fun g => normalizeRow ((d g).map (fun (y, a) => ((idx.get? y).getD 0, a))))
      invs := invs.push (smithInvariants rows)
    else invs := invs.push (0, #[])
  let mut out : Array Group := #[]
  for i in [0:gens.size] do
    let rOut := rankOver k invs[i]!
    let inPrev : Nat × Array Int := if i == 0 then (0, #[]) else invs[i - 1]!
    let rIn := rankOver k inPrev
    let tors : Array Int := match k with
      | .Z => inPrev.2
      | _ => #[]
    out := out.push ⟨(gens[i]!).size - rOut - rIn, tors⟩
  return out

structure Result where
  /-- (i, j?, group) for the non-zero groups -/
  cells : Array (Int × Option Int × Group)
deriving Repr

inductive Failure where | malformed | notComplex
deriving Repr

/-- Khovanov homology of the cube; `signs` = crossing signs (+1/−1) of the unresolved crossings. -/
def khHomology (l : Link) (signs : Array Int) (p : Params) (k : Coeff) (bigraded : Bool) :
    Except Failure Result := Id.run do
  let c := mkCube l p
  let nNeg := (signs.filter (· < 0)).size
  let nPos := (signs.filter (· > 0)).size
  let h0 : Int := -(nNeg : Int)
  let q0 : Int := (nPos : Int) - 2 * nNeg + (if p.reduced then 1 else 0)
  -- all generators by weight
  let mut gens : Array (Array Gen) := Array.replicate (c.n + 1) #[]
  for s in [0:2 ^ c.n] do
    let w := popcount s c.n
    gens := gens.set! w (gens[w]! ++ c.gensAt s)
  -- differential table (also detects malformed cubes)
  let mut dmap : Std.HashMap Gen (Array Term) := {}
  for gs in gens do
    for g in gs do
      match c.d p g with
      | none => return .error .malformed
      | some ts => dmap := dmap.insert g ts
  let d : Gen → Array Term := fun g => (dmap.get? g).getD #[]
  -- d∘d = 0, re-checked on this instance
  for gs in gens do
    for g in gs do
      let mut acc : Std.HashMap Gen Int := {}
      for (y, a) in d g do
        for (z, b) in d y do
          acc := acc.insert z ((acc.get? z).getD 0 + a * b)
      if acc.toList.any (fun (_, v) => v != 0) then return .error .notComplex
  let mut cells : Array (Int × Option Int × Group) := #[]
  if !bigraded then
    let hs := homologyOf k gens d
    for i in [0:hs.size] do
      let g := hs[i]!
      if g.rank != 0 || g.tors.size != 0 then cells := cells.push (h0 + i, none, g)
  else
    -- split by q-degree (the differential preserves it when h = t = 0)
    let mut qs : Array Int := #[]
    for gs in gens do
      for g in gs do
        let q := c.qDeg q0 g
        if !qs.contains q then qs := qs.push q
    let qs' := qs.qsort (· < ·)
    for q in qs' do
      let gq := gens.map (fun gs => gs.filter (fun g => c.qDeg q0 g == q))
      -- the differential must stay inside the q-piece
      for gs in gq do
        for g in gs do
          if (d g).any (fun (y, _) => c.qDeg q0 y != q) then return .error .notComplex
      let hs := homologyOf k gq d
      for i in [0:hs.size] do
        let g := hs[i]!
        if g.rank != 0 || g.tors.size != 0 then cells := cells.push (h0 + i, some q, g)
  return .ok ⟨cells⟩

/-- `Link::mirror` -/
def mirror (l : Link) : Link := l.map (fun c => ⟨c.ct.mirror, c.e⟩)

/-- reversing the orientation of every component at once: `[a,b,c,d] ↦ [c,d,a,b]` -/
def reverseAll (l : Link) : Link := l.map (fun c => ⟨c.ct, #[c.e[2]!, c.e[3]!, c.e[0]!, c.e[1]!]⟩)

/-- the arcs of a resolved crossing as pairs of slots (`Crossing::arcs`) -/
def CT.arcSlots : CT → List (Nat × Nat)
  | .V => [(0, 3), (1, 2)]
  | .H => [(0, 1), (2, 3)]
  | _ => [(0, 2), (1, 3)]

/-- the mirror rule of the property on a table: free part (i,j) ↦ (−i,−j), torsion (i,j) ↦ (1−i,−j) -/
def mirrorRule (r : Result) : Result := Id.run do
  let mut out : Array (Int × Option Int × Group) := #[]
  let bump (out : Array (Int × Option Int × Group)) (i : Int) (j : Option Int) (f : Group → Group) :=
    match out.findIdx? (fun c => c.1 == i && c.2.1 == j) with
    | some k => out.modify k (fun c => (c.1, c.2.1, f c.2.2))
    | none => out.push (i, j, f ⟨0, #[]⟩)
  for (i, j, g) in r.cells do
    if g.rank != 0 then out := bump out (-i) (j.map (fun x => -x)) (fun c => ⟨c.rank + g.rank, c.tors⟩)
    if g.tors.size != 0 then out := bump out (1 - i) (j.map (fun x => -x)) (fun c => ⟨c.rank, c.tors ++ g.tors⟩)
  return ⟨out⟩

end Yuiv.KhRef
