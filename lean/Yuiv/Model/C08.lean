/-
C08 — chain reduction: executable CHECKER of reduction data and an independent homology reference.

Import-free (core Lean only).  The soundness theorems about `check` live in `Yuiv/Props/C08.lean`
(they relate the Boolean checker below to identities of Mathlib matrices).

Conventions (those of `yui-homology` with `d_deg = -1`):
  modules `C_0 … C_k` of ranks `n_0 … n_k`;  `d_i : C_i → C_{i-1}` is an `n_{i-1} × n_i` matrix (`i = 1..k`);
  reduced modules of ranks `m_0 … m_k`, reduced differentials `d'_i : m_{i-1} × m_i`;
  forward maps  `F_i : m_i × n_i`,  backward maps `B_i : n_i × m_i`  (`i = 0..k`);
  tracked vectors: `V_i : n_i × t_i` (columns) with their transported images `V'_i : m_i × t_i`.
-/
namespace Yuiv.C08

/-- dense row-major matrix with its declared shape -/
structure Mat (α : Type) where
  r : Nat
  c : Nat
  a : Array α
deriving Inhabited

variable {α : Type}

/-- entry `(i,j)`; anything outside the stored data reads as `0` -/
@[inline] def Mat.get [Zero α] (A : Mat α) (i j : Nat) : α := A.a.getD (i * A.c + j) 0

/-- `Σ_{k<n} f k * g k` -/
def dotN [Zero α] [Add α] [Mul α] (f g : Nat → α) : Nat → α
  | 0 => 0
  | n + 1 => dotN f g n + f n * g n

/-- `∀ i < n, p i` -/
def allN : Nat → (Nat → Bool) → Bool
  | 0, _ => true
  | n + 1, p => allN n p && p n

section checker
variable [Zero α] [One α] [Add α] [Mul α] (eq : α → α → Bool)

/-- `A·B = C·D` with `A : m×n`, `B : n×p`, `C : m×q`, `D : q×p` -/
def mulEq2 (m n q p : Nat) (A B C D : Mat α) : Bool :=
  allN m fun i => allN p fun j =>
    eq (dotN (fun k => A.get i k) (fun k => B.get k j) n)
       (dotN (fun k => C.get i k) (fun k => D.get k j) q)

/-- `A·B = C` with `A : m×n`, `B : n×p` -/
def mulEq1 (m n p : Nat) (A B C : Mat α) : Bool :=
  allN m fun i => allN p fun j =>
    eq (dotN (fun k => A.get i k) (fun k => B.get k j) n) (C.get i j)

/-- `A·B = 0` -/
def mulEq0 (m n p : Nat) (A B : Mat α) : Bool :=
  allN m fun i => allN p fun j =>
    eq (dotN (fun k => A.get i k) (fun k => B.get k j) n) 0

/-- `A·B = 1` with `A : m×n`, `B : n×m` -/
def mulEqI (m n : Nat) (A B : Mat α) : Bool :=
  allN m fun i => allN m fun j =>
    eq (dotN (fun k => A.get i k) (fun k => B.get k j) n) (if i = j then 1 else 0)

/-- everything the harness exports about one run of the reducer -/
structure RedData (α : Type) where
  k  : Nat
  n  : Array Nat          -- ranks of the original modules, index 0..k
  m  : Array Nat          -- ranks of the reduced modules
  d  : Array (Mat α)      -- index i = 1..k  (index 0: placeholder)
  d' : Array (Mat α)
  F  : Array (Mat α)      -- index 0..k
  B  : Array (Mat α)
  t  : Array Nat          -- number of tracked vectors per degree
  V  : Array (Mat α)      -- n_i × t_i
  V' : Array (Mat α)      -- m_i × t_i

variable (x : RedData α)

@[inline] def RedData.nn (i : Nat) : Nat := x.n.getD i 0
@[inline] def RedData.mm (i : Nat) : Nat := x.m.getD i 0
@[inline] def RedData.tt (i : Nat) : Nat := x.t.getD i 0
@[inline] def RedData.dd (i : Nat) : Mat α := x.d.getD i default
@[inline] def RedData.dr (i : Nat) : Mat α := x.d'.getD i default
@[inline] def RedData.FF (i : Nat) : Mat α := x.F.getD i default
@[inline] def RedData.BB (i : Nat) : Mat α := x.B.getD i default
@[inline] def RedData.VV (i : Nat) : Mat α := x.V.getD i default
@[inline] def RedData.VR (i : Nat) : Mat α := x.V'.getD i default

/-- the given complex is a complex: `d_i · d_{i+1} = 0` -/
def cIn (i : Nat) : Bool := mulEq0 eq (x.nn (i - 1)) (x.nn i) (x.nn (i + 1)) (x.dd i) (x.dd (i + 1))
/-- the reduced complex is a complex: `d'_i · d'_{i+1} = 0` -/
def cDD (i : Nat) : Bool := mulEq0 eq (x.mm (i - 1)) (x.mm i) (x.mm (i + 1)) (x.dr i) (x.dr (i + 1))
/-- `F_{i-1} · d_i = d'_i · F_i` -/
def cFd (i : Nat) : Bool :=
  mulEq2 eq (x.mm (i - 1)) (x.nn (i - 1)) (x.mm i) (x.nn i) (x.FF (i - 1)) (x.dd i) (x.dr i) (x.FF i)
/-- `d_i · B_i = B_{i-1} · d'_i` -/
def cdB (i : Nat) : Bool :=
  mulEq2 eq (x.nn (i - 1)) (x.nn i) (x.mm (i - 1)) (x.mm i) (x.dd i) (x.BB i) (x.BB (i - 1)) (x.dr i)
/-- `F_i · B_i = 1` -/
def cFB (i : Nat) : Bool := mulEqI eq (x.mm i) (x.nn i) (x.FF i) (x.BB i)
/-- tracked vectors are transported by `F`: `F_i · V_i = V'_i` -/
def cFv (i : Nat) : Bool := mulEq1 eq (x.mm i) (x.nn i) (x.tt i) (x.FF i) (x.VV i) (x.VR i)

/-- clauses over `i = 1..k-1` -/
def checkIn : Bool := allN (x.k - 1) fun i => cIn eq x (i + 1)
def checkDD : Bool := allN (x.k - 1) fun i => cDD eq x (i + 1)
/-- clauses over `i = 1..k` -/
def checkFd : Bool := allN x.k fun i => cFd eq x (i + 1)
def checkdB : Bool := allN x.k fun i => cdB eq x (i + 1)
/-- clauses over `i = 0..k` -/
def checkFB : Bool := allN (x.k + 1) fun i => cFB eq x i
def checkFv : Bool := allN (x.k + 1) fun i => cFv eq x i

/-- the verified checker: every identity in every degree -/
def check : Bool :=
  checkIn eq x && checkDD eq x && checkFd eq x && checkdB eq x && checkFB eq x && checkFv eq x

/-- first `i` in `lo..hi-1` (ascending) with `p i = false` -/
def firstBad (p : Nat → Bool) (lo hi : Nat) : Option Nat :=
  (List.range' lo (hi - lo)).find? fun i => !p i

/-- name of the first failing clause, in the fixed order `in, dd, Fd, dB, FB, Fv`, degrees ascending
(diagnostic only; the verdict is `check`) -/
def firstFail : String :=
  let k := x.k
  match firstBad (cIn eq x) 1 k with
  | some i => s!"in@{i}"
  | none =>
  match firstBad (cDD eq x) 1 k with
  | some i => s!"dd@{i}"
  | none =>
  match firstBad (cFd eq x) 1 (k + 1) with
  | some i => s!"Fd@{i}"
  | none =>
  match firstBad (cdB eq x) 1 (k + 1) with
  | some i => s!"dB@{i}"
  | none =>
  match firstBad (cFB eq x) 0 (k + 1) with
  | some i => s!"FB@{i}"
  | none =>
  match firstBad (cFv eq x) 0 (k + 1) with
  | some i => s!"Fv@{i}"
  | none => "none"

end checker

/-! ## scalar instances used by the driver (checker side) -/

/-- equality of integers modulo `p` (`p = 0`: plain equality) -/
def eqMod (p : Nat) (a b : Int) : Bool := (a - b) % (p : Int) == 0

/-- polynomials in one variable over `Int`: coefficient list, ascending degree, no normal form required -/
structure Poly where
  c : List Int
deriving Inhabited

namespace Poly
def addL : List Int → List Int → List Int
  | [], ys => ys
  | xs, [] => xs
  | x :: xs, y :: ys => (x + y) :: addL xs ys
def scaleL (a : Int) (xs : List Int) : List Int := xs.map (a * ·)
def mulL : List Int → List Int → List Int
  | [], _ => []
  | x :: xs, ys => addL (scaleL x ys) (0 :: mulL xs ys)
def isZeroL (xs : List Int) : Bool := xs.all (· == 0)
def subL (xs ys : List Int) : List Int := addL xs (scaleL (-1) ys)
instance : Zero Poly := ⟨⟨[]⟩⟩
instance : One Poly := ⟨⟨[1]⟩⟩
instance : Add Poly := ⟨fun a b => ⟨addL a.c b.c⟩⟩
instance : Mul Poly := ⟨fun a b => ⟨mulL a.c b.c⟩⟩
def eq (a b : Poly) : Bool := isZeroL (subL a.c b.c)
end Poly

/-! ## homology reference (independent of the checker; plain elimination) -/

abbrev IMat := Array (Array Int)

def IMat.ofMat (A : Mat Int) (r c : Nat) : IMat :=
  Array.ofFn (n := r) fun i => Array.ofFn (n := c) fun j => A.get i.val j.val

@[inline] def iget (A : IMat) (i j : Nat) : Int := (A.getD i #[]).getD j 0

/-- rank over `F_p` (`p` prime) by Gaussian elimination; `inv` by Fermat -/
def powMod (a : Int) (e : Nat) (p : Int) : Int := Id.run do
  let mut r : Int := 1
  let mut b := a % p
  let mut e := e
  for _ in [0:64] do
    if e == 0 then break
    if e % 2 == 1 then r := (r * b) % p
    b := (b * b) % p
    e := e / 2
  return r

def rankModP (p : Nat) (A : IMat) (rows cols : Nat) : Nat := Id.run do
  let pz : Int := p
  let mut M : IMat := A.map fun row => row.map (· % pz)
  let mut rk := 0
  for j in [0:cols] do
    if rk ≥ rows then break
    -- find pivot row
    let mut piv : Option Nat := none
    for i in [rk:rows] do
      if piv.isNone && iget M i j % pz != 0 then piv := some i
    match piv with
    | none => pure ()
    | some i =>
      let ri := M.getD i #[]
      let rr := M.getD rk #[]
      M := (M.setIfInBounds i rr).setIfInBounds rk ri
      let inv := powMod (iget M rk j) (p - 2) pz
      let prow := (M.getD rk #[]).map fun v => (v * inv) % pz
      M := M.setIfInBounds rk prow
      for i2 in [0:rows] do
        if i2 != rk then
          let f := iget M i2 j
          if f % pz != 0 then
            let row := M.getD i2 #[]
            let row' := Array.ofFn (n := row.size) fun t => (row.getD t.val 0 - f * prow.getD t.val 0) % pz
            M := M.setIfInBounds i2 row'
      rk := rk + 1
  return rk

/-- rank over `Q` of a rational matrix -/
def rankQ (A : Array (Array Rat)) (rows cols : Nat) : Nat := Id.run do
  let mut M := A
  let mut rk := 0
  for j in [0:cols] do
    if rk ≥ rows then break
    let mut piv : Option Nat := none
    for i in [rk:rows] do
      if piv.isNone && (M.getD i #[]).getD j 0 != 0 then piv := some i
    match piv with
    | none => pure ()
    | some i =>
      let ri := M.getD i #[]
      let rr := M.getD rk #[]
      M := (M.setIfInBounds i rr).setIfInBounds rk ri
      let pv := ri.getD j 0
      let prow := ri.map fun v => v / pv
      M := M.setIfInBounds rk prow
      for i2 in [0:rows] do
        if i2 != rk then
          let row := M.getD i2 #[]
          let f := row.getD j 0
          if f != 0 then
            let row' := Array.ofFn (n := row.size) fun t => row.getD t.val 0 - f * prow.getD t.val 0
            M := M.setIfInBounds i2 row'
      rk := rk + 1
  return rk

/-- smallest non-zero entry (in absolute value) of the trailing block `[t.., t..]` -/
def findMin (M : IMat) (t rows cols : Nat) : Option (Nat × Nat) := Id.run do
  let mut best : Option (Nat × Nat × Nat) := none
  for i in [t:rows] do
    for j in [t:cols] do
      let v := (iget M i j).natAbs
      if v != 0 then
        match best with
        | none => best := some (i, j, v)
        | some (_, _, w) => if v < w then best := some (i, j, v)
  return best.map fun (i, j, _) => (i, j)

def swapRows (M : IMat) (i j : Nat) : IMat :=
  let ri := M.getD i #[]; let rj := M.getD j #[]
  (M.setIfInBounds i rj).setIfInBounds j ri

def swapCols (M : IMat) (i j : Nat) : IMat :=
  M.map fun row => let a := row.getD i 0; let b := row.getD j 0; (row.setIfInBounds i b).setIfInBounds j a

/-- row_i -= q * row_t -/
def rowSub (M : IMat) (i t : Nat) (q : Int) : IMat :=
  let rt := M.getD t #[]
  let ri := M.getD i #[]
  M.setIfInBounds i (Array.ofFn (n := ri.size) fun s => ri.getD s.val 0 - q * rt.getD s.val 0)

def colSub (M : IMat) (j t : Nat) (q : Int) : IMat :=
  M.map fun row => row.setIfInBounds j (row.getD j 0 - q * row.getD t 0)

/-- absolute values of the non-zero diagonal entries of the Smith normal form over `Z`
(`none`: fuel exhausted) -/
def snfDiag (A : IMat) (rows cols : Nat) (fuel : Nat) : Option (List Nat) := Id.run do
  let mut M := A
  let mut t := 0
  let mut out : List Nat := []
  let lim := min rows cols
  for _ in [0:fuel] do
    if t ≥ lim then break
    match findMin M t rows cols with
    | none => t := lim
    | some (pi, pj) =>
      M := swapRows M t pi
      M := swapCols M t pj
      let pv := iget M t t
      -- clear column t
      let mut clean := true
      for i in [t+1:rows] do
        let v := iget M i t
        if v != 0 then
          let q := v / pv
          M := rowSub M i t q
          if iget M i t != 0 then clean := false
      for j in [t+1:cols] do
        let v := iget M t j
        if v != 0 then
          let q := v / pv
          M := colSub M j t q
          if iget M t j != 0 then clean := false
      if clean then
        -- divisibility of the remaining block
        let mut bad : Option Nat := none
        for i in [t+1:rows] do
          for j in [t+1:cols] do
            if bad.isNone && iget M i j % pv != 0 then bad := some i
        match bad with
        | some i =>
          -- row_t += row_i  (as row_t -= (-1) * row_i)
          M := rowSub M t i (-1)
        | none =>
          out := pv.natAbs :: out
          t := t + 1
  if t < lim then return none
  return some out.reverse

/-- homology of `C_0 ← C_1 ← … ← C_k` over `Z`: per degree `(rank, torsion orders > 1 ascending)` -/
def homologyZ (k : Nat) (n : Nat → Nat) (d : Nat → Mat Int) : Option (List (Nat × List Nat)) := do
  -- snf of d_i for i = 1..k ; d_0 = 0 = d_{k+1}
  let snfs ← (List.range (k + 2)).mapM fun i =>
    if i == 0 || i == k + 1 then some ([] : List Nat)
    else snfDiag (IMat.ofMat (d i) (n (i - 1)) (n i)) (n (i - 1)) (n i) 100000
  let rk (i : Nat) : Nat := (snfs.getD i []).length
  let tor (i : Nat) : List Nat := ((snfs.getD i []).filter (· > 1)).mergeSort
  return (List.range (k + 1)).map fun i => (n i - rk i - rk (i + 1), tor (i + 1))

/-- Betti numbers over a field given a rank function for `d_i` -/
def bettiBy (k : Nat) (n : Nat → Nat) (rk : Nat → Nat) : List Nat :=
  (List.range (k + 1)).map fun i =>
    n i - (if i == 0 then 0 else rk i) - (if i == k then 0 else rk (i + 1))

def showHomZ (h : List (Nat × List Nat)) : String :=
  ",".intercalate (h.map fun (r, t) =>
    if t.isEmpty then toString r else s!"{r}:" ++ ":".intercalate (t.map toString))

def showBetti (h : List Nat) : String := ",".intercalate (h.map toString)

end Yuiv.C08
