import Yuiv.Model.C10
/-
Dense-matrix / vector primitives used by the definitions that `tools/rs2lean_fn.py` generates from
`yui-matrix/src/dense/lll.rs` (target `fn:lll`) — hand-written, import-free apart from `Yuiv/Model/C10.lean`, TRUSTED.

`R := Int` (the hand model of C10 is over ℤ; ring operations and trait methods: Yuiv/Model/RustRing.lean, plus below the
`LLLRing` items of `impl_for_int!`).  `Mat<R>` is `LMat`: the model's `C10.Mat` (`Array (Array Int)`) together with its
shape, as nalgebra stores it; `Vec<R>` is `Array Int`; `usize` an unbounded `Nat`.  Every primitive panics on an index
out of range (as nalgebra / `Vec` do) and is otherwise the primitive of the hand model:

  `A[(i, j)]` ↦ `LMat.get`;  `A[(i, j)] = v` ↦ `LMat.set` (one entry rebuilt by `mkMat`);
  `swap_rows/swap_cols/mul_row/mul_col/add_row_to/add_col_to` ↦ `C10.mSwapRows … mAddColTo`;
  `let mut c = A.inner_mut().column_mut(j); c.swap_rows(a, b)` ↦ `LMat.col_swap_rows A j a b` (entries `(a, j)`, `(b, j)`
  exchanged);  `A.inner().row(i)` ↦ the list of the entries;  `v[i]`, `v[i] = x` ↦ `LVec.get`, `LVec.set`;
  `it.enumerate()` ↦ `Iter.enumerate`;  `for i in (lo..hi).rev()` ↦ `Loop.forRangeRev`.
-/
namespace Yuiv.Rust
open Yuiv Res Yuiv.C10

/-- a dense matrix with its shape -/
structure LMat where
  r : Nat
  c : Nat
  a : C10.Mat

namespace LMat

def get (A : LMat) (i j : Nat) : Res Int := if i < A.r ∧ j < A.c then ok (ent A.a i j) else panic
def set (A : LMat) (i j : Nat) (v : Int) : Res LMat :=
  if i < A.r ∧ j < A.c then ok ⟨A.r, A.c, mkMat A.r A.c fun a b => if a = i ∧ b = j then v else ent A.a a b⟩ else panic
def swap_rows (A : LMat) (i j : Nat) : Res LMat :=
  if i < A.r ∧ j < A.r then ok ⟨A.r, A.c, mSwapRows A.r A.c A.a i j⟩ else panic
def swap_cols (A : LMat) (i j : Nat) : Res LMat :=
  if i < A.c ∧ j < A.c then ok ⟨A.r, A.c, mSwapCols A.r A.c A.a i j⟩ else panic
def mul_row (A : LMat) (i : Nat) (u : Int) : Res LMat :=
  if i < A.r then ok ⟨A.r, A.c, mMulRow A.r A.c A.a i u⟩ else panic
def mul_col (A : LMat) (j : Nat) (u : Int) : Res LMat :=
  if j < A.c then ok ⟨A.r, A.c, mMulCol A.r A.c A.a j u⟩ else panic
def add_row_to (A : LMat) (i j : Nat) (r : Int) : Res LMat :=
  if i < A.r ∧ j < A.r then ok ⟨A.r, A.c, mAddRowTo A.r A.c A.a i j r⟩ else panic
def add_col_to (A : LMat) (i j : Nat) (r : Int) : Res LMat :=
  if i < A.c ∧ j < A.c then ok ⟨A.r, A.c, mAddColTo A.r A.c A.a i j r⟩ else panic
/-- exchange the entries `(a, j)` and `(b, j)` -/
def col_swap_rows (A : LMat) (j a b : Nat) : Res LMat :=
  if j < A.c ∧ a < A.r ∧ b < A.r then
    ok ⟨A.r, A.c, mkMat A.r A.c fun x y => if y = j then ent A.a (if x = a then b else if x = b then a else x) y else ent A.a x y⟩
  else panic
def row (A : LMat) (i : Nat) : Res (List Int) :=
  if i < A.r then ok ((List.range A.c).map fun j => ent A.a i j) else panic

end LMat

namespace LVec
def get (v : Array Int) (i : Nat) : Res Int := if i < v.size then ok (v.getD i 0) else panic
def set (v : Array Int) (i : Nat) (x : Int) : Res (Array Int) := if i < v.size then ok (v.set! i x) else panic
end LVec

namespace RInt
/-- `LLLRing::alpha()` of `impl_for_int!` -/
def alpha : Int × Int := (3, 4)
/-- `LLLRing::as_int` / `conj` / `norm` of the integer types -/
def as_int (a : Int) : Option Int := some a
def conj (a : Int) : Int := a
def norm (a : Int) : Int := a * conj a
/-- `Self::from(3)` for an integer type: the literal itself -/
def from_lit (a : Int) : Int := a
end RInt

namespace Iter
def enumerateFrom {α : Type} : Nat → List α → List (Nat × α)
  | _, [] => []
  | k, x :: xs => (k, x) :: enumerateFrom (k + 1) xs
/-- `it.enumerate()` -/
def enumerate {α : Type} (l : List α) : List (Nat × α) := enumerateFrom 0 l
end Iter

/-- `for i in (lo..hi).rev()`: `i = hi-1, …, lo` (no `break` / `continue` support needed by lll.rs) -/
def Loop.forRangeRev {σ : Type} (lo hi : Nat) (f : Nat → σ → Res σ) (s : σ) : Res σ :=
  let rec go : Nat → σ → Res σ
    | 0, s => ok s
    | c + 1, s => do
      let s' ← f (lo + c) s
      go c s'
  go (hi - lo) s

end Yuiv.Rust
