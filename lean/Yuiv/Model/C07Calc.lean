import Yuiv.Model.C07
import Yuiv.Model.C07Trans
/-
Code model of `HomologyCalc::{calculate, trivial_result, process_snf, result, trans}`
(yui-homology/src/utils/homology_calc.rs) over `Int`, on top of an SNF routine passed as a parameter
(`SnfFn`; the Rust code calls `snf_in_place`, whose specification is property C09).
Every `assert!`, `unwrap()`, range check of `submat_*` and `usize` subtraction is an explicit `Res.panic`.

`snfOwn` is a self-contained SNF with transformation matrices (plain Euclidean elimination, NOT a transcription
of the Rust SNF) used to *run* the model in the driver.
-/
namespace Yuiv.C07
open Yuiv

/-- `SnfResult` -/
structure Snf where
  result : Mat
  p : Option Mat
  pinv : Option Mat
  q : Option Mat
  qinv : Option Mat
deriving Inhabited

/-- `SnfResult::rank`: index of the first zero diagonal entry -/
def Snf.rank (s : Snf) : Nat :=
  let n := min s.result.r s.result.c
  ((List.range n).find? fun i => s.result.get i i == 0).getD n

/-- `SnfResult::factors`: the non-zero diagonal entries -/
def Snf.factors (s : Snf) : List Int :=
  (List.range (min s.result.r s.result.c)).filterMap fun i =>
    let a := s.result.get i i
    if a != 0 then some a else none

/-- flags `[p, pinv, q, qinv]` -/
abbrev SnfFlags := Bool × Bool × Bool × Bool
abbrev SnfFn := Mat → SnfFlags → Res Snf

def isUnitZ (x : Int) : Bool := x.natAbs == 1

def unwrap {α} : Option α → Res α
  | some a => .ok a
  | none => .panic

/-- `submat_rows(lo..hi)` with its range assertion -/
def rowsR (A : Mat) (lo hi : Nat) : Res Mat := do
  Res.assert (decide (lo ≤ hi ∧ hi ≤ A.r))
  pure (A.rows lo hi)

/-- `submat_cols(lo..hi)` with its range assertion -/
def colsR (A : Mat) (lo hi : Nat) : Res Mat := do
  Res.assert (decide (lo ≤ hi ∧ hi ≤ A.c))
  pure (A.cols lo hi)

/-- `usize` subtraction (overflow checks on) -/
def subR (a b : Nat) : Res Nat := if b ≤ a then .ok (a - b) else .panic

/-- `a.stack(b)` (`combine_blocks` asserts equal column counts) -/
def stackR (A B : Mat) : Res Mat := do
  Res.assert (A.c == B.c)
  pure (A.stack B)

/-- `a.concat(b)` (`combine_blocks` asserts equal row counts) -/
def concatR (A B : Mat) : Res Mat := do
  Res.assert (A.r == B.r)
  pure (A.concat B)

/-- `HomologyCalc::process_snf` -/
def processSnf (snf : SnfFn) (d1 d2 : Mat) (withTrans : Bool) : Res (Snf × Snf) := do
  let n := d1.r
  let s1 ← snf d1 (withTrans, true, false, false)
  let r1 := s1.rank
  let d2dns ←
    if r1 > 0 then do
      let p1inv ← unwrap s1.pinv
      let t2 ← colsR p1inv r1 n
      Trans.mulMat d2 t2
    else pure d2
  let s2 ← snf d2dns (false, false, withTrans, withTrans)
  pure (s1, s2)

/-- `HomologyCalc::result` -/
def calcResult (s1 s2 : Snf) : Res (Nat × List Int) := do
  let n := s1.result.r
  let (r1, r2) := (s1.rank, s2.rank)
  Res.assert (decide (n ≥ r1 + r2))
  pure (n - r1 - r2, s1.factors.filter fun a => !isUnitZ a)

/-- `HomologyCalc::trans` -/
def calcTrans (s1 s2 : Snf) : Res Trans := do
  let n := s1.result.r
  let (r1, r2) := (s1.rank, s2.rank)
  let r ← (subR n r1) >>= (subR · r2)
  let t := (s1.factors.filter fun a => !isUnitZ a).length
  let p1 ← unwrap s1.p
  let p11 ← rowsR p1 r1 n
  let p2 ← unwrap s2.qinv
  let nr1 ← subR n r1
  let p22 ← rowsR p2 r2 nr1
  let pFree ← Trans.mulMat p22 p11
  let lo ← subR r1 t
  let pTor ← rowsR p1 lo r1
  let p ← stackR pFree pTor
  Res.assert (p.r == r + t && p.c == n)
  let q1 ← unwrap s1.pinv
  let q12 ← colsR q1 r1 n
  let q2 ← unwrap s2.q
  let q22 ← colsR q2 r2 nr1
  let qFree ← Trans.mulMat q12 q22
  let qTor ← colsR q1 lo r1
  let q ← concatR qFree qTor
  Res.assert (q.r == n && q.c == r + t)
  Trans.new p q

/-- `HomologyCalc::calculate` -/
def calculate (snf : SnfFn) (d1 d2 : Mat) (withTrans : Bool) : Res (Nat × List Int × Option Trans) := do
  Res.assert (d1.r == d2.c)
  if d1.isZero && d2.isZero then
    -- trivial_result
    pure (d1.r, [], if withTrans then some (Trans.id d1.r) else none)
  else do
    let (s1, s2) ← processSnf snf d1 d2 withTrans
    let (rank, tors) ← calcResult s1 s2
    if withTrans then do
      let t ← calcTrans s1 s2
      pure (rank, tors, some t)
    else pure (rank, tors, none)

/-! ### a self-contained SNF with transformation matrices -/

structure SnfState where
  a : Rows
  p : Rows
  pi : Rows
  q : Rows
  qi : Rows

def ridRows (n : Nat) : Rows := Array.ofFn (n := n) fun i => Array.ofFn (n := n) fun j => if i.val = j.val then 1 else 0

namespace SnfState

def swapRows (s : SnfState) (i j : Nat) : SnfState :=
  { s with a := rswapRows s.a i j, p := rswapRows s.p i j, pi := rswapCols s.pi i j }
def swapCols (s : SnfState) (i j : Nat) : SnfState :=
  { s with a := rswapCols s.a i j, q := rswapCols s.q i j, qi := rswapRows s.qi i j }
/-- row_i += c · row_t -/
def addRow (s : SnfState) (i t : Nat) (c : Int) : SnfState :=
  { s with a := raddRow s.a i t c, p := raddRow s.p i t c, pi := raddCol s.pi t i (-c) }
/-- col_j += c · col_t -/
def addCol (s : SnfState) (j t : Nat) (c : Int) : SnfState :=
  { s with a := raddCol s.a j t c, q := raddCol s.q j t c, qi := raddRow s.qi t j (-c) }
def negRow (s : SnfState) (i : Nat) : SnfState :=
  let neg (r : Rows) := r.setIfInBounds i ((r.getD i #[]).map (- ·))
  { s with a := neg s.a, p := neg s.p, pi := s.pi.map fun row => row.setIfInBounds i (- row.getD i 0) }

end SnfState

def snfFullLoop (r c : Nat) : Nat → SnfState → Nat → Option SnfState
  | 0, _, _ => none
  | fuel + 1, s, t =>
    match minEntry s.a r c t with
    | none => some s
    | some (_, i, j) =>
      let s := (s.swapRows t i).swapCols t j
      let pv := rget s.a t t
      let s := (List.range (r - t - 1)).foldl (init := s) fun s di =>
        let i := t + 1 + di
        let x := rget s.a i t
        if x = 0 then s else s.addRow i t (-(x / pv))
      let s := (List.range (c - t - 1)).foldl (init := s) fun s dj =>
        let j := t + 1 + dj
        let x := rget s.a t j
        if x = 0 then s else s.addCol j t (-(x / pv))
      let dirty :=
        (List.range (r - t - 1)).any (fun di => rget s.a (t + 1 + di) t != 0) ||
        (List.range (c - t - 1)).any (fun dj => rget s.a t (t + 1 + dj) != 0)
      if dirty then snfFullLoop r c fuel s t
      else
        match nonDivisible s.a r c t with
        | some i => snfFullLoop r c fuel (s.addRow t i 1) t
        | none =>
          let s := if rget s.a t t < 0 then s.negRow t else s
          snfFullLoop r c fuel s (t + 1)

def rowsToMat (r c : Nat) (a : Rows) : Mat := Mat.ofFn r c fun i j => rget a i j

/-- SNF with the requested transformation matrices; `Res.err` if the fuel runs out -/
def snfOwn : SnfFn := fun A flags =>
  let (fp, fpi, fq, fqi) := flags
  let s0 : SnfState := ⟨A.toRows, ridRows A.r, ridRows A.r, ridRows A.c, ridRows A.c⟩
  match snfFullLoop A.r A.c snfFuel s0 0 with
  | none => .err
  | some s =>
    .ok ⟨rowsToMat A.r A.c s.a,
      if fp then some (rowsToMat A.r A.r s.p) else none,
      if fpi then some (rowsToMat A.r A.r s.pi) else none,
      if fq then some (rowsToMat A.c A.c s.q) else none,
      if fqi then some (rowsToMat A.c A.c s.qi) else none⟩

/-- does an `Snf` value satisfy the SNF specification w.r.t. `A` (executable test, used by the driver to
validate `snfOwn` on every input it is run on) -/
def snfSpecOk (A : Mat) (s : Snf) : Bool :=
  let S := s.result
  let n := min S.r S.c
  S.r == A.r && S.c == A.c &&
  allIJ S.r S.c (fun i j => i == j || S.get i j == 0) &&
  (List.range (n - 1)).all (fun i => (S.get i i == 0 → S.get (i + 1) (i + 1) == 0) &&
      (S.get i i != 0 → S.get (i + 1) (i + 1) % S.get i i == 0)) &&
  (match s.p, s.pinv with
   | some p, some pi => prodId 0 p pi && p.r == A.r
   | _, _ => true) &&
  (match s.q, s.qinv with
   | some q, some qi => prodId 0 q qi && q.r == A.c
   | _, _ => true)

end Yuiv.C07
