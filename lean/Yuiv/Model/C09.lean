import Yuiv.Model.Res
/-
C09 — Smith normal form.  Import-free executable definitions:

 * a ring / Euclidean ring given as a structure of operations (`ROps`, `EOps`);
 * fixed-size dense matrices `Mat α m n` and the verified CHECKER
   (`matMul`, `isIdentity`, `snfTransformOk`, `isSnfShape`);
 * the dense primitives of `yui-matrix/src/dense/mat.rs` (`swapRows … rightElem`) and the state of
   `SnfCalc` (`St`: target, P, P⁻¹, Q, Q⁻¹) with the mirrored primitives of `snf.rs`;
 * `refSnf`   — an independent, straightforward SNF (minimal-size pivot, Euclidean reduction) used as
                the REFERENCE that determines the (unique) diagonal;
 * `calc`     — the code model of `SnfCalc::process` (`eliminate_all/step/at/row/col`, `select_pivot`,
                the local `gcdx` wrapper, `diag_normalize(_step)`), branch by branch; `dbg = true`
                includes the two `debug_assert!((a*d - b*c).is_one())` and `debug_assert!(is_diag)`.
   The LLL–HNF preprocessing is a parameter `pre` (it is the subject of C10).
-/
namespace Yuiv.C09
open Yuiv

/-! ### operations -/

structure ROps (α : Type) where
  zero : α
  one : α
  add : α → α → α
  mul : α → α → α
  neg : α → α
  beq : α → α → Bool

/-- the operations of `EucRing`/`Ring` that `snf.rs` uses -/
structure EOps (α : Type) extends ROps α where
  /-- `normalizing_unit` -/
  normUnit : α → α
  /-- `inv` -/
  inv : α → Option α
  /-- `is_unit` -/
  isUnit : α → Bool
  /-- `/` -/
  quo : α → α → α
  /-- `%` -/
  rem : α → α → α
  /-- `EucRing::gcdx` of the ring -/
  gcdx : α → α → α × α × α
  /-- a Euclidean size (only used by the reference to choose pivots) -/
  size : α → Nat

namespace ROps
variable {α : Type} (o : ROps α)
@[inline] def isZero (a : α) : Bool := o.beq a o.zero
@[inline] def isOne (a : α) : Bool := o.beq a o.one
@[inline] def sub (a b : α) : α := o.add a (o.neg b)
end ROps

namespace EOps
variable {α : Type} (e : EOps α)
/-- `normalizing_unit().is_one()` -/
@[inline] def isNorm (a : α) : Bool := e.isOne (e.normUnit a)
/-- `EucRing::divides`: `!self.is_zero() && (y % self).is_zero()` -/
@[inline] def dvd (a b : α) : Bool := !e.isZero a && e.isZero (e.rem b a)
end EOps

/-! ### matrices -/

structure Mat (α : Type) (m n : Nat) where
  v : Vector (Vector α n) m

namespace Mat
variable {α : Type} {m n k : Nat}

@[inline] def get (A : Mat α m n) (i : Fin m) (j : Fin n) : α := (A.v[i.1]'i.2)[j.1]'j.2
@[inline] def ofFn (f : Fin m → Fin n → α) : Mat α m n := ⟨Vector.ofFn fun i => Vector.ofFn fun j => f i j⟩

end Mat

/-- `Σ_{k<n} f k`, left to right -/
def sumFin {α : Type} (o : ROps α) : (n : Nat) → (Fin n → α) → α
  | 0, _ => o.zero
  | n + 1, f => o.add (sumFin o n (fun k => f k.castSucc)) (f (Fin.last n))

def allFin (n : Nat) (p : Fin n → Bool) : Bool := (List.finRange n).all p

section checker
variable {α : Type} {m n k : Nat}

def matMul (o : ROps α) (A : Mat α m k) (B : Mat α k n) : Mat α m n :=
  Mat.ofFn fun i j => sumFin o k (fun l => o.mul (A.get i l) (B.get l j))

def matEq (o : ROps α) (A B : Mat α m n) : Bool :=
  allFin m fun i => allFin n fun j => o.beq (A.get i j) (B.get i j)

def idMat (o : ROps α) (n : Nat) : Mat α n n := Mat.ofFn fun i j => if i.1 = j.1 then o.one else o.zero

def isIdentity (o : ROps α) (A : Mat α n n) : Bool :=
  allFin n fun i => allFin n fun j => o.beq (A.get i j) (if i.1 = j.1 then o.one else o.zero)

def isZeroMat (o : ROps α) (A : Mat α m n) : Bool :=
  allFin m fun i => allFin n fun j => o.isZero (A.get i j)

/-- `D = P·A·Q`, `P·P⁻¹ = I`, `Q·Q⁻¹ = I` -/
def snfTransformOk (o : ROps α) (A D : Mat α m n) (P Pinv : Mat α m m) (Q Qinv : Mat α n n) : Bool :=
  matEq o (matMul o (matMul o P A) Q) D && isIdentity o (matMul o P Pinv) && isIdentity o (matMul o Q Qinv)

def isDiag (o : ROps α) (D : Mat α m n) : Bool :=
  allFin m fun i => allFin n fun j => (i.1 == j.1) || o.isZero (D.get i j)

/-- the `min m n` diagonal entries -/
def diagL (D : Mat α m n) : List α :=
  List.ofFn fun (t : Fin (min m n)) =>
    D.get ⟨t.1, Nat.lt_of_lt_of_le t.2 (Nat.min_le_left m n)⟩ ⟨t.1, Nat.lt_of_lt_of_le t.2 (Nat.min_le_right m n)⟩

/-- non-zero entries first, each normalised, each divides the next -/
def shapeL (e : EOps α) : List α → Bool
  | [] => true
  | a :: rest =>
    if e.isZero a then rest.all e.isZero
    else e.isNorm a &&
      (match rest with
       | [] => true
       | b :: _ => e.isZero b || e.dvd a b) && shapeL e rest

def isSnfShape (e : EOps α) (D : Mat α m n) : Bool := isDiag e.toROps D && shapeL e (diagL D)

end checker

/-! ### dense primitives (`mat.rs`) -/

section prims
variable {α : Type} {m n : Nat}

def swapRows (A : Mat α m n) (i j : Fin m) : Mat α m n :=
  Mat.ofFn fun r c => A.get (if r = i then j else if r = j then i else r) c

def swapCols (A : Mat α m n) (i j : Fin n) : Mat α m n :=
  Mat.ofFn fun r c => A.get r (if c = i then j else if c = j then i else c)

def mulRow (o : ROps α) (A : Mat α m n) (i : Fin m) (u : α) : Mat α m n :=
  Mat.ofFn fun r c => if r = i then o.mul (A.get r c) u else A.get r c

def mulCol (o : ROps α) (A : Mat α m n) (j : Fin n) (u : α) : Mat α m n :=
  Mat.ofFn fun r c => if c = j then o.mul (A.get r c) u else A.get r c

/-- multiply `[a, b; c, d]` from the left on rows `(i, j)`: `row_i ← a·r_i + b·r_j`, then `row_j ← c·r_i + d·r_j`
(both computed from the old rows; for `i = j` the second write wins, as in `mat.rs`) -/
def leftElem (o : ROps α) (A : Mat α m n) (a b c d : α) (i j : Fin m) : Mat α m n :=
  Mat.ofFn fun r col =>
    if r = j then o.add (o.mul (A.get i col) c) (o.mul (A.get j col) d)
    else if r = i then o.add (o.mul (A.get i col) a) (o.mul (A.get j col) b)
    else A.get r col

/-- multiply `[a, c; b, d]` from the right on columns `(i, j)`: `col_i ← a·c_i + b·c_j`, `col_j ← c·c_i + d·c_j` -/
def rightElem (o : ROps α) (A : Mat α m n) (a b c d : α) (i j : Fin n) : Mat α m n :=
  Mat.ofFn fun r col =>
    if col = j then o.add (o.mul (A.get r i) c) (o.mul (A.get r j) d)
    else if col = i then o.add (o.mul (A.get r i) a) (o.mul (A.get r j) b)
    else A.get r col

end prims

/-! ### the state of `SnfCalc` and its mirrored primitives (`snf.rs:203-286`)

All four transforms are always tracked; the flags only select which ones are handed out at the end
(the control flow of `SnfCalc` never reads `p, pinv, q, qinv`). -/

structure St (α : Type) (m n : Nat) where
  t : Mat α m n
  p : Mat α m m
  pinv : Mat α m m
  q : Mat α n n
  qinv : Mat α n n

section state
variable {α : Type} {m n : Nat}

def St.init (o : ROps α) (A : Mat α m n) : St α m n :=
  ⟨A, idMat o m, idMat o m, idMat o n, idMat o n⟩

def sSwapRows (s : St α m n) (i j : Fin m) : St α m n :=
  { s with t := swapRows s.t i j, p := swapRows s.p i j, pinv := swapCols s.pinv i j }

def sSwapCols (s : St α m n) (i j : Fin n) : St α m n :=
  { s with t := swapCols s.t i j, q := swapCols s.q i j, qinv := swapRows s.qinv i j }

/-- `mul_row`: panics when `u.inv()` is `None` -/
def sMulRow (e : EOps α) (s : St α m n) (i : Fin m) (u : α) : Res (St α m n) :=
  match e.inv u with
  | none => .panic
  | some ui => .ok { s with t := mulRow e.toROps s.t i u, p := mulRow e.toROps s.p i u, pinv := mulCol e.toROps s.pinv i ui }

def sMulCol (e : EOps α) (s : St α m n) (j : Fin n) (u : α) : Res (St α m n) :=
  match e.inv u with
  | none => .panic
  | some ui => .ok { s with t := mulCol e.toROps s.t j u, q := mulCol e.toROps s.q j u, qinv := mulRow e.toROps s.qinv j ui }

/-- `(a*d - b*c).is_one()` -/
def detIsOne (o : ROps α) (a b c d : α) : Bool := o.isOne (o.sub (o.mul a d) (o.mul b c))

/-- `left_elementary` without the debug assertion -/
def sLeftRaw (o : ROps α) (s : St α m n) (a b c d : α) (i j : Fin m) : St α m n :=
  { s with t := leftElem o s.t a b c d i j, p := leftElem o s.p a b c d i j,
           pinv := rightElem o s.pinv d (o.neg c) (o.neg b) a i j }

def sRightRaw (o : ROps α) (s : St α m n) (a b c d : α) (i j : Fin n) : St α m n :=
  { s with t := rightElem o s.t a b c d i j, q := rightElem o s.q a b c d i j,
           qinv := leftElem o s.qinv d (o.neg c) (o.neg b) a i j }

/-- `left_elementary`; `dbg`: the `debug_assert!` is compiled in -/
def sLeft (o : ROps α) (dbg : Bool) (s : St α m n) (a b c d : α) (i j : Fin m) : Res (St α m n) :=
  if dbg && !detIsOne o a b c d then .panic else .ok (sLeftRaw o s a b c d i j)

def sRight (o : ROps α) (dbg : Bool) (s : St α m n) (a b c d : α) (i j : Fin n) : Res (St α m n) :=
  if dbg && !detIsOne o a b c d then .panic else .ok (sRightRaw o s a b c d i j)

end state

/-! ### reference SNF -/

section reference
variable {α : Type} {m n : Nat}

/-- first (row-major) non-zero entry of minimal size in rows `≥ t`, columns `≥ t` -/
def findMin (e : EOps α) (T : Mat α m n) (t : Nat) : Option (Fin m × Fin n) :=
  (List.finRange m).foldl (fun acc i =>
    (List.finRange n).foldl (fun acc j =>
      if t ≤ i.1 && t ≤ j.1 && !e.isZero (T.get i j) then
        match acc with
        | none => some (i, j)
        | some (i0, j0) => if e.size (T.get i j) < e.size (T.get i0 j0) then some (i, j) else acc
      else acc) acc) none

/-- first entry in rows `> t`, columns `> t` that the pivot does not divide -/
def findNonDiv (e : EOps α) (T : Mat α m n) (ti : Fin m) (tj : Fin n) : Option (Fin m) :=
  (List.finRange m).foldl (fun acc i =>
    (List.finRange n).foldl (fun acc j =>
      match acc with
      | some _ => acc
      | none => if ti.1 < i.1 && tj.1 < j.1 && !e.isZero (T.get i j) && !e.dvd (T.get ti tj) (T.get i j)
                then some i else none) acc) none

/-- `row_r ← row_r − (T[r][t]/p)·row_t` for all `r ≠ t` -/
def refReduceCol (e : EOps α) (s : St α m n) (ti : Fin m) (tj : Fin n) : St α m n :=
  (List.finRange m).foldl (fun s r =>
    if r ≠ ti && !e.isZero (s.t.get r tj) then
      let q := e.quo (s.t.get r tj) (s.t.get ti tj)
      sLeftRaw e.toROps s e.one e.zero (e.neg q) e.one ti r
    else s) s

def refReduceRow (e : EOps α) (s : St α m n) (ti : Fin m) (tj : Fin n) : St α m n :=
  (List.finRange n).foldl (fun s c =>
    if c ≠ tj && !e.isZero (s.t.get ti c) then
      let q := e.quo (s.t.get ti c) (s.t.get ti tj)
      sRightRaw e.toROps s e.one e.zero (e.neg q) e.one tj c
    else s) s

def lineClean (e : EOps α) (T : Mat α m n) (ti : Fin m) (tj : Fin n) : Bool :=
  (allFin m fun r => r = ti || e.isZero (T.get r tj)) && (allFin n fun c => c = tj || e.isZero (T.get ti c))

/-- move the chosen entry to `(t, t)` and reduce its column and row by Euclidean division -/
def refPrep (e : EOps α) (s : St α m n) (ti : Fin m) (tj : Fin n) (i : Fin m) (j : Fin n) : St α m n :=
  let s := if i = ti then s else sSwapRows s ti i
  let s := if j = tj then s else sSwapCols s tj j
  let s := refReduceCol e s ti tj
  refReduceRow e s ti tj

def refLoop (e : EOps α) : (fuel : Nat) → (t : Nat) → St α m n → Res (St α m n)
  | 0, _, _ => .err
  | fuel + 1, t, s =>
    if h : t < m ∧ t < n then
      match findMin e s.t t with
      | none => .ok s
      | some (i, j) =>
        let s1 := refPrep e s ⟨t, h.1⟩ ⟨t, h.2⟩ i j
        if lineClean e s1.t ⟨t, h.1⟩ ⟨t, h.2⟩ then
          match findNonDiv e s1.t ⟨t, h.1⟩ ⟨t, h.2⟩ with
          | some i =>
            if i = ⟨t, h.1⟩ then .err   -- cannot happen (`findNonDiv` looks below row `t`)
            else refLoop e fuel t (sLeftRaw e.toROps s1 e.one e.one e.zero e.one ⟨t, h.1⟩ i)
          | none =>
            let u := e.normUnit (s1.t.get ⟨t, h.1⟩ ⟨t, h.2⟩)
            if e.isOne u then refLoop e fuel (t + 1) s1
            else match sMulRow e s1 ⟨t, h.1⟩ u with
              | .ok s2 => refLoop e fuel (t + 1) s2
              | r => r
        else refLoop e fuel t s1
    else .ok s

def refSnf (e : EOps α) (fuel : Nat) (A : Mat α m n) : Res (St α m n) :=
  refLoop e fuel 0 (St.init e.toROps A)

end reference

/-! ### code model of `SnfCalc` -/

section calcm
variable {α : Type} {m n : Nat}

/-- the local wrapper `SnfCalc::gcdx` (`snf.rs:437-446`) -/
def gcdxW (e : EOps α) (x y : α) : α × α × α :=
  let (d, s, t) := e.gcdx x y
  let a := e.quo x d
  if e.isUnit a then (d, a, e.zero) else (d, s, t)

def rowNz (e : EOps α) (T : Mat α m n) (i : Fin m) : Nat :=
  (List.finRange n).foldl (fun c j => if e.isZero (T.get i j) then c else c + 1) 0

def colNz (e : EOps α) (T : Mat α m n) (j : Fin n) : Nat :=
  (List.finRange m).foldl (fun c i => if e.isZero (T.get i j) then c else c + 1) 0

/-- `select_pivot`: among rows `≥ below` with a non-zero entry in column `j`, the first one of minimal `row_nz` -/
def selectPivot (e : EOps α) (T : Mat α m n) (below : Nat) (j : Fin n) : Option (Fin m) :=
  ((List.finRange m).foldl (fun (acc : Option (Fin m × Nat)) i =>
    if below ≤ i.1 && !e.isZero (T.get i j) then
      let k := rowNz e T i
      match acc with
      | none => some (i, k)
      | some (_, k0) => if k < k0 then some (i, k) else acc
    else acc) none).map (·.1)

/-- one iteration `i1` of the loop in `eliminate_col` -/
def eliminateColStep (e : EOps α) (dbg : Bool) (i : Fin m) (j : Fin n) (sm : St α m n × Bool) (i1 : Fin m) :
    Res (St α m n × Bool) :=
  let s := sm.1
  if i = i1 || e.isZero (s.t.get i1 j) then .ok sm
  else
    let x := s.t.get i j
    let y := s.t.get i1 j
    let g := gcdxW e x y
    let a := e.quo x g.1
    let b := e.quo y g.1
    match sLeft e.toROps dbg s g.2.1 g.2.2 (e.neg b) a i i1 with
    | .ok s' => .ok (s', true)
    | .panic => .panic
    | .err => .err

/-- `eliminate_col`: returns the new state and `modified` -/
def eliminateCol (e : EOps α) (dbg : Bool) (s : St α m n) (i : Fin m) (j : Fin n) : Res (St α m n × Bool) :=
  (List.finRange m).foldlM (eliminateColStep e dbg i j) (s, false)

def eliminateRowStep (e : EOps α) (dbg : Bool) (i : Fin m) (j : Fin n) (sm : St α m n × Bool) (j1 : Fin n) :
    Res (St α m n × Bool) :=
  let s := sm.1
  if j = j1 || e.isZero (s.t.get i j1) then .ok sm
  else
    let x := s.t.get i j
    let y := s.t.get i j1
    let g := gcdxW e x y
    let a := e.quo x g.1
    let b := e.quo y g.1
    match sRight e.toROps dbg s g.2.1 g.2.2 (e.neg b) a j j1 with
    | .ok s' => .ok (s', true)
    | .panic => .panic
    | .err => .err

def eliminateRow (e : EOps α) (dbg : Bool) (s : St α m n) (i : Fin m) (j : Fin n) : Res (St α m n × Bool) :=
  (List.finRange n).foldlM (eliminateRowStep e dbg i j) (s, false)

/-- `eliminate_at`; the `while` takes fuel (`Res.err` on exhaustion) -/
def eliminateAt (e : EOps α) (dbg : Bool) (i : Fin m) (j : Fin n) : (fuel : Nat) → St α m n → Res (St α m n)
  | 0, _ => .err
  | fuel + 1, s =>
    if rowNz e s.t i > 1 || colNz e s.t j > 1 then
      match eliminateCol e dbg s i j with
      | .ok r1 =>
        match eliminateRow e dbg r1.1 i j with
        | .ok r2 => if !(r1.2 || r2.2) then .panic else eliminateAt e dbg i j fuel r2.1
        | .panic => .panic
        | .err => .err
      | .panic => .panic
      | .err => .err
    else .ok s

/-- the two swaps of `eliminate_step` -/
def stepPrep (s : St α m n) (i ip : Fin m) (ic j : Fin n) : St α m n :=
  let s := if ip.1 > i.1 then sSwapRows s i ip else s
  if j.1 > ic.1 then sSwapCols s ic j else s

/-- `eliminate_step(i, j)`; `none` = no pivot (`false`) -/
def eliminateStep (e : EOps α) (dbg : Bool) (fuel : Nat) (s : St α m n) (i : Fin m) (j : Fin n) (hi : i.1 < n) :
    Res (Option (St α m n)) :=
  match selectPivot e s.t i.1 j with
  | none => .ok none
  | some ip =>
    let s1 := stepPrep s i ip ⟨i.1, hi⟩ j
    let u := e.normUnit (s1.t.get i ⟨i.1, hi⟩)
    match (if !e.isOne u then sMulCol e s1 ⟨i.1, hi⟩ u else .ok s1) with
    | .ok s2 =>
      -- `eliminate_at`: `assert!(!self.target[(i, j)].is_zero())`
      if e.isZero (s2.t.get i ⟨i.1, hi⟩) then .panic
      else
        match eliminateAt e dbg i ⟨i.1, hi⟩ fuel s2 with
        | .ok s3 => .ok (some s3)
        | .panic => .panic
        | .err => .err
    | .panic => .panic
    | .err => .err

/-- one iteration `j` of `eliminate_all` (state: calc, row counter `i`) -/
def eliminateAllStep (e : EOps α) (dbg : Bool) (fuel : Nat) (si : St α m n × Nat) (j : Fin n) : Res (St α m n × Nat) :=
  if h : si.2 < m ∧ si.2 ≤ j.1 then
    match eliminateStep e dbg fuel si.1 ⟨si.2, h.1⟩ j (Nat.lt_of_le_of_lt h.2 j.2) with
    | .ok none => .ok si
    | .ok (some s') => .ok (s', si.2 + 1)
    | .panic => .panic
    | .err => .err
  else .ok si

/-- `eliminate_all`: `for j in 0..n { if i >= m { break }; if step(i, j) { i += 1 } }` -/
def eliminateAll (e : EOps α) (dbg : Bool) (fuel : Nat) (s : St α m n) : Res (St α m n) :=
  match (List.finRange n).foldlM (eliminateAllStep e dbg fuel) (s, 0) with
  | .ok si => .ok si.1
  | .panic => .panic
  | .err => .err

/-- the diagonal entry `(i, i)` for `i < min m n` (zero outside, never used there) -/
def dg (o : ROps α) (T : Mat α m n) (i : Nat) : α :=
  if h : i < m ∧ i < n then T.get ⟨i, h.1⟩ ⟨i, h.2⟩ else o.zero

/-- `diag_normalize_step(i)` with `i + 1 < min m n`; returns the state and the `bool` -/
def diagNormalizeStep (e : EOps α) (dbg : Bool) (s : St α m n) (i : Nat) (hm : i + 1 < m) (hn : i + 1 < n) :
    Res (St α m n × Bool) :=
  let x := s.t.get ⟨i, Nat.lt_of_succ_lt hm⟩ ⟨i, Nat.lt_of_succ_lt hn⟩
  let y := s.t.get ⟨i + 1, hm⟩ ⟨i + 1, hn⟩
  if e.isZero x || e.isZero y then .panic
  else if e.dvd x y then .ok (s, true)
  else if e.dvd y x then
    .ok (sSwapCols (sSwapRows s ⟨i, Nat.lt_of_succ_lt hm⟩ ⟨i + 1, hm⟩) ⟨i, Nat.lt_of_succ_lt hn⟩ ⟨i + 1, hn⟩, false)
  else
    let g := gcdxW e x y
    let a := e.quo x g.1
    let b := e.quo y g.1
    let tb := e.mul g.2.2 b
    let sa := e.mul g.2.1 a
    match sLeft e.toROps dbg s e.one e.one (e.neg tb) sa ⟨i, Nat.lt_of_succ_lt hm⟩ ⟨i + 1, hm⟩ with
    | .ok s1 =>
      match sRight e.toROps dbg s1 g.2.1 g.2.2 (e.neg b) a ⟨i, Nat.lt_of_succ_lt hn⟩ ⟨i + 1, hn⟩ with
      | .ok s2 => .ok (s2, false)
      | .panic => .panic
      | .err => .err
    | .panic => .panic
    | .err => .err

/-- one pass `for i in 0..r-1` of the `'outer` loop; `true` = the pass went through (`break`) -/
def diagPass (e : EOps α) (dbg : Bool) (r : Nat) : (cnt : Nat) → (i : Nat) → St α m n → Res (St α m n × Bool)
  | 0, _, s => .ok (s, true)
  | cnt + 1, i, s =>
    if h : i + 1 < r ∧ i + 1 < m ∧ i + 1 < n then
      match diagNormalizeStep e dbg s i h.2.1 h.2.2 with
      | .ok r1 => if r1.2 then diagPass e dbg r cnt (i + 1) r1.1 else .ok (r1.1, false)
      | .panic => .panic
      | .err => .err
    else .ok (s, true)

def diagOuter (e : EOps α) (dbg : Bool) (r : Nat) : (fuel : Nat) → St α m n → Res (St α m n)
  | 0, _ => .err
  | fuel + 1, s =>
    match diagPass e dbg r r 0 s with
    | .ok r1 => if r1.2 then .ok r1.1 else diagOuter e dbg r fuel r1.1
    | .panic => .panic
    | .err => .err

def firstZeroDiag (e : EOps α) (T : Mat α m n) : Nat :=
  let k := min m n
  ((List.range k).find? (fun i => e.isZero (dg e.toROps T i))).getD k

/-- `if !u.is_one() { mul_row(i, u) }` for the diagonal entry `i` -/
def normalizeStep (e : EOps α) (s : St α m n) (i : Nat) : Res (St α m n) :=
  if h : i < m ∧ i < n then
    let u := e.normUnit (s.t.get ⟨i, h.1⟩ ⟨i, h.2⟩)
    if !e.isOne u then sMulRow e s ⟨i, h.1⟩ u else .ok s
  else .ok s

/-- `diag_normalize` -/
def diagNormalize (e : EOps α) (dbg : Bool) (fuel : Nat) (s : St α m n) : Res (St α m n) :=
  if dbg && !isDiag e.toROps s.t then .panic
  else if firstZeroDiag e s.t = 0 then .ok s
  else
    match diagOuter e dbg (firstZeroDiag e s.t) fuel s with
    | .ok s1 => (List.range (firstZeroDiag e s.t)).foldlM (normalizeStep e) s1
    | .panic => .panic
    | .err => .err

/-- `SnfCalc::process`; `pre` = the (type-dispatched) LLL–HNF preprocessing -/
def snfCalc (e : EOps α) (dbg : Bool) (pre : St α m n → Res (St α m n)) (fuel : Nat) (A : Mat α m n) : Res (St α m n) :=
  if isZeroMat e.toROps A then .ok (St.init e.toROps A)
  else
    match pre (St.init e.toROps A) with
    | .ok s1 =>
      match eliminateAll e dbg fuel s1 with
      | .ok s2 => diagNormalize e dbg fuel s2
      | .panic => .panic
      | .err => .err
    | .panic => .panic
    | .err => .err

end calcm

/-! ### the rings the driver knows: ℤ, ℚ, 𝔽_p -/

/-- `num_integer::Integer::extended_gcd` on `(r0, r1) = (other, self)` etc. -/
def intXgcdLoop : (fuel : Nat) → (r0 r1 s0 s1 t0 t1 : Int) → Int × Int × Int
  | 0, _, r1, _, s1, _, t1 => (r1, s1, t1)
  | fuel + 1, r0, r1, s0, s1, t0, t1 =>
    if r0 = 0 then (r1, s1, t1)
    else
      let q := Int.tdiv r1 r0
      intXgcdLoop fuel (r1 - q * r0) r0 (s1 - q * s0) s0 (t1 - q * t0) t0

def intGcdx (x y : Int) : Int × Int × Int :=
  let (g, s, t) := intXgcdLoop (y.natAbs + 1) y x 0 1 1 0
  if g ≥ 0 then (g, s, t) else (0 - g, 0 - s, 0 - t)

def intOps : EOps Int where
  zero := 0
  one := 1
  add := (· + ·)
  mul := (· * ·)
  neg := (- ·)
  beq := (· == ·)
  normUnit a := if a < 0 then -1 else 1
  inv a := if a == 1 || a == -1 then some a else none
  isUnit a := a == 1 || a == -1
  quo := Int.tdiv
  rem := Int.tmod
  gcdx := intGcdx
  size := Int.natAbs

/-- generic `EucRing::gcdx` (`euc_ring.rs`) for a field: `x ≠ 0` ⇒ `x.divides(y)` ⇒ `(x·u, u, 0)`;
`x = 0, y ≠ 0` ⇒ `(y·u, 0, u)` -/
def fieldGcdx {α : Type} (o : ROps α) (nu : α → α) (x y : α) : α × α × α :=
  if o.isZero x && o.isZero y then (o.zero, o.zero, o.zero)
  else if !o.isZero x then let u := nu x; (o.mul x u, u, o.zero)
  else let u := nu y; (o.mul y u, o.zero, u)

def ratOps : EOps Rat where
  zero := 0
  one := 1
  add := (· + ·)
  mul := (· * ·)
  neg := (- ·)
  beq := (· == ·)
  normUnit a := if a == 0 then 1 else a⁻¹
  inv a := if a == 0 then none else some a⁻¹
  isUnit a := !(a == 0)
  quo a b := a / b
  rem _ _ := 0
  gcdx := fieldGcdx ⟨0, 1, (· + ·), (· * ·), (- ·), (· == ·)⟩ (fun a => if a == 0 then 1 else a⁻¹)
  size a := if a == 0 then 0 else 1

/-- inverse in 𝔽_p by search (p is tiny) -/
def fpInv (p a : Nat) : Nat := ((List.range p).find? (fun b => a * b % p == 1)).getD 0

def fpROps (p : Nat) : ROps Nat := ⟨0, 1 % p, fun a b => (a + b) % p, fun a b => (a * b) % p, fun a => (p - a % p) % p, fun a b => a % p == b % p⟩

def fpOps (p : Nat) : EOps Nat where
  toROps := fpROps p
  normUnit a := if a % p == 0 then 1 % p else fpInv p (a % p)
  inv a := if a % p == 0 then none else if a * fpInv p (a % p) % p == 1 then some (fpInv p (a % p)) else none
  isUnit a := !(a % p == 0)
  quo a b := (a * fpInv p (b % p)) % p
  rem _ _ := 0
  gcdx := fieldGcdx (fpROps p) (fun a => if a % p == 0 then 1 % p else fpInv p (a % p))
  size a := if a % p == 0 then 0 else 1

end Yuiv.C09
