import Yuiv.Model.KhRef
/-
Reference model for C19: the involutive Khovanov complex BY DEFINITION — the mapping cone of `1 + τ` on the
cube-of-resolutions complex over 𝔽₂, where τ is induced by the involution of the diagram (an involution of the edge
labels mapping crossings to crossings). Mirrors `yui-khovanov/src/khi/internal/v1/cube.rs` (state map, label map) and
`khi/complex.rs:from_kh_complex` (cone: D(Bx) = B dx + Qx + Qτx, D(Qx) = Q dx), not the symmetric tangle engine.

Coefficients: 𝔽₂ with h, t ∈ {0,1}. Homology dimensions come from ranks over 𝔽₂ (bitset elimination; fast,
unverified); `D∘D = 0 (mod 2)` is re-checked on every instance.
-/
namespace Yuiv.C19
open Yuiv.KhRef

structure InvLink where
  link : Link
  emap : Array (Nat × Nat)       -- edge ↦ image under the involution
  base : Option Nat

def InvLink.invE (l : InvLink) (e : Nat) : Nat :=
  match l.emap.find? (fun p => p.1 == e) with
  | some p => p.2
  | none => e

/-- `InvLink::sinv_knot_from_code`: the involution `e ↦ (n + 1 − e) % n + 1` on labels `1..n` -/
def sinvEMap (n e : Nat) : Nat := (n + 1 - e) % n + 1

/-- index of the crossing whose edge set contains the images of all edges of crossing `i` (`InvLink::new`) -/
def InvLink.invX (l : InvLink) (i : Nat) : Option Nat :=
  let img := (l.link[i]!).e.map l.invE
  (Array.range l.link.size).find? (fun j => img.all (fun e => (l.link[j]!).e.contains e))

/-- positions of the unresolved crossings in the data array -/
def realIdx (l : Link) : Array Nat := (Array.range l.size).filter (fun i => !(l[i]!).ct.isResolved)

/-- τ on states: `t[i] = s[index of inv_x(crossing i)]` -/
def tState (l : InvLink) (s : Nat) : Option Nat := do
  let ri := realIdx l.link
  let mut t := 0
  for k in [0:ri.size] do
    let j ← l.invX ri[k]!
    let kj ← ri.findIdx? (· == j)
    if s.testBit kj then t := t ||| (1 <<< k)
  return t

structure ICube where
  cube : Cube
  tst : Array Nat                      -- state ↦ τ(state)
  tlab : Array (Array Nat)             -- state ↦ (circle index ↦ circle index in τ(state))

def mkICube (l : InvLink) (p : Params) : Option ICube := do
  let c0 := mkCube l.link p
  -- the reduced theory of an involutive link is based at the on-axis base point
  let c : Cube := { c0 with base := if p.reduced then l.base else none }
  let mut tst : Array Nat := #[]
  let mut tlab : Array (Array Nat) := #[]
  for s in [0:2 ^ c.n] do
    let t ← tState l s
    tst := tst.push t
    let cs := c.circ[s]!
    let ct := c.circ[t]!
    let mut m : Array Nat := #[]
    for ci in cs do
      let e := l.invE (ci.foldl min ci[0]!)
      let j ← ct.findIdx? (fun cj => cj.contains e)
      m := m.push j
    tlab := tlab.push m
  return { cube := c, tst := tst, tlab := tlab }

/-- τ on generators -/
def ICube.tau (ic : ICube) (g : Gen) : Gen :=
  let t := ic.tst[g.s]!
  let m := ic.tlab[g.s]!
  let mask := (List.range m.size).foldl (fun acc i => if g.mask.testBit i then acc ||| (1 <<< m[i]!) else acc) 0
  ⟨t, mask⟩

/-- generators of the cone: `(false, x)` = B x, `(true, x)` = Q x -/
abbrev IGen := Bool × Gen

/-- rank over 𝔽₂ of a matrix given by rows as bitsets -/
def rankF2 (rows : Array Nat) : Nat := Id.run do
  let mut piv : Std.HashMap Nat Nat := {}     -- leading bit ↦ row
  let mut rank := 0
  for r0 in rows do
    let mut r := r0
    let mut go := true
    while go do
      if r == 0 then go := false
      else
        let b := r.log2
        match piv.get? b with
        | some p => r := r ^^^ p
        | none => piv := piv.insert b r; rank := rank + 1; go := false
  return rank

structure IResult where
  cells : Array (Int × Option Int × Nat)     -- (i, j?, dimension over 𝔽₂), non-zero only

inductive Failure where | malformed | notComplex
deriving Repr

/-- homology (dimensions over 𝔽₂) of the cone of `1 + τ` -/
def khiHomology (l : InvLink) (signs : Array Int) (p : Params) (bigraded : Bool) : Except Failure IResult := Id.run do
  let some ic := mkICube l p | return .error .malformed
  let c := ic.cube
  let nNeg := (signs.filter (· < 0)).size
  let nPos := (signs.filter (· > 0)).size
  let h0 : Int := -(nNeg : Int)
  let q0 : Int := (nPos : Int) - 2 * nNeg + (if p.reduced then 1 else 0)
  let mut kgens : Array (Array Gen) := Array.replicate (c.n + 1) #[]
  for s in [0:2 ^ c.n] do
    let w := popcount s c.n
    kgens := kgens.set! w (kgens[w]! ++ c.gensAt s)
  let mut dmap : Std.HashMap Gen (Array Term) := {}
  for gs in kgens do
    for g in gs do
      match c.d p g with
      | none => return .error .malformed
      | some ts => dmap := dmap.insert g ts
  let dK : Gen → Array Term := fun g => (dmap.get? g).getD #[]
  -- cone generators by degree 0..n+1
  let gens : Array (Array IGen) := (Array.range (c.n + 2)).map (fun i =>
    (if i ≤ c.n then (kgens[i]!).map (fun g => (false, g)) else #[]) ++
    (if i ≥ 1 then (kgens[i - 1]!).map (fun g => (true, g)) else #[]))
  -- D with coefficients mod 2 (a list of targets; repeated targets cancel in pairs)
  let dI : IGen → Array IGen := fun x =>
    match x with
    | (false, g) =>
      ((dK g).filter (fun (_, a) => a % 2 != 0)).map (fun (y, _) => (false, y)) ++ #[(true, g), (true, ic.tau g)]
    | (true, g) => ((dK g).filter (fun (_, a) => a % 2 != 0)).map (fun (y, _) => (true, y))
  let reduce2 (xs : Array IGen) : Array IGen := Id.run do
    let mut cnt : Std.HashMap IGen Nat := {}
    for x in xs do cnt := cnt.insert x ((cnt.get? x).getD 0 + 1)
    return (cnt.toArray.filter (fun (_, k) => k % 2 == 1)).map (·.1)
  -- D∘D = 0 (mod 2)
  for gs in gens do
    for x in gs do
      let dd := reduce2 ((reduce2 (dI x)).flatMap (fun y => reduce2 (dI y)))
      if dd.size != 0 then return .error .notComplex
  let homo (gens : Array (Array IGen)) : Array Nat := Id.run do
    let mut ranks : Array Nat := #[]
    for i in [0:gens.size] do
      if i + 1 < gens.size then
        let tgt := gens[i + 1]!
        let mut idx : Std.HashMap IGen Nat := {}
        for j in [0:tgt.size] do idx := idx.insert tgt[j]! j
        let rows := (gens[i]!).map (fun x => (reduce2 (dI x)).foldl (fun acc y => acc ||| (1 <<< ((idx.get? y).getD 0))) 0)
        ranks := ranks.push (rankF2 rows)
      else ranks := ranks.push 0
    let mut out : Array Nat := #[]
    for i in [0:gens.size] do
      out := out.push ((gens[i]!).size - ranks[i]! - (if i == 0 then 0 else ranks[i - 1]!))
    return out
  let mut cells : Array (Int × Option Int × Nat) := #[]
  if !bigraded then
    let hs := homo gens
    for i in [0:hs.size] do
      if hs[i]! != 0 then cells := cells.push (h0 + i, none, hs[i]!)
  else
    let mut qs : Array Int := #[]
    for gs in gens do
      for x in gs do
        let q := c.qDeg q0 x.2
        if !qs.contains q then qs := qs.push q
    let qs' := qs.qsort (· < ·)
    for q in qs' do
      let gq := gens.map (fun gs => gs.filter (fun x => c.qDeg q0 x.2 == q))
      for gs in gq do
        for x in gs do
          if (reduce2 (dI x)).any (fun y => c.qDeg q0 y.2 != q) then return .error .notComplex
      let hs := homo gq
      for i in [0:hs.size] do
        if hs[i]! != 0 then cells := cells.push (h0 + i, some q, hs[i]!)
  return .ok ⟨cells⟩

/-- `ssi_invariants`: `(2·d0 + w − r + 1, 2·d1 + w − r + 1)` -/
def ssi (d0 d1 w r : Int) : Int × Int := (2 * d0 + w - r + 1, 2 * d1 + w - r + 1)

end Yuiv.C19
