/-
Hand model of the signed-integer part of the external crate `num-integer 0.1.47`
(`~/.cargo/registry/src/*/num-integer-0.1.47/src/lib.rs`), which yui's integer `EucRing` impls
(`/repo/yui/src/misc/int_ext.rs`, `impl_integer!`) delegate to:

    EucRing::gcd  (x, y) = num_integer::Integer::gcd(x, y)              (macro `impl_integer_for_isize!`)
    EucRing::gcdx (x, y) = num_integer::Integer::extended_gcd(x, y)     (default trait method)
    EucRing::lcm  (x, y) = num_integer::Integer::lcm(x, y) = gcd_lcm(x, y).1

The model is HAND-WRITTEN (not produced by the translator) and Mathlib-free.  Values are unbounded `Int`; the
bit width `w` of the machine type (`i32`: 32, `i64`: 64, `i128`: 128) is an explicit parameter wherever the
behaviour of the code depends on it:

* `Self::min_value()` is `-2^(w-1)`;
* `.abs()` of `min_value()` overflows: with overflow checks (debug build, and the profile the harness and the
  library's own release profile use) this is a panic, modelled as `Res.panic`;
* `*` in `lcm` is checked (`chk`), `<<` never panics on the value (only on a shift amount `≥ w`, which cannot
  occur here) and wraps to `w` bits (`wrap`);
* `x.trailing_zeros()` is `w` for `x = 0`, else the 2-adic valuation of `x` (two's complement: the lowest set
  bit of `x` and of `-x` coincide).

Loops take fuel and return `Res.err` on exhaustion.

Simplification (documented, the only one in `gcd`): core Lean has no `|||` on `Int`; the code uses `m | n` only
(a) when `m == 0 || n == 0`, where `m | n` is the other operand (`orZero`), and (b) as
`(m | n).trailing_zeros()` for non-zero `m, n`, which is `min(m.trailing_zeros(), n.trailing_zeros())`
(the lowest set bit of a bitwise or is the lower of the two lowest set bits) — `shiftOf`.

`extended_gcd` is the generic default method (`Self: Clone`, operators `/`, `*`, `-`); it is modelled over
unbounded `Int` without overflow checks (for machine operands other than `min_value()` every intermediate is
bounded by the operands; `min_value() / -1` is the known finding F7).
-/
import Yuiv.Model.Res

namespace Yuiv.NumInteger
open Yuiv Res

/-- `Self::min_value()` of the `w`-bit signed type -/
def minValue (w : Nat) : Int := -(2 ^ (w - 1) : Int)

/-- value representable in the `w`-bit signed type -/
def inRange (w : Nat) (x : Int) : Prop := -(2 ^ (w - 1) : Int) ≤ x ∧ x < (2 ^ (w - 1) : Int)

instance (w : Nat) (x : Int) : Decidable (inRange w x) := by unfold inRange; infer_instance

/-- checked arithmetic result: panic when not representable (overflow checks on) -/
def chk (w : Nat) (x : Int) : Res Int :=
  if -(2 ^ (w - 1) : Int) ≤ x ∧ x < (2 ^ (w - 1) : Int) then ok x else panic

/-- two's complement wrap to `w` bits (result of `<<`, which does not check the value) -/
def wrap (w : Nat) (x : Int) : Int := (x + 2 ^ (w - 1)) % 2 ^ w - 2 ^ (w - 1)

/-- `x.abs()`: overflows (panics) exactly at `min_value()` -/
def absChk (w : Nat) (x : Int) : Res Int :=
  if x = minValue w then panic else ok (if x < 0 then -x else x)

/-- number of trailing zero bits of a non-zero natural number (fuel = the number itself is always enough) -/
def tzNat : Nat → Nat → Nat
  | 0, _ => 0
  | f + 1, n => if n ≠ 0 ∧ n % 2 = 0 then tzNat f (n / 2) + 1 else 0

/-- `x.trailing_zeros()` of the `w`-bit signed type -/
def trailingZeros (w : Nat) (x : Int) : Nat :=
  if x = 0 then w else tzNat x.natAbs x.natAbs

/-- `m | n` when `m == 0 || n == 0` -/
def orZero (m n : Int) : Int := if m = 0 then n else m

/-- `(m | n).trailing_zeros()` for non-zero `m`, `n` -/
def shiftOf (w : Nat) (m n : Int) : Nat := min (trailingZeros w m) (trailingZeros w n)

/-- the `while m != n { … }` loop of Stein's algorithm -/
def steinLoop (w : Nat) : Nat → Int → Int → Res Int
  | 0, _, _ => err
  | f + 1, m, n =>
    if m = n then ok m
    else if m > n then
      let m := m - n
      steinLoop w f (m >>> trailingZeros w m) n
    else
      let n := n - m
      steinLoop w f m (n >>> trailingZeros w n)

/-- `<$T as Integer>::gcd` -/
def gcd (w fuel : Nat) (m n : Int) : Res Int :=
  if m = 0 ∨ n = 0 then absChk w (orZero m n)
  else
    let shift := shiftOf w m n
    if m = minValue w ∨ n = minValue w then absChk w (wrap w ((1 : Int) <<< shift))
    else do
      let m ← absChk w m
      let n ← absChk w n
      let m := m >>> trailingZeros w m
      let n := n >>> trailingZeros w n
      let m ← steinLoop w fuel m n
      ok (wrap w (m <<< shift))

/-- `<$T as Integer>::gcd_lcm` -/
def gcdLcm (w fuel : Nat) (m n : Int) : Res (Int × Int) :=
  if m = 0 ∧ n = 0 then ok (0, 0)
  else do
    let g ← gcd w fuel m n
    -- `*other / gcd`: `gcd > 0`, so neither a zero divisor nor `MIN / -1`
    let p ← chk w (m * n.tdiv g)
    let l ← absChk w p
    ok (g, l)

/-- `<$T as Integer>::lcm` -/
def lcm (w fuel : Nat) (m n : Int) : Res Int := do
  let (_, l) ← gcdLcm w fuel m n
  ok l

/-- loop of `Integer::extended_gcd`: state `(r, s, t)`, each a pair; one turn is
`q = r.1 / r.0; (a, b) ↦ (b - q * a, a)` on each pair (the closure `f`: swap, then `r.0 -= q * r.1`) -/
def xgcdLoop : Nat → Int × Int → Int × Int → Int × Int → Res ((Int × Int) × (Int × Int) × (Int × Int))
  | 0, _, _, _ => err
  | fuel + 1, r, s, t =>
    if r.1 = 0 then ok (r, s, t)
    else
      let q := r.2.tdiv r.1
      xgcdLoop fuel (r.2 - q * r.1, r.1) (s.2 - q * s.1, s.1) (t.2 - q * t.1, t.1)

/-- `Integer::extended_gcd` (default method): `(gcd, x, y)` -/
def extendedGcd (fuel : Nat) (m n : Int) : Res (Int × Int × Int) := do
  let (r, s, t) ← xgcdLoop fuel (n, m) (0, 1) (1, 0)
  if r.2 ≥ 0 then ok (r.2, s.2, t.2) else ok (0 - r.2, 0 - s.2, 0 - t.2)

/-- `<$T as Integer>::extended_gcd_lcm` -/
def extendedGcdLcm (w fuel : Nat) (m n : Int) : Res ((Int × Int × Int) × Int) := do
  let e ← extendedGcd fuel m n
  if e.1 = 0 then ok (e, 0)
  else do
    let p ← chk w (m * n.tdiv e.1)
    let l ← absChk w p
    ok (e, l)

end Yuiv.NumInteger
