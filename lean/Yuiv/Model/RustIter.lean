import Yuiv.Model.Res
/-
Iterator adaptors on containers that `tools/rs2lean_fn.py` models by the LIST of their items in iteration order
(hand-written, import-free, TRUSTED).

* `it.filter_map(f)` where `f` may panic: `filterMapM f items` calls `f` on every item, in order, exactly once (Rust's
  adaptor is lazy, but the consumers translated with it — `min`, `collect` — exhaust it); the first panic / error wins;
* `it.min()` on integers: `min items` (`None` for an empty iterator).
-/
namespace Yuiv.Rust
open Yuiv Res

namespace Iter

def filterMapM {α β : Type} (f : α → Res (Option β)) : List α → Res (List β)
  | [] => ok []
  | x :: xs => do
    let y ← f x
    let ys ← filterMapM f xs
    match y with
    | some b => ok (b :: ys)
    | none => ok ys

def min : List Int → Option Int
  | [] => none
  | x :: xs => match min xs with
    | none => some x
    | some m => some (if x ≤ m then x else m)

end Iter

end Yuiv.Rust
