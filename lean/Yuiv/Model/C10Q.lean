import Yuiv.Model.C10
/-
C10 — the CHECKERS of `Yuiv/Model/C10.lean` over the quadratic rings ℤ[θ], θ² = u + v·θ
(Gaussian integers: u = -1, v = 0; Eisenstein integers with ω = (1+√-3)/2 as in `QuadInt<_, -3>`: u = -1, v = 1).
Elements are pairs `(a, b)` = a + bθ, exactly the `a,b` text of `yv::rings::Txt`.  Core Lean only.
-/
namespace Yuiv.C10.Q
open Yuiv Yuiv.C10

abbrev QI := Int × Int

/-- ring constants: θ² = u + v·θ -/
structure QK where
  u : Int
  v : Int

def gauss : QK := ⟨-1, 0⟩
def eisen : QK := ⟨-1, 1⟩

@[inline] def qadd (x y : QI) : QI := (x.1 + y.1, x.2 + y.2)
@[inline] def qmul (k : QK) (x y : QI) : QI :=
  (x.1 * y.1 + k.u * x.2 * y.2, x.1 * y.2 + x.2 * y.1 + k.v * x.2 * y.2)
/-- N(a + bθ) = (a + bθ)·conj(a + bθ) = a² + v·a·b − u·b² -/
@[inline] def qnorm (k : QK) (x : QI) : Int := x.1 * x.1 + k.v * x.1 * x.2 - k.u * x.2 * x.2
/-- the representative selected by `normalizing_unit` for D = -1, -3: a > 0, b ≥ 0 -/
@[inline] def qnormalised (x : QI) : Bool := decide (0 < x.1) && decide (0 ≤ x.2)

abbrev MatQ := Array (Array QI)
@[inline] def entq (A : MatQ) (i j : Nat) : QI := (A.getD i #[]).getD j (0, 0)
def mkMatQ (m n : Nat) (f : Nat → Nat → QI) : MatQ :=
  Array.ofFn (n := m) fun i => Array.ofFn (n := n) fun j => f i.val j.val

def sumLtP (n : Nat) (f : Nat → QI) : QI := ((List.range n).map f).foldr qadd (0, 0)

def mulEntQ (k : QK) (l : Nat) (P A : MatQ) (i j : Nat) : QI := sumLtP l fun t => qmul k (entq P i t) (entq A t j)

def mulEqQ (k : QK) (m l n : Nat) (P A : MatQ) (B : Nat → Nat → QI) : Bool :=
  allLt m fun i => allLt n fun j => mulEntQ k l P A i j == B i j

/-- `P·A == B && P·Pinv == I` -/
def transformOkQ (k : QK) (m n : Nat) (A B P Pinv : MatQ) : Bool :=
  mulEqQ k m m n P A (entq B) && mulEqQ k m m m P Pinv (fun i j => if i = j then (1, 0) else (0, 0))

def leadColQ (n : Nat) (H : MatQ) (i : Nat) : Nat :=
  ((List.range n).find? fun j => entq H i j != (0, 0)).getD n

/-- the echelon shape of `C10.isHnf` with `normalised` pivots and the norm `N` -/
def isHnfQ (k : QK) (m n : Nat) (H : MatQ) : Bool :=
  let lead := leadColQ n H
  allLt m fun i =>
    decide (lead i ≤ n)
    && (allLt n fun j => !(decide (j < lead i)) || entq H i j == (0, 0))
    && (!(decide (lead i < n)) ||
          (qnormalised (entq H i (lead i))
           && allLt m fun i' =>
                if i < i' then decide (lead i < lead i') && entq H i' (lead i) == (0, 0)
                else if i' < i then decide (qnorm k (entq H i' (lead i)) < qnorm k (entq H i (lead i)))
                else true))
    && (!(lead i == n) || allLt m fun i' => !(decide (i < i')) || lead i' == n)

/-! ### LLL-reducedness with the Hermitian form `⟨x, y⟩ = Σ x_c · conj(y_c)` over ℚ(θ) -/

abbrev QF := Rat × Rat
@[inline] def fadd (x y : QF) : QF := (x.1 + y.1, x.2 + y.2)
@[inline] def fsub (x y : QF) : QF := (x.1 - y.1, x.2 - y.2)
@[inline] def fmul (k : QK) (x y : QF) : QF :=
  (x.1 * y.1 + (k.u : Rat) * x.2 * y.2, x.1 * y.2 + x.2 * y.1 + (k.v : Rat) * x.2 * y.2)
@[inline] def fconj (k : QK) (x : QF) : QF := (x.1 + (k.v : Rat) * x.2, -x.2)
@[inline] def fnorm (k : QK) (x : QF) : Rat := x.1 * x.1 + (k.v : Rat) * x.1 * x.2 - (k.u : Rat) * x.2 * x.2
@[inline] def fscale (q : Rat) (x : QF) : QF := (q * x.1, q * x.2)
@[inline] def ofQI (x : QI) : QF := ((x.1 : Rat), (x.2 : Rat))

abbrev MatF := Array (Array QF)
@[inline] def entf (A : MatF) (i j : Nat) : QF := (A.getD i #[]).getD j (0, 0)
def sumLtF (n : Nat) (f : Nat → QF) : QF := ((List.range n).map f).foldr fadd (0, 0)

/-- Hermitian product of row `x` with row `y` -/
def hdot (k : QK) (n : Nat) (x y : Nat → QF) : QF := sumLtF n fun c => fmul k (x c) (fconj k (y c))

/-- Gram–Schmidt over ℚ(θ) (untrusted; `reducedWithQ` re-checks its defining equations) -/
def gramSchmidtQ (k : QK) (m n : Nat) (B : MatQ) : MatF × MatF :=
  (List.range m).foldl (init := (#[], #[])) fun (bs, mu) i =>
    let mui : Array QF := Array.ofFn (n := i) fun j =>
      let nj := (hdot k n (entf bs j) (entf bs j)).1
      fscale (1 / nj) (hdot k n (fun c => ofQI (entq B i c)) (entf bs j))
    let bsi : Array QF := Array.ofFn (n := n) fun c =>
      fsub (ofQI (entq B i c)) (sumLtF i fun j => fmul k (mui.getD j (0, 0)) (entf bs j c))
    (bs.push bsi, mu.push mui)

/-- checks: `b_i = b*_i + Σ_{j<i} μ_ij b*_j`; `⟨b*_i, b*_j⟩ = 0` (j < i); `⟨b*_i, b*_i⟩ = (positive rational, 0)`;
`N(μ_ij) ≤ rp/rq`; Lovász `|b*_k|² ≥ (p/q − N(μ_{k,k-1}))·|b*_{k-1}|²` -/
def reducedWithQ (k : QK) (m n : Nat) (B : MatQ) (p q rp rq : Int) (bs mu : MatF) : Bool :=
  let nrm : Nat → QF := fun i => hdot k n (entf bs i) (entf bs i)
  (allLt m fun i => allLt n fun c =>
      ofQI (entq B i c) == fadd (entf bs i c) (sumLtF i fun j => fmul k (entf mu i j) (entf bs j c)))
  && (allLt m fun i => allLt i fun j => hdot k n (entf bs i) (entf bs j) == (0, 0))
  && (allLt m fun i => decide (0 < (nrm i).1) && (nrm i).2 == 0)
  && (allLt m fun i => allLt i fun j => decide (fnorm k (entf mu i j) ≤ (rp : Rat) / (rq : Rat)))
  && (allLt m fun t => t == 0 ||
      decide (((p : Rat) / (q : Rat) - fnorm k (entf mu t (t-1))) * (nrm (t-1)).1 ≤ (nrm t).1))

def isLLLReducedQ (k : QK) (m n : Nat) (B : MatQ) (p q rp rq : Int) : Bool :=
  let g := gramSchmidtQ k m n B
  reducedWithQ k m n B p q rp rq g.1 g.2

end Yuiv.C10.Q
