import Yuiv.Model.Res
/-
C18 — code model of link diagrams (import-free: core Lean + `Yuiv.Model.Res` only).

Anchors:
  yui-link/src/link/crossing.rs   CrossingType / Crossing: `mirror`, `is_resolved`, `resolve`, `pass`, `arcs`
  yui-link/src/link/link.rs       Link: `pass_edge`, `traverse_edges`, `components`, `crossing_signs`,
                                  `signed_crossing_nums`, `writhe`, `resolved_by`, `ori_pres_state`,
                                  `seifert_circles`, `mirror`, `is_knot`
  yui-link/src/link/path.rs       Path (only `new`/`arc`/`circ`)
  yui-link/src/braid.rs           `Braid::closure`

Reusable API (names kept stable for C01/C04):
  `CType`, `Sign`, `Crossing`, `Link := List Crossing`, `fromPD`, `fromPD4`, `mirror`, `Crossing.resolve`,
  `resolvedBy`, `components`, `circleCount`, `crossingSigns`, `writhe`, `signedCrossingNums`, `closure`.

Every finite table of the Rust source is a separate small `def` by pattern matching
(`CType.mirror`, `CType.isResolved`, `CType.resolve`, `CType.pass`, `CType.arcs`, `signAt`).

Conventions.  A half-edge ("slot") is a pair `(i, j)`: crossing index `i`, position `j ∈ {0,1,2,3}` in its
edge array.  Index panics of the Rust code (`self.data[i]`, `c.edge(j)` with `assert!(j < 4)`) are not
reachable from the public entry points modelled here: `i` always comes from `0..n` or from a `pass_edge`
result and `j` from `{0,1,2}`, `pass` or a `pass_edge` result (lemmas `passEdge_range` in `Proofs/C18Renumber.lean`, `pass_lt` in
`Props/C18.lean`).  `edgeAt`/`ctypeAt` are therefore total with a dummy default.
-/
namespace Yuiv.C18
open Yuiv

/-! ### crossing types and the finite tables of `crossing.rs` -/

inductive CType where
  | X | Xm | V | H
deriving DecidableEq, Repr, Inhabited

inductive Sign where
  | pos | neg
deriving DecidableEq, Repr, Inhabited

def Sign.toInt : Sign → Int
  | .pos => 1
  | .neg => -1

def Sign.flip : Sign → Sign
  | .pos => .neg
  | .neg => .pos

/-- `CrossingType::mirror` -/
def CType.mirror : CType → CType
  | .Xm => .X
  | .X => .Xm
  | .V => .V
  | .H => .H

/-- `Crossing::is_resolved`: `matches!(self.ctype, V | H)` -/
def CType.isResolved : CType → Bool
  | .V => true
  | .H => true
  | .X => false
  | .Xm => false

/-- `Crossing::resolve` (table part): `none` = `panic!()` -/
def CType.resolve : CType → Bool → Option CType
  | .X, false => some .H
  | .Xm, true => some .H
  | .X, true => some .V
  | .Xm, false => some .V
  | .V, _ => none
  | .H, _ => none

/-- `Crossing::pass` (`index` is in `0..4` at every call site) -/
def CType.pass : CType → Nat → Nat
  | .X, j => (j + 2) % 4
  | .Xm, j => (j + 2) % 4
  | .V, j => 3 - j
  | .H, j => (5 - j) % 4

/-- `Crossing::arcs` (index pairs) -/
def CType.arcs : CType → (Nat × Nat) × (Nat × Nat)
  | .X => ((0, 2), (1, 3))
  | .Xm => ((0, 2), (1, 3))
  | .V => ((0, 3), (1, 2))
  | .H => ((0, 1), (2, 3))

/-- sign table of `Link::crossing_signs` (link.rs:90-94): the sign read off when a walk enters a
crossing of type `t` at slot `j` -/
def signAt : CType → Nat → Option Sign
  | .Xm, 1 => some .pos
  | .X, 3 => some .pos
  | .Xm, 3 => some .neg
  | .X, 1 => some .neg
  | _, _ => none

/-! ### crossings -/

structure Crossing where
  ctype : CType
  e0 : Nat
  e1 : Nat
  e2 : Nat
  e3 : Nat
deriving DecidableEq, Repr, Inhabited

namespace Crossing

/-- `Crossing::from_pd_code` -/
def ofPD (a b c d : Nat) : Crossing := ⟨.X, a, b, c, d⟩

def edges (c : Crossing) : List Nat := [c.e0, c.e1, c.e2, c.e3]

/-- `Crossing::edge` (`assert!(i < 4)`; see the header for why the model is total) -/
def edge (c : Crossing) : Nat → Nat
  | 0 => c.e0
  | 1 => c.e1
  | 2 => c.e2
  | _ => c.e3

def isResolved (c : Crossing) : Bool := c.ctype.isResolved

def pass (c : Crossing) (j : Nat) : Nat := c.ctype.pass j

/-- `Crossing::resolve` / `resolved` -/
def resolve (c : Crossing) (r : Bool) : Res Crossing :=
  match c.ctype.resolve r with
  | some t => .ok { c with ctype := t }
  | none => .panic

/-- `Crossing::mirror` -/
def mirror (c : Crossing) : Crossing := { c with ctype := c.ctype.mirror }

/-- `Crossing::convert_edges` -/
def convertEdges (c : Crossing) (f : Nat → Nat) : Crossing :=
  ⟨c.ctype, f c.e0, f c.e1, f c.e2, f c.e3⟩

end Crossing

/-! ### paths -/

structure Path where
  edges : List Nat
  closed : Bool
deriving DecidableEq, Repr, Inhabited

/-- the closure `comp` inside `Crossing::arcs` -/
def arcComp (c : Crossing) (i j : Nat) : Path :=
  let ei := c.edge i
  let ej := c.edge j
  if ei = ej then ⟨[ei], true⟩ else ⟨[ei, ej], false⟩

/-- `Crossing::arcs` -/
def Crossing.arcs (c : Crossing) : Path × Path :=
  let a := c.ctype.arcs
  (arcComp c a.1.1 a.1.2, arcComp c a.2.1 a.2.2)

/-! ### links -/

abbrev Link := List Crossing

def Crossing.ofList? : List Nat → Option Crossing
  | [a, b, c, d] => some (Crossing.ofPD a b c d)
  | _ => none

/-- `Link::from_pd_code` on 4-tuples -/
def fromPD4 (pd : List (Nat × Nat × Nat × Nat)) : Link :=
  pd.map (fun x => Crossing.ofPD x.1 x.2.1 x.2.2.1 x.2.2.2)

/-- `Link::from_pd_code`; rows that are not of length 4 (not expressible in Rust, `XCode = [Edge; 4]`) are dropped -/
def fromPD (pd : List (List Nat)) : Link := pd.filterMap Crossing.ofList?

/-- `Link::mirror` -/
def mirror (l : Link) : Link := l.map Crossing.mirror

/-- `Link::crossing_num` -/
def crossingNum (l : Link) : Nat := (l.filter (fun c => !c.isResolved)).length

/-- all edge labels in slot order -/
def allEdges (l : Link) : List Nat := l.flatMap Crossing.edges

def edgeAt (l : Link) (i j : Nat) : Nat :=
  match l[i]? with
  | some c => c.edge j
  | none => 0

def ctypeAt (l : Link) (i : Nat) : CType :=
  match l[i]? with
  | some c => c.ctype
  | none => .V

/-- the slots `((i, j), label)` in the iteration order of the two nested loops of `pass_edge` -/
def slotsFrom : List Crossing → Nat → List ((Nat × Nat) × Nat)
  | [], _ => []
  | c :: cs, i =>
    ((i, 0), c.e0) :: ((i, 1), c.e1) :: ((i, 2), c.e2) :: ((i, 3), c.e3) :: slotsFrom cs (i + 1)

def slots (l : Link) : List ((Nat × Nat) × Nat) := slotsFrom l 0

/-- `Link::pass_edge`: the first slot other than `(ci, ei)` that carries the same label -/
def passEdge (l : Link) (ci ei : Nat) : Option (Nat × Nat) :=
  let e := edgeAt l ci ei
  ((slots l).find? (fun s => s.2 == e && s.1 != (ci, ei))).map (·.1)

/-- loop of `Link::traverse_edges`; `fuel` = `max_steps - steps`; the returned list is the sequence of
arguments the callback `f` is invoked with.  `fuel = 0` is the `assert!(steps < max_steps)` failure. -/
def traverseLoop (l : Link) (start : Nat × Nat) : Nat → Nat × Nat → List (Nat × Nat) → Res (List (Nat × Nat))
  | 0, _, _ => .panic
  | fuel + 1, cur, acc =>
    let acc := cur :: acc
    let k := (ctypeAt l cur.1).pass cur.2
    match passEdge l cur.1 k with
    | none => .ok ((cur.1, k) :: acc).reverse
    | some next =>
      if next = start then .ok (start :: acc).reverse
      else traverseLoop l start fuel next acc

/-- `Link::traverse_edges(start, f)`: the list of `(i, j)` passed to `f`, or the panic after `4·n` steps -/
def traverse (l : Link) (start : Nat × Nat) : Res (List (Nat × Nat)) :=
  traverseLoop l start (4 * l.length) start []

/-- end of the inner closure of `components`: circle if first = last (and more than one entry) -/
def mkPath (edges : List Nat) : Path :=
  if edges.length > 1 ∧ edges.head? = edges.getLast? then ⟨edges.dropLast, true⟩ else ⟨edges, false⟩

/-- body of the `for i0 in 0..n` loop of `components`; state = (components so far, passed edges) -/
def compsStep (l : Link) (j0 : Nat) (st : List Path × List Nat) (i0 : Nat) : Res (List Path × List Nat) :=
  if st.2.contains (edgeAt l i0 j0) then .ok st
  else
    match traverse l (i0, j0) with
    | .ok path =>
      let edges := path.map (fun p => edgeAt l p.1 p.2)
      .ok (st.1 ++ [mkPath edges], edges.reverse ++ st.2)
    | .panic => .panic
    | .err => .err

def compsPass (l : Link) (j0 : Nat) (st : List Path × List Nat) : Res (List Path × List Nat) :=
  (List.range l.length).foldlM (compsStep l j0) st

/-- `Link::components` -/
def components (l : Link) : Res (List Path) := do
  let st ← compsPass l 0 ([], [])
  let st ← compsPass l 1 st
  let st ← compsPass l 2 st
  pure st.1

/-- `Link::is_knot` -/
def isKnot (l : Link) : Res Bool := do
  let cs ← components l
  pure (cs.length == 1)

/-- number of components provided all of them are circles (the case of a fully resolved diagram) -/
def circleCount (l : Link) : Res Nat := do
  let cs ← components l
  if cs.all (·.closed) then pure cs.length else .err

/-- callback of the walk inside `crossing_signs`; state = (signs, passed edges) -/
def signsVisit (l : Link) (st : List (Option Sign) × List Nat) (p : Nat × Nat) : List (Option Sign) × List Nat :=
  let e := edgeAt l p.1 p.2
  match signAt (ctypeAt l p.1) p.2 with
  | some s => (st.1.set p.1 (some s), e :: st.2)
  | none => (st.1, e :: st.2)

def signsStep (l : Link) (j0 : Nat) (st : List (Option Sign) × List Nat) (i0 : Nat) :
    Res (List (Option Sign) × List Nat) :=
  if st.2.contains (edgeAt l i0 j0) then .ok st
  else
    match traverse l (i0, j0) with
    | .ok path => .ok (path.foldl (signsVisit l) st)
    | .panic => .panic
    | .err => .err

def signsPass (l : Link) (j0 : Nat) (st : List (Option Sign) × List Nat) : Res (List (Option Sign) × List Nat) :=
  (List.range l.length).foldlM (signsStep l j0) st

/-- the test between the first pass and the passes `j0 = 1, 2` -/
def signsIncomplete (l : Link) (signs : List (Option Sign)) : Bool :=
  (List.range l.length).any (fun i => !(ctypeAt l i).isResolved && (signs.getD i none).isNone)

/-- `Link::crossing_signs` -/
def crossingSigns (l : Link) : Res (List Sign) := do
  let st ← signsPass l 0 (List.replicate l.length none, [])
  let st ← if signsIncomplete l st.1 then do
      let st ← signsPass l 1 st
      signsPass l 2 st
    else pure st
  let signs := st.1.filterMap id
  if signs.length = crossingNum l then pure signs else .panic

/-- `Link::signed_crossing_nums` -/
def signedCrossingNums (l : Link) : Res (Nat × Nat) := do
  let signs ← crossingSigns l
  pure (signs.count .pos, signs.count .neg)

/-- `Link::writhe` (`i32` arithmetic cannot overflow: both counts are at most `n`) -/
def writhe (l : Link) : Res Int := do
  let pn ← signedCrossingNums l
  pure ((pn.1 : Int) - (pn.2 : Int))

/-- `crossing_at_mut(0).resolve(r)`: resolve the first unresolved crossing (`panic` if there is none) -/
def resolveFirst : Link → Bool → Res Link
  | [], _ => .panic
  | c :: cs, r =>
    if c.isResolved then
      match resolveFirst cs r with
      | .ok cs' => .ok (c :: cs')
      | .panic => .panic
      | .err => .err
    else
      match c.resolve r with
      | .ok c' => .ok (c' :: cs)
      | .panic => .panic
      | .err => .err

/-- `Link::resolved_by` (the library is built with debug assertions: a state of the wrong length panics) -/
def resolvedBy (l : Link) (s : List Bool) : Res Link :=
  if s.length = crossingNum l then s.foldlM resolveFirst l else .panic

/-- `Link::ori_pres_state` (`State::from_iter` rejects more than 64 bits); `false` = `Bit0` -/
def oriPresState (l : Link) : Res (List Bool) := do
  let signs ← crossingSigns l
  if signs.length ≤ 64 then pure (signs.map (fun s => s != .pos)) else .panic

/-- `Link::seifert_circles` -/
def seifertCircles (l : Link) : Res (List Path) := do
  let s ← oriPresState l
  let r ← resolvedBy l s
  components r

/-! ### braid closure -/

/-- body of the `for s in &self.elements` loop of `Braid::closure`; state = (count, bottom_edges, pd_code) -/
def closureStep (st : Nat × List Nat × List (Nat × Nat × Nat × Nat)) (s : Int) :
    Res (Nat × List Nat × List (Nat × Nat × Nat × Nat)) :=
  if s.natAbs = 0 then .panic                      -- `s.index() - 1` underflows
  else
    let i := s.natAbs - 1
    match st.2.1[i]? with
    | none => .panic                               -- index out of bounds
    | some a =>
      match st.2.1[i + 1]? with
      | none => .panic                             -- index out of bounds
      | some b =>
        -- (c, d) = (count, count + 1)
        .ok (st.1 + 2, (st.2.1.set i st.1).set (i + 1) (st.1 + 1),
             st.2.2 ++ [if s > 0 then (a, st.1, st.1 + 1, b) else (b, a, st.1, st.1 + 1)])

/-- the renaming `*conn.get(&a).unwrap_or(&a)` with `conn = zip(bottom_edges, 0..strands)` -/
def connRename (bottom : List Nat) (a : Nat) : Nat :=
  let k := bottom.idxOf a
  if k < bottom.length then k else a

def hasFreeLoop (bottom : List Nat) : Bool :=
  (List.range bottom.length).any (fun i => bottom.getD i 0 == i)

/-- `Braid::closure` as a PD code -/
def closurePD (strands : Nat) (word : List Int) : Res (List (Nat × Nat × Nat × Nat)) := do
  let st ← word.foldlM closureStep (strands, List.range strands, [])
  let bottom := st.2.1
  if hasFreeLoop bottom then .panic
  else
    let f := connRename bottom
    pure (st.2.2.map (fun x => (f x.1, f x.2.1, f x.2.2.1, f x.2.2.2)))

/-- `Braid::closure` -/
def closure (strands : Nat) (word : List Int) : Res Link := do
  let pd ← closurePD strands word
  pure (fromPD4 pd)

/-! ### checker for component lists (proved sound in `Proofs/C18Check.lean`, evaluated by the driver on
every compared case): the components are exactly the classes of the relation that identifies the two labels
of a strand through a crossing (for a fully resolved diagram: the edge-identification relation). -/

/-- `e` and `e'` are the labels at the two ends of a strand through some crossing -/
def joined (l : Link) (e e' : Nat) : Bool :=
  l.any (fun c => (List.range 4).any (fun j => c.edge j == e && c.edge (c.ctype.pass j) == e'))

def chainOk (l : Link) : List Nat → Bool
  | [] => true
  | [_] => true
  | a :: b :: r => joined l a b && chainOk l (b :: r)

def cycleOk (l : Link) (es : List Nat) : Bool :=
  match es.head?, es.getLast? with
  | some a, some z => chainOk l es && joined l z a
  | _, _ => false

def closedUnder (l : Link) (es : List Nat) : Bool :=
  l.all (fun c => (List.range 4).all (fun j => !es.contains (c.edge j) || es.contains (c.edge (c.ctype.pass j))))

def nodupB : List Nat → Bool
  | [] => true
  | a :: r => !r.contains a && nodupB r

def checkComps (l : Link) (comps : List Path) : Bool :=
  let flat := comps.flatMap (·.edges)
  comps.all (fun p => p.closed && cycleOk l p.edges && closedUnder l p.edges)
    && nodupB flat && (allEdges l).all flat.contains && flat.all (allEdges l).contains

/-! ### convenience wrappers for other models (total versions) -/

def resGetD {α} (r : Res α) (d : α) : α :=
  match r with
  | .ok a => a
  | _ => d

def circleCountD (l : Link) : Nat := resGetD (circleCount l) 0
def crossingSignsD (l : Link) : List Sign := resGetD (crossingSigns l) []
def writheD (l : Link) : Int := resGetD (writhe l) 0
def signedCrossingNumsD (l : Link) : Nat × Nat := resGetD (signedCrossingNums l) (0, 0)
def resolvedByD (l : Link) (s : List Bool) : Link := resGetD (resolvedBy l s) l

end Yuiv.C18
