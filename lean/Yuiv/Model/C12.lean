import Yuiv.Model.Res
/-
C12 — code model of the sparse kernels of `yui-matrix/src/sparse/{triang,schur,decomp}.rs` and of
`yui/src/misc/union_find.rs`.  Core Lean only (no Mathlib/Batteries): the driver executable links
against exactly these definitions and the theorems of `Yuiv/Props/C12.lean` are about them.

Scalars are abstract (`Scal`): the Rust code is generic over `R: Ring`, it only uses `+ - * neg`,
`is_zero` and `inv() -> Option<R>`.  Instances for the rings the harness exercises are in
`Yuiv/Model/C12Rings.lean`.

A sparse matrix is the CSC content the Rust type stores: shape + for every column the stored
`(row, value)` pairs in storage order.  Stored values may be zero (nalgebra keeps the union pattern
of `A - A`), which is why the Rust code skips `is_zero` entries explicitly — so does the model.
-/
namespace Yuiv.C12
open Yuiv

class Scal (α : Type) where
  zero : α
  one : α
  add : α → α → α
  sub : α → α → α
  mul : α → α → α
  neg : α → α
  isZero : α → Bool
  inv : α → Option α

export Scal (zero one add sub mul neg isZero inv)

structure SpMat (α : Type) where
  nrows : Nat
  ncols : Nat
  cols : Array (List (Nat × α))
deriving DecidableEq, Repr

variable {α : Type} [Scal α]

/-- stored `(row, value)` pairs of column `j` (storage order) -/
def col (A : SpMat α) (j : Nat) : List (Nat × α) := A.cols.getD j []

/-- `a.col_vec(j)` = `SpVec::from_entries(nrows, stored pairs)`; `from_entries` drops zero values -/
def colVec (A : SpMat α) (j : Nat) : List (Nat × α) := (col A j).filter (fun e => !isZero e.2)

/-- sum of a list of scalars (right fold) -/
def lsum : List α → α
  | [] => zero
  | a :: l => add a (lsum l)

/-- value of a list of `(index, value)` pairs at index `k`: stored pairs with that index, summed -/
def colSum (l : List (Nat × α)) (k : Nat) : α :=
  lsum ((l.filter (fun e => e.1 == k)).map (·.2))

/-- mathematical entry `A[i,j]` -/
def entry (A : SpMat α) (i j : Nat) : α := colSum (col A j) i

/-! ### triang.rs -/

/-- `SpMat::is_triang(t)`: square and every stored NON-ZERO entry on the right side -/
def isTriang (upper : Bool) (A : SpMat α) : Bool :=
  if A.nrows != A.ncols then false else
  (List.range A.ncols).all fun j =>
    (col A j).all fun e => isZero e.2 || (if upper then decide (e.1 ≤ j) else decide (j ≤ e.1))

/-- `collect_diag`: all stored entries with `i == j`, in triplet (column-major) order -/
def collectDiag (A : SpMat α) : List α :=
  (List.range A.ncols).flatMap fun j =>
    (col A j).filterMap fun e => if e.1 == j then some e.2 else none

/-- `diag.iter().enumerate()` -/
def enumFrom : Nat → List α → List (Nat × α)
  | _, [] => []
  | k, u :: us => (k, u) :: enumFrom (k + 1) us

/-- dense scratch vector access; indices are in range by the CSC invariant (`row < nrows = b.len()`) -/
def bget (b : Array α) (i : Nat) : α := b.getD i zero
def bset (b : Array α) (i : Nat) (v : α) : Array α := b.setIfInBounds i v

/-- the inner loop `for (i, a_ij) in a.col_vec(j).iter() { if a_ij.is_zero() {continue}; b[i] -= a_ij * x_j }` -/
def colStep (x : α) : Array α → List (Nat × α) → Array α
  | b, [] => b
  | b, e :: rest =>
    colStep x (if isZero e.2 then b else bset b e.1 (sub (bget b e.1) (mul e.2 x))) rest

/-- the outer loop of `_solve_triangular` over `(j, u = a_jj)` in the given order -/
def outer (A : SpMat α) : Array α → List (Nat × α) → List (Nat × α) → Res (Array α × List (Nat × α))
  | b, es, [] => .ok (b, es)
  | b, es, ju :: rest =>
    if b.size ≤ ju.1 then .panic                     -- `b[j]` out of range
    else if isZero (bget b ju.1) then outer A b es rest
    else match inv ju.2 with
      | none => .panic                                -- `u.inv().unwrap()`
      | some ui =>
        let x := mul (bget b ju.1) ui
        outer A (colStep x b (colVec A ju.1)) (es ++ [(ju.1, x)]) rest

/-- `_solve_triangular(t, a, diag, b)`: returns the scratch buffer as left behind and the entries of
the solution vector (dimension `a.ncols()`) -/
def solveBuf (upper : Bool) (A : SpMat α) (diag : List α) (b : Array α) :
    Res (Array α × List (Nat × α)) :=
  let en := enumFrom 0 diag
  match outer A b [] (if upper then en.reverse else en) with
  | .ok (b', es) =>
    if !(b'.all isZero) then .panic                               -- debug_assert!(b all zero)
    else
      let es := if upper then es.reverse else es
      if !(es.all fun e => decide (e.1 < A.ncols)) then .panic    -- from_sorted_entries: assert!(i < dim)
      else .ok (b', es)
  | .panic => .panic
  | .err => .err

/-- `copy_into(y.col_vec(j), &mut b)` -/
def copyInto : Array α → List (Nat × α) → Array α
  | b, [] => b
  | b, e :: rest => copyInto (bset b e.1 e.2) rest

/-- the column loop of `solve_triangular_s` / of ONE worker of `solve_triangular_m`: the scratch buffer
is handed from one column to the next -/
def solveCols (upper : Bool) (A : SpMat α) (diag : List α) (Y : SpMat α) :
    Array α → List Nat → Res (Array α × List (List (Nat × α)))
  | b, [] => .ok (b, [])
  | b, j :: js =>
    match solveBuf upper A diag (copyInto b (colVec Y j)) with
    | .ok (b2, es) =>
      match solveCols upper A diag Y b2 js with
      | .ok (b3, rest) => .ok (b3, es :: rest)
      | .panic => .panic
      | .err => .err
    | .panic => .panic
    | .err => .err

def zeroBuf (n : Nat) : Array α := Array.replicate n zero

/-- `solve_triangular(t, a, y)` (sequential schedule: one buffer, columns in order) -/
def solve (upper : Bool) (A Y : SpMat α) : Res (SpMat α) :=
  if A.nrows != Y.nrows then .panic                 -- assert_eq!
  else if !(isTriang upper A) then .panic           -- debug_assert!
  else
    match solveCols upper A (collectDiag A) Y (zeroBuf A.nrows) (List.range Y.ncols) with
    | .ok (_, cs) => .ok ⟨A.nrows, Y.ncols, cs.toArray⟩
    | .panic => .panic
    | .err => .err

/-- a parallel run: a list of events `(worker, column)`; every worker owns one lazily created zero
buffer (`ThreadLocal<RefCell<Vec<R>>>`), an event processes one column on its worker's buffer.
Returns the `(column, result)` pairs in event order. -/
def runSched (upper : Bool) (A : SpMat α) (diag : List α) (Y : SpMat α) :
    (Nat → Array α) → List (Nat × Nat) → Res (List (Nat × List (Nat × α)))
  | _, [] => .ok []
  | bufs, wj :: evs =>
    match solveBuf upper A diag (copyInto (bufs wj.1) (colVec Y wj.2)) with
    | .ok (b2, es) =>
      match runSched upper A diag Y (fun w => if w = wj.1 then b2 else bufs w) evs with
      | .ok rest => .ok ((wj.2, es) :: rest)
      | .panic => .panic
      | .err => .err
    | .panic => .panic
    | .err => .err

/-- `SpVec::to_dense` -/
def toDense (n : Nat) (v : List (Nat × α)) : Array α :=
  copyInto (zeroBuf n) (v.filter fun e => !isZero e.2)

/-- `solve_triangular_vec(t, a, b)`; `b` is given as `(dim, stored entries)` -/
def solveVec (upper : Bool) (A : SpMat α) (dim : Nat) (v : List (Nat × α)) : Res (List (Nat × α)) :=
  if A.nrows != dim then .panic
  else if !(isTriang upper A) then .panic
  else match solveBuf upper A (collectDiag A) (toDense dim v) with
    | .ok (_, es) => .ok es
    | .panic => .panic
    | .err => .err

/-- CSC transpose: column `i` of the result lists `(j, a)` for every stored `(i, a)` of column `j`, `j` ascending -/
def transpose (A : SpMat α) : SpMat α :=
  ⟨A.ncols, A.nrows,
    ((List.range A.nrows).map fun i =>
      (List.range A.ncols).flatMap fun j =>
        (col A j).filterMap fun e => if e.1 == i then some (j, e.2) else none).toArray⟩

/-- `solve_triangular_left(t, a, y)`: `x·a = y` -/
def solveLeft (upper : Bool) (A Y : SpMat α) : Res (SpMat α) :=
  match solve (!upper) (transpose A) (transpose Y) with
  | .ok X => .ok (transpose X)
  | .panic => .panic
  | .err => .err

def idMat (n : Nat) : SpMat α := ⟨n, n, ((List.range n).map fun i => [(i, one)]).toArray⟩

/-- `inv_triangular(t, a)` -/
def invTriangular (upper : Bool) (A : SpMat α) : Res (SpMat α) := solve upper A (idMat A.nrows)

/-! ### schur.rs -/

/-- `divide4((k,l))`: zero values are dropped -/
def divide4 (M : SpMat α) (k l : Nat) : SpMat α × SpMat α × SpMat α × SpMat α :=
  let nz (j : Nat) := (col M j).filter fun e => !isZero e.2
  let top (j : Nat) := (nz j).filter fun e => decide (e.1 < k)
  let bot (j : Nat) := ((nz j).filter fun e => decide (k ≤ e.1)).map fun e => (e.1 - k, e.2)
  (⟨k, l, ((List.range l).map top).toArray⟩,
   ⟨k, M.ncols - l, ((List.range (M.ncols - l)).map fun j => top (l + j)).toArray⟩,
   ⟨M.nrows - k, l, ((List.range l).map bot).toArray⟩,
   ⟨M.nrows - k, M.ncols - l, ((List.range (M.ncols - l)).map fun j => bot (l + j)).toArray⟩)

/-- `(c * v)[i]` for a sparse vector `v` (nalgebra's product, modelled by its value) -/
def mulVecAt (C : SpMat α) (v : List (Nat × α)) (i : Nat) : α :=
  lsum (v.map fun e => mul (entry C i e.1) e.2)

/-- `compute_schur`: column `j` of `s` is `d.col_vec(j) - c * ainvb.col_vec(j)` -/
def computeSchur (X C D : SpMat α) : SpMat α :=
  ⟨D.nrows, D.ncols,
    ((List.range D.ncols).map fun j =>
      (List.range D.nrows).map fun i => (i, sub (colSum (colVec D j) i) (mulVecAt C (colVec X j) i))).toArray⟩

def negMat (A : SpMat α) : SpMat α := ⟨A.nrows, A.ncols, A.cols.map fun c => c.map fun e => (e.1, neg e.2)⟩

/-- `a.stack(b)` (`combine_blocks` → `from_entries`, zero values dropped) -/
def stack (A B : SpMat α) : SpMat α :=
  ⟨A.nrows + B.nrows, A.ncols,
    ((List.range A.ncols).map fun j =>
      (colVec A j) ++ (colVec B j).map fun e => (A.nrows + e.1, e.2)).toArray⟩

/-- `a.extend_cols(b)` -/
def extendCols (A B : SpMat α) : Res (SpMat α) :=
  if A.nrows != B.nrows then .panic
  else .ok ⟨A.nrows, A.ncols + B.ncols, ((List.range A.ncols).map (col A) ++ (List.range B.ncols).map (col B)).toArray⟩

/-- `incl(n,k)` = `[0;1]` (n×k) and `proj(n,k)` = `[0,1]` (k×n) -/
def incl (n k : Nat) : SpMat α := ⟨n, k, ((List.range k).map fun i => [(n - k + i, one)]).toArray⟩
def proj (n k : Nat) : SpMat α :=
  ⟨k, n, ((List.range n).map fun j => if n - k ≤ j then [(j - (n - k), one)] else []).toArray⟩

structure SchurOut (α : Type) where
  s : SpMat α
  src : Option (SpMat α × SpMat α)      -- (f, b) of `t_src`
  tgt : Option (SpMat α × SpMat α)      -- (f, b) of `t_tgt`

/-- `Schur::from_partial_triangular(t, abcd, r, with_trans)` -/
def schur (upper : Bool) (M : SpMat α) (r : Nat) (withTrans : Bool) : Res (SchurOut α) :=
  if M.nrows < r then .panic
  else if M.ncols < r then .panic
  else
    let (a, b, c, d) := divide4 M r r
    match solve upper a b with
    | .ok ainvb =>
      let s := computeSchur ainvb c d
      if !withTrans then .ok ⟨s, none, none⟩
      else
        let fs : SpMat α := proj M.ncols (M.ncols - r)
        let bs := stack (negMat ainvb) (idMat (M.ncols - r))
        match solveLeft upper a c with
        | .ok w =>
          match extendCols (negMat w) (idMat (M.nrows - r)) with
          | .ok ft => .ok ⟨s, some (fs, bs), some (ft, incl M.nrows (M.nrows - r))⟩
          | .panic => .panic
          | .err => .err
        | .panic => .panic
        | .err => .err
    | .panic => .panic
    | .err => .err

/-! ### union_find.rs -/

structure UF where
  p : Array Nat
deriving DecidableEq, Repr

namespace UF

def new (n : Nat) : UF := ⟨Array.range n⟩

/-- `root` (recursive in Rust); fuel exhaustion = the Rust recursion would not return -/
def rootF : Nat → Array Nat → Nat → Res Nat
  | 0, _, _ => .err
  | f + 1, p, i =>
    match p[i]? with
    | none => .panic
    | some q => if q == i then .ok i else rootF f p q

def root (u : UF) (i : Nat) : Res Nat := rootF (u.p.size + 1) u.p i

def isSame (u : UF) (i j : Nat) : Res Bool :=
  match root u i with
  | .ok ri => match root u j with
    | .ok rj => .ok (ri == rj)
    | .panic => .panic
    | .err => .err
  | .panic => .panic
  | .err => .err

def union (u : UF) (i j : Nat) : Res UF :=
  match root u i with
  | .ok ri => match root u j with
    | .ok rj =>
      if ri < rj then .ok ⟨u.p.setIfInBounds rj ri⟩
      else if ri == rj then .ok u
      else .ok ⟨u.p.setIfInBounds ri rj⟩
    | .panic => .panic
    | .err => .err
  | .panic => .panic
  | .err => .err

def mapMRes {β γ : Type} (f : β → Res γ) : List β → Res (List γ)
  | [] => .ok []
  | x :: xs => match f x with
    | .ok y => match mapMRes f xs with
      | .ok ys => .ok (y :: ys)
      | .panic => .panic
      | .err => .err
    | .panic => .panic
    | .err => .err

/-- `group()`: classes keyed by root, sorted by root, members ascending -/
def group (u : UF) : Res (List (List Nat)) :=
  let n := u.p.size
  match mapMRes (root u) (List.range n) with
  | .ok roots =>
    let ra := roots.toArray
    .ok ((List.range n).filterMap fun r =>
      let g := (List.range n).filter fun i => ra.getD i 0 == r
      if g.isEmpty then none else some g)
  | .panic => .panic
  | .err => .err

end UF

/-! ### decomp.rs -/

def rowIdx (A : SpMat α) (j : Nat) : List Nat := (col A j).map (·.1)

/-- `col_intersects`: merge walk over the two sorted row-index lists -/
def intersects : List Nat → List Nat → Bool
  | [], _ => false
  | _ :: _, [] => false
  | a :: as, b :: bs =>
    if a < b then intersects as (b :: bs)
    else if a == b then true
    else intersects (a :: as) bs
termination_by l1 l2 => l1.length + l2.length

/-- the (sequential) double loop of `group_cols`; `pairs` is the order in which the `(i,j)` bodies run -/
def unionLoop (A : SpMat α) (cols : Array Nat) : UF → List (Nat × Nat) → Res UF
  | u, [] => .ok u
  | u, ij :: rest =>
    match UF.isSame u ij.1 ij.2 with
    | .ok same =>
      if !same && intersects (rowIdx A (cols.getD ij.1 0)) (rowIdx A (cols.getD ij.2 0)) then
        match UF.union u ij.1 ij.2 with
        | .ok u' => unionLoop A cols u' rest
        | .panic => .panic
        | .err => .err
      else unionLoop A cols u rest
    | .panic => .panic
    | .err => .err

def allPairs (l : Nat) : List (Nat × Nat) :=
  (List.range (l - 1)).flatMap fun i => (List.range (l - (i + 1))).map fun d => (i, i + 1 + d)

/-- `group_cols` with the bodies run in the order `pairs` -/
def groupColsWith (A : SpMat α) (pairs : List (Nat × Nat)) : Res (List (List Nat)) :=
  let cols := (List.range A.ncols).filter fun j => !(col A j).isEmpty
  let l := cols.length
  if l == 0 then .ok []
  else
    let ca := cols.toArray
    match unionLoop A ca (UF.new l) pairs with
    | .ok u => match UF.group u with
      | .ok g => .ok (g.map fun lst => lst.map fun i => ca.getD i 0)
      | .panic => .panic
      | .err => .err
    | .panic => .panic
    | .err => .err

def groupCols (A : SpMat α) : Res (List (List Nat)) :=
  groupColsWith A (allPairs ((List.range A.ncols).filter fun j => !(col A j).isEmpty).length)

/-- `rows_in`: sorted union of the row indices of the given columns -/
def rowsIn (A : SpMat α) (cols : List Nat) : List Nat :=
  (List.range A.nrows).filter fun i => cols.any fun j => (rowIdx A j).contains i

/-- `perm_for_indices(n, indices)`: the array `inv` with `inv[idx_k] = k`, remaining indices after them in ascending order -/
def permForIndices (n : Nat) (indices : List Nat) : Res (Array Nat) :=
  if !(indices.all fun i => decide (i < n)) then .panic
  else
    let rest := (List.range n).filter fun i => !indices.contains i
    let vec := indices ++ rest
    let inv := (enumFrom 0 vec).foldl (fun (inv : Array Nat) e => inv.setIfInBounds e.2 e.1) (Array.replicate n 0)
    -- `PermOwned::new` asserts validity
    if vec.length != n then .panic else .ok inv

def offsets : List (List Nat) → List Nat
  | l => l.foldl (fun res next => res ++ [res.getLastD 0 + next.length]) [0]

structure DecompOut (α : Type) where
  p : Array Nat
  q : Array Nat
  blocks : List (SpMat α)

/-- position of the first group containing `i` -/
def findGroup (rows : List (List Nat)) (i : Nat) : Option Nat :=
  (enumFrom 0 rows).findSome? fun e => if e.2.contains i then some e.1 else none

/-- `decomp_by`; the blocks are returned as triplet lists turned into columns (`from_entries`: zero values dropped) -/
def decompBy (A : SpMat α) (rows cols : List (List Nat)) (p q : Array Nat) : Res (List (SpMat α)) :=
  if rows.length != cols.length then .panic
  else
    let ro := (offsets rows).toArray
    let co := (offsets cols).toArray
    let trip : List (Nat × Nat × α) :=
      (List.range A.ncols).flatMap fun j => (col A j).map fun e => (e.1, j, e.2)
    -- every stored entry is assigned to a block (panic if its row is in no group / on usize underflow / out of the block)
    let placed : Res (List (Nat × Nat × Nat × α)) :=
      UF.mapMRes (fun (t : Nat × Nat × α) =>
        match findGroup rows t.1 with
        | none => .panic
        | some k =>
          let pi := p.getD t.1 0; let qj := q.getD t.2.1 0
          if pi < ro.getD k 0 || qj < co.getD k 0 then .panic
          else
            let i' := pi - ro.getD k 0; let j' := qj - co.getD k 0
            let h := ro.getD (k + 1) 0 - ro.getD k 0; let w := co.getD (k + 1) 0 - co.getD k 0
            if isZero t.2.2 then .ok (k, i', j', t.2.2)        -- dropped by from_entries before the bounds check
            else if h ≤ i' || w ≤ j' then .panic
            else .ok (k, i', j', t.2.2)) trip
    match placed with
    | .ok pl =>
      .ok ((List.range rows.length).map fun k =>
        let h := ro.getD (k + 1) 0 - ro.getD k 0; let w := co.getD (k + 1) 0 - co.getD k 0
        ⟨h, w, ((List.range w).map fun j' =>
          (List.range h).filterMap fun i' =>
            let vs := pl.filter fun t => t.1 == k && t.2.1 == i' && t.2.2.1 == j' && !isZero t.2.2.2
            if vs.isEmpty then none else some (i', lsum (vs.map fun t => t.2.2.2))).toArray⟩)
    | .panic => .panic
    | .err => .err

/-- `dir_sum_decomp(a)` -/
def dirSumDecomp (A : SpMat α) : Res (DecompOut α) :=
  match groupCols A with
  | .ok cols =>
    let rows := cols.map (rowsIn A)
    if rows.length == 1 && cols.length == 1 &&
        (rows.headD []).length == A.nrows && (cols.headD []).length == A.ncols then
      .ok ⟨Array.range A.nrows, Array.range A.ncols, [A]⟩
    else
      match permForIndices A.nrows rows.flatten with
      | .ok p => match permForIndices A.ncols cols.flatten with
        | .ok q => match decompBy A rows cols p q with
          | .ok bl => .ok ⟨p, q, bl⟩
          | .panic => .panic
          | .err => .err
        | .panic => .panic
        | .err => .err
      | .panic => .panic
      | .err => .err
  | .panic => .panic
  | .err => .err

/-! ### executable checker for the output of `dir_sum_decomp` (applied to the REAL outputs by the driver) -/

/-- entry `(i,j)` of the block-diagonal sum of `blocks` (placed one after the other); zero outside the blocks -/
def bdEntry : List (SpMat α) → Nat → Nat → α
  | [], _, _ => zero
  | b :: bs, i, j =>
    if i < b.nrows ∧ j < b.ncols then entry b i j
    else if b.nrows ≤ i ∧ b.ncols ≤ j then bdEntry bs (i - b.nrows) (j - b.ncols)
    else zero

/-- `p` (as the map `i ↦ p[i]`) is an injection of `0..n` into itself -/
def permOk (p : Array Nat) (n : Nat) : Bool :=
  p.size == n &&
  ((List.range n).all fun i => decide (p.getD i 0 < n)) &&
  ((List.range n).all fun i => (List.range n).all fun i' => i == i' || p.getD i 0 != p.getD i' 0)

/-- permuted matrix = block-diagonal sum of the blocks + zero rows/columns -/
def checkDecomp (A : SpMat α) (p q : Array Nat) (blocks : List (SpMat α)) : Bool :=
  permOk p A.nrows && permOk q A.ncols &&
  decide ((blocks.map (·.nrows)).foldl (· + ·) 0 ≤ A.nrows) && decide ((blocks.map (·.ncols)).foldl (· + ·) 0 ≤ A.ncols) &&
  ((List.range A.nrows).all fun i => (List.range A.ncols).all fun j =>
    isZero (sub (entry A i j) (bdEntry blocks (p.getD i 0) (q.getD j 0))))

/-! ### executable connectivity check of one block ("does not split further") -/

/-- stored non-zero entries `(row, column)` -/
def nzEdges (B : SpMat α) : List (Nat × Nat) :=
  (List.range B.ncols).flatMap fun j => (col B j).filterMap fun e => if isZero e.2 then none else some (e.1, j)

/-- one sweep: an edge with a marked end marks both ends (rows are vertices `0..h`, columns `h..h+w`) -/
def sweep (h : Nat) (es : List (Nat × Nat)) (seen : Array Bool) : Array Bool :=
  es.foldl (fun s e =>
    if s.getD e.1 false || s.getD (h + e.2) false then (s.setIfInBounds e.1 true).setIfInBounds (h + e.2) true else s) seen

def sweeps (h : Nat) (es : List (Nat × Nat)) : Nat → Array Bool → Array Bool
  | 0, s => s
  | k + 1, s => sweeps h es k (sweep h es s)

/-- every row and column of the block is reachable from vertex 0 through non-zero entries -/
def connectedBlk (B : SpMat α) : Bool :=
  let n := B.nrows + B.ncols
  let s := sweeps B.nrows (nzEdges B) n ((Array.replicate n false).setIfInBounds 0 true)
  (List.range n).all fun v => s.getD v false

end Yuiv.C12
