import Yuiv.Model.Res
/-
Prelude of the definitions that `tools/rs2lean_fn.py` (target `fn:link`; renderer tools/rs2lean_link.py)
generates from yui-link/src/link/{crossing,link,path}.rs (hand-written, import-free, TRUSTED: it fixes how
the Rust primitives and the types of OTHER crates that those files touch are read).

* `usize` / `Edge` is `Nat` (additions are not checked: every value is a label or an index of the diagram), the
  subtraction `a - b` is CHECKED (`usub`: panic when `a < b`, overflow checks are on); `x as i32` is `Int.ofNat`.
* `[T; 4]` is the structure `Arr4 T`; `a[i]` panics for `i ≥ 4`.  `Vec<T>` and every iterator are lists;
  `v[i]` / `v[i] = x` panic out of range (`idx`, `idxSet`).
* `HashSet<T>` is the log of the inserted elements (newest first); only `contains` is ever asked of it.
* `Itertools::counts` is read through `CountMap.get` (`None` for an element that does not occur).
* `yui::bitseq::Bit` = `Bit`, `BitSeq` (`State`) = the list of its bits, `BitSeq::from_iter` panics beyond 64 entries
  (`Bit::from(0) = Bit0`, any other integer here `1` = `Bit1`); `yui::Sign` = `Sign`.
* `Iterator::any` with a closure that may panic stops at the first `true` (`anyM`).
-/
namespace Yuiv.Rust
namespace Lk

inductive Bit where
  | Bit0 | Bit1
deriving DecidableEq, Repr, Inhabited

inductive Sign where
  | Pos | Neg
deriving DecidableEq, Repr, Inhabited

def Sign.is_positive (s : Sign) : Bool := s == .Pos

abbrev State := List Bit

/-- `BitSeq::from_iter` of integers `0` / `1` -/
def State.from_iter (xs : List Nat) : Res State :=
  if xs.length ≤ 64 then .ok (xs.map (fun x => if x = 0 then Bit.Bit0 else Bit.Bit1)) else .panic

structure Arr4 (α : Type) where
  a0 : α
  a1 : α
  a2 : α
  a3 : α
deriving DecidableEq, Repr, Inhabited

def Arr4.toList {α} (a : Arr4 α) : List α := [a.a0, a.a1, a.a2, a.a3]

def Arr4.map {α β} (f : α → β) (a : Arr4 α) : Arr4 β := ⟨f a.a0, f a.a1, f a.a2, f a.a3⟩

def Arr4.get {α} (a : Arr4 α) : Nat → Res α
  | 0 => .ok a.a0
  | 1 => .ok a.a1
  | 2 => .ok a.a2
  | 3 => .ok a.a3
  | _ => .panic

def Arr4.contains {α} [BEq α] (a : Arr4 α) (x : α) : Bool := a.toList.contains x

instance : Functor Arr4 where
  map := Arr4.map

class Iter (C : Type) (E : outParam Type) where
  toList : C → List E

instance {α} : Iter (List α) α := ⟨id⟩
instance {α} : Iter (Arr4 α) α := ⟨Arr4.toList⟩

/-- `.iter()` / `.into_iter()` -/
def iter {C E} [Iter C E] (c : C) : List E := Iter.toList c

/-- `.len()` -/
def len {C E} [Iter C E] (c : C) : Nat := (Iter.toList c).length

/-- `.is_empty()` -/
def is_empty {C E} [Iter C E] (c : C) : Bool := (Iter.toList c).isEmpty

def enumFrom {α} : Nat → List α → List (Nat × α)
  | _, [] => []
  | k, a :: as => (k, a) :: enumFrom (k + 1) as

/-- `.enumerate()` -/
def enumerate {α} (l : List α) : List (Nat × α) := enumFrom 0 l

class Index (C : Type) (E : outParam Type) where
  get : C → Nat → Res E

def listGet {α} : List α → Nat → Res α
  | [], _ => .panic
  | a :: _, 0 => .ok a
  | _ :: as, i + 1 => listGet as i

instance {α} : Index (List α) α := ⟨listGet⟩
instance {α} : Index (Arr4 α) α := ⟨Arr4.get⟩

/-- `c[i]` -/
def idx {C E} [Index C E] (c : C) (i : Nat) : Res E := Index.get c i

/-- `v[i] = x` on a `Vec` -/
def idxSet {α} (l : List α) (i : Nat) (x : α) : Res (List α) :=
  if i < l.length then .ok (l.set i x) else .panic

/-- checked `usize` subtraction -/
def usub (a b : Nat) : Res Nat := if b ≤ a then .ok (a - b) else .panic

/-- `(lo..hi).contains(&x)` -/
def range_contains (lo hi x : Nat) : Bool := decide (lo ≤ x) && decide (x < hi)

/-- `lo..hi` -/
def range (lo hi : Nat) : List Nat := List.range' lo (hi - lo)

structure HashSet (α : Type) where
  log : List α
deriving Repr, Inhabited

def HashSet.new {α} : HashSet α := ⟨[]⟩
def HashSet.insert {α} (s : HashSet α) (a : α) : HashSet α := ⟨a :: s.log⟩
def HashSet.contains {α} [BEq α] (s : HashSet α) (a : α) : Bool := s.log.contains a

structure CountMap (α : Type) where
  items : List α

/-- `Itertools::counts` -/
def counts {α} (l : List α) : CountMap α := ⟨l⟩

def CountMap.get {α} [BEq α] (m : CountMap α) (k : α) : Option Nat :=
  let c := m.items.count k
  if c = 0 then none else some c

/-- `Iterator::any` with a closure that may panic -/
def anyM {α} : List α → (α → Res Bool) → Res Bool
  | [], _ => .ok false
  | a :: as, p =>
    match p a with
    | .ok true => .ok true
    | .ok false => anyM as p
    | .panic => .panic
    | .err => .err

end Lk
end Yuiv.Rust
