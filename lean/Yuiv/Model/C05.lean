import Yuiv.Model.Res
/-
C05 — code model of the kernel of the Khovanov differential
(`yui-khovanov/src/kh/internal/v2/cob.rs`): partial evaluation of one cobordism component with ring
parameters `(h, t)`, closed evaluation, the degree bookkeeping, and the hash-map linear combinations
(`yui/src/types/lc/lc.rs`) the results are stored in.  Import-free (core Lean only).

A component is abstracted to what `part_eval` reads: `closed = is_closed()`, `genus`, `dots = (x, y)`
(numbers of `X`- and `Y`-dots, `Y = X − h`).  The result is a linear combination of
  * `Key.comp x' y'` : the component with the same boundary, genus 0 and dots `(x', y')`   (default arm)
  * `Key.empty`      : the empty cobordism `Cob::empty()`                                   (closed unit arm)
Coefficients live in any type with the operations of the Rust `Ring` trait that the code uses (`Coef`);
instances: `Int` (for `i64`/`BigInt` runs) and `HT` = integer polynomials in `H, T` (for `Poly2<'H','T',i64>`).
-/
namespace Yuiv.C05
open Yuiv

/-- the `Ring` operations used by `Lc` and `part_eval` -/
class Coef (R : Type) where
  zero : R
  one : R
  add : R → R → R
  mul : R → R → R
  neg : R → R
  isZero : R → Bool
  isOne : R → Bool

instance : Coef Int := ⟨0, 1, fun a b => a + b, fun a b => a * b, fun a => -a, fun a => a == 0, fun a => a == 1⟩

/-! ### `Lc<X, R>`: hash map `X ↦ R` without zero entries (modelled as an association list) -/

abbrev Lc (K R : Type) := List (K × R)

section lc
variable {K R : Type} [DecidableEq K] [Coef R]

/-- the map update inside `add_pair` -/
def addPair : Lc K R → K → R → Lc K R
  | [], k, r => [(k, r)]
  | (k', r') :: l, k, r => if k' = k then (k', Coef.add r' r) :: l else (k', r') :: addPair l k r

/-- `Lc::add_pair`: zero coefficients are skipped -/
def addPairZ (l : Lc K R) (k : K) (r : R) : Lc K R := if Coef.isZero r then l else addPair l k r

/-- `Lc::clean` -/
def clean (l : Lc K R) : Lc K R := l.filter (fun p => !Coef.isZero p.2)

/-- `Lc::from((x, r))` = `from_iter([(x, r)])` -/
def fromPair (k : K) (r : R) : Lc K R := clean (addPairZ [] k r)

/-- `Lc::from(x)` -/
def single (k : K) : Lc K R := fromPair k Coef.one

/-- `lhs += &rhs` (`add_pair_ref` for every term, then `clean`) -/
def add (a b : Lc K R) : Lc K R := clean (b.foldl (fun acc p => addPairZ acc p.1 p.2) a)

/-- `lc *= &r` : untouched when `r.is_one()`, else every coefficient is multiplied and the map cleaned -/
def smul (a : Lc K R) (r : R) : Lc K R :=
  if Coef.isOne r then a else clean (a.map (fun p => (p.1, Coef.mul p.2 r)))

end lc

/-! ### polynomials in `H, T` with integer coefficients: `Poly2<'H','T',i64>` = `Lc<Var2, i64>` -/

abbrev Mono := Nat × Nat
abbrev HT := Lc Mono Int

namespace HT
def add (p q : HT) : HT := C05.add p q
def neg (p : HT) : HT := p.map (fun m => (m.1, -m.2))
/-- `MulAssign<&PolyBase>`: all pairwise products are accumulated with `add_pair`, then cleaned -/
def mul (p q : HT) : HT :=
  clean (p.foldl (fun acc a => q.foldl (fun acc b => addPairZ acc (a.1.1 + b.1.1, a.1.2 + b.1.2) (a.2 * b.2)) acc) [])
def isZero (p : HT) : Bool := p.isEmpty
def isOne (p : HT) : Bool := p == [((0, 0), 1)]
def H : HT := [((1, 0), 1)]
def T : HT := [((0, 1), 1)]
end HT

instance : Coef HT := ⟨[], [((0, 0), 1)], HT.add, HT.mul, HT.neg, HT.isZero, HT.isOne⟩

/-! ### `CobComp::part_eval` -/

inductive Key where
  | empty
  | comp (x y : Nat)
deriving DecidableEq, Repr

/-- number of dots carried by an output term; the empty cobordism stands for a sphere with one dot
(`XS = YS = 1`) -/
def Key.dots : Key → Nat
  | .empty => 1
  | .comp x y => x + y

/-- the inner `fn eval(c, g, x, y, h, t)` of `part_eval`, arm by arm -/
def partEval {R : Type} [Coef R] (h t : R) (closed : Bool) : Nat → Nat → Nat → Lc Key R
  -- neck-cut
  | g + 1, x, y => add (partEval h t closed g (x + 1) y) (partEval h t closed g x (y + 1))
  -- XY = t
  | 0, x + 1, y + 1 => smul (partEval h t closed 0 x y) t
  -- X^2 = hX + t
  | 0, x + 2, 0 => add (smul (partEval h t closed 0 (x + 1) 0) h) (smul (partEval h t closed 0 x 0) t)
  -- Y^2 = -hY + t
  | 0, 0, y + 2 => add (smul (partEval h t closed 0 0 (y + 1)) (Coef.neg h)) (smul (partEval h t closed 0 0 y) t)
  -- XS = YS = 1 (closed) / default (open)
  | 0, 1, 0 => if closed then single .empty else single (.comp 1 0)
  | 0, 0, 1 => if closed then single .empty else single (.comp 0 1)
  -- S = 0 (closed) / default (open)
  | 0, 0, 0 => if closed then [] else single (.comp 0 0)
termination_by g x y => (g, x + y)

/-- `CobComp::eval`: `assert!(is_closed)`, `assert!(nterms ≤ 1)`, `assert!(c.is_empty())` -/
def evalClosed {R : Type} [Coef R] (h t : R) (closed : Bool) (g x y : Nat) : Res R :=
  if !closed then .panic else
    match partEval h t closed g x y with
    | [] => .ok Coef.zero
    | [(k, r)] => if k = .empty then .ok r else .panic
    | _ :: _ :: _ => .panic

/-! ### predicates and degree -/

/-- `is_zero_cob` -/
def isZeroCob (closed : Bool) (g x y : Nat) : Bool := closed && g % 2 == 0 && x == y
/-- `is_unit_cob` -/
def isUnitCob (closed : Bool) (g x y : Nat) : Bool := closed && g == 0 && ((x == 1 && y == 0) || (x == 0 && y == 1))
/-- `should_part_eval` -/
def shouldPartEval (closed : Bool) (g x y : Nat) : Bool :=
  isZeroCob closed g x y || isUnitCob closed g x y || g > 0 || (x ≥ 1 && y ≥ 1) || x ≥ 2 || y ≥ 2

/-- `euler_num`: `2 − 2g − #∂` (`nbdr` = `nbdr_comps()`, computed from the tangles on the Rust side) -/
def eulerNum (nbdr g : Nat) : Int := 2 - 2 * (g : Int) - (nbdr : Int)

/-- `CobComp::deg`: `χ − #endpts/2 − 2·#dots` -/
def deg (nbdr endpts g x y : Nat) : Int :=
  eulerNum nbdr g - ((endpts / 2 : Nat) : Int) - 2 * ((x + y : Nat) : Int)

/-- degree of an output term of `part_eval` (`Cob::deg` = sum over components; empty sum = 0) -/
def Key.deg (nbdr endpts : Nat) : Key → Int
  | .empty => 0
  | .comp x y => C05.deg nbdr endpts 0 x y

/-- degree of the monomial `H^a T^b` (`deg H = −2`, `deg T = −4`) -/
def monoDeg (m : Mono) : Int := -2 * (m.1 : Int) - 4 * (m.2 : Int)

/-- `KhComplex::new`: `assert!(!reduced || (!l.is_empty() && t.is_zero()))` -/
def ctorGuard (reduced nonEmpty tZero : Bool) : Res Unit := Res.assert (!reduced || (nonEmpty && tZero))

/-! ### verified checker for `d ∘ d = 0` on exported integer matrices (rows as lists) -/

def dot : List Int → List Int → Int
  | a :: as, b :: bs => a * b + dot as bs
  | _, _ => 0

/-- `j`-th column of `B` -/
def col (B : List (List Int)) (j : Nat) : List Int := B.map (fun r => r.getD j 0)

/-- all entries of `A · B` are zero; `n` = number of columns of `B` -/
def matMulZero (A B : List (List Int)) (n : Nat) : Bool :=
  A.all (fun r => (List.range n).all (fun j => dot r (col B j) == 0))

/-- shapes fit: every row of `A` has `B.length` entries, every row of `B` has `n` entries -/
def shapeOk (A B : List (List Int)) (n : Nat) : Bool :=
  A.all (fun r => r.length == B.length) && B.all (fun r => r.length == n)

end Yuiv.C05
