/-
Scalar models used by the C13 driver besides `Int`: canonical rationals (`Ratio<i64>` keeps
`den > 0`, `gcd = 1`, `0 = 0/1`; its raw `numer/denom` text is compared) and `FF<p>` (representative
in `0..p`).  Import-free.  The C13 theorems are stated for an arbitrary commutative ring; that these
two types are commutative rings is the subject of C14 and is only explored here.
-/
namespace Yuiv.C13

structure Q where
  num : Int
  den : Nat
deriving DecidableEq, Repr, Inhabited

def Q.mk' (n : Int) (d : Nat) : Q :=
  if n = 0 then ⟨0, 1⟩ else
    let g := Nat.gcd n.natAbs d
    ⟨n / (g : Int), d / g⟩

instance : Zero Q := ⟨⟨0, 1⟩⟩
instance : One Q := ⟨⟨1, 1⟩⟩
instance : Add Q := ⟨fun a b => Q.mk' (a.num * b.den + b.num * a.den) (a.den * b.den)⟩
instance : Mul Q := ⟨fun a b => Q.mk' (a.num * b.num) (a.den * b.den)⟩
instance : Neg Q := ⟨fun a => ⟨-a.num, a.den⟩⟩
instance : Sub Q := ⟨fun a b => a + (-b)⟩

structure Fp (p : Nat) where
  v : Nat
deriving DecidableEq, Repr, Inhabited

def Fp.ofInt {p : Nat} (a : Int) : Fp p := ⟨(a % (p : Int)).toNat⟩

instance {p : Nat} : Zero (Fp p) := ⟨⟨0⟩⟩
instance {p : Nat} : One (Fp p) := ⟨⟨1 % p⟩⟩
instance {p : Nat} : Add (Fp p) := ⟨fun a b => ⟨(a.v + b.v) % p⟩⟩
instance {p : Nat} : Mul (Fp p) := ⟨fun a b => ⟨(a.v * b.v) % p⟩⟩
instance {p : Nat} : Neg (Fp p) := ⟨fun a => ⟨(p - a.v % p) % p⟩⟩
instance {p : Nat} : Sub (Fp p) := ⟨fun a b => a + (-b)⟩

end Yuiv.C13
