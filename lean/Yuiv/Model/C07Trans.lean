import Yuiv.Model.C07
/-
Code model of `yui_matrix::sparse::Trans` (yui-matrix/src/sparse/trans.rs): a composable pair of
coordinate maps kept as lists of factors.  `forward = f_k ∘ … ∘ f_0`, `backward = b_0 ∘ … ∘ b_k`.
Every `assert_eq!` of the Rust code is an explicit `Res.panic`.  Vectors are `n × 1` matrices.
-/
namespace Yuiv.C07
open Yuiv

structure Trans where
  src : Nat
  tgt : Nat
  f : List Mat
  b : List Mat
deriving Inhabited

namespace Trans

/-- `Trans::id(n)` -/
def id (n : Nat) : Trans := ⟨n, n, [], []⟩

/-- `Trans::append(f, b)` -/
def append (t : Trans) (f b : Mat) : Res Trans := do
  Res.assert (f.c == b.r)
  Res.assert (f.r == b.c)
  Res.assert (f.c == t.tgt)
  pure ⟨t.src, f.r, t.f ++ [f], t.b ++ [b]⟩

/-- `Trans::new(f, b)` -/
def new (f b : Mat) : Res Trans := (id f.c).append f b

/-- `Trans::merge(other)` (also `merged`) -/
def merge (t u : Trans) : Res Trans := do
  Res.assert (t.tgt == u.src)
  pure ⟨t.src, u.tgt, t.f ++ u.f, t.b ++ u.b⟩

/-- `SpMat * SpVec`: the shapes must compose -/
def applyMat (m v : Mat) : Res Mat := do
  Res.assert (m.c == v.r)
  pure (Mat.mul m v)

/-- `Trans::forward(v)`: `f_mats.iter().fold(v, |v, f| f * v)` -/
def forward (t : Trans) (v : Mat) : Res Mat := do
  Res.assert (v.r == t.src)
  t.f.foldlM (fun v f => applyMat f v) v

/-- `Trans::backward(v)`: `b_mats.iter().rev().fold(v, |v, b| b * v)` -/
def backward (t : Trans) (v : Mat) : Res Mat := do
  Res.assert (v.r == t.tgt)
  t.b.reverse.foldlM (fun v b => applyMat b v) v

/-- `SpMat * SpMat` -/
def mulMat (a b : Mat) : Res Mat := do
  Res.assert (a.c == b.r)
  pure (Mat.mul a b)

/-- `Trans::forward_mat()`: the single factor, or `id(tgt) · f_k · … · f_0` -/
def forwardMat (t : Trans) : Res Mat :=
  match t.f with
  | [f] => pure f
  | fs => fs.reverse.foldlM (fun res f => mulMat res f) (Mat.id t.tgt)

/-- `Trans::backward_mat()`: the single factor, or `b_0 · … · b_k · id(tgt)` -/
def backwardMat (t : Trans) : Res Mat :=
  match t.b with
  | [b] => pure b
  | bs => bs.reverse.foldlM (fun res b => mulMat b res) (Mat.id t.tgt)

/-- `Trans::reduce()` -/
def reduce (t : Trans) : Res Trans := do
  let f ← if t.f.length > 1 then (do let m ← t.forwardMat; pure [m]) else pure t.f
  let b ← if t.b.length > 1 then (do let m ← t.backwardMat; pure [m]) else pure t.b
  pure ⟨t.src, t.tgt, f, b⟩

end Trans
end Yuiv.C07
