import Yuiv.Model.Res
/-
C12 — model of rayon's indexed parallel collect, as used by the `multithread` branch of `compute_schur`
(`yui-matrix/src/sparse/schur.rs`), import-free (core only):

    let itr  = (0..n).into_par_iter();
    let vecs = itr.map(|j| { let x = c * ainvb.col_vec(j); let y = d.col_vec(j); y - x }).collect::<Vec<_>>();

What the code does: the closure captures `ainvb`, `c`, `d` by shared reference only; it allocates its operands and its
result itself (`col_vec` builds a fresh `SpVec`, `&SpMat * SpVec` and `SpVec - SpVec` are nalgebra products into fresh
storage).  There is NO `ThreadLocal`, `RefCell`, `Mutex` or captured `&mut` in `schur.rs` / `sp_vec.rs` / `sp_mat.rs` on this
path — unlike `solve_triangular_m`, whose per-thread scratch buffer is modelled by `C12.runSched`.

What rayon does with an indexed `collect`: the target vector is allocated with `n` uninitialised slots; the index range
is split into disjoint pieces which are handed to worker threads in an order and with an assignment decided at run time
(work stealing); the task for index `j` writes its result into slot `j`; at the end the number of writes is compared with
`n` (`expected {} total writes, but got {}` panics) and the vector is returned.

Model: a schedule is the list of events `(worker, index)` in the order in which they happen — any number of workers, any
assignment of indices to workers, any order inside a worker and across workers.  To be able to SAY that nothing leaks from
one column to the next, every worker carries a private state `σ` (what a thread-local would be) which the column function
may read and update: `g : σ → Nat → σ × β`.  For `compute_schur` the state is `Unit`.

  `Res.err`   = not a schedule rayon can produce (an index handed out twice, or outside `0..n`)
  `Res.panic` = rayon's write-count check fails (some slot was never written)
-/
namespace Yuiv.C12Par
open Yuiv Res

/-- the events, in order: `st w` is worker `w`'s private state, `slots` the target vector (`none` = uninitialised) -/
def runEvents {σ β : Type} (g : σ → Nat → σ × β) :
    (Nat → σ) → Array (Option β) → List (Nat × Nat) → Res (Array (Option β))
  | _, slots, [] => ok slots
  | st, slots, (w, j) :: evs =>
    match slots[j]? with
    | none => err                 -- index outside `0..n`
    | some (some _) => err        -- index handed out twice
    | some none =>
      let r := g (st w) j
      runEvents g (fun w' => if w' = w then r.1 else st w') (slots.setIfInBounds j (some r.2)) evs

/-- reading the finished vector: every slot must have been written -/
def readSlots {β : Type} : List (Option β) → Res (List β)
  | [] => ok []
  | none :: _ => panic
  | some v :: l =>
    match readSlots l with
    | .ok vs => .ok (v :: vs)
    | .panic => .panic
    | .err => .err

/-- `(0..n).into_par_iter().map(g).collect::<Vec<_>>()` under the schedule `sched`, every worker's private state
starting as `init` -/
def parCollectSt {σ β : Type} (g : σ → Nat → σ × β) (init : σ) (n : Nat) (sched : List (Nat × Nat)) : Res (List β) :=
  match runEvents g (fun _ => init) (Array.replicate n none) sched with
  | .ok slots => readSlots slots.toList
  | .panic => .panic
  | .err => .err

/-- the stateless case: a pure closure `f` -/
def parCollect {β : Type} (f : Nat → β) (n : Nat) (sched : List (Nat × Nat)) : Res (List β) :=
  parCollectSt (fun (_ : Unit) j => ((), f j)) () n sched

/-- the schedule in which worker `w` processes the list `parts[w]` in order, the workers one after the other -/
def schedOfParts : Nat → List (List Nat) → List (Nat × Nat)
  | _, [] => []
  | w, js :: rest => js.map (fun j => (w, j)) ++ schedOfParts (w + 1) rest

end Yuiv.C12Par
