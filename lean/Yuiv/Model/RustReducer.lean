import Yuiv.Model.RustRing
import Yuiv.Model.RustDense
/-
Interface used by the definitions that `tools/rs2lean_fn.py` generates from
`yui-homology/src/utils/chain_reducer.rs` (target `fn:reducer`) — hand-written, TRUSTED (it only fixes names and
types; it contains no arithmetic).

chain_reducer.rs is pure orchestration: every matrix / vector / transform operation it performs lives in another file
(sp_mat.rs, sp_vec.rs, trans.rs, schur.rs, triang.rs, pivot.rs — tied to their models by `fn:spmat`, `fn:spvec`,
`fn:trans`, `fn:schur`, `fn:triang`, and C11 for the pivot finder).  The generated code is therefore generic over the
types `M` (`SpMat<R>`), `V` (`SpVec<R>`), `T` (`Trans<R>`), `P` (`PermOwned`), `S` (`Schur<R>`) and takes the record
`K : ROps M V T P S` of those operations as an argument; every operation may panic (`Res`).  `I` (the degree type,
`GridDeg`) is any type with `+`, `-` and decidable equality.  `HashMap<I, X>` is `HMap I X`, an association list in
which `insert` replaces.
-/
namespace Yuiv.Rust
open Yuiv Res

inductive PivotType where
  | Rows | Cols
deriving DecidableEq, Repr, Inhabited

inductive PivotCondition where
  | One | AnyUnit
deriving DecidableEq, Repr, Inhabited

inductive TriangularType where
  | Upper | Lower
deriving DecidableEq, Repr, Inhabited

/-- the operations of other files that chain_reducer.rs calls -/
structure ROps (M V T P S : Type) where
  nrows : M → Nat
  ncols : M → Nat
  is_zero : M → Bool
  /-- `a.iter().any(|(_, _, r)| r.is_pm_one())` of `preferred_strategy` -/
  has_pm_one : M → Bool
  /-- `a.permute(p.view(), q.view())` -/
  permute : M → P → P → Res M
  /-- `a.extract(shape, |i, j| …)` -/
  extract : M → Nat × Nat → (Nat → Nat → Res (Option (Nat × Nat))) → Res M
  /-- `a.divide4((k, l))` -/
  divide4 : M → Nat × Nat → Res (M × M × M × M)
  /-- `&c * v` -/
  mul_vec : M → V → Res V
  /-- `Schur::from_partial_triangular(t, &a, r, with_trans)` -/
  schur_new : TriangularType → M → Nat → Bool → Res S
  /-- `sch.disassemble()` -/
  schur_disassemble : S → M × Option T × Option T
  /-- `find_pivots(a, piv_type, piv_cond)` (pivot.rs, property C11) -/
  find_pivots : M → PivotType → PivotCondition → Res (List (Nat × Nat))
  /-- `perms_by_pivots(a, &pivs)` -/
  perms_by_pivots : M → List (Nat × Nat) → Res (P × P)
  perm_dim : P → Nat
  /-- `p.at(i)` -/
  perm_at : P → Nat → Res Nat
  /-- `Trans::id(n)` -/
  trans_id : Nat → T
  /-- `t.append_perm(p.view())` -/
  trans_append_perm : T → P → Res T
  /-- `t.merge(other)` -/
  trans_merge : T → T → Res T
  vdim : V → Nat
  /-- `v.extract(dim, |i| …)` -/
  vextract : V → Nat → (Nat → Res (Option Nat)) → Res V
  /-- `v.permute(p.view())` -/
  vpermute : V → P → Res V
  /-- `v.split(k)` -/
  vsplit : V → Nat → Res (V × V)
  /-- `y - x` -/
  vsub : V → V → Res V
  /-- `solve_triangular_vec(t, &a, &x)` -/
  solve_triangular_vec : TriangularType → M → V → Res V

/-- `HashMap<I, X>` -/
abbrev HMap (I X : Type) := List (I × X)

namespace HMap
variable {I X : Type} [DecidableEq I]
def empty : HMap I X := []
def get (m : HMap I X) (i : I) : Option X := (m.find? fun e => e.1 = i).map (·.2)
def contains_key (m : HMap I X) (i : I) : Bool := m.any fun e => e.1 = i
/-- `m.insert(i, x)`: replaces an existing binding -/
def insert (m : HMap I X) (i : I) (x : X) : HMap I X := (i, x) :: m.filter fun e => e.1 ≠ i
end HMap

namespace Rd
def range_contains (r : Nat × Nat) (i : Nat) : Bool := decide (r.1 ≤ i) && decide (i < r.2)
/-- `for x in xs` without jumps, as a state fold -/
def forM {β σ : Type} (xs : List β) (f : β → σ → Res σ) (s : σ) : Res σ :=
  match xs with
  | [] => ok s
  | x :: xs => do
    let s' ← f x s
    forM xs f s'
end Rd

end Yuiv.Rust
