import Yuiv.Model.RustMap
/-
Interface used by the definition that `tools/rs2lean_fn.py` (target `fn:geninfo`, renderer tools/rs2lean_poly.py)
generates from `yui-khovanov/src/misc.rs:collect_gen_info` (hand-written, import-free, TRUSTED: it only fixes how the
types of OTHER crates that the function touches are read).

* `Summand<X, R>` (yui-homology) is read through the three accessors the function uses: `rank()`, `tors()` and
  `gen(k)`; a generator `h.gen(k)` (an `Lc<X, R>`) is read as the list of the quantum degrees of its terms
  (`GI.Chain`), and `KhChainExt::q_deg` (yui-khovanov/src/kh/complex.rs: `self.gens().map(|x| x.q_deg()).min().unwrap_or(0)`)
  as the minimum of that list, `0` for the empty chain.
* `Grid1<E>` is the list of `(degree, item)` pairs in the order of its support (`grid.iter()`).
* `isize2(i, j)` is the pair `(i, j)`; `isize` is `Int`, `usize` is `Nat` with checked subtraction.
-/
namespace Yuiv.Rust
namespace GI

/-- the terms of a chain by their quantum degrees -/
abbrev Chain := List Int

/-- `KhChainExt::q_deg` -/
def Chain.q_deg (c : Chain) : Int :=
  match c with
  | [] => 0
  | q :: rest => rest.foldl min q

/-- `Summand<X, R>` as seen by `collect_gen_info` -/
structure Summand (R : Type) where
  rank : Nat
  tors : List R
  /-- `gen(k)` for `k < rank + tors.len()` -/
  gens : Nat → Chain

def Summand.gen {R : Type} (h : Summand R) (k : Nat) : Chain := h.gens k

end GI
end Yuiv.Rust
