import Yuiv.Model.Res
/-
C20 — decision logic of the `ykh` command line (`kh` and `ckh` sub-commands).

Anchors (all under /repo):
  bin-ykh/src/app/utils/dispatch.rs   macros `dispatch_ring!`, `dispatch_eucring!`, `try_*!`, `poly_vars`
  bin-ykh/src/app/utils/helper.rs     `parse_pair`, `load_link`, `guard_panic`
  bin-ykh/src/app/cmd/kh.rs, ckh.rs   `App::run` (pre-checks, bigraded switch)
  bin-ykh/src/app/app.rs, main.rs     panic guard, exit status
  yui/src/types/{ff,ratio}.rs, poly/{poly,var,var2}.rs   `FromStr` of the coefficient rings
  yui-homology/src/misc/format.rs     `rmod_str` (text of one table cell)

Everything here is core Lean only (no Mathlib/Batteries) so that the driver links.
-/
namespace Yuiv.C20

/-! ## 1. The option space -/

inductive Cmd where
  | kh | ckh
deriving DecidableEq, Repr, Inhabited

/-- `utils/ctype.rs: enum CType` (clap `rename_all = "verbatim"`) -/
inductive CType where
  | Z | Q | F2 | F3 | Gauss | Eisen
deriving DecidableEq, Repr, Inhabited

/-- `dispatch.rs: enum PolyVars` -/
inductive PolyVars where
  | H | T | HT | none
deriving DecidableEq, Repr, Inhabited

/-- cargo features of the `ykh` crate that the dispatch macros look at
(`any(feature = "poly", feature = "all")`; `all = ["poly", "qint"]`, so `all` is `poly ∧ qint`) -/
structure Feat where
  poly : Bool
  qint : Bool
deriving DecidableEq, Repr, Inhabited

/-- the concrete coefficient ring an `App<R>` is instantiated with -/
inductive Ring where
  | std (b : CType)        -- `Int`, `Ratio<Int>`, `FF<2>`, `FF<3>`, `GaussInt<Int>`, `EisenInt<Int>`
  | polyH (b : CType)      -- `Poly<'H', b>`
  | polyT (b : CType)      -- `Poly<'T', b>`
  | polyHT (b : CType)     -- `Poly2<'H', 'T', b>`
deriving DecidableEq, Repr, Inhabited

/-- what one arm of a `try_*!` macro evaluates to inside `Some(..)` -/
inductive Slot where
  | run (r : Ring)         -- `run!(R, $app, $args)`
  | needQint               -- `Some(err!("build with `--features qint` …"))`
  | needPoly               -- `Some(err!("build with `--features poly` …"))`
deriving DecidableEq, Repr, Inhabited

def allCmds : List Cmd := [.kh, .ckh]
def allCTypes : List CType := [.Z, .Q, .F2, .F3, .Gauss, .Eisen]
def allVars : List PolyVars := [.H, .T, .HT, .none]
def allFeats : List Feat := [⟨false, false⟩, ⟨false, true⟩, ⟨true, false⟩, ⟨true, true⟩]

/-! ## 2. The dispatch tables (`dispatch.rs`), one `def` per macro -/

/-- `try_qint!` -/
def tryQint (f : Feat) (ct : CType) : Option Slot :=
  if f.qint then
    match ct with
    | .Gauss => some (.run (.std .Gauss))
    | .Eisen => some (.run (.std .Eisen))
    | _ => none
  else
    match ct with
    | .Gauss | .Eisen => some .needQint
    | _ => none

/-- `try_std!` -/
def tryStd (f : Feat) (ct : CType) : Option Slot :=
  match ct with
  | .Z => some (.run (.std .Z))
  | .Q => some (.run (.std .Q))
  | .F2 => some (.run (.std .F2))
  | .F3 => some (.run (.std .F3))
  | .Gauss | .Eisen => tryQint f ct

/-- table of `try_euc_poly!` (feature `poly` on) -/
def eucPolyTable (ct : CType) (v : PolyVars) : Option Ring :=
  match ct, v with
  | .Q, .H => some (.polyH .Q)
  | .Q, .T => some (.polyT .Q)
  | .F2, .H => some (.polyH .F2)
  | .F2, .T => some (.polyT .F2)
  | .F3, .H => some (.polyH .F3)
  | .F3, .T => some (.polyT .F3)
  | _, _ => none

/-- table of `try_noneuc_poly!` (feature `poly` on) -/
def nonEucPolyTable (ct : CType) (v : PolyVars) : Option Ring :=
  match ct, v with
  | .Z, .H => some (.polyH .Z)
  | .Z, .T => some (.polyT .Z)
  | .Z, .HT => some (.polyHT .Z)
  | .Q, .HT => some (.polyHT .Q)
  | .F2, .HT => some (.polyHT .F2)
  | .F3, .HT => some (.polyHT .F3)
  | _, _ => none

/-- `try_euc_poly!` -/
def tryEucPoly (f : Feat) (ct : CType) (v : PolyVars) : Option Slot :=
  if f.poly then (eucPolyTable ct v).map .run
  else
    match ct with
    | .Q | .F2 | .F3 => some .needPoly
    | _ => none

/-- `try_noneuc_poly!` -/
def tryNonEucPoly (f : Feat) (ct : CType) (v : PolyVars) : Option Slot :=
  if f.poly then (nonEucPolyTable ct v).map .run
  else
    match ct with
    | .Z | .Q | .F2 | .F3 => some .needPoly
    | _ => none

/-- `try_ring!` (used by `ckh`) -/
def tryRing (f : Feat) (ct : CType) (v : PolyVars) : Option Slot :=
  if v = .none then tryStd f ct
  else (tryEucPoly f ct v).orElse (fun _ => tryNonEucPoly f ct v)

/-- `try_eucring!` (used by `kh`) -/
def tryEucRing (f : Feat) (ct : CType) (v : PolyVars) : Option Slot :=
  if v = .none then tryStd f ct
  else tryEucPoly f ct v

/-- `kh::dispatch` = `dispatch_eucring!`, `ckh::dispatch` = `dispatch_ring!`;
`none` is the `unwrap_or(err!("`App` is not supported for …"))` arm. -/
def dispatch (c : Cmd) (f : Feat) (ct : CType) (v : PolyVars) : Option Slot :=
  match c with
  | .kh => tryEucRing f ct v
  | .ckh => tryRing f ct v

/-! ## 3. `poly_vars` -/

/-- `str::split(sep)` on the characters: always at least one piece -/
def splitOnChar (sep : Char) : List Char → List (List Char)
  | [] => [[]]
  | c :: rest =>
    if c = sep then [] :: splitOnChar sep rest
    else
      match splitOnChar sep rest with
      | p :: ps => (c :: p) :: ps
      | [] => [[c]]

/-- `dispatch.rs: poly_vars`: the set of `,`-separated pieces contains "H" / "T" -/
def polyVars (c : String) : PolyVars :=
  let s := splitOnChar ',' c.toList
  match s.contains ['H'], s.contains ['T'] with
  | true, true => .HT
  | true, false => .H
  | false, true => .T
  | false, false => .none

/-! ## 4. `FromStr` of the coefficient rings, abstracted to what `App::run` looks at -/

/-- abstract value: `is_zero()`, `is_unit()` -/
structure Val where
  isZero : Bool
  isUnit : Bool
deriving DecidableEq, Repr, Inhabited

def Val.zero : Val := ⟨true, false⟩

def isAsciiDigit (c : Char) : Bool := '0' ≤ c && c ≤ '9'

def digitsVal (ds : List Char) : Nat := ds.foldl (fun a c => 10 * a + (c.toNat - 48)) 0

/-- `<iN as FromStr>::from_str`: optional sign, at least one ASCII digit, range check -/
def parseSigned (bits : Nat) (s : List Char) : Option Int :=
  let (neg, ds) : Bool × List Char := match s with
    | '-' :: r => (true, r)
    | '+' :: r => (false, r)
    | r => (false, r)
  if ds.isEmpty || !ds.all isAsciiDigit then none
  else
    let n : Int := digitsVal ds
    let v : Int := if neg then -n else n
    if -(2 ^ (bits - 1) : Int) ≤ v ∧ v < (2 ^ (bits - 1) : Int) then some v else none

/-- `<usize as FromStr>::from_str` (64 bit): optional `+`, digits, range check; a leading `-` is rejected -/
def parseUsize (s : List Char) : Option Nat :=
  let ds := match s with
    | '+' :: r => r
    | r => r
  if ds.isEmpty || !ds.all isAsciiDigit then none
  else
    let n := digitsVal ds
    if n < 2 ^ 64 then some n else none

/-- split at the last occurrence of `sep` that has at least one character on each side:
the capture groups of the greedy regexes `^(.+),(.+)$` / `(.+)/(.+)` on a string without line breaks -/
def splitLast (sep : Char) (s : List Char) : Option (List Char × List Char) :=
  let rec go (pre : List Char) (rest : List Char) (best : Option (List Char × List Char)) :
      Option (List Char × List Char) :=
    match rest with
    | [] => best
    | c :: r =>
      let best' := if c = sep ∧ !pre.isEmpty ∧ !r.isEmpty then some (pre.reverse, r) else best
      go (c :: pre) r best'
  go [] s none

/-- `parse_mono_deg(x, s)` with `I = usize` -/
def parseMonoDeg (x : Char) (s : List Char) : Option Nat :=
  if s = ['1'] then some 0
  else if s = [x] then some 1
  else match s with
    | c0 :: '^' :: rest =>
      if c0 ≠ x then none else
      match rest with
      | [d] => if isAsciiDigit d then parseUsize [d] else none          -- `^x\^([0-9])$`
      | '{' :: body =>                                                  -- `^x\^\{(-?[0-9]+)\}$`
        match body.reverse with
        | '}' :: revInner =>
          let inner := revInner.reverse
          let digs := match inner with
            | '-' :: r => r
            | r => r
          if digs.isEmpty || !digs.all isAsciiDigit then none else parseUsize inner
        | _ => none
      | _ => none
    | _ => none

/-- Unicode `White_Space` (what `\s` matches in the `regex` crate) -/
def isRegexSpace (c : Char) : Bool :=
  let n := c.toNat
  (9 ≤ n && n ≤ 13) || n = 0x20 || n = 0x85 || n = 0xA0 || n = 0x1680 ||
  (0x2000 ≤ n && n ≤ 0x200A) || n = 0x2028 || n = 0x2029 || n = 0x202F || n = 0x205F || n = 0x3000

/-- one item `(H|T)(\^\{?-?[0-9]+\}?)?` at the head of `s`: returns the matched text and the rest -/
def var2Item (s : List Char) : Option (List Char × List Char) :=
  match s with
  | c :: r =>
    if c ≠ 'H' ∧ c ≠ 'T' then none else
    match r with
    | '^' :: r1 =>
      let (ob, r2) : List Char × List Char := match r1 with
        | '{' :: t => (['{'], t)
        | t => ([], t)
      let (mn, r3) : List Char × List Char := match r2 with
        | '-' :: t => (['-'], t)
        | t => ([], t)
      let ds := r3.takeWhile isAsciiDigit
      let r4 := r3.dropWhile isAsciiDigit
      if ds.isEmpty then some ([c], r)     -- the optional exponent group does not match
      else
        let (cb, r5) : List Char × List Char := match r4 with
          | '}' :: t => (['}'], t)
          | t => ([], t)
        some (c :: '^' :: (ob ++ mn ++ ds ++ cb), r5)
    | _ => some ([c], r)
  | [] => none

/-- `Var2::<'H','T',usize>::from_str` on a string that is not `"1"`:
`err` = the anchored regex does not match, `panic` = `parse_mono_deg(..).unwrap()` on `None` or `usize`
overflow of the degree sum (overflow checks on), `ok (dH, dT)` otherwise. -/
def var2FromStr (s : List Char) : Res (Nat × Nat) :=
  let rec go (fuel : Nat) (s : List Char) (acc : List (List Char)) : Option (List (List Char)) :=
    match fuel with
    | 0 => none
    | fuel + 1 =>
      match var2Item s with
      | none => none
      | some (m, rest) =>
        let rest := match rest with
          | c :: t => if isRegexSpace c then t else rest
          | [] => rest
        if rest.isEmpty then some ((m :: acc).reverse) else go fuel rest (m :: acc)
  if s = ['1'] then .ok (0, 0) else
  match go (s.length + 1) s [] with
  | none => .err
  | some items =>
    items.foldl (fun (acc : Res (Nat × Nat)) m =>
      match acc with
      | .ok (dh, dt) =>
        match m with
        | x :: _ =>
          match parseMonoDeg x m with
          | none => .panic
          | some d =>
            if x = 'H' then (if dh + d < 2 ^ 64 then .ok (dh + d, dt) else .panic)
            else (if dt + d < 2 ^ 64 then .ok (dh, dt + d) else .panic)
        | [] => .panic
      | r => r) (.ok (0, 0))

/-- `R::from_str` for the standard rings -/
def stdFromStr (b : CType) (s : List Char) : Res Val :=
  match b with
  | .Z =>
    match parseSigned 64 s with
    | some v => .ok ⟨v == 0, v == 1 || v == -1⟩
    | none => .err
  | .F2 =>
    match parseSigned 32 s with      -- `FF<p>` wraps an `i32`
    | some v => .ok ⟨v % 2 == 0, v % 2 != 0⟩
    | none => .err
  | .F3 =>
    match parseSigned 32 s with
    | some v => .ok ⟨v % 3 == 0, v % 3 != 0⟩
    | none => .err
  | .Q =>
    match parseSigned 64 s with
    | some v => .ok ⟨v == 0, v != 0⟩
    | none =>
      match splitLast '/' s with
      | none => .err
      | some (s1, s2) =>
        match parseSigned 64 s1, parseSigned 64 s2 with
        | some a, some b => if b == 0 then .panic else .ok ⟨a == 0, a != 0⟩   -- `Ratio::new`: `assert!(!denom.is_zero())`
        | _, _ => .err
  | .Gauss | .Eisen =>
    -- only the integer-literal form is modelled (the `(a, b)` form is outside the harness's input space)
    match parseSigned 64 s with
    | some v => .ok ⟨v == 0, v == 1 || v == -1⟩
    | none => .err

/-- `R::from_str` for every ring of the dispatch tables -/
def fromStr (r : Ring) (s : List Char) : Res Val :=
  match r with
  | .std b => stdFromStr b s
  | .polyH b =>
    match stdFromStr b s with
    | .ok v => .ok v                     -- constant polynomial: zero iff the constant is, unit iff the constant is
    | .panic => .panic
    | .err =>
      match parseMonoDeg 'H' s with      -- `Var::from_str` (its `"1"` arm is `parse_mono_deg`'s too)
      | some d => .ok ⟨false, d == 0⟩
      | none => .err
  | .polyT b =>
    match stdFromStr b s with
    | .ok v => .ok v
    | .panic => .panic
    | .err =>
      match parseMonoDeg 'T' s with
      | some d => .ok ⟨false, d == 0⟩
      | none => .err
  | .polyHT b =>
    match stdFromStr b s with
    | .ok v => .ok v
    | .panic => .panic
    | .err =>
      match var2FromStr s with
      | .ok (dh, dt) => .ok ⟨false, dh == 0 && dt == 0⟩
      | .panic => .panic
      | .err => .err

/-- `helper.rs: parse_pair::<R>` (input without line breaks) -/
def parsePair (r : Ring) (s : List Char) : Res (Val × Val) :=
  match fromStr r s with
  | .ok c => .ok (c, Val.zero)
  | .panic => .panic
  | .err =>
    match splitLast ',' s with
    | none => .err
    | some (s1, s2) =>
      -- the tuple `(R::from_str(s1), R::from_str(s2))` is evaluated left to right, both sides always
      match fromStr r s1 with
      | .panic => .panic
      | r1 =>
        match fromStr r s2 with
        | .panic => .panic
        | r2 =>
          match r1, r2 with
          | .ok a, .ok b => .ok (a, b)
          | _, _ => .err

/-! ## 5. `App::run` of `kh.rs` / `ckh.rs`, the panic guard and `main` -/

inductive ErrKind where
  | usage        -- clap rejects the command line (exit status 2)
  | unsupported  -- "`App` is not supported for: -t … -c …"
  | feature      -- "build with `--features …`"
  | parse        -- "cannot parse '…' as …"
  | precheck     -- "`t` must be zero …" / "`h` must be non-zero, non-invertible …"
  | link         -- "invalid input link: …"
  | panic        -- "panic: …" (through `guard_panic`)
deriving DecidableEq, Repr, Inhabited

/-- what the harness knows about the link argument from calling the library in-process -/
inductive LinkClass where
  | ok           -- `load_link` succeeds and the library computes a result
  | invalid      -- neither PD-code JSON nor a loadable name/path
  | panics       -- loads, but the library panics on it (malformed PD code)
deriving DecidableEq, Repr, Inhabited

structure Opts where
  cval : String
  mirror : Bool
  reduced : Bool
  alpha : Bool        -- `-a`
  ss : Bool           -- `-s` (kh only)
deriving DecidableEq, Repr, Inhabited

/-- result of `App::<R>::run` before the panic guard: a table (bigraded or a one-row sequence),
an `Err(..)`, or a panic -/
inductive RunRes where
  | table (bigraded : Bool)
  | fail (k : ErrKind)
  | panic
deriving DecidableEq, Repr, Inhabited

/-- `load_link` + the library call -/
def loadAndCompute (lk : LinkClass) (bigraded : Bool) : RunRes :=
  match lk with
  | .invalid => .fail .link
  | .panics => .panic
  | .ok => .table bigraded

/-- `kh.rs: App::<R>::run` -/
def khRun (r : Ring) (o : Opts) (lk : LinkClass) : RunRes :=
  match parsePair r o.cval.toList with
  | .panic => .panic
  | .err => .fail .parse
  | .ok (h, t) =>
    if o.reduced && !t.isZero then .fail .precheck
    else if o.alpha && !t.isZero then .fail .precheck
    else if o.ss && !(!h.isZero && !h.isUnit) then .fail .precheck
    else if o.ss && !t.isZero then .fail .precheck
    else
      let bigraded := (h.isZero && t.isZero) || o.cval == "H" || o.cval == "0,T"
      loadAndCompute lk bigraded

/-- `ckh.rs: App::<R>::run` (the generator table is always two-dimensional) -/
def ckhRun (r : Ring) (o : Opts) (lk : LinkClass) : RunRes :=
  match parsePair r o.cval.toList with
  | .panic => .panic
  | .err => .fail .parse
  | .ok (_, t) =>
    if o.reduced && !t.isZero then .fail .precheck
    else if o.alpha && !t.isZero then .fail .precheck
    else loadAndCompute lk true

def appRun (c : Cmd) (r : Ring) (o : Opts) (lk : LinkClass) : RunRes :=
  match c with
  | .kh => khRun r o lk
  | .ckh => ckhRun r o lk

/-- what the process finally reports -/
inductive Outcome where
  | table (r : Ring) (bigraded : Bool)
  | error (k : ErrKind)
deriving DecidableEq, Repr, Inhabited

/-- `helper.rs: guard_panic` around the command's `dispatch` -/
def guardPanic (r : Ring) : RunRes → Outcome
  | .table b => .table r b
  | .fail k => .error k
  | .panic => .error .panic

def parseCmd (s : String) : Option Cmd :=
  if s = "kh" then some .kh else if s = "ckh" then some .ckh else none

def parseCType (s : String) : Option CType :=
  if s = "Z" then some .Z else if s = "Q" then some .Q else if s = "F2" then some .F2
  else if s = "F3" then some .F3 else if s = "Gauss" then some .Gauss else if s = "Eisen" then some .Eisen
  else none

/-- `App::dispatch` for the two commands, after clap has parsed `c` and `ct` -/
def runParsed (f : Feat) (c : Cmd) (ct : CType) (o : Opts) (lk : LinkClass) : Outcome :=
  match dispatch c f ct (polyVars o.cval) with
  | none => .error .unsupported
  | some .needQint => .error .feature
  | some .needPoly => .error .feature
  | some (.run r) => guardPanic r (appRun c r o lk)

/-- the whole command line: `-t` value still a string (clap rejects unknown values) -/
def run (f : Feat) (cmd ctype : String) (o : Opts) (lk : LinkClass) : Outcome :=
  match parseCmd cmd, parseCType ctype with
  | some c, some ct => if c = .ckh ∧ o.ss then .error .usage else runParsed f c ct o lk
  | _, _ => .error .usage

/-- observable behaviour of the process (`main.rs`): exit status, whether stdout carries a table,
whether stderr carries a message -/
structure Proc where
  exit : Nat
  tableOnStdout : Bool
  messageOnStderr : Bool
deriving DecidableEq, Repr, Inhabited

def mainRs : Outcome → Proc
  | .table _ _ => ⟨0, true, false⟩              -- `Ok(output) => println!("{output}")`
  | .error .usage => ⟨2, false, true⟩           -- clap prints the usage error and exits with 2
  | .error _ => ⟨1, false, true⟩                -- `eprintln!("error: {e}"); std::process::exit(1)`

/-! ## 6. Ring properties used in the statements -/

def isField : CType → Bool
  | .Q | .F2 | .F3 => true
  | _ => false

/-- rings over which the library's homology (`KhHomology<R: EucRing>`) is defined: ℤ, fields, ℤ[i], ℤ[ω],
and one-variable polynomial rings over a field -/
def Ring.isEuclidean : Ring → Bool
  | .std _ => true
  | .polyH b => isField b
  | .polyT b => isField b
  | .polyHT _ => false

def Ring.base : Ring → CType
  | .std b | .polyH b | .polyT b | .polyHT b => b

def Ring.vars : Ring → PolyVars
  | .std _ => .none
  | .polyH _ => .H
  | .polyT _ => .T
  | .polyHT _ => .HT

/-! ## 7. `rmod_str`: text of one table cell -/

def superDigit (d : Nat) : Char :=
  match d with
  | 1 => '¹'
  | 2 => '²'
  | 3 => '³'
  | _ => Char.ofNat (0x2070 + d)

/-- decimal digits, most significant first (`Digits::into_digits`) -/
def natDigits (n : Nat) : List Nat :=
  if n < 10 then [n] else natDigits (n / 10) ++ [n % 10]
termination_by n
decreasing_by omega

/-- `yui::util::format::superscript` for a non-negative number -/
def superscript (n : Nat) : List Char := (natDigits n).map superDigit

/-- run-length encoding of a sorted list (what the `BTreeMap<String, usize>` accumulates) -/
def runs : List (List Char) → List (List Char × Nat)
  | [] => []
  | t :: ts =>
    match runs ts with
    | (u, k) :: rest => if t = u then (u, k + 1) :: rest else (t, 1) :: (u, k) :: rest
    | [] => [(t, 1)]

def torPiece (sym : List Char) (t : List Char) (k : Nat) : List Char :=
  if k > 1 then ['('] ++ sym ++ ['/'] ++ t ++ [')'] ++ superscript k
  else ['('] ++ sym ++ ['/'] ++ t ++ [')']

def freePiece (sym : List Char) (rank : Nat) : List (List Char) :=
  if rank > 1 then [sym ++ superscript rank] else if rank = 1 then [sym] else []

def oplus : List Char := [' ', '⊕', ' ']

def joinWith (sep : List Char) : List (List Char) → List Char
  | [] => []
  | [p] => p
  | p :: q :: rest => p ++ sep ++ joinWith sep (q :: rest)

/-- `format.rs: make_rmod_str` with the unicode superscript and `⊕`; `tors` are the torsion
coefficients' texts *sorted* (the `BTreeMap` iterates in key order, so only the multiset matters) -/
def rmodStr (sym : List Char) (rank : Nat) (sortedTors : List (List Char)) : List Char :=
  if rank = 0 ∧ sortedTors = [] then ['0']
  else joinWith oplus (freePiece sym rank ++ (runs sortedTors).map (fun (t, k) => torPiece sym t k))

/-! ## 8. A reader for cell texts (the verified inverse of `rmodStr`, see `Proofs/C20.lean`) -/

def isSuper (c : Char) : Bool :=
  c = '⁰' || c = '¹' || c = '²' || c = '³' || (0x2074 ≤ c.toNat && c.toNat ≤ 0x2079)

def unsuperDigit (c : Char) : Nat :=
  if c = '¹' then 1 else if c = '²' then 2 else if c = '³' then 3 else c.toNat - 0x2070

def decodeSuper (l : List Char) : Nat := l.foldl (fun a c => 10 * a + unsuperDigit c) 0

/-- split at the first ` ⊕ ` -/
def breakOplus : List Char → List Char × Option (List Char)
  | [] => ([], none)
  | c :: rest =>
    if c = ' ' ∧ rest.take 2 = ['⊕', ' '] then ([], some (rest.drop 2))
    else
      let r := breakOplus rest
      (c :: r.1, r.2)

def splitOplus : Nat → List Char → List (List Char)
  | 0, s => [s]
  | n + 1, s =>
    match breakOplus s with
    | (p, none) => [p]
    | (p, some q) => p :: splitOplus n q

def stripPrefix : List Char → List Char → Option (List Char)
  | [], s => some s
  | _ :: _, [] => none
  | c :: p, d :: s => if c = d then stripPrefix p s else none

/-- `(sym/t)` + optional multiplicity -/
def readTor (sym piece : List Char) : Option (List Char × Nat) :=
  match stripPrefix ('(' :: sym ++ ['/']) piece with
  | none => none
  | some rest =>
    let r := rest.reverse
    let sup := (r.takeWhile isSuper).reverse
    match r.dropWhile isSuper with
    | ')' :: tr => some (tr.reverse, if sup.isEmpty then 1 else decodeSuper sup)
    | _ => none

/-- `sym` + optional rank -/
def readFree (sym piece : List Char) : Option Nat :=
  match stripPrefix sym piece with
  | none => none
  | some rest => if rest.all isSuper then some (if rest.isEmpty then 1 else decodeSuper rest) else none

def startsParen : List Char → Bool
  | '(' :: _ => true
  | _ => false

/-- reads a cell text back into (rank, run-length encoded torsion texts) -/
def readCell (sym s : List Char) : Option (Nat × List (List Char × Nat)) :=
  if s = ['0'] then some (0, [])
  else
    match splitOplus s.length s with
    | [] => none
    | p :: ps =>
      if startsParen p then
        match (p :: ps).mapM (readTor sym) with
        | some ts => some (0, ts)
        | none => none
      else
        match readFree sym p, ps.mapM (readTor sym) with
        | some r, some ts => some (r, ts)
        | _, _ => none

end Yuiv.C20
