import Yuiv.Model.C07Calc
/-
Matrix / `SnfResult` / `Trans` primitives used by the definitions that `tools/rs2lean_fn.py` generates from
`yui-homology/src/utils/homology_calc.rs` (target `fn:homcalc`) — hand-written, import-free apart from the hand model
`Yuiv/Model/C07*.lean`, TRUSTED.

`R := Int`.  `SpMat<R>` and `Mat<R>` are both the model's dense `C07.Mat` (so `into_dense` / `into_sparse` are the
identity); `SnfResult<R>` is `C07.Snf`; `Trans<R>` is `C07.Trans`.  Every primitive IS the corresponding primitive of
the hand model, with the panics the model gives it:

  `A.submat_rows(lo..hi)` / `submat_cols` ↦ `C07.rowsR` / `colsR` (range assertion);
  `A * B` on sparse matrices ↦ `C07.Trans.mulMat` (shape assertion);
  `A.stack(B)` / `A.concat(B)` ↦ `C07.stackR` / `concatR` (shape assertion of `combine_blocks`);
  `s.rank()`, `s.factors()`, `s.result()`, `s.p()` … `s.qinv()` ↦ `C07.Snf.rank`, `.factors`, the fields;
  `Trans::id(n)`, `Trans::new(f, b)` ↦ `C07.Trans.id`, `C07.Trans.new`.
-/
namespace Yuiv.Rust
open Yuiv

namespace HMat
def nrows (A : C07.Mat) : Nat := A.r
def ncols (A : C07.Mat) : Nat := A.c
def shape (A : C07.Mat) : Nat × Nat := (A.r, A.c)
def is_zero (A : C07.Mat) : Bool := A.isZero
def into_dense (A : C07.Mat) : C07.Mat := A
def into_sparse (A : C07.Mat) : C07.Mat := A
def submat_rows (A : C07.Mat) (lo hi : Nat) : Res C07.Mat := C07.rowsR A lo hi
def submat_cols (A : C07.Mat) (lo hi : Nat) : Res C07.Mat := C07.colsR A lo hi
def mul (A B : C07.Mat) : Res C07.Mat := C07.Trans.mulMat A B
def stack (A B : C07.Mat) : Res C07.Mat := C07.stackR A B
def concat (A B : C07.Mat) : Res C07.Mat := C07.concatR A B
end HMat

namespace HSnf
def result (s : C07.Snf) : C07.Mat := s.result
def rank (s : C07.Snf) : Nat := s.rank
def factors (s : C07.Snf) : List Int := s.factors
def p (s : C07.Snf) : Option C07.Mat := s.p
def pinv (s : C07.Snf) : Option C07.Mat := s.pinv
def q (s : C07.Snf) : Option C07.Mat := s.q
def qinv (s : C07.Snf) : Option C07.Mat := s.qinv
end HSnf

namespace HTrans
def id (n : Nat) : C07.Trans := C07.Trans.id n
def new (f b : C07.Mat) : Res C07.Trans := C07.Trans.new f b
end HTrans

end Yuiv.Rust
