import Yuiv.Model.Res
/-
Code model for C06: the c-adic valuation loop of `yui-khovanov/src/misc.rs` (`div`, `div_vec`) used by
`ss_invariant`, and the final arithmetic `ss = 2·d + w − r + 1`.

`div`:   if a = 0 → None;  k = 0;  while a % c == 0 { a /= c; k += 1 };  Some(k)
The Rust loop has no bound: for a unit `c` it never terminates (which is why `ss_invariant` asserts
`!c.is_unit()`), and `c = 0` panics (remainder by zero). The model makes both explicit:
fuel exhaustion = `err` (non-termination), `c = 0` = `panic`.
-/
namespace Yuiv.C06
open Yuiv

/-- the `while` loop with an explicit iteration budget; `none` = budget exhausted -/
def divLoop : Nat → Int → Int → Nat → Option Nat
  | 0, _, _, _ => none
  | fuel + 1, a, c, k => if a.tmod c == 0 then divLoop fuel (a.tdiv c) c (k + 1) else some k

/-- `misc::div` over ℤ (truncating `%` and `/` as in Rust). The budget `|a| + 1` is enough whenever `|c| ≥ 2`. -/
def div (a c : Int) : Res (Option Nat) :=
  if a == 0 then .ok none
  else if c == 0 then .panic
  else match divLoop (a.natAbs + 1) a c 0 with
    | some k => .ok (some k)
    | none => .err

/-- `misc::div_vec`: minimum over the non-zero entries; `none` for the zero vector -/
def divVec (v : List Int) (c : Int) : Res (Option Nat) :=
  v.foldl (fun acc a =>
    match acc, div a c with
    | .ok m, .ok (some k) => .ok (match m with | none => some k | some m => some (min m k))
    | .ok m, .ok none => .ok m
    | .ok _, .panic => .panic
    | .ok _, .err => .err
    | e, _ => e) (.ok none)

/-- `ss_invariant`: `2·d + w − r + 1` -/
def ss (d : Int) (w : Int) (r : Int) : Int := 2 * d + w - r + 1

end Yuiv.C06
