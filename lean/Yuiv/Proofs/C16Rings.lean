import Yuiv.Model.C16Rings
import Mathlib.Algebra.Ring.MinimalAxioms
import Mathlib.Tactic.Ring
/-
The coefficient types `F3` and `GInt` of the C16 driver are commutative rings (with exactly the operations the
driver runs), so the theorems of `Yuiv.Props.C16` apply to them.  (`Int` and `Rat` are Mathlib's instances on
the core operations.)
-/
namespace Yuiv.C16

theorem F3.ext' {a b : F3} (h : a.v = b.v) : a = b := by cases a; cases b; simp_all

@[reducible] def F3.commRing : CommRing F3 :=
  CommRing.ofMinimalAxioms
    (by rintro ⟨a⟩ ⟨b⟩ ⟨c⟩; apply F3.ext'; revert a b c; decide)
    (by rintro ⟨a⟩; apply F3.ext'; revert a; decide)
    (by rintro ⟨a⟩; apply F3.ext'; revert a; decide)
    (by rintro ⟨a⟩ ⟨b⟩ ⟨c⟩; apply F3.ext'; revert a b c; decide)
    (by rintro ⟨a⟩ ⟨b⟩; apply F3.ext'; revert a b; decide)
    (by rintro ⟨a⟩; apply F3.ext'; revert a; decide)
    (by rintro ⟨a⟩ ⟨b⟩ ⟨c⟩; apply F3.ext'; revert a b c; decide)

theorem GInt.ext' {a b : GInt} (h1 : a.re = b.re) (h2 : a.im = b.im) : a = b := by
  cases a; cases b; simp_all

theorem GInt.add_def (a b : GInt) : a + b = ⟨a.re + b.re, a.im + b.im⟩ := rfl
theorem GInt.mul_def (a b : GInt) : a * b = ⟨a.re * b.re - a.im * b.im, a.re * b.im + a.im * b.re⟩ := rfl
theorem GInt.neg_def (a : GInt) : -a = ⟨-a.re, -a.im⟩ := rfl
theorem GInt.zero_def : (0 : GInt) = ⟨0, 0⟩ := rfl
theorem GInt.one_def : (1 : GInt) = ⟨1, 0⟩ := rfl

@[reducible] def GInt.commRing : CommRing GInt :=
  CommRing.ofMinimalAxioms
    (by intro a b c; simp only [GInt.add_def]; apply GInt.ext' <;> simp <;> ring)
    (by intro a; simp only [GInt.add_def, GInt.zero_def]; apply GInt.ext' <;> simp)
    (by intro a; simp only [GInt.add_def, GInt.neg_def, GInt.zero_def]; apply GInt.ext' <;> simp)
    (by intro a b c; simp only [GInt.mul_def]; apply GInt.ext' <;> simp <;> ring)
    (by intro a b; simp only [GInt.mul_def]; apply GInt.ext' <;> simp <;> ring)
    (by intro a; simp only [GInt.mul_def, GInt.one_def]; apply GInt.ext' <;> simp)
    (by intro a b c; simp only [GInt.mul_def, GInt.add_def]; apply GInt.ext' <;> simp <;> ring)

end Yuiv.C16
