import Yuiv.Proofs.C07EucModel
import Yuiv.Proofs.C07Bridge
import Yuiv.Proofs.C09
/-
C07 over a lawful operation record — bridge between the generic code (`Proofs/C07EucModel.lean`) and the algebra of
`Proofs/C07Alg.lean`: generic version of `Proofs/C07Bridge.lean`.  `GMat.toM φ o A r c` is the Mathlib matrix over
`K` denoted by `A : GMat α` through the interpretation `φ : α → K`; `L : C09.Lawful o φ` says the operations
compute in `K`.  `calcTransG` returns `Trans::new(p, q)` where `p`, `q` denote `pMat`, `qMat` for the literal ranges.
-/
set_option linter.unusedVariables false
set_option linter.unusedSectionVars false

namespace Yuiv.C07
open Matrix Yuiv

variable {α K : Type} [CommRing K]

/-- a generic matrix read as a Mathlib matrix of the given shape, through `φ` -/
def GMat.toM (φ : α → K) (o : C09.ROps α) (A : GMat α) (r c : Nat) : Matrix (Fin r) (Fin c) K :=
  fun i j => φ (A.get o i.val j.val)

section shapes
variable (o : C09.ROps α)

theorem GMat.get_ofFn (r c : Nat) (f : Nat → Nat → α) (i j : Nat) :
    (GMat.ofFn r c f).get o i j = if i < r ∧ j < c then f i j else o.zero := by
  unfold GMat.get GMat.ofFn
  by_cases h : i < r ∧ j < c
  · have hlt := idx_lt h.1 h.2
    have hc : 0 < c := by omega
    simp only [h, and_self, if_true]
    rw [Array.getD_eq_getD_getElem?, Array.getElem?_ofFn]
    simp only [hlt, dite_true, Option.getD_some]
    have e1 : (i * c + j) / c = i := by
      rw [Nat.mul_comm, Nat.mul_add_div hc, Nat.div_eq_of_lt h.2, Nat.add_zero]
    have e2 : (i * c + j) % c = j := by
      rw [Nat.mul_comm, Nat.mul_add_mod, Nat.mod_eq_of_lt h.2]
    rw [e1, e2]
  · simp only [h, if_false]

@[simp] theorem GMat.ofFn_r (r c : Nat) (f : Nat → Nat → α) : (GMat.ofFn r c f).r = r := rfl
@[simp] theorem GMat.ofFn_c (r c : Nat) (f : Nat → Nat → α) : (GMat.ofFn r c f).c = c := rfl

theorem GMat.get_oob (A : GMat α) (i j : Nat) (h : ¬ (i < A.r ∧ j < A.c)) : A.get o i j = o.zero := by
  unfold GMat.get; simp [h]

theorem GMat.rows_get (A : GMat α) (lo hi i j : Nat) :
    (A.rows o lo hi).get o i j = if i < hi - lo then A.get o (lo + i) j else o.zero := by
  unfold GMat.rows
  rw [GMat.get_ofFn]
  by_cases hi' : i < hi - lo
  · by_cases hj : j < A.c
    · simp [hi', hj]
    · simp [hi', hj, GMat.get_oob o A (lo + i) j (fun h => hj h.2)]
  · simp [hi']

theorem GMat.cols_get (A : GMat α) (lo hi i j : Nat) :
    (A.cols o lo hi).get o i j = if j < hi - lo then A.get o i (lo + j) else o.zero := by
  unfold GMat.cols
  rw [GMat.get_ofFn]
  by_cases hj : j < hi - lo
  · by_cases hi' : i < A.r
    · simp [hi', hj]
    · simp [hi', hj, GMat.get_oob o A i (lo + j) (fun h => hi' h.1)]
  · simp [hj]

theorem GMat.mul_get (A B : GMat α) (i j : Nat) :
    (A.mul o B).get o i j = if i < A.r ∧ j < B.c then GMat.dot o A B i j else o.zero := by
  unfold GMat.mul; rw [GMat.get_ofFn]

theorem GMat.stack_get (A B : GMat α) (i j : Nat) :
    (A.stack o B).get o i j =
      if i < A.r + B.r ∧ j < A.c then (if i < A.r then A.get o i j else B.get o (i - A.r) j) else o.zero := by
  unfold GMat.stack; rw [GMat.get_ofFn]

theorem GMat.concat_get (A B : GMat α) (i j : Nat) :
    (A.concat o B).get o i j =
      if i < A.r ∧ j < A.c + B.c then (if j < A.c then A.get o i j else B.get o i (j - A.c)) else o.zero := by
  unfold GMat.concat; rw [GMat.get_ofFn]

@[simp] theorem GMat.rows_r (A : GMat α) (lo hi : Nat) : (A.rows o lo hi).r = hi - lo := rfl
@[simp] theorem GMat.rows_c (A : GMat α) (lo hi : Nat) : (A.rows o lo hi).c = A.c := rfl
@[simp] theorem GMat.cols_r (A : GMat α) (lo hi : Nat) : (A.cols o lo hi).r = A.r := rfl
@[simp] theorem GMat.cols_c (A : GMat α) (lo hi : Nat) : (A.cols o lo hi).c = hi - lo := rfl
@[simp] theorem GMat.mul_r (A B : GMat α) : (A.mul o B).r = A.r := rfl
@[simp] theorem GMat.mul_c (A B : GMat α) : (A.mul o B).c = B.c := rfl
@[simp] theorem GMat.stack_r (A B : GMat α) : (A.stack o B).r = A.r + B.r := rfl
@[simp] theorem GMat.stack_c (A B : GMat α) : (A.stack o B).c = A.c := rfl
@[simp] theorem GMat.concat_r (A B : GMat α) : (A.concat o B).r = A.r := rfl
@[simp] theorem GMat.concat_c (A B : GMat α) : (A.concat o B).c = A.c + B.c := rfl

end shapes

section sums
variable {o : C09.ROps α} {φ : α → K} (L : C09.Lawful o φ)
include L

theorem foldl_add_eq_sumG (f : Nat → α) (n : Nat) :
    φ ((List.range n).foldl (fun s k => o.add s (f k)) o.zero) = ∑ k ∈ Finset.range n, φ (f k) := by
  induction n with
  | zero => simp [L.zero]
  | succ n ih =>
    rw [List.range_succ, List.foldl_append, Finset.sum_range_succ, ← ih]
    simp [L.add]

theorem dot_eq_sumG (A B : GMat α) (i j : Nat) :
    φ (GMat.dot o A B i j) = ∑ k ∈ Finset.range A.c, φ (A.get o i k) * φ (B.get o k j) := by
  unfold GMat.dot
  rw [foldl_add_eq_sumG L]
  apply Finset.sum_congr rfl
  intro k _
  exact L.mul _ _

end sums

/-- the matrix `p` which `HomologyCalc::trans` assembles -/
def pModelG (o : C09.ROps α) (P1 Q2i : GMat α) (n r1 r2 t : Nat) : GMat α :=
  (((Q2i.rows o r2 (n - r1)).mul o (P1.rows o r1 n))).stack o (P1.rows o (r1 - t) r1)

/-- the matrix `q` which `HomologyCalc::trans` assembles -/
def qModelG (o : C09.ROps α) (P1i Q2 : GMat α) (n r1 r2 t : Nat) : GMat α :=
  (((P1i.cols o r1 n).mul o (Q2.cols o r2 (n - r1)))).concat o (P1i.cols o (r1 - t) r1)

/-- the generic code `calcTransG` returns exactly `Trans::new(pModelG, qModelG)` (no panic) when the two SNF results
carry the transformation matrices of the right shapes and `t ≤ r1`, `r1 + r2 ≤ n` -/
theorem calcTransG_eq (e : C09.EOps α) (s1 s2 : GSnf α) (P1 P1i Q2 Q2i : GMat α) (n r1 r2 t : Nat)
    (hp : s1.p = some P1) (hpi : s1.pinv = some P1i) (hq : s2.q = some Q2) (hqi : s2.qinv = some Q2i)
    (hn : s1.result.r = n) (hr1 : s1.rank e.toROps = r1) (hr2 : s2.rank e.toROps = r2)
    (ht : ((s1.factors e.toROps).filter fun a => !e.isUnit a).length = t)
    (h12 : r1 + r2 ≤ n) (htr : t ≤ r1)
    (hP1 : P1.r = n ∧ P1.c = n) (hP1i : P1i.r = n ∧ P1i.c = n)
    (hQ2 : Q2.r = n - r1 ∧ Q2.c = n - r1) (hQ2i : Q2i.r = n - r1 ∧ Q2i.c = n - r1) :
    calcTransG e s1 s2 = .ok ⟨n, (n - r1 - r2) + t,
      [pModelG e.toROps P1 Q2i n r1 r2 t], [qModelG e.toROps P1i Q2 n r1 r2 t]⟩ := by
  have e1 : r1 ≤ n := by omega
  have e2 : r2 ≤ n - r1 := by omega
  have e4 : r1 - (r1 - t) = t := by omega
  simp only [calcTransG, hp, hpi, hq, hqi, hn, hr1, hr2, ht, unwrap, subR, rowsRG, colsRG, stackRG, concatRG,
    GTrans.mulMat, GTrans.new, GTrans.append, GTrans.id, Res.assert, Res.bind_ok, Res.pure_eq]
  simp [hP1.1, hP1.2, hP1i.1, hP1i.2, hQ2.1, hQ2.2, hQ2i.1, hQ2i.2, e1, e2, e4, htr, pModelG, qModelG]

section entries
variable {o : C09.ROps α} {φ : α → K} (L : C09.Lawful o φ)
include L

theorem pModelG_get_free (P1 Q2i : GMat α) (n r1 r2 t f j : Nat) (h12 : r1 + r2 ≤ n) (htr : t ≤ r1)
    (hP1 : P1.r = n ∧ P1.c = n) (hQ2i : Q2i.r = n - r1 ∧ Q2i.c = n - r1) (hf : f < n - r1 - r2) (hj : j < n) :
    φ ((pModelG o P1 Q2i n r1 r2 t).get o f j) =
      ∑ k ∈ Finset.range (n - r1), φ (Q2i.get o (r2 + f) k) * φ (P1.get o (r1 + k) j) := by
  have h1 : f < n - r1 - r2 + (r1 - (r1 - t)) := by omega
  simp only [pModelG, GMat.stack_get, GMat.mul_get, GMat.mul_r, GMat.mul_c, GMat.rows_r, GMat.rows_c, hP1.2, hf, hj,
    h1, and_self, if_true, dot_eq_sumG L, hQ2i.2]
  apply Finset.sum_congr rfl
  intro k hk
  have hk' : k < n - r1 := Finset.mem_range.mp hk
  simp only [GMat.rows_get, hf, hk', if_true]

omit L in
theorem pModelG_get_tor (P1 Q2i : GMat α) (n r1 r2 t u j : Nat) (h12 : r1 + r2 ≤ n) (htr : t ≤ r1)
    (hP1 : P1.r = n ∧ P1.c = n) (hu : u < t) (hj : j < n) :
    (pModelG o P1 Q2i n r1 r2 t).get o (n - r1 - r2 + u) j = P1.get o (r1 - t + u) j := by
  have h1 : n - r1 - r2 + u < n - r1 - r2 + (r1 - (r1 - t)) := by omega
  have h2 : ¬ (n - r1 - r2 + u < n - r1 - r2) := by omega
  have h3 : u < r1 - (r1 - t) := by omega
  simp only [pModelG, GMat.stack_get, GMat.mul_r, GMat.mul_c, GMat.rows_r, GMat.rows_c, hP1.2, hj, h1, h2,
    and_self, if_true, if_false, GMat.rows_get, Nat.add_sub_cancel_left, h3]

theorem qModelG_get_free (P1i Q2 : GMat α) (n r1 r2 t i f : Nat) (h12 : r1 + r2 ≤ n) (htr : t ≤ r1)
    (hP1i : P1i.r = n ∧ P1i.c = n) (hQ2 : Q2.r = n - r1 ∧ Q2.c = n - r1) (hf : f < n - r1 - r2) (hi : i < n) :
    φ ((qModelG o P1i Q2 n r1 r2 t).get o i f) =
      ∑ k ∈ Finset.range (n - r1), φ (P1i.get o i (r1 + k)) * φ (Q2.get o k (r2 + f)) := by
  have h1 : f < n - r1 - r2 + (r1 - (r1 - t)) := by omega
  simp only [qModelG, GMat.concat_get, GMat.mul_get, GMat.mul_r, GMat.mul_c, GMat.cols_r, GMat.cols_c, hP1i.1, hf,
    hi, h1, and_self, if_true, dot_eq_sumG L]
  apply Finset.sum_congr rfl
  intro k hk
  have hk' : k < n - r1 := Finset.mem_range.mp hk
  simp only [GMat.cols_get, hf, hk', if_true]

omit L in
theorem qModelG_get_tor (P1i Q2 : GMat α) (n r1 r2 t i u : Nat) (h12 : r1 + r2 ≤ n) (htr : t ≤ r1)
    (hP1i : P1i.r = n ∧ P1i.c = n) (hu : u < t) (hi : i < n) :
    (qModelG o P1i Q2 n r1 r2 t).get o i (n - r1 - r2 + u) = P1i.get o i (r1 - t + u) := by
  have h1 : n - r1 - r2 + u < n - r1 - r2 + (r1 - (r1 - t)) := by omega
  have h2 : ¬ (n - r1 - r2 + u < n - r1 - r2) := by omega
  have h3 : u < r1 - (r1 - t) := by omega
  simp only [qModelG, GMat.concat_get, GMat.mul_r, GMat.mul_c, GMat.cols_r, GMat.cols_c, hP1i.1, hi, h1, h2,
    and_self, if_true, if_false, GMat.cols_get, Nat.add_sub_cancel_left, h3]

/-- the code's `p` denotes the algebraic `pMat` for the literal ranges (rows re-indexed `Fin (r+t) ≃ Fin r ⊕ Fin t`) -/
theorem pModelG_toM (P1 Q2i : GMat α) (n r1 r2 t : Nat) (h12 : r1 + r2 ≤ n) (htr : t ≤ r1)
    (hP1 : P1.r = n ∧ P1.c = n) (hQ2i : Q2i.r = n - r1 ∧ Q2i.c = n - r1) :
    (pModelG o P1 Q2i n r1 r2 t).toM φ o ((n - r1 - r2) + t) n =
      (pMat (P1.toM φ o n n) (Q2i.toM φ o (n - r1) (n - r1)) (rangeMap r1 (n - r1) n (by omega))
        (rangeMap (r1 - t) t n (by omega)) (rangeMap r2 (n - r1 - r2) (n - r1) (by omega))).submatrix
        finSumFinEquiv.symm id := by
  ext i j
  obtain ⟨s, rfl⟩ := finSumFinEquiv.surjective i
  rw [Matrix.submatrix_apply, Equiv.symm_apply_apply]
  cases s with
  | inl f =>
    simp only [GMat.toM, finSumFinEquiv_apply_left, Fin.val_castAdd, pMat, Matrix.fromRows_apply_inl, pFree,
      Matrix.mul_apply, Matrix.submatrix_apply, id, rangeMap]
    rw [pModelG_get_free L P1 Q2i n r1 r2 t f.val j.val h12 htr hP1 hQ2i f.isLt j.isLt,
      ← Fin.sum_univ_eq_sum_range (fun k => φ (Q2i.get o (r2 + f.val) k) * φ (P1.get o (r1 + k) j.val))]
  | inr u =>
    simp only [GMat.toM, finSumFinEquiv_apply_right, Fin.val_natAdd, pMat, Matrix.fromRows_apply_inr, pTor,
      Matrix.submatrix_apply, id, rangeMap]
    rw [pModelG_get_tor P1 Q2i n r1 r2 t u.val j.val h12 htr hP1 u.isLt j.isLt]

/-- the code's `q` denotes the algebraic `qMat` for the literal ranges -/
theorem qModelG_toM (P1i Q2 : GMat α) (n r1 r2 t : Nat) (h12 : r1 + r2 ≤ n) (htr : t ≤ r1)
    (hP1i : P1i.r = n ∧ P1i.c = n) (hQ2 : Q2.r = n - r1 ∧ Q2.c = n - r1) :
    (qModelG o P1i Q2 n r1 r2 t).toM φ o n ((n - r1 - r2) + t) =
      (qMat (P1i.toM φ o n n) (Q2.toM φ o (n - r1) (n - r1)) (rangeMap r1 (n - r1) n (by omega))
        (rangeMap (r1 - t) t n (by omega)) (rangeMap r2 (n - r1 - r2) (n - r1) (by omega))).submatrix
        id finSumFinEquiv.symm := by
  ext i j
  obtain ⟨s, rfl⟩ := finSumFinEquiv.surjective j
  rw [Matrix.submatrix_apply, Equiv.symm_apply_apply]
  cases s with
  | inl f =>
    simp only [GMat.toM, finSumFinEquiv_apply_left, Fin.val_castAdd, qMat, Matrix.fromCols_apply_inl, qFree,
      Matrix.mul_apply, Matrix.submatrix_apply, id, rangeMap]
    rw [qModelG_get_free L P1i Q2 n r1 r2 t i.val f.val h12 htr hP1i hQ2 f.isLt i.isLt,
      ← Fin.sum_univ_eq_sum_range (fun k => φ (P1i.get o i.val (r1 + k)) * φ (Q2.get o k (r2 + f.val)))]
  | inr u =>
    simp only [GMat.toM, finSumFinEquiv_apply_right, Fin.val_natAdd, qMat, Matrix.fromCols_apply_inr, qTor,
      Matrix.submatrix_apply, id, rangeMap]
    rw [qModelG_get_tor P1i Q2 n r1 r2 t i.val u.val h12 htr hP1i u.isLt i.isLt]

end entries

end Yuiv.C07
