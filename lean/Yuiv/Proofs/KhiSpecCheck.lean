import Yuiv.Proofs.KhiSpecParity
/-
KhiSpec — the `D∘D` check of `khiHomology` passes when the cone is a complex (count form of `Props/C19Cone`), for a
well-formed enumeration (`khiGensOk`).
-/
namespace Yuiv.KhiSpec
open Yuiv Yuiv.KhRef Yuiv.C19 Yuiv.C06Cycle Yuiv.C19Inv Yuiv.C19Comm

/-- the cone differential over the differential table of `khiHomology` -/
def dIm (ic : ICube) (p : Params) : IGen → Array IGen :=
  dIA ic (fun g => ((dmapOf ic.cube p (kgensOf ic.cube)).get? g).getD #[])

/-- on cone generators the table-based differential is the cone differential `dI` -/
theorem dIm_eq (ic : ICube) (p : Params) (i : Nat) (x : IGen)
    (hx : x ∈ (coneGens ic.cube (kgensOf ic.cube))[i]!) : dIm ic p x = dIfull ic p x := by
  unfold dIm dIfull
  apply dIA_congr
  exact dmapOf_get _ _ _ _ (coneGens_mem _ _ i x hx)

theorem flatMap_congr' {α β : Type} (l : List α) (f g : α → List β) (h : ∀ a ∈ l, f a = g a) :
    l.flatMap f = l.flatMap g := by
  induction l with
  | nil => rfl
  | cons a l ih =>
    rw [List.flatMap_cons, List.flatMap_cons, h a (by simp), ih (fun b hb => h b (List.mem_cons_of_mem _ hb))]

theorem array_size_zero_of_no_mem (R : Array IGen) (h : ∀ z, z ∉ R) : R.size = 0 := by
  by_contra hne
  have : 0 < R.size := by omega
  exact h _ (Array.getElem_mem this)

theorem dd_check_passes (ic : ICube) (p : Params) (G : GensOk ic p)
    (hcone : ∀ (i : Nat) (x : IGen), x ∈ (coneGens ic.cube (kgensOf ic.cube))[i]! →
      ∀ z, ((dI ic p x).flatMap (dI ic p)).count z % 2 = 0) :
    ∀ gs ∈ coneGens ic.cube (kgensOf ic.cube), ∀ x ∈ gs,
      (reduce2 ((reduce2 (dIm ic p x)).flatMap (fun y => reduce2 (dIm ic p y)))).size = 0 := by
  intro gs hgs x hx
  obtain ⟨i, hi, rfl⟩ := Array.mem_iff_getElem.1 hgs
  have hx' : x ∈ (coneGens ic.cube (kgensOf ic.cube))[i]! := by rw [getElem!_pos _ i hi]; exact hx
  apply array_size_zero_of_no_mem
  intro z hz
  rw [mem_reduce2, Array.toList_flatMap] at hz
  have e1 : (dIm ic p x).toList = dI ic p x := by rw [dIm_eq ic p i x hx', dIA_toList]
  have hmemS : ∀ y, y ∈ (reduce2 (dIm ic p x)).toList ↔ (dI ic p x).count y % 2 = 1 := by
    intro y
    rw [Array.mem_toList_iff, mem_reduce2, e1]
  have e2 : (reduce2 (dIm ic p x)).toList.flatMap (fun y => (reduce2 (dIm ic p y)).toList) =
      (reduce2 (dIm ic p x)).toList.flatMap (fun y => (reduce2 (dIfull ic p y)).toList) := by
    apply flatMap_congr'
    intro y hy
    have hy1 : y ∈ dI ic p x := by
      have := (hmemS y).1 hy
      apply List.count_pos_iff.1
      omega
    rw [dIm_eq ic p (i + 1) y (G.closed i hi x hx' y hy1)]
  have := parity_flatMap (dI ic p x) (reduce2 (dIm ic p x)).toList (dI ic p)
    (fun y => (reduce2 (dIfull ic p y)).toList) (reduce2_nodup _) hmemS (fun y => reduce2_nodup _)
    (fun y z => by rw [Array.mem_toList_iff, mem_reduce2, dIA_toList]) z
  rw [hcone i x hx' z] at this
  have hz' : List.count z ((reduce2 (dIm ic p x)).toList.flatMap (fun y => (reduce2 (dIm ic p y)).toList)) % 2 = 1 := hz
  rw [e2] at hz'
  omega

end Yuiv.KhiSpec
