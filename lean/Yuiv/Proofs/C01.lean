import Yuiv.Model.KhRef
import Mathlib.Tactic.Ring
/-
Spec-level algebra for C01: the Frobenius algebra  A = ℤ[X]/(X² − hX − t)  read off from the tables
`KhRef.prod` / `KhRef.coprod` that the reference cube (and `KhAlgStr` in the Rust) uses.
An element `a₀·1 + a₁·X` is the pair `(a₀, a₁)`; an element of `A ⊗ A` is
`(c₁₁, c₁ₓ, cₓ₁, cₓₓ)` for the basis `1⊗1, 1⊗X, X⊗1, X⊗X`.
-/
namespace Yuiv.KhRef

abbrev A := Int × Int
abbrev AA := Int × Int × Int × Int

/-- coefficient vector of a table row `[(label, coeff)]` -/
def vecOf (l : List (Bool × Int)) : A :=
  l.foldl (fun acc ya => if ya.1 then (acc.1, acc.2 + ya.2) else (acc.1 + ya.2, acc.2)) (0, 0)

/-- coefficient tensor of a comultiplication table row -/
def tenOf (l : List (Bool × Bool × Int)) : AA :=
  l.foldl (fun acc yza =>
    match yza.1, yza.2.1 with
    | false, false => (acc.1 + yza.2.2, acc.2.1, acc.2.2.1, acc.2.2.2)
    | false, true => (acc.1, acc.2.1 + yza.2.2, acc.2.2.1, acc.2.2.2)
    | true, false => (acc.1, acc.2.1, acc.2.2.1 + yza.2.2, acc.2.2.2)
    | true, true => (acc.1, acc.2.1, acc.2.2.1, acc.2.2.2 + yza.2.2)) (0, 0, 0, 0)

def smul (k : Int) (a : A) : A := (k * a.1, k * a.2)
def add (a b : A) : A := (a.1 + b.1, a.2 + b.2)

/-- multiplication of `A`, extended bilinearly from the `prod` table -/
def mul (h t : Int) (a b : A) : A :=
  add (add (smul (a.1 * b.1) (vecOf (prod h t false false))) (smul (a.1 * b.2) (vecOf (prod h t false true))))
      (add (smul (a.2 * b.1) (vecOf (prod h t true false))) (smul (a.2 * b.2) (vecOf (prod h t true true))))

def smul4 (k : Int) (c : AA) : AA := (k * c.1, k * c.2.1, k * c.2.2.1, k * c.2.2.2)
def add4 (c d : AA) : AA := (c.1 + d.1, c.2.1 + d.2.1, c.2.2.1 + d.2.2.1, c.2.2.2 + d.2.2.2)

/-- comultiplication, extended linearly from the `coprod` table -/
def comul (h t : Int) (a : A) : AA :=
  add4 (smul4 a.1 (tenOf (coprod h t false))) (smul4 a.2 (tenOf (coprod h t true)))

/-- counit: ε(1) = 0, ε(X) = 1 -/
def counit (a : A) : Int := a.2

def one : A := (1, 0)
def X : A := (0, 1)

/-- `(m ⊗ id)(a ⊗ c)` for `c ∈ A ⊗ A` : multiply `a` into the first tensor factor -/
def mulLeft (h t : Int) (a : A) (c : AA) : AA :=
  -- c = c11 1⊗1 + c1X 1⊗X + cX1 X⊗1 + cXX X⊗X ;  (a·1)⊗1 etc.
  let a1 := mul h t a one
  let aX := mul h t a X
  ( c.1 * a1.1 + c.2.2.1 * aX.1,        -- coefficient of 1⊗1
    c.2.1 * a1.1 + c.2.2.2 * aX.1,      -- 1⊗X
    c.1 * a1.2 + c.2.2.1 * aX.2,        -- X⊗1
    c.2.1 * a1.2 + c.2.2.2 * aX.2 )     -- X⊗X

/-- `(id ⊗ Δ)` and `(Δ ⊗ id)` applied to `c ∈ A⊗A`, as 8 coefficients in the basis
`1⊗1⊗1, 1⊗1⊗X, 1⊗X⊗1, 1⊗X⊗X, X⊗1⊗1, X⊗1⊗X, X⊗X⊗1, X⊗X⊗X` -/
def idComul (h t : Int) (c : AA) : List Int :=
  let d1 := comul h t one
  let dX := comul h t X
  -- first factor 1: c11 · 1⊗Δ1 + c1X · 1⊗ΔX ; first factor X: cX1 · X⊗Δ1 + cXX · X⊗ΔX
  [ c.1 * d1.1 + c.2.1 * dX.1, c.1 * d1.2.1 + c.2.1 * dX.2.1, c.1 * d1.2.2.1 + c.2.1 * dX.2.2.1, c.1 * d1.2.2.2 + c.2.1 * dX.2.2.2,
    c.2.2.1 * d1.1 + c.2.2.2 * dX.1, c.2.2.1 * d1.2.1 + c.2.2.2 * dX.2.1, c.2.2.1 * d1.2.2.1 + c.2.2.2 * dX.2.2.1, c.2.2.1 * d1.2.2.2 + c.2.2.2 * dX.2.2.2 ]

def comulId (h t : Int) (c : AA) : List Int :=
  let d1 := comul h t one
  let dX := comul h t X
  -- last factor 1: c11 · Δ1⊗1 + cX1 · ΔX⊗1 ; last factor X: c1X · Δ1⊗X + cXX · ΔX⊗X
  [ c.1 * d1.1 + c.2.2.1 * dX.1,          -- 1⊗1⊗1
    c.2.1 * d1.1 + c.2.2.2 * dX.1,        -- 1⊗1⊗X
    c.1 * d1.2.1 + c.2.2.1 * dX.2.1,      -- 1⊗X⊗1
    c.2.1 * d1.2.1 + c.2.2.2 * dX.2.1,    -- 1⊗X⊗X
    c.1 * d1.2.2.1 + c.2.2.1 * dX.2.2.1,  -- X⊗1⊗1
    c.2.1 * d1.2.2.1 + c.2.2.2 * dX.2.2.1,-- X⊗1⊗X
    c.1 * d1.2.2.2 + c.2.2.1 * dX.2.2.2,  -- X⊗X⊗1
    c.2.1 * d1.2.2.2 + c.2.2.2 * dX.2.2.2 ] -- X⊗X⊗X

/-! ### popcount / edge-sign lemmas (for `edgeSign_anticomm`) -/

theorem popcount_succ (x k : Nat) :
    popcount x (k + 1) = popcount x k + (if x.testBit k then 1 else 0) := by
  unfold popcount
  rw [List.range_succ, List.filter_append, List.length_append]
  cases h : x.testBit k <;> simp [h]

theorem popcount_mod (s k : Nat) : popcount (s % 2 ^ k) k = popcount s k := by
  unfold popcount
  congr 1
  apply List.filter_congr
  intro i hi
  rw [Nat.testBit_mod_two_pow]
  simp [List.mem_range.mp hi]

theorem testBit_or_bit (s i k : Nat) :
    (s ||| (1 <<< i)).testBit k = (s.testBit k || decide (i = k)) := by
  rw [Nat.testBit_or, Nat.one_shiftLeft, Nat.testBit_two_pow]

theorem popcount_or_le (s i k : Nat) (hk : k ≤ i) :
    popcount (s ||| (1 <<< i)) k = popcount s k := by
  unfold popcount
  congr 1
  apply List.filter_congr
  intro x hx
  have : x < k := List.mem_range.mp hx
  rw [testBit_or_bit]
  have : ¬ i = x := by omega
  simp [this]

theorem popcount_or_gt (s i j : Nat) (hi : s.testBit i = false) (hj : i < j) :
    popcount (s ||| (1 <<< i)) j = popcount s j + 1 := by
  induction j with
  | zero => omega
  | succ j ih =>
    rw [popcount_succ, popcount_succ, testBit_or_bit]
    by_cases h : i = j
    · subst h
      rw [popcount_or_le s i i (Nat.le_refl _), hi]
      simp
    · have hlt : i < j := by omega
      rw [ih hlt]
      simp [h]
      omega

theorem edgeSign_eq (s k : Nat) : edgeSign s k = if popcount s k % 2 = 0 then 1 else -1 := by
  unfold edgeSign
  rw [popcount_mod]
  simp

theorem edgeSign_or_le (s i k : Nat) (hk : k ≤ i) :
    edgeSign (s ||| (1 <<< i)) k = edgeSign s k := by
  rw [edgeSign_eq, edgeSign_eq, popcount_or_le s i k hk]

theorem edgeSign_or_gt (s i j : Nat) (hi : s.testBit i = false) (hj : i < j) :
    edgeSign (s ||| (1 <<< i)) j = - edgeSign s j := by
  rw [edgeSign_eq, edgeSign_eq, popcount_or_gt s i j hi hj]
  rcases Nat.mod_two_eq_zero_or_one (popcount s j) with h | h
  · have : (popcount s j + 1) % 2 = 1 := by omega
    simp [h, this]
  · have : (popcount s j + 1) % 2 = 0 := by omega
    simp [h, this]

end Yuiv.KhRef
