import Yuiv.Model.KhRef
import Yuiv.Proofs.C03Uct
/-
KhSnf — shared vocabulary for the verification of the reference's integer linear algebra
(`KhRef.smithInvariants`, `KhRef.denseDiag`, `KhRef.chain`, `KhRef.homologyOf`).

  * `rval r c`      : value of the sparse row `r` at column `c`;
  * `RowOK n r`     : the row is well-formed: strictly increasing columns `< n`, no zero value;
  * `rowsFn`, `box`, `matOf` : the integer matrix represented by an array of sparse rows;
  * `Reach A B`     : `B = P·A·Q` with unimodular `P`, `Q`;
  * `RowGetSpec`, `RowAxpySpec` : what `rowGet` (binary search) and `rowAxpy` (sorted merge) compute;
  * `afn`, `Shape`  : dense matrices `Array (Array Int)` as functions, of a given shape.
-/
namespace Yuiv.KhSnf
open Yuiv Yuiv.KhRef Matrix Yuiv.C03Uct

/-- value of a sparse row at column `c` (sum of the entries with that column; a well-formed row has at most one) -/
def rval (r : Row) (c : Nat) : Int := ((r.toList.filter (fun x => x.1 == c)).map (fun x => x.2)).sum

/-- well-formed sparse row of a matrix with `n` columns -/
def RowOK (n : Nat) (r : Row) : Prop :=
  r.toList.Pairwise (fun x y => x.1 < y.1) ∧ (∀ x ∈ r.toList, x.2 ≠ 0) ∧ (∀ x ∈ r.toList, x.1 < n)

/-- the matrix of an array of sparse rows as a function on `ℕ × ℕ` (zero outside) -/
def rowsFn (rows : Array Row) : Nat → Nat → Int := fun i c => rval rows[i]! c

/-- the `m × n` corner of a function on `ℕ × ℕ` -/
def box (m n : Nat) (F : Nat → Nat → Int) : Matrix (Fin m) (Fin n) ℤ := fun i j => F i.val j.val

/-- the integer matrix represented by `rows` (with `n` columns) -/
def matOf (n : Nat) (rows : Array Row) : Matrix (Fin rows.size) (Fin n) ℤ := box rows.size n (rowsFn rows)

/-- `B = P · A · Q` with unimodular `P`, `Q` -/
def Reach {m n : Nat} (A B : Matrix (Fin m) (Fin n) ℤ) : Prop :=
  ∃ (P : Matrix (Fin m) (Fin m) ℤ) (Q : Matrix (Fin n) (Fin n) ℤ), IsUnit P.det ∧ IsUnit Q.det ∧ P * A * Q = B

/-- `rowGet` (binary search) returns the value of a well-formed row -/
def RowGetSpec : Prop := ∀ (n : Nat) (r : Row) (j : Nat), RowOK n r → rowGet r j = rval r j

/-- `rowAxpy a k b = a + k·b` on well-formed rows, and the result is well-formed -/
def RowAxpySpec : Prop := ∀ (n : Nat) (a b : Row) (k : Int), RowOK n a → RowOK n b →
  RowOK n (rowAxpy a k b) ∧ ∀ c, rval (rowAxpy a k b) c = rval a c + k * rval b c

/-- entry of a dense matrix -/
def afn (a : Array (Array Int)) (i j : Nat) : Int := (a[i]!)[j]!

/-- `a` is an `m × n` dense matrix -/
def Shape (a : Array (Array Int)) (m n : Nat) : Prop := a.size = m ∧ ∀ i, i < m → (a[i]!).size = n

end Yuiv.KhSnf
