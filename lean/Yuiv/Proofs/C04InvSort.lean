import Batteries.Tactic.OpenPrivate
/-
C04Inv (helper, no property theorem here): `Array.qsort` returns a permutation of its input.
Core Lean has no lemmas about `Array.qsort`; its worker functions are private, hence `open private`.
-/
open private Array.qsort.sort from Init.Data.Array.QSort.Basic
open private Array.qpartition.loop from Init.Data.Array.QSort.Basic

namespace Yuiv.C04Inv


theorem vswap_perm {α n} (v : Vector α n) (i j : Nat) (hi : i < n) (hj : j < n) :
    (v.swap i j).toArray.Perm v.toArray := by
  rcases v with ⟨a, rfl⟩
  simpa using Array.swap_perm (xs := a) hi hj

theorem loop_perm {α n} (lt : α → α → Bool) (lo hi : Nat) (hhi : hi < n) (pivot : α) (as : Vector α n) (i k : Nat)
    (ilo : lo ≤ i) (ik : i ≤ k) (w : k ≤ hi) :
    (Array.qpartition.loop lt lo hi hhi pivot as i k ilo ik w).2.toArray.Perm as.toArray := by
  fun_induction Array.qpartition.loop lt lo hi hhi pivot as i k ilo ik w with
  | case1 as i k ilo ik w h hlt ih => exact ih.trans (vswap_perm _ _ _ (by omega) (by omega))
  | case2 as i k ilo ik w h hlt ih => exact ih
  | case3 as i k ilo ik w h => exact vswap_perm _ _ _ (by omega) (by omega)

theorem ite_swap_perm {α n} (c : Prop) [Decidable c] (v : Vector α n) (i j : Nat) (hi : i < n) (hj : j < n) :
    (if c then v.swap i j hi hj else v).toArray.Perm v.toArray := by
  split
  · exact vswap_perm _ _ _ hi hj
  · exact Array.Perm.refl _

theorem qpartition_perm {α n} (as : Vector α n) (lt : α → α → Bool) (lo hi : Nat)
    (w : lo ≤ hi) (hlo : lo < n) (hhi : hi < n) :
    (Array.qpartition as lt lo hi w hlo hhi).2.toArray.Perm as.toArray := by
  unfold Array.qpartition
  dsimp only
  refine (loop_perm ..).trans ?_
  refine (ite_swap_perm ..).trans ?_
  refine (ite_swap_perm ..).trans ?_
  exact ite_swap_perm ..

theorem sort_perm {α n} (lt : α → α → Bool) (as : Vector α n) (lo hi : Nat)
    (w : lo ≤ hi) (hlo : lo < n) (hhi : hi < n) :
    (Array.qsort.sort lt as lo hi w hlo hhi).toArray.Perm as.toArray := by
  fun_induction Array.qsort.sort lt as lo hi w hlo hhi with
  | case1 as lo hi w hlo hhi h1 mid hmid as' hx h2 =>
    have := qpartition_perm as lt lo hi w hlo hhi
    rw [hx] at this; exact this
  | case2 as lo hi w hlo hhi h1 mid hmid as' hx h2 ih3 ih2 ih1 =>
    have := qpartition_perm as lt lo hi w hlo hhi
    rw [hx] at this
    exact (ih1.trans ih2).trans this
  | case3 => exact Array.Perm.refl _

theorem qsort_perm {α} (as : Array α) (lt : α → α → Bool) : (as.qsort lt).Perm as := by
  unfold Array.qsort
  split
  · exact Array.Perm.refl _
  · exact sort_perm ..

end Yuiv.C04Inv
