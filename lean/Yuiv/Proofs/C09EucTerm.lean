import Yuiv.Proofs.C09EucDiag
import Mathlib.Data.DFinsupp.WellFounded
/-
C09 — termination and totality of the code model of `SnfCalc` for ANY lawful Euclidean operation record:
 * `eliminate_at`: the Euclidean size of the pivot strictly decreases whenever a further iteration is needed
   (fuel ≥ size(pivot) + 2);
 * `diag_normalize`'s `'outer` loop: the tuple `(size d_0, …, size d_{r-1})` strictly decreases in the
   lexicographic order with every pass that does not go through (a step at `i` leaves `d_0 … d_{i-1}` alone and
   makes `d_i` strictly smaller), and that order is well-founded;
 * composition with the fuel monotonicity lemmas of `Proofs/C09Term.lean` (which hold for any operations);
 * no assertion of `snf.rs` can fire.
-/
set_option linter.unusedSectionVars false
set_option linter.unusedSimpArgs false
set_option linter.unusedVariables false
namespace Yuiv.C09.Euc
open Yuiv Yuiv.C09

variable {α K : Type} [CommRing K] [IsDomain K] {e : EOps α} {φ : α → K} {m n : Nat}

section term
variable (L : LawfulEuc e φ)
include L

/-! ### `eliminate_at` terminates -/

/-- on an isolated pivot the `while` condition is false -/
theorem eliminateAt_clean (dbg : Bool) (i : Fin m) (jc : Fin n) (fuel : Nat) (s : St α m n)
    (hp : φ (s.t.get i jc) ≠ 0) (hrow : ∀ c, c ≠ jc → φ (s.t.get i c) = 0)
    (hcol : ∀ r, r ≠ i → φ (s.t.get r jc) = 0) :
    eliminateAt e dbg i jc (fuel + 1) s = .ok s := by
  rw [eliminateAt]
  have h1 := (rowNz_le_one_iff L s.t i jc hp).2 hrow
  have h2 := (colNz_le_one_iff L s.t i jc hp).2 hcol
  rw [if_neg]
  simp only [Bool.or_eq_true, decide_eq_true_eq, not_or, Nat.not_lt]
  exact ⟨h1, h2⟩

/-- **eliminateAt_fuel_ok** — with `fuel ≥ size(pivot) + 2` the `while` loop of `eliminate_at` never runs out of
fuel: an iteration either leaves an isolated pivot (the next test exits) or strictly decreases `size(pivot)` -/
theorem eliminateAt_fuel_ok (dbg : Bool) (i : Fin m) (jc : Fin n) : ∀ (fuel : Nat) (s : St α m n),
    φ (s.t.get i jc) ≠ 0 → φ (e.normUnit (s.t.get i jc)) = 1 → e.size (s.t.get i jc) + 2 ≤ fuel →
    eliminateAt e dbg i jc fuel s ≠ .err := by
  intro fuel
  induction fuel with
  | zero => intro s _ _ h; omega
  | succ fuel ih =>
    intro s hp hn hf h
    rw [eliminateAt] at h
    split at h
    · split at h
      · rename_i r1 h1
        obtain ⟨_, c2, cn, c3, c4⟩ := eliminateCol_post L (frameOK_true i jc) dbg s r1 h1 trivial hp hn
        split at h
        · rename_i r2 h2
          obtain ⟨_, d2, dn, d3, d4, d5⟩ := eliminateRow_post L (frameOK_true i jc) dbg r1.1 r2 h2 trivial c2 cn c4
          split at h
          · cases h
          · have hle1 : e.size (r1.1.t.get i jc) ≤ e.size (s.t.get i jc) := L.size_dvd _ _ hp c3
            rcases d5 with d5 | d5
            · obtain ⟨f', hf'⟩ : ∃ f', fuel = f' + 1 := ⟨fuel - 1, by omega⟩
              rw [hf', eliminateAt_clean L dbg i jc f' r2.1 d2 d4 d5] at h
              cases h
            · exact ih r2.1 d2 dn (by omega) h
        · cases h
        · rename_i h2; exact eliminateRow_ne_err _ _ _ _ _ h2
      · cases h
      · rename_i h1; exact eliminateCol_ne_err _ _ _ _ _ h1
    · cases h

/-! ### `diag_normalize` terminates -/

/-- the measure of the `'outer` loop: the sizes of the first `r` diagonal entries -/
def diagSizes (e : EOps α) (r : Nat) (T : Mat α m n) : Fin r → Nat := fun k => e.size (dg e.toROps T k.1)

omit L in
theorem lexWF (r : Nat) : WellFounded (Pi.Lex (ι := Fin r) (β := fun _ => Nat) (· < ·) (fun {_} a b => a < b)) :=
  Pi.Lex.wellFounded (· < ·) (fun _ => Nat.lt_wfRel.wf)

/-- **diagOuter_exists_fuel** — on a diagonal matrix whose first `r` diagonal entries are non-zero the `'outer`
loop of `diag_normalize` has a fuel bound: every pass that does not go through strictly decreases
`(size d_0, …, size d_{r-1})` lexicographically -/
theorem diagOuter_exists_fuel (dbg : Bool) (r : Nat) (s : St α m n) (hD : DiagZ φ s.t)
    (hnz : ∀ k, k < r → dgz e φ s.t k ≠ 0) : ∃ N, ∀ fuel, N ≤ fuel → diagOuter e dbg r fuel s ≠ .err := by
  suffices H : ∀ (f : Fin r → Nat) (s : St α m n), diagSizes e r s.t = f → DiagZ φ s.t →
      (∀ k, k < r → dgz e φ s.t k ≠ 0) → ∃ N, ∀ fuel, N ≤ fuel → diagOuter e dbg r fuel s ≠ .err from
    H _ s rfl hD hnz
  intro f
  induction f using (lexWF r).induction with
  | _ f ih =>
    intro s hf hD hnz
    cases h1 : diagPass e dbg r r 0 s with
    | err => exact absurd h1 (diagPass_ne_err_of dbg r (diagNormalizeStep_ne_err e dbg) _ _ _)
    | panic =>
      refine ⟨1, fun fuel hfu => ?_⟩
      obtain ⟨f', rfl⟩ : ∃ f', fuel = f' + 1 := ⟨fuel - 1, by omega⟩
      rw [diagOuter, h1]; simp
    | ok r1 =>
      rcases diagPass_spec dbg r r 0 s r1 h1 with rfl | ⟨i0, hm, hn, hir, hb, hstep⟩
      · refine ⟨1, fun fuel hfu => ?_⟩
        obtain ⟨f', rfl⟩ : ∃ f', fuel = f' + 1 := ⟨fuel - 1, by omega⟩
        rw [diagOuter, h1]; simp
      · obtain ⟨d1, d2, _, _, d5, d6, d7⟩ := diagStep_dg L dbg s i0 hm hn r1 hstep hD
        have hnz1 : ∀ k, k < r → dgz e φ r1.1.t k ≠ 0 := by
          intro k hk
          by_cases e1 : k = i0
          · rw [e1]; exact d5
          · by_cases e2 : k = i0 + 1
            · rw [e2]; exact d6
            · rw [d2 k e1 e2]; exact hnz k hk
        have hlex : Pi.Lex (ι := Fin r) (β := fun _ => Nat) (· < ·) (fun {_} a b => a < b)
            (diagSizes e r r1.1.t) f := by
          refine ⟨⟨i0, by omega⟩, ?_, ?_⟩
          · intro j hj
            rw [← hf]
            have hj' : j.1 < i0 := hj
            exact L.size_congr _ _ (d2 j.1 (by omega) (by omega)) (hnz j.1 j.2)
          · rw [← hf]; exact d7 hb
        obtain ⟨N1, hN1⟩ := ih _ hlex r1.1 rfl d1 hnz1
        refine ⟨N1 + 1, fun fuel hfu => ?_⟩
        obtain ⟨f', rfl⟩ : ∃ f', fuel = f' + 1 := ⟨fuel - 1, by omega⟩
        rw [diagOuter, h1]
        simp only [hb]
        exact hN1 f' (by omega)

/-! ### composition: a fuel bound exists for every input -/

/-- `eliminate_step`: the fuel only reaches `eliminate_at`, on a pivot that has been normalised and checked to be
non-zero -/
theorem eliminateStep_exists_fuel (dbg : Bool) (s : St α m n) (i : Fin m) (j : Fin n) (hi : i.1 < n) :
    ∃ N, ∀ fuel, N ≤ fuel → eliminateStep e dbg fuel s i j hi ≠ .err := by
  unfold eliminateStep
  split
  · exact ⟨0, fun _ _ => by simp⟩
  · rename_i ip _
    simp only
    split
    · rename_i s2 h2
      obtain ⟨hn2, _, _⟩ := normCol_post L _ s2 i ⟨i.1, hi⟩ h2
      split
      · exact ⟨0, fun _ _ => by simp⟩
      · rename_i hz
        have hpz : φ (s2.t.get i ⟨i.1, hi⟩) ≠ 0 := fun h0 => hz ((L.isZero_iff _).2 h0)
        refine ⟨e.size (s2.t.get i ⟨i.1, hi⟩) + 2, fun fuel hf => ?_⟩
        have := eliminateAt_fuel_ok L dbg i ⟨i.1, hi⟩ fuel s2 hpz hn2 hf
        split
        · simp
        · simp
        · rename_i h; exact absurd h this
    · exact ⟨0, fun _ _ => by simp⟩
    · rename_i h
      exfalso
      split at h
      · exact sMulCol_ne_err _ _ _ _ h
      · cases h

theorem eliminateAllStep_exists_fuel (dbg : Bool) (si : St α m n × Nat) (j : Fin n) :
    ∃ N, ∀ fuel, N ≤ fuel → eliminateAllStep e dbg fuel si j ≠ .err := by
  unfold eliminateAllStep
  split
  · rename_i hc
    obtain ⟨N, hN⟩ := eliminateStep_exists_fuel L dbg si.1 ⟨si.2, hc.1⟩ j (Nat.lt_of_le_of_lt hc.2 j.2)
    refine ⟨N, fun fuel hf => ?_⟩
    have := hN fuel hf
    split
    · simp
    · simp
    · simp
    · rename_i h; exact absurd h this
  · exact ⟨0, fun _ _ => by simp⟩

/-- **eliminateAll fuel bound** — `eliminate_all` is a `for` loop over the columns; for every start state there is
a fuel bound (the maximum of `size(pivot) + 2` over the pivots met) from which on it never reports exhaustion -/
theorem eliminateAll_exists_fuel (dbg : Bool) (s : St α m n) :
    ∃ N, ∀ fuel, N ≤ fuel → eliminateAll e dbg fuel s ≠ .err := by
  obtain ⟨N, hN⟩ := foldlM_exists_fuel (fun fuel => eliminateAllStep e dbg fuel)
    (fun fuel si j hh fuel' hle => eliminateAllStep_mono e dbg fuel si j hh fuel' hle)
    (fun si j => eliminateAllStep_exists_fuel L dbg si j) (List.finRange n) (s, 0)
  refine ⟨N, fun fuel hf => ?_⟩
  have := hN fuel hf
  unfold eliminateAll
  split
  · simp
  · simp
  · rename_i h; exact absurd h this

/-- **diagNormalize fuel bound** — on a diagonal matrix `diag_normalize` has a fuel bound -/
theorem diagNormalize_exists_fuel (dbg : Bool) (s : St α m n) (hD : DiagZ φ s.t) :
    ∃ N, ∀ fuel, N ≤ fuel → diagNormalize e dbg fuel s ≠ .err := by
  obtain ⟨_, z2, _⟩ := firstZeroDiag_spec L s.t
  obtain ⟨N, hN⟩ := diagOuter_exists_fuel L dbg _ s hD z2
  refine ⟨N, fun fuel hf => ?_⟩
  have := hN fuel hf
  unfold diagNormalize
  split
  · simp
  · split
    · simp
    · split
      · exact foldlM_ne_err _ (normalizeStep_ne_err e) _ _
      · simp
      · rename_i h; exact absurd h this

/-- **snf_terminates** — for every matrix (and every preprocessing that itself does not report an error) there is
a fuel bound from which on the code model of `SnfCalc::process` never reports fuel exhaustion -/
theorem snfCalc_exists_fuel (dbg : Bool) (pre : St α m n → Res (St α m n)) (A : Mat α m n)
    (hpre : pre (St.init e.toROps A) ≠ .err) :
    ∃ N, ∀ fuel, N ≤ fuel → snfCalc e dbg pre fuel A ≠ .err := by
  unfold snfCalc
  split
  · exact ⟨0, fun _ _ => by simp⟩
  · split
    · rename_i s1 h1
      obtain ⟨N1, hN1⟩ := eliminateAll_exists_fuel L dbg s1
      have h1' := hN1 N1 (Nat.le_refl _)
      cases h2 : eliminateAll e dbg N1 s1 with
      | ok s2 =>
        obtain ⟨hD, _⟩ := eliminateAll_post L dbg N1 s1 s2 h2
        obtain ⟨N2, hN2⟩ := diagNormalize_exists_fuel L dbg s2 hD
        refine ⟨max N1 N2, fun fuel hf => ?_⟩
        rw [eliminateAll_mono e dbg N1 s1 h1' fuel (by omega), h2]
        exact hN2 fuel (by omega)
      | panic =>
        refine ⟨N1, fun fuel hf => ?_⟩
        rw [eliminateAll_mono e dbg N1 s1 h1' fuel hf, h2]
        simp
      | err => exact absurd h2 h1'
    · exact ⟨0, fun _ _ => by simp⟩
    · rename_i h; exact absurd h hpre

end term

end Yuiv.C09.Euc
