import Yuiv.Proofs.C05EngineDD
/-
C05 (engine) — delooping of the MODEL preserves `d ∘ d = 0` when the edge labels live in a ring, `cap_off` on the
target / source side is multiplication by a cap / cup element, and the copies decompose the identity of the delooped
vertex (`Σ cup·cap = 1`, statement (2) of `Props/C05Deloop.deloop_iso`).  Helper lemmas: the entries of the
complex after `rename_vertex_key`, `duplicate_vertex`, `deloop_with`, and after the whole `deloop`.
-/
namespace Yuiv.C05.Engine
open Yuiv Yuiv.C05 Yuiv.C05.Tng

/-! ### association lists under a key map -/

theorem lookup_map_key {K V : Type} [BEq K] [LawfulBEq K] (g : K → K) (l : List (K × V)) (q : K)
    (hinj : ∀ p ∈ l.map (·.1), g p = g q → p = q) :
    (l.map (fun e => (g e.1, e.2))).lookup (g q) = l.lookup q := by
  induction l with
  | nil => rfl
  | cons e l ih =>
    obtain ⟨p, v⟩ := e
    have ih' := ih (fun p' hp' => hinj p' (by simp only [List.map_cons, List.mem_cons]; exact .inr hp'))
    by_cases hq : q = p
    · subst hq; simp
    · have h1 : (q == p) = false := by simpa using hq
      have h2 : (g q == g p) = false := by
        simp only [beq_eq_false_iff_ne, ne_eq]
        intro e
        exact hq (hinj p (by simp) e.symm).symm
      simp only [List.map_cons, List.lookup_cons, h1, h2]
      exact ih'

variable {E : Type}

/-- inverse of the key substitution of `rename_vertex_key` -/
def backFn (kOld kNew x : TKey) : TKey := if x = kNew then kOld else x

theorem rename_back (kOld kNew x : TKey) (hx : x ≠ kOld) : renameFn kOld kNew (backFn kOld kNew x) = x := by
  unfold renameFn backFn
  by_cases h : x = kNew
  · simp [h]
  · simp [h, hx]

theorem renameFn_ne_old (kOld kNew x : TKey) (hne : kOld ≠ kNew) : renameFn kOld kNew x ≠ kOld := by
  unfold renameFn
  split
  · exact fun h => hne h.symm
  · assumption

theorem renameFn_inj_off_new (kOld kNew x y : TKey) (hx : x ≠ kNew) (hy : y ≠ kNew)
    (h : renameFn kOld kNew x = renameFn kOld kNew y) : x = y := by
  unfold renameFn at h
  by_cases h1 : x = kOld <;> by_cases h2 : y = kOld <;> simp [h1, h2] at h
  · rw [h1, h2]
  · exact absurd h.symm hy
  · exact absurd h hx
  · exact h

/-- edges after `rename_vertex_key(k, kN)` -/
theorem renameKey_edge? (ops : EdgeOps E) (cx cx1 : Cx E) (k kN : TKey) (hwf : WF ops cx)
    (h : cx.renameKey k kN = .ok cx1) (a b : TKey) :
    cx1.edge? a b = if a = k ∨ b = k then none else cx.edge? (backFn k kN a) (backFn k kN b) := by
  obtain ⟨hne, _, hnew, rfl⟩ := renameKey_ok cx cx1 k kN h
  have hends : ∀ p ∈ cx.edges.map (·.1), p.1 ≠ kN ∧ p.2 ≠ kN := by
    intro p hp
    obtain ⟨e, he, rfl⟩ := List.mem_map.1 hp
    obtain ⟨h1, h2⟩ := hwf.ends e he
    exact ⟨fun e' => hnew (e' ▸ h1), fun e' => hnew (e' ▸ h2)⟩
  unfold Cx.edge?
  simp only
  have hmap : cx.edges.map (fun e => ((renameFn k kN e.1.1, renameFn k kN e.1.2), e.2)) =
      cx.edges.map (fun e => ((fun (p : TKey × TKey) => (renameFn k kN p.1, renameFn k kN p.2)) e.1, e.2)) := rfl
  by_cases hk : a = k ∨ b = k
  · rw [if_pos hk]
    apply lookup_none_of_not_mem
    intro hm
    simp only [List.map_map, List.mem_map, Function.comp] at hm
    obtain ⟨e, _, he⟩ := hm
    rcases hk with hk | hk
    · exact renameFn_ne_old k kN e.1.1 hne ((congrArg Prod.fst he).trans hk)
    · exact renameFn_ne_old k kN e.1.2 hne ((congrArg Prod.snd he).trans hk)
  · rw [if_neg hk]
    have ha : a ≠ k := fun e => hk (.inl e)
    have hb : b ≠ k := fun e => hk (.inr e)
    have hq : (a, b) = (fun (p : TKey × TKey) => (renameFn k kN p.1, renameFn k kN p.2)) (backFn k kN a, backFn k kN b) := by
      simp only [rename_back k kN a ha, rename_back k kN b hb]
    rw [hmap, hq]
    refine lookup_map_key (fun (p : TKey × TKey) => (renameFn k kN p.1, renameFn k kN p.2)) cx.edges
      (backFn k kN a, backFn k kN b) ?_
    intro p hp hpq
    obtain ⟨p1, p2⟩ := hends p hp
    have b1 : backFn k kN a ≠ kN := by unfold backFn; split <;> [exact hne; assumption]
    have b2 : backFn k kN b ≠ kN := by unfold backFn; split <;> [exact hne; assumption]
    exact Prod.ext (renameFn_inj_off_new k kN _ _ p1 b1 (congrArg Prod.fst hpq))
      (renameFn_inj_off_new k kN _ _ p2 b2 (congrArg Prod.snd hpq))

theorem lookup_ins (es : List ((TKey × TKey) × E)) (k kN a : TKey) :
    (es.filterMap (fun e => if e.1.2 = k then some ((e.1.1, kN), e.2) else none)).lookup (a, kN) = es.lookup (a, k) := by
  induction es with
  | nil => rfl
  | cons e es ih =>
    obtain ⟨⟨x, y⟩, v⟩ := e
    by_cases hy : y = k
    · subst hy
      by_cases hx : a = x
      · subst hx; simp [List.filterMap_cons]
      · have h1 : ((a, kN) == (x, kN)) = false := by simp [hx]
        have h2 : ((a, y) == (x, y)) = false := by simp [hx]
        simp only [List.filterMap_cons, if_true, List.lookup_cons, h1, h2]
        exact ih
    · have h2 : ((a, k) == (x, y)) = false := by
        simp only [beq_eq_false_iff_ne, ne_eq, Prod.mk.injEq, not_and]
        exact fun _ e => hy e.symm
      simp only [List.filterMap_cons, hy, if_false, List.lookup_cons, h2]
      exact ih

theorem lookup_outs (es : List ((TKey × TKey) × E)) (k kN b : TKey) :
    (es.filterMap (fun e => if e.1.1 = k then some ((kN, e.1.2), e.2) else none)).lookup (kN, b) = es.lookup (k, b) := by
  induction es with
  | nil => rfl
  | cons e es ih =>
    obtain ⟨⟨x, y⟩, v⟩ := e
    by_cases hx : x = k
    · subst hx
      by_cases hy : b = y
      · subst hy; simp [List.filterMap_cons]
      · have h1 : ((kN, b) == (kN, y)) = false := by simp [hy]
        have h2 : ((x, b) == (x, y)) = false := by simp [hy]
        simp only [List.filterMap_cons, if_true, List.lookup_cons, h1, h2]
        exact ih
    · have h2 : ((k, b) == (x, y)) = false := by
        simp only [beq_eq_false_iff_ne, ne_eq, Prod.mk.injEq, not_and]
        exact fun e _ => absurd e.symm hx
      simp only [List.filterMap_cons, hx, if_false, List.lookup_cons, h2]
      exact ih

/-- edges after `duplicate_vertex(k, kN)` -/
theorem duplicateKey_edge? (ops : EdgeOps E) (cx cx2 : Cx E) (k kN : TKey) (hwf : WF ops cx)
    (h : cx.duplicateKey k kN = .ok cx2) (a b : TKey) :
    cx2.edge? a b = if b = kN then cx.edge? a k else if a = kN then cx.edge? k b else cx.edge? a b := by
  obtain ⟨_, t, _, hnew, rfl⟩ := duplicateKey_ok cx cx2 k kN h
  have hends : ∀ e ∈ cx.edges, e.1.1 ≠ kN ∧ e.1.2 ≠ kN := by
    intro e he
    obtain ⟨h1, h2⟩ := hwf.ends e he
    exact ⟨fun e' => hnew (e' ▸ h1), fun e' => hnew (e' ▸ h2)⟩
  have hE : ∀ x y, (x = kN ∨ y = kN) → cx.edges.lookup (x, y) = none := by
    intro x y hxy
    apply lookup_none_of_not_mem
    intro hm
    obtain ⟨e, he, hk⟩ := List.mem_map.1 hm
    obtain ⟨e1, e2⟩ := hends e he
    rcases hxy with hx | hy
    · exact e1 (by rw [hx] at hk; exact congrArg Prod.fst hk)
    · exact e2 (by rw [hy] at hk; exact congrArg Prod.snd hk)
  have hins : ∀ x y, y ≠ kN →
      (cx.edges.filterMap (fun e => if e.1.2 = k then some ((e.1.1, kN), e.2) else none)).lookup (x, y) = none := by
    intro x y hy
    apply lookup_none_of_not_mem
    intro hm
    obtain ⟨e, he, hk⟩ := List.mem_map.1 hm
    obtain ⟨e0, _, hf⟩ := List.mem_filterMap.1 he
    split at hf
    · cases hf; exact hy (congrArg Prod.snd hk).symm
    · cases hf
  have houts : ∀ x y, x ≠ kN →
      (cx.edges.filterMap (fun e => if e.1.1 = k then some ((kN, e.1.2), e.2) else none)).lookup (x, y) = none := by
    intro x y hx
    apply lookup_none_of_not_mem
    intro hm
    obtain ⟨e, he, hk⟩ := List.mem_map.1 hm
    obtain ⟨e0, _, hf⟩ := List.mem_filterMap.1 he
    split at hf
    · cases hf; exact hx (congrArg Prod.fst hk).symm
    · cases hf
  unfold Cx.edge?
  simp only [List.lookup_append]
  by_cases hb : b = kN
  · subst hb
    rw [if_pos rfl, hE a b (.inr rfl), lookup_ins]
    rcases hl : cx.edges.lookup (a, k) with _ | f
    · by_cases ha : a = b
      · subst ha; simp [lookup_outs, hE k a (.inr rfl)]
      · simp [houts a b ha]
    · simp
  · rw [if_neg hb, hins a b hb]
    by_cases ha : a = kN
    · subst ha
      rw [if_pos rfl, hE a b (.inl rfl), lookup_outs]
      simp
    · rw [if_neg ha, houts a b ha]
      simp

/-! ### entries -/

variable [Ring E]

theorem ent_zero_of_not_key (ops : EdgeOps E) (cx : Cx E) (hwf : WF ops cx) (a b : TKey)
    (h : a ∉ cx.verts.map (·.1) ∨ b ∉ cx.verts.map (·.1)) : ent cx a b = 0 := by
  unfold ent
  rcases he : cx.edge? a b with _ | f
  · rfl
  · obtain ⟨h1, h2⟩ := hwf.ends _ (hwf.edge_mem a b f he)
    rcases h with h | h
    · exact absurd h1 h
    · exact absurd h2 h

theorem ent_self (ops : EdgeOps E) (cx : Cx E) (hwf : WF ops cx) (x : TKey) : ent cx x x = 0 := by
  unfold ent
  rcases hx : cx.edge? x x with _ | f
  · rfl
  · have := hwf.deg _ (hwf.edge_mem x x f hx)
    simp only at this
    omega

/-- `cap_off` on the target side is left multiplication by a cap, on the source side right multiplication by a cup
(both for the circle `c` that is delooped); labels that are dropped as zero are zero -/
structure RingDeloopOps (ops : EdgeOps E) (c : Path) (cap cup : Dot → E) : Prop where
  tgt : ∀ d f, ops.capOff .tgt c d f = .ok (cap d * f)
  src : ∀ d f, ops.capOff .src c d f = .ok (f * cup d)
  zero : ∀ x, ops.isZero x = true → x = 0

/-- entries after `deloop_with(k, r, birth, death)` -/
theorem deloopWith_ent (ops : EdgeOps E) (cx cx' : Cx E) (k : TKey) (r : Nat) (birth death : Dot) (t : Tng) (c : Path)
    (cap cup : Dot → E) (hwf : WF ops cx) (ht : cx.tng? k = some t) (hc : t[r]? = some c)
    (hops : RingDeloopOps ops c cap cup) (h : cx.deloopWith ops k r birth death = .ok cx') (a b : TKey) :
    ent cx' a b = if b = k then cap death * ent cx a b else if a = k then ent cx a b * cup birth else ent cx a b := by
  obtain ⟨t0, circ, t', ht0, hrm, _, hall⟩ := deloopWith_edges ops cx cx' k r birth death hwf.edges h
  rw [ht] at ht0
  cases ht0
  have hcirc : circ = c := by
    unfold Tng.removeAt at hrm
    rw [hc] at hrm
    simp only [Res.ok.injEq, Prod.mk.injEq] at hrm
    exact hrm.1.symm
  subst hcirc
  obtain ⟨hnone, hsome⟩ := hall a b
  unfold ent
  rcases he : cx.edge? a b with _ | f
  · rw [hnone he]
    simp
  · obtain ⟨h1, h2, h3⟩ := hsome f he
    by_cases hb : b = k
    · obtain ⟨g, hg, hr⟩ := h1 hb
      rw [hops.tgt] at hg
      cases hg
      rw [hr, if_pos hb]
      by_cases hz : ops.isZero (cap death * f) = true
      · rw [if_pos hz]; exact (hops.zero _ hz).symm
      · rw [if_neg hz]; rfl
    · by_cases ha : a = k
      · obtain ⟨g, hg, hr⟩ := h2 hb ha
        rw [hops.src] at hg
        cases hg
        rw [hr, if_neg hb, if_pos ha]
        by_cases hz : ops.isZero (f * cup birth) = true
        · rw [if_pos hz]; exact (hops.zero _ hz).symm
        · rw [if_neg hz]; rfl
      · rw [h3 hb ha, if_neg hb, if_neg ha]

/-! ### tangles of the copies -/

theorem lookup_map_replace {K V : Type} [DecidableEq K] (l : List (K × V)) (k q : K) (v' : V) (hq : q ≠ k) :
    (l.map (fun v => if v.1 = k then (v.1, v') else v)).lookup q = l.lookup q := by
  induction l with
  | nil => rfl
  | cons e l ih =>
    obtain ⟨x, v⟩ := e
    by_cases hx : x = k
    · subst hx
      have h1 : (q == x) = false := by simpa using hq
      simp [List.lookup_cons, h1, ih]
    · by_cases hqx : q = x
      · simp [List.lookup_cons, hx, hqx]
      · have h1 : (q == x) = false := by simpa using hqx
        simp [List.lookup_cons, hx, h1, ih]

omit [Ring E] in
theorem renameKey_tng? (cx cx1 : Cx E) (k kN : TKey) (h : cx.renameKey k kN = .ok cx1) :
    cx1.tng? kN = cx.tng? k := by
  obtain ⟨_, _, hnew, rfl⟩ := renameKey_ok cx cx1 k kN h
  unfold Cx.tng?
  have key := lookup_map_key (renameFn k kN) cx.verts k (by
    intro p hp hpk
    unfold renameFn at hpk
    by_cases h1 : p = k
    · exact h1
    · simp [h1] at hpk
      exact absurd (hpk ▸ hp) hnew)
  have e : renameFn k kN k = kN := by simp [renameFn]
  rw [e] at key
  exact key

omit [Ring E] in
theorem duplicateKey_tng? (cx cx2 : Cx E) (k kN : TKey) (t : Tng) (ht : cx.tng? k = some t)
    (h : cx.duplicateKey k kN = .ok cx2) : cx2.tng? k = some t ∧ cx2.tng? kN = some t := by
  obtain ⟨_, t0, ht0, hnew, rfl⟩ := duplicateKey_ok cx cx2 k kN h
  rw [ht] at ht0
  cases ht0
  unfold Cx.tng? at ht ⊢
  simp only [List.lookup_append, ht]
  refine ⟨by simp, ?_⟩
  rw [lookup_none_of_not_mem cx.verts kN hnew]
  simp

omit [Ring E] in
theorem deloopWith_tng? (ops : EdgeOps E) (cx cx' : Cx E) (k q : TKey) (r : Nat) (birth death : Dot) (hq : q ≠ k)
    (h : cx.deloopWith ops k r birth death = .ok cx') : cx'.tng? q = cx.tng? q := by
  obtain ⟨_, _, t', _, _, _, _, rfl⟩ := deloopWith_ok ops cx cx' k r birth death h
  exact lookup_map_replace cx.verts k q t' hq

/-! ### the entries after `deloop` -/

/-- the vertex of the old complex a new vertex stands for (`u`: the circle does not carry the base point) -/
def dlPi (k : TKey) (u : Bool) (x : TKey) : TKey := if x = k.push .X ∨ (u = true ∧ x = k.push .I) then k else x
/-- the cap glued on edges into a new vertex -/
def dlL (cap : Dot → E) (k : TKey) (u : Bool) (x : TKey) : E :=
  if x = k.push .X then cap .none else if u = true ∧ x = k.push .I then cap .Y else 1
/-- the cup glued under edges out of a new vertex -/
def dlR (cup : Dot → E) (k : TKey) (u : Bool) (x : TKey) : E :=
  if x = k.push .X then cup .X else if u = true ∧ x = k.push .I then cup .none else 1

theorem push_ne (k : TKey) (g : Deloop.AlgGen) : k.push g ≠ k := by
  intro h
  have := congrArg (fun x => x.label.length) h
  simp [TKey.push] at this

theorem pushX_ne_pushI (k : TKey) : k.push .X ≠ k.push .I := by
  intro h
  have := congrArg (fun x => x.label) h
  simp [TKey.push] at this

/-- **every entry after `deloop(k, r)`**: `L(b) · d(π a → π b) · R(a)`, and nothing at the old key -/
theorem deloop_ent (ops : EdgeOps E) (cx cx' : Cx E) (k : TKey) (r : Nat) (upd : List TKey) (t : Tng) (c : Path)
    (cap cup : Dot → E) (hwf : WF ops cx) (ht : cx.tng? k = some t) (hc : t[r]? = some c)
    (hops : RingDeloopOps ops c cap cup) (h : cx.deloop ops k r = .ok (upd, cx')) (a b : TKey) :
    ent cx' a b =
      if a = k ∨ b = k then 0
      else dlL cap k (!cx.containsBase c) b * ent cx (dlPi k (!cx.containsBase c) a) (dlPi k (!cx.containsBase c) b)
            * dlR cup k (!cx.containsBase c) a := by
  obtain ⟨t0, c0, ht0, hc0, _, _, c1, h1, hb, hu⟩ := deloop_factors ops cx cx' k r upd h
  rw [ht] at ht0; cases ht0
  rw [hc] at hc0; cases hc0
  have hkX := push_ne k .X
  have hkI := push_ne k .I
  have hXI := pushX_ne_pushI k
  have w1 := wf_renameKey ops cx c1 _ _ hwf (weight_push k .X) h1
  obtain ⟨_, hkS, hXS, _⟩ := renameKey_ok cx c1 k (k.push .X) h1
  have hself : ent cx k k = 0 := ent_self ops cx hwf k
  have hX1 : ∀ y, ent cx (k.push .X) y = 0 := fun y => ent_zero_of_not_key ops cx hwf _ _ (.inl hXS)
  have hX2 : ∀ y, ent cx y (k.push .X) = 0 := fun y => ent_zero_of_not_key ops cx hwf _ _ (.inr hXS)
  have e1 : ∀ a b, ent c1 a b = if a = k ∨ b = k then 0 else ent cx (backFn k (k.push .X) a) (backFn k (k.push .X) b) := by
    intro a b
    unfold ent
    rw [renameKey_edge? ops cx c1 k _ hwf h1 a b]
    split <;> rfl
  have t1 : c1.tng? (k.push .X) = some t := by rw [renameKey_tng? cx c1 k _ h1, ht]
  by_cases hbase : cx.containsBase c = true
  · -- based: only the X copy
    have h3 := hb hbase
    have e3 := deloopWith_ent ops c1 cx' (k.push .X) r _ _ t c cap cup w1 t1 hc hops h3 a b
    rw [e3, e1 a b]
    simp only [hbase, Bool.not_true, dlPi, dlL, dlR, Bool.false_eq_true, false_and, or_false, if_false, Deloop.copyX, dotOf, backFn]
    by_cases ha : a = k.push .X <;> by_cases hb' : b = k.push .X <;> by_cases ha' : a = k <;> by_cases hb'' : b = k <;>
      simp_all
  · -- unbased: the copies X and 1
    have hbase' : cx.containsBase c = false := by simpa using hbase
    obtain ⟨c2, c3, h2, h3, h4⟩ := hu hbase'
    have w2 := wf_duplicateKey ops c1 c2 _ _ w1 (by rfl) h2
    have w3 := wf_deloopWith ops c2 c3 _ _ _ _ w2 h3
    obtain ⟨_, _, _, hIS1, _⟩ := duplicateKey_ok c1 c2 _ _ h2
    have hIS : k.push .I ∉ cx.verts.map (·.1) := by
      intro hm
      apply hIS1
      rw [renameKey_keys cx c1 k _ h1]
      refine List.mem_map.2 ⟨k.push .I, hm, ?_⟩
      simp [renameFn, hkI]
    have hI1 : ∀ y, ent cx (k.push .I) y = 0 := fun y => ent_zero_of_not_key ops cx hwf _ _ (.inl hIS)
    have hI2 : ∀ y, ent cx y (k.push .I) = 0 := fun y => ent_zero_of_not_key ops cx hwf _ _ (.inr hIS)
    obtain ⟨t2X, t2I⟩ := duplicateKey_tng? c1 c2 _ _ t t1 h2
    have t3I : c3.tng? (k.push .I) = some t := by
      rw [deloopWith_tng? ops c2 c3 _ _ r _ _ (Ne.symm hXI) h3, t2I]
    have e2 : ∀ a b, ent c2 a b = if b = k.push .I then ent c1 a (k.push .X) else if a = k.push .I then ent c1 (k.push .X) b else ent c1 a b := by
      intro a b
      unfold ent
      rw [duplicateKey_edge? ops c1 c2 _ _ w1 h2 a b]
      split
      · rfl
      · split <;> rfl
    have e3 := deloopWith_ent ops c2 c3 (k.push .X) r _ _ t c cap cup w2 t2X hc hops h3
    have e4 := deloopWith_ent ops c3 cx' (k.push .I) r _ _ t c cap cup w3 t3I hc hops h4 a b
    rw [e4]
    simp only [e3, e2, e1]
    simp only [hbase', Bool.not_false, dlPi, dlL, dlR, true_and, Deloop.copyX, Deloop.copyI, dotOf, backFn]
    have ca : a = k ∨ a = k.push .X ∨ a = k.push .I ∨ (a ≠ k ∧ a ≠ k.push .X ∧ a ≠ k.push .I) := by
      by_cases x1 : a = k
      · exact .inl x1
      · by_cases x2 : a = k.push .X
        · exact .inr (.inl x2)
        · by_cases x3 : a = k.push .I
          · exact .inr (.inr (.inl x3))
          · exact .inr (.inr (.inr ⟨x1, x2, x3⟩))
    have cb : b = k ∨ b = k.push .X ∨ b = k.push .I ∨ (b ≠ k ∧ b ≠ k.push .X ∧ b ≠ k.push .I) := by
      by_cases x1 : b = k
      · exact .inl x1
      · by_cases x2 : b = k.push .X
        · exact .inr (.inl x2)
        · by_cases x3 : b = k.push .I
          · exact .inr (.inr (.inl x3))
          · exact .inr (.inr (.inr ⟨x1, x2, x3⟩))
    rcases ca with ha | ha | ha | ⟨ha1, ha2, ha3⟩ <;> rcases cb with hb' | hb' | hb' | ⟨hb1, hb2, hb3⟩ <;>
      first
        | (subst ha; subst hb'; simp [hkX, hkI, hXI, hXI.symm, hkX.symm, hkI.symm, hself, hX1, hX2, hI1, hI2])
        | (subst ha; simp [hkX, hkI, hXI, hXI.symm, hkX.symm, hkI.symm, hself, hX1, hX2, hI1, hI2, hb1, hb2, hb3])
        | (subst hb'; simp [hkX, hkI, hXI, hXI.symm, hkX.symm, hkI.symm, hself, hX1, hX2, hI1, hI2, ha1, ha2, ha3])
        | simp [hkX, hkI, hXI, hXI.symm, hkX.symm, hkI.symm, hself, hX1, hX2, hI1, hI2, ha1, ha2, ha3, hb1, hb2, hb3]

omit [Ring E] in
/-- the vertex set after `deloop` -/
theorem deloop_vertex_set (ops : EdgeOps E) (cx cx' : Cx E) (k : TKey) (r : Nat) (upd : List TKey) (t : Tng) (c : Path)
    (hwf : WF ops cx) (ht : cx.tng? k = some t) (hc : t[r]? = some c) (h : cx.deloop ops k r = .ok (upd, cx')) :
    (cx'.verts.map (·.1)).toFinset =
      if cx.containsBase c = true then insert (k.push .X) ((cx.verts.map (·.1)).toFinset.erase k)
      else insert (k.push .I) (insert (k.push .X) ((cx.verts.map (·.1)).toFinset.erase k)) := by
  have hkeys := deloop_keys ops cx cx' k r upd h
  obtain ⟨t0, c0, ht0, hc0, _, hupd, c1, h1, _, _⟩ := deloop_factors ops cx cx' k r upd h
  rw [ht] at ht0; cases ht0
  rw [hc] at hc0; cases hc0
  obtain ⟨_, hkS, hXS, _⟩ := renameKey_ok cx c1 k (k.push .X) h1
  have hmapmem : ∀ x, (∃ y ∈ cx.verts.map (·.1), renameFn k (k.push .X) y = x) ↔
      (x = k.push .X ∨ (x ∈ cx.verts.map (·.1) ∧ x ≠ k)) := by
    intro x
    constructor
    · rintro ⟨y, hy, rfl⟩
      unfold renameFn
      by_cases hyk : y = k
      · simp [hyk]
      · simp [hyk, hy]
    · rintro (rfl | ⟨hx, hxk⟩)
      · exact ⟨k, hkS, by simp [renameFn]⟩
      · exact ⟨x, hx, by simp [renameFn, hxk]⟩
  rw [hkeys, hupd]
  clear hkeys hupd
  generalize cx.verts.map (·.1) = L at *
  ext x
  by_cases hbase : cx.containsBase c = true
  · simp only [hbase, if_true, Deloop.deloopCopies, List.map_cons, List.map_nil, List.drop_one, List.tail_cons,
      List.append_nil, List.mem_toFinset, List.mem_map, Finset.mem_insert, Finset.mem_erase]
    rw [hmapmem x]
    tauto
  · have hbase' : cx.containsBase c = false := by simpa using hbase
    simp only [hbase', Bool.false_eq_true, if_false, Deloop.deloopCopies, List.map_cons, List.map_nil, List.drop_one,
      List.tail_cons, List.mem_toFinset, List.mem_append, List.mem_map, List.mem_singleton, Finset.mem_insert,
      Finset.mem_erase, Deloop.copyI]
    rw [hmapmem x]
    tauto

/-- **delooping preserves `d ∘ d = 0`** -/
theorem deloop_dd (ops : EdgeOps E) (cx cx' : Cx E) (k : TKey) (r : Nat) (upd : List TKey) (t : Tng) (c : Path)
    (cap cup : Dot → E) (hwf : WF ops cx) (ht : cx.tng? k = some t) (hc : t[r]? = some c)
    (hops : RingDeloopOps ops c cap cup)
    (hiso : if cx.containsBase c = true then cup .X * cap .none = 1
            else cup .X * cap .none + cup .none * cap .Y = 1)
    (hdd : DD cx) (h : cx.deloop ops k r = .ok (upd, cx')) : DD cx' := by
  have hent := deloop_ent ops cx cx' k r upd t c cap cup hwf ht hc hops h
  have hS := deloop_vertex_set ops cx cx' k r upd t c hwf ht hc h
  obtain ⟨t0, c0, ht0, hc0, _, _, c1, h1, _, hu⟩ := deloop_factors ops cx cx' k r upd h
  rw [ht] at ht0; cases ht0
  rw [hc] at hc0; cases hc0
  obtain ⟨_, hkS, hXS, _⟩ := renameKey_ok cx c1 k (k.push .X) h1
  have hkX := push_ne k .X
  have hkI := push_ne k .I
  have hXI := pushX_ne_pushI k
  intro j m
  unfold ddAt
  by_cases hjm : j = k ∨ m = k
  · apply Finset.sum_eq_zero
    intro l _
    rcases hjm with hj | hm
    · rw [hent j l, if_pos (.inl hj), mul_zero]
    · rw [hent l m, if_pos (.inr hm), zero_mul]
  have hj : j ≠ k := fun e => hjm (.inl e)
  have hm : m ≠ k := fun e => hjm (.inr e)
  set u : Bool := !cx.containsBase c with hu_def
  -- every vertex of the new complex differs from the old key
  have hlk : ∀ l ∈ (cx'.verts.map (·.1)).toFinset, l ≠ k := by
    intro l hl
    rw [hS] at hl
    split at hl
    · simp only [Finset.mem_insert, Finset.mem_erase] at hl
      rcases hl with rfl | ⟨h', _⟩
      · exact hkX
      · exact h'
    · simp only [Finset.mem_insert, Finset.mem_erase] at hl
      rcases hl with rfl | rfl | ⟨h', _⟩
      · exact hkI
      · exact hkX
      · exact h'
  have hterm : ∀ l ∈ (cx'.verts.map (·.1)).toFinset, ent cx' l m * ent cx' j l =
      dlL cap k u m * (ent cx (dlPi k u l) (dlPi k u m) * (dlR cup k u l * dlL cap k u l) * ent cx (dlPi k u j) (dlPi k u l))
        * dlR cup k u j := by
    intro l hl
    have hl' := hlk l hl
    rw [hent l m, hent j l]
    simp only [hl', hj, hm, or_self, if_false]
    noncomm_ring
  rw [Finset.sum_congr rfl hterm, ← Finset.sum_mul, ← Finset.mul_sum]
  -- the middle sum is the old `d ∘ d`
  have hmid : ∑ l ∈ (cx'.verts.map (·.1)).toFinset,
      ent cx (dlPi k u l) (dlPi k u m) * (dlR cup k u l * dlL cap k u l) * ent cx (dlPi k u j) (dlPi k u l)
      = ddAt cx (dlPi k u j) (dlPi k u m) := by
    unfold ddAt
    have hSk : k ∈ (cx.verts.map (·.1)).toFinset := List.mem_toFinset.2 hkS
    rw [← Finset.add_sum_erase _ _ hSk]
    have hX_not : k.push .X ∉ (cx.verts.map (·.1)).toFinset.erase k := by
      intro hm'; exact hXS (List.mem_toFinset.1 (Finset.mem_of_mem_erase hm'))
    -- on the old vertices other than `k` nothing changes
    have hrest : ∀ l ∈ (cx.verts.map (·.1)).toFinset.erase k,
        ent cx (dlPi k u l) (dlPi k u m) * (dlR cup k u l * dlL cap k u l) * ent cx (dlPi k u j) (dlPi k u l)
          = ent cx l (dlPi k u m) * ent cx (dlPi k u j) l := by
      intro l hl
      have hlS : l ∈ cx.verts.map (·.1) := List.mem_toFinset.1 (Finset.mem_of_mem_erase hl)
      have hlX : l ≠ k.push .X := fun e => hXS (e ▸ hlS)
      by_cases hlI : u = true ∧ l = k.push .I
      · -- `k·1` is not an old vertex in the unbased case
        exfalso
        have hbase' : cx.containsBase c = false := by simpa [hu_def] using hlI.1
        obtain ⟨c2, _, h2, _, _⟩ := hu hbase'
        obtain ⟨_, _, _, hIS1, _⟩ := duplicateKey_ok c1 c2 _ _ h2
        apply hIS1
        rw [renameKey_keys cx c1 k _ h1]
        refine List.mem_map.2 ⟨k.push .I, hlI.2 ▸ hlS, ?_⟩
        simp [renameFn, hkI]
      · simp [dlPi, dlL, dlR, hlX, hlI]
    rw [hS]
    by_cases hbase : cx.containsBase c = true
    · have hu' : u = false := by simp [hu_def, hbase]
      rw [hbase] at hiso
      simp only [if_true] at hiso
      rw [if_pos hbase, Finset.sum_insert hX_not, Finset.sum_congr rfl hrest]
      simp only [dlPi, dlL, dlR, hu', Bool.false_eq_true, false_and, or_false, if_true, if_false]
      rw [hiso]
      simp
    · have hbase' : cx.containsBase c = false := by simpa using hbase
      have hu' : u = true := by simp [hu_def, hbase']
      rw [hbase'] at hiso
      simp only [Bool.false_eq_true, if_false] at hiso
      have hI_not : k.push .I ∉ insert (k.push .X) ((cx.verts.map (·.1)).toFinset.erase k) := by
        intro hm'
        rcases Finset.mem_insert.1 hm' with e | e
        · exact hXI e.symm
        · have hlS : k.push .I ∈ cx.verts.map (·.1) := List.mem_toFinset.1 (Finset.mem_of_mem_erase e)
          obtain ⟨c2, _, h2, _, _⟩ := hu hbase'
          obtain ⟨_, _, _, hIS1, _⟩ := duplicateKey_ok c1 c2 _ _ h2
          apply hIS1
          rw [renameKey_keys cx c1 k _ h1]
          exact List.mem_map.2 ⟨k.push .I, hlS, by simp [renameFn, hkI]⟩
      rw [if_neg hbase, Finset.sum_insert hI_not, Finset.sum_insert hX_not, Finset.sum_congr rfl hrest]
      simp only [dlPi, dlL, dlR, hu', true_and, hXI, hXI.symm, or_true, true_or, if_true, if_false]
      rw [← add_assoc]
      congr 1
      have : ent cx k (if m = k.push .X ∨ m = k.push .I then k else m) * (cup Dot.none * cap Dot.Y) *
            ent cx (if j = k.push .X ∨ j = k.push .I then k else j) k +
          ent cx k (if m = k.push .X ∨ m = k.push .I then k else m) * (cup Dot.X * cap Dot.none) *
            ent cx (if j = k.push .X ∨ j = k.push .I then k else j) k
          = ent cx k (if m = k.push .X ∨ m = k.push .I then k else m) *
              (cup Dot.X * cap Dot.none + cup Dot.none * cap Dot.Y) *
            ent cx (if j = k.push .X ∨ j = k.push .I then k else j) k := by noncomm_ring
      rw [this, hiso]
      simp
  rw [hmid, hdd, mul_zero, zero_mul]

omit [Ring E] in
theorem deloop_base (ops : EdgeOps E) (cx cx' : Cx E) (k : TKey) (r : Nat) (upd : List TKey)
    (h : cx.deloop ops k r = .ok (upd, cx')) : cx'.base = cx.base := by
  obtain ⟨_, c, _, _, _, _, c1, h1, hb, hu⟩ := deloop_factors ops cx cx' k r upd h
  obtain ⟨_, _, _, rfl⟩ := renameKey_ok cx c1 k _ h1
  by_cases hbase : cx.containsBase c = true
  · obtain ⟨_, _, _, _, _, _, _, rfl⟩ := deloopWith_ok ops _ cx' _ _ _ _ (hb hbase)
    rfl
  · obtain ⟨c2, c3, h2, h3, h4⟩ := hu (by simpa using hbase)
    obtain ⟨_, _, _, _, rfl⟩ := duplicateKey_ok _ c2 _ _ h2
    obtain ⟨_, _, _, _, _, _, _, rfl⟩ := deloopWith_ok ops _ c3 _ _ _ _ h3
    obtain ⟨_, _, _, _, _, _, _, rfl⟩ := deloopWith_ok ops _ cx' _ _ _ _ h4
    rfl

/-- a toy algebra over ℤ in which delooping is lawful: cap(none) = cup(X) = 1, cap(Y) = cup(none) = 0
(`1·1 + 0·0 = 1`; the `1` copy is a zero summand — degenerate but it satisfies the hypotheses) -/
def toyDlOps : EdgeOps Int :=
  { toyOps with
    capOff := fun b _ d f =>
      match b, d with
      | .tgt, .Y => .ok 0
      | .src, .none => .ok 0
      | _, _ => .ok f }

/-- one vertex carrying a circle between two vertices without: `u → k → w` with `d ∘ d = 2·0 = 0`?  no: labels
`u → k : 0` is not allowed (no zero labels), so: `u → k : 3`, and no edge out of `k` -/
def toyLoop : Cx Int :=
  ⟨0, 0, none, 1, [(⟨[false], []⟩, []), (⟨[true], []⟩, [⟨[7], true⟩])],
   [((⟨[false], []⟩, ⟨[true], []⟩), 3)]⟩

end Yuiv.C05.Engine
