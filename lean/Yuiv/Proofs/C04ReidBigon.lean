import Yuiv.Proofs.C04ReidR2
import Yuiv.Proofs.C04InvEx
/-
C04Reid (helper, no property theorem here): the concrete Reidemeister II move on a PD code.
`addBigon l ia ja ib jb c d a2 b2 np` : the slots `(ia, ja)` and `(ib, jb)` of the diagram (ends of the edges
`a = l[ia].e[ja]`, `b = l[ib].e[jb]`) receive the fresh labels `a2`, `b2`, and the two crossings of the bigon
(`bigonPair`, fresh inner labels `c`, `d`) are added in front of the crossing list.
-/
open Yuiv.KhRef Yuiv.C04
namespace Yuiv.C04Inv

/-- the two crossings of a bigon: `np = false`: `X[a,c,d,b], X[d,c,a2,b2]`; `np = true`: `X[b,a,c,d], X[c,a2,b2,d]` -/
def bigonPair (np : Bool) (a b c d a2 b2 : Nat) : Crossing × Crossing :=
  if np then (⟨.X, #[b, a, c, d]⟩, ⟨.X, #[c, a2, b2, d]⟩) else (⟨.X, #[a, c, d, b]⟩, ⟨.X, #[d, c, a2, b2]⟩)

def addBigon (l : Link) (ia ja ib jb c d a2 b2 : Nat) (np : Bool) : Link :=
  ((bigonPair np l[ia]!.e[ja]! l[ib]!.e[jb]! c d a2 b2).1 :: (bigonPair np l[ia]!.e[ja]! l[ib]!.e[jb]! c d a2 b2).2 ::
    (splitSlot (splitSlot l ia ja a2) ib jb b2).toList).toArray

theorem renumber_fix (F : Nat → Nat) (l : Link) (h : ∀ z ∈ labelSet l, F z = z) : renumber F l = l := by
  apply Array.ext (by simp [renumber])
  intro k h1 h2
  simp only [renumber, Array.getElem_map]
  have : l[k].e.map F = l[k].e := by
    apply Array.ext (by simp)
    intro m h3 h4
    rw [Array.getElem_map]
    exact h _ ⟨l[k], Array.getElem_mem h2, Array.getElem_mem _⟩
  rw [this]

theorem set_get_ne {α} [Inhabited α] (xs : Array α) (i j : Nat) (a : α) (h : i ≠ j) :
    (xs.setIfInBounds i a)[j]! = xs[j]! := by
  by_cases hj : j < xs.size
  · rw [getElem!_pos _ j (by simpa using hj), getElem!_pos _ j hj, Array.getElem_setIfInBounds hj, if_neg h]
  · rw [getElem!_neg _ j (by simpa using hj), getElem!_neg _ j hj]

theorem set_get_self {α} [Inhabited α] (xs : Array α) (i : Nat) (a : α) (h : i < xs.size) :
    (xs.setIfInBounds i a)[i]! = a := by
  rw [getElem!_pos _ i (by simpa using h), Array.getElem_setIfInBounds h, if_pos rfl]

/-- splitting a slot does not change the renumbered diagram if the new label is mapped like the old one -/
theorem renumber_splitSlot_gen (F : Nat → Nat) (l : Link) (i j u : Nat) (hF : F u = F l[i]!.e[j]!) :
    renumber F (splitSlot l i j u) = renumber F l := by
  apply Array.ext (by simp [renumber, splitSlot])
  intro k h1 h2
  have h2' : k < l.size := by simpa [renumber] using h2
  simp only [renumber, splitSlot, Array.getElem_map, Array.getElem_setIfInBounds h2']
  split
  · rename_i hik
    subst hik
    rw [getElem!_pos l i h2'] at hF ⊢
    congr 1
    apply Array.ext (by simp)
    intro m h3 h4
    have h4' : m < l[i].e.size := by simpa using h4
    rw [Array.getElem_map, Array.getElem_map, Array.getElem_setIfInBounds h4']
    split
    · rename_i hjm; subst hjm; rw [hF, getElem!_pos l[i].e j h4']
    · rfl
  · rfl

theorem splitSlot_get_other (l : Link) (ia ja ib jb u : Nat) (hne : ¬ (ia = ib ∧ ja = jb)) :
    (splitSlot l ia ja u)[ib]!.e[jb]! = l[ib]!.e[jb]! := by
  unfold splitSlot
  by_cases h : ia = ib
  · subst h
    have hne' : ja ≠ jb := fun h => hne ⟨rfl, h⟩
    by_cases hi : ia < l.size
    · rw [set_get_self _ _ _ hi, set_get_ne _ _ _ _ hne']
    · rw [Array.setIfInBounds_eq_of_size_le (by omega)]
  · rw [set_get_ne _ _ _ _ h]

theorem slot_mem_labelSet {l : Link} (hwf : WF l) {i j : Nat} (hi : i < l.size) (hj : j < 4) :
    l[i]!.e[j]! ∈ labelSet l := by
  have h4 : l[i].e.size = 4 := hwf _ (Array.getElem_mem hi)
  rw [getElem!_pos l i hi, getElem!_pos l[i].e j (by omega)]
  exact ⟨l[i], Array.getElem_mem hi, Array.getElem_mem _⟩

/-- the hypotheses of the abstract bigon theorem hold for `addBigon` -/
theorem addBigon_spec (l : Link) (hwf : WF l) {ia ja ib jb c d a2 b2 : Nat}
    (hia : ia < l.size) (hja : ja < 4) (hib : ib < l.size) (hjb : jb < 4) (hne : ¬ (ia = ib ∧ ja = jb))
    (hc : c ∉ labelSet l) (hd : d ∉ labelSet l) (ha2 : a2 ∉ labelSet l) (hb2 : b2 ∉ labelSet l)
    (cd : c ≠ d) (ca2 : c ≠ a2) (cb2 : c ≠ b2) (da2 : d ≠ a2) (db2 : d ≠ b2) (a2b2 : a2 ≠ b2) :
    WF (splitSlot (splitSlot l ia ja a2) ib jb b2) ∧
    BigonLabels (splitSlot (splitSlot l ia ja a2) ib jb b2) l[ia]!.e[ja]! l[ib]!.e[jb]! c d a2 b2 ∧
    renumber (collapse2 l[ia]!.e[ja]! l[ib]!.e[jb]! c d a2 b2) (splitSlot (splitSlot l ia ja a2) ib jb b2) = l ∧
    l[ia]!.e[ja]! ∈ labelSet l ∧ l[ib]!.e[jb]! ∈ labelSet l := by
  have ham := slot_mem_labelSet hwf hia hja
  have hbm := slot_mem_labelSet hwf hib hjb
  generalize hadef : l[ia]!.e[ja]! = a at *
  generalize hbdef : l[ib]!.e[jb]! = b at *
  have hib1 : ib < (splitSlot l ia ja a2).size := by simpa [splitSlot] using hib
  have hwf1 := WF_splitSlot hwf hia ja a2
  have hwf2 := WF_splitSlot hwf1 hib1 jb b2
  have hlab : ∀ z ∈ labelSet (splitSlot (splitSlot l ia ja a2) ib jb b2), z ∈ labelSet l ∨ z = a2 ∨ z = b2 := by
    intro z hz
    rcases labelSet_splitSlot hib1 jb b2 hz with h | h
    · rcases labelSet_splitSlot hia ja a2 h with h | h
      · exact Or.inl h
      · exact Or.inr (Or.inl h)
    · exact Or.inr (Or.inr h)
  have ne_of : ∀ {u v : Nat}, u ∈ labelSet l → v ∉ labelSet l → v ≠ u := fun hu hv h => hv (h ▸ hu)
  have hBL : BigonLabels (splitSlot (splitSlot l ia ja a2) ib jb b2) a b c d a2 b2 :=
    { hc := fun h => by rcases hlab c h with h | h | h; exacts [hc h, ca2 h, cb2 h]
      hd := fun h => by rcases hlab d h with h | h | h; exacts [hd h, da2 h, db2 h]
      ca := ne_of ham hc, cb := ne_of hbm hc, ca2 := ca2, cb2 := cb2
      da := ne_of ham hd, db := ne_of hbm hd, da2 := da2, db2 := db2
      cd := cd, ab2 := (ne_of ham hb2).symm, ba2 := (ne_of hbm ha2).symm, a2b2 := a2b2 }
  obtain ⟨va, vb, vc, vd, va2, vb2⟩ := collapse2_vals hBL
  refine ⟨hwf2, hBL, ?_, ham, hbm⟩
  rw [renumber_splitSlot_gen _ _ ib jb b2 (by rw [splitSlot_get_other l ia ja ib jb a2 hne, hbdef, vb2, vb]),
    renumber_splitSlot_gen _ _ ia ja a2 (by
      rw [hadef, va2, va])]
  apply renumber_fix
  intro z hz
  unfold collapse2
  rw [if_neg (by rintro (h | h); exact hc (h ▸ hz); exact ha2 (h ▸ hz)),
    if_neg (by rintro (h | h); exact hd (h ▸ hz); exact hb2 (h ▸ hz))]

theorem wf_trefoil : WF trefoil := by
  intro c hc; simp [trefoil] at hc; rcases hc with rfl | rfl | rfl <;> rfl

end Yuiv.C04Inv
