import Yuiv.Proofs.C12
import Mathlib.Logic.Equiv.Defs
import Mathlib.Data.Fintype.EquivFin

namespace Yuiv.C12
open Yuiv
set_option linter.unusedSectionVars false

section
variable {R : Type} [CommRing R] [Scal R] [LawfulScal R]
open LawfulScal

theorem permOk_equiv (p : Array Nat) (n : Nat) (h : permOk p n = true) :
    ∃ σ : Equiv.Perm (Fin n), ∀ i, (σ i : Nat) = p.getD i 0 := by
  unfold permOk at h
  simp only [Bool.and_eq_true, List.all_eq_true, List.mem_range, decide_eq_true_eq, Bool.or_eq_true,
    beq_iff_eq, bne_iff_ne] at h
  obtain ⟨⟨_, hlt⟩, hinj⟩ := h
  let f : Fin n → Fin n := fun i => ⟨p.getD i 0, hlt i i.2⟩
  have finj : Function.Injective f := by
    intro a b hab
    have : p.getD a 0 = p.getD b 0 := by simpa [f] using congrArg Fin.val hab
    rcases hinj a a.2 b b.2 with h1 | h1
    · exact Fin.ext h1
    · exact absurd this h1
  exact ⟨Equiv.ofBijective f (Finite.injective_iff_bijective.1 finj), fun i => rfl⟩

/-- **soundness of the decomposition checker**: if `checkDecomp` accepts `(p, q, blocks)` for `A` then `p`, `q`
are permutations, the blocks fit into the shape of `A`, and `A` permuted by them is entrywise the
block-diagonal sum of the blocks (zero outside the blocks) -/
theorem checkDecomp_sound (A : SpMat R) (p q : Array Nat) (blocks : List (SpMat R))
    (h : checkDecomp A p q blocks = true) :
    ∃ (σ : Equiv.Perm (Fin A.nrows)) (τ : Equiv.Perm (Fin A.ncols)),
      (∀ i, (σ i : Nat) = p.getD i 0) ∧ (∀ j, (τ j : Nat) = q.getD j 0) ∧
      (blocks.map (·.nrows)).sum ≤ A.nrows ∧ (blocks.map (·.ncols)).sum ≤ A.ncols ∧
      ∀ (i : Fin A.nrows) (j : Fin A.ncols), entry A i j = bdEntry blocks (σ i) (τ j) := by
  unfold checkDecomp at h
  simp only [Bool.and_eq_true, List.all_eq_true, List.mem_range, decide_eq_true_eq] at h
  obtain ⟨⟨⟨⟨hp, hq⟩, hr⟩, hc⟩, he⟩ := h
  obtain ⟨σ, hσ⟩ := permOk_equiv p _ hp
  obtain ⟨τ, hτ⟩ := permOk_equiv q _ hq
  have sum_eq : ∀ l : List Nat, l.foldl (· + ·) 0 = l.sum := by
    intro l
    have : ∀ (a : Nat), l.foldl (· + ·) a = a + l.sum := by
      induction l with
      | nil => simp
      | cons x l ih => intro a; simp [ih, Nat.add_assoc]
    simpa using this 0
  refine ⟨σ, τ, hσ, hτ, by rw [← sum_eq]; exact hr, by rw [← sum_eq]; exact hc, fun i j => ?_⟩
  have := he i i.2 j j.2
  rw [isZero_iff, sub_eq, sub_eq_zero] at this
  rw [this, hσ i, hτ j]

end
/-! ### connectivity of a block -/

section
variable {α : Type} [Scal α]

/-- `S` (a set of vertices: row `i` ↦ `i`, column `j` ↦ `h + j`) splits the block: both sides non-empty and no
stored non-zero entry joins a vertex of `S` with a vertex outside -/
def Splits (B : SpMat α) (S : Nat → Prop) : Prop :=
  (∃ v, v < B.nrows + B.ncols ∧ S v) ∧ (∃ v, v < B.nrows + B.ncols ∧ ¬ S v) ∧
  ∀ j, j < B.ncols → ∀ e ∈ col B j, isZero e.2 = false → (S e.1 ↔ S (B.nrows + j))

theorem mem_nzEdges {B : SpMat α} {e : Nat × Nat} (h : e ∈ nzEdges B) :
    e.2 < B.ncols ∧ ∃ a, (e.1, a) ∈ col B e.2 ∧ isZero a = false := by
  unfold nzEdges at h
  obtain ⟨j, hj, he⟩ := List.mem_flatMap.1 h
  obtain ⟨x, hx, hxe⟩ := List.mem_filterMap.1 he
  by_cases hz : isZero x.2 = true
  · simp [hz] at hxe
  · simp only [hz, Bool.false_eq_true, if_false, Option.some.injEq] at hxe
    subst hxe
    exact ⟨List.mem_range.1 hj, x.2, hx, by simpa using hz⟩

theorem getD_set_true (s : Array Bool) (i v : Nat) (h : (s.setIfInBounds i true).getD v false = true) :
    s.getD v false = true ∨ v = i := by
  by_cases hv : v = i
  · exact Or.inr hv
  · left
    simpa [Array.getD_eq_getD_getElem?, Array.getElem?_setIfInBounds_ne (Ne.symm hv)] using h

/-- marked vertices stay inside any edge-closed set containing the marked ones -/
theorem sweep_inv (h : Nat) (es : List (Nat × Nat)) (P : Nat → Prop)
    (hP : ∀ e ∈ es, (P e.1 ↔ P (h + e.2))) (s : Array Bool)
    (hs : ∀ v, s.getD v false = true → P v) : ∀ v, (sweep h es s).getD v false = true → P v := by
  unfold sweep
  induction es generalizing s with
  | nil => exact hs
  | cons e es ih =>
    rw [List.foldl_cons]
    apply ih (fun e' h' => hP e' (by simp [h']))
    have he := hP e (by simp)
    split
    · rename_i hc
      intro v hv
      rcases getD_set_true _ _ _ hv with hv | rfl
      · rcases getD_set_true _ _ _ hv with hv | rfl
        · exact hs v hv
        · rcases Bool.or_eq_true_iff.1 hc with h1 | h1
          · exact hs _ h1
          · exact he.2 (hs _ h1)
      · rcases Bool.or_eq_true_iff.1 hc with h1 | h1
        · exact he.1 (hs _ h1)
        · exact hs _ h1
    · exact hs

theorem sweeps_inv (h : Nat) (es : List (Nat × Nat)) (P : Nat → Prop)
    (hP : ∀ e ∈ es, (P e.1 ↔ P (h + e.2))) (k : Nat) (s : Array Bool)
    (hs : ∀ v, s.getD v false = true → P v) : ∀ v, (sweeps h es k s).getD v false = true → P v := by
  induction k generalizing s with
  | zero => exact hs
  | succ k ih => exact ih _ (sweep_inv h es P hP s hs)

/-- **soundness of the connectivity check**: an accepted block has no splitting -/
theorem connectedBlk_sound (B : SpMat α) (hc : connectedBlk B = true) (S : Nat → Prop) : ¬ Splits B S := by
  rintro ⟨⟨v1, hv1, hS1⟩, ⟨v2, hv2, hS2⟩, hedge⟩
  unfold connectedBlk at hc
  simp only [List.all_eq_true, List.mem_range] at hc
  -- the side containing vertex 0
  have key : ∀ P : Nat → Prop, P 0 → (∀ j, j < B.ncols → ∀ e ∈ col B j, isZero e.2 = false → (P e.1 ↔ P (B.nrows + j))) →
      ∀ v, v < B.nrows + B.ncols → P v := by
    intro P h0 hPe v hv
    apply sweeps_inv B.nrows (nzEdges B) P _ _ _ _ v (hc v hv)
    · intro e he
      obtain ⟨h1, a, h2, h3⟩ := mem_nzEdges he
      exact hPe e.2 h1 (e.1, a) h2 h3
    · intro w hw
      rcases getD_set_true _ _ _ hw with hw | rfl
      · simp [Array.getD_eq_getD_getElem?] at hw
        by_cases hlt : w < B.nrows + B.ncols <;> simp [hlt] at hw
      · exact h0
  by_cases h0 : S 0
  · exact hS2 (key S h0 hedge v2 hv2)
  · exact (key (fun v => ¬ S v) h0 (fun j hj e he hz => not_congr (hedge j hj e he hz)) v1 hv1) hS1

end
end Yuiv.C12
