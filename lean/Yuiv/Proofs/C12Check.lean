import Yuiv.Proofs.C12
import Mathlib.Logic.Equiv.Defs
import Mathlib.Data.Fintype.EquivFin

namespace Yuiv.C12
open Yuiv
set_option linter.unusedSectionVars false

section
variable {R : Type} [CommRing R] [Scal R] [LawfulScal R]
open LawfulScal

theorem permOk_equiv (p : Array Nat) (n : Nat) (h : permOk p n = true) :
    ∃ σ : Equiv.Perm (Fin n), ∀ i, (σ i : Nat) = p.getD i 0 := by
  unfold permOk at h
  simp only [Bool.and_eq_true, List.all_eq_true, List.mem_range, decide_eq_true_eq, Bool.or_eq_true,
    beq_iff_eq, bne_iff_ne] at h
  obtain ⟨⟨_, hlt⟩, hinj⟩ := h
  let f : Fin n → Fin n := fun i => ⟨p.getD i 0, hlt i i.2⟩
  have finj : Function.Injective f := by
    intro a b hab
    have : p.getD a 0 = p.getD b 0 := by simpa [f] using congrArg Fin.val hab
    rcases hinj a a.2 b b.2 with h1 | h1
    · exact Fin.ext h1
    · exact absurd this h1
  exact ⟨Equiv.ofBijective f (Finite.injective_iff_bijective.1 finj), fun i => rfl⟩

/-- **soundness of the decomposition checker**: if `checkDecomp` accepts `(p, q, blocks)` for `A` then `p`, `q`
are permutations, the blocks fit into the shape of `A`, and `A` permuted by them is entrywise the
block-diagonal sum of the blocks (zero outside the blocks) -/
theorem checkDecomp_sound (A : SpMat R) (p q : Array Nat) (blocks : List (SpMat R))
    (h : checkDecomp A p q blocks = true) :
    ∃ (σ : Equiv.Perm (Fin A.nrows)) (τ : Equiv.Perm (Fin A.ncols)),
      (∀ i, (σ i : Nat) = p.getD i 0) ∧ (∀ j, (τ j : Nat) = q.getD j 0) ∧
      (blocks.map (·.nrows)).sum ≤ A.nrows ∧ (blocks.map (·.ncols)).sum ≤ A.ncols ∧
      ∀ (i : Fin A.nrows) (j : Fin A.ncols), entry A i j = bdEntry blocks (σ i) (τ j) := by
  unfold checkDecomp at h
  simp only [Bool.and_eq_true, List.all_eq_true, List.mem_range, decide_eq_true_eq] at h
  obtain ⟨⟨⟨⟨hp, hq⟩, hr⟩, hc⟩, he⟩ := h
  obtain ⟨σ, hσ⟩ := permOk_equiv p _ hp
  obtain ⟨τ, hτ⟩ := permOk_equiv q _ hq
  have sum_eq : ∀ l : List Nat, l.foldl (· + ·) 0 = l.sum := by
    intro l
    have : ∀ (a : Nat), l.foldl (· + ·) a = a + l.sum := by
      induction l with
      | nil => simp
      | cons x l ih => intro a; simp [ih, Nat.add_assoc]
    simpa using this 0
  refine ⟨σ, τ, hσ, hτ, by rw [← sum_eq]; exact hr, by rw [← sum_eq]; exact hc, fun i j => ?_⟩
  have := he i i.2 j j.2
  rw [isZero_iff, sub_eq, sub_eq_zero] at this
  rw [this, hσ i, hτ j]

end
end Yuiv.C12
