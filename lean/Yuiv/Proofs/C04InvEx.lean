import Yuiv.Proofs.C04InvRen
/- example diagrams for the non-vacuity `example`s of `Props/C04Inv.lean` -/
namespace Yuiv.C04Inv
open Yuiv.KhRef

def trefoil : Link := #[⟨.X, #[1, 4, 2, 5]⟩, ⟨.X, #[3, 6, 4, 1]⟩, ⟨.X, #[5, 2, 6, 3]⟩]
def hopf : Link := #[⟨.X, #[4, 1, 3, 2]⟩, ⟨.X, #[2, 3, 1, 4]⟩]

end Yuiv.C04Inv
