import Yuiv.Proofs.C06CycleConn
import Yuiv.Proofs.C06CycleCirc
/-
C06Cycle — `merge_shape`: if the arc relation of the neighbouring state is the relation of `s` with the classes of
`a` and `c` merged, the circle lists `cs` (state `s`) and `cs'` (neighbour) differ by exactly two circles gone (those of
`a` and `c`) and one circle born (helper, no property theorem).
-/
namespace Yuiv.C06Cycle
open Yuiv Yuiv.KhRef Yuiv.C04Inv

variable {labels : Array Nat} {P P' : List (Nat × Nat)} {cs cs' : Array (Array Nat)}

/-- members of a circle through `x` -/
theorem CirclesSpec.mem_iff (h : CirclesSpec labels P cs) {i x : Nat} (hi : i < cs.size) (hx : x ∈ cs[i]!) (y : Nat) :
    y ∈ cs[i]! ↔ y ∈ labels ∧ Conn P x y :=
  ⟨fun hy => ⟨h.mem_labels hi hy, h.conn_of_mem hi hx hy⟩, fun hy => h.mem_of_conn hi hx hy.1 hy.2⟩

theorem CirclesSpec.nonempty (h : CirclesSpec labels P cs) {i : Nat} (hi : i < cs.size) : ∃ x, x ∈ cs[i]! := by
  obtain ⟨x, hx, p, hp, hpy⟩ := h.rep i hi
  refine ⟨x, ?_⟩
  rw [← Array.mem_toList_iff, hp, List.mem_filter]
  exact ⟨by simpa using hx, (hpy x hx).2 (Conn.refl x)⟩

/-- two circles (of possibly different states) with the same members are the same array -/
theorem circle_ext (h : CirclesSpec labels P cs) (h' : CirclesSpec labels P' cs') {i j : Nat}
    (hi : i < cs.size) (hj : j < cs'.size) (hm : ∀ y, y ∈ cs[i]! ↔ y ∈ cs'[j]!) : cs[i]! = cs'[j]! := by
  obtain ⟨x, _, p, hp, _⟩ := h.rep i hi
  obtain ⟨x', _, p', hp', _⟩ := h'.rep j hj
  apply Array.toList_inj.1
  rw [hp, hp']
  apply List.filter_congr
  intro y hy
  have h1 : y ∈ cs[i]! ↔ p y = true := by
    rw [← Array.mem_toList_iff, hp, List.mem_filter]; simp [hy]
  have h2 : y ∈ cs'[j]! ↔ p' y = true := by
    rw [← Array.mem_toList_iff, hp', List.mem_filter]; simp [hy]
  have := (h1.symm.trans (hm y)).trans h2
  cases hp1 : p y <;> cases hp2 : p' y <;> simp_all

theorem contains_iff (cs : Array (Array Nat)) (c : Array Nat) :
    cs.contains c = true ↔ ∃ j, j < cs.size ∧ cs[j]! = c := by
  rw [Array.contains_iff_mem, Array.mem_iff_getElem]
  constructor
  · rintro ⟨j, hj, e⟩; exact ⟨j, hj, by rw [getElem!_pos cs j hj]; exact e⟩
  · rintro ⟨j, hj, e⟩; exact ⟨j, hj, by rw [getElem!_pos cs j hj] at e; exact e⟩

theorem circleIdx_of_mem (h : CirclesSpec labels P cs) {i x : Nat} (hi : i < cs.size) (hx : x ∈ cs[i]!) :
    circleIdx cs x = i := by
  unfold circleIdx
  have hex : ∃ c ∈ cs, c.contains x = true := by
    refine ⟨cs[i]!, ?_, by simpa using hx⟩
    rw [getElem!_pos cs i hi]; exact Array.getElem_mem hi
  cases hf : cs.findIdx? (fun c => c.contains x) with
  | none =>
    rw [Array.findIdx?_eq_none_iff] at hf
    obtain ⟨c, hc, hcx⟩ := hex
    have := hf c hc
    rw [hcx] at this
    cases this
  | some k =>
    rw [Array.findIdx?_eq_some_iff_getElem] at hf
    obtain ⟨hk, hp, _⟩ := hf
    simp only [Option.getD_some]
    have hxk : x ∈ cs[k]! := by
      rw [getElem!_pos cs k hk]; simpa using hp
    exact h.sep k i hk hi x x hxk hx (Conn.refl x)

theorem range_filter_two (n i1 i2 : Nat) (q : Nat → Bool) (h12 : i1 < i2) (h2 : i2 < n)
    (hq : ∀ i, i < n → (q i = true ↔ i = i1 ∨ i = i2)) : (Array.range n).filter q = #[i1, i2] := by
  apply Array.toList_inj.1
  rw [Array.toList_filter, Array.toList_range]
  apply List.Perm.eq_of_pairwise (le := (· < ·))
  · intro a b _ _ h1 h2; omega
  · exact List.Pairwise.filter _ List.pairwise_lt_range
  · simp [h12]
  · rw [List.perm_ext_iff_of_nodup (List.Nodup.filter _ List.nodup_range) (by simp; omega)]
    intro i
    simp only [List.mem_filter, List.mem_range, List.mem_cons, List.not_mem_nil, or_false]
    constructor
    · rintro ⟨hi, hqi⟩; exact (hq i hi).1 hqi
    · intro hi
      have : i < n := by omega
      exact ⟨this, (hq i this).2 hi⟩

theorem range_filter_one (n j0 : Nat) (q : Nat → Bool) (h0 : j0 < n)
    (hq : ∀ i, i < n → (q i = true ↔ i = j0)) : (Array.range n).filter q = #[j0] := by
  apply Array.toList_inj.1
  rw [Array.toList_filter, Array.toList_range]
  apply List.Perm.eq_of_pairwise (le := (· < ·))
  · intro a b _ _ h1 h2; omega
  · exact List.Pairwise.filter _ List.pairwise_lt_range
  · simp
  · rw [List.perm_ext_iff_of_nodup (List.Nodup.filter _ List.nodup_range) (by simp)]
    intro i
    simp only [List.mem_filter, List.mem_range, List.mem_cons, List.not_mem_nil, or_false]
    constructor
    · rintro ⟨hi, hqi⟩; exact (hq i hi).1 hqi
    · intro hi
      have : i < n := by omega
      exact ⟨this, (hq i this).2 hi⟩

/-- the shape of a merge edge -/
theorem merge_shape (h : CirclesSpec labels P cs) (h' : CirclesSpec labels P' cs') (a c : Nat)
    (ha : a ∈ labels) (hc : c ∈ labels) (hnac : ¬ Conn P a c)
    (hconn : ∀ u v, Conn P' u v ↔ Conn P u v ∨ ((Conn P u a ∨ Conn P u c) ∧ (Conn P v a ∨ Conn P v c))) :
    ∃ i1 i2 j0, i1 < i2 ∧ i2 < cs.size ∧ j0 < cs'.size ∧
      goneOf cs cs' = #[i1, i2] ∧ bornOf cs cs' = #[j0] ∧
      ((circleIdx cs a = i1 ∧ circleIdx cs c = i2) ∨ (circleIdx cs c = i1 ∧ circleIdx cs a = i2)) := by
  obtain ⟨ia, hia, haa⟩ := h.cover a ha
  obtain ⟨ic, hic, hcc⟩ := h.cover c hc
  obtain ⟨j0, hj0, haj⟩ := h'.cover a ha
  have hne : ia ≠ ic := by
    intro e; subst e
    exact hnac (h.conn_of_mem hia haa hcc)
  have cac' : Conn P' a c := (hconn a c).2 (Or.inr ⟨Or.inl (Conn.refl a), Or.inr (Conn.refl c)⟩)
  have hcj : c ∈ cs'[j0]! := h'.mem_of_conn hj0 haj hc cac'
  -- `A x`: the circle of `x` in `s` is the circle of `a` or of `c`
  have up : ∀ {u v}, Conn P u v → Conn P' u v := fun huv => (hconn _ _).2 (Or.inl huv)
  -- outside the two circles nothing changes
  have keep : ∀ {i j x}, i < cs.size → j < cs'.size → x ∈ cs[i]! → x ∈ cs'[j]! →
      ¬ (Conn P x a ∨ Conn P x c) → cs[i]! = cs'[j]! := by
    intro i j x hi hj hxi hxj hA
    apply circle_ext h h' hi hj
    intro y
    rw [h.mem_iff hi hxi, h'.mem_iff hj hxj, hconn x y]
    constructor
    · rintro ⟨h1, h2⟩; exact ⟨h1, Or.inl h2⟩
    · rintro ⟨h1, h2 | ⟨h2, _⟩⟩
      · exact ⟨h1, h2⟩
      · exact absurd h2 hA
  -- a circle of `s` containing a label related to `a` or `c` is the circle `ia` or `ic`
  have inA : ∀ {i x}, i < cs.size → x ∈ cs[i]! → (Conn P x a ∨ Conn P x c) → i = ia ∨ i = ic := by
    intro i x hi hx hA
    rcases hA with hA | hA
    · exact Or.inl (h.sep i ia hi hia x a hx haa hA)
    · exact Or.inr (h.sep i ic hi hic x c hx hcc hA)
  have inA' : ∀ {j x}, j < cs'.size → x ∈ cs'[j]! → (Conn P x a ∨ Conn P x c) → j = j0 := by
    intro j x hj hx hA
    rcases hA with hA | hA
    · exact h'.sep j j0 hj hj0 x a hx haj (up hA)
    · exact h'.sep j j0 hj hj0 x c hx hcj (up hA)
  -- gone
  have gone : ∀ i, i < cs.size → ((!cs'.contains cs[i]!) = true ↔ i = ia ∨ i = ic) := by
    intro i hi
    rw [Bool.not_eq_true', ← Bool.not_eq_true, contains_iff]
    constructor
    · intro hn
      by_contra hi'
      obtain ⟨x, hx⟩ := h.nonempty hi
      have hA : ¬ (Conn P x a ∨ Conn P x c) := fun hA => hi' (inA hi hx hA)
      obtain ⟨j, hj, hxj⟩ := h'.cover x (h.mem_labels hi hx)
      exact hn ⟨j, hj, (keep hi hj hx hxj hA).symm⟩
    · rintro (rfl | rfl)
      · rintro ⟨j, hj, e⟩
        have h1 : a ∈ cs'[j]! := by rw [e]; exact haa
        have h2 : c ∈ cs'[j]! := h'.mem_of_conn hj h1 hc cac'
        rw [e] at h2
        exact hnac (h.conn_of_mem hi haa h2)
      · rintro ⟨j, hj, e⟩
        have h1 : c ∈ cs'[j]! := by rw [e]; exact hcc
        have h2 : a ∈ cs'[j]! := h'.mem_of_conn hj h1 ha (Conn.symm cac')
        rw [e] at h2
        exact hnac (h.conn_of_mem hi h2 hcc)
  -- born
  have born : ∀ j, j < cs'.size → ((!cs.contains cs'[j]!) = true ↔ j = j0) := by
    intro j hj
    rw [Bool.not_eq_true', ← Bool.not_eq_true, contains_iff]
    constructor
    · intro hn
      by_contra hj'
      obtain ⟨x, hx⟩ := h'.nonempty hj
      have hA : ¬ (Conn P x a ∨ Conn P x c) := fun hA => hj' (inA' hj hx hA)
      obtain ⟨i, hi, hxi⟩ := h.cover x (h'.mem_labels hj hx)
      exact hn ⟨i, hi, keep hi hj hxi hx hA⟩
    · rintro rfl
      rintro ⟨i, hi, e⟩
      rw [← e] at haj hcj
      exact hnac (h.conn_of_mem hi haj hcj)
  have eia := circleIdx_of_mem h hia haa
  have eic := circleIdx_of_mem h hic hcc
  rcases Nat.lt_or_gt_of_ne hne with hlt | hlt
  · refine ⟨ia, ic, j0, hlt, hic, hj0, ?_, ?_, Or.inl ⟨eia, eic⟩⟩
    · exact range_filter_two _ _ _ _ hlt hic gone
    · exact range_filter_one _ _ _ hj0 born
  · refine ⟨ic, ia, j0, hlt, hia, hj0, ?_, ?_, Or.inr ⟨eic, eia⟩⟩
    · exact range_filter_two _ _ _ _ hlt hia (fun i hi => (gone i hi).trans Or.comm)
    · exact range_filter_one _ _ _ hj0 born

end Yuiv.C06Cycle
