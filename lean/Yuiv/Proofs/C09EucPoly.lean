import Yuiv.Proofs.C09EucGauss
import Mathlib.Algebra.Polynomial.FieldDivision
/-
C09 — polynomials in one variable over a field `F` as an instance of `LawfulEuc`.

`polyOps F : EOps (List F)` follows `yui/src/types/poly/poly.rs` (`Poly<X, R>`, `R: Field`) on coefficient lists
(constant term first; `add`/`mul` return lists without trailing zeros, but no operation or law depends on that:
the interpretation `pφ : List F → F[X]` ignores trailing zeros, and `==` is "the difference is zero"):
 * `div_rem` — `pDivRem`: the `for _ in j ..= i` loop around the closure `iter` (if `deg f < deg g` stop, else
   subtract `(lc f / lc g)·x^(deg f − deg g)·g`); `/`, `%` are its two components;
 * `normalizing_unit` — the constant `lc⁻¹` (`1` for the zero polynomial);  `is_unit`/`inv` — non-zero constants;
 * `size` = `deg + 1` (`0 ↦ 0`);  `gcdx` — the generic `EucRing::gcdx` (`genGcdx`).
The record is not part of `Model/C09.lean` / the driver.  `F` is an arbitrary field with decidable equality
(`ℚ`, `ZMod p` are special cases).
-/
set_option linter.unusedSimpArgs false
set_option linter.unusedSectionVars false
namespace Yuiv.C09
open Polynomial

/-- what the checker `shapeL` says about each entry: zero or normalised -/
theorem shapeL_mem {α K : Type} [CommRing K] [IsDomain K] {e : EOps α} {φ : α → K} (L : LawfulEucBase e φ) :
    ∀ l : List α, shapeL e l = true → ∀ x ∈ l, φ x = 0 ∨ φ (e.normUnit x) = 1 := by
  intro l
  induction l with
  | nil => intro _ x hx; cases hx
  | cons a rest ih =>
    intro h x hx
    unfold shapeL at h
    split at h
    · rename_i hz
      left
      rcases List.mem_cons.1 hx with rfl | hx
      · exact (L.isZero_iff _).1 hz
      · exact (L.isZero_iff _).1 (List.all_eq_true.1 h x hx)
    · simp only [Bool.and_eq_true] at h
      rcases List.mem_cons.1 hx with rfl | hx
      · exact Or.inr ((L.isNorm_iff _).1 h.1.1)
      · exact ih h.2 x hx

variable {F : Type} [Field F] [DecidableEq F]

/-- `deg + 1` of the polynomial with coefficient list `l` (constant term first; trailing zeros ignored); `0 ↦ 0` -/
def pSize : List F → Nat
  | [] => 0
  | c :: l => if pSize l = 0 then (if c = 0 then 0 else 1) else pSize l + 1

/-- `lead_coeff` (`0` for the zero polynomial) -/
def pLead : List F → F
  | [] => 0
  | c :: l => if pSize l = 0 then c else pLead l

/-- `lead_deg` (`0` for the zero polynomial) -/
def pDeg (l : List F) : Nat := pSize l - 1

/-- drop trailing zeros -/
def pTrim : List F → List F
  | [] => []
  | c :: l => if pSize l = 0 ∧ c = 0 then [] else c :: pTrim l

def addR : List F → List F → List F
  | [], b => b
  | a, [] => a
  | x :: a, y :: b => (x + y) :: addR a b

def smulR (c : F) (l : List F) : List F := l.map (c * ·)

def mulR : List F → List F → List F
  | [], _ => []
  | x :: a, b => addR (smulR x b) (0 :: mulR a b)

def pAdd (a b : List F) : List F := pTrim (addR a b)
def pMul (a b : List F) : List F := pTrim (mulR a b)
def pNeg (a : List F) : List F := a.map (- ·)
/-- `c·x^k` -/
def pMono (k : Nat) (c : F) : List F := List.replicate k 0 ++ [c]

/-- the polynomial denoted by a coefficient list -/
noncomputable def pφ : List F → F[X]
  | [] => 0
  | c :: l => C c + X * pφ l

@[simp] theorem pφ_nil : pφ ([] : List F) = 0 := rfl
@[simp] theorem pφ_cons (c : F) (l : List F) : pφ (c :: l) = C c + X * pφ l := rfl

theorem pφ_addR : ∀ a b : List F, pφ (addR a b) = pφ a + pφ b
  | [], b => by simp [addR]
  | x :: a, [] => by simp [addR]
  | x :: a, y :: b => by
    simp only [addR, pφ_cons, pφ_addR a b, C_add]; ring

theorem pφ_smulR (c : F) : ∀ l : List F, pφ (smulR c l) = C c * pφ l
  | [] => by simp [smulR]
  | x :: l => by
    have := pφ_smulR c l
    simp only [smulR, List.map_cons, pφ_cons, C_mul] at this ⊢
    rw [this]; ring

theorem pφ_mulR : ∀ a b : List F, pφ (mulR a b) = pφ a * pφ b
  | [], b => by simp [mulR]
  | x :: a, b => by
    simp only [mulR, pφ_addR, pφ_smulR, pφ_cons, pφ_mulR a b, C_0]; ring

theorem pφ_neg : ∀ l : List F, pφ (pNeg l) = - pφ l
  | [] => by simp [pNeg]
  | x :: l => by
    have := pφ_neg l
    simp only [pNeg, List.map_cons, pφ_cons, C_neg] at this ⊢
    rw [this]; ring

theorem pφ_mono (c : F) : ∀ k : Nat, pφ (pMono k c) = C c * X ^ k
  | 0 => by simp [pMono]
  | k + 1 => by
    have := pφ_mono c k
    simp only [pMono, List.replicate_succ, List.cons_append, pφ_cons, C_0] at this ⊢
    rw [this]; ring

theorem natDegree_C_add_X_mul (c : F) {p : F[X]} (hp : p ≠ 0) : (C c + X * p).natDegree = p.natDegree + 1 := by
  rw [natDegree_add_eq_right_of_natDegree_lt, natDegree_X_mul hp]
  rw [natDegree_C, natDegree_X_mul hp]; omega

theorem leadingCoeff_C_add_X_mul (c : F) {p : F[X]} (hp : p ≠ 0) :
    (C c + X * p).leadingCoeff = p.leadingCoeff := by
  rw [leadingCoeff_add_of_degree_lt, leadingCoeff_mul, leadingCoeff_X, one_mul]
  apply degree_lt_degree
  rw [natDegree_C, natDegree_X_mul hp]; omega

theorem C_add_X_mul_ne_zero (c : F) {p : F[X]} (hp : p ≠ 0) : C c + X * p ≠ 0 := by
  intro h
  have := natDegree_C_add_X_mul c hp
  rw [h, natDegree_zero] at this
  omega

/-- the bridge: `pSize` is `natDegree + 1` (`0` for `0`) -/
theorem pSize_eq : ∀ l : List F, pSize l = if pφ l = 0 then 0 else (pφ l).natDegree + 1
  | [] => by simp [pSize]
  | c :: l => by
    have ih := pSize_eq l
    rw [pSize, pφ_cons]
    by_cases h0 : pφ l = 0
    · rw [if_pos h0] at ih
      rw [if_pos ih, h0, mul_zero, add_zero]
      by_cases hc : c = 0
      · simp [hc]
      · rw [if_neg hc, if_neg (by simpa using hc), natDegree_C]
    · rw [if_neg h0] at ih
      rw [if_neg (by omega), if_neg (C_add_X_mul_ne_zero c h0), natDegree_C_add_X_mul c h0, ih]

theorem pSize_eq_zero (l : List F) : pSize l = 0 ↔ pφ l = 0 := by
  rw [pSize_eq]; split <;> simp_all

theorem pSize_of_ne (l : List F) (h : pφ l ≠ 0) : pSize l = (pφ l).natDegree + 1 := by
  rw [pSize_eq, if_neg h]

theorem pLead_eq : ∀ l : List F, pLead l = (pφ l).leadingCoeff
  | [] => by simp [pLead]
  | c :: l => by
    rw [pLead, pφ_cons]
    by_cases h0 : pφ l = 0
    · rw [if_pos ((pSize_eq_zero l).2 h0), h0, mul_zero, add_zero, leadingCoeff_C]
    · rw [if_neg (fun h => h0 ((pSize_eq_zero l).1 h)), leadingCoeff_C_add_X_mul c h0, pLead_eq l]

theorem pDeg_eq (l : List F) : pDeg l = (pφ l).natDegree := by
  unfold pDeg
  by_cases h : pφ l = 0
  · rw [(pSize_eq_zero l).2 h, h, natDegree_zero]
  · rw [pSize_of_ne l h]; omega

theorem pφ_trim : ∀ l : List F, pφ (pTrim l) = pφ l
  | [] => rfl
  | c :: l => by
    rw [pTrim]
    split
    · rename_i h
      rw [pφ_cons, (pSize_eq_zero l).1 h.1, h.2]; simp
    · rw [pφ_cons, pφ_cons, pφ_trim l]

theorem pφ_add (a b : List F) : pφ (pAdd a b) = pφ a + pφ b := by rw [pAdd, pφ_trim, pφ_addR]
theorem pφ_mul (a b : List F) : pφ (pMul a b) = pφ a * pφ b := by rw [pMul, pφ_trim, pφ_mulR]

def pSub (a b : List F) : List F := pAdd a (pNeg b)

theorem pφ_sub (a b : List F) : pφ (pSub a b) = pφ a - pφ b := by
  rw [pSub, pφ_add, pφ_neg]; ring

/-- the closure `iter` of `Poly::div_rem` -/
def pDivStep (f g : List F) : List F × List F :=
  if pDeg f < pDeg g then ([], f)
  else (pMono (pDeg f - pDeg g) (pLead f / pLead g),
        pSub f (pMul (pMono (pDeg f - pDeg g) (pLead f / pLead g)) g))

/-- the `for _ in j ..= i` loop of `Poly::div_rem` -/
def pDivLoop : Nat → List F → List F → List F → List F × List F
  | 0, q, r, _ => (q, r)
  | n + 1, q, r, g => pDivLoop n (pAdd q (pDivStep r g).1) (pDivStep r g).2 g

/-- `Poly::div_rem` (long division over a field) -/
def pDivRem (f g : List F) : List F × List F := pDivLoop (pDeg f + 1 - pDeg g) [] f g

theorem pDivStep_eq (r g : List F) : pφ r = pφ (pDivStep r g).1 * pφ g + pφ (pDivStep r g).2 := by
  unfold pDivStep
  split
  · simp
  · simp only [pφ_sub, pφ_mul]; ring

theorem pDivStep_size (r g : List F) (hg : pφ g ≠ 0) :
    pSize (pDivStep r g).2 < pSize g ∨ pSize (pDivStep r g).2 < pSize r := by
  have sg := pSize_of_ne g hg
  unfold pDivStep
  split
  · rename_i h
    left
    rw [pDeg_eq, pDeg_eq] at h
    simp only
    by_cases hr : pφ r = 0
    · rw [(pSize_eq_zero r).2 hr]; omega
    · rw [pSize_of_ne r hr]; omega
  · rename_i h
    rw [pDeg_eq, pDeg_eq, not_lt] at h
    simp only
    by_cases hr : pφ r = 0
    · left
      have : pφ (pSub r (pMul (pMono (pDeg r - pDeg g) (pLead r / pLead g)) g)) = 0 := by
        rw [pφ_sub, pφ_mul, pφ_mono, pLead_eq r, hr]; simp
      rw [(pSize_eq_zero _).2 this]; omega
    · right
      have hlg : (pφ g).leadingCoeff ≠ 0 := leadingCoeff_ne_zero.2 hg
      have hlr : (pφ r).leadingCoeff ≠ 0 := leadingCoeff_ne_zero.2 hr
      have hc : (pφ r).leadingCoeff / (pφ g).leadingCoeff ≠ 0 := div_ne_zero hlr hlg
      have hq0 : C ((pφ r).leadingCoeff / (pφ g).leadingCoeff) * X ^ ((pφ r).natDegree - (pφ g).natDegree) ≠ 0 := by
        intro h0
        have := leadingCoeff_C_mul_X_pow ((pφ r).leadingCoeff / (pφ g).leadingCoeff)
          ((pφ r).natDegree - (pφ g).natDegree)
        rw [h0, leadingCoeff_zero] at this
        exact hc this.symm
      have hlt : degree (pφ (pSub r (pMul (pMono (pDeg r - pDeg g) (pLead r / pLead g)) g))) < degree (pφ r) := by
        rw [pφ_sub, pφ_mul, pφ_mono, pLead_eq, pLead_eq, pDeg_eq, pDeg_eq]
        apply degree_sub_lt_left _ hr
        · rw [leadingCoeff_mul, leadingCoeff_C_mul_X_pow, div_mul_cancel₀ _ hlg]
        · rw [degree_eq_natDegree hr, degree_eq_natDegree (mul_ne_zero hq0 hg), natDegree_mul hq0 hg,
            natDegree_C_mul_X_pow _ _ hc]
          congr 1; omega
      rw [pSize_of_ne r hr]
      by_cases h2 : pφ (pSub r (pMul (pMono (pDeg r - pDeg g) (pLead r / pLead g)) g)) = 0
      · rw [(pSize_eq_zero _).2 h2]; omega
      · rw [pSize_of_ne _ h2]
        have := natDegree_lt_natDegree h2 hlt
        omega

theorem pDivLoop_spec (g : List F) (hg : pφ g ≠ 0) : ∀ (n : Nat) (q r : List F),
    pφ q * pφ g + pφ r = pφ (pDivLoop n q r g).1 * pφ g + pφ (pDivLoop n q r g).2 ∧
    (pSize (pDivLoop n q r g).2 < pSize g ∨ pSize (pDivLoop n q r g).2 + n ≤ pSize r)
  | 0, q, r => by simp [pDivLoop]
  | n + 1, q, r => by
    rw [pDivLoop]
    obtain ⟨h1, h2⟩ := pDivLoop_spec g hg n (pAdd q (pDivStep r g).1) (pDivStep r g).2
    refine ⟨?_, ?_⟩
    · rw [← h1, pφ_add]
      have := pDivStep_eq r g
      linear_combination this
    · rcases h2 with h2 | h2
      · exact Or.inl h2
      · rcases pDivStep_size r g hg with h3 | h3
        · left; omega
        · right; omega

theorem pDivRem_spec (f g : List F) (hg : pφ g ≠ 0) :
    pφ f = pφ (pDivRem f g).1 * pφ g + pφ (pDivRem f g).2 ∧ pSize (pDivRem f g).2 < pSize g := by
  unfold pDivRem
  obtain ⟨h1, h2⟩ := pDivLoop_spec g hg (pDeg f + 1 - pDeg g) [] f
  refine ⟨by rw [← h1]; simp, ?_⟩
  have sg := pSize_of_ne g hg
  have dg : pDeg g = pSize g - 1 := rfl
  have df : pDeg f = pSize f - 1 := rfl
  generalize pDivLoop (pDeg f + 1 - pDeg g) [] f g = res at h1 h2 ⊢
  rcases h2 with h2 | h2
  · exact h2
  · rw [dg, df] at h2
    by_cases hf : pφ f = 0
    · rw [(pSize_eq_zero f).2 hf] at h2; omega
    · have := pSize_of_ne f hf
      omega

/-! ### the operation record -/

/-- polynomials over a field as coefficient lists, following `yui/src/types/poly/poly.rs` -/
def polyPre (F : Type) [Field F] [DecidableEq F] : EOps (List F) where
  zero := []
  one := [1]
  add := pAdd
  mul := pMul
  neg := pNeg
  beq a b := pSize (pSub a b) == 0
  normUnit a := if pLead a = 0 then [1] else [(pLead a)⁻¹]
  inv a := if pSize a = 1 then some [(pLead a)⁻¹] else none
  isUnit a := pSize a == 1
  quo a b := (pDivRem a b).1
  rem a b := (pDivRem a b).2
  gcdx _ _ := ([], [], [])
  size := pSize

def polyOps (F : Type) [Field F] [DecidableEq F] : EOps (List F) :=
  { polyPre F with gcdx := genGcdx (polyPre F) }

theorem poly_gcdx (x y : List F) : (polyOps F).gcdx x y = genGcdx (polyOps F) x y :=
  (genGcdx_with (polyPre F) _ x y).symm

theorem pφ_const (c : F) : pφ [c] = C c := by simp

theorem pSize_one_iff (a : List F) : pSize a = 1 ↔ degree (pφ a) = 0 := by
  by_cases h : pφ a = 0
  · rw [(pSize_eq_zero a).2 h, h, degree_zero]; simp
  · rw [pSize_of_ne a h, degree_eq_natDegree h]
    constructor
    · intro h1; have : (pφ a).natDegree = 0 := by omega
      rw [this]; rfl
    · intro h1
      have : (pφ a).natDegree = 0 := by exact_mod_cast h1
      omega

theorem poly_normUnit (a : List F) :
    (polyOps F).normUnit a = if pLead a = 0 then [1] else [(pLead a)⁻¹] := rfl

/-- normalised = zero or monic -/
theorem poly_norm_iff (a : List F) : pφ ((polyOps F).normUnit a) = 1 ↔ pφ a = 0 ∨ (pφ a).Monic := by
  rw [poly_normUnit, pLead_eq]
  split
  · rename_i h
    rw [pφ_const, C_1]
    exact ⟨fun _ => Or.inl (leadingCoeff_eq_zero.1 h), fun _ => rfl⟩
  · rename_i h
    rw [pφ_const, ← C_1, C_inj, inv_eq_one]
    constructor
    · intro h1; exact Or.inr h1
    · rintro (h1 | h1)
      · exact absurd (leadingCoeff_eq_zero.2 h1) h
      · exact h1

theorem lawful_poly : Lawful (polyOps F).toROps (pφ (F := F)) where
  zero := rfl
  one := by show pφ [1] = 1; simp
  add := pφ_add
  mul := pφ_mul
  neg := pφ_neg
  beq a b := by
    show (pSize (pSub a b) == 0) = true ↔ _
    rw [beq_iff_eq, pSize_eq_zero, pφ_sub, sub_eq_zero]

theorem lawfulE_poly : LawfulE (polyOps F) (pφ (F := F)) where
  toLawful := lawful_poly
  inv_mul u v h := by
    have h' : (if pSize u = 1 then some [(pLead u)⁻¹] else none) = some v := h
    split at h'
    · rename_i hs
      injection h' with h'; subst h'
      have hd := (pSize_one_iff u).1 hs
      have hu : pφ u = C (pφ u).leadingCoeff := by
        have h1 := eq_C_of_degree_eq_zero hd
        rw [h1, leadingCoeff_C]
      have hne : (pφ u).leadingCoeff ≠ 0 := by
        intro h0
        rw [leadingCoeff_eq_zero] at h0
        rw [h0, degree_zero] at hd
        exact absurd hd (by decide)
      rw [pφ_const, pLead_eq, hu, leadingCoeff_C, ← C_mul, mul_inv_cancel₀ hne, C_1]
    · cases h'

theorem lawfulEucBase_poly : LawfulEucBase (polyOps F) (pφ (F := F)) where
  toLawfulE := lawfulE_poly
  inv_normUnit a := by
    rw [poly_normUnit]
    split
    · refine ⟨[(pLead [(1 : F)])⁻¹], ?_⟩
      show (if pSize [(1 : F)] = 1 then some [(pLead [(1 : F)])⁻¹] else none) = _
      rw [if_pos (by simp [pSize])]
    · rename_i h
      refine ⟨[(pLead [(pLead a)⁻¹])⁻¹], ?_⟩
      show (if pSize [(pLead a)⁻¹] = 1 then some [(pLead [(pLead a)⁻¹])⁻¹] else none) = _
      rw [if_pos (by simp [pSize, h])]
  normUnit_congr a b h := by
    rw [poly_normUnit, poly_normUnit, pLead_eq, pLead_eq, h]
  norm_mul a := by
    rw [poly_norm_iff]
    show pφ (pMul a ((polyOps F).normUnit a)) = 0 ∨ (pφ (pMul a ((polyOps F).normUnit a))).Monic
    rw [pφ_mul, poly_normUnit, pLead_eq]
    split
    · rename_i h
      left; rw [leadingCoeff_eq_zero.1 h, zero_mul]
    · rename_i h
      right
      rw [pφ_const, Monic, leadingCoeff_mul, leadingCoeff_C, mul_inv_cancel₀ h]
  norm_unique a b ha hb h1 h2 := by
    rw [poly_norm_iff] at ha hb
    rcases ha with ha | ha
    · rw [ha] at h1 ⊢; exact (zero_dvd_iff.1 h1).symm
    · rcases hb with hb | hb
      · rw [hb] at h2 ⊢; exact zero_dvd_iff.1 h2
      · exact eq_of_monic_of_associated ha hb (associated_of_dvd_dvd h1 h2)
  isUnit_iff a := by
    show (pSize a == 1) = true ↔ _
    rw [beq_iff_eq, pSize_one_iff, isUnit_iff_degree_eq_zero]
  div_rem a b hb := (pDivRem_spec a b hb).1
  size_rem a b hb := (pDivRem_spec a b hb).2
  size_dvd a b hb h := by
    show pSize a ≤ pSize b
    have ha : pφ a ≠ 0 := by
      intro h0; rw [h0] at h; exact hb (zero_dvd_iff.1 h)
    rw [pSize_of_ne a ha, pSize_of_ne b hb]
    have := natDegree_le_of_dvd h hb
    omega

/-- **polynomials over a field** (coefficient lists; long division, `normalizing_unit` = inverse of the leading
coefficient, units = non-zero constants, `size = deg + 1`, the generic `EucRing::gcdx`) are a lawful Euclidean
operation record, for every field `F` with decidable equality -/
theorem lawfulEuc_poly : LawfulEuc (polyOps F) (pφ (F := F)) :=
  lawfulEuc_of_genGcdx (polyOps F) pφ lawfulEucBase_poly poly_gcdx

end Yuiv.C09
