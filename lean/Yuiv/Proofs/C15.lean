import Yuiv.Model.C15
/-
C15 — spec definitions and helper lemmas (integers, Gaussian / Eisenstein division, generic Euclid loop).
-/
import Mathlib.Tactic.Ring
import Mathlib.Tactic.Linarith
import Mathlib.Algebra.Order.Ring.Abs
namespace Yuiv.C15
open Yuiv

theorem iabs_eq_abs (a : Int) : iabs a = |a| := by
  unfold iabs; split
  · rw [abs_of_neg (by assumption)]
  · rw [abs_of_nonneg (by omega)]

/-- sign and size of the truncated remainder -/
theorem tmod_facts (a b : Int) (hb : b ≠ 0) :
    (0 ≤ a → 0 ≤ a.tmod b ∧ a.tmod b < iabs b) ∧ (a < 0 → a.tmod b ≤ 0 ∧ -(a.tmod b) < iabs b) := by
  have pos : ∀ x : Int, 0 ≤ x → 0 ≤ x.tmod b ∧ x.tmod b < iabs b := by
    intro x hx
    refine ⟨Int.tmod_nonneg b hx, ?_⟩
    unfold iabs; split
    · have := Int.tmod_lt_of_pos x (b := -b) (by omega)
      rwa [Int.tmod_neg] at this
    · exact Int.tmod_lt_of_pos x (by omega)
  refine ⟨pos a, fun ha => ?_⟩
  have := pos (-a) (by omega)
  rw [Int.neg_tmod] at this
  omega

theorem zdiv_rem (a b : Int) : a = zDivT a b * b + zRemT a b := by
  unfold zDivT zRemT
  have := Int.tmod_add_tdiv_mul a b
  omega

theorem zrem_lt (a b : Int) (hb : b ≠ 0) : iabs (zRemT a b) < iabs b := by
  unfold zRemT
  have h := tmod_facts a b hb
  by_cases ha : 0 ≤ a
  · have := h.1 ha; unfold iabs at *; split <;> omega
  · have := h.2 (by omega); unfold iabs at *; split <;> omega

theorem round_core (a b q r : Int)
    (h : (0 ≤ a → 0 ≤ r ∧ r < iabs b) ∧ (a < 0 → r ≤ 0 ∧ -r < iabs b)) (e : a = q * b + r) :
    let d := if nabs r ≤ nabs b - nabs r then (if (decide (a < 0)) == (decide (b < 0)) then q + 1 else q - 1) else q
    2 * iabs (a - d * b) ≤ iabs b ∧ (2 * iabs (a - d * b) = iabs b → iabs a < iabs (d * b)) := by
  intro d
  have e1 : (q + 1) * b = q * b + b := by ring
  have e2 : (q - 1) * b = q * b - b := by ring
  simp only [d]
  by_cases ha : 0 ≤ a
  · have := h.1 ha
    simp only [iabs, nabs, gt_iff_lt, beq_iff_eq, decide_eq_decide] at *
    split_ifs <;> (try simp only [e1, e2]) <;> omega
  · have := h.2 (by omega)
    simp only [iabs, nabs, gt_iff_lt, beq_iff_eq, decide_eq_decide] at *
    split_ifs <;> (try simp only [e1, e2]) <;> omega

theorem zdivround_exact (a b : Int) (hb : b ≠ 0) :
    2 * iabs (a - zDivRoundT a b * b) ≤ iabs b ∧
    (2 * iabs (a - zDivRoundT a b * b) = iabs b → iabs a < iabs (zDivRoundT a b * b)) :=
  round_core a b (a.tdiv b) (a.tmod b) (tmod_facts a b hb) (zdiv_rem a b)
end Yuiv.C15
