import Yuiv.Model.C15
/-
C15 — spec definitions and helper lemmas (integers, Gaussian / Eisenstein division, generic Euclid loop).
-/
import Mathlib.Tactic.Ring
import Mathlib.Tactic.Linarith
import Mathlib.Algebra.Order.Ring.Abs
import Mathlib.Algebra.Ring.Basic
import Mathlib.Algebra.Ring.MinimalAxioms
import Mathlib.Algebra.GroupWithZero.Associated
import Mathlib.Algebra.Group.Units.Basic
namespace Yuiv.C15
open Yuiv

theorem iabs_eq_abs (a : Int) : iabs a = |a| := by
  unfold iabs; split
  · rw [abs_of_neg (by assumption)]
  · rw [abs_of_nonneg (by omega)]

/-- sign and size of the truncated remainder -/
theorem tmod_facts (a b : Int) (hb : b ≠ 0) :
    (0 ≤ a → 0 ≤ a.tmod b ∧ a.tmod b < iabs b) ∧ (a < 0 → a.tmod b ≤ 0 ∧ -(a.tmod b) < iabs b) := by
  have pos : ∀ x : Int, 0 ≤ x → 0 ≤ x.tmod b ∧ x.tmod b < iabs b := by
    intro x hx
    refine ⟨Int.tmod_nonneg b hx, ?_⟩
    unfold iabs; split
    · have := Int.tmod_lt_of_pos x (b := -b) (by omega)
      rwa [Int.tmod_neg] at this
    · exact Int.tmod_lt_of_pos x (by omega)
  refine ⟨pos a, fun ha => ?_⟩
  have := pos (-a) (by omega)
  rw [Int.neg_tmod] at this
  omega

theorem zdiv_rem (a b : Int) : a = zDivT a b * b + zRemT a b := by
  unfold zDivT zRemT
  have := Int.tmod_add_tdiv_mul a b
  omega

theorem zrem_lt (a b : Int) (hb : b ≠ 0) : iabs (zRemT a b) < iabs b := by
  unfold zRemT
  have h := tmod_facts a b hb
  by_cases ha : 0 ≤ a
  · have := h.1 ha; unfold iabs at *; split <;> omega
  · have := h.2 (by omega); unfold iabs at *; split <;> omega

theorem round_core (a b q r : Int)
    (h : (0 ≤ a → 0 ≤ r ∧ r < iabs b) ∧ (a < 0 → r ≤ 0 ∧ -r < iabs b)) (e : a = q * b + r) :
    let d := if nabs r ≤ nabs b - nabs r then (if (decide (a < 0)) == (decide (b < 0)) then q + 1 else q - 1) else q
    2 * iabs (a - d * b) ≤ iabs b ∧ (2 * iabs (a - d * b) = iabs b → iabs a < iabs (d * b)) := by
  intro d
  have e1 : (q + 1) * b = q * b + b := by ring
  have e2 : (q - 1) * b = q * b - b := by ring
  simp only [d]
  by_cases ha : 0 ≤ a
  · have := h.1 ha
    simp only [iabs, nabs, gt_iff_lt, beq_iff_eq, decide_eq_decide] at *
    split_ifs <;> (try simp only [e1, e2]) <;> omega
  · have := h.2 (by omega)
    simp only [iabs, nabs, gt_iff_lt, beq_iff_eq, decide_eq_decide] at *
    split_ifs <;> (try simp only [e1, e2]) <;> omega

theorem zdivround_exact (a b : Int) (hb : b ≠ 0) :
    2 * iabs (a - zDivRoundT a b * b) ≤ iabs b ∧
    (2 * iabs (a - zDivRoundT a b * b) = iabs b → iabs a < iabs (zDivRoundT a b * b)) :=
  round_core a b (a.tdiv b) (a.tmod b) (tmod_facts a b hb) (zdiv_rem a b)
/-! ## quadratic integers -/

namespace QInt

@[ext] theorem ext' {x y : QInt} (h1 : x.a = y.a) (h2 : x.b = y.b) : x = y := by
  cases x; cases y; simp_all

theorem ne_zero_iff (y : QInt) : y ≠ zero ↔ (y.a ≠ 0 ∨ y.b ≠ 0) := by
  constructor
  · intro h; by_contra hc; rw [not_or, not_not, not_not] at hc; exact h (ext' hc.1 hc.2)
  · intro h hc; rw [hc] at h; simp [zero] at h

theorem gNorm_pos (y : QInt) (hy : y ≠ zero) : 0 < gNorm y := by
  unfold gNorm
  rcases (ne_zero_iff y).1 hy with h | h
  · have := sq_nonneg y.b; have : 0 < y.a * y.a := mul_self_pos.2 (by assumption)
    nlinarith
  · have := sq_nonneg y.a; have : 0 < y.b * y.b := mul_self_pos.2 (by assumption)
    nlinarith

theorem eNorm_pos (y : QInt) (hy : y ≠ zero) : 0 < eNorm y := by
  unfold eNorm
  have key : 4 * (y.a * y.a + y.a * y.b + y.b * y.b * 1) = (2 * y.a + y.b) ^ 2 + 3 * (y.b * y.b) := by ring
  rcases (ne_zero_iff y).1 hy with h | h
  · by_cases hb : y.b = 0
    · have : 0 < y.a * y.a := mul_self_pos.2 (by assumption)
      rw [hb]; nlinarith
    · have : 0 < y.b * y.b := mul_self_pos.2 (by assumption)
      nlinarith [sq_nonneg (2 * y.a + y.b)]
  · have : 0 < y.b * y.b := mul_self_pos.2 (by assumption)
    nlinarith [sq_nonneg (2 * y.a + y.b)]

theorem round_abs (a b : Int) (hb : 0 < b) : 2 * |a - zDivRoundT a b * b| ≤ b := by
  have := (zdivround_exact a b (ne_of_gt hb)).1
  rw [iabs_eq_abs, iabs_eq_abs, abs_of_pos hb] at this
  exact this

theorem sq_le_of_abs (e N : Int) (h : 2 * |e| ≤ N) : 4 * (e * e) ≤ N * N := by
  have h1 := abs_nonneg e
  have : |e| * |e| = e * e := abs_mul_abs_self e
  nlinarith

/-- division identity in Z[i] -/
theorem g_div_rem (x y : QInt) : x = add (gMul (gDiv x y) y) (gRem x y) := by
  ext <;> simp only [add, gRem, sub, gMul] <;> ring

/-- `2·N(a % b) ≤ N(b)` in Z[i] -/
theorem g_rem_bound (x y : QInt) (hy : y ≠ zero) : 2 * gNorm (gRem x y) ≤ gNorm y := by
  have hN := gNorm_pos y hy
  have h1 := sq_le_of_abs _ _ (round_abs (gMul x (gConj y)).a (gNorm y) hN)
  have h2 := sq_le_of_abs _ _ (round_abs (gMul x (gConj y)).b (gNorm y) hN)
  simp only [gRem, gDiv, gDivRound, sub, gMul, gConj] at *
  generalize zDivRoundT _ (gNorm y) = q1 at *
  generalize zDivRoundT _ (gNorm y) = q2 at *
  simp only [gNorm] at *
  obtain ⟨a1, a2⟩ := x
  obtain ⟨b1, b2⟩ := y
  simp only at *
  set N := b1 * b1 - b2 * b2 * -1 with hNd
  have key : ((a1 - (b1 * q1 + b2 * q2 * -1)) * (a1 - (b1 * q1 + b2 * q2 * -1)) - (a2 - (b1 * q2 + b2 * q1)) * (a2 - (b1 * q2 + b2 * q1)) * -1) * N
      = (a1 * b1 + a2 * -b2 * -1 - q1 * N) * (a1 * b1 + a2 * -b2 * -1 - q1 * N) + (a1 * -b2 + a2 * b1 - q2 * N) * (a1 * -b2 + a2 * b1 - q2 * N) := by
    rw [hNd]; ring
  nlinarith

/-- division identity in Z[ω] -/
theorem e_div_rem (x y : QInt) : x = add (eMul (eDiv x y) y) (eRem x y) := by
  ext <;> simp only [add, eRem, sub, eMul] <;> ring

/-- `4·N(a % b) ≤ 3·N(b)` in Z[ω] -/
theorem e_rem_bound (x y : QInt) (hy : y ≠ zero) : 4 * eNorm (eRem x y) ≤ 3 * eNorm y := by
  have hN := eNorm_pos y hy
  have r1 := round_abs ((eMul x (eConj y)).a + (eMul x (eConj y)).b) (eNorm y) hN
  have r2 := round_abs (eMul x (eConj y)).b (eNorm y) hN
  simp only [eRem, eDiv, eDivRound, sub, eMul, eConj] at *
  generalize zDivRoundT _ (eNorm y) = m at *
  generalize zDivRoundT _ (eNorm y) = n at *
  simp only [eNorm] at *
  obtain ⟨a1, a2⟩ := x
  obtain ⟨b1, b2⟩ := y
  simp only at *
  set N := b1 * b1 + b1 * b2 + b2 * b2 * 1 with hNd
  set e := a1 * (b1 + b2) + a2 * -b2 * -1 + (a1 * -b2 + a2 * (b1 + b2) + a2 * -b2) - m * N with he
  set f := a1 * -b2 + a2 * (b1 + b2) + a2 * -b2 - n * N with hf
  have key : ((a1 - (b1 * (m - n) + b2 * n * -1)) * (a1 - (b1 * (m - n) + b2 * n * -1)) +
      (a1 - (b1 * (m - n) + b2 * n * -1)) * (a2 - (b1 * n + b2 * (m - n) + b2 * n)) +
      (a2 - (b1 * n + b2 * (m - n) + b2 * n)) * (a2 - (b1 * n + b2 * (m - n) + b2 * n)) * 1) * N
      = e * e - e * f + f * f := by
    rw [he, hf, hNd]; ring
  have h1 := abs_le.1 (show |e| ≤ N - |e| by linarith)
  have h2 := abs_le.1 (show |f| ≤ N - |f| by linarith)
  have ae := abs_nonneg e
  have af := abs_nonneg f
  have se : |e| * |e| = e * e := abs_mul_abs_self e
  have sf : |f| * |f| = f * f := abs_mul_abs_self f
  have hef : -(e * f) ≤ |e| * |f| := by
    have := neg_abs_le (e * f); rw [abs_mul] at this; linarith [neg_le_abs (e*f)]
  -- e² - ef + f² ≤ |e|² + |e||f| + |f|² ≤ 3 N²/4
  nlinarith

end QInt

/-! ## the generic Euclid loop -/

/-- what the generic code of `euc_ring.rs` assumes of a type implementing `EucRing`:
the operations are those of a commutative ring, `/` and `%` satisfy the Euclidean law w.r.t. some size
function, and `normalizing_unit` picks a unit that is compatible with passing to associates. -/
structure LawfulEuc {α : Type} [CommRing α] (E : EucOps α) : Prop where
  zero_eq : E.zero = 0
  one_eq : E.one = 1
  isZero_iff : ∀ a, E.isZero a = true ↔ a = 0
  isOne_iff : ∀ a, E.isOne a = true ↔ a = 1
  sub_eq : ∀ a b, E.sub a b = a - b
  mul_eq : ∀ a b, E.mul a b = a * b
  div_rem : ∀ a b, b ≠ 0 → a = E.div a b * b + E.rem a b
  norm_rem : ∀ a b, b ≠ 0 → E.norm (E.rem a b) < E.norm b
  rem_of_dvd : ∀ a b, b ≠ 0 → b ∣ a → E.rem a b = 0
  normUnit_isUnit : ∀ a, IsUnit (E.normUnit a)
  normUnit_assoc : ∀ a u, a ≠ 0 → IsUnit u → E.normUnit (a * u) * u = E.normUnit a

namespace LawfulEuc
variable {α : Type} [CommRing α] {E : EucOps α} (L : LawfulEuc E)
include L

theorem isZero_false (a : α) : E.isZero a = false ↔ a ≠ 0 := by
  rw [← Bool.not_eq_true, L.isZero_iff]

theorem normalized_eq (x : α) : E.normalized x = x * E.normUnit x := by
  unfold EucOps.normalized
  simp only
  split
  · rename_i h; rw [(L.isOne_iff _).1 h, mul_one]
  · rw [L.mul_eq]

theorem dvd_normalized (c x : α) : c ∣ E.normalized x ↔ c ∣ x := by
  rw [L.normalized_eq]; exact (L.normUnit_isUnit x).dvd_mul_right

theorem normalized_dvd (x c : α) : E.normalized x ∣ c ↔ x ∣ c := by
  rw [L.normalized_eq]; exact (L.normUnit_isUnit x).mul_right_dvd

theorem normalized_idem (x : α) : E.normalized (E.normalized x) = E.normalized x := by
  rw [L.normalized_eq (E.normalized x), L.normalized_eq x]
  by_cases hx : x = 0
  · subst hx; simp
  · have h := L.normUnit_assoc x (E.normUnit x) hx (L.normUnit_isUnit x)
    have hu := L.normUnit_isUnit x
    have : E.normUnit (x * E.normUnit x) = 1 := hu.mul_left_inj.1 (by rw [h, one_mul])
    rw [this, mul_one]

theorem normalized_assoc (x u : α) (hu : IsUnit u) : E.normalized (x * u) = E.normalized x := by
  rw [L.normalized_eq, L.normalized_eq]
  by_cases hx : x = 0
  · subst hx; simp
  · rw [mul_assoc, mul_comm u, L.normUnit_assoc x u hx hu]

theorem divides_imp (x y : α) (h : E.divides x y = true) : x ≠ 0 ∧ x ∣ y := by
  unfold EucOps.divides at h
  rw [Bool.and_eq_true, Bool.not_eq_true', L.isZero_false, L.isZero_iff] at h
  refine ⟨h.1, ?_⟩
  have := L.div_rem y x h.1
  rw [h.2, add_zero] at this
  exact ⟨E.div y x, this.trans (mul_comm _ _)⟩

/-- the Euclid loop terminates within `norm y + 1` rounds and preserves the common divisors -/
theorem gcdLoop_spec (fuel : Nat) (x y : α) (hf : E.norm y < fuel) :
    ∃ d, E.gcdLoop fuel x y = some d ∧ ∀ c, c ∣ d ↔ (c ∣ x ∧ c ∣ y) := by
  induction fuel generalizing x y with
  | zero => omega
  | succ f ih =>
    unfold EucOps.gcdLoop
    by_cases hy : E.isZero y = true
    · simp only [hy, if_true]
      refine ⟨x, rfl, fun c => ?_⟩
      rw [(L.isZero_iff y).1 hy]; simp
    · simp only [hy]
      have hy0 : y ≠ 0 := fun h => hy ((L.isZero_iff y).2 h)
      have hn := L.norm_rem x y hy0
      obtain ⟨d, hd, hc⟩ := ih y (E.rem x y) (by omega)
      refine ⟨d, by simpa using hd, fun c => ?_⟩
      rw [hc c]
      have e := L.div_rem x y hy0
      constructor
      · rintro ⟨h1, h2⟩
        refine ⟨?_, h1⟩
        rw [e]; exact dvd_add (Dvd.dvd.mul_left h1 _) h2
      · rintro ⟨h1, h2⟩
        refine ⟨h2, ?_⟩
        have : E.rem x y = x - E.div x y * y := (sub_eq_of_eq_add' e).symm
        rw [this]; exact dvd_sub h1 (Dvd.dvd.mul_left h2 _)

/-- `gcd` always returns (no fuel exhaustion, no panic); the result has exactly the common divisors of
`x` and `y` as divisors, and is normalised — on every path, the early returns included -/
theorem gcd_spec (x y : α) :
    ∃ d, E.gcd x y = .ok d ∧ (∀ c, c ∣ d ↔ (c ∣ x ∧ c ∣ y)) ∧ E.normalized d = d := by
  unfold EucOps.gcd
  by_cases h0 : (E.isZero x && E.isZero y) = true
  · rw [if_pos h0]
    rw [Bool.and_eq_true, L.isZero_iff, L.isZero_iff] at h0
    refine ⟨E.zero, rfl, fun c => ?_, ?_⟩
    · rw [L.zero_eq, h0.1, h0.2]; simp
    · rw [L.normalized_eq, L.zero_eq, zero_mul]
  rw [if_neg h0]
  by_cases h1 : E.divides x y = true
  · rw [if_pos h1]
    have ⟨_, hd⟩ := L.divides_imp x y h1
    refine ⟨_, rfl, fun c => ?_, L.normalized_idem x⟩
    rw [L.dvd_normalized]
    exact ⟨fun h => ⟨h, dvd_trans h hd⟩, fun h => h.1⟩
  rw [if_neg h1]
  by_cases h2 : E.divides y x = true
  · rw [if_pos h2]
    have ⟨_, hd⟩ := L.divides_imp y x h2
    refine ⟨_, rfl, fun c => ?_, L.normalized_idem y⟩
    rw [L.dvd_normalized]
    exact ⟨fun h => ⟨dvd_trans h hd, h⟩, fun h => h.2⟩
  rw [if_neg h2]
  obtain ⟨d, hd, hc⟩ := L.gcdLoop_spec (E.norm y + 1) x y (by omega)
  rw [hd]
  refine ⟨_, rfl, fun c => ?_, L.normalized_idem d⟩
  rw [L.dvd_normalized]; exact hc c

theorem gcdxLoop_spec (X Y : α) (fuel : Nat) (x y s0 s1 t0 t1 : α)
    (h0 : s0 * X + t0 * Y = x) (h1 : s1 * X + t1 * Y = y) (hf : E.norm y < fuel) :
    ∃ d s t, E.gcdxLoop fuel x y s0 s1 t0 t1 = some (d, s, t) ∧ s * X + t * Y = d ∧
      E.gcdLoop fuel x y = some d := by
  induction fuel generalizing x y s0 s1 t0 t1 with
  | zero => omega
  | succ f ih =>
    unfold EucOps.gcdxLoop EucOps.gcdLoop
    by_cases hy : E.isZero y = true
    · simp only [hy, if_true]
      exact ⟨x, s0, t0, rfl, h0, rfl⟩
    · simp only [hy]
      have hy0 : y ≠ 0 := fun h => hy ((L.isZero_iff y).2 h)
      have hn := L.norm_rem x y hy0
      have e := L.div_rem x y hy0
      have hr : E.rem x y = x - E.div x y * y := (sub_eq_of_eq_add' e).symm
      obtain ⟨d, s, t, hd, hb, hg⟩ := ih y (E.rem x y) s1 (E.sub s0 (E.mul (E.div x y) s1)) t1
        (E.sub t0 (E.mul (E.div x y) t1)) h1
        (by rw [L.sub_eq, L.sub_eq, L.mul_eq, L.mul_eq, hr, ← h0, ← h1]; ring) (by omega)
      exact ⟨d, s, t, by simpa using hd, hb, by simpa using hg⟩

/-- `gcdx` returns `(d, s, t)` with `s·x + t·y = d` and `d = gcd(x, y)`, on every path -/
theorem gcdx_spec (x y : α) :
    ∃ d s t, E.gcdx x y = .ok (d, s, t) ∧ s * x + t * y = d ∧ E.gcd x y = .ok d := by
  unfold EucOps.gcdx EucOps.gcd
  by_cases h0 : (E.isZero x && E.isZero y) = true
  · rw [if_pos h0, if_pos h0]
    exact ⟨_, _, _, rfl, by rw [L.zero_eq]; simp, rfl⟩
  rw [if_neg h0, if_neg h0]
  by_cases h1 : E.divides x y = true
  · rw [if_pos h1, if_pos h1]
    refine ⟨_, _, _, rfl, ?_, ?_⟩
    · rw [L.mul_eq, L.zero_eq]; ring
    · rw [L.normalized_eq, L.mul_eq]
  rw [if_neg h1, if_neg h1]
  by_cases h2 : E.divides y x = true
  · rw [if_pos h2, if_pos h2]
    refine ⟨_, _, _, rfl, ?_, ?_⟩
    · rw [L.mul_eq, L.zero_eq]; ring
    · rw [L.normalized_eq, L.mul_eq]
  rw [if_neg h2, if_neg h2]
  obtain ⟨d, s, t, hd, hb, hg⟩ := L.gcdxLoop_spec x y (E.norm y + 1) x y E.one E.zero E.zero E.one
    (by rw [L.one_eq, L.zero_eq]; ring) (by rw [L.one_eq, L.zero_eq]; ring) (by omega)
  rw [hd, hg]
  simp only
  by_cases hu : E.isOne (E.normUnit d) = true
  · rw [if_pos hu]
    refine ⟨_, _, _, rfl, hb, ?_⟩
    unfold EucOps.normalized; simp only [hu, if_true]
  · rw [if_neg hu]
    refine ⟨_, _, _, rfl, ?_, ?_⟩
    · rw [L.mul_eq, L.mul_eq, L.mul_eq, ← hb]; ring
    · unfold EucOps.normalized; simp only [hu]; rfl

/-- the gcd does not depend on the argument order (in a domain) -/
theorem gcd_comm [IsDomain α] (x y d d' : α) (h : E.gcd x y = .ok d) (h' : E.gcd y x = .ok d') : d = d' := by
  obtain ⟨d0, e, hc, hn⟩ := L.gcd_spec x y
  obtain ⟨d1, e', hc', hn'⟩ := L.gcd_spec y x
  rw [h] at e; rw [h'] at e'
  injection e with e; injection e' with e'
  subst e; subst e'
  have h1 : d ∣ d' := (hc' d).2 ⟨((hc d).1 dvd_rfl).2, ((hc d).1 dvd_rfl).1⟩
  have h2 : d' ∣ d := (hc d').2 ⟨((hc' d').1 dvd_rfl).2, ((hc' d').1 dvd_rfl).1⟩
  obtain ⟨u, hu⟩ := associated_of_dvd_dvd h1 h2
  rw [← hn, ← hn', ← hu, L.normalized_assoc d u u.isUnit]

/-- `lcm·gcd` is an associate of `x·y`, and the lcm is normalised (`x`, `y` not both zero) -/
theorem lcm_spec (x y : α) (hxy : ¬(x = 0 ∧ y = 0)) :
    ∃ l g, E.lcm x y = .ok l ∧ E.gcd x y = .ok g ∧ Associated (l * g) (x * y) ∧ E.normalized l = l := by
  obtain ⟨g, e, hc, _⟩ := L.gcd_spec x y
  have hg : g ≠ 0 := by
    intro h0
    have := (hc g).1 dvd_rfl
    rw [h0, zero_dvd_iff, zero_dvd_iff] at this
    exact hxy this
  have hgy : g ∣ y := ((hc g).1 dvd_rfl).2
  unfold EucOps.lcm
  rw [e]
  simp only [(L.isZero_false g).2 hg]
  refine ⟨_, g, rfl, rfl, ?_, L.normalized_idem _⟩
  have hy := L.div_rem y g hg
  rw [L.rem_of_dvd y g hg hgy, add_zero] at hy
  rw [L.normalized_eq, L.mul_eq]
  generalize E.div y g = q at hy ⊢
  have hu := L.normUnit_isUnit (x * q)
  refine Associated.symm ⟨hu.unit, ?_⟩
  rw [IsUnit.unit_spec, hy]; ring

/-- `lcm(0, 0)` divides by the gcd `0`: the real code panics (every ring of the library panics on `y / 0`) -/
theorem lcm_zero_zero : E.lcm 0 0 = .panic := by
  obtain ⟨g, e, hc, _⟩ := L.gcd_spec 0 0
  have : g = 0 := by
    have := (hc 0).2 ⟨dvd_rfl, dvd_rfl⟩
    exact zero_dvd_iff.1 this
  unfold EucOps.lcm
  rw [e, this]
  simp only [(L.isZero_iff 0).2 rfl, if_true]

end LawfulEuc
end Yuiv.C15
