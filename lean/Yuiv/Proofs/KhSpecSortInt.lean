import Yuiv.Proofs.KhSpecSort
import Yuiv.Proofs.KhSpecFnQ
/-
KhSpec (helper, no property theorem): core `Array.qsort` SORTS when the comparison is `key a < key b` for an
INTEGER key (the development of `KhSpecSort.lean` repeated with `key : α → Int` in the namespace `IntKey`; `Frame`
and its lemmas are reused), and the quantum degrees `qsOf` are listed in strictly increasing order.

  * `IntKey.loop_spec`, `IntKey.loop_lt`, `IntKey.med3`, `IntKey.part_core`, `IntKey.qpartition_spec`,
    `IntKey.sort_spec` : as in `KhSpecSort.lean`;
  * `qsort_sorted_intKey` : sortedness of `Array.qsort` for an integer key;
  * `qsOf_sorted`         : `(qsOf c q0 gens).toList.Pairwise (· < ·)`.
-/
open private Array.qsort.sort from Init.Data.Array.QSort.Basic
open private Array.qpartition.loop from Init.Data.Array.QSort.Basic

namespace Yuiv.KhSpec

namespace IntKey

section
variable {α : Type} (key : α → Int)

/-- the comparison of `qsort_sorted_key` -/
abbrev ltK : α → α → Bool := fun a b => decide (key a < key b)

theorem loop_spec {n : Nat} (lo hi : Nat) (hhi : hi < n) (pivot : α) (as : Vector α n) (i k : Nat)
    (ilo : lo ≤ i) (ik : i ≤ k) (w : k ≤ hi) :
    (∀ j (h : j < n), lo ≤ j → j < i → key as[j] < key pivot) →
    (∀ j (h : j < n), i ≤ j → j < k → key pivot ≤ key as[j]) →
    key as[hi] = key pivot →
    (∀ j (h : j < n), lo ≤ j → j < (Array.qpartition.loop (ltK key) lo hi hhi pivot as i k ilo ik w).1.val →
      key (Array.qpartition.loop (ltK key) lo hi hhi pivot as i k ilo ik w).2[j] < key pivot) ∧
    (∀ j (h : j < n), (Array.qpartition.loop (ltK key) lo hi hhi pivot as i k ilo ik w).1.val < j → j ≤ hi →
      key pivot ≤ key (Array.qpartition.loop (ltK key) lo hi hhi pivot as i k ilo ik w).2[j]) ∧
    (∀ (h : (Array.qpartition.loop (ltK key) lo hi hhi pivot as i k ilo ik w).1.val < n),
      key (Array.qpartition.loop (ltK key) lo hi hhi pivot as i k ilo ik w).2[
        (Array.qpartition.loop (ltK key) lo hi hhi pivot as i k ilo ik w).1.val] = key pivot) ∧
    Frame as (Array.qpartition.loop (ltK key) lo hi hhi pivot as i k ilo ik w).2 lo hi := by
  fun_induction Array.qpartition.loop (ltK key) lo hi hhi pivot as i k ilo ik w with
  | case1 as i k ilo ik w h hlt ih =>
    intro H1 H2 H3
    simp only [ltK, decide_eq_true_eq] at hlt
    have := ih ?_ ?_ ?_
    · obtain ⟨a, b, c, d⟩ := this
      exact ⟨a, b, c, (Frame.swap as lo hi i k (by omega) (by omega) ilo (by omega) (by omega) (by omega)).trans d⟩
    · intro j hj h1 h2
      rw [Vector.getElem_swap]
      split
      · exact hlt
      · split
        · omega
        · exact H1 j hj h1 (by omega)
    · intro j hj h1 h2
      rw [Vector.getElem_swap]
      split
      · omega
      · split
        · exact H2 i (by omega) (by omega) (by omega)
        · exact H2 j hj (by omega) (by omega)
    · rw [Vector.getElem_swap_of_ne (by omega) (by omega)]; exact H3
  | case2 as i k ilo ik w h hlt ih =>
    intro H1 H2 H3
    simp only [ltK, decide_eq_true_eq, Int.not_lt] at hlt
    apply ih H1 ?_ H3
    intro j hj h1 h2
    by_cases hjk : j = k
    · subst hjk; exact hlt
    · exact H2 j hj h1 (by omega)
  | case3 as i k ilo ik w h =>
    intro H1 H2 H3
    have hk : k = hi := by omega
    subst hk
    refine ⟨?_, ?_, ?_, Frame.swap as lo k i k (by omega) (by omega) ilo (by omega) (by omega) (by omega)⟩
    · intro j hj h1 h2
      dsimp only at h2
      rw [Vector.getElem_swap_of_ne (by omega) (by omega)]
      exact H1 j hj h1 h2
    · intro j hj h1 h2
      dsimp only at h1
      rw [Vector.getElem_swap]
      split
      · omega
      · split
        · exact H2 i (by omega) (by omega) (by omega)
        · exact H2 j hj (by omega) (by omega)
    · intro _
      dsimp only
      rw [Vector.getElem_swap_left]; exact H3

theorem loop_lt {n : Nat} (lo hi : Nat) (hhi : hi < n) (pivot : α) (as : Vector α n) (i k : Nat)
    (ilo : lo ≤ i) (ik : i ≤ k) (w : k ≤ hi) :
    (∃ j, ∃ h : j < n, i ≤ j ∧ j < hi ∧ key pivot ≤ key as[j]) →
    (Array.qpartition.loop (ltK key) lo hi hhi pivot as i k ilo ik w).1.val < hi := by
  fun_induction Array.qpartition.loop (ltK key) lo hi hhi pivot as i k ilo ik w with
  | case1 as i k ilo ik w h hlt ih =>
    rintro ⟨j, hj, h1, h2, h3⟩
    simp only [ltK, decide_eq_true_eq] at hlt
    apply ih
    have hjk : j ≠ k := by rintro rfl; omega
    by_cases hji : j = i
    · subst hji
      refine ⟨k, by omega, by omega, h, ?_⟩
      rw [Vector.getElem_swap_right]; exact h3
    · refine ⟨j, hj, by omega, h2, ?_⟩
      rw [Vector.getElem_swap_of_ne hji hjk]; exact h3
  | case2 as i k ilo ik w h hlt ih =>
    intro H
    exact ih H
  | case3 as i k ilo ik w h =>
    rintro ⟨j, hj, h1, h2, h3⟩
    dsimp only
    omega

theorem med3 {n : Nat} (as : Vector α n) (mid hi : Nat) (hm : mid < n) (hhi : hi < n) :
    key (if ltK key as[mid] as[hi] then as.swap mid hi else as)[hi] ≤
      key (if ltK key as[mid] as[hi] then as.swap mid hi else as)[mid] := by
  split
  · rename_i h
    simp only [ltK, decide_eq_true_eq] at h
    rw [Vector.getElem_swap_right, Vector.getElem_swap_left]; omega
  · rename_i h
    simp only [ltK, decide_eq_true_eq, Int.not_lt] at h
    exact h

/-- what `qpartition as lo hi` returns -/
structure PartSpec {n : Nat} (as : Vector α n) (lo hi : Nat) (m : Nat) (as' : Vector α n) : Prop where
  lt : ∀ (hm : m < n) j (h : j < n), lo ≤ j → j < m → key as'[j] < key as'[m]
  ge : ∀ (hm : m < n) j (h : j < n), m < j → j ≤ hi → key as'[m] ≤ key as'[j]
  mlt : lo < hi → m < hi
  frame : Frame as as' lo hi

theorem part_core {n : Nat} (as as3 : Vector α n) (lo hi : Nat) (w : lo ≤ hi) (hlo : lo < n) (hhi : hi < n)
    (hF : Frame as as3 lo hi) (hmid : key as3[hi] ≤ key as3[(lo + hi) / 2]) :
    PartSpec key as lo hi
      (Array.qpartition.loop (ltK key) lo hi hhi as3[hi] as3 lo lo (Nat.le_refl _) (Nat.le_refl _) w).1.val
      (Array.qpartition.loop (ltK key) lo hi hhi as3[hi] as3 lo lo (Nat.le_refl _) (Nat.le_refl _) w).2 := by
  obtain ⟨a, b, c, d⟩ := loop_spec key lo hi hhi as3[hi] as3 lo lo (Nat.le_refl _) (Nat.le_refl _) w
    (fun j h h1 h2 => by omega) (fun j h h1 h2 => by omega) rfl
  refine ⟨?_, ?_, ?_, hF.trans d⟩
  · intro hm j h h1 h2
    rw [c hm]; exact a j h h1 h2
  · intro hm j h h1 h2
    rw [c hm]; exact b j h h1 h2
  · intro hlt
    apply loop_lt
    exact ⟨(lo + hi) / 2, by omega, by omega, by omega, hmid⟩

theorem qpartition_spec {n : Nat} (as : Vector α n) (lo hi : Nat) (w : lo ≤ hi) (hlo : lo < n) (hhi : hi < n) :
    PartSpec key as lo hi (Array.qpartition as (ltK key) lo hi w hlo hhi).1.val
      (Array.qpartition as (ltK key) lo hi w hlo hhi).2 := by
  unfold Array.qpartition
  dsimp only
  apply part_core
  · refine Frame.trans ?_ (Frame.ite_swap _ _ _ _ _ _ _ _ ?_ ?_ ?_ ?_)
    refine Frame.trans ?_ (Frame.ite_swap _ _ _ _ _ _ _ _ ?_ ?_ ?_ ?_)
    refine Frame.ite_swap _ _ _ _ _ _ _ _ ?_ ?_ ?_ ?_
    all_goals omega
  · exact med3 ..
  · exact hlo

theorem sort_spec {n : Nat} (as : Vector α n) (lo hi : Nat) (w : lo ≤ hi) (hlo : lo < n) (hhi : hi < n) :
    (∀ i j (hi' : i < n) (hj : j < n), lo ≤ i → i ≤ j → j ≤ hi →
      key (Array.qsort.sort (ltK key) as lo hi w hlo hhi)[i] ≤ key (Array.qsort.sort (ltK key) as lo hi w hlo hhi)[j]) ∧
    Frame as (Array.qsort.sort (ltK key) as lo hi w hlo hhi) lo hi := by
  fun_induction Array.qsort.sort (ltK key) as lo hi w hlo hhi with
  | case1 as lo hi w hlo hhi h1 mid hmid as' hx h2 =>
    have hp := qpartition_spec key as lo hi w hlo hhi
    rw [hx] at hp
    have := hp.mlt h1
    dsimp only at this
    omega
  | case2 as lo hi w hlo hhi h1 mid hmid as' hx h2 ih3 ih2 ih1 =>
    have hp := qpartition_spec key as lo hi w hlo hhi
    rw [hx] at hp
    dsimp only at hp
    clear ih3
    obtain ⟨s2, f2⟩ := ih2
    obtain ⟨s1, f1⟩ := ih1
    generalize Array.qsort.sort (ltK key) as' lo mid _ _ _ = as2 at s2 f2 s1 f1 ⊢
    generalize Array.qsort.sort (ltK key) as2 (mid + 1) hi _ _ _ = as3 at s1 f1 ⊢
    have hmn : mid < n := by omega
    refine ⟨?_, (hp.frame.trans (f2.mono (Nat.le_refl _) (by omega))).trans (f1.mono (by omega) (Nat.le_refl _))⟩
    -- everything in `[lo, mid]` of `as2` is `≤ pv`, everything in `[mid+1, hi]` of `as3` is `≥ pv`
    have hle2 : ∀ j (h : j < n), lo ≤ j → j ≤ mid → key as2[j] ≤ key as'[mid] := by
      apply f2.seg (fun x => key x ≤ key as'[mid])
      intro j h a b
      by_cases hjm : j = mid
      · subst hjm; exact Int.le_refl _
      · exact Int.le_of_lt (hp.lt hmn j h a (by omega))
    have hge3 : ∀ j (h : j < n), mid + 1 ≤ j → j ≤ hi → key as'[mid] ≤ key as3[j] := by
      apply f1.seg (fun x => key as'[mid] ≤ key x)
      intro j h a b
      rw [f2.out j h (by omega)]
      exact hp.ge hmn j h (by omega) b
    intro i j hi' hj a b c
    by_cases hjm : j ≤ mid
    · rw [f1.out i hi' (by omega), f1.out j hj (by omega)]
      exact s2 i j hi' hj a b hjm
    · by_cases him : mid + 1 ≤ i
      · exact s1 i j hi' hj him b c
      · rw [f1.out i hi' (by omega)]
        exact Int.le_trans (hle2 i hi' a (by omega)) (hge3 j hj (by omega) c)
  | case3 as lo hi w hlo hhi h1 =>
    refine ⟨?_, Frame.refl ..⟩
    intro i j hi' hj a b c
    have : i = j := by omega
    subst this; exact Int.le_refl _

end

end IntKey

/-- `Array.qsort` with the comparison `key a < key b` (INTEGER key) returns an array with non-decreasing keys -/
theorem qsort_sorted_intKey {α : Type} (key : α → Int) (as : Array α) :
    ((as.qsort (fun a b => decide (key a < key b))).toList).Pairwise (fun a b => key a ≤ key b) := by
  unfold Array.qsort
  split
  · rename_i h
    have : as = #[] := Array.eq_empty_of_size_eq_zero h
    subst this; simp
  · rename_i h
    dsimp only
    rw [List.pairwise_iff_getElem]
    intro i j hi hj hij
    simp only [Array.length_toList, Vector.size_toArray] at hi hj
    simp only [Array.getElem_toList, Vector.getElem_toArray]
    exact (IntKey.sort_spec key as.toVector _ _ _ _ _).1 i j hi hj (by omega) (by omega) (by omega)

/-- the quantum degrees are listed in strictly increasing order -/
theorem qsOf_sorted (c : Yuiv.KhRef.Cube) (q0 : Int) (gens : Array (Array Yuiv.KhRef.Gen)) :
    (qsOf c q0 gens).toList.Pairwise (· < ·) := by
  have h1 : (qsOf c q0 gens).toList.Pairwise (fun a b => a ≤ b) := by
    rw [qsOf_eq]
    exact qsort_sorted_intKey id (preQs c q0 gens)
  have h2 : (qsOf c q0 gens).toList.Pairwise (· ≠ ·) := qsOf_nodup c q0 gens
  exact (h1.and h2).imp (fun h => by omega)

end Yuiv.KhSpec
