import Yuiv.Gen.BitSeqFn
import Yuiv.Proofs.C17
/-
Helper definitions and lemmas for `Yuiv/Props/C17Gen.lean` (no property theorem here).

`Yuiv.GenBitSeq.*` is GENERATED from the source text of `/repo/yui/src/misc/bitseq.rs` by `tools/rs2lean_fn.py`;
`Yuiv.C17.*` is the hand-written code model the C17 refinement theorems are about.  The two use different
carrier types (`BitSeqS`/`Bit` are generated from the Rust `struct`/`enum`, the model uses `BS`/`Bool`); the
abstraction maps are `toBS` and `toBool`, lifted to results by `mapR`.
-/
namespace Yuiv.C17Gen
open Yuiv Res Yuiv.Rust Yuiv.GenBitSeq

/-- generated struct ↦ model struct (field by field) -/
def toBS (s : BitSeqS) : C17.BS := ⟨s.val, s.len⟩
/-- generated enum ↦ model bit -/
def toBool : Bit → Bool
  | .Bit0 => false
  | .Bit1 => true
/-- functorial action on results (`panic` ↦ `panic`, `err` ↦ `err`) -/
def mapR {α β} (f : α → β) : Res α → Res β
  | .ok a => .ok (f a)
  | .panic => .panic
  | .err => .err

/-- the values a Rust `BitSeq` can hold at all: both fields are 64-bit words (NOT the representation invariant) -/
def InRange (s : BitSeqS) : Prop := s.val < 2 ^ 64 ∧ s.len < 2 ^ 64

theorem mapR_ok {α β} (f : α → β) (a : α) : mapR f (ok a) = ok (f a) := rfl
theorem mapR_panic {α β} (f : α → β) : mapR f (.panic : Res α) = .panic := rfl
theorem mapR_err {α β} (f : α → β) : mapR f (.err : Res α) = .err := rfl
theorem mapR_bind {α β γ} (f : β → γ) (x : Res α) (g : α → Res β) :
    mapR f (x >>= g) = x >>= fun a => mapR f (g a) := by cases x <;> rfl
theorem mapR_ite {α β} (f : α → β) (c : Prop) [Decidable c] (x y : Res α) :
    mapR f (if c then x else y) = if c then mapR f x else mapR f y := by split <;> rfl
theorem mapR_id {α} (x : Res α) : mapR (fun a => a) x = x := by cases x <;> rfl

theorem bind_assoc' {α β γ} (x : Res α) (f : α → Res β) (g : β → Res γ) :
    ((x >>= f) >>= g) = (x >>= fun a => f a >>= g) := by cases x <;> rfl
theorem ite_bind {α β} (c : Prop) [Decidable c] (x y : Res α) (f : α → Res β) :
    ((if c then x else y) >>= f) = if c then x >>= f else y >>= f := by split <;> rfl
theorem bind_congr' {α β} (x : Res α) {f g : α → Res β} (h : ∀ a, f a = g a) : (x >>= f) = (x >>= g) := by
  cases x <;> simp [h]
theorem assert_true : Res.assert true = ok () := rfl
theorem assert_false : Res.assert false = (.panic : Res Unit) := rfl

theorem decide_eq_beq (x y : Nat) : decide (x = y) = (x == y) := by
  by_cases h : x = y <;> simp [h]
theorem then_of_ne {o : Ordering} (h : o ≠ .eq) (x : Ordering) : o.then x = o := by cases o <;> simp_all [Ordering.then]

/-! ### the checked operators of `RustArith` are the primitive operations of the hand model -/

theorem shl_eq : U64.shl = C17.shl := rfl
theorem shr_eq : U64.shr = C17.shr := rfl
theorem sub_eq : U64.sub = C17.usub := rfl
theorem not_eq : U64.not = C17.not64 := rfl
theorem max_eq : U64.MAX = C17.u64Max := rfl

theorem add_ok {a b : Nat} (h : a + b < 2 ^ 64) : U64.add a b = ok (a + b) := by
  have : a + b ≤ U64.MAX := by unfold U64.MAX; omega
  simp [U64.add, this]
theorem add_panic {a b : Nat} (h : 2 ^ 64 ≤ a + b) : U64.add a b = .panic := by
  have : ¬ a + b ≤ U64.MAX := by unfold U64.MAX; omega
  simp [U64.add, this]

/-- `mask` never panics: its value as a total function -/
theorem mask_total (l : Nat) : C17.mask l = ok (if 64 ≤ l then 2 ^ 64 - 1 else 2 ^ l - 1) := by
  by_cases h : 64 ≤ l
  · rw [C17.mask_ge l h, if_pos h]
  · rw [C17.mask_le l (by omega), if_neg h]

theorem shl_one_ok {n : Nat} (h : n < 64) : C17.shl 1 n = ok (2 ^ n) := C17.shl_one n h
theorem shl_ok {n : Nat} (h : n < 64) (x : Nat) : C17.shl x n = ok ((x <<< n) % 2 ^ 64) := C17.shl_eq x n h
theorem shl_lit1 (x : Nat) : C17.shl x 1 = ok ((x <<< 1) % 2 ^ 64) := C17.shl_eq x 1 (by decide)
theorem shr_lit1 (x : Nat) : C17.shr x 1 = ok (x >>> 1) := C17.shr_eq x 1 (by decide)
theorem usub_pow_one (n : Nat) : C17.usub (2 ^ n) 1 = ok (2 ^ n - 1) := by
  have : 1 ≤ 2 ^ n := Nat.one_le_two_pow
  simp [C17.usub, this]

theorem revBits_eq (n v : Nat) : U64.revBits n v = C17.revBits n v := by
  induction n generalizing v with
  | zero => rfl
  | succ n ih => simp only [U64.revBits, C17.revBits, ih]

theorem reverse_bits_eq (v : Nat) : U64.reverse_bits v = C17.revBits 64 v := revBits_eq 64 v

/-! ### the generated `while` loop of `weight` -/

theorem popc_le_64 (v : Nat) (h : v < 2 ^ 64) : C17.popc v ≤ 64 := by
  rw [C17.popc_eq_count 64 v h]
  refine Nat.le_trans List.count_le_length ?_
  simp

set_option linter.unusedSimpArgs false in
/-- with enough fuel and no counter overflow the generated loop stops at `v = 0` having added `popc v` -/
theorem weight_loop1_eq (fuel v c : Nat) (hf : C17.popc v < fuel) (hc : c + C17.popc v < 2 ^ 64) :
    BitSeq.weight_loop1 fuel v c = ok (0, c + C17.popc v) := by
  induction fuel generalizing v c with
  | zero => omega
  | succ fuel ih =>
    unfold BitSeq.weight_loop1
    by_cases hv : v > 0
    · have hp := C17.popc_and_pred v hv
      have hv' : v ≠ 0 := by omega
      have h1 : U64.sub v 1 = ok (v - 1) := by simp [U64.sub]; omega
      have h2 : U64.add c 1 = ok (c + 1) := add_ok (by omega)
      have h3 := ih (v &&& (v - 1)) (c + 1) (by omega) (by omega)
      have h4 : c + 1 + C17.popc (v &&& (v - 1)) = c + C17.popc v := by omega
      simp [hv, hv', Nat.pos_iff_ne_zero, h1, h2, h3, h4]
    · have : v = 0 := by omega
      subst this
      simp [C17.popc_zero]

/-! ### the generated `for` loop of `FromIterator::from_iter` -/

set_option linter.unusedSimpArgs false in
/-- the generated loop over the items is the model's `fromIterLoop` over their bits, as long as the length counter
cannot overflow (`len + #items < 2^64`, which holds for every iterator that terminates in practice) -/
theorem from_iter_loop1_eq {T : Type} (f : T → Bit) (l : List T) (v n : Nat) (h : n + l.length < 2 ^ 64) :
    BitSeq.FromIterator_T.from_iter_loop1 f l v n = C17.fromIterLoop (l.map (fun x => toBool (f x))) v n := by
  induction l generalizing v n with
  | nil => rfl
  | cons x xs ih =>
    have h1 : U64.add n 1 = ok (n + 1) := add_ok (by simp at h; omega)
    have h2 := fun v' => ih v' (n + 1) (by simp at h; omega)
    unfold BitSeq.FromIterator_T.from_iter_loop1
    simp only [List.map_cons, C17.fromIterLoop]
    cases hx : f x <;>
      simp [hx, toBool, Bit.is_one, Bit.is_zero, h1, h2, bind_assoc', ite_bind, shl_eq]

/-! ### the operators of `RustArith` against Lean core's `UInt64` (supports the trusted-base statement) -/

theorem u64_add_sound (a b : UInt64) :
    U64.add a.toNat b.toNat = if a.toNat + b.toNat < 2 ^ 64 then ok (a + b).toNat else .panic := by
  by_cases h : a.toNat + b.toNat < 2 ^ 64
  · rw [add_ok h, if_pos h, UInt64.toNat_add, Nat.mod_eq_of_lt h]
  · rw [add_panic (by omega), if_neg h]

theorem u64_sub_sound (a b : UInt64) :
    U64.sub a.toNat b.toNat = if b ≤ a then ok (a - b).toNat else .panic := by
  by_cases h : b ≤ a
  · have h' : b.toNat ≤ a.toNat := UInt64.le_iff_toNat_le.1 h
    simp [U64.sub, h, h', UInt64.toNat_sub_of_le]
  · have h' : ¬ b.toNat ≤ a.toNat := fun x => h (UInt64.le_iff_toNat_le.2 x)
    simp [U64.sub, h, h']

theorem u64_shl_sound (a n : UInt64) :
    U64.shl a.toNat n.toNat = if n.toNat < 64 then ok (a <<< n).toNat else .panic := by
  by_cases h : n.toNat < 64
  · simp [U64.shl, h, UInt64.toNat_shiftLeft, Nat.mod_eq_of_lt h]
  · simp [U64.shl, h]

theorem u64_shr_sound (a n : UInt64) :
    U64.shr a.toNat n.toNat = if n.toNat < 64 then ok (a >>> n).toNat else .panic := by
  by_cases h : n.toNat < 64
  · simp [U64.shr, h, UInt64.toNat_shiftRight, Nat.mod_eq_of_lt h]
  · simp [U64.shr, h]

theorem u64_not_sound (a : UInt64) : U64.not a.toNat = (~~~a).toNat := by
  simp [U64.not, U64.MAX, UInt64.toNat_not]

theorem u64_mul_sound (a b : UInt64) :
    U64.mul a.toNat b.toNat = if a.toNat * b.toNat < 2 ^ 64 then ok (a * b).toNat else .panic := by
  by_cases h : a.toNat * b.toNat < 2 ^ 64
  · have : a.toNat * b.toNat ≤ U64.MAX := by unfold U64.MAX; omega
    simp [U64.mul, this, h, UInt64.toNat_mul, Nat.mod_eq_of_lt h]
  · have : ¬ a.toNat * b.toNat ≤ U64.MAX := by unfold U64.MAX; omega
    simp [U64.mul, this, h]

theorem u64_div_sound (a b : UInt64) :
    U64.div a.toNat b.toNat = if b = 0 then .panic else ok (a / b).toNat := by
  by_cases h : b = 0
  · subst h; simp [U64.div]
  · have : b.toNat ≠ 0 := fun x => h (UInt64.toNat_inj.1 (by simpa using x))
    simp [U64.div, h, this]

theorem u64_rem_sound (a b : UInt64) :
    U64.rem a.toNat b.toNat = if b = 0 then .panic else ok (a % b).toNat := by
  by_cases h : b = 0
  · subst h; simp [U64.rem]
  · have : b.toNat ≠ 0 := fun x => h (UInt64.toNat_inj.1 (by simpa using x))
    simp [U64.rem, h, this]

/-- `reverse_bits` moves bit `i` to bit `63 - i` (and the result is a 64-bit word) -/
theorem reverse_bits_testBit (v j : Nat) :
    (U64.reverse_bits v).testBit j = (decide (j < 64) && v.testBit (63 - j)) := by
  rw [reverse_bits_eq, C17.testBit_revBits]
theorem reverse_bits_lt (v : Nat) : U64.reverse_bits v < 2 ^ 64 := by
  rw [reverse_bits_eq]; exact C17.revBits_lt 64 v

theorem u64_and_sound (a b : UInt64) : a.toNat &&& b.toNat = (a &&& b).toNat := by simp
theorem u64_or_sound (a b : UInt64) : a.toNat ||| b.toNat = (a ||| b).toNat := by simp
theorem u64_xor_sound (a b : UInt64) : a.toNat ^^^ b.toNat = (a ^^^ b).toNat := by simp
theorem u64_max_sound : U64.MAX = (UInt64.ofNat (2 ^ 64 - 1)).toNat := by decide

/-! ### parsing and printing (`FromStr::from_str`, `BitSeq::iter`, `Display::fmt`) -/
set_option linter.unusedSimpArgs false

theorem bind_ok_right {α} (x : Res α) : (x >>= fun a => ok a) = x := by cases x <;> rfl

theorem bind_const_mapR {α β γ} (f : α → β) (x : Res α) (y : Res γ) :
    (x >>= fun _ => y) = (mapR f x >>= fun _ => y) := by cases x <;> rfl

/-- continuation of the hand model's `fromStr` after its loop -/
def strK (x : Nat × Nat × Bool) : Res C17.BS :=
  C17.new x.1 x.2.1 >>= fun b => if x.2.2 then ok b else .err

theorem fromStr_unfold (s : List Char) : C17.fromStr s = (C17.fromStrLoop s 0 0 >>= strK) := rfl

/-- continuation of the generated `from_iter` after its loop -/
def iterK (x : Nat × Nat) : Res BitSeqS := BitSeq.new x.1 x.2

theorem from_iter_unfold {T : Type} (f : T → Bit) (l : List T) :
    BitSeq.FromIterator_T.from_iter f l = (BitSeq.FromIterator_T.from_iter_loop1 f l 0 0 >>= iterK) := rfl

theorem new_big (v n : Nat) (h : 64 < n) : C17.new v n = .panic := by
  have : ¬ n ≤ 64 := by omega
  simp [C17.new, C17.maxLen, this, assert_false]

/-- hand model: once the length counter is above 64 the result is a panic, whatever follows -/
theorem fromStrLoop_big (s : List Char) (v n : Nat) (h : 64 < n) : (C17.fromStrLoop s v n >>= strK) = .panic := by
  induction s generalizing v n with
  | nil => simp [C17.fromStrLoop, strK, new_big v n h]
  | cons c cs ih =>
    unfold C17.fromStrLoop
    by_cases h0 : c = '0'
    · simp only [h0, if_true]; exact ih v (n + 1) (by omega)
    · by_cases h1 : c = '1'
      · simp [h0, h1, C17.shl_panic 1 n (by omega)]
      · simp [h0, h1, strK, new_big v n h]

/-- generated `from_iter`: once the length counter is above 64 the result is a panic, whatever follows -/
theorem from_iter_loop1_big {T : Type} (f : T → Bit) (l : List T) (v n : Nat) (h : 64 < n) :
    (BitSeq.FromIterator_T.from_iter_loop1 f l v n >>= iterK) = .panic := by
  induction l generalizing v n with
  | nil =>
    have : ¬ n ≤ 64 := by omega
    simp [BitSeq.FromIterator_T.from_iter_loop1, iterK, BitSeq.new, BitSeq.MAX_LEN, this, assert_false]
  | cons x xs ih =>
    unfold BitSeq.FromIterator_T.from_iter_loop1
    cases hx : f x
    · by_cases ha : n + 1 < 2 ^ 64
      · simp [Bit.is_one, add_ok ha, bind_assoc', ih v (n + 1) (by omega)]
      · simp [Bit.is_one, add_panic (Nat.le_of_not_lt ha), bind_assoc']
    · simp [Bit.is_one, shl_eq, C17.shl_panic 1 n (by omega), bind_assoc']

/-- the generated `from_str` pipeline from any loop state below the length bound -/
theorem from_str_loop_eq (s : List Char) (v n : Nat) (h : n ≤ 64) :
    mapR toBS ((BitSeq.FromIterator_T.from_iter_loop1 (fun (b : Bit) => b)
        (Iter.okPrefix (s.map BitSeq.FromStr.from_str_closure1)).1 v n >>= iterK) >>= fun r =>
        if (Iter.okPrefix (s.map BitSeq.FromStr.from_str_closure1)).2 then ok r else .err)
      = (C17.fromStrLoop s v n >>= strK) := by
  have hnew : ∀ v n, mapR toBS (BitSeq.new v n) = C17.new v n := by
    intro v n
    unfold BitSeq.new C17.new
    have hm : BitSeq.mask n = C17.mask n := by
      unfold BitSeq.mask C17.mask
      simp only [decide_eq_true_eq]
      rfl
    simp only [hm, mapR_bind, mapR_ok]
    rfl
  induction s generalizing v n with
  | nil =>
    simp [Iter.okPrefix, BitSeq.FromIterator_T.from_iter_loop1, C17.fromStrLoop, iterK, strK, hnew, bind_ok_right]
  | cons c cs ih =>
    have ha : U64.add n 1 = ok (n + 1) := add_ok (by omega)
    by_cases h0 : c = '0'
    · subst h0
      by_cases hn : n + 1 ≤ 64
      · have := ih v (n + 1) hn
        simpa [Iter.okPrefix, BitSeq.FromStr.from_str_closure1, BitSeq.FromIterator_T.from_iter_loop1,
          C17.fromStrLoop, Bit.is_one, ha, bind_assoc'] using this
      · have e1 := from_iter_loop1_big (fun (b : Bit) => b)
          (Iter.okPrefix (cs.map BitSeq.FromStr.from_str_closure1)).1 v (n + 1) (by omega)
        have e2 := fromStrLoop_big cs v (n + 1) (by omega)
        simp [Iter.okPrefix, BitSeq.FromStr.from_str_closure1, BitSeq.FromIterator_T.from_iter_loop1,
          C17.fromStrLoop, Bit.is_one, ha, bind_assoc', e1, e2, mapR_panic]
    · by_cases h1 : c = '1'
      · subst h1
        by_cases hn : n + 1 ≤ 64
        · have hs : C17.shl 1 n = ok (2 ^ n) := C17.shl_one n (by omega)
          have := ih (v ||| 2 ^ n) (n + 1) hn
          simpa [Iter.okPrefix, BitSeq.FromStr.from_str_closure1, BitSeq.FromIterator_T.from_iter_loop1,
            C17.fromStrLoop, Bit.is_one, ha, bind_assoc', shl_eq, hs] using this
        · have hs : C17.shl 1 n = .panic := C17.shl_panic 1 n (by omega)
          simp [Iter.okPrefix, BitSeq.FromStr.from_str_closure1, BitSeq.FromIterator_T.from_iter_loop1,
            C17.fromStrLoop, Bit.is_one, bind_assoc', shl_eq, hs, mapR_panic]
      · simp [Iter.okPrefix, BitSeq.FromStr.from_str_closure1, BitSeq.FromIterator_T.from_iter_loop1,
          C17.fromStrLoop, h0, h1, iterK, strK, mapR_bind, hnew, mapR_err]
        rw [bind_const_mapR toBS, hnew]

/-- `impl From<bool> for Bit` as the section of `toBool` -/
def ofBool (x : Bool) : Bit := Bit.From_bool.from_ x

theorem iter_closure1_eq (v k : Nat) :
    BitSeq.iter_closure1 v k = ok (v >>> 1, ofBool (v &&& 1 == 1)) := by
  unfold BitSeq.iter_closure1
  have h2 : v &&& 1 = v % 2 := Nat.and_one_is_mod v
  rcases Nat.mod_two_eq_zero_or_one v with h | h <;>
    simp [h2, h, shr_eq, shr_lit1, Bit.From_u64.from_, ofBool, Bit.From_bool.from_]

theorem iter_items_eq (n k v : Nat) :
    BitSeq.iter_items n k v = ok ((C17.iterLoop n v).map ofBool) := by
  induction n generalizing k v with
  | zero => rfl
  | succ n ih =>
    unfold BitSeq.iter_items
    simp [iter_closure1_eq, ih, C17.iterLoop]

theorem display_fold_eq (l : List Bool) (acc : List Char) :
    (l.map ofBool).foldl (fun f b => f ++ Bit.Display.fmt b) acc
      = acc ++ l.map (fun x => if x then '1' else '0') := by
  induction l generalizing acc with
  | nil => simp
  | cons x xs ih =>
    rw [List.map_cons, List.foldl_cons, ih]
    cases x <;> simp [ofBool, Bit.From_bool.from_, Bit.Display.fmt]

end Yuiv.C17Gen
