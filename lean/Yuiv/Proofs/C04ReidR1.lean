import Yuiv.Proofs.C04ReidUF
import Mathlib.Tactic.LinearCombination
/-
C04Reid (helper, no property theorem here): Reidemeister I on PD codes.
`addKink` mirrors `harness/src/links.rs::add_kink`: the slot `(i, j)` of the diagram (the head of the edge
`e = l[i].e[j]`) receives the fresh label `u`, and the kink crossing — one of the four shapes `[e,v,v,u]`, `[e,u,v,v]`,
`[v,e,u,v]`, `[v,v,u,e]` with a second fresh label `v` for the loop — is inserted at position `pos` of the crossing list.
Main results: `kink_stateSum_neg/pos` (the state sum is multiplied by `1 + x·y` resp. `y + x`) for every diagram
whose crossing list is a permutation of `kink :: lm`, where `lm` collapses to the original diagram.
-/
open Yuiv.KhRef Yuiv.C04
namespace Yuiv.C04Inv
open Relation

/-- collapse the labels `u`, `v` onto `e` -/
def collapse (e u v : Nat) (z : Nat) : Nat := if z = u ∨ z = v then e else z

/-- a pair list on the labels `e, u, v` that joins all three -/
structure IsJoin (A : List (Nat × Nat)) (e u v : Nat) : Prop where
  c1 : Conn A e v
  c2 : Conn A v u
  sub : ∀ p ∈ A, (p.1 = e ∨ p.1 = u ∨ p.1 = v) ∧ (p.2 = e ∨ p.2 = u ∨ p.2 = v)

/-- a pair list on the labels `e, u, v` that joins `e` with `u` and leaves `v` alone -/
structure IsLoop (A : List (Nat × Nat)) (e u v : Nat) : Prop where
  c1 : Conn A e u
  iso : ∀ p ∈ A, (p.1 = v ↔ p.2 = v)
  sub : ∀ p ∈ A, (p.1 = e ∨ p.1 = u ∨ p.1 = v) ∧ (p.2 = e ∨ p.2 = u ∨ p.2 = v)

/-- extra labels `M` and extra arcs `A` that `f` collapses into the diagram `lm`: the class count is that of the
collapsed diagram `renumber f lm` -/
theorem kink_collapse (f : Nat → Nat) (M : Set Nat) (A : List (Nat × Nat)) (lm : Link) (hwf : WF lm)
    (hA : ∀ p ∈ A, f p.1 = f p.2) (h3 : ∀ z ∈ M ∪ labelSet lm, Conn A z (f z))
    (hM : ∀ z ∈ M, f z ∈ f '' labelSet lm) (s : Nat) :
    classCount (M ∪ labelSet lm) (A ++ statePairs lm s)
      = classCount (labelSet (renumber f lm)) (statePairs (renumber f lm) s) := by
  rw [statePairs_renumber f lm hwf, labelSet_renumber]
  have mA : ∀ {a b}, Conn A a b → Conn (A ++ statePairs lm s) a b :=
    fun c => Conn.mono (fun p hp => List.mem_append_left _ hp) c
  refine classCount_collapse f ?_ ?_ (fun z hz => mA (h3 z hz)) ?_
  · intro p hp
    rcases List.mem_append.mp hp with hp | hp
    · rw [hA p hp]; exact Conn.refl _
    · exact Conn.of_mem (List.mem_map.mpr ⟨p, hp, rfl⟩)
  · intro p hp
    obtain ⟨p', hp', rfl⟩ := List.mem_map.mp hp
    obtain ⟨m1, m2⟩ := statePairs_sub lm hwf s p' hp'
    exact (mA (h3 _ (Or.inr m1))).symm.trans
      ((Conn.of_mem (List.mem_append_right _ hp')).trans (mA (h3 _ (Or.inr m2))))
  · ext z; constructor
    · rintro ⟨a, ha | ha, rfl⟩
      · exact hM a ha
      · exact ⟨a, ha, rfl⟩
    · rintro ⟨a, ha, rfl⟩; exact ⟨a, Or.inr ha, rfl⟩

theorem collapse_e (e u v : Nat) : collapse e u v e = e := by unfold collapse; split <;> rfl
theorem collapse_u (e u v : Nat) : collapse e u v u = e := by simp [collapse]
theorem collapse_v (e u v : Nat) : collapse e u v v = e := by simp [collapse]
theorem collapse_other (e u v z : Nat) (h1 : z ≠ u) (h2 : z ≠ v) : collapse e u v z = z := by simp [collapse, h1, h2]

theorem collapse_of_sub {e u v z : Nat} (h : z = e ∨ z = u ∨ z = v) : collapse e u v z = e := by
  rcases h with rfl | rfl | rfl
  · exact collapse_e _ _ _
  · exact collapse_u _ _ _
  · exact collapse_v _ _ _

/-- a joining resolution of the kink: same class count as the original diagram -/
theorem join_count {A : List (Nat × Nat)} {e u v : Nat} (lm : Link) (hwf : WF lm)
    (he : e ∈ labelSet (renumber (collapse e u v) lm)) (hJ : IsJoin A e u v) (s : Nat) :
    classCount ({z | z = e ∨ z = u ∨ z = v} ∪ labelSet lm) (A ++ statePairs lm s)
      = classCount (labelSet (renumber (collapse e u v) lm)) ([] ++ statePairs (renumber (collapse e u v) lm) s) + 0 := by
  rw [labelSet_renumber] at he
  refine kink_collapse (collapse e u v) _ A lm hwf ?_ ?_ ?_ s
  · intro p hp
    rw [collapse_of_sub (hJ.sub p hp).1, collapse_of_sub (hJ.sub p hp).2]
  · intro z _
    by_cases h1 : z = u
    · subst h1; rw [collapse_u]; exact (hJ.c1.trans hJ.c2).symm
    · by_cases h2 : z = v
      · subst h2; rw [collapse_v]; exact hJ.c1.symm
      · rw [collapse_other _ _ _ _ h1 h2]; exact Conn.refl _
  · intro z hz
    rw [collapse_of_sub hz]; exact he

/-- a resolution of the kink that closes the loop `v`: one more class than the original diagram -/
theorem loop_count {A : List (Nat × Nat)} {e u v : Nat} (lm : Link) (hwf : WF lm)
    (he : e ∈ labelSet (renumber (collapse e u v) lm)) (hv : v ∉ labelSet lm) (hve : v ≠ e) (hvu : v ≠ u)
    (hL : IsLoop A e u v) (s : Nat) :
    classCount ({z | z = e ∨ z = u ∨ z = v} ∪ labelSet lm) (A ++ statePairs lm s)
      = classCount (labelSet (renumber (collapse e u v) lm)) ([] ++ statePairs (renumber (collapse e u v) lm) s) + 1 := by
  have hset : ({z | z = e ∨ z = u ∨ z = v} ∪ labelSet lm : Set Nat) = insert v ({z | z = e ∨ z = u} ∪ labelSet lm) := by
    ext z; simp only [Set.mem_union, Set.mem_ofPred_eq, Set.mem_insert_iff]; tauto
  have hfin : ({z | z = e ∨ z = u} ∪ labelSet lm : Set Nat).Finite := by
    refine Set.Finite.union ?_ (labelSet_finite lm)
    have : ({z | z = e ∨ z = u} : Set Nat) = {e, u} := by ext z; simp
    rw [this]; exact Set.toFinite _
  have hnot : v ∉ ({z | z = e ∨ z = u} ∪ labelSet lm : Set Nat) := by
    simp only [Set.mem_union, Set.mem_ofPred_eq]; tauto
  rw [hset, classCount_insert_isolated hfin hnot]
  · congr 1
    rw [labelSet_renumber] at he
    refine kink_collapse (collapse e u v) _ A lm hwf ?_ ?_ ?_ s
    · intro p hp
      rw [collapse_of_sub (hL.sub p hp).1, collapse_of_sub (hL.sub p hp).2]
    · intro z hz
      by_cases h1 : z = u
      · subst h1; rw [collapse_u]; exact hL.c1.symm
      · by_cases h2 : z = v
        · subst h2; exact absurd hz hnot
        · rw [collapse_other _ _ _ _ h1 h2]; exact Conn.refl _
    · intro z hz
      rw [collapse_of_sub (by rcases hz with h | h; exact Or.inl h; exact Or.inr (Or.inl h))]
      exact he
  · intro p hp
    rcases List.mem_append.mp hp with hp | hp
    · exact hL.iso p hp
    · obtain ⟨m1, m2⟩ := statePairs_sub lm hwf s p hp
      constructor
      · intro h; exact absurd (h ▸ m1) hv
      · intro h; exact absurd (h ▸ m2) hv

variable {R : Type} [CommRing R]

/-- the model's state sum, as a function of the diagram -/
noncomputable def stateSum (x y : R) (l : Link) : R :=
  sumRange (2 ^ crossingNum l) (fun s => npow x (popcount s (crossingNum l)) * npow y (circleCount l s))

/-- NEGATIVE-type kink (0-resolution joins, 1-resolution closes the loop): the state sum gets the factor `1 + x·y` -/
theorem kink_stateSum_neg (x y : R) {lm l' : Link} {c : Crossing} {e u v : Nat} (hwf : WF lm)
    (hc4 : c.e.size = 4) (hcu : c.ct.isResolved = false) (hp : l'.toList.Perm (c :: lm.toList))
    (hce : ∀ z, z ∈ c.e ↔ z = e ∨ z = u ∨ z = v)
    (he : e ∈ labelSet (renumber (collapse e u v) lm)) (hv : v ∉ labelSet lm) (hve : v ≠ e) (hvu : v ≠ u)
    (hJ : IsJoin (arcs c (c.ct.resolve false)) e u v) (hL : IsLoop (arcs c (c.ct.resolve true)) e u v) :
    stateSum x y l' = (1 + x * y) * stateSum x y (renumber (collapse e u v) lm) := by
  have hL' : labelSet l' = {z | z = e ∨ z = u ∨ z = v} ∪ labelSet lm := by
    rw [labelSet_perm_cons hp]; congr 1; ext z; exact hce z
  unfold stateSum
  rw [stateSum_perm_cons x y (WF_of_perm_cons hp hc4 hwf) hp hcu, stateSum_partSum x y _ (WF_renumber hwf), hL',
    partSum_shift _ _ x y lm _ 0 0 _ [] (crossingNum_renumber _ lm) (join_count lm hwf he hJ),
    partSum_shift _ _ x y lm _ 1 1 _ [] (crossingNum_renumber _ lm) (loop_count lm hwf he hv hve hvu hL)]
  ring

/-- POSITIVE-type kink (0-resolution closes the loop, 1-resolution joins): the state sum gets the factor `y + x` -/
theorem kink_stateSum_pos (x y : R) {lm l' : Link} {c : Crossing} {e u v : Nat} (hwf : WF lm)
    (hc4 : c.e.size = 4) (hcu : c.ct.isResolved = false) (hp : l'.toList.Perm (c :: lm.toList))
    (hce : ∀ z, z ∈ c.e ↔ z = e ∨ z = u ∨ z = v)
    (he : e ∈ labelSet (renumber (collapse e u v) lm)) (hv : v ∉ labelSet lm) (hve : v ≠ e) (hvu : v ≠ u)
    (hL : IsLoop (arcs c (c.ct.resolve false)) e u v) (hJ : IsJoin (arcs c (c.ct.resolve true)) e u v) :
    stateSum x y l' = (y + x) * stateSum x y (renumber (collapse e u v) lm) := by
  have hL' : labelSet l' = {z | z = e ∨ z = u ∨ z = v} ∪ labelSet lm := by
    rw [labelSet_perm_cons hp]; congr 1; ext z; exact hce z
  unfold stateSum
  rw [stateSum_perm_cons x y (WF_of_perm_cons hp hc4 hwf) hp hcu, stateSum_partSum x y _ (WF_renumber hwf), hL',
    partSum_shift _ _ x y lm _ 0 1 _ [] (crossingNum_renumber _ lm) (loop_count lm hwf he hv hve hvu hL),
    partSum_shift _ _ x y lm _ 1 0 _ [] (crossingNum_renumber _ lm) (join_count lm hwf he hJ)]
  ring

/-! ### the concrete move of `links.rs::add_kink` -/

/-- the kink crossing of `add_kink`, shape `k` (0: `[e,v,v,u]`, 1: `[e,u,v,v]`, 2: `[v,e,u,v]`, otherwise
`[v,v,u,e]`); `e` = the edge that is split, `u` = its new second half, `v` = the loop -/
def kinkCrossing (k e u v : Nat) : Crossing :=
  ⟨.X, match k with
    | 0 => #[e, v, v, u]
    | 1 => #[e, u, v, v]
    | 2 => #[v, e, u, v]
    | _ => #[v, v, u, e]⟩

/-- sign of the kink: in shapes 0, 2 the strand comes back into the crossing through slot 1 (`slotSign .X 1 = -1`), in
shapes 1, 3 through slot 3 (`slotSign .X 3 = 1`) -/
def kinkSign (k : Nat) : Int := if k = 0 ∨ k = 2 then -1 else 1

/-- `out[hi][hj] = x` : the slot `(i, j)` receives the label `u` -/
def splitSlot (l : Link) (i j u : Nat) : Link := l.setIfInBounds i ⟨l[i]!.ct, l[i]!.e.setIfInBounds j u⟩

/-- `add_kink`: split the edge `e = l[i].e[j]` at its end `(i, j)` (new label `u`), insert the kink crossing of shape
`k` (loop label `v`) at position `pos` of the crossing list -/
def addKink (l : Link) (i j u v k pos : Nat) : Link :=
  ((splitSlot l i j u).toList.insertIdx pos (kinkCrossing k l[i]!.e[j]! u v)).toArray

theorem WF_splitSlot {l : Link} (hwf : WF l) {i : Nat} (hi : i < l.size) (j u : Nat) : WF (splitSlot l i j u) := by
  intro c hc
  rcases Array.mem_or_eq_of_mem_setIfInBounds hc with h | rfl
  · exact hwf c h
  · rw [Array.size_setIfInBounds, getElem!_pos l i hi]; exact hwf _ (Array.getElem_mem hi)

theorem labelSet_splitSlot {l : Link} {i : Nat} (hi : i < l.size) (j u : Nat) {z : Nat}
    (hz : z ∈ labelSet (splitSlot l i j u)) : z ∈ labelSet l ∨ z = u := by
  obtain ⟨c, hc, hzc⟩ := hz
  rcases Array.mem_or_eq_of_mem_setIfInBounds hc with h | rfl
  · exact Or.inl ⟨c, h, hzc⟩
  · rcases Array.mem_or_eq_of_mem_setIfInBounds hzc with h | h
    · rw [getElem!_pos l i hi] at h; exact Or.inl ⟨_, Array.getElem_mem hi, h⟩
    · exact Or.inr h

/-- collapsing the two fresh labels onto `e` undoes the splitting of the slot -/
theorem renumber_splitSlot (l : Link) (hwf : WF l) {i j u v : Nat} (hi : i < l.size)
    (hu : u ∉ labelSet l) (hv : v ∉ labelSet l) :
    renumber (collapse l[i]!.e[j]! u v) (splitSlot l i j u) = l := by
  have hfix : ∀ c ∈ l, ∀ z ∈ c.e, collapse l[i]!.e[j]! u v z = z := by
    intro c hc z hz
    apply collapse_other
    · rintro rfl; exact hu ⟨c, hc, hz⟩
    · rintro rfl; exact hv ⟨c, hc, hz⟩
  have hmap : ∀ c ∈ l, c.e.map (collapse l[i]!.e[j]! u v) = c.e := by
    intro c hc
    apply Array.ext (by simp)
    intro m h1 h2
    rw [Array.getElem_map]; exact hfix c hc _ (Array.getElem_mem _)
  have h4 : l[i].e.size = 4 := hwf _ (Array.getElem_mem hi)
  apply Array.ext
  · simp [renumber, splitSlot]
  · intro k h1 h2
    simp only [renumber, splitSlot, Array.getElem_map, Array.getElem_setIfInBounds h2]
    split
    · rename_i hik
      subst hik
      rw [getElem!_pos l i hi]
      have : (l[i].e.setIfInBounds j u).map (collapse l[i].e[j]! u v) = l[i].e := by
        apply Array.ext (by simp)
        intro m h1 h2
        rw [Array.getElem_map, Array.getElem_setIfInBounds h2]
        split
        · rename_i hjm
          subst hjm
          rw [collapse_u, getElem!_pos l[i].e j (by omega)]
        · have := hfix l[i] (Array.getElem_mem hi) l[i].e[m] (Array.getElem_mem _)
          rwa [getElem!_pos l i hi] at this
      rw [this]
    · rw [hmap _ (Array.getElem_mem h2)]

theorem kink_arcs (k e u v : Nat) :
    arcs (kinkCrossing k e u v) .H =
      (match k with | 0 => [(e, v), (v, u)] | 1 => [(e, u), (v, v)] | 2 => [(v, e), (u, v)] | _ => [(v, v), (u, e)]) ∧
    arcs (kinkCrossing k e u v) .V =
      (match k with | 0 => [(e, u), (v, v)] | 1 => [(e, v), (u, v)] | 2 => [(v, v), (e, u)] | _ => [(v, e), (v, u)]) := by
  unfold kinkCrossing arcs arcIdx
  split <;> simp

theorem isJoin_of_mem {A : List (Nat × Nat)} {e u v : Nat} (h1 : (e, v) ∈ A ∨ (v, e) ∈ A) (h2 : (v, u) ∈ A ∨ (u, v) ∈ A)
    (sub : ∀ p ∈ A, (p.1 = e ∨ p.1 = u ∨ p.1 = v) ∧ (p.2 = e ∨ p.2 = u ∨ p.2 = v)) : IsJoin A e u v :=
  ⟨h1.elim Conn.of_mem Conn.of_mem_symm, h2.elim Conn.of_mem Conn.of_mem_symm, sub⟩

theorem isLoop_of_mem {A : List (Nat × Nat)} {e u v : Nat} (h1 : (e, u) ∈ A ∨ (u, e) ∈ A)
    (iso : ∀ p ∈ A, (p.1 = v ↔ p.2 = v))
    (sub : ∀ p ∈ A, (p.1 = e ∨ p.1 = u ∨ p.1 = v) ∧ (p.2 = e ∨ p.2 = u ∨ p.2 = v)) : IsLoop A e u v :=
  ⟨h1.elim Conn.of_mem Conn.of_mem_symm, iso, sub⟩

theorem kink_mem (k e u v z : Nat) : z ∈ (kinkCrossing k e u v).e ↔ z = e ∨ z = u ∨ z = v := by
  unfold kinkCrossing
  split <;> simp <;> tauto

theorem kink_size (k e u v : Nat) : (kinkCrossing k e u v).e.size = 4 := by
  unfold kinkCrossing
  split <;> rfl

/-- which resolution of the kink joins and which closes the loop (`e`, `u` ≠ `v`) -/
theorem kink_join_loop (k e u v : Nat) (hve : v ≠ e) (hvu : v ≠ u) :
    if k = 0 ∨ k = 2 then
      IsJoin (arcs (kinkCrossing k e u v) .H) e u v ∧ IsLoop (arcs (kinkCrossing k e u v) .V) e u v
    else
      IsLoop (arcs (kinkCrossing k e u v) .H) e u v ∧ IsJoin (arcs (kinkCrossing k e u v) .V) e u v := by
  have hev : e ≠ v := fun h => hve h.symm
  have huv : u ≠ v := fun h => hvu h.symm
  rw [(kink_arcs k e u v).1, (kink_arcs k e u v).2]
  rcases k with _ | _ | _ | k
  · simp only [true_or, if_true]
    exact ⟨isJoin_of_mem (by simp) (by simp) (by simp), isLoop_of_mem (by simp) (by simp [hev, huv]) (by simp)⟩
  · simp only [Nat.reduceAdd, OfNat.one_ne_ofNat, one_ne_zero, or_self, if_false]
    exact ⟨isLoop_of_mem (by simp) (by simp [hev, huv]) (by simp), isJoin_of_mem (by simp) (by simp) (by simp)⟩
  · simp only [Nat.reduceAdd, or_true, if_true]
    exact ⟨isJoin_of_mem (by simp) (by simp) (by simp), isLoop_of_mem (by simp) (by simp [hev, huv]) (by simp)⟩
  · have : ¬ (k + 1 + 1 + 1 = 0 ∨ k + 1 + 1 + 1 = 2) := by omega
    simp only [this, if_false]
    exact ⟨isLoop_of_mem (by simp) (by simp [hev, huv]) (by simp), isJoin_of_mem (by simp) (by simp) (by simp)⟩

/-- the factor by which a kink of shape `k` multiplies the state sum -/
def kinkFactor (x y : R) (k : Nat) : R := if k = 0 ∨ k = 2 then 1 + x * y else y + x

theorem addKink_perm (l : Link) (i j u v k pos : Nat) (hpos : pos ≤ l.size) :
    (addKink l i j u v k pos).toList.Perm (kinkCrossing k l[i]!.e[j]! u v :: (splitSlot l i j u).toList) := by
  unfold addKink
  exact List.perm_insertIdx _ _ (by simp [splitSlot, hpos])

/-- Reidemeister I at the level of the state sum: for EVERY well-formed diagram, every slot `(i, j)`, fresh labels
`u ≠ v`, every shape and every insertion position -/
theorem addKink_stateSum (x y : R) (l : Link) (hwf : WF l) {i j u v : Nat} (k : Nat) {pos : Nat}
    (hi : i < l.size) (hj : j < 4) (hu : u ∉ labelSet l) (hv : v ∉ labelSet l) (huv : u ≠ v) (hpos : pos ≤ l.size) :
    stateSum x y (addKink l i j u v k pos) = kinkFactor x y k * stateSum x y l := by
  have h4 : l[i].e.size = 4 := hwf _ (Array.getElem_mem hi)
  have hel : l[i]!.e[j]! ∈ labelSet l := by
    rw [getElem!_pos l i hi, getElem!_pos l[i].e j (by omega)]
    exact ⟨l[i], Array.getElem_mem hi, Array.getElem_mem _⟩
  have hren := renumber_splitSlot l hwf (j := j) hi hu hv
  have hvu : v ≠ u := fun h => huv h.symm
  have hve : v ≠ l[i]!.e[j]! := fun h => hv (h ▸ hel)
  have hvm : v ∉ labelSet (splitSlot l i j u) := fun h => (labelSet_splitSlot hi j u h).elim hv hvu
  have hjl := kink_join_loop k l[i]!.e[j]! u v hve hvu
  have hp := addKink_perm l i j u v k pos hpos
  have he : l[i]!.e[j]! ∈ labelSet (renumber (collapse l[i]!.e[j]! u v) (splitSlot l i j u)) := by rw [hren]; exact hel
  unfold kinkFactor
  split at hjl
  · rename_i hk
    rw [if_pos hk, kink_stateSum_neg x y (WF_splitSlot hwf hi j u) (kink_size _ _ _ _) rfl hp (kink_mem _ _ _ _)
      he hvm hve hvu hjl.1 hjl.2, hren]
  · rename_i hk
    rw [if_neg hk, kink_stateSum_pos x y (WF_splitSlot hwf hi j u) (kink_size _ _ _ _) rfl hp (kink_mem _ _ _ _)
      he hvm hve hvu hjl.1 hjl.2, hren]

theorem crossingNum_addKink (l : Link) (hwf : WF l) {i j u v : Nat} (k : Nat) {pos : Nat}
    (hi : i < l.size) (hu : u ∉ labelSet l) (hv : v ∉ labelSet l) (hpos : pos ≤ l.size) :
    crossingNum (addKink l i j u v k pos) = crossingNum l + 1 := by
  have hren := renumber_splitSlot l hwf (j := j) hi hu hv
  rw [crossingNum_eq, nUnres_perm (addKink_perm l i j u v k pos hpos)]
  conv_rhs => rw [← hren, crossingNum_renumber, crossingNum_eq]
  rfl

/-! ### the degree shift cancels the factor -/

theorem evalJones_stateSum (q qinv : R) (nPos nNeg : Nat) (l : Link) :
    evalJones q qinv (crossingNum l) nPos nNeg (circleCount l) =
      npow (-1 : R) nNeg * zpow q qinv ((nPos : Int) - 2 * nNeg) * stateSum (-q) (q + qinv) l := rfl

theorem prefactor_neg (q qinv : R) (hq : q * qinv = 1) (nPos nNeg : Nat) :
    npow (-1 : R) (nNeg + 1) * zpow q qinv ((nPos : Int) - 2 * ((nNeg + 1 : Nat) : Int)) * (1 + (-q) * (q + qinv))
      = npow (-1 : R) nNeg * zpow q qinv ((nPos : Int) - 2 * nNeg) := by
  have e : ((nPos : Int) - 2 * ((nNeg + 1 : Nat) : Int)) = ((nPos : Int) - 2 * nNeg) + (-2) := by push_cast; ring
  have h2 : zpow q qinv (-2) = qinv ^ 2 := by show npow qinv 2 = _; exact npow_eq _ _
  rw [e, zpow_add' q qinv hq, h2, npow_eq, npow_eq, pow_succ]
  have key : qinv ^ 2 * (1 + -q * (q + qinv)) = -1 := by
    have : qinv ^ 2 * (1 + -q * (q + qinv)) = qinv ^ 2 - (q * qinv) ^ 2 - (q * qinv) * qinv ^ 2 := by ring
    rw [this, hq]; ring
  linear_combination (-((-1 : R) ^ nNeg) * zpow q qinv ((nPos : Int) - 2 * nNeg)) * key

theorem prefactor_pos (q qinv : R) (hq : q * qinv = 1) (nPos nNeg : Nat) :
    npow (-1 : R) nNeg * zpow q qinv (((nPos + 1 : Nat) : Int) - 2 * nNeg) * ((q + qinv) + (-q))
      = npow (-1 : R) nNeg * zpow q qinv ((nPos : Int) - 2 * nNeg) := by
  have e : (((nPos + 1 : Nat) : Int) - 2 * (nNeg : Int)) = ((nPos : Int) - 2 * nNeg) + 1 := by push_cast; ring
  rw [e, zpow_add' q qinv hq, zpow_one', npow_eq]
  linear_combination ((-1 : R) ^ nNeg * zpow q qinv ((nPos : Int) - 2 * nNeg)) * hq

/-- number of positive / negative crossings contributed by a kink of shape `k` -/
def kinkPos (k : Nat) : Nat := if k = 0 ∨ k = 2 then 0 else 1
def kinkNeg (k : Nat) : Nat := if k = 0 ∨ k = 2 then 1 else 0

theorem prefactor_kink (q qinv : R) (hq : q * qinv = 1) (nPos nNeg k : Nat) :
    npow (-1 : R) (nNeg + kinkNeg k) * zpow q qinv (((nPos + kinkPos k : Nat) : Int) - 2 * ((nNeg + kinkNeg k : Nat) : Int))
        * kinkFactor (-q) (q + qinv) k
      = npow (-1 : R) nNeg * zpow q qinv ((nPos : Int) - 2 * nNeg) := by
  unfold kinkFactor kinkPos kinkNeg
  split
  · exact prefactor_neg q qinv hq nPos nNeg
  · exact prefactor_pos q qinv hq nPos nNeg

end Yuiv.C04Inv
