import Yuiv.Proofs.C18
/-
C18 — part 2: on a valid PD code the partner map is a fixed-point-free involution of the slots, the walk of
`traverse_edges` enumerates the orbit of its start slot under `step = partner ∘ pass` exactly once and
returns to the start within `4·n` steps (no panic).
-/
namespace Yuiv.C18
open Yuiv

/-! ### spec notions -/

/-- valid PD code: every label that occurs, occurs in exactly two slots -/
def Valid (l : Link) : Prop := ∀ e ∈ allEdges l, (allEdges l).count e = 2

instance (l : Link) : Decidable (Valid l) := by unfold Valid; infer_instance

/-- `h` is a slot (half-edge) of `l` -/
def HE (l : Link) (h : Nat × Nat) : Prop := h.1 < l.length ∧ h.2 < 4

/-- the half-edge map: go through the crossing, then along the edge to its other end -/
def step (l : Link) (h : Nat × Nat) : Nat × Nat :=
  (passEdge l h.1 ((ctypeAt l h.1).pass h.2)).getD h

/-- `v` (most recent first) is a walk from `s`: each entry is the `f`-image of the one after it, the last is `s` -/
def RChain {α} (f : α → α) (s : α) : List α → Prop
  | [] => False
  | [x] => x = s
  | x :: y :: r => x = f y ∧ RChain f s (y :: r)

/-! ### slots -/

theorem slotsFrom_snd (l : List Crossing) (i : Nat) :
    (slotsFrom l i).map (·.2) = l.flatMap Crossing.edges := by
  induction l generalizing i with
  | nil => rfl
  | cons c cs ih => simp [slotsFrom, ih, Crossing.edges]

theorem slots_snd (l : Link) : (slots l).map (·.2) = allEdges l := slotsFrom_snd l 0

theorem edge_of_lt (c : Crossing) {j : Nat} (h : j < 4) :
    (j = 0 ∧ c.edge j = c.e0) ∨ (j = 1 ∧ c.edge j = c.e1) ∨ (j = 2 ∧ c.edge j = c.e2) ∨ (j = 3 ∧ c.edge j = c.e3) := by
  match j, h with
  | 0, _ => exact Or.inl ⟨rfl, rfl⟩
  | 1, _ => exact Or.inr (Or.inl ⟨rfl, rfl⟩)
  | 2, _ => exact Or.inr (Or.inr (Or.inl ⟨rfl, rfl⟩))
  | 3, _ => exact Or.inr (Or.inr (Or.inr ⟨rfl, rfl⟩))

theorem mem_slotsFrom (l : List Crossing) (i : Nat) (x : (Nat × Nat) × Nat) :
    x ∈ slotsFrom l i ↔
      (i ≤ x.1.1 ∧ x.1.2 < 4 ∧ ∃ c, l[x.1.1 - i]? = some c ∧ x.2 = c.edge x.1.2) := by
  induction l generalizing i with
  | nil => simp [slotsFrom]
  | cons c cs ih =>
    obtain ⟨⟨a, b⟩, e⟩ := x
    simp only [slotsFrom, List.mem_cons, ih, Prod.mk.injEq]
    constructor
    · rintro (⟨⟨rfl, rfl⟩, rfl⟩ | ⟨⟨rfl, rfl⟩, rfl⟩ | ⟨⟨rfl, rfl⟩, rfl⟩ | ⟨⟨rfl, rfl⟩, rfl⟩ | ⟨h1, h2, c', h3, h4⟩)
      · exact ⟨Nat.le_refl _, by decide, c, by simp, rfl⟩
      · exact ⟨Nat.le_refl _, by decide, c, by simp, rfl⟩
      · exact ⟨Nat.le_refl _, by decide, c, by simp, rfl⟩
      · exact ⟨Nat.le_refl _, by decide, c, by simp, rfl⟩
      · refine ⟨by omega, h2, c', ?_, h4⟩
        have : a - i = (a - (i + 1)) + 1 := by omega
        rw [this, List.getElem?_cons_succ]; exact h3
    · rintro ⟨h1, h2, c', h3, h4⟩
      by_cases hai : a = i
      · subst hai
        simp only [Nat.sub_self, List.getElem?_cons_zero, Option.some.injEq] at h3
        subst h3
        rcases edge_of_lt c h2 with ⟨rfl, h⟩ | ⟨rfl, h⟩ | ⟨rfl, h⟩ | ⟨rfl, h⟩
        · exact Or.inl ⟨⟨rfl, rfl⟩, h4⟩
        · exact Or.inr (Or.inl ⟨⟨rfl, rfl⟩, h4⟩)
        · exact Or.inr (Or.inr (Or.inl ⟨⟨rfl, rfl⟩, h4⟩))
        · exact Or.inr (Or.inr (Or.inr (Or.inl ⟨⟨rfl, rfl⟩, h4⟩)))
      · right; right; right; right
        refine ⟨by omega, h2, c', ?_, h4⟩
        have : a - i = (a - (i + 1)) + 1 := by omega
        rw [this, List.getElem?_cons_succ] at h3; exact h3

theorem mem_slots (l : Link) (h : Nat × Nat) (e : Nat) :
    (h, e) ∈ slots l ↔ (HE l h ∧ e = edgeAt l h.1 h.2) := by
  unfold slots HE edgeAt
  rw [mem_slotsFrom]
  simp only [Nat.zero_le, Nat.sub_zero, true_and]
  constructor
  · rintro ⟨h2, c, h3, h4⟩
    have hlt : h.1 < l.length := by
      rcases Nat.lt_or_ge h.1 l.length with hh | hh
      · exact hh
      · rw [List.getElem?_eq_none hh] at h3; cases h3
    exact ⟨⟨hlt, h2⟩, by rw [h3]; exact h4⟩
  · rintro ⟨⟨h1, h2⟩, h4⟩
    refine ⟨h2, l[h.1], List.getElem?_eq_getElem h1, ?_⟩
    rw [List.getElem?_eq_getElem h1] at h4; exact h4

theorem slotsFrom_keys_ge (l : List Crossing) (i : Nat) :
    ∀ k ∈ (slotsFrom l i).map (·.1), i ≤ k.1 := by
  intro k hk
  rw [List.mem_map] at hk
  obtain ⟨x, hx, rfl⟩ := hk
  exact ((mem_slotsFrom l i x).1 hx).1

theorem slotsFrom_keys_nodup (l : List Crossing) (i : Nat) : ((slotsFrom l i).map (·.1)).Nodup := by
  induction l generalizing i with
  | nil => simp [slotsFrom]
  | cons c cs ih =>
    simp only [slotsFrom, List.map_cons, List.nodup_cons, List.mem_cons, Prod.mk.injEq]
    have hge := slotsFrom_keys_ge cs (i + 1)
    have hn : ∀ j, (i, j) ∉ (slotsFrom cs (i + 1)).map (·.1) := by
      intro j hj
      have := hge _ hj
      exact absurd this (Nat.not_succ_le_self i)
    refine ⟨?_, ?_, ?_, ?_, ih (i + 1)⟩
    · rintro (h | h | h | h)
      · omega
      · omega
      · omega
      · exact hn 0 h
    · rintro (h | h | h)
      · omega
      · omega
      · exact hn 1 h
    · rintro (h | h)
      · omega
      · exact hn 2 h
    · exact hn 3

theorem slots_keys_nodup (l : Link) : ((slots l).map (·.1)).Nodup := slotsFrom_keys_nodup l 0

theorem slotsFrom_length (l : List Crossing) (i : Nat) : (slotsFrom l i).length = 4 * l.length := by
  induction l generalizing i with
  | nil => rfl
  | cons c cs ih => simp only [slotsFrom, List.length_cons, ih]; omega

theorem mem_slots_keys (l : Link) (h : Nat × Nat) : h ∈ (slots l).map (·.1) ↔ HE l h := by
  rw [List.mem_map]
  constructor
  · rintro ⟨⟨h', e⟩, hm, rfl⟩
    exact ((mem_slots l h' e).1 hm).1
  · intro hh
    exact ⟨(h, edgeAt l h.1 h.2), (mem_slots l h _).2 ⟨hh, rfl⟩, rfl⟩

/-! ### the partner of a slot -/

theorem length_two {α} (l : List α) (h : l.length = 2) : ∃ a b, l = [a, b] := by
  match l, h with
  | [a, b], _ => exact ⟨a, b, rfl⟩

theorem find_partner {α} [BEq α] [LawfulBEq α] (S : List (α × Nat)) (hk : (S.map (·.1)).Nodup) (e : Nat)
    (hc : (S.filter (fun s => s.2 == e)).length = 2) (h : α) (hm : (h, e) ∈ S) :
    ∃ h', h' ≠ h ∧ (h', e) ∈ S ∧
      S.find? (fun s => s.2 == e && s.1 != h) = some (h', e) ∧
      S.find? (fun s => s.2 == e && s.1 != h') = some (h, e) := by
  have hF : ∀ q : α × Nat → Bool,
      S.find? (fun s => s.2 == e && q s) = (S.filter (fun s => s.2 == e)).find? q := by
    intro q; rw [List.find?_filter]
    congr 1; funext a
    cases (a.2 == e) <;> cases q a <;> rfl
  have hsub : ((S.filter (fun s => s.2 == e)).map (·.1)).Nodup :=
    List.Nodup.sublist (List.Sublist.map _ List.filter_sublist) hk
  have hmem : (h, e) ∈ S.filter (fun s => s.2 == e) := by
    rw [List.mem_filter]; exact ⟨hm, by simp⟩
  have hsnd : ∀ x ∈ S.filter (fun s => s.2 == e), x.2 = e ∧ x ∈ S := by
    intro x hx; rw [List.mem_filter] at hx; exact ⟨by simpa using hx.2, hx.1⟩
  obtain ⟨a, b, hFl⟩ := length_two _ hc
  · rw [hFl] at hsub hmem hsnd
    have ha := hsnd a (by simp)
    have hb := hsnd b (by simp)
    have hab : a.1 ≠ b.1 := by
      simp only [List.map_cons, List.map_nil, List.nodup_cons, List.mem_cons, List.not_mem_nil, or_false] at hsub
      exact hsub.1
    obtain ⟨a1, a2⟩ := a
    obtain ⟨b1, b2⟩ := b
    simp only at ha hb hab
    obtain ⟨rfl, ha'⟩ := ha
    obtain ⟨rfl, hb'⟩ := hb
    simp only [List.mem_cons, Prod.mk.injEq, and_true, List.not_mem_nil, or_false] at hmem
    rcases hmem with rfl | rfl
    · refine ⟨b1, fun hh => hab hh.symm, hb', ?_, ?_⟩
      · rw [hF, hFl]; simp [List.find?_cons, Ne.symm hab]
      · rw [hF, hFl]; simp [List.find?_cons, hab]
    · refine ⟨a1, hab, ha', ?_, ?_⟩
      · rw [hF, hFl]; simp [List.find?_cons, hab]
      · rw [hF, hFl]; simp [List.find?_cons, Ne.symm hab]

theorem count_slots (l : Link) (e : Nat) :
    ((slots l).filter (fun s => s.2 == e)).length = (allEdges l).count e := by
  rw [← slots_snd, List.count_eq_countP, List.countP_map, List.countP_eq_length_filter]
  rfl

/-- on a valid code `pass_edge` is a fixed-point-free involution of the slots that preserves labels -/
theorem passEdge_valid' (l : Link) (hv : Valid l) (h : Nat × Nat) (hh : HE l h) :
    ∃ h', passEdge l h.1 h.2 = some h' ∧ HE l h' ∧ h' ≠ h ∧
      edgeAt l h'.1 h'.2 = edgeAt l h.1 h.2 ∧ passEdge l h'.1 h'.2 = some h := by
  have hm : (h, edgeAt l h.1 h.2) ∈ slots l := (mem_slots l h _).2 ⟨hh, rfl⟩
  have hin : edgeAt l h.1 h.2 ∈ allEdges l := by
    rw [← slots_snd]; exact List.mem_map.2 ⟨_, hm, rfl⟩
  have hc : ((slots l).filter (fun s => s.2 == edgeAt l h.1 h.2)).length = 2 := by
    rw [count_slots]; exact hv _ hin
  obtain ⟨h', hne, hm', hf1, hf2⟩ := find_partner (slots l) (slots_keys_nodup l) _ hc h hm
  have hh' := (mem_slots l h' _).1 hm'
  refine ⟨h', ?_, hh'.1, hne, hh'.2.symm, ?_⟩
  · unfold passEdge
    show (List.find? (fun s => s.2 == edgeAt l h.1 h.2 && s.1 != (h.1, h.2)) (slots l)).map _ = _
    rw [show (h.1, h.2) = h from rfl, hf1]; rfl
  · unfold passEdge
    show (List.find? (fun s => s.2 == edgeAt l h'.1 h'.2 && s.1 != (h'.1, h'.2)) (slots l)).map _ = _
    rw [show (h'.1, h'.2) = h' from rfl, ← hh'.2, hf2]; rfl

/-! ### the half-edge map -/

theorem ctypeAt_pass_lt (l : Link) (h : Nat × Nat) (hh : HE l h) : HE l (h.1, (ctypeAt l h.1).pass h.2) :=
  ⟨hh.1, pass_lt' _ _ hh.2⟩

theorem step_spec (l : Link) (hv : Valid l) (h : Nat × Nat) (hh : HE l h) :
    passEdge l h.1 ((ctypeAt l h.1).pass h.2) = some (step l h) ∧ HE l (step l h) ∧
    passEdge l (step l h).1 (step l h).2 = some (h.1, (ctypeAt l h.1).pass h.2) := by
  obtain ⟨h', h1, h2, _, _, h5⟩ := passEdge_valid' l hv _ (ctypeAt_pass_lt l h hh)
  have : step l h = h' := by unfold step; rw [h1]; rfl
  rw [this]
  exact ⟨h1, h2, h5⟩

theorem step_inj (l : Link) (hv : Valid l) (a b : Nat × Nat) (ha : HE l a) (hb : HE l b)
    (h : step l a = step l b) : a = b := by
  have h1 := (step_spec l hv a ha).2.2
  have h2 := (step_spec l hv b hb).2.2
  rw [h] at h1
  rw [h1] at h2
  simp only [Option.some.injEq, Prod.mk.injEq] at h2
  obtain ⟨h3, h4⟩ := h2
  obtain ⟨a1, a2⟩ := a
  obtain ⟨b1, b2⟩ := b
  simp only at h3 h4
  subst h3
  have e1 := pass_pass' (ctypeAt l a1) a2 ha.2
  have e2 := pass_pass' (ctypeAt l a1) b2 hb.2
  have : a2 = b2 := by rw [← e1, h4, e2]
  rw [this]

/-! ### walks -/

theorem RChain.ne_nil {α} {f : α → α} {s : α} {v : List α} (h : RChain f s v) : v ≠ [] := by
  intro hv; subst hv; exact h

/-- an entry of a walk is the start or the image of a later entry -/
theorem RChain.mem_cases {α} {f : α → α} {s : α} :
    ∀ {v : List α}, RChain f s v → ∀ x ∈ v, x = s ∨ ∃ y, x = f y ∧ (∃ p q, v = p ++ x :: y :: q) := by
  intro v
  induction v with
  | nil => intro h; exact h.elim
  | cons a r ih =>
    intro h x hx
    cases r with
    | nil =>
      simp only [List.mem_cons, List.not_mem_nil, or_false] at hx
      left; rw [hx]; exact h
    | cons b r' =>
      obtain ⟨hab, hr⟩ := h
      rcases List.mem_cons.1 hx with rfl | hx'
      · right; exact ⟨b, hab, [], r', rfl⟩
      · rcases ih hr x hx' with h1 | ⟨y, hy, p, q, hpq⟩
        · left; exact h1
        · right; exact ⟨y, hy, a :: p, q, by rw [hpq]; rfl⟩

theorem RChain.all_mem {α} {f : α → α} {s : α} (P : α → Prop) (hs : P s) (hf : ∀ x, P x → P (f x)) :
    ∀ {v : List α}, RChain f s v → ∀ x ∈ v, P x := by
  intro v
  induction v with
  | nil => intro h; exact h.elim
  | cons a r ih =>
    intro h x hx
    cases r with
    | nil =>
      simp only [List.mem_cons, List.not_mem_nil, or_false] at hx
      rw [hx, show a = s from h]; exact hs
    | cons b r' =>
      obtain ⟨hab, hr⟩ := h
      rcases List.mem_cons.1 hx with rfl | hx'
      · rw [hab]; exact hf _ (ih hr b (by simp))
      · exact ih hr x hx'

/-- result of the walk of `traverse_edges` on a valid code -/
theorem traverseLoop_valid (l : Link) (hv : Valid l) (s : Nat × Nat) (hs : HE l s) :
    ∀ (fuel : Nat) (cur : Nat × Nat) (acc : List (Nat × Nat)),
      RChain (step l) s (cur :: acc) → (cur :: acc).Nodup → fuel + acc.length = 4 * l.length →
      ∃ v, traverseLoop l s fuel cur acc = .ok (v.reverse ++ [s]) ∧ RChain (step l) s v ∧ v.Nodup ∧
        step l (v.headD s) = s ∧ v.length ≤ 4 * l.length ∧ (∃ p, v = p ++ cur :: acc) := by
  intro fuel
  induction fuel with
  | zero =>
    intro cur acc hc hn hf
    exfalso
    have hall : ∀ x ∈ cur :: acc, HE l x :=
      RChain.all_mem (HE l) hs (fun x hx => (step_spec l hv x hx).2.1) hc
    have hsub : (cur :: acc) ⊆ (slots l).map (·.1) := fun x hx => (mem_slots_keys l x).2 (hall x hx)
    have hle := List.Nodup.length_le_of_subset hn hsub
    rw [List.length_map] at hle
    have : (slots l).length = 4 * l.length := slotsFrom_length l 0
    simp only [List.length_cons] at hle
    omega
  | succ fuel ih =>
    intro cur acc hc hn hf
    have hall : ∀ x ∈ cur :: acc, HE l x :=
      RChain.all_mem (HE l) hs (fun x hx => (step_spec l hv x hx).2.1) hc
    have hcur : HE l cur := hall cur (by simp)
    obtain ⟨hp, hnext, _⟩ := step_spec l hv cur hcur
    unfold traverseLoop
    simp only [hp]
    by_cases hret : step l cur = s
    · rw [if_pos hret]
      refine ⟨cur :: acc, ?_, hc, hn, by simpa using hret, ?_, [], rfl⟩
      · simp
      · have hsub : (cur :: acc) ⊆ (slots l).map (·.1) := fun x hx => (mem_slots_keys l x).2 (hall x hx)
        have hle := List.Nodup.length_le_of_subset hn hsub
        rw [List.length_map, slots, slotsFrom_length] at hle
        exact hle
    · rw [if_neg hret]
      have hnew : step l cur ∉ cur :: acc := by
        intro hmem
        rcases RChain.mem_cases hc _ hmem with h1 | ⟨y, hy, p, q, hpq⟩
        · exact hret h1
        · -- `step cur = step y` with `y` strictly later in the list than some entry: contradiction with nodup
          have hy' : HE l y := hall y (by rw [hpq]; simp)
          have hcy : cur = y := step_inj l hv cur y hcur hy' hy
          subst hcy
          -- cur occurs at the head and again after position |p|
          cases p with
          | nil =>
            simp only [List.nil_append, List.cons.injEq] at hpq
            obtain ⟨h1, h2⟩ := hpq
            rw [h2] at hn
            simp at hn
          | cons a p' =>
            simp only [List.cons_append, List.cons.injEq] at hpq
            obtain ⟨h1, h2⟩ := hpq
            rw [h2] at hn
            simp at hn
      have hc' : RChain (step l) s (step l cur :: cur :: acc) := ⟨rfl, hc⟩
      have hn' : (step l cur :: cur :: acc).Nodup := List.nodup_cons.2 ⟨hnew, hn⟩
      obtain ⟨v, h1, h2, h3, h4, h5, p, h6⟩ := ih (step l cur) (cur :: acc) hc' hn' (by simp only [List.length_cons]; omega)
      exact ⟨v, h1, h2, h3, h4, h5, p ++ [step l cur], by rw [h6]; simp⟩

end Yuiv.C18
