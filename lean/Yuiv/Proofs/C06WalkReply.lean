import Yuiv.Proofs.C06WalkClosure
import Yuiv.Proofs.C06WalkBfs
import Yuiv.Props.C06Cycle
/-
C06Walk — the driver's checks `hyp` and `sets` for braid closures whose word uses every generator (helper; property
theorems in `Props/C06Walk.lean`).
-/
namespace Yuiv.C06Walk
open Yuiv Yuiv.KhRef Yuiv.C06Canon Yuiv.C04Inv Yuiv.C06Cycle Yuiv.Drv.C06 Yuiv.C06Closure
open Yuiv.C18 (closure posLab)
open Yuiv.C18Bridge (toKh)

theorem range_map_getElem! {α β : Type} [Inhabited α] (xs : List α) (f : α → β) :
    (List.range xs.length).map (fun k => f xs[k]!) = xs.map f := by
  apply List.ext_getElem
  · simp
  · intro k h1 h2
    simp only [List.getElem_map, List.getElem_range]
    rw [getElem!_pos xs k (by simpa using h1)]

/-- inversion of `coloredSeifertCircles … = .ok cc` -/
theorem coloredSeifertCircles_ok (l : Link) (signs : List Int) (base : Nat) (cc : List (Path × Colour))
    (h : coloredSeifertCircles l signs base = .ok cc) :
    ∃ (paths : List Path) (i : Nat) (col : Nat → Colour) (rem : List Nat),
      seifertCircles l signs = .ok paths ∧ paths.findIdx? (fun c => c.edges.contains base) = some i ∧
      colouring (fun i1 i2 => isAdj l (paths[i1]!).edges (paths[i2]!).edges) ascending paths.length i =
        some (col, rem) ∧
      cc = (List.range paths.length).map (fun k => (paths[k]!, col k)) := by
  unfold coloredSeifertCircles at h
  split at h
  · split at h
    · cases h
    · split at h
      · rename_i paths hs
        split at h
        · cases h
        · rename_i i hi
          dsimp only at h
          split at h
          · rename_i col rem hc
            cases h
            exact ⟨paths, i, col, rem, hs, hi, hc, rfl⟩
          · cases h
      · cases h
      · cases h
  · cases h
  · cases h

/-- **the driver's checks on a braid closure.**  Word uses every generator; the state is the orientation preserving one.
Then for whatever `coloredSeifertCircles` returns, the `hyp` flag (`crossingsBicoloured`) and the `sets` flag hold -/
theorem closure_checks (n : Nat) (w : List Int) (l : C18.Link) (hcl : closure n w = .ok l)
    (hgen : ∀ g, g + 1 < n → ∃ j, j < w.length ∧ (w.getD j 0).natAbs - 1 = g)
    (signs : List Int) (hso : oriPresState signs = braidState w) (start : Nat) (cc : List (Path × Colour))
    (hcc : coloredSeifertCircles (toKh l) signs start = .ok cc) :
    crossingsBicoloured (toKh l) cc = true ∧
    ((cc.map (fun pc => sortNat pc.1.edges)).toArray.qsort (fun x y => x.headD 0 < y.headD 0)).toList =
      (circles (toKh l) (edgeLabels (toKh l)) (braidState w)).toList.map (·.toList) := by
  obtain ⟨paths, i, col, rem, hs, hi, hc, rfl⟩ := coloredSeifertCircles_ok _ _ _ _ hcc
  have hp : componentsOf (toKh l) (resolvedTypes (toKh l) (braidState w)) = .ok paths := by
    rw [← hso]; exact hs
  have hv := validK_toKh l (C18.closure_valid' n w l hcl)
  have S := strandPaths n w l hcl paths hp
  have him : i < paths.length := by
    rw [List.findIdx?_eq_some_iff_getElem] at hi
    exact hi.1
  have hcol := path_colouring_ne (fun i1 i2 => isAdj (toKh l) (paths[i1]!).edges (paths[i2]!).edges)
    paths.length n i (posW n w paths) him
    (fun u v h => isAdj_pos n w l hcl paths S u v h)
    (fun u v hu hv' h => isAdj_of_pos n w l hcl paths S hgen u v hu hv' h)
    S.inj S.lt S.surj col rem hc
  refine ⟨crossingsBicoloured_closure n w l hcl paths S col hcol, ?_⟩
  have := sets_flag (toKh l) hv (braidState w) paths hp
  rw [← this, List.map_map]
  have e : (List.range paths.length).map ((fun pc : Path × Colour => sortNat pc.1.edges) ∘ fun k => (paths[k]!, col k)) =
      paths.map (fun p => sortNat p.edges) := range_map_getElem! paths (fun p => sortNat p.edges)
  rw [e]

end Yuiv.C06Walk
