import Yuiv.Proofs.C18InvDefs
import Yuiv.Proofs.C18Closure
/-
C18Inv — braid closures, part 1: the closure of a braid word carries the BRAID ORIENTATION (all strands
oriented downwards), and for this orientation the sign of crossing `i` is the sign of the letter `w[i]`.

  `Obraid w`               entrance slots of the braid orientation
  `RInv`, `rinv_step`, `rinv_foldl`   loop invariant of `Braid::closure` (on top of `CInv`): the crossing written
                           for letter `i` is `(a, c, c+1, b)` / `(b, a, c, c+1)` with `c = strands + 2i`; the top
                           labels used so far are pairwise distinct and no longer in the bottom row; `posLab`
                           (strand position of a label) is `k` at `bottom[k]`
  `BForm`, `closure_bform` normal form of `closure strands w = .ok l` after the final renaming
  `BForm.lab_inj`          among entrance slots (and among exit slots) a label determines its slot
  `closure_orient`   (T1)  `Orient l (Obraid w) ∧ UnderIn l (Obraid w)`
  `closure_signs_braid`, `closure_writhe_braid` (T2)  `signsOf l (Obraid w) = w.map braidSign`, writhe = `expSum w`
-/
namespace Yuiv.C18
open Yuiv

def Obraid (w : List Int) : Nat × Nat → Bool :=
  fun h => h.2 == 0 || (decide (w.getD h.1 0 > 0) && h.2 == 3) || (decide (w.getD h.1 0 < 0) && h.2 == 1)

def posLab (strands : Nat) (w : List Int) (e : Nat) : Nat :=
  if e < strands then e else (w.getD ((e - strands) / 2) 0).natAbs - 1 + (e - strands) % 2

def rawX (s : Int) (t0 t1 c : Nat) : Nat × Nat × Nat × Nat :=
  if s > 0 then (t0, c, c + 1, t1) else (t0, t1, c, c + 1)

theorem br_getD_app_left {α} (u v : List α) (i : Nat) (d : α) (h : i < u.length) :
    (u ++ v).getD i d = u.getD i d := by
  simp only [List.getD_eq_getElem?_getD, List.getElem?_append_left h]

theorem br_getD_app_right {α} (u v : List α) (i : Nat) (d : α) (h : u.length ≤ i) :
    (u ++ v).getD i d = v.getD (i - u.length) d := by
  simp only [List.getD_eq_getElem?_getD, List.getElem?_append_right h]

theorem br_getD_of_lt {α} (u : List α) (i : Nat) (d : α) (h : i < u.length) : u.getD i d = u[i] := by
  simp only [List.getD_eq_getElem?_getD, List.getElem?_eq_getElem h, Option.getD_some]

theorem posLab_append (strands : Nat) (u v : List Int) (e : Nat) (he : e < strands + 2 * u.length) :
    posLab strands (u ++ v) e = posLab strands u e := by
  unfold posLab
  by_cases h : e < strands
  · rw [if_pos h, if_pos h]
  · rw [if_neg h, if_neg h, br_getD_app_left _ _ _ _ (by omega)]

theorem posLab_new (strands : Nat) (u : List Int) (s : Int) (v : List Int) (d : Nat) (hd : d < 2) :
    posLab strands (u ++ s :: v) (strands + 2 * u.length + d) = s.natAbs - 1 + d := by
  unfold posLab
  rw [if_neg (by omega)]
  have h1 : (strands + 2 * u.length + d - strands) / 2 = u.length := by omega
  have h2 : (strands + 2 * u.length + d - strands) % 2 = d := by omega
  rw [h1, h2, br_getD_app_right _ _ _ _ (Nat.le_refl _), Nat.sub_self]
  rfl

theorem br_cinv_bottom_lt {strands : Nat} {st : Nat × List Nat × PD} (hI : CInv strands st) :
    ∀ e ∈ st.2.1, e < st.1 := by
  intro e he
  have h1 := hI.cnt e
  have h2 := List.count_pos_iff.2 he
  by_cases h : e < st.1
  · exact h
  · rw [if_neg h] at h1; omega

theorem br_cinv_bottom_nodup {strands : Nat} {st : Nat × List Nat × PD} (hI : CInv strands st) :
    st.2.1.Nodup := List.nodup_iff_count.2 hI.cb

structure RInv (strands : Nat) (u : List Int) (tops : List Nat) (st : Nat × List Nat × PD) : Prop where
  cinv : CInv strands st
  cnt : st.1 = strands + 2 * u.length
  tlen : tops.length = 2 * u.length
  tnd : tops.Nodup
  tfresh : ∀ t ∈ tops, t ∉ st.2.1 ∧ t < st.1
  plen : st.2.2.length = u.length
  shape : ∀ i, i < u.length → u.getD i 0 ≠ 0 ∧
     st.2.2.getD i (0,0,0,0) = rawX (u.getD i 0) (tops.getD (2*i) 0) (tops.getD (2*i+1) 0) (strands + 2*i) ∧
     posLab strands u (tops.getD (2*i) 0) = (u.getD i 0).natAbs - 1 + (if u.getD i 0 > 0 then 0 else 1) ∧
     posLab strands u (tops.getD (2*i+1) 0) = (u.getD i 0).natAbs - 1 + (if u.getD i 0 > 0 then 1 else 0)
  posb : ∀ k (hk : k < st.2.1.length), posLab strands u st.2.1[k] = k

theorem rinv_init (strands : Nat) : RInv strands [] [] (strands, List.range strands, []) where
  cinv := cinv_init strands
  cnt := rfl
  tlen := rfl
  tnd := List.nodup_nil
  tfresh := by intro t ht; cases ht
  plen := rfl
  shape := by intro i hi; cases hi
  posb := by
    intro k hk
    simp only [List.length_range] at hk
    simp only [List.getElem_range]
    unfold posLab; rw [if_pos hk]

/-- members of the new bottom row -/
theorem br_mem_set2 (bottom : List Nat) (g c d e : Nat) (h : e ∈ (bottom.set g c).set (g + 1) d) :
    e = d ∨ e = c ∨ e ∈ bottom := by
  rcases List.mem_or_eq_of_mem_set h with h | h
  · rcases List.mem_or_eq_of_mem_set h with h | h
    · exact Or.inr (Or.inr h)
    · exact Or.inr (Or.inl h)
  · exact Or.inl h

theorem br_not_mem_set2 (bottom : List Nat) (hn : bottom.Nodup) (g c d k : Nat) (hk : k < bottom.length)
    (hkg : k = g ∨ k = g + 1) (hc : bottom[k] ≠ c) (hd : bottom[k] ≠ d) :
    bottom[k] ∉ (bottom.set g c).set (g + 1) d := by
  intro hm
  obtain ⟨m, hm1, hm2⟩ := List.getElem_of_mem hm
  simp only [List.length_set] at hm1
  by_cases h1 : m = g + 1
  · subst h1; rw [List.getElem_set_self] at hm2; exact hd hm2.symm
  · rw [List.getElem_set_ne (by omega)] at hm2
    by_cases h0 : m = g
    · subst h0; rw [List.getElem_set_self] at hm2; exact hc hm2.symm
    · rw [List.getElem_set_ne (by omega)] at hm2
      have := (List.getElem_inj hn).1 hm2
      omega

theorem rinv_step_core (strands : Nat) (u : List Int) (tops : List Nat) (count : Nat) (bottom : List Nat)
    (pd : PD) (s : Int) (t0 t1 : Nat) (k0 k1 : Nat)
    (hI : RInv strands u tops (count, bottom, pd))
    (hI' : CInv strands (count + 2, (bottom.set (s.natAbs - 1) count).set (s.natAbs - 1 + 1) (count + 1),
      pd ++ [rawX s t0 t1 count]))
    (hs : s.natAbs ≠ 0) (hk0 : k0 < bottom.length) (hk1 : k1 < bottom.length)
    (ht0 : bottom[k0] = t0) (ht1 : bottom[k1] = t1)
    (hk : (s > 0 ∧ k0 = s.natAbs - 1 ∧ k1 = s.natAbs - 1 + 1) ∨ (¬ s > 0 ∧ k0 = s.natAbs - 1 + 1 ∧ k1 = s.natAbs - 1)) :
    RInv strands (u ++ [s]) (tops ++ [t0, t1])
      (count + 2, (bottom.set (s.natAbs - 1) count).set (s.natAbs - 1 + 1) (count + 1),
        pd ++ [rawX s t0 t1 count]) := by
  obtain ⟨hC, hcnt, htl, htn, htf, hpl, hsh, hpb⟩ := hI
  simp only at hcnt htf hpl hsh hpb
  have hbn : bottom.Nodup := br_cinv_bottom_nodup hC
  have hblt : ∀ e ∈ bottom, e < count := br_cinv_bottom_lt hC
  have h0lt : t0 < count := ht0 ▸ hblt _ (List.getElem_mem hk0)
  have h1lt : t1 < count := ht1 ▸ hblt _ (List.getElem_mem hk1)
  have hk01 : k0 ≠ k1 := by omega
  have h01 : t0 ≠ t1 := by
    intro h; rw [← ht0, ← ht1] at h; exact hk01 ((List.getElem_inj hbn).1 h)
  have hkg0 : k0 = s.natAbs - 1 ∨ k0 = s.natAbs - 1 + 1 := by omega
  have hkg1 : k1 = s.natAbs - 1 ∨ k1 = s.natAbs - 1 + 1 := by omega
  have hul : (u ++ [s]).length = u.length + 1 := by simp
  refine ⟨hI', ?_, ?_, ?_, ?_, ?_, ?_, ?_⟩
  · simp only [hul]; omega
  · simp only [List.length_append, List.length_cons, List.length_nil, hul]; omega
  · rw [List.nodup_append]
    refine ⟨htn, by simp [h01], ?_⟩
    intro x hx y hy hxy
    subst hxy
    have hxb := (htf x hx).1
    simp only [List.mem_cons, List.not_mem_nil, or_false] at hy
    rcases hy with rfl | rfl
    · exact hxb (ht0 ▸ List.getElem_mem hk0)
    · exact hxb (ht1 ▸ List.getElem_mem hk1)
  · intro t ht
    simp only
    rcases List.mem_append.1 ht with ht | ht
    · obtain ⟨h1, h2⟩ := htf t ht
      refine ⟨?_, by omega⟩
      intro hm
      rcases br_mem_set2 _ _ _ _ _ hm with h | h | h
      · omega
      · omega
      · exact h1 h
    · simp only [List.mem_cons, List.not_mem_nil, or_false] at ht
      rcases ht with rfl | rfl
      · refine ⟨?_, by omega⟩
        rw [← ht0]
        exact br_not_mem_set2 bottom hbn _ _ _ k0 hk0 hkg0 (by omega) (by omega)
      · refine ⟨?_, by omega⟩
        rw [← ht1]
        exact br_not_mem_set2 bottom hbn _ _ _ k1 hk1 hkg1 (by omega) (by omega)
  · simp only [List.length_append, List.length_cons, List.length_nil, hpl]
  · intro i hi
    rw [hul] at hi
    by_cases hiu : i < u.length
    · obtain ⟨a1, a2, a3, a4⟩ := hsh i hiu
      have m0 : tops.getD (2 * i) 0 ∈ tops := by
        rw [br_getD_of_lt _ _ _ (by omega)]; exact List.getElem_mem _
      have m1 : tops.getD (2 * i + 1) 0 ∈ tops := by
        rw [br_getD_of_lt _ _ _ (by omega)]; exact List.getElem_mem _
      rw [br_getD_app_left u _ _ _ hiu, br_getD_app_left pd _ _ _ (by omega),
        br_getD_app_left tops _ _ _ (by omega), br_getD_app_left tops _ _ _ (by omega),
        posLab_append _ _ _ _ (by have := (htf _ m0).2; omega),
        posLab_append _ _ _ _ (by have := (htf _ m1).2; omega)]
      exact ⟨a1, a2, a3, a4⟩
    · have hie : i = u.length := by omega
      subst hie
      have e1 : (u ++ [s]).getD u.length 0 = s := by
        rw [br_getD_app_right _ _ _ _ (Nat.le_refl _), Nat.sub_self]; rfl
      have e2 : (pd ++ [rawX s t0 t1 count]).getD u.length (0, 0, 0, 0) = rawX s t0 t1 count := by
        rw [br_getD_app_right _ _ _ _ (by omega), hpl, Nat.sub_self]; rfl
      have e3 : (tops ++ [t0, t1]).getD (2 * u.length) 0 = t0 := by
        rw [br_getD_app_right _ _ _ _ (by omega), htl, Nat.sub_self]; rfl
      have e4 : (tops ++ [t0, t1]).getD (2 * u.length + 1) 0 = t1 := by
        rw [br_getD_app_right _ _ _ _ (by omega), htl, show 2 * u.length + 1 - 2 * u.length = 1 by omega]; rfl
      rw [e1, e2, e3, e4, posLab_append _ _ _ _ (by omega), posLab_append _ _ _ _ (by omega), hcnt]
      refine ⟨by omega, rfl, ?_, ?_⟩
      · rw [← ht0, hpb k0 hk0]
        rcases hk with ⟨h1, h2, h3⟩ | ⟨h1, h2, h3⟩
        · rw [if_pos h1]; omega
        · rw [if_neg h1]; omega
      · rw [← ht1, hpb k1 hk1]
        rcases hk with ⟨h1, h2, h3⟩ | ⟨h1, h2, h3⟩
        · rw [if_pos h1]; omega
        · rw [if_neg h1]; omega
  · intro k hk'
    simp only [List.length_set] at hk'
    simp only
    by_cases h1 : k = s.natAbs - 1 + 1
    · subst h1
      rw [List.getElem_set_self, hcnt]
      have := posLab_new strands u s [] 1 (by omega)
      rw [this]
    · rw [List.getElem_set_ne (by omega)]
      by_cases h0 : k = s.natAbs - 1
      · subst h0
        rw [List.getElem_set_self, hcnt]
        have := posLab_new strands u s [] 0 (by omega)
        simp only [Nat.add_zero] at this
        rw [this]
      · rw [List.getElem_set_ne (by omega), posLab_append _ _ _ _ (by have := hblt _ (List.getElem_mem hk'); omega)]
        exact hpb k hk'

theorem rinv_step (strands : Nat) (u : List Int) (tops : List Nat) (st st' : Nat × List Nat × PD) (s : Int)
    (hI : RInv strands u tops st) (h : closureStep st s = .ok st') :
    ∃ t0 t1, RInv strands (u ++ [s]) (tops ++ [t0, t1]) st' := by
  have hC' := cinv_step strands st st' s hI.cinv h
  obtain ⟨a, b, hs0, ha, hb, rfl⟩ := closureStep_ok h
  obtain ⟨count, bottom, pd⟩ := st
  simp only at ha hb hC' ⊢
  have hi : s.natAbs - 1 < bottom.length := by
    rcases Nat.lt_or_ge (s.natAbs - 1) bottom.length with h | h
    · exact h
    · rw [List.getElem?_eq_none h] at ha; cases ha
  have hi1 : s.natAbs - 1 + 1 < bottom.length := by
    rcases Nat.lt_or_ge (s.natAbs - 1 + 1) bottom.length with h | h
    · exact h
    · rw [List.getElem?_eq_none h] at hb; cases hb
  have ha' : bottom[s.natAbs - 1] = a := by
    rw [List.getElem?_eq_getElem hi] at ha; exact Option.some.inj ha
  have hb' : bottom[s.natAbs - 1 + 1] = b := by
    rw [List.getElem?_eq_getElem hi1] at hb; exact Option.some.inj hb
  by_cases hs : s > 0
  · refine ⟨a, b, ?_⟩
    have hx : (if s > 0 then (a, count, count + 1, b) else (b, a, count, count + 1)) = rawX s a b count := by
      unfold rawX; rw [if_pos hs, if_pos hs]
    rw [hx] at hC' ⊢
    exact rinv_step_core strands u tops count bottom pd s a b _ _ hI hC' hs0 hi hi1 ha' hb'
      (Or.inl ⟨hs, rfl, rfl⟩)
  · refine ⟨b, a, ?_⟩
    have hx : (if s > 0 then (a, count, count + 1, b) else (b, a, count, count + 1)) = rawX s b a count := by
      unfold rawX; rw [if_neg hs, if_neg hs]
    rw [hx] at hC' ⊢
    exact rinv_step_core strands u tops count bottom pd s b a _ _ hI hC' hs0 hi1 hi hb' ha'
      (Or.inr ⟨hs, rfl, rfl⟩)

theorem rinv_foldl (strands : Nat) (v : List Int) : ∀ (u : List Int) (tops : List Nat)
    (st st' : Nat × List Nat × PD), RInv strands u tops st → v.foldlM closureStep st = .ok st' →
    ∃ tops', RInv strands (u ++ v) tops' st' := by
  induction v with
  | nil =>
    intro u tops st st' hI h
    simp only [List.foldlM_nil, pure] at h; cases h
    exact ⟨tops, by rw [List.append_nil]; exact hI⟩
  | cons s v ih =>
    intro u tops st st' hI h
    simp only [List.foldlM_cons] at h
    cases hs : closureStep st s with
    | panic => rw [hs] at h; cases h
    | err => rw [hs] at h; cases h
    | ok st1 =>
      rw [hs] at h
      obtain ⟨t0, t1, hI1⟩ := rinv_step strands u tops st st1 s hI hs
      obtain ⟨tops', hI'⟩ := ih (u ++ [s]) _ st1 st' hI1 h
      refine ⟨tops', ?_⟩
      rw [List.append_assoc] at hI'
      exact hI'

/-! ### the final renaming -/

theorem br_connRename_mem (bottom : List Nat) (x : Nat) (hx : x ∈ bottom) :
    connRename bottom x = bottom.idxOf x ∧ bottom.idxOf x < bottom.length := by
  have : bottom.idxOf x < bottom.length := List.idxOf_lt_length_iff.2 hx
  exact ⟨by unfold connRename; simp only [this, if_true], this⟩

theorem br_connRename_nmem (bottom : List Nat) (x : Nat) (hx : x ∉ bottom) : connRename bottom x = x := by
  have : ¬ bottom.idxOf x < bottom.length := fun h => hx (List.idxOf_lt_length_iff.1 h)
  unfold connRename; simp only [this, if_false]

/-- the renaming is injective on the labels `≥ strands` when all bottom labels are `≥ strands` -/
theorem br_connRename_inj (bottom : List Nat) (m : Nat) (hlen : bottom.length ≤ m) (x y : Nat) (hx : m ≤ x) (hy : m ≤ y)
    (h : connRename bottom x = connRename bottom y) : x = y := by
  by_cases hxb : x ∈ bottom
  · obtain ⟨h1, h2⟩ := br_connRename_mem bottom x hxb
    by_cases hyb : y ∈ bottom
    · obtain ⟨h3, h4⟩ := br_connRename_mem bottom y hyb
      rw [h1, h3] at h
      have e1 := List.getElem_idxOf h2
      have e2 := List.getElem_idxOf h4
      simp only [h] at e1
      exact e1.symm.trans e2
    · rw [h1, br_connRename_nmem bottom y hyb] at h; omega
  · rw [br_connRename_nmem bottom x hxb] at h
    by_cases hyb : y ∈ bottom
    · obtain ⟨h3, h4⟩ := br_connRename_mem bottom y hyb
      rw [h3] at h; omega
    · rw [br_connRename_nmem bottom y hyb] at h; exact h

/-- the crossing of the closure for the letter `s` with entrance labels `i0, i1` and exit labels `o0, o1` -/
def bX (s : Int) (i0 i1 o0 o1 : Nat) : Crossing :=
  if s > 0 then ⟨.X, i0, o0, o1, i1⟩ else ⟨.X, i0, i1, o0, o1⟩

/-- normal form of the closure of `w`: crossing `i` comes from the letter `w[i]`; its entrance labels are entries
`2i, 2i+1` of the duplicate-free list `ins`, its exit labels entries `2i, 2i+1` of the duplicate-free list `outs`;
`posLab` (strand position of a label) is `g, g+1` at the exits and `g, g+1` (in the order given by the sign) at
the entrances -/
structure BForm (strands : Nat) (w : List Int) (l : Link) (ins outs : List Nat) : Prop where
  len : l.length = w.length
  ilen : ins.length = 2 * w.length
  olen : outs.length = 2 * w.length
  ind : ins.Nodup
  ond : outs.Nodup
  cr : ∀ i, i < w.length → w.getD i 0 ≠ 0 ∧
    l[i]? = some (bX (w.getD i 0) (ins.getD (2 * i) 0) (ins.getD (2 * i + 1) 0)
      (outs.getD (2 * i) 0) (outs.getD (2 * i + 1) 0))
  pos : ∀ i, i < w.length →
    posLab strands w (ins.getD (2 * i) 0) = (w.getD i 0).natAbs - 1 + (if w.getD i 0 > 0 then 0 else 1) ∧
    posLab strands w (ins.getD (2 * i + 1) 0) = (w.getD i 0).natAbs - 1 + (if w.getD i 0 > 0 then 1 else 0) ∧
    posLab strands w (outs.getD (2 * i) 0) = (w.getD i 0).natAbs - 1 ∧
    posLab strands w (outs.getD (2 * i + 1) 0) = (w.getD i 0).natAbs - 1 + 1

theorem posLab_out (strands : Nat) (w : List Int) (i d : Nat) (hd : d < 2) :
    posLab strands w (strands + 2 * i + d) = (w.getD i 0).natAbs - 1 + d := by
  unfold posLab
  rw [if_neg (by omega)]
  have h1 : (strands + 2 * i + d - strands) / 2 = i := by omega
  have h2 : (strands + 2 * i + d - strands) % 2 = d := by omega
  rw [h1, h2]

theorem bform_of_rinv (strands : Nat) (w : List Int) (tops : List Nat) (st : Nat × List Nat × PD)
    (hI : RInv strands w tops st) (hfree : hasFreeLoop st.2.1 = false) :
    BForm strands w
      (fromPD4 (st.2.2.map (fun x => (connRename st.2.1 x.1, connRename st.2.1 x.2.1,
        connRename st.2.1 x.2.2.1, connRename st.2.1 x.2.2.2))))
      tops ((List.range' strands (2 * w.length)).map (connRename st.2.1)) := by
  obtain ⟨count, bottom, pd⟩ := st
  obtain ⟨hC, hcnt, htl, htn, htf, hpl, hsh, hpb⟩ := hI
  simp only at hcnt htf hpl hsh hpb hfree ⊢
  have hne := hasFreeLoop_false bottom hfree
  have hlen : bottom.length = strands := hC.len
  have hge : ∀ x ∈ bottom, strands ≤ x := by
    intro x hx
    obtain ⟨k, hk, rfl⟩ := List.getElem_of_mem hx
    rcases hC.own k hk with h | h
    · exact absurd h (hne k hk)
    · exact h
  have hpos : ∀ x, posLab strands w (connRename bottom x) = posLab strands w x := by
    intro x
    by_cases hx : x ∈ bottom
    · obtain ⟨h1, h2⟩ := br_connRename_mem bottom x hx
      rw [h1]
      have := hpb _ h2
      rw [List.getElem_idxOf h2] at this
      rw [this]; unfold posLab; rw [if_pos (by omega)]
    · rw [br_connRename_nmem bottom x hx]
  have hout : ∀ k, k < 2 * w.length →
      ((List.range' strands (2 * w.length)).map (connRename bottom)).getD k 0 = connRename bottom (strands + k) := by
    intro k hk
    simp only [List.getD_eq_getElem?_getD, List.getElem?_map, List.getElem?_range' hk, Nat.one_mul,
      Option.map_some, Option.getD_some]
  refine ⟨?_, htl, by simp, htn, ?_, ?_, ?_⟩
  · simp only [fromPD4, List.length_map, hpl]
  · unfold List.Nodup
    rw [List.pairwise_map]
    refine List.Pairwise.imp_of_mem ?_ (List.nodup_range' (step := 1))
    intro x y hx hy hne hxy
    rw [List.mem_range'_1] at hx hy
    exact hne (br_connRename_inj bottom strands (by omega) x y hx.1 hy.1 hxy)
  · intro i hi
    obtain ⟨a1, a2, _, _⟩ := hsh i hi
    refine ⟨a1, ?_⟩
    have m0 : tops.getD (2 * i) 0 ∈ tops := by
      rw [br_getD_of_lt _ _ _ (by omega)]; exact List.getElem_mem _
    have m1 : tops.getD (2 * i + 1) 0 ∈ tops := by
      rw [br_getD_of_lt _ _ _ (by omega)]; exact List.getElem_mem _
    have f0 := br_connRename_nmem bottom _ (htf _ m0).1
    have f1 := br_connRename_nmem bottom _ (htf _ m1).1
    have hp : pd[i]? = some (pd.getD i (0, 0, 0, 0)) := by
      rw [br_getD_of_lt _ _ _ (by omega)]; exact List.getElem?_eq_getElem (by omega)
    simp only [fromPD4, List.getElem?_map, hp, a2, Option.map_some]
    rw [hout _ (by omega), hout _ (by omega)]
    unfold rawX bX Crossing.ofPD
    by_cases hs : w.getD i 0 > 0
    · simp only [if_pos hs, f0, f1, Nat.add_assoc]
    · simp only [if_neg hs, f0, f1, Nat.add_assoc]
  · intro i hi
    obtain ⟨_, _, a3, a4⟩ := hsh i hi
    refine ⟨a3, a4, ?_, ?_⟩
    · rw [hout _ (by omega), hpos]
      have := posLab_out strands w i 0 (by omega)
      simpa using this
    · rw [hout _ (by omega), hpos]
      exact posLab_out strands w i 1 (by omega)

/-- inversion of `closure … = .ok l` -/
theorem closure_bform (strands : Nat) (w : List Int) (l : Link) (h : closure strands w = .ok l) :
    ∃ ins outs, BForm strands w l ins outs := by
  unfold closure at h
  cases hp : closurePD strands w with
  | panic => rw [hp] at h; cases h
  | err => rw [hp] at h; cases h
  | ok pd =>
    rw [hp] at h
    simp only [bind, Res.bind, pure] at h
    cases h
    unfold closurePD at hp
    cases hf : w.foldlM closureStep (strands, List.range strands, []) with
    | panic => rw [hf] at hp; cases hp
    | err => rw [hf] at hp; cases hp
    | ok st =>
      rw [hf] at hp
      simp only [bind, Res.bind] at hp
      obtain ⟨tops, hI⟩ := rinv_foldl strands w [] [] _ st (rinv_init strands) hf
      rw [List.nil_append] at hI
      cases hfl : hasFreeLoop st.2.1 with
      | true => rw [hfl] at hp; simp at hp
      | false =>
        rw [hfl] at hp
        simp only [Bool.false_eq_true, if_false, pure] at hp
        cases hp
        exact ⟨_, _, bform_of_rinv strands w tops st hI hfl⟩

/-! ### slot-level consequences of the normal form -/

/-- the entrance table of one crossing: `p` = "the letter is positive", `q` = "the letter is negative" -/
def ob2 (p q : Bool) (j : Nat) : Bool := j == 0 || (p && j == 3) || (q && j == 1)

def inBit (j : Nat) : Nat := if j = 0 then 0 else 1
def outBit (p : Bool) (j : Nat) : Nat := if p then j - 1 else j - 2

theorem Obraid_eq (w : List Int) (i j : Nat) :
    Obraid w (i, j) = ob2 (decide (w.getD i 0 > 0)) (decide (w.getD i 0 < 0)) j := rfl

theorem br_decide_neg_of_ne (s : Int) (hs : s ≠ 0) : decide (s < 0) = !decide (s > 0) := by
  by_cases h : s > 0
  · have h' : ¬ s < 0 := by omega
    simp [h, h']
  · have h' : s < 0 := by omega
    simp [h, h']

theorem ob2_thru : ∀ p : Bool, ∀ j, j < 4 → ob2 p (!p) ((j + 2) % 4) = !ob2 p (!p) j := by decide

theorem ob2_bits : ∀ p : Bool, ∀ j, j < 4 → ∀ j', j' < 4 → ob2 p (!p) j = ob2 p (!p) j' →
    (if ob2 p (!p) j then inBit j else outBit p j) = (if ob2 p (!p) j' then inBit j' else outBit p j') →
    j = j' := by decide

theorem ob2_bit_lt : ∀ p : Bool, ∀ j, j < 4 → (if ob2 p (!p) j then inBit j else outBit p j) < 2 := by decide

theorem BForm.at {strands : Nat} {w : List Int} {l : Link} {ins outs : List Nat}
    (hB : BForm strands w l ins outs) (i : Nat) (hi : i < w.length) :
    ctypeAt l i = .X ∧
    edgeAt l i 0 = ins.getD (2 * i) 0 ∧
    edgeAt l i 1 = (if w.getD i 0 > 0 then outs.getD (2 * i) 0 else ins.getD (2 * i + 1) 0) ∧
    edgeAt l i 2 = (if w.getD i 0 > 0 then outs.getD (2 * i + 1) 0 else outs.getD (2 * i) 0) ∧
    edgeAt l i 3 = (if w.getD i 0 > 0 then ins.getD (2 * i + 1) 0 else outs.getD (2 * i + 1) 0) := by
  obtain ⟨_, hc⟩ := hB.cr i hi
  unfold ctypeAt edgeAt
  rw [hc]
  unfold bX
  by_cases hs : w.getD i 0 > 0
  · simp only [if_pos hs]
    refine ⟨?_, ?_, ?_, ?_, ?_⟩ <;> first | trivial | rfl
  · simp only [if_neg hs]
    refine ⟨?_, ?_, ?_, ?_, ?_⟩ <;> first | trivial | rfl

/-- the label of a slot: entry of `ins` at an entrance, of `outs` at an exit -/
theorem BForm.lab_slot {strands : Nat} {w : List Int} {l : Link} {ins outs : List Nat}
    (hB : BForm strands w l ins outs) (i j : Nat) (hi : i < w.length) (hj : j < 4) :
    lab l (i, j) = if Obraid w (i, j) then ins.getD (2 * i + inBit j) 0
      else outs.getD (2 * i + outBit (decide (w.getD i 0 > 0)) j) 0 := by
  obtain ⟨_, h0, h1, h2, h3⟩ := hB.at i hi
  have hnz := (hB.cr i hi).1
  rw [Obraid_eq, br_decide_neg_of_ne _ hnz]
  unfold lab
  simp only
  have hj' : j = 0 ∨ j = 1 ∨ j = 2 ∨ j = 3 := by omega
  by_cases hs : w.getD i 0 > 0
  · simp only [hs, if_true] at h1 h2 h3 ⊢
    rcases hj' with rfl | rfl | rfl | rfl
    · exact h0
    · exact h1
    · exact h2
    · exact h3
  · simp only [hs, if_false] at h1 h2 h3 ⊢
    rcases hj' with rfl | rfl | rfl | rfl
    · exact h0
    · exact h1
    · exact h2
    · exact h3

/-- among the entrance slots, and among the exit slots, a label determines its slot -/
theorem BForm.lab_inj {strands : Nat} {w : List Int} {l : Link} {ins outs : List Nat}
    (hB : BForm strands w l ins outs) (h h' : Nat × Nat) (hh : HE l h) (hh' : HE l h')
    (hO : Obraid w h = Obraid w h') (hl : lab l h = lab l h') : h = h' := by
  obtain ⟨i, j⟩ := h
  obtain ⟨i', j'⟩ := h'
  have hi : i < w.length := hB.len ▸ hh.1
  have hi' : i' < w.length := hB.len ▸ hh'.1
  have hj : j < 4 := hh.2
  have hj' : j' < 4 := hh'.2
  rw [hB.lab_slot i j hi hj, hB.lab_slot i' j' hi' hj', ← hO] at hl
  have hnz := (hB.cr i hi).1
  have hnz' := (hB.cr i' hi').1
  have b1 := ob2_bit_lt (decide (w.getD i 0 > 0)) j hj
  have b2 := ob2_bit_lt (decide (w.getD i' 0 > 0)) j' hj'
  have hO' := hO
  rw [Obraid_eq, Obraid_eq, br_decide_neg_of_ne _ hnz, br_decide_neg_of_ne _ hnz'] at hO'
  rw [Obraid_eq, br_decide_neg_of_ne _ hnz] at hl
  have key : (2 * i + (if ob2 (decide (w.getD i 0 > 0)) (!decide (w.getD i 0 > 0)) j then inBit j
        else outBit (decide (w.getD i 0 > 0)) j))
      = 2 * i' + (if ob2 (decide (w.getD i' 0 > 0)) (!decide (w.getD i' 0 > 0)) j' then inBit j'
        else outBit (decide (w.getD i' 0 > 0)) j') := by
    rw [← hO']
    cases hob : ob2 (decide (w.getD i 0 > 0)) (!decide (w.getD i 0 > 0)) j
    · rw [hob] at hl b1
      rw [← hO', hob] at b2
      simp only [Bool.false_eq_true, if_false] at hl b1 b2 ⊢
      exact (List.getD_inj (by rw [hB.olen]; omega) (by rw [hB.olen]; omega) hB.ond).1 hl
    · rw [hob] at hl b1
      rw [← hO', hob] at b2
      simp only [if_true] at hl b1 b2 ⊢
      exact (List.getD_inj (by rw [hB.ilen]; omega) (by rw [hB.ilen]; omega) hB.ind).1 hl
  have hii : i = i' := by omega
  subst hii
  have := ob2_bits _ j hj j' hj' hO' (by omega)
  rw [this]

theorem br_thru_X (l : Link) (i j : Nat) (h : ctypeAt l i = .X) : thru l (i, j) = (i, (j + 2) % 4) := by
  unfold thru; simp only [h]; rfl

/-- T1: the braid orientation (all strands downwards) is an orientation of the closure, consistent with the
under-strand directions of the code -/
theorem closure_orient (strands : Nat) (w : List Int) (l : Link) (h : closure strands w = .ok l) :
    Orient l (Obraid w) ∧ UnderIn l (Obraid w) := by
  obtain ⟨ins, outs, hB⟩ := closure_bform strands w l h
  have hv := closure_valid' strands w l h
  refine ⟨?_, fun i _ => rfl⟩
  intro i hi j hj
  have hi' : i < w.length := hB.len ▸ hi
  constructor
  · rw [br_thru_X l i j (hB.at i hi').1, Obraid_eq, Obraid_eq, br_decide_neg_of_ne _ (hB.cr i hi').1]
    exact ob2_thru _ j hj
  · obtain ⟨p1, p2, p3, _⟩ := partner_spec l hv (i, j) ⟨hi, hj⟩
    cases hb : Obraid w (partner l (i, j)) <;> cases hb' : Obraid w (i, j) <;> try rfl
    · exact absurd (hB.lab_inj _ _ p1 ⟨hi, hj⟩ (hb.trans hb'.symm) p3) p2
    · exact absurd (hB.lab_inj _ _ p1 ⟨hi, hj⟩ (hb.trans hb'.symm) p3) p2

/-- strand position of a slot of the closure: with `g = |w[i]| - 1`, slots `0,1,2,3` of a positive crossing sit at
positions `g, g, g+1, g+1`, those of a negative crossing at `g+1, g, g, g+1` -/
def slotPos (strands : Nat) (w : List Int) (l : Link) (h : Nat × Nat) : Nat := posLab strands w (lab l h)

theorem BForm.pos_slot {strands : Nat} {w : List Int} {l : Link} {ins outs : List Nat}
    (hB : BForm strands w l ins outs) (i : Nat) (hi : i < w.length) :
    slotPos strands w l (i, 0) = (w.getD i 0).natAbs - 1 + (if w.getD i 0 > 0 then 0 else 1) ∧
    slotPos strands w l (i, 1) = (w.getD i 0).natAbs - 1 ∧
    slotPos strands w l (i, 2) = (w.getD i 0).natAbs - 1 + (if w.getD i 0 > 0 then 1 else 0) ∧
    slotPos strands w l (i, 3) = (w.getD i 0).natAbs - 1 + 1 := by
  obtain ⟨_, h0, h1, h2, h3⟩ := hB.at i hi
  obtain ⟨p0, p1, p2, p3⟩ := hB.pos i hi
  unfold slotPos lab
  simp only
  rw [h0, h1, h2, h3]
  by_cases hs : w.getD i 0 > 0
  · simp only [if_pos hs] at p0 p1 ⊢
    exact ⟨p0, p2, p3, p1⟩
  · simp only [if_neg hs] at p0 p1 ⊢
    exact ⟨p0, p1, p2, p3⟩

/-- both ends of an edge of the closure are at the same strand position (the position is a function of the
label) -/
theorem slotPos_partner (strands : Nat) (w : List Int) (l : Link) (hv : Valid l) (h : Nat × Nat) (hh : HE l h) :
    slotPos strands w l (partner l h) = slotPos strands w l h := by
  unfold slotPos
  rw [(partner_spec l hv h hh).2.2.1]

/-! ### T2: the signs of the braid orientation are the signs of the letters -/

/-- sign of a braid letter (letters are non-zero) -/
def braidSign (s : Int) : Sign := if s > 0 then .pos else .neg

/-- exponent sum of a braid word -/
def expSum : List Int → Int
  | [] => 0
  | s :: r => Int.sign s + expSum r

theorem expSum_eq_sum (w : List Int) : expSum w = (w.map Int.sign).sum := by
  induction w with
  | nil => rfl
  | cons s r ih => simp only [expSum, List.map_cons, List.sum_cons, ih]

theorem expSum_eq_counts (w : List Int) :
    expSum w = (w.countP (fun s => decide (s > 0)) : Int) - (w.countP (fun s => decide (s < 0)) : Int) := by
  induction w with
  | nil => rfl
  | cons s r ih =>
    simp only [expSum, List.countP_cons, ih, decide_eq_true_eq]
    rcases Int.lt_trichotomy s 0 with h | h | h
    · rw [Int.sign_eq_neg_one_of_neg h, if_neg (by omega), if_pos h]; omega
    · subst h; simp
    · rw [Int.sign_eq_one_of_pos h, if_pos h, if_neg (by omega)]; omega

theorem writheOf_braid (w : List Int) (hnz : ∀ s ∈ w, s ≠ 0) : writheOf (w.map braidSign) = expSum w := by
  induction w with
  | nil => rfl
  | cons s r ih =>
    have ih' := ih (fun x hx => hnz x (List.mem_cons_of_mem _ hx))
    have hs := hnz s List.mem_cons_self
    unfold writheOf at ih' ⊢
    simp only [List.map_cons, List.count_cons, expSum, ← ih']
    unfold braidSign
    by_cases h : s > 0
    · rw [if_pos h, Int.sign_eq_one_of_pos h]; simp; omega
    · rw [if_neg h, Int.sign_eq_neg_one_of_neg (by omega)]; simp; omega

theorem br_filterMap_congr' {α β} (xs : List α) (G H : α → Option β) (h : ∀ i ∈ xs, G i = H i) :
    xs.filterMap G = xs.filterMap H := by
  induction xs with
  | nil => rfl
  | cons a r ih =>
    rw [List.filterMap_cons, List.filterMap_cons, h a List.mem_cons_self,
      ih (fun i hi => h i (List.mem_cons_of_mem _ hi))]

theorem br_filterMap_range_eq {β} (w : List Int) (F : Int → β) (G : Nat → Option β)
    (hG : ∀ i, i < w.length → G i = some (F (w.getD i 0))) : (List.range w.length).filterMap G = w.map F := by
  have h1 : (List.range w.length).filterMap G = (List.range w.length).map (fun i => F (w.getD i 0)) := by
    rw [← List.filterMap_eq_map]
    apply br_filterMap_congr'
    intro i hi
    exact hG i (List.mem_range.1 hi)
  rw [h1]
  apply List.ext_getElem
  · simp
  · intro i h1 h2
    simp only [List.length_map, List.length_range] at h1
    simp only [List.getElem_map, List.getElem_range, br_getD_of_lt _ _ _ h1]

theorem BForm.sgnAt {strands : Nat} {w : List Int} {l : Link} {ins outs : List Nat}
    (hB : BForm strands w l ins outs) (i : Nat) (hi : i < w.length) :
    sgnAt l (Obraid w) i = some (braidSign (w.getD i 0)) := by
  unfold C18.sgnAt
  rw [(hB.at i hi).1, Obraid_eq, br_decide_neg_of_ne _ (hB.cr i hi).1]
  unfold braidSign
  by_cases hs : w.getD i 0 > 0
  · simp only [hs, decide_true, if_true]; rfl
  · simp only [hs, decide_false, if_false]; rfl

/-- T2: for the braid orientation the sign of crossing `i` is the sign of the letter `w[i]` -/
theorem closure_signs_braid (strands : Nat) (w : List Int) (l : Link) (h : closure strands w = .ok l) :
    signsOf l (Obraid w) = w.map braidSign := by
  obtain ⟨ins, outs, hB⟩ := closure_bform strands w l h
  unfold signsOf
  rw [hB.len]
  exact br_filterMap_range_eq w braidSign _ (fun i hi => hB.sgnAt i hi)

theorem closure_letters_ne (strands : Nat) (w : List Int) (l : Link) (h : closure strands w = .ok l) :
    ∀ s ∈ w, s ≠ 0 := by
  obtain ⟨ins, outs, hB⟩ := closure_bform strands w l h
  intro s hs
  obtain ⟨i, hi, rfl⟩ := List.getElem_of_mem hs
  have := (hB.cr i hi).1
  rwa [br_getD_of_lt _ _ _ hi] at this

/-- T2': the writhe of the braid orientation is the exponent sum -/
theorem closure_writhe_braid (strands : Nat) (w : List Int) (l : Link) (h : closure strands w = .ok l) :
    writheOf (signsOf l (Obraid w)) = expSum w := by
  rw [closure_signs_braid strands w l h]
  exact writheOf_braid w (closure_letters_ne strands w l h)
/-! ### non-vacuity: the trefoil as the closure of `σ₁³`, and a closure with a component that never passes under -/

example : closure 2 [1, 1, 1] = .ok (fromPD [[0, 2, 3, 1], [2, 4, 5, 3], [4, 0, 1, 5]]) := by decide
example : Orient (fromPD [[0, 2, 3, 1], [2, 4, 5, 3], [4, 0, 1, 5]]) (Obraid [1, 1, 1]) := by decide
example : UnderIn (fromPD [[0, 2, 3, 1], [2, 4, 5, 3], [4, 0, 1, 5]]) (Obraid [1, 1, 1]) := by decide
example : signsOf (fromPD [[0, 2, 3, 1], [2, 4, 5, 3], [4, 0, 1, 5]]) (Obraid [1, 1, 1]) = [.pos, .pos, .pos] := by
  decide
example : expSum [1, 1, 1] = 3 := by decide
example : ∃ ins outs, BForm 2 [1, 1, 1] (fromPD [[0, 2, 3, 1], [2, 4, 5, 3], [4, 0, 1, 5]]) ins outs :=
  closure_bform 2 [1, 1, 1] _ (by decide)

example : closure 2 [1, -1] = .ok (fromPD [[0, 2, 3, 1], [3, 2, 0, 1]]) := by decide
example : Orient (fromPD [[0, 2, 3, 1], [3, 2, 0, 1]]) (Obraid [1, -1]) ∧
    UnderIn (fromPD [[0, 2, 3, 1], [3, 2, 0, 1]]) (Obraid [1, -1]) := by decide
example : signsOf (fromPD [[0, 2, 3, 1], [3, 2, 0, 1]]) (Obraid [1, -1]) = [.pos, .neg] := by decide
example : crossingSigns (fromPD [[0, 2, 3, 1], [3, 2, 0, 1]]) = .ok [.neg, .pos] := by decide

end Yuiv.C18
