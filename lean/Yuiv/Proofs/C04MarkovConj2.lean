import Yuiv.Proofs.C04MarkovConj
/-
C04Markov (helper, no property theorem here): conjugation `w ++ [s]` versus `[s] ++ w`, the two collapses.
-/
open Yuiv.KhRef Yuiv.C04
namespace Yuiv.C04Inv
open Relation
open Yuiv.C18 (closureStep closurePD closure connRename hasFreeLoop CInv PD flatPD fromPD4)
open Yuiv.C18Bridge (toKh crossingKh)

variable {R : Type} [CommRing R]

/-- what is needed about the state `(c, bot, pd)` reached after `w`, and the strands `i`, `i+1` of the letter `s` -/
structure ConjFacts (n c i : Nat) (bot : List Nat) (pd : PD) (a b : Nat) : Prop where
  hlen : bot.length = n
  hi : i + 1 < n
  hnc : n ≤ c
  hlt : ∀ z ∈ bot, z < c
  hpd : ∀ z ∈ flatPD pd, z < c
  ea : bot[i]? = some a
  eb : bot[i + 1]? = some b
  htopi : i ∈ flatPD pd ∨ a = i
  htopi1 : i + 1 ∈ flatPD pd ∨ b = i + 1
  hsrca : a ∈ flatPD pd ∨ a = i
  hsrcb : b ∈ flatPD pd ∨ b = i + 1

/-- the closing arcs of the positions other than `i`, `i+1` -/
def restClose (n i : Nat) (bot : List Nat) : List (Nat × Nat) :=
  ((List.range n).filter (fun k => !(k == i || k == i + 1))).map (fun k => (gC i n (bot.getD k 0), k))

theorem mem_flatPD_map4 {f : Nat → Nat} {pd : PD} {z : Nat} (h : z ∈ flatPD pd) : f z ∈ flatPD (pd.map (map4 f)) := by
  rw [flatPD_map4]; exact List.mem_map.2 ⟨z, h, rfl⟩

theorem flatPD_stepX (s : Int) (a b c : Nat) : ∀ z, z ∈ flatPD [stepX s a b c] ↔ z = a ∨ z = b ∨ z = c ∨ z = c + 1 := by
  intro z
  unfold stepX flatPD
  split <;> simp <;> tauto

/-- `[s] ++ w` : collapse the closing arcs at the positions `i`, `i+1` (into the first crossing) -/
theorem conjN (x y : R) {n c i : Nat} {bot : List Nat} {pd : PD} {a b : Nat} (s : Int)
    (F : ConjFacts n c i bot pd a b) :
    stateSum x y (rawLinkP ([stepX s i (i + 1) n] ++ pd.map (map4 (gC i n))) (bot.map (gC i n)).zipIdx)
      = stateSum x y (rawLinkP ([stepX s (gC i n a) (gC i n b) n] ++ pd.map (map4 (gC i n))) (restClose n i bot)) := by
  obtain ⟨hlen, hi, hnc, hlt, hpd, ea, eb, htopi, htopi1, hsrca, hsrcb⟩ := F
  have hmem : ∀ p, p ∈ (bot.map (gC i n)).zipIdx ↔ ∃ z, bot[p.2]? = some z ∧ p.1 = gC i n z := by
    intro p
    rw [List.mem_zipIdx_iff_getElem?, List.getElem?_map]
    cases bot[p.2]? <;> simp [eq_comm]
  let FN : Nat → Nat := fun z => if z = i then gC i n a else if z = i + 1 then gC i n b else z
  have FN_i : FN i = gC i n a := by simp [FN]
  have FN_i1 : FN (i + 1) = gC i n b := by simp [FN]
  have FN_o : ∀ z, z ≠ i → z ≠ i + 1 → FN z = z := by intro z h1 h2; simp [FN, h1, h2]
  have FN_g : ∀ z, FN (gC i n z) = gC i n z := fun z => FN_o _ (gC_ne i n z hi).1 (gC_ne i n z hi).2
  rw [collapse_closing x y _ _ (fun p => p.2 == i || p.2 == i + 1) FN]
  · apply congrArg
    apply rawLinkP_congr
    · rw [List.map_append, List.map_cons, List.map_nil, map4_fix FN (pd.map (map4 (gC i n)))]
      · congr 2
        rw [map4_stepX]
        unfold stepX
        rw [FN_i, FN_i1, FN_o n (by omega) (by omega), FN_o (n + 1) (by omega) (by omega)]
      · intro z hz
        rw [flatPD_map4] at hz
        obtain ⟨z', _, rfl⟩ := List.mem_map.1 hz
        exact FN_g z'
    · rw [zipIdx_eq_map_range, List.filter_map, List.map_map, List.length_map, hlen]
      unfold restClose
      rw [List.filter_congr (q := fun k => !(k == i || k == i + 1)) (by intro k _; rfl)]
      apply List.map_congr_left
      intro k hk
      rw [List.mem_filter, List.mem_range] at hk
      have hk1 : k ≠ i := by intro h; simp [h] at hk
      have hk2 : k ≠ i + 1 := by intro h; simp [h] at hk
      have hkl : k < bot.length := by omega
      simp only [Function.comp, pmap]
      rw [List.getD_eq_getElem?_getD, List.getElem?_map, List.getD_eq_getElem?_getD, List.getElem?_eq_getElem hkl]
      simp only [Option.map, Option.getD]
      rw [FN_g, FN_o k hk1 hk2]
  · -- b1
    intro p hp hf
    obtain ⟨z, hz, e⟩ := (hmem p).1 hp
    simp only [Bool.or_eq_true, beq_iff_eq] at hf
    rw [e, FN_g]
    rcases hf with h | h
    · rw [h] at hz ⊢; rw [ea] at hz; cases hz; exact FN_i.symm
    · rw [h] at hz ⊢; rw [eb] at hz; cases hz; exact FN_i1.symm
  · -- b2
    intro z
    by_cases h1 : z = i
    · right
      refine ⟨(gC i n a, i), (hmem _).2 ⟨a, ea, rfl⟩, by simp, Or.inr ⟨h1.symm, ?_⟩⟩
      rw [h1, FN_i]
    · by_cases h2 : z = i + 1
      · right
        refine ⟨(gC i n b, i + 1), (hmem _).2 ⟨b, eb, rfl⟩, by simp, Or.inr ⟨h2.symm, ?_⟩⟩
        rw [h2, FN_i1]
      · exact Or.inl (FN_o z h1 h2)
  · -- b3
    intro p hp hf
    obtain ⟨z, hz, e⟩ := (hmem p).1 hp
    simp only [Bool.or_eq_true, beq_iff_eq] at hf
    rw [e, FN_g]
    have key : ∀ u, (u ∈ flatPD pd ∨ u = i ∨ u = i + 1) → gC i n u ∈ FN '' labelSet
        (rawLinkP ([stepX s i (i + 1) n] ++ pd.map (map4 (gC i n)))
          (((bot.map (gC i n)).zipIdx).filter (fun p => !(p.2 == i || p.2 == i + 1)))) := by
      intro u hu
      refine ⟨gC i n u, (mem_labelSet_rawLinkP _ _ _).2 (Or.inl ?_), FN_g u⟩
      rw [C18.flatPD_append, List.mem_append]
      rcases hu with hu | hu | hu
      · exact Or.inr (mem_flatPD_map4 hu)
      · left; rw [hu, gC_i, flatPD_stepX]; simp
      · left; rw [hu, gC_i1, flatPD_stepX]; simp
    rcases hf with h | h
    · rw [h, ea] at hz; cases hz
      exact key _ (hsrca.elim Or.inl (fun h => Or.inr (Or.inl h)))
    · rw [h, eb] at hz; cases hz
      exact key _ (hsrcb.elim Or.inl (fun h => Or.inr (Or.inr h)))

/-- `w ++ [s]` : relabel by `gC`, then collapse the closing arcs at the positions `i`, `i+1` (into the last crossing) -/
theorem conjO (x y : R) {n c i : Nat} {bot : List Nat} {pd : PD} {a b : Nat} (s : Int)
    (F : ConjFacts n c i bot pd a b) :
    stateSum x y (rawLinkP (pd ++ [stepX s a b c]) ((bot.set i c).set (i + 1) (c + 1)).zipIdx)
      = stateSum x y (rawLinkP (pd.map (map4 (gC i n)) ++ [stepX s (gC i n a) (gC i n b) n]) (restClose n i bot)) := by
  obtain ⟨hlen, hi, hnc, hlt, hpd, ea, eb, htopi, htopi1, hsrca, hsrcb⟩ := F
  have hil : i < bot.length := by omega
  have hil1 : i + 1 < bot.length := by omega
  have ham : a ∈ bot := List.mem_of_getElem? ea
  have hbm : b ∈ bot := List.mem_of_getElem? eb
  have gc0 : gC i n c = c + 2 := gC_ge i n c hi hnc
  have gc1 : gC i n (c + 1) = c + 2 + 1 := by rw [gC_ge i n (c + 1) hi (by omega)]
  rw [← stateSum_renumber x y _ (gC_inj i n hi).injOn (WF_rawLinkP _ _), renumber_rawLinkP]
  have hpdO : (pd ++ [stepX s a b c]).map (map4 (gC i n))
      = pd.map (map4 (gC i n)) ++ [stepX s (gC i n a) (gC i n b) (c + 2)] := by
    rw [List.map_append, List.map_cons, List.map_nil, map4_stepX, gc0, gc1]; rfl
  rw [hpdO]
  let FO : Nat → Nat := fun z => if z = c + 2 then n else if z = c + 2 + 1 then n + 1 else z
  have FO_0 : FO (c + 2) = n := by simp [FO]
  have FO_1 : FO (c + 2 + 1) = n + 1 := by simp [FO]
  have FO_o : ∀ z, z ≤ c + 1 → FO z = z := by
    intro z hz; simp only [FO]; rw [if_neg (by omega), if_neg (by omega)]
  have FO_g : ∀ z, z < c → FO (gC i n z) = gC i n z := fun z hz => FO_o _ (gC_le i n c z hnc hz)
  have hset0 : ((bot.set i c).set (i + 1) (c + 1))[i]? = some c := by
    rw [List.getElem?_set_ne (by omega), List.getElem?_set_self hil]
  have hset1 : ((bot.set i c).set (i + 1) (c + 1))[i + 1]? = some (c + 1) := by
    rw [List.getElem?_set_self (by simpa using hil1)]
  have hsetk : ∀ k, k ≠ i → k ≠ i + 1 → ((bot.set i c).set (i + 1) (c + 1))[k]? = bot[k]? := by
    intro k h1 h2
    rw [List.getElem?_set_ne (by omega), List.getElem?_set_ne (by omega)]
  have hmem : ∀ p, p ∈ (((bot.set i c).set (i + 1) (c + 1)).zipIdx).map (pmap (gC i n)) ↔
      ∃ k u, ((bot.set i c).set (i + 1) (c + 1))[k]? = some u ∧ p = (gC i n u, gC i n k) := by
    intro p
    rw [List.mem_map]
    constructor
    · rintro ⟨p0, hp0, rfl⟩
      exact ⟨p0.2, p0.1, List.mem_zipIdx_iff_getElem?.1 hp0, rfl⟩
    · rintro ⟨k, u, hku, rfl⟩
      exact ⟨(u, k), List.mem_zipIdx_iff_getElem?.2 hku, rfl⟩
  have hsel : ∀ k u, ((bot.set i c).set (i + 1) (c + 1))[k]? = some u →
      (gC i n k = n ∨ gC i n k = n + 1) → (k = i ∧ u = c) ∨ (k = i + 1 ∧ u = c + 1) := by
    intro k u hku hg
    have hkn : k < n := by
      rcases Nat.lt_or_ge k n with h | h
      · exact h
      · rw [List.getElem?_eq_none (by simp; omega)] at hku; cases hku
    obtain ⟨g1, g2⟩ := gC_eq_n i n k hi hkn
    rcases hg with hg | hg
    · have := g1.1 hg; subst this; rw [hset0] at hku; cases hku; exact Or.inl ⟨rfl, rfl⟩
    · have := g2.1 hg; subst this; rw [hset1] at hku; cases hku; exact Or.inr ⟨rfl, rfl⟩
  have hnmem : n ∈ flatPD (pd.map (map4 (gC i n)) ++ [stepX s (gC i n a) (gC i n b) (c + 2)]) := by
    rw [C18.flatPD_append, List.mem_append]
    rcases htopi with h | h
    · left; have := mem_flatPD_map4 (f := gC i n) h; rwa [gC_i] at this
    · right; rw [flatPD_stepX, h, gC_i]; simp
  have hn1mem : n + 1 ∈ flatPD (pd.map (map4 (gC i n)) ++ [stepX s (gC i n a) (gC i n b) (c + 2)]) := by
    rw [C18.flatPD_append, List.mem_append]
    rcases htopi1 with h | h
    · left; have := mem_flatPD_map4 (f := gC i n) h; rwa [gC_i1] at this
    · right; rw [flatPD_stepX, h, gC_i1]; simp
  rw [collapse_closing x y _ _ (fun p => p.2 == n || p.2 == n + 1) FO]
  · apply congrArg
    apply rawLinkP_congr
    · rw [List.map_append, List.map_cons, List.map_nil, map4_fix FO (pd.map (map4 (gC i n)))]
      · congr 2
        rw [map4_stepX]
        unfold stepX
        rw [FO_g a (hlt a ham), FO_g b (hlt b hbm), FO_0, FO_1]
      · intro z hz
        rw [flatPD_map4] at hz
        obtain ⟨z', hz', rfl⟩ := List.mem_map.1 hz
        exact FO_g z' (hpd z' hz')
    · rw [zipIdx_eq_map_range, List.map_map, List.filter_map, List.map_map]
      simp only [List.length_set, hlen]
      unfold restClose
      rw [List.filter_congr (q := fun k => !(k == i || k == i + 1)) (by
        intro k hk
        have hkn := List.mem_range.1 hk
        obtain ⟨g1, g2⟩ := gC_eq_n i n k hi hkn
        simp only [Function.comp, pmap]
        by_cases h1 : k = i
        · simp [h1, gC_i]
        · by_cases h2 : k = i + 1
          · simp [h2, gC_i1]
          · have e1 : gC i n k ≠ n := fun h => h1 (g1.1 h)
            have e2 : gC i n k ≠ n + 1 := fun h => h2 (g2.1 h)
            rw [beq_eq_false_iff_ne.2 e1, beq_eq_false_iff_ne.2 e2, beq_eq_false_iff_ne.2 h1,
              beq_eq_false_iff_ne.2 h2])]
      apply List.map_congr_left
      intro k hk
      rw [List.mem_filter, List.mem_range] at hk
      have hk1 : k ≠ i := by intro h; simp [h] at hk
      have hk2 : k ≠ i + 1 := by intro h; simp [h] at hk
      have hkl : k < bot.length := by omega
      simp only [Function.comp, pmap]
      rw [List.getD_eq_getElem?_getD, hsetk k hk1 hk2, List.getD_eq_getElem?_getD, List.getElem?_eq_getElem hkl]
      simp only [Option.getD]
      rw [FO_g _ (hlt _ (List.getElem_mem hkl)), gC_other i n k hk1 hk2 hk.1, FO_o k (by omega)]
  · -- b1
    intro p hp hf
    obtain ⟨k, u, hku, rfl⟩ := (hmem p).1 hp
    simp only [Bool.or_eq_true, beq_iff_eq] at hf
    rcases hsel k u hku hf with ⟨rfl, rfl⟩ | ⟨rfl, rfl⟩
    · simp only; rw [gc0, gC_i, FO_0, FO_o n (by omega)]
    · simp only; rw [gc1, gC_i1, FO_1, FO_o (n + 1) (by omega)]
  · -- b2
    intro z
    by_cases h1 : z = c + 2
    · right
      refine ⟨(c + 2, n), (hmem _).2 ⟨i, c, hset0, by rw [gc0, gC_i]⟩, by simp, Or.inl ⟨h1.symm, ?_⟩⟩
      rw [h1, FO_0]
    · by_cases h2 : z = c + 2 + 1
      · right
        refine ⟨(c + 2 + 1, n + 1), (hmem _).2 ⟨i + 1, c + 1, hset1, by rw [gc1, gC_i1]⟩, by simp, Or.inl ⟨h2.symm, ?_⟩⟩
        rw [h2, FO_1]
      · left; simp only [FO]; rw [if_neg h1, if_neg h2]
  · -- b3
    intro p hp hf
    obtain ⟨k, u, hku, rfl⟩ := (hmem p).1 hp
    simp only [Bool.or_eq_true, beq_iff_eq] at hf
    rcases hsel k u hku hf with ⟨rfl, rfl⟩ | ⟨rfl, rfl⟩
    · simp only; rw [gc0, FO_0]
      exact ⟨n, (mem_labelSet_rawLinkP _ _ _).2 (Or.inl hnmem), FO_o n (by omega)⟩
    · simp only; rw [gc1, FO_1]
      exact ⟨n + 1, (mem_labelSet_rawLinkP _ _ _).2 (Or.inl hn1mem), FO_o (n + 1) (by omega)⟩

theorem range_map_gC (i n : Nat) (hi : i + 1 < n) :
    ((List.range n).set i n).set (i + 1) (n + 1) = (List.range n).map (gC i n) := by
  apply List.ext_getElem (by simp)
  intro k h1 h2
  have hk : k < n := by simpa using h2
  simp only [List.getElem_set, List.getElem_map, List.getElem_range]
  by_cases k1 : i + 1 = k
  · subst k1; rw [if_pos rfl, gC_i1]
  · by_cases k2 : i = k
    · subst k2; rw [if_neg k1, if_pos rfl, gC_i]
    · rw [if_neg k1, if_neg k2, gC_other i n k (Ne.symm k2) (Ne.symm k1) hk]

theorem conjFacts_of_cinv {n c : Nat} {bot : List Nat} {pd : PD} (hI : CInv n (c, bot, pd)) {i a b : Nat}
    (hi : i + 1 < n) (ea : bot[i]? = some a) (eb : bot[i + 1]? = some b) : ConjFacts n c i bot pd a b := by
  obtain ⟨hnd, hlt, hpdlt, hlab⟩ := cinv_facts hI
  obtain ⟨hlen, hle, hcb, hown, hcnt⟩ := hI
  simp only at hlen hle hcb hown hcnt hlt hpdlt hlab
  have hil : i < bot.length := by omega
  have hil1 : i + 1 < bot.length := by omega
  have ea' : bot[i] = a := by rw [List.getElem?_eq_getElem hil] at ea; exact Option.some.inj ea
  have eb' : bot[i + 1] = b := by rw [List.getElem?_eq_getElem hil1] at eb; exact Option.some.inj eb
  -- a top label `k` is in the code or still at the bottom of its own position
  have htop : ∀ k (hk : k < bot.length), k ∈ flatPD pd ∨ bot[k] = k := by
    intro k hk
    by_cases hin : k ∈ flatPD pd
    · exact Or.inl hin
    · right
      have c := hcnt k
      rw [List.count_eq_zero.2 hin, if_pos (by omega), if_pos (by omega)] at c
      have hkb : k ∈ bot := List.count_pos_iff.1 (by omega)
      obtain ⟨j, hj, e⟩ := List.getElem_of_mem hkb
      rcases hown j hj with h | h
      · rw [h] at e; subst e; exact h
      · omega
  have hsrc : ∀ k (hk : k < bot.length), bot[k] ∈ flatPD pd ∨ bot[k] = k := by
    intro k hk
    rcases hlab _ (List.getElem_mem hk) with h | h
    · right
      rcases hown k hk with h' | h'
      · exact h'
      · omega
    · exact Or.inl h
  refine ⟨hlen, hi, hle, hlt, hpdlt, ea, eb, ?_, ?_, ?_, ?_⟩
  · rw [← ea']; exact htop i hil
  · rw [← eb']; exact htop (i + 1) hil1
  · rw [← ea']; exact hsrc i hil
  · rw [← eb']; exact hsrc (i + 1) hil1

/-- CONJUGATION / cyclic rotation, state-sum level (all `x`, `y`) -/
theorem conj_stateSum (x y : R) (n : Nat) (w : List Int) (s : Int) (l l' : C18.Link)
    (h : closure n (w ++ [s]) = .ok l) (h' : closure n ([s] ++ w) = .ok l') :
    stateSum x y (toKh l') = stateSum x y (toKh l) := by
  obtain ⟨stO, hfO, _, hsO, _⟩ := closure_stateSum x y n _ l h
  obtain ⟨stN, hfN, _, hsN, _⟩ := closure_stateSum x y n _ l' h'
  obtain ⟨st, hf, hlast⟩ := (foldlM_append_ok _ _ _ _ _).1 hfO
  simp only [List.foldlM_cons, List.foldlM_nil] at hlast
  simp only [List.cons_append, List.nil_append, List.foldlM_cons] at hfN
  cases hq : closureStep (n, List.range n, []) s with
  | panic => rw [hq] at hfN; cases hfN
  | err => rw [hq] at hfN; cases hfN
  | ok q =>
  rw [hq] at hfN
  simp only [bind, Res.bind] at hfN
  cases hq2 : closureStep st s with
  | panic => rw [hq2] at hlast; cases hlast
  | err => rw [hq2] at hlast; cases hlast
  | ok m =>
  rw [hq2] at hlast
  simp only [bind, Res.bind, pure] at hlast
  cases hlast
  have hI := C18.cinv_foldl n w _ st (C18.cinv_init n) hf
  obtain ⟨c, bot, pd⟩ := st
  obtain ⟨a0, b0, hs0, hi0, hi01, ea0, eb0, rfl⟩ := step_explicit hq
  obtain ⟨a, b, _, hi, hi1, ea, eb, rfl⟩ := step_explicit hq2
  generalize hidef : s.natAbs - 1 = i at *
  have hin : i + 1 < n := by simpa using hi01
  simp only [List.getElem_range] at ea0 eb0
  subst ea0 eb0
  have F := conjFacts_of_cinv hI hin (by rw [List.getElem?_eq_getElem hi, ea]) (by rw [List.getElem?_eq_getElem hi1, eb])
  obtain ⟨pd2, hpd, hsim⟩ := gsim_fold (gC i n) 2 n (fun z hz => gC_ge i n z hin hz) w (n, List.range n, [])
    (c, bot, pd) (Nat.le_refl _) hf
  simp only [List.nil_append] at hpd
  subst hpd
  have hN := hsim ([] ++ [stepX s i (i + 1) n])
  simp only at hN
  rw [← range_map_gC i n hin] at hN
  rw [hN] at hfN
  cases hfN
  simp only [List.nil_append] at hsO hsN
  rw [hsN, hsO, conjN x y s F, conjO x y s F]
  exact stateSum_perm' x y (WF_rawLinkP _ _) (rawLinkP_perm_pd (by simpa using List.perm_append_comm) _)

end Yuiv.C04Inv
