import Yuiv.Proofs.KhiSpecCone
/-
KhiSpec — the generator enumeration `kgensOf` (the loop filling `kgens` by weight) in functional form: the list at weight `w`
is the concatenation of `Cube.gensAt s` over the states `s < 2^n` of weight `w` in increasing order; hence it consists
exactly of the generators of weight `w` and is duplicate-free.
-/
namespace Yuiv.KhiSpec
open Yuiv Yuiv.KhRef Yuiv.C19 Yuiv.C06Cycle Yuiv.C19Inv Yuiv.C19Comm

theorem getBang_set (kg : Array (Array Gen)) (w j : Nat) (v : Array Gen) (hw : w < kg.size) :
    (kg.set! w v)[j]! = if w = j then v else kg[j]! := by
  rw [Array.set!_eq_setIfInBounds]
  simp only [getElem!_def, Array.getElem?_setIfInBounds, hw, if_true]
  by_cases e : w = j <;> simp [e]

theorem popcount_le (s n : Nat) : popcount s n ≤ n := by
  unfold popcount
  have := List.length_filter_le (fun i => s.testBit i) (List.range n)
  simpa using this

theorem kgens_fold (c : Cube) (k : Nat) :
    let kg := (List.range k).foldl (fun kg s => kg.set! (popcount s c.n) (kg[popcount s c.n]! ++ c.gensAt s))
      (Array.replicate (c.n + 1) (#[] : Array Gen))
    kg.size = c.n + 1 ∧ ∀ w, (kg[w]!).toList =
      ((List.range k).filter (fun s => popcount s c.n == w)).flatMap (fun s => (c.gensAt s).toList) := by
  induction k with
  | zero =>
    refine ⟨by simp, fun w => ?_⟩
    simp only [List.range_zero, List.foldl_nil, List.filter_nil, List.flatMap_nil]
    by_cases hw : w < c.n + 1
    · rw [getElem!_pos _ w (by simpa using hw)]; simp
    · rw [getElem!_neg _ w (by simpa using hw)]; rfl
  | succ k ih =>
    obtain ⟨hsz, hall⟩ := ih
    rw [List.range_succ, List.foldl_append, List.foldl_cons, List.foldl_nil]
    refine ⟨by rw [Array.set!_eq_setIfInBounds, Array.size_setIfInBounds]; exact hsz, fun w => ?_⟩
    rw [getBang_set _ _ _ _ (by rw [hsz]; have := popcount_le k c.n; omega), List.filter_append, List.flatMap_append]
    by_cases e : popcount k c.n = w
    · subst e
      rw [if_pos rfl, Array.toList_append, hall]
      simp
    · rw [if_neg e, hall]
      simp [e]

theorem kgensOf_eq (c : Cube) :
    kgensOf c = (List.range (2 ^ c.n)).foldl (fun kg s => kg.set! (popcount s c.n) (kg[popcount s c.n]! ++ c.gensAt s))
      (Array.replicate (c.n + 1) (#[] : Array Gen)) := by
  unfold kgensOf
  rw [Std.Legacy.Range.forIn_eq_forIn_range']
  simp only [Std.Legacy.Range.size, Nat.sub_zero, Nat.add_sub_cancel, Nat.div_one]
  rw [← List.range_eq_range', List.forIn_pure_yield_eq_foldl]
  rfl

/-- the enumeration at weight `w`, functionally -/
theorem kgensOf_toList (c : Cube) (w : Nat) :
    ((kgensOf c)[w]!).toList =
      ((List.range (2 ^ c.n)).filter (fun s => popcount s c.n == w)).flatMap (fun s => (c.gensAt s).toList) := by
  rw [kgensOf_eq]
  exact (kgens_fold c (2 ^ c.n)).2 w

theorem kgensOf_size (c : Cube) : (kgensOf c).size = c.n + 1 := by
  rw [kgensOf_eq]
  exact (kgens_fold c (2 ^ c.n)).1

/-- the generators at a vertex: the labellings of its circles with the base circle labelled `X` -/
theorem mem_gensAt (c : Cube) (s : Nat) (g : Gen) :
    g ∈ c.gensAt s ↔ g.s = s ∧ g.mask < 2 ^ (c.circ[s]!).size ∧ baseKeepB c g = true := by
  unfold Cube.gensAt baseKeepB
  have hall : ∀ g : Gen, g ∈ (Array.range (2 ^ (c.circ[s]!).size)).map (fun m => Gen.mk s m) ↔
      g.s = s ∧ g.mask < 2 ^ (c.circ[s]!).size := by
    intro g
    rw [Array.mem_map]
    constructor
    · rintro ⟨m, hm, rfl⟩
      exact ⟨rfl, by simpa using hm⟩
    · rintro ⟨h1, h2⟩
      exact ⟨g.mask, by simpa using h2, by cases g; simp at h1; subst h1; rfl⟩
  cases hb : c.baseCircle s with
  | none =>
    simp only
    rw [hall]
    constructor
    · rintro ⟨h1, h2⟩; exact ⟨h1, h2, by rw [h1, hb]⟩
    · rintro ⟨h1, h2, _⟩; exact ⟨h1, h2⟩
  | some b =>
    simp only
    rw [Array.mem_filter, hall]
    constructor
    · rintro ⟨⟨h1, h2⟩, h3⟩; exact ⟨h1, h2, by rw [h1, hb]; exact h3⟩
    · rintro ⟨h1, h2, h3⟩
      rw [h1, hb] at h3
      exact ⟨⟨h1, h2⟩, h3⟩

/-- COMPLETENESS AND SOUNDNESS OF THE ENUMERATION: the list at weight `w` consists exactly of the generators of weight `w` -/
theorem mem_kgensOf (c : Cube) (w : Nat) (g : Gen) :
    g ∈ (kgensOf c)[w]! ↔ g.s < 2 ^ c.n ∧ popcount g.s c.n = w ∧ g.mask < 2 ^ (c.circ[g.s]!).size ∧
      baseKeepB c g = true := by
  rw [← Array.mem_toList_iff, kgensOf_toList, List.mem_flatMap]
  constructor
  · rintro ⟨s, hs, hg⟩
    rw [List.mem_filter, List.mem_range] at hs
    obtain ⟨h1, h2, h3⟩ := (mem_gensAt c s g).1 (Array.mem_toList_iff.1 hg)
    subst h1
    exact ⟨hs.1, by simpa using hs.2, h2, h3⟩
  · rintro ⟨h1, h2, h3, h4⟩
    refine ⟨g.s, ?_, Array.mem_toList_iff.2 ((mem_gensAt c g.s g).2 ⟨rfl, h3, h4⟩)⟩
    rw [List.mem_filter, List.mem_range]
    exact ⟨h1, by simpa using h2⟩

theorem gensAt_nodup (c : Cube) (s : Nat) : (c.gensAt s).toList.Nodup := by
  have hall : ((Array.range (2 ^ (c.circ[s]!).size)).map (fun m => Gen.mk s m)).toList.Nodup := by
    rw [Array.toList_map, Array.toList_range]
    apply List.Nodup.map _ List.nodup_range
    intro a b e
    exact (Gen.mk.inj e).2
  unfold Cube.gensAt
  cases c.baseCircle s with
  | none => exact hall
  | some b =>
    simp only
    rw [Array.toList_filter]
    exact hall.filter _

theorem kgensOf_nodup (c : Cube) (w : Nat) : ((kgensOf c)[w]!).toList.Nodup := by
  rw [kgensOf_toList, List.nodup_flatMap]
  refine ⟨fun s _ => gensAt_nodup c s, ?_⟩
  have hnd : ((List.range (2 ^ c.n)).filter (fun s => popcount s c.n == w)).Nodup := List.nodup_range.filter _
  apply List.Pairwise.imp _ hnd
  intro s s' hne
  show List.Disjoint _ _
  intro g h1 h2
  have e1 := ((mem_gensAt c s g).1 (Array.mem_toList_iff.1 h1)).1
  have e2 := ((mem_gensAt c s' g).1 (Array.mem_toList_iff.1 h2)).1
  exact hne (e1.symm.trans e2)

theorem coneGens_nodup (c : Cube) (i : Nat) : (Array.toList ((coneGens c (kgensOf c))[i]!)).Nodup := by
  by_cases hi : i < (coneGens c (kgensOf c)).size
  · rw [getElem!_pos _ i hi]
    simp only [coneGens, Array.getElem_map, Array.getElem_range, Array.toList_append]
    have hB : ∀ j : Nat, (Array.toList (Array.map (fun g => ((false, g) : IGen)) (kgensOf c)[j]!)).Nodup := by
      intro j
      rw [Array.toList_map]
      exact List.Nodup.map (fun a b e => (Prod.mk.inj e).2) (kgensOf_nodup c j)
    have hQ : ∀ j : Nat, (Array.toList (Array.map (fun g => ((true, g) : IGen)) (kgensOf c)[j]!)).Nodup := by
      intro j
      rw [Array.toList_map]
      exact List.Nodup.map (fun a b e => (Prod.mk.inj e).2) (kgensOf_nodup c j)
    apply List.Nodup.append
    · split
      · exact hB _
      · exact List.nodup_nil
    · split
      · exact hQ _
      · exact List.nodup_nil
    · intro x h1 h2
      split at h1
      · split at h2
        · rw [Array.toList_map, List.mem_map] at h1 h2
          obtain ⟨_, _, rfl⟩ := h1
          obtain ⟨_, _, e⟩ := h2
          cases e
        · cases h2
      · cases h1
  · rw [getElem!_neg _ i hi]
    exact List.nodup_nil

/-- parts (a) and (b) of `khiGensOk` always hold; only the closure (c) is an instance property -/
theorem gensOk_of_closed (ic : ICube) (p : Params)
    (hcl : ∀ i : Nat, i < (coneGens ic.cube (kgensOf ic.cube)).size → ∀ x ∈ (coneGens ic.cube (kgensOf ic.cube))[i]!,
      ∀ y ∈ dI ic p x, y ∈ (coneGens ic.cube (kgensOf ic.cube))[i + 1]!) : GensOk ic p := by
  refine ⟨?_, coneGens_nodup ic.cube, hcl⟩
  intro gs hgs g hg
  obtain ⟨w, hw, rfl⟩ := Array.mem_iff_getElem.1 hgs
  have := (mem_kgensOf ic.cube w g).1 (by rw [getElem!_pos _ w hw]; exact hg)
  exact ⟨this.1, this.2.2.1, this.2.2.2⟩

end Yuiv.KhiSpec
