import Yuiv.Proofs.C18Orbit
import Yuiv.Proofs.C18Check
/-
C18 — part 7: on a valid PD code (every label in exactly two slots; any crossing types) `components`
returns, and its result is accepted by the verified checker `checkComps`, i.e. the components partition the
edge set into the classes of the strand-through-crossing relation.

Outline.  `partner` = `pass_edge` (other end of the edge), `thru` = `pass` (other end of the strand through
the crossing), `step = partner ∘ thru`.  Both are fixed-point-free involutions of the slots, hence
`partner ∘ step = step⁻¹ ∘ partner`, and a `step`-orbit never contains the partner of one of its members
(`no_flip`: descent on the distance along the orbit).  So the labels read along one walk are pairwise
distinct; consecutive labels are `joined`; the label set of a walk is closed under `joined`.  The loop of
`components` keeps: all components found so far are closed cycles closed under `joined`, they are pairwise
disjoint without repetition, and `passed` is their union.
-/
namespace Yuiv.C18
open Yuiv

/-! ### slots: labels, partner, thru -/

/-- the label carried by a slot -/
def lab (l : Link) (h : Nat × Nat) : Nat := edgeAt l h.1 h.2

/-- the other end of the strand through the crossing -/
def thru (l : Link) (h : Nat × Nat) : Nat × Nat := (h.1, (ctypeAt l h.1).pass h.2)

/-- the other end of the edge -/
def partner (l : Link) (h : Nat × Nat) : Nat × Nat := (passEdge l h.1 h.2).getD h

def iter {α} (f : α → α) : Nat → α → α
  | 0, x => x
  | n + 1, x => f (iter f n x)

theorem edgeAt_eq (l : Link) (i j : Nat) (hi : i < l.length) : edgeAt l i j = l[i].edge j := by
  unfold edgeAt; rw [List.getElem?_eq_getElem hi]

theorem ctypeAt_eq (l : Link) (i : Nat) (hi : i < l.length) : ctypeAt l i = l[i].ctype := by
  unfold ctypeAt; rw [List.getElem?_eq_getElem hi]

theorem three_slots {α} (S : List (α × Nat)) (e : Nat)
    (hc : (S.filter (fun s => s.2 == e)).length = 2) (h1 h2 h3 : α)
    (m1 : (h1, e) ∈ S) (m2 : (h2, e) ∈ S) (m3 : (h3, e) ∈ S) : h1 = h2 ∨ h1 = h3 ∨ h2 = h3 := by
  have mem : ∀ h, (h, e) ∈ S → (h, e) ∈ S.filter (fun s => s.2 == e) := by
    intro h hm; rw [List.mem_filter]; exact ⟨hm, by simp⟩
  obtain ⟨a, b, hFl⟩ := length_two _ hc
  have n1 := mem _ m1
  have n2 := mem _ m2
  have n3 := mem _ m3
  rw [hFl] at n1 n2 n3
  simp only [List.mem_cons, List.not_mem_nil, or_false] at n1 n2 n3
  rcases n1 with n1 | n1 <;> rcases n2 with n2 | n2 <;> rcases n3 with n3 | n3
  · exact Or.inl (Prod.mk.inj (n1.trans n2.symm)).1
  · exact Or.inl (Prod.mk.inj (n1.trans n2.symm)).1
  · exact Or.inr (Or.inl (Prod.mk.inj (n1.trans n3.symm)).1)
  · exact Or.inr (Or.inr (Prod.mk.inj (n2.trans n3.symm)).1)
  · exact Or.inr (Or.inr (Prod.mk.inj (n2.trans n3.symm)).1)
  · exact Or.inr (Or.inl (Prod.mk.inj (n1.trans n3.symm)).1)
  · exact Or.inl (Prod.mk.inj (n1.trans n2.symm)).1
  · exact Or.inl (Prod.mk.inj (n1.trans n2.symm)).1

theorem partner_spec (l : Link) (hv : Valid l) (h : Nat × Nat) (hh : HE l h) :
    HE l (partner l h) ∧ partner l h ≠ h ∧ lab l (partner l h) = lab l h ∧ partner l (partner l h) = h := by
  obtain ⟨h', h1, h2, h3, h4, h5⟩ := passEdge_valid' l hv h hh
  have e1 : partner l h = h' := by unfold partner; rw [h1]; rfl
  have e2 : partner l h' = h := by unfold partner; rw [h5]; rfl
  rw [e1]
  exact ⟨h2, h3, h4, e2⟩

/-- on a valid code a label determines its slot up to `partner` -/
theorem same_label (l : Link) (hv : Valid l) (h h' : Nat × Nat) (hh : HE l h) (hh' : HE l h')
    (he : lab l h' = lab l h) : h' = h ∨ h' = partner l h := by
  obtain ⟨p1, p2, p3, _⟩ := partner_spec l hv h hh
  have hm : (h, lab l h) ∈ slots l := (mem_slots l h _).2 ⟨hh, rfl⟩
  have hm' : (h', lab l h) ∈ slots l := (mem_slots l h' _).2 ⟨hh', he.symm⟩
  have hmp : (partner l h, lab l h) ∈ slots l := (mem_slots l _ _).2 ⟨p1, p3.symm⟩
  have hin : lab l h ∈ allEdges l := by
    rw [← slots_snd]; exact List.mem_map.2 ⟨_, hm, rfl⟩
  have hc : ((slots l).filter (fun s => s.2 == lab l h)).length = 2 := by
    rw [count_slots]; exact hv _ hin
  rcases three_slots (slots l) _ hc h h' (partner l h) hm hm' hmp with h1 | h1 | h1
  · exact Or.inl h1.symm
  · exact absurd h1.symm p2
  · exact Or.inr h1

theorem thru_spec (l : Link) (h : Nat × Nat) (hh : HE l h) :
    HE l (thru l h) ∧ thru l h ≠ h ∧ thru l (thru l h) = h := by
  obtain ⟨a, b⟩ := h
  refine ⟨ctypeAt_pass_lt l _ hh, ?_, ?_⟩
  · intro hc
    unfold thru at hc
    simp only [Prod.mk.injEq, true_and] at hc
    exact pass_ne' _ _ hh.2 hc
  · unfold thru
    simp only [Prod.mk.injEq, true_and]
    exact pass_pass' _ _ hh.2

theorem step_eq (l : Link) (hv : Valid l) (h : Nat × Nat) (hh : HE l h) :
    step l h = partner l (thru l h) := by
  have h1 := (step_spec l hv h hh).1
  unfold partner thru
  simp only
  rw [h1]; rfl

theorem step_HE (l : Link) (hv : Valid l) (h : Nat × Nat) (hh : HE l h) : HE l (step l h) :=
  (step_spec l hv h hh).2.1

theorem lab_step (l : Link) (hv : Valid l) (h : Nat × Nat) (hh : HE l h) :
    lab l (step l h) = lab l (thru l h) := by
  rw [step_eq l hv h hh]
  exact (partner_spec l hv _ (thru_spec l h hh).1).2.2.1

/-- `thru (partner (step h)) = h`: walking back -/
theorem thru_partner_step (l : Link) (hv : Valid l) (h : Nat × Nat) (hh : HE l h) :
    partner l (step l h) = thru l h := by
  rw [step_eq l hv h hh]
  exact (partner_spec l hv _ (thru_spec l h hh).1).2.2.2

theorem iter_HE (l : Link) (hv : Valid l) (s : Nat × Nat) (hs : HE l s) : ∀ a, HE l (iter (step l) a s)
  | 0 => hs
  | a + 1 => step_HE l hv _ (iter_HE l hv s hs a)

/-- a `step`-orbit never contains the partner of one of its members -/
theorem no_flip (l : Link) (hv : Valid l) (s : Nat × Nat) (hs : HE l s) :
    ∀ d a, partner l (iter (step l) a s) ≠ iter (step l) (a + d) s
  | 0, a => (partner_spec l hv _ (iter_HE l hv s hs a)).2.1
  | 1, a => by
    intro hc
    have hx := iter_HE l hv s hs a
    have h1 : iter (step l) (a + 1) s = partner l (thru l (iter (step l) a s)) := step_eq l hv _ hx
    rw [h1] at hc
    have h2 := congrArg (partner l) hc
    rw [(partner_spec l hv _ hx).2.2.2, (partner_spec l hv _ (thru_spec l _ hx).1).2.2.2] at h2
    exact (thru_spec l _ hx).2.1 h2.symm
  | d + 2, a => by
    intro hc
    have hx := iter_HE l hv s hs a
    have hy := iter_HE l hv s hs (a + d + 1)
    have h1 : iter (step l) (a + (d + 2)) s = partner l (thru l (iter (step l) (a + d + 1) s)) :=
      step_eq l hv _ hy
    rw [h1] at hc
    have h2 := congrArg (partner l) hc
    rw [(partner_spec l hv _ hx).2.2.2, (partner_spec l hv _ (thru_spec l _ hy).1).2.2.2] at h2
    -- h2 : w_a = thru w_{a+d+1}
    have h3 : thru l (iter (step l) a s) = iter (step l) (a + d + 1) s := by
      rw [h2]; exact (thru_spec l _ hy).2.2
    have h4 : iter (step l) (a + 1) s = partner l (iter (step l) (a + d + 1) s) := by
      rw [← h3]; exact step_eq l hv _ hx
    have h5 := congrArg (partner l) h4
    rw [(partner_spec l hv _ hy).2.2.2] at h5
    have := no_flip l hv s hs d (a + 1)
    apply this
    rw [h5]
    congr 1
    omega

theorem RChain.mem_iter {α} {f : α → α} {s : α} {v : List α} (h : RChain f s v) :
    ∀ x ∈ v, ∃ m, x = iter f m s :=
  RChain.all_mem (fun x => ∃ m, x = iter f m s) ⟨0, rfl⟩ (fun x ⟨m, hm⟩ => ⟨m + 1, by rw [hm]; rfl⟩) h

/-- two members of one `step`-orbit are never partners -/
theorem orbit_no_partner (l : Link) (hv : Valid l) (s : Nat × Nat) (hs : HE l s) (v : List (Nat × Nat))
    (hc : RChain (step l) s v) (x y : Nat × Nat) (hx : x ∈ v) (hy : y ∈ v) : y ≠ partner l x := by
  obtain ⟨a, rfl⟩ := hc.mem_iter x hx
  obtain ⟨b, rfl⟩ := hc.mem_iter y hy
  intro h
  rcases Nat.le_total a b with hab | hab
  · obtain ⟨d, rfl⟩ := Nat.exists_eq_add_of_le hab
    exact no_flip l hv s hs d a h.symm
  · obtain ⟨d, rfl⟩ := Nat.exists_eq_add_of_le hab
    have h2 := congrArg (partner l) h
    rw [(partner_spec l hv _ (iter_HE l hv s hs _)).2.2.2] at h2
    exact no_flip l hv s hs d b h2

/-- the labels read along a walk are pairwise distinct -/
theorem orbit_labels_nodup (l : Link) (hv : Valid l) (s : Nat × Nat) (hs : HE l s) (v : List (Nat × Nat))
    (hc : RChain (step l) s v) (hn : v.Nodup) (hall : ∀ h ∈ v, HE l h) : (v.map (lab l)).Nodup := by
  unfold List.Nodup
  rw [List.pairwise_map]
  refine List.Pairwise.imp_of_mem ?_ hn
  intro x y hx hy hne heq
  rcases same_label l hv x y (hall x hx) (hall y hy) heq.symm with h | h
  · exact hne h.symm
  · exact orbit_no_partner l hv s hs v hc x y hx hy h

/-! ### the label list of a walk: chain, cycle, closure -/

theorem joined_step (l : Link) (hv : Valid l) (h : Nat × Nat) (hh : HE l h) :
    joined l (lab l h) (lab l (step l h)) = true := by
  rw [joined_iff, lab_step l hv h hh]
  refine ⟨l[h.1]'hh.1, List.getElem_mem _, h.2, hh.2, ?_, ?_⟩
  · unfold lab; rw [edgeAt_eq l _ _ hh.1]
  · unfold lab thru; simp only; rw [edgeAt_eq l _ _ hh.1, ctypeAt_eq l _ hh.1]

theorem chainOk_snoc (l : Link) : ∀ (A : List Nat) (b : Nat),
    chainOk l (A ++ [b]) = (chainOk l A && (match A.getLast? with | none => true | some a => joined l a b))
  | [], b => rfl
  | [a], b => by simp [chainOk]
  | a :: a' :: r, b => by
    have ih := chainOk_snoc l (a' :: r) b
    simp only [List.cons_append] at ih
    simp only [List.cons_append, chainOk, ih, List.getLast?_cons_cons, Bool.and_assoc]

theorem RChain.getLast {α} {f : α → α} {s : α} : ∀ {v : List α}, RChain f s v → v.getLast? = some s
  | [], h => h.elim
  | [x], h => by rw [show x = s from h]; rfl
  | x :: y :: r, h => by
    rw [List.getLast?_cons_cons]; exact RChain.getLast h.2

theorem RChain.start_mem {α} {f : α → α} {s : α} {v : List α} (h : RChain f s v) : s ∈ v :=
  List.mem_of_getLast? h.getLast

/-- every entry of a walk except the newest has its image in the walk -/
theorem RChain.succ_mem {α} {f : α → α} {s : α} : ∀ {v : List α}, RChain f s v →
    ∀ y ∈ v, y = v.headD s ∨ f y ∈ v
  | [], h, _, _ => h.elim
  | [x], _, y, hy => by
    simp only [List.mem_cons, List.not_mem_nil, or_false] at hy
    exact Or.inl hy
  | x :: z :: r, h, y, hy => by
    rcases List.mem_cons.1 hy with rfl | hy'
    · exact Or.inl rfl
    · rcases RChain.succ_mem h.2 y hy' with h1 | h1
      · right
        simp only [List.headD_cons] at h1
        rw [h1, ← h.1]; exact List.mem_cons_self
      · right; exact List.mem_cons_of_mem _ h1

theorem chain_of_rchain (l : Link) (hv : Valid l) (s : Nat × Nat) :
    ∀ (v : List (Nat × Nat)), RChain (step l) s v → (∀ h ∈ v, HE l h) →
      chainOk l (v.reverse.map (lab l)) = true
  | [], h, _ => h.elim
  | [x], _, _ => rfl
  | x :: y :: r, h, hall => by
    have ih := chain_of_rchain l hv s (y :: r) h.2 (fun z hz => hall z (List.mem_cons_of_mem _ hz))
    have e : (x :: y :: r).reverse.map (lab l) = ((y :: r).reverse.map (lab l)) ++ [lab l x] := by
      simp
    rw [e, chainOk_snoc, ih]
    have e2 : ((y :: r).reverse.map (lab l)).getLast? = some (lab l y) := by
      simp
    rw [e2, h.1]
    simp only [Bool.true_and]
    exact joined_step l hv y (hall y (by simp))

theorem cycle_of_rchain (l : Link) (hv : Valid l) (s : Nat × Nat) (v : List (Nat × Nat))
    (hc : RChain (step l) s v) (hall : ∀ h ∈ v, HE l h) (hret : step l (v.headD s) = s) :
    cycleOk l (v.reverse.map (lab l)) = true := by
  cases v with
  | nil => exact hc.elim
  | cons x r =>
    unfold cycleOk
    have e1 : ((x :: r).reverse.map (lab l)).head? = some (lab l s) := by
      rw [List.head?_map, List.head?_reverse, hc.getLast]; rfl
    have e2 : ((x :: r).reverse.map (lab l)).getLast? = some (lab l x) := by simp
    rw [e1, e2]
    simp only [Bool.and_eq_true]
    refine ⟨chain_of_rchain l hv s _ hc hall, ?_⟩
    simp only [List.headD_cons] at hret
    have := joined_step l hv x (hall x (by simp))
    rw [hret] at this; exact this

theorem closedUnder_iff (l : Link) (es : List Nat) :
    closedUnder l es = true ↔ ∀ c ∈ l, ∀ j, j < 4 → c.edge j ∈ es → c.edge (c.ctype.pass j) ∈ es := by
  unfold closedUnder
  simp only [List.all_eq_true, List.mem_range, Bool.or_eq_true, Bool.not_eq_true', List.contains_eq_mem,
    decide_eq_false_iff_not, decide_eq_true_eq]
  constructor
  · intro h c hc j hj hm
    rcases h c hc j hj with h1 | h1
    · exact absurd hm h1
    · exact h1
  · intro h c hc j hj
    by_cases hm : c.edge j ∈ es
    · exact Or.inr (h c hc j hj hm)
    · exact Or.inl hm

/-- the label set of a closed walk is closed under `joined` -/
theorem closed_of_rchain (l : Link) (hv : Valid l) (s : Nat × Nat) (v : List (Nat × Nat))
    (hc : RChain (step l) s v) (hall : ∀ h ∈ v, HE l h) (hret : step l (v.headD s) = s) :
    closedUnder l (v.reverse.map (lab l)) = true := by
  rw [closedUnder_iff]
  intro c hcl j hj hm
  obtain ⟨i, hi, rfl⟩ := List.getElem_of_mem hcl
  have hslot : HE l (i, j) := ⟨hi, hj⟩
  have e1 : l[i].edge j = lab l (i, j) := by unfold lab; rw [edgeAt_eq l _ _ hi]
  have e2 : l[i].edge (l[i].ctype.pass j) = lab l (thru l (i, j)) := by
    unfold lab thru; simp only; rw [edgeAt_eq l _ _ hi, ctypeAt_eq l _ hi]
  rw [e1] at hm
  rw [e2]
  simp only [List.map_reverse, List.mem_reverse, List.mem_map] at hm ⊢
  obtain ⟨h, hhv, hlab⟩ := hm
  have hh := hall h hhv
  have hsucc : step l h ∈ v := by
    rcases hc.succ_mem h hhv with h1 | h1
    · rw [h1, hret]; exact hc.start_mem
    · exact h1
  rcases same_label l hv h (i, j) hh hslot hlab.symm with h1 | h1
  · -- the slot is `h` itself: the other end carries the label of `step h`
    refine ⟨step l h, hsucc, ?_⟩
    rw [h1, lab_step l hv h hh]
  · -- the slot is the partner of `h = step y`: the other end is `y`
    have hpre : ∃ y ∈ v, step l y = h := by
      rcases RChain.mem_cases hc h hhv with h2 | ⟨y, hy, p, q, hpq⟩
      · refine ⟨v.headD s, ?_, by rw [hret, h2]⟩
        cases v with
        | nil => exact hc.elim
        | cons a r => simp
      · exact ⟨y, by rw [hpq]; simp, hy.symm⟩
    obtain ⟨y, hyv, hy⟩ := hpre
    have hyHE := hall y hyv
    refine ⟨y, hyv, ?_⟩
    rw [h1, ← hy, thru_partner_step l hv y hyHE, (thru_spec l y hyHE).2.2]

theorem mkPath_closed (es : List Nat) (a : Nat) (hh : es.head? = some a) :
    mkPath (es ++ [a]) = ⟨es, true⟩ := by
  have hne : es ≠ [] := by intro h; rw [h] at hh; cases hh
  unfold mkPath
  rw [if_pos]
  · rw [List.dropLast_concat]
  · constructor
    · cases es with
      | nil => exact absurd rfl hne
      | cons b r => simp
    · rw [List.head?_append, hh]; simp

/-- everything `components` needs to know about one walk -/
theorem walk_spec (l : Link) (hv : Valid l) (s : Nat × Nat) (hs : HE l s) :
    ∃ path es, traverse l s = .ok path ∧ path.map (lab l) = es ++ [lab l s] ∧ es.head? = some (lab l s) ∧
      es.Nodup ∧ cycleOk l es = true ∧ closedUnder l es = true ∧ (∀ e ∈ es, e ∈ allEdges l) := by
  obtain ⟨v, h1, h2, h3, h4, _⟩ :=
    traverseLoop_valid l hv s hs (4 * l.length) s [] rfl (by simp) (by simp)
  have hall : ∀ h ∈ v, HE l h := RChain.all_mem (HE l) hs (fun x hx => step_HE l hv x hx) h2
  refine ⟨v.reverse ++ [s], v.reverse.map (lab l), h1, by simp, ?_, ?_,
    cycle_of_rchain l hv s v h2 hall h4, closed_of_rchain l hv s v h2 hall h4, ?_⟩
  · rw [List.head?_map, List.head?_reverse, h2.getLast]; rfl
  · rw [List.map_reverse]
    unfold List.Nodup
    rw [List.pairwise_reverse]
    exact List.Pairwise.imp (fun h => Ne.symm h) (orbit_labels_nodup l hv s hs v h2 h3 hall)
  · intro e he
    simp only [List.map_reverse, List.mem_reverse, List.mem_map] at he
    obtain ⟨h, hhv, rfl⟩ := he
    rw [← slots_snd]
    exact List.mem_map.2 ⟨(h, lab l h), (mem_slots l h _).2 ⟨hall h hhv, rfl⟩, rfl⟩

/-! ### the loop of `components` -/

/-- loop invariant of `components`; state = (components so far, passed labels) -/
structure Inv (l : Link) (st : List Path × List Nat) : Prop where
  comp : ∀ p ∈ st.1, p.closed = true ∧ cycleOk l p.edges = true ∧ closedUnder l p.edges = true
  nodup : (st.1.flatMap (·.edges)).Nodup
  passed : ∀ e, e ∈ st.2 ↔ e ∈ st.1.flatMap (·.edges)
  sub : ∀ e ∈ st.2, e ∈ allEdges l

theorem inv_init (l : Link) : Inv l ([], []) where
  comp := by intro p hp; cases hp
  nodup := by simp
  passed := by intro e; simp
  sub := by intro e he; cases he

theorem compsStep_inv (l : Link) (hv : Valid l) (j0 : Nat) (st : List Path × List Nat) (i0 : Nat)
    (hI : Inv l st) (hs : HE l (i0, j0)) :
    ∃ st', compsStep l j0 st i0 = .ok st' ∧ Inv l st' ∧ (∀ e ∈ st.2, e ∈ st'.2) ∧ lab l (i0, j0) ∈ st'.2 := by
  unfold compsStep
  by_cases hcon : st.2.contains (edgeAt l i0 j0) = true
  · rw [if_pos hcon]
    refine ⟨st, rfl, hI, fun e he => he, ?_⟩
    simpa [lab] using hcon
  · rw [if_neg hcon]
    have hnot : lab l (i0, j0) ∉ st.2 := by
      intro hm; apply hcon; simpa [lab] using hm
    obtain ⟨path, es, h1, h2, h3, h4, h5, h6, h7⟩ := walk_spec l hv (i0, j0) hs
    rw [h1]
    have hmap : path.map (fun p => edgeAt l p.1 p.2) = es ++ [lab l (i0, j0)] := h2
    simp only
    rw [hmap, mkPath_closed es _ h3]
    have hx : lab l (i0, j0) ∈ es := by
      cases es with
      | nil => cases h3
      | cons b r =>
        simp only [List.head?_cons, Option.some.injEq] at h3
        rw [h3]; exact List.mem_cons_self
    have hflat : (st.1 ++ [(⟨es, true⟩ : Path)]).flatMap (·.edges) = st.1.flatMap (·.edges) ++ es := by
      simp
    have hpass : ∀ e, e ∈ (es ++ [lab l (i0, j0)]).reverse ++ st.2 ↔ e ∈ es ∨ e ∈ st.2 := by
      intro e
      simp only [List.mem_append, List.mem_reverse, List.mem_cons, List.not_mem_nil, or_false]
      constructor
      · rintro ((h | h) | h)
        · exact Or.inl h
        · exact Or.inl (h ▸ hx)
        · exact Or.inr h
      · rintro (h | h)
        · exact Or.inl (Or.inl h)
        · exact Or.inr h
    refine ⟨_, rfl, ⟨?_, ?_, ?_, ?_⟩, ?_, ?_⟩
    · intro p hp
      rcases List.mem_append.1 hp with hp | hp
      · exact hI.comp p hp
      · simp only [List.mem_cons, List.not_mem_nil, or_false] at hp
        subst hp
        exact ⟨rfl, h5, h6⟩
    · show ((st.1 ++ [(⟨es, true⟩ : Path)]).flatMap (·.edges)).Nodup
      rw [hflat, List.nodup_append]
      refine ⟨hI.nodup, h4, ?_⟩
      intro a ha b hb hab
      subst hab
      obtain ⟨p, hp, hap⟩ := List.mem_flatMap.1 ha
      have hconn := (cycle_conn l es h5).2 a hb _ hx
      have hin := closed_conn l p.edges (hI.comp p hp).2.2 a _ hap hconn
      exact hnot ((hI.passed _).2 (List.mem_flatMap.2 ⟨p, hp, hin⟩))
    · intro e
      show e ∈ (es ++ [lab l (i0, j0)]).reverse ++ st.2 ↔ e ∈ (st.1 ++ [(⟨es, true⟩ : Path)]).flatMap (·.edges)
      rw [hpass, hflat, List.mem_append, hI.passed]
      exact Or.comm
    · intro e he
      rcases (hpass e).1 he with h | h
      · exact h7 e h
      · exact hI.sub e h
    · intro e he
      exact (hpass e).2 (Or.inr he)
    · exact (hpass _).2 (Or.inl hx)

theorem compsFold_inv (l : Link) (hv : Valid l) (j0 : Nat) (hj : j0 < 4) :
    ∀ (is : List Nat) (st : List Path × List Nat), Inv l st → (∀ i ∈ is, i < l.length) →
      ∃ st', is.foldlM (compsStep l j0) st = .ok st' ∧ Inv l st' ∧ (∀ e ∈ st.2, e ∈ st'.2) ∧
        ∀ i ∈ is, lab l (i, j0) ∈ st'.2
  | [], st, hI, _ => ⟨st, rfl, hI, fun _ h => h, by intro i hi; cases hi⟩
  | i :: is, st, hI, hlt => by
    obtain ⟨st1, e1, hI1, m1, c1⟩ := compsStep_inv l hv j0 st i hI ⟨hlt i List.mem_cons_self, hj⟩
    obtain ⟨st2, e2, hI2, m2, c2⟩ :=
      compsFold_inv l hv j0 hj is st1 hI1 (fun k hk => hlt k (List.mem_cons_of_mem _ hk))
    refine ⟨st2, ?_, hI2, fun e he => m2 e (m1 e he), ?_⟩
    · rw [List.foldlM_cons, e1]; exact e2
    · intro k hk
      rcases List.mem_cons.1 hk with rfl | hk
      · exact m2 _ c1
      · exact c2 k hk

theorem compsPass_inv (l : Link) (hv : Valid l) (j0 : Nat) (hj : j0 < 4) (st : List Path × List Nat)
    (hI : Inv l st) :
    ∃ st', compsPass l j0 st = .ok st' ∧ Inv l st' ∧ (∀ e ∈ st.2, e ∈ st'.2) ∧
      ∀ i, i < l.length → lab l (i, j0) ∈ st'.2 := by
  obtain ⟨st', h1, h2, h3, h4⟩ :=
    compsFold_inv l hv j0 hj (List.range l.length) st hI (fun i hi => List.mem_range.1 hi)
  exact ⟨st', h1, h2, h3, fun i hi => h4 i (List.mem_range.2 hi)⟩

theorem components_inv (l : Link) (hv : Valid l) :
    ∃ cs passed, components l = .ok cs ∧ Inv l (cs, passed) ∧
      ∀ i, i < l.length → ∀ j, j < 3 → lab l (i, j) ∈ passed := by
  obtain ⟨st0, e0, hI0, _, c0⟩ := compsPass_inv l hv 0 (by omega) _ (inv_init l)
  obtain ⟨st1, e1, hI1, m1, c1⟩ := compsPass_inv l hv 1 (by omega) st0 hI0
  obtain ⟨st2, e2, hI2, m2, c2⟩ := compsPass_inv l hv 2 (by omega) st1 hI1
  refine ⟨st2.1, st2.2, ?_, hI2, ?_⟩
  · unfold components
    rw [e0, Res.bind_ok, e1, Res.bind_ok, e2, Res.bind_ok]; rfl
  · intro i hi j hj
    have : j = 0 ∨ j = 1 ∨ j = 2 := by omega
    rcases this with rfl | rfl | rfl
    · exact m2 _ (m1 _ (c0 i hi))
    · exact m2 _ (c1 i hi)
    · exact c2 i hi

theorem pass3 : ∀ t : CType, t.pass 3 < 3 ∧ t.pass (t.pass 3) = 3 := by decide

/-- on a valid PD code `components` returns a list accepted by the verified checker -/
theorem components_check' (l : Link) (hv : Valid l) :
    ∃ cs, components l = .ok cs ∧ checkComps l cs = true := by
  obtain ⟨cs, passed, hc, hI, hcov⟩ := components_inv l hv
  refine ⟨cs, hc, ?_⟩
  unfold checkComps
  simp only [Bool.and_eq_true, List.all_eq_true, List.contains_eq_mem, decide_eq_true_eq]
  refine ⟨⟨⟨?_, (nodupB_iff _).2 hI.nodup⟩, ?_⟩, ?_⟩
  · intro p hp
    obtain ⟨a, b, c⟩ := hI.comp p hp
    exact ⟨⟨a, b⟩, c⟩
  · intro e he
    rw [← slots_snd] at he
    obtain ⟨⟨⟨i, j⟩, e'⟩, hm, rfl⟩ := List.mem_map.1 he
    obtain ⟨hh, he'⟩ := (mem_slots l (i, j) e').1 hm
    have hi : i < l.length := hh.1
    have hj : j < 4 := hh.2
    simp only at he'
    by_cases hj3 : j < 3
    · exact (hI.passed _).1 (he' ▸ hcov i hi j hj3)
    · have hj' : j = 3 := by omega
      subst hj'
      obtain ⟨k3, kk⟩ := pass3 l[i].ctype
      have hin := (hI.passed _).1 (hcov i hi _ k3)
      obtain ⟨p, hp, hep⟩ := List.mem_flatMap.1 hin
      have hcl := (closedUnder_iff l p.edges).1 (hI.comp p hp).2.2 l[i] (List.getElem_mem _)
        (l[i].ctype.pass 3) (by omega)
      have e1 : lab l (i, l[i].ctype.pass 3) = l[i].edge (l[i].ctype.pass 3) := by
        unfold lab; rw [edgeAt_eq l _ _ hi]
      rw [e1] at hep
      have := hcl hep
      rw [kk] at this
      rw [he', edgeAt_eq l _ _ hi]
      exact List.mem_flatMap.2 ⟨p, hp, this⟩
  · intro e he
    exact hI.sub e ((hI.passed e).2 he)

/-! ### consequences of the partition statement: multiplicities, class counting -/

theorem count_one_of_nodup (xs : List Nat) (hn : xs.Nodup) (e : Nat) (he : e ∈ xs) : xs.count e = 1 := by
  have h1 := List.nodup_iff_count.1 hn e
  have h2 := List.count_pos_iff.2 he
  omega

/-- in a duplicate-free concatenation a label determines the position of its block -/
theorem nodup_flat_unique : ∀ (cs : List Path), (cs.flatMap (·.edges)).Nodup →
    ∀ (a b : Nat) (ha : a < cs.length) (hb : b < cs.length) (e : Nat),
      e ∈ cs[a].edges → e ∈ cs[b].edges → a = b
  | [], _, a, _, ha, _, _, _, _ => by cases ha
  | p :: r, hn, a, b, ha, hb, e, hea, heb => by
    rw [List.flatMap_cons, List.nodup_append] at hn
    obtain ⟨_, hr, hd⟩ := hn
    have inflat : ∀ k (hk : k < r.length), e ∈ r[k].edges → e ∈ r.flatMap (·.edges) :=
      fun k hk h => List.mem_flatMap.2 ⟨r[k], List.getElem_mem _, h⟩
    match a, b, ha, hb, hea, heb with
    | 0, 0, _, _, _, _ => rfl
    | 0, b + 1, _, hb, hea, heb =>
      simp only [List.getElem_cons_zero] at hea
      simp only [List.getElem_cons_succ] at heb
      exact absurd rfl (hd e hea e (inflat b (by simpa using hb) heb))
    | a + 1, 0, ha, _, hea, heb =>
      simp only [List.getElem_cons_zero] at heb
      simp only [List.getElem_cons_succ] at hea
      exact absurd rfl (hd e heb e (inflat a (by simpa using ha) hea))
    | a + 1, b + 1, ha, hb, hea, heb =>
      simp only [List.getElem_cons_succ] at hea heb
      have := nodup_flat_unique r hr a b (by simpa using ha) (by simpa using hb) e hea heb
      omega

theorem nodup_flat_pairwise : ∀ (cs : List Path), (cs.flatMap (·.edges)).Nodup →
    cs.Pairwise (fun p q => ∀ e ∈ p.edges, e ∉ q.edges)
  | [], _ => List.Pairwise.nil
  | p :: r, hn => by
    rw [List.flatMap_cons, List.nodup_append] at hn
    obtain ⟨_, hr, hd⟩ := hn
    refine List.Pairwise.cons ?_ (nodup_flat_pairwise r hr)
    intro q hq e he heq
    exact hd e he e (List.mem_flatMap.2 ⟨q, hq, heq⟩) rfl

theorem joined_symm (l : Link) (a b : Nat) (h : joined l a b = true) : joined l b a = true := by
  rw [joined_iff] at h ⊢
  obtain ⟨c, hc, j, hj, h1, h2⟩ := h
  exact ⟨c, hc, c.ctype.pass j, pass_lt' _ _ hj, h2, by rw [pass_pass' _ _ hj]; exact h1⟩

theorem Conn.symm {l : Link} {a b : Nat} (h : Conn l a b) : Conn l b a := by
  induction h with
  | refl => exact Conn.refl _
  | tail _ hj ih => exact (Conn.single (joined_symm l _ _ hj)).trans ih

/-- `reps` contains exactly one label of every class of `Conn l` on the labels of `l`;
its length is the number of classes (`transversal_length`) -/
def Transversal (l : Link) (reps : List Nat) : Prop :=
  (∀ r ∈ reps, r ∈ allEdges l) ∧ reps.Pairwise (fun a b => ¬ Conn l a b) ∧
    ∀ e ∈ allEdges l, ∃ r ∈ reps, Conn l r e

theorem length_le_of_inj_rel (R : Nat → Nat → Prop) : ∀ (A B : List Nat),
    (∀ a ∈ A, ∃ b ∈ B, R a b) → A.Pairwise (fun a a' => ∀ b, R a b → ¬ R a' b) → A.length ≤ B.length
  | [], _, _, _ => Nat.zero_le _
  | a :: A, B, hA, hp => by
    obtain ⟨b, hb, hab⟩ := hA a List.mem_cons_self
    rw [List.pairwise_cons] at hp
    have ih := length_le_of_inj_rel R A (B.erase b)
      (by
        intro a' ha'
        obtain ⟨b', hb', hab'⟩ := hA a' (List.mem_cons_of_mem _ ha')
        have hne : b' ≠ b := by
          intro h; subst h; exact hp.1 a' ha' _ hab hab'
        exact ⟨b', (List.mem_erase_of_ne hne).2 hb', hab'⟩)
      hp.2
    rw [List.length_erase_of_mem hb] at ih
    have : 0 < B.length := List.length_pos_of_mem hb
    simp only [List.length_cons]
    omega

theorem transversal_le (l : Link) (A B : List Nat) (hA : Transversal l A) (hB : Transversal l B) :
    A.length ≤ B.length := by
  apply length_le_of_inj_rel (fun a b => Conn l b a)
  · intro a ha
    exact hB.2.2 a (hA.1 a ha)
  · refine List.Pairwise.imp ?_ hA.2.1
    intro a a' hn b h1 h2
    exact hn (h1.symm.trans h2)

/-- all transversals have the same length: the number of classes is well defined -/
theorem transversal_length (l : Link) (A B : List Nat) (hA : Transversal l A) (hB : Transversal l B) :
    A.length = B.length :=
  Nat.le_antisymm (transversal_le l A B hA hB) (transversal_le l B A hB hA)

theorem headD_mem (xs : List Nat) (h : xs ≠ []) : xs.headD 0 ∈ xs := by
  cases xs with
  | nil => exact absurd rfl h
  | cons a r => simp

/-- the first labels of an accepted component list form a transversal -/
theorem check_transversal (l : Link) (cs : List Path) (h : checkComps l cs = true) :
    Transversal l (cs.map (fun p => p.edges.headD 0)) := by
  obtain ⟨h1, h2, h3⟩ := checkComps_sound' l cs h
  refine ⟨?_, ?_, ?_⟩
  · intro r hr
    obtain ⟨p, hp, rfl⟩ := List.mem_map.1 hr
    exact (h1 _).2 ⟨p, hp, headD_mem _ (h3 p hp).2.1⟩
  · rw [List.pairwise_map]
    refine List.Pairwise.imp_of_mem ?_ (nodup_flat_pairwise cs h2)
    intro p q hp hq hd hc
    have hpm := headD_mem _ (h3 p hp).2.1
    have hqm := headD_mem _ (h3 q hq).2.1
    exact hd _ (((h3 p hp).2.2 _ hpm _).1 hc) hqm
  · intro e he
    obtain ⟨p, hp, hep⟩ := (h1 e).1 he
    exact ⟨_, List.mem_map.2 ⟨p, hp, rfl⟩, ((h3 p hp).2.2 _ (headD_mem _ (h3 p hp).2.1) e).2 hep⟩

theorem circleCount_of_check (l : Link) (cs : List Path) (hc : components l = .ok cs)
    (h : checkComps l cs = true) : circleCount l = .ok cs.length := by
  obtain ⟨_, _, h3⟩ := checkComps_sound' l cs h
  unfold circleCount
  rw [hc, Res.bind_ok]
  have : cs.all (·.closed) = true := by
    rw [List.all_eq_true]; intro p hp; exact (h3 p hp).1
  rw [this]; rfl

end Yuiv.C18
