import Yuiv.Model.C09
import Mathlib.Data.Matrix.Basic
import Mathlib.Data.Matrix.Mul
import Mathlib.LinearAlgebra.Matrix.NonsingularInverse
import Mathlib.Tactic.Ring
import Mathlib.Tactic.LinearCombination
import Mathlib.Data.ZMod.Basic
/-
C09 — spec definitions and helper lemmas.

`Lawful o φ`: the operations `o : ROps α` compute, through the interpretation `φ : α → R`, in the commutative
ring `R` (for ℤ and ℚ: `φ = id`; for 𝔽_p: `φ = Nat.cast : ℕ → ZMod p`).
`toM φ A` is the Mathlib matrix denoted by `A : Mat α m n`.
-/
namespace Yuiv.C09
open Yuiv Matrix

variable {α : Type} {R : Type} [CommRing R]

structure Lawful (o : ROps α) (φ : α → R) : Prop where
  zero : φ o.zero = 0
  one : φ o.one = 1
  add : ∀ a b, φ (o.add a b) = φ a + φ b
  mul : ∀ a b, φ (o.mul a b) = φ a * φ b
  neg : ∀ a, φ (o.neg a) = - φ a
  beq : ∀ a b, o.beq a b = true ↔ φ a = φ b

def toM {m n : Nat} (φ : α → R) (A : Mat α m n) : Matrix (Fin m) (Fin n) R := fun i j => φ (A.get i j)

@[simp] theorem toM_apply {m n : Nat} (φ : α → R) (A : Mat α m n) (i : Fin m) (j : Fin n) :
    toM φ A i j = φ (A.get i j) := rfl

@[simp] theorem get_ofFn {m n : Nat} (f : Fin m → Fin n → α) (i : Fin m) (j : Fin n) :
    (Mat.ofFn f).get i j = f i j := by
  simp [Mat.ofFn, Mat.get]

theorem allFin_iff {n : Nat} (p : Fin n → Bool) : allFin n p = true ↔ ∀ i, p i = true := by
  simp [allFin, List.all_eq_true]

section lawful
variable {o : ROps α} {φ : α → R} (L : Lawful o φ)
include L

theorem sumFin_eq : ∀ (n : Nat) (f : Fin n → α), φ (sumFin o n f) = ∑ k, φ (f k)
  | 0, _ => by simp [sumFin, L.zero]
  | n + 1, f => by
    rw [sumFin, L.add, sumFin_eq n, Fin.sum_univ_castSucc]

theorem isZero_iff (a : α) : o.isZero a = true ↔ φ a = 0 := by
  rw [ROps.isZero, L.beq, L.zero]

theorem isOne_iff (a : α) : o.isOne a = true ↔ φ a = 1 := by
  rw [ROps.isOne, L.beq, L.one]

theorem sub_eq (a b : α) : φ (o.sub a b) = φ a - φ b := by
  rw [ROps.sub, L.add, L.neg]; ring

theorem toM_matMul {m k n : Nat} (A : Mat α m k) (B : Mat α k n) :
    toM φ (matMul o A B) = toM φ A * toM φ B := by
  ext i j
  simp only [toM_apply, matMul, get_ofFn, Matrix.mul_apply]
  rw [sumFin_eq L]
  simp [L.mul]

theorem matEq_iff {m n : Nat} (A B : Mat α m n) : matEq o A B = true ↔ toM φ A = toM φ B := by
  simp only [matEq, allFin_iff, L.beq]
  constructor
  · intro h; ext i j; exact h i j
  · intro h i j; exact congrFun (congrFun h i) j

theorem toM_idMat (n : Nat) : toM φ (idMat o n) = (1 : Matrix (Fin n) (Fin n) R) := by
  ext i j
  simp only [toM_apply, idMat, get_ofFn, Matrix.one_apply, Fin.ext_iff]
  split <;> simp [L.one, L.zero]

theorem isIdentity_iff {n : Nat} (A : Mat α n n) : isIdentity o A = true ↔ toM φ A = 1 := by
  simp only [isIdentity, allFin_iff, L.beq]
  constructor
  · intro h; ext i j
    rw [toM_apply, h i j, Matrix.one_apply]
    simp only [Fin.ext_iff]
    split <;> simp [L.one, L.zero]
  · intro h i j
    have := congrFun (congrFun h i) j
    rw [toM_apply, Matrix.one_apply] at this
    rw [this]; simp only [Fin.ext_iff]
    split <;> simp [L.one, L.zero]

theorem isZeroMat_iff {m n : Nat} (A : Mat α m n) : isZeroMat o A = true ↔ toM φ A = 0 := by
  simp only [isZeroMat, allFin_iff, isZero_iff L]
  constructor
  · intro h; ext i j; exact h i j
  · intro h i j; exact congrFun (congrFun h i) j

theorem isDiag_iff {m n : Nat} (D : Mat α m n) :
    isDiag o D = true ↔ ∀ (i : Fin m) (j : Fin n), i.1 ≠ j.1 → φ (D.get i j) = 0 := by
  simp only [isDiag, allFin_iff, Bool.or_eq_true, beq_iff_eq, isZero_iff L]
  constructor
  · intro h i j hij; exact (h i j).resolve_left hij
  · intro h i j; by_cases hij : i.1 = j.1
    · exact Or.inl hij
    · exact Or.inr (h i j hij)

/-- the three matrix identities of the SNF transform -/
def TransformSpec {m n : Nat} (A D : Matrix (Fin m) (Fin n) R) (P Pinv : Matrix (Fin m) (Fin m) R)
    (Q Qinv : Matrix (Fin n) (Fin n) R) : Prop :=
  P * A * Q = D ∧ P * Pinv = 1 ∧ Q * Qinv = 1

omit L in
theorem TransformSpec.two_sided {m n : Nat} {A D : Matrix (Fin m) (Fin n) R} {P Pinv : Matrix (Fin m) (Fin m) R}
    {Q Qinv : Matrix (Fin n) (Fin n) R} (h : TransformSpec A D P Pinv Q Qinv) :
    Pinv * P = 1 ∧ Qinv * Q = 1 ∧ A = Pinv * D * Qinv := by
  obtain ⟨h1, h2, h3⟩ := h
  have h2' : Pinv * P = 1 := mul_eq_one_comm.mp h2
  have h3' : Qinv * Q = 1 := mul_eq_one_comm.mp h3
  refine ⟨h2', h3', ?_⟩
  rw [← h1]
  calc A = (Pinv * P) * A * (Q * Qinv) := by rw [h2', h3]; simp
    _ = Pinv * (P * A * Q) * Qinv := by simp only [Matrix.mul_assoc]

theorem snfTransformOk_iff {m n : Nat} (A D : Mat α m n) (P Pinv : Mat α m m) (Q Qinv : Mat α n n) :
    snfTransformOk o A D P Pinv Q Qinv = true ↔
      TransformSpec (toM φ A) (toM φ D) (toM φ P) (toM φ Pinv) (toM φ Q) (toM φ Qinv) := by
  simp only [snfTransformOk, Bool.and_eq_true, matEq_iff L, isIdentity_iff L, toM_matMul L, TransformSpec, and_assoc]

end lawful

/-! ### shape -/

/-- the mathematical shape of a Smith normal form diagonal `d_0, …, d_{k-1}`:
`r` non-zero entries first, each satisfying `N` ("normalised"), each dividing the next; zeros afterwards -/
def ShapeSpec (N : R → Prop) (d : List R) : Prop :=
  ∃ r, r ≤ d.length ∧ (∀ i (h : i < d.length), i < r → d[i] ≠ 0 ∧ N d[i]) ∧
    (∀ i (h : i < d.length), r ≤ i → d[i] = 0) ∧
    (∀ i (h : i + 1 < d.length), i + 1 < r → d[i] ∣ d[i + 1])

theorem shapeSpec_nil (N : R → Prop) : ShapeSpec N ([] : List R) :=
  ⟨0, Nat.le_refl _, by simp, by simp, by simp⟩

theorem shapeSpec_zeros (N : R → Prop) (l : List R) (h : ∀ x ∈ l, x = 0) : ShapeSpec N l :=
  ⟨0, Nat.zero_le _, by simp, fun i hi _ => h _ (List.getElem_mem hi), by simp⟩

theorem shapeSpec_cons (N : R → Prop) (a : R) (l : List R) (ha : a ≠ 0) (hN : N a)
    (hd : ∀ (h : 0 < l.length), l[0] ≠ 0 → a ∣ l[0]) (hl : ShapeSpec N l) : ShapeSpec N (a :: l) := by
  obtain ⟨r, hr, h1, h2, h3⟩ := hl
  refine ⟨r + 1, by simpa using hr, ?_, ?_, ?_⟩
  · intro i hi hir
    cases i with
    | zero => exact ⟨ha, hN⟩
    | succ i => simpa using h1 i (by simpa using hi) (by omega)
  · intro i hi hri
    cases i with
    | zero => omega
    | succ i => simpa using h2 i (by simpa using hi) (by omega)
  · intro i hi hir
    cases i with
    | zero =>
      have h0 : 0 < l.length := by simpa using hi
      have : l[0] ≠ 0 := (h1 0 h0 (by omega)).1
      simpa using hd h0 this
    | succ i => simpa using h3 i (by simpa using hi) (by omega)

theorem shapeL_sound {e : EOps α} {φ : α → R} (L : Lawful e.toROps φ) (N : R → Prop)
    (hN : ∀ a, e.isNorm a = true → N (φ a)) (hD : ∀ a b, e.dvd a b = true → φ a ∣ φ b) :
    ∀ l : List α, shapeL e l = true → ShapeSpec N (l.map φ)
  | [] => fun _ => shapeSpec_nil N
  | a :: rest => by
    intro h
    unfold shapeL at h
    split at h
    · rename_i hz
      have hz' := (isZero_iff L a).1 hz
      refine shapeSpec_zeros N _ ?_
      intro x hx
      rw [List.map_cons, List.mem_cons] at hx
      rcases hx with rfl | hx
      · exact hz'
      · obtain ⟨y, hy, rfl⟩ := List.mem_map.1 hx
        exact (isZero_iff L y).1 (List.all_eq_true.1 h y hy)
    · rename_i hz
      simp only [Bool.and_eq_true] at h
      obtain ⟨⟨hn, hdv⟩, hrest⟩ := h
      have ha : φ a ≠ 0 := fun h0 => hz ((isZero_iff L a).2 h0)
      rw [List.map_cons]
      refine shapeSpec_cons N _ _ ha (hN a hn) ?_ (shapeL_sound L N hN hD rest hrest)
      intro h0 hne
      cases rest with
      | nil => simp at h0
      | cons b rest' =>
        simp only [Bool.or_eq_true] at hdv
        rcases hdv with hb | hb
        · exact absurd ((isZero_iff L b).1 hb) (by simpa using hne)
        · simpa using hD a b hb

/-! ### the rings of the driver -/

theorem lawful_int : Lawful intOps.toROps (id : Int → Int) where
  zero := rfl
  one := rfl
  add _ _ := rfl
  mul _ _ := rfl
  neg _ := rfl
  beq a b := by simp [intOps]

theorem lawful_rat : Lawful ratOps.toROps (id : Rat → Rat) where
  zero := rfl
  one := rfl
  add _ _ := rfl
  mul _ _ := rfl
  neg _ := rfl
  beq a b := by simp [ratOps]

theorem lawful_fp (p : Nat) [NeZero p] : Lawful (fpOps p).toROps (fun a : Nat => (a : ZMod p)) where
  zero := by simp [fpOps, fpROps]
  one := by simp [fpOps, fpROps]
  add a b := by simp [fpOps, fpROps]
  mul a b := by simp [fpOps, fpROps]
  neg a := by
    simp only [fpOps, fpROps, ZMod.natCast_mod]
    have hp : 0 < p := Nat.pos_of_ne_zero (NeZero.ne p)
    have : a % p ≤ p := (Nat.mod_lt a hp).le
    rw [Nat.cast_sub this]; simp
  beq a b := by
    simp only [fpOps, fpROps, beq_iff_eq]
    exact (ZMod.natCast_eq_natCast_iff' a b p).symm

end Yuiv.C09
