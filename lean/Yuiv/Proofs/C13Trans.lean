import Yuiv.Proofs.C13
/-
C13 — part 2: entries of the trusted kernels `+ − · neg transpose` (by their definition), the linear
map of a sparse matrix, and the `Trans` laws.
-/
namespace Yuiv.C13
open Yuiv Res

set_option linter.unusedSectionVars false
set_option linter.unusedSimpArgs false
set_option linter.unusedVariables false

variable {R : Type} [CommRing R] [DecidableEq R]

/-! ### `+`, `neg`, `−`, transpose -/

theorem add_spec (A B : SpMat R) (hA : A.WF) (hB : B.WF) (h1 : A.nrows = B.nrows) (h2 : A.ncols = B.ncols) :
    ∃ C, A.add B = ok C ∧ C.nrows = A.nrows ∧ C.ncols = A.ncols ∧ C.WF ∧
      ∀ i j, C.entry i j = A.entry i j + B.entry i j := by
  refine ⟨cooToCsc A.nrows A.ncols (A.triplets ++ B.triplets), by simp [SpMat.add, Res.assert, h1, h2], rfl, rfl,
    cooToCsc_wf _ _ _, ?_⟩
  intro i j
  rw [entry_cooToCsc]
  by_cases h : i < A.nrows ∧ j < A.ncols
  · rw [if_pos h, entryT_append, entryT_triplets, entryT_triplets]
  · rw [if_neg h, hA.entry_oob i j h, hB.entry_oob i j (by rw [← h1, ← h2]; exact h)]; simp

theorem add_reject (A B : SpMat R) (h : ¬ (A.nrows = B.nrows ∧ A.ncols = B.ncols)) : A.add B = panic := by
  have : (decide (A.nrows = B.nrows) && decide (A.ncols = B.ncols)) = false := by
    rw [Bool.and_eq_false_iff]; simp only [decide_eq_false_iff_not]; omega
  simp [SpMat.add, Res.assert, this]

theorem sumAt_map_neg (c : List (Nat × R)) (i : Nat) : sumAt (c.map (fun p => (p.1, -p.2))) i = - sumAt c i := by
  induction c with
  | nil => simp
  | cons p c ih =>
    obtain ⟨k, a⟩ := p
    simp only [List.map_cons, sumAt_cons, ih]
    by_cases h : k = i <;> simp [h]; ring

theorem neg_entry (A : SpMat R) (i j : Nat) : A.neg.entry i j = - A.entry i j := by
  unfold SpMat.neg SpMat.entry
  simp only [List.getD_eq_getElem?_getD, List.getElem?_map]
  cases h : A.cols[j]? with
  | none => simp
  | some c => simp [sumAt_map_neg]

theorem neg_wf (A : SpMat R) (hA : A.WF) : A.neg.WF := by
  refine ⟨by simp [SpMat.neg, hA.len], ?_, ?_⟩
  · intro c hc p hp
    simp only [SpMat.neg, List.mem_map] at hc
    obtain ⟨c0, hc0, rfl⟩ := hc
    simp only [List.mem_map] at hp
    obtain ⟨p0, hp0, rfl⟩ := hp
    exact hA.bound c0 hc0 p0 hp0
  · intro c hc
    simp only [SpMat.neg, List.mem_map] at hc
    obtain ⟨c0, hc0, rfl⟩ := hc
    simp only [List.map_map]
    have : ((fun p : Nat × R => p.1) ∘ fun p : Nat × R => (p.1, -p.2)) = fun p => p.1 := by funext p; rfl
    rw [this]; exact hA.sorted c0 hc0

theorem sub_spec (A B : SpMat R) (hA : A.WF) (hB : B.WF) (h1 : A.nrows = B.nrows) (h2 : A.ncols = B.ncols) :
    ∃ C, A.sub B = ok C ∧ C.nrows = A.nrows ∧ C.ncols = A.ncols ∧ C.WF ∧
      ∀ i j, C.entry i j = A.entry i j - B.entry i j := by
  refine ⟨cooToCsc A.nrows A.ncols (A.triplets ++ B.neg.triplets), by simp [SpMat.sub, Res.assert, h1, h2], rfl, rfl,
    cooToCsc_wf _ _ _, ?_⟩
  intro i j
  rw [entry_cooToCsc]
  by_cases h : i < A.nrows ∧ j < A.ncols
  · rw [if_pos h, entryT_append, entryT_triplets, entryT_triplets, neg_entry]; ring
  · rw [if_neg h, hA.entry_oob i j h, hB.entry_oob i j (by rw [← h1, ← h2]; exact h)]; simp

theorem transpose_spec (A : SpMat R) (hA : A.WF) :
    A.transpose.nrows = A.ncols ∧ A.transpose.ncols = A.nrows ∧ A.transpose.WF ∧
      ∀ i j, A.transpose.entry i j = A.entry j i := by
  refine ⟨rfl, rfl, cooToCsc_wf _ _ _, ?_⟩
  intro i j
  unfold SpMat.transpose
  rw [entry_cooToCsc]
  by_cases h : i < A.ncols ∧ j < A.nrows
  · rw [if_pos h, ← entryT_triplets]
    generalize A.triplets = ts
    induction ts with
    | nil => rfl
    | cons t ts ih =>
      simp only [List.map_cons, entryT_cons, ih]
      by_cases h1 : t.2.1 = i ∧ t.1 = j
      · simp [h1.1, h1.2]
      · have : ¬ (t.1 = j ∧ t.2.1 = i) := fun e => h1 ⟨e.2, e.1⟩
        simp [h1, this]
  · rw [if_neg h, hA.entry_oob j i (by omega)]

/-! ### `·` -/

theorem entryT_flatMap {α : Type} (l : List α) (F : α → List (Trip R)) (i j : Nat) :
    entryT (l.flatMap F) i j = (l.map (fun t => entryT (F t) i j)).sum := by
  induction l with
  | nil => rfl
  | cons a l ih => simp [List.flatMap_cons, entryT_append, ih]

theorem entryT_scaled_col (c : List (Nat × R)) (j' : Nat) (b : R) (i j : Nat) :
    entryT (c.map (fun p => (p.1, j', p.2 * b))) i j = if j' = j then sumAt c i * b else 0 := by
  induction c with
  | nil => simp
  | cons p c ih =>
    obtain ⟨k, a⟩ := p
    simp only [List.map_cons, entryT_cons, ih, sumAt_cons]
    by_cases h1 : j' = j <;> by_cases h2 : k = i <;> simp [h1, h2]; ring

theorem sum_by_key (ts : List (Trip R)) (g : Nat → R) (j K : Nat) (hb : ∀ t ∈ ts, t.1 < K) :
    (ts.map (fun t => if t.2.1 = j then g t.1 * t.2.2 else 0)).sum
      = ∑ k ∈ Finset.range K, g k * entryT ts k j := by
  induction ts with
  | nil => simp
  | cons t ts ih =>
    rw [List.map_cons, List.sum_cons, ih (fun t ht => hb t (by simp [ht]))]
    have ht := hb t (by simp)
    simp only [entryT_cons, mul_add, Finset.sum_add_distrib]
    congr 1
    by_cases h : t.2.1 = j
    · simp only [h, and_true, if_true]
      rw [Finset.sum_eq_single t.1]
      · simp
      · intro k _ hk; rw [if_neg (fun e : t.1 = k => hk e.symm)]; simp
      · intro hk; exact absurd (Finset.mem_range.mpr ht) hk
    · simp [h]

theorem mul_spec (A B : SpMat R) (hA : A.WF) (hB : B.WF) (h : A.ncols = B.nrows) :
    ∃ C, A.mul B = ok C ∧ C.nrows = A.nrows ∧ C.ncols = B.ncols ∧ C.WF ∧
      ∀ i j, C.entry i j = ∑ k ∈ Finset.range A.ncols, A.entry i k * B.entry k j := by
  refine ⟨cooToCsc A.nrows B.ncols (prodTrips A B), by simp [SpMat.mul, Res.assert, h], rfl, rfl,
    cooToCsc_wf _ _ _, ?_⟩
  intro i j
  rw [entry_cooToCsc]
  have key : entryT (prodTrips A B) i j = ∑ k ∈ Finset.range A.ncols, A.entry i k * B.entry k j := by
    unfold prodTrips
    rw [entryT_flatMap]
    simp only [entryT_scaled_col]
    have := sum_by_key B.triplets (fun k => A.entry i k) j A.ncols
      (fun t ht => by rw [h]; exact (hB.trip_bound ht).1)
    simp only [entryT_triplets] at this
    exact this
  by_cases hij : i < A.nrows ∧ j < B.ncols
  · rw [if_pos hij, key]
  · rw [if_neg hij]
    symm
    apply Finset.sum_eq_zero
    intro k hk
    by_cases hi : i < A.nrows
    · rw [hB.entry_oob k j (by omega)]; simp
    · rw [hA.entry_oob i k (by omega)]; simp

theorem mul_reject (A B : SpMat R) (h : A.ncols ≠ B.nrows) : A.mul B = panic := by
  simp [SpMat.mul, Res.assert, h]

/-! ### the linear map of a sparse matrix -/

/-- `A · x` for a coordinate function `x` (only the coordinates below `A.ncols` are read) -/
def SpMat.apply (A : SpMat R) (x : Nat → R) : Nat → R :=
  fun i => ∑ j ∈ Finset.range A.ncols, A.entry i j * x j

theorem apply_congr (A : SpMat R) (x y : Nat → R) (h : ∀ j, j < A.ncols → x j = y j) : A.apply x = A.apply y := by
  funext i
  unfold SpMat.apply
  apply Finset.sum_congr rfl
  intro j hj
  rw [h j (Finset.mem_range.mp hj)]

theorem apply_oob (A : SpMat R) (hA : A.WF) (x : Nat → R) (i : Nat) (hi : ¬ i < A.nrows) : A.apply x i = 0 := by
  unfold SpMat.apply
  apply Finset.sum_eq_zero
  intro j _
  rw [hA.entry_oob i j (by omega)]; simp

theorem mul_apply (A B C : SpMat R) (hA : A.WF) (hB : B.WF) (h : A.mul B = ok C) (x : Nat → R) :
    C.apply x = A.apply (B.apply x) := by
  by_cases hd : A.ncols = B.nrows
  · obtain ⟨C', hC', _, hn, _, he⟩ := mul_spec A B hA hB hd
    rw [hC'] at h; cases h
    funext i
    unfold SpMat.apply
    rw [hn]
    simp only [he, Finset.sum_mul, Finset.mul_sum]
    rw [Finset.sum_comm]
    apply Finset.sum_congr rfl; intro k _
    apply Finset.sum_congr rfl; intro j _
    ring
  · rw [mul_reject A B hd] at h; cases h

/-! ### sparse vectors as coordinate functions -/

theorem mulVec_spec (A : SpMat R) (v : SpVec R) (hA : A.WF) (hv : v.WF) (h : A.ncols = v.dim) :
    ∃ w, A.mulVec v = ok w ∧ w.dim = A.nrows ∧ w.WF ∧ w.entry = A.apply v.entry := by
  obtain ⟨C, hC, h1, h2, h3, h4⟩ := mul_spec A v.toMat hA hv h
  obtain ⟨w, hw, hw1, hw2, hw3⟩ := intoSpVec_spec C h3 h2
  refine ⟨w, by simp [SpMat.mulVec, hC, hw], by rw [hw1, h1], hw2, ?_⟩
  funext i
  rw [hw3, h4]
  rfl

theorem mulVec_reject (A : SpMat R) (v : SpVec R) (h : A.ncols ≠ v.dim) : A.mulVec v = panic := by
  simp [SpMat.mulVec, mul_reject A v.toMat h]

/-! ### identity -/

theorem id_wf (n : Nat) : (SpMat.id n : SpMat R).WF := by
  refine ⟨by simp [SpMat.id], ?_, ?_⟩
  · intro c hc p hp
    simp only [SpMat.id, List.mem_map, List.mem_range] at hc
    obtain ⟨i, hi, rfl⟩ := hc
    simp only [List.mem_singleton] at hp; subst hp; exact hi
  · intro c hc
    simp only [SpMat.id, List.mem_map, List.mem_range] at hc
    obtain ⟨i, hi, rfl⟩ := hc
    simp

theorem id_entry (n i j : Nat) : (SpMat.id n : SpMat R).entry i j = if i = j ∧ j < n then 1 else 0 := by
  unfold SpMat.entry SpMat.id
  by_cases hj : j < n
  · simp only [List.getD_eq_getElem?_getD, List.getElem?_map, List.getElem?_range hj, Option.map_some,
      Option.getD_some, sumAt_cons, sumAt_nil, add_zero]
    by_cases h : j = i
    · subst h; simp [hj]
    · have : ¬ i = j := fun e => h e.symm
      simp [h, this]
  · have : ((List.range n).map (fun i => [(i, (1 : R))]))[j]? = none := by simp; omega
    simp [List.getD_eq_getElem?_getD, this, hj]

theorem id_apply (n : Nat) (x : Nat → R) (i : Nat) : (SpMat.id n : SpMat R).apply x i = if i < n then x i else 0 := by
  unfold SpMat.apply
  simp only [id_entry]
  show ∑ j ∈ Finset.range n, (if i = j ∧ j < n then (1 : R) else 0) * x j = _
  by_cases hi : i < n
  · rw [Finset.sum_eq_single i]
    · simp [hi]
    · intro j _ hj; rw [if_neg (fun e => hj e.1.symm)]; simp
    · intro h; exact absurd (Finset.mem_range.mpr hi) h
  · rw [if_neg hi]
    apply Finset.sum_eq_zero
    intro j hj
    have := Finset.mem_range.mp hj
    rw [if_neg (fun e => hi (by omega))]; simp

/-! ### `Trans` -/

instance : LawfulMonad Res := LawfulMonad.mk' Res
  (id_map := fun x => by cases x <;> rfl)
  (pure_bind := fun _ _ => rfl)
  (bind_assoc := fun x _ _ => by cases x <;> rfl)

def ChainF : Nat → List (SpMat R) → Nat → Prop
  | s, [], t => s = t
  | s, f :: fs, t => f.WF ∧ f.ncols = s ∧ ChainF f.nrows fs t

def ChainB : Nat → List (SpMat R) → Nat → Prop
  | s, [], t => s = t
  | s, b :: bs, t => b.WF ∧ b.nrows = s ∧ ChainB b.ncols bs t

/-- invariant of a `Trans`: the factors compose, from `src_dim` to `tgt_dim` -/
structure Trans.Inv (t : Trans R) : Prop where
  f : ChainF t.srcDim t.fMats t.tgtDim
  b : ChainB t.srcDim t.bMats t.tgtDim

/-- `f_n ∘ ⋯ ∘ f_0` -/
def fwdSem (fs : List (SpMat R)) (x : Nat → R) : Nat → R := fs.foldl (fun x f => f.apply x) x
/-- `b_0 ∘ ⋯ ∘ b_n` -/
def bwdSem (bs : List (SpMat R)) (y : Nat → R) : Nat → R := bs.foldr (fun b y => b.apply y) y

theorem fwdSem_append (fs gs : List (SpMat R)) (x : Nat → R) : fwdSem (fs ++ gs) x = fwdSem gs (fwdSem fs x) := by
  simp [fwdSem, List.foldl_append]
theorem bwdSem_append (bs cs : List (SpMat R)) (y : Nat → R) : bwdSem (bs ++ cs) y = bwdSem bs (bwdSem cs y) := by
  simp [bwdSem, List.foldr_append]

theorem ChainF_append (s m t : Nat) (fs gs : List (SpMat R)) (h1 : ChainF s fs m) (h2 : ChainF m gs t) :
    ChainF s (fs ++ gs) t := by
  induction fs generalizing s with
  | nil => simp only [ChainF] at h1; subst h1; simpa using h2
  | cons f fs ih => exact ⟨h1.1, h1.2.1, ih _ h1.2.2⟩

theorem ChainB_append (s m t : Nat) (bs cs : List (SpMat R)) (h1 : ChainB s bs m) (h2 : ChainB m cs t) :
    ChainB s (bs ++ cs) t := by
  induction bs generalizing s with
  | nil => simp only [ChainB] at h1; subst h1; simpa using h2
  | cons b bs ih => exact ⟨h1.1, h1.2.1, ih _ h1.2.2⟩

theorem fwdSem_oob (s t : Nat) (fs : List (SpMat R)) (h : ChainF s fs t) (hne : fs ≠ []) (x : Nat → R) (i : Nat)
    (hi : ¬ i < t) : fwdSem fs x i = 0 := by
  induction fs generalizing s x with
  | nil => exact absurd rfl hne
  | cons f fs ih =>
    cases fs with
    | nil =>
      have : f.nrows = t := h.2.2
      simp only [fwdSem, List.foldl_cons, List.foldl_nil]
      exact apply_oob f h.1 x i (by omega)
    | cons g gs => exact ih _ h.2.2 (by simp) (f.apply x)

theorem bwdSem_oob (s t : Nat) (bs : List (SpMat R)) (h : ChainB s bs t) (hne : bs ≠ []) (y : Nat → R) (i : Nat)
    (hi : ¬ i < s) : bwdSem bs y i = 0 := by
  cases bs with
  | nil => exact absurd rfl hne
  | cons b bs =>
    simp only [bwdSem, List.foldr_cons]
    exact apply_oob b h.1 _ i (by rw [h.2.1]; exact hi)

/-- `forward`: the fold of `f * v` computes `f_n ∘ ⋯ ∘ f_0` on the coordinates of `v` -/
theorem forward_fold (s t : Nat) (fs : List (SpMat R)) (h : ChainF s fs t) (v : SpVec R) (hv : v.WF) (hd : v.dim = s) :
    ∃ w, fs.foldlM (fun v f => f.mulVec v) v = ok w ∧ w.WF ∧ w.dim = t ∧ w.entry = fwdSem fs v.entry := by
  induction fs generalizing s v with
  | nil => exact ⟨v, rfl, hv, by simp only [ChainF] at h; omega, rfl⟩
  | cons f fs ih =>
    obtain ⟨w1, h1, h2, h3, h4⟩ := mulVec_spec f v h.1 hv (by rw [h.2.1, hd])
    obtain ⟨w, hw1, hw2, hw3, hw4⟩ := ih _ h.2.2 w1 h3 h2
    refine ⟨w, by rw [List.foldlM_cons, h1]; exact hw1, hw2, hw3, ?_⟩
    rw [hw4, h4]; rfl

theorem backward_fold (s t : Nat) (bs : List (SpMat R)) (h : ChainB s bs t) (v : SpVec R) (hv : v.WF) (hd : v.dim = t) :
    ∃ w, bs.reverse.foldlM (fun v b => b.mulVec v) v = ok w ∧ w.WF ∧ w.dim = s ∧ w.entry = bwdSem bs v.entry := by
  induction bs generalizing s with
  | nil => exact ⟨v, rfl, hv, by simp only [ChainB] at h; omega, rfl⟩
  | cons b bs ih =>
    obtain ⟨w1, h1, h2, h3, h4⟩ := ih _ h.2.2
    obtain ⟨w, hw1, hw2, hw3, hw4⟩ := mulVec_spec b w1 h.1 h2 (by rw [h3])
    refine ⟨w, ?_, hw3, by rw [hw2, h.2.1], ?_⟩
    · rw [List.reverse_cons, List.foldlM_append, h1]
      simp [hw1]
    · rw [hw4, h4]; rfl

theorem forwardMat_fold (s t : Nat) (fs : List (SpMat R)) (h : ChainF s fs t) (M0 : SpMat R) (h0 : M0.WF)
    (hd : M0.ncols = t) :
    ∃ M, fs.reverse.foldlM (fun res f => res.mul f) M0 = ok M ∧ M.WF ∧ M.nrows = M0.nrows ∧ M.ncols = s ∧
      ∀ x, M.apply x = M0.apply (fwdSem fs x) := by
  induction fs generalizing s with
  | nil => exact ⟨M0, rfl, h0, rfl, by simp only [ChainF] at h; omega, fun x => rfl⟩
  | cons f fs ih =>
    obtain ⟨M1, h1, h2, h3, h4, h5⟩ := ih _ h.2.2
    obtain ⟨M, hM, hM1, hM2, hM3, _⟩ := mul_spec M1 f h2 h.1 h4
    refine ⟨M, ?_, hM3, by rw [hM1, h3], by rw [hM2, h.2.1], ?_⟩
    · rw [List.reverse_cons, List.foldlM_append, h1]
      simp [hM]
    · intro x
      rw [mul_apply M1 f M h2 h.1 hM, h5]; rfl

theorem backwardMat_fold (s t : Nat) (bs : List (SpMat R)) (h : ChainB s bs t) (M0 : SpMat R) (h0 : M0.WF)
    (hd : M0.nrows = t) :
    ∃ M, bs.reverse.foldlM (fun res b => b.mul res) M0 = ok M ∧ M.WF ∧ M.nrows = s ∧ M.ncols = M0.ncols ∧
      ∀ y, M.apply y = bwdSem bs (M0.apply y) := by
  induction bs generalizing s with
  | nil => exact ⟨M0, rfl, h0, by simp only [ChainB] at h; omega, rfl, fun y => rfl⟩
  | cons b bs ih =>
    obtain ⟨M1, h1, h2, h3, h4, h5⟩ := ih _ h.2.2
    obtain ⟨M, hM, hM1, hM2, hM3, _⟩ := mul_spec b M1 h.1 h2 (by rw [h3])
    refine ⟨M, ?_, hM3, by rw [hM1, h.2.1], by rw [hM2, h4], ?_⟩
    · rw [List.reverse_cons, List.foldlM_append, h1]
      simp [hM]
    · intro y
      rw [mul_apply b M1 M h.1 h2 hM, h5]; rfl

/-- `forward_mat`: a well-formed `tgt × src` matrix whose linear map is `f_n ∘ ⋯ ∘ f_0` -/
theorem forwardMat_spec (t : Trans R) (h : t.Inv) :
    ∃ M, t.forwardMat = ok M ∧ M.WF ∧ M.nrows = t.tgtDim ∧ M.ncols = t.srcDim ∧
      ∀ x i, i < t.tgtDim → M.apply x i = fwdSem t.fMats x i := by
  have hf := h.f
  unfold Trans.forwardMat
  cases hfs : t.fMats with
  | nil =>
    rw [hfs] at hf
    simp only [ChainF] at hf
    refine ⟨SpMat.id t.tgtDim, rfl, id_wf _, rfl, by simp [SpMat.id, hf], ?_⟩
    intro x i hi
    rw [id_apply, if_pos hi]; rfl
  | cons f fs =>
    rw [hfs] at hf
    cases fs with
    | nil => exact ⟨f, rfl, hf.1, hf.2.2, hf.2.1, fun x i _ => rfl⟩
    | cons g gs =>
      obtain ⟨M, h1, h2, h3, h4, h5⟩ := forwardMat_fold _ _ _ hf (SpMat.id t.tgtDim) (id_wf _) rfl
      refine ⟨M, h1, h2, h3, h4, ?_⟩
      intro x i hi
      rw [h5, id_apply, if_pos hi]

theorem backwardMat_spec (t : Trans R) (h : t.Inv) :
    ∃ M, t.backwardMat = ok M ∧ M.WF ∧ M.nrows = t.srcDim ∧ M.ncols = t.tgtDim ∧
      ∀ y i, i < t.srcDim → M.apply y i = bwdSem t.bMats y i := by
  have hb := h.b
  unfold Trans.backwardMat
  cases hbs : t.bMats with
  | nil =>
    rw [hbs] at hb
    simp only [ChainB] at hb
    refine ⟨SpMat.id t.tgtDim, rfl, id_wf _, by simp [SpMat.id, hb], rfl, ?_⟩
    intro y i hi
    rw [id_apply, if_pos (by omega)]; rfl
  | cons b bs =>
    rw [hbs] at hb
    cases bs with
    | nil => exact ⟨b, rfl, hb.1, hb.2.1, hb.2.2, fun y i _ => rfl⟩
    | cons c cs =>
      obtain ⟨M, h1, h2, h3, h4, h5⟩ := backwardMat_fold _ _ _ hb (SpMat.id t.tgtDim) (id_wf _) rfl
      refine ⟨M, h1, h2, h3, h4, ?_⟩
      intro y i hi
      rw [h5]
      -- the last factor only reads coordinates below `tgt_dim`, where `id * y = y`
      have hl : ∀ (s : Nat) (l : List (SpMat R)), ChainB s l t.tgtDim → l ≠ [] →
          bwdSem l ((SpMat.id t.tgtDim : SpMat R).apply y) = bwdSem l y := by
        intro s l
        induction l generalizing s with
        | nil => intro _ hne; exact absurd rfl hne
        | cons d ds ih =>
          intro hc _
          cases ds with
          | nil =>
            simp only [bwdSem, List.foldr_cons, List.foldr_nil]
            apply apply_congr
            intro j hj
            have : d.ncols = t.tgtDim := hc.2.2
            rw [id_apply, if_pos (by omega)]
          | cons e es =>
            have := ih _ hc.2.2 (by simp)
            simp only [bwdSem, List.foldr_cons] at this ⊢
            rw [this]
      rw [hl _ _ hb (by simp)]

/-! ### the operations of `Trans` keep the invariant -/

theorem id_inv (n : Nat) : (Trans.id n : Trans R).Inv := ⟨rfl, rfl⟩

theorem append_spec (t : Trans R) (ht : t.Inv) (f b : SpMat R) (hf : f.WF) (hb : b.WF)
    (h1 : f.ncols = b.nrows) (h2 : f.nrows = b.ncols) (h3 : f.ncols = t.tgtDim) :
    t.append f b = ok { t with tgtDim := f.nrows, fMats := t.fMats ++ [f], bMats := t.bMats ++ [b] } ∧
    ({ t with tgtDim := f.nrows, fMats := t.fMats ++ [f], bMats := t.bMats ++ [b] } : Trans R).Inv := by
  have h3' : b.nrows = t.tgtDim := h1 ▸ h3
  refine ⟨by simp [Trans.append, Res.assert, h1, h2, h3'], ?_, ?_⟩
  · exact ChainF_append _ _ _ _ _ ht.f ⟨hf, h3, rfl⟩
  · exact ChainB_append _ _ _ _ _ ht.b ⟨hb, by rw [← h1, h3], h2.symm⟩

theorem append_reject (t : Trans R) (f b : SpMat R)
    (h : ¬ (f.ncols = b.nrows ∧ f.nrows = b.ncols ∧ f.ncols = t.tgtDim)) : t.append f b = panic := by
  unfold Trans.append Res.assert
  by_cases h1 : f.ncols = b.nrows
  · by_cases h2 : f.nrows = b.ncols
    · have h3 : ¬ f.ncols = t.tgtDim := fun e => h ⟨h1, h2, e⟩
      simp [h1, h2, h3]
      rw [← h1]; simp [h3]
    · simp [h1, h2]
  · simp [h1]

theorem merge_spec (t o : Trans R) (ht : t.Inv) (ho : o.Inv) (h : t.tgtDim = o.srcDim) :
    t.merge o = ok { t with tgtDim := o.tgtDim, fMats := t.fMats ++ o.fMats, bMats := t.bMats ++ o.bMats } ∧
    ({ t with tgtDim := o.tgtDim, fMats := t.fMats ++ o.fMats, bMats := t.bMats ++ o.bMats } : Trans R).Inv := by
  refine ⟨by simp [Trans.merge, Res.assert, h], ?_, ?_⟩
  · exact ChainF_append _ _ _ _ _ ht.f (by rw [h]; exact ho.f)
  · exact ChainB_append _ _ _ _ _ ht.b (by rw [h]; exact ho.b)

theorem merge_reject (t o : Trans R) (h : t.tgtDim ≠ o.srcDim) : t.merge o = panic := by
  simp [Trans.merge, Res.assert, h]

/-- `forward`: defined exactly on vectors of dimension `src_dim`; applies `f_n ∘ ⋯ ∘ f_0` -/
theorem forward_spec (t : Trans R) (ht : t.Inv) (v : SpVec R) (hv : v.WF) (hd : v.dim = t.srcDim) :
    ∃ w, t.forward v = ok w ∧ w.WF ∧ w.dim = t.tgtDim ∧ w.entry = fwdSem t.fMats v.entry := by
  obtain ⟨w, h1, h2, h3, h4⟩ := forward_fold _ _ _ ht.f v hv hd
  exact ⟨w, by simp [Trans.forward, Res.assert, hd, h1], h2, h3, h4⟩

theorem backward_spec (t : Trans R) (ht : t.Inv) (v : SpVec R) (hv : v.WF) (hd : v.dim = t.tgtDim) :
    ∃ w, t.backward v = ok w ∧ w.WF ∧ w.dim = t.srcDim ∧ w.entry = bwdSem t.bMats v.entry := by
  obtain ⟨w, h1, h2, h3, h4⟩ := backward_fold _ _ _ ht.b v hv hd
  exact ⟨w, by simp [Trans.backward, Res.assert, hd, h1], h2, h3, h4⟩

theorem forward_reject (t : Trans R) (v : SpVec R) (hd : v.dim ≠ t.srcDim) : t.forward v = panic := by
  simp [Trans.forward, Res.assert, hd]
theorem backward_reject (t : Trans R) (v : SpVec R) (hd : v.dim ≠ t.tgtDim) : t.backward v = panic := by
  simp [Trans.backward, Res.assert, hd]

/-- `reduce` keeps the dimensions and the invariant and changes neither composite map -/
theorem reduce_spec (t : Trans R) (ht : t.Inv) :
    ∃ t', t.reduce = ok t' ∧ t'.Inv ∧ t'.srcDim = t.srcDim ∧ t'.tgtDim = t.tgtDim ∧
      (∀ x, fwdSem t'.fMats x = fwdSem t.fMats x) ∧ (∀ y, bwdSem t'.bMats y = bwdSem t.bMats y) ∧
      t'.fMats.length ≤ 1 ∧ t'.bMats.length ≤ 1 ∧ (t'.fMats = [] ↔ t.fMats = []) := by
  -- first half: the forward factors
  have step1 : ∃ t1, t.reduceF = ok t1 ∧
      t1.Inv ∧ t1.srcDim = t.srcDim ∧ t1.tgtDim = t.tgtDim ∧ t1.bMats = t.bMats ∧
      (∀ x, fwdSem t1.fMats x = fwdSem t.fMats x) ∧ t1.fMats.length ≤ 1 ∧ (t1.fMats = [] ↔ t.fMats = []) := by
    by_cases hl : t.fMats.length > 1
    · obtain ⟨M, h1, h2, h3, h4, h5⟩ := forwardMat_spec t ht
      refine ⟨{ t with fMats := [M] }, by unfold Trans.reduceF; rw [if_pos hl, h1]; rfl, ⟨⟨h2, h4, h3⟩, ht.b⟩, rfl, rfl, rfl, ?_, by simp, ?_⟩
      · intro x
        funext i
        by_cases hi : i < t.tgtDim
        · exact h5 x i hi
        · have hne : t.fMats ≠ [] := by intro e; rw [e] at hl; simp at hl
          rw [fwdSem_oob _ _ _ ht.f hne x i hi]
          show M.apply x i = 0
          exact apply_oob M h2 x i (by omega)
      · constructor
        · intro e; cases e
        · intro e; rw [e] at hl; simp at hl
    · refine ⟨t, by unfold Trans.reduceF; rw [if_neg hl], ht, rfl, rfl, rfl, fun _ => rfl, by omega, Iff.rfl⟩
  obtain ⟨t1, e1, i1, s1, g1, b1, f1, l1, n1⟩ := step1
  unfold Trans.reduce
  rw [e1]
  simp only [bind_ok]
  unfold Trans.reduceB
  by_cases hl : t1.bMats.length > 1
  · obtain ⟨M, h1, h2, h3, h4, h5⟩ := backwardMat_spec t1 i1
    refine ⟨{ t1 with bMats := [M] }, by rw [if_pos hl, h1]; rfl, ⟨i1.f, ⟨h2, h3, h4⟩⟩, s1, g1, f1, ?_, l1, by simp, n1⟩
    intro y
    rw [← b1]
    funext i
    by_cases hi : i < t1.srcDim
    · exact h5 y i hi
    · have hne : t1.bMats ≠ [] := by intro e; rw [e] at hl; simp at hl
      rw [bwdSem_oob _ _ _ i1.b hne y i hi]
      show M.apply y i = 0
      exact apply_oob M h2 y i (by omega)
  · exact ⟨t1, by rw [if_neg hl], i1, s1, g1, f1, fun y => by rw [b1], l1, by omega, n1⟩

/-! ### permutation matrices and selection matrices -/

theorem entryT_sel (k : Nat) (l : List Nat) (a b : Nat) :
    entryT ((enumFrom' k l).map (fun x => match x with | (i, v) => (v, i, (1 : R)))) a b
      = if k ≤ b ∧ l[b - k]? = some a then 1 else 0 := by
  induction l generalizing k with
  | nil => simp [enumFrom']
  | cons v l ih =>
    simp only [enumFrom', List.map_cons, entryT_cons, ih]
    by_cases h1 : b = k
    · subst h1
      by_cases h2 : v = a <;> simp [h2]
    · by_cases h2 : k + 1 ≤ b
      · have e : b - k = (b - (k + 1)) + 1 := by omega
        have h3 : k ≤ b := by omega
        have h4 : ¬ k = b := fun e => h1 e.symm
        simp [h2, h3, h4, e]
      · have h3 : ¬ k ≤ b := by omega
        have h4 : ¬ k = b := fun e => h1 e.symm
        simp [h2, h3, h4]

theorem entryT_selT (k : Nat) (l : List Nat) (a b : Nat) :
    entryT ((enumFrom' k l).map (fun x => match x with | (i, v) => (i, v, (1 : R)))) a b
      = if k ≤ a ∧ l[a - k]? = some b then 1 else 0 := by
  induction l generalizing k with
  | nil => simp [enumFrom']
  | cons v l ih =>
    simp only [enumFrom', List.map_cons, entryT_cons, ih]
    by_cases h1 : a = k
    · subst h1
      by_cases h2 : v = b <;> simp [h2]
    · by_cases h2 : k + 1 ≤ a
      · have e : a - k = (a - (k + 1)) + 1 := by omega
        have h3 : k ≤ a := by omega
        have h4 : ¬ k = a := fun e => h1 e.symm
        simp [h2, h3, h4, e]
      · have h3 : ¬ k ≤ a := by omega
        have h4 : ¬ k = a := fun e => h1 e.symm
        simp [h2, h3, h4]

theorem mem_enumFrom' {α : Type} (k : Nat) (l : List α) (x : Nat × α) (h : x ∈ enumFrom' k l) :
    ∃ i, ∃ hi : i < l.length, x.1 = k + i ∧ x.2 = l[i] := by
  induction l generalizing k with
  | nil => simp [enumFrom'] at h
  | cons v l ih =>
    simp only [enumFrom', List.mem_cons] at h
    rcases h with rfl | h
    · exact ⟨0, by simp, rfl, rfl⟩
    · obtain ⟨i, hi, h1, h2⟩ := ih _ h
      exact ⟨i + 1, by simp; omega, by omega, by simpa using h2⟩

theorem permImages_ok (p : Perm) (hp : p.Valid) (l : List Nat) (hl : ∀ i ∈ l, i < p.dim) :
    permImages p l = ok (l.map p.fn) := by
  induction l with
  | nil => rfl
  | cons i l ih =>
    rw [permImages, p.at_ok hp i (hl i (by simp)), ih (fun j hj => hl j (by simp [hj]))]; rfl

/-- `from_row_perm(p)`: the matrix with a `1` at `(p(j), j)` — `row_perm(p) * a == a.permute_rows(p)` -/
theorem fromRowPerm_spec (p : Perm) (hp : p.Valid) :
    ∃ F : SpMat R, fromRowPerm p = ok F ∧ F.WF ∧ F.nrows = p.dim ∧ F.ncols = p.dim ∧
      ∀ i j, F.entry i j = if j < p.dim ∧ p.fn j = i then 1 else 0 := by
  unfold fromRowPerm
  simp only []
  rw [permImages_ok p hp _ (fun i hi => List.mem_range.mp hi)]
  simp only [bind_ok]
  have hs : InShape p.dim p.dim ((enumFrom' 0 ((List.range p.dim).map p.fn)).map
      (fun x => match x with | (i, v) => (v, i, (1 : R)))) := by
    intro t ht _
    simp only [List.mem_map] at ht
    obtain ⟨x, hx, rfl⟩ := ht
    obtain ⟨i, hi, h1, h2⟩ := mem_enumFrom' _ _ _ hx
    simp only [List.length_map, List.length_range] at hi
    obtain ⟨x1, x2⟩ := x
    simp only at h1 h2 ⊢
    subst h1
    rw [h2]
    simp only [List.getElem_map, List.getElem_range, Nat.zero_add]
    exact ⟨p.fn_lt hp i hi, hi⟩
  obtain ⟨h1, h2, h3, h4⟩ := fromEntries_spec _ _ _ _ (fromEntries_ok _ _ _ hs)
  refine ⟨_, fromEntries_ok _ _ _ hs, h3, h1, h2, ?_⟩
  intro i j
  rw [h4, entryT_sel]
  by_cases hj : j < p.dim
  · have : ((List.range p.dim).map p.fn)[j - 0]? = some (p.fn j) := by simp [hj]
    rw [this]
    by_cases hi : p.fn j = i
    · subst hi; simp [hj, p.fn_lt hp j hj]
    · simp [hi]
  · have : ((List.range p.dim).map p.fn)[j - 0]? = none := by simp; omega
    rw [this]; simp [hj]

/-- `from_col_perm(p)`: the matrix with a `1` at `(i, p(i))` — `a * col_perm(p) == a.permute_cols(p)` -/
theorem fromColPerm_spec (p : Perm) (hp : p.Valid) :
    ∃ F : SpMat R, fromColPerm p = ok F ∧ F.WF ∧ F.nrows = p.dim ∧ F.ncols = p.dim ∧
      ∀ i j, F.entry i j = if i < p.dim ∧ p.fn i = j then 1 else 0 := by
  unfold fromColPerm
  simp only []
  rw [permImages_ok p hp _ (fun i hi => List.mem_range.mp hi)]
  simp only [bind_ok]
  have hs : InShape p.dim p.dim ((enumFrom' 0 ((List.range p.dim).map p.fn)).map
      (fun x => match x with | (i, v) => (i, v, (1 : R)))) := by
    intro t ht _
    simp only [List.mem_map] at ht
    obtain ⟨x, hx, rfl⟩ := ht
    obtain ⟨i, hi, h1, h2⟩ := mem_enumFrom' _ _ _ hx
    simp only [List.length_map, List.length_range] at hi
    obtain ⟨x1, x2⟩ := x
    simp only at h1 h2 ⊢
    subst h1
    rw [h2]
    simp only [List.getElem_map, List.getElem_range, Nat.zero_add]
    exact ⟨hi, p.fn_lt hp i hi⟩
  obtain ⟨h1, h2, h3, h4⟩ := fromEntries_spec _ _ _ _ (fromEntries_ok _ _ _ hs)
  refine ⟨_, fromEntries_ok _ _ _ hs, h3, h1, h2, ?_⟩
  intro i j
  rw [h4, entryT_selT]
  by_cases hi : i < p.dim
  · have : ((List.range p.dim).map p.fn)[i - 0]? = some (p.fn i) := by simp [hi]
    rw [this]
    by_cases hj : p.fn i = j
    · subst hj; simp [hi, p.fn_lt hp i hi]
    · simp [hj]
  · have : ((List.range p.dim).map p.fn)[i - 0]? = none := by simp; omega
    rw [this]; simp [hi]

/-- the two matrices appended by `Trans::sub(indices)`: selection of the listed coordinates and inclusion -/
theorem sub_mats_spec (n : Nat) (indices : List Nat) (h : ∀ j ∈ indices, j < n) :
    ∃ F B : SpMat R,
      fromEntries indices.length n ((enumFrom' 0 indices).map (fun x => match x with | (i, j) => (i, j, (1 : R)))) = ok F ∧
      fromEntries n indices.length ((enumFrom' 0 indices).map (fun x => match x with | (i, j) => (j, i, (1 : R)))) = ok B ∧
      F.WF ∧ B.WF ∧ F.nrows = indices.length ∧ F.ncols = n ∧ B.nrows = n ∧ B.ncols = indices.length ∧
      (∀ i j, F.entry i j = if indices[i]? = some j then 1 else 0) ∧
      (∀ i j, B.entry i j = if indices[j]? = some i then 1 else 0) := by
  have hsF : InShape indices.length n ((enumFrom' 0 indices).map (fun x => match x with | (i, j) => (i, j, (1 : R)))) := by
    intro t ht _
    simp only [List.mem_map] at ht
    obtain ⟨x, hx, rfl⟩ := ht
    obtain ⟨i, hi, h1, h2⟩ := mem_enumFrom' _ _ _ hx
    obtain ⟨x1, x2⟩ := x
    simp only at h1 h2 ⊢
    subst h1; rw [h2]
    exact ⟨by omega, h _ (List.getElem_mem hi)⟩
  have hsB : InShape n indices.length ((enumFrom' 0 indices).map (fun x => match x with | (i, j) => (j, i, (1 : R)))) := by
    intro t ht _
    simp only [List.mem_map] at ht
    obtain ⟨x, hx, rfl⟩ := ht
    obtain ⟨i, hi, h1, h2⟩ := mem_enumFrom' _ _ _ hx
    obtain ⟨x1, x2⟩ := x
    simp only at h1 h2 ⊢
    subst h1; rw [h2]
    exact ⟨h _ (List.getElem_mem hi), by omega⟩
  obtain ⟨f1, f2, f3, f4⟩ := fromEntries_spec _ _ _ _ (fromEntries_ok _ _ _ hsF)
  obtain ⟨b1, b2, b3, b4⟩ := fromEntries_spec _ _ _ _ (fromEntries_ok _ _ _ hsB)
  refine ⟨_, _, fromEntries_ok _ _ _ hsF, fromEntries_ok _ _ _ hsB, f3, b3, f1, f2, b1, b2, ?_, ?_⟩
  · intro i j
    rw [f4, entryT_selT]
    by_cases hi : indices[i]? = some j
    · obtain ⟨hlt, he⟩ := List.getElem?_eq_some_iff.mp hi
      have : j < n := he ▸ h _ (List.getElem_mem hlt)
      simp [hi, hlt, this]
    · simp [hi]
  · intro i j
    rw [b4, entryT_sel]
    by_cases hj : indices[j]? = some i
    · obtain ⟨hlt, he⟩ := List.getElem?_eq_some_iff.mp hj
      have : i < n := he ▸ h _ (List.getElem_mem hlt)
      simp [hj, hlt, this]
    · simp [hj]

theorem appendPerm_spec (t : Trans R) (ht : t.Inv) (p : Perm) (hp : p.Valid) (hd : p.dim = t.tgtDim) :
    ∃ F B : SpMat R, fromRowPerm p = ok F ∧ fromColPerm p = ok B ∧
      t.appendPerm p = ok { t with tgtDim := F.nrows, fMats := t.fMats ++ [F], bMats := t.bMats ++ [B] } ∧
      F.nrows = t.tgtDim ∧
      ({ t with tgtDim := F.nrows, fMats := t.fMats ++ [F], bMats := t.bMats ++ [B] } : Trans R).Inv := by
  obtain ⟨F, hF, f1, f2, f3, _⟩ := fromRowPerm_spec (R := R) p hp
  obtain ⟨B, hB, b1, b2, b3, _⟩ := fromColPerm_spec (R := R) p hp
  obtain ⟨h1, h2⟩ := append_spec t ht F B f1 b1 (by omega) (by omega) (by omega)
  exact ⟨F, B, hF, hB, by simp [Trans.appendPerm, Res.assert, hd, hF, hB, h1], by omega, h2⟩

theorem sub_spec' (t : Trans R) (ht : t.Inv) (indices : List Nat) (h : ∀ j ∈ indices, j < t.tgtDim) :
    ∃ F B : SpMat R,
      t.sub indices = ok { t with tgtDim := F.nrows, fMats := t.fMats ++ [F], bMats := t.bMats ++ [B] } ∧
      F.nrows = indices.length ∧
      (∀ i j, F.entry i j = if indices[i]? = some j then 1 else 0) ∧
      (∀ i j, B.entry i j = if indices[j]? = some i then 1 else 0) ∧
      ({ t with tgtDim := F.nrows, fMats := t.fMats ++ [F], bMats := t.bMats ++ [B] } : Trans R).Inv := by
  obtain ⟨F, B, hF, hB, f1, b1, f2, f3, b2, b3, fe, be⟩ := sub_mats_spec (R := R) t.tgtDim indices h
  obtain ⟨h1, h2⟩ := append_spec t ht F B f1 b1 (by omega) (by omega) (by omega)
  refine ⟨F, B, ?_, f2, fe, be, h2⟩
  unfold Trans.sub
  simp only []
  rw [hF, hB]
  exact h1

/-! ### histories -/

/-- any way of building a `Trans` with the public API -/
inductive Hist (R : Type) where
  | id (n : Nat)
  | new (f b : SpMat R)
  | append (h : Hist R) (f b : SpMat R)
  | appendPerm (h : Hist R) (p : Perm)
  | merge (h o : Hist R)
  | sub (h : Hist R) (indices : List Nat)
  | reduce (h : Hist R)

def Hist.run : Hist R → Res (Trans R)
  | .id n => ok (Trans.id n)
  | .new f b => Trans.new f b
  | .append h f b => h.run >>= fun t => t.append f b
  | .appendPerm h p => h.run >>= fun t => t.appendPerm p
  | .merge h o => h.run >>= fun t => o.run >>= fun u => t.merge u
  | .sub h idx => h.run >>= fun t => t.sub idx
  | .reduce h => h.run >>= fun t => t.reduce

/-- the matrices handed to `new` / `append` are well-formed CSC data (every `SpMat` value is) -/
def Hist.Good : Hist R → Prop
  | .id _ => True
  | .new f b => f.WF ∧ b.WF
  | .append h f b => h.Good ∧ f.WF ∧ b.WF
  | .appendPerm h _ => h.Good
  | .merge h o => h.Good ∧ o.Good
  | .sub h _ => h.Good
  | .reduce h => h.Good

def resToList {α : Type} : Res α → List α
  | .ok a => [a]
  | _ => []

/-- the forward factors `f_0, …, f_n` that the history appended, in order (`reduce` adds none) -/
def Hist.fFactors : Hist R → List (SpMat R)
  | .id _ => []
  | .new f _ => [f]
  | .append h f _ => h.fFactors ++ [f]
  | .appendPerm h p => h.fFactors ++ resToList (fromRowPerm p)
  | .merge h o => h.fFactors ++ o.fFactors
  | .sub h idx => h.fFactors ++ (match h.run with
      | .ok t => resToList (fromEntries idx.length t.tgtDim
          ((enumFrom' 0 idx).map (fun x => match x with | (i, j) => (i, j, (1 : R)))))
      | _ => [])
  | .reduce h => h.fFactors

/-- the backward factors `b_0, …, b_n` -/
def Hist.bFactors : Hist R → List (SpMat R)
  | .id _ => []
  | .new _ b => [b]
  | .append h _ b => h.bFactors ++ [b]
  | .appendPerm h p => h.bFactors ++ resToList (fromColPerm p)
  | .merge h o => h.bFactors ++ o.bFactors
  | .sub h idx => h.bFactors ++ (match h.run with
      | .ok t => resToList (fromEntries t.tgtDim idx.length
          ((enumFrom' 0 idx).map (fun x => match x with | (i, j) => (j, i, (1 : R)))))
      | _ => [])
  | .reduce h => h.bFactors

theorem bind_eq_ok {α β : Type} (x : Res α) (f : α → Res β) (b : β) (h : (x >>= f) = ok b) :
    ∃ a, x = ok a ∧ f a = ok b := by
  cases x with
  | ok a => exact ⟨a, rfl, h⟩
  | panic => cases h
  | err => cases h

theorem append_of_ok (t : Trans R) (ht : t.Inv) (f b : SpMat R) (hf : f.WF) (hb : b.WF) (t' : Trans R)
    (h : t.append f b = ok t') :
    t' = { t with tgtDim := f.nrows, fMats := t.fMats ++ [f], bMats := t.bMats ++ [b] } ∧ t'.Inv := by
  by_cases hc : f.ncols = b.nrows ∧ f.nrows = b.ncols ∧ f.ncols = t.tgtDim
  · obtain ⟨h1, h2⟩ := append_spec t ht f b hf hb hc.1 hc.2.1 hc.2.2
    rw [h1] at h; cases h; exact ⟨rfl, h2⟩
  · rw [append_reject t f b hc] at h; cases h

theorem fromEntries_wf_of_ok (m n : Nat) (es : List (Trip R)) (A : SpMat R) (h : fromEntries m n es = ok A) : A.WF :=
  (fromEntries_spec m n es A h).2.2.1

theorem fromRowPerm_wf_of_ok (p : Perm) (F : SpMat R) (h : fromRowPerm p = ok F) : F.WF := by
  unfold fromRowPerm at h
  obtain ⟨im, _, h2⟩ := bind_eq_ok _ _ _ h
  exact fromEntries_wf_of_ok _ _ _ _ h2

theorem fromColPerm_wf_of_ok (p : Perm) (F : SpMat R) (h : fromColPerm p = ok F) : F.WF := by
  unfold fromColPerm at h
  obtain ⟨im, _, h2⟩ := bind_eq_ok _ _ _ h
  exact fromEntries_wf_of_ok _ _ _ _ h2

/-- **Trans laws over any history.**  Whatever sequence of `id / new / append / append_perm / merge / sub /
reduce` produced `t`: its factors compose (`Inv`), and the maps applied by `forward` / `backward`
(and described by `forward_mat` / `backward_mat`, see `forwardMat_spec`) are `f_n ∘ ⋯ ∘ f_0` and
`b_0 ∘ ⋯ ∘ b_n` for the factors `f_k, b_k` appended by the history — `reduce` calls anywhere in the
history change nothing. -/
theorem history_laws (h : Hist R) (hg : h.Good) (t : Trans R) (hr : h.run = ok t) :
    t.Inv ∧ (∀ x, fwdSem t.fMats x = fwdSem h.fFactors x) ∧ (∀ y, bwdSem t.bMats y = bwdSem h.bFactors y) := by
  induction h generalizing t with
  | id n => simp only [Hist.run] at hr; cases hr; exact ⟨id_inv n, fun _ => rfl, fun _ => rfl⟩
  | new f b =>
    simp only [Hist.run, Trans.new] at hr
    obtain ⟨e, hi⟩ := append_of_ok _ (id_inv _) f b hg.1 hg.2 t hr
    subst e
    exact ⟨hi, fun _ => rfl, fun _ => rfl⟩
  | append h f b ih =>
    simp only [Hist.run] at hr
    obtain ⟨t0, h0, h1⟩ := bind_eq_ok _ _ _ hr
    obtain ⟨i0, f0, b0⟩ := ih hg.1 t0 h0
    obtain ⟨e, hi⟩ := append_of_ok t0 i0 f b hg.2.1 hg.2.2 t h1
    subst e
    refine ⟨hi, ?_, ?_⟩
    · intro x; simp only [Hist.fFactors, fwdSem_append, f0]
    · intro y; simp only [Hist.bFactors, bwdSem_append, b0]
  | appendPerm h p ih =>
    simp only [Hist.run] at hr
    obtain ⟨t0, h0, h1⟩ := bind_eq_ok _ _ _ hr
    obtain ⟨i0, f0, b0⟩ := ih hg t0 h0
    unfold Trans.appendPerm at h1
    obtain ⟨_, _, h2⟩ := bind_eq_ok _ _ _ h1
    obtain ⟨F, hF, h3⟩ := bind_eq_ok _ _ _ h2
    obtain ⟨B, hB, h4⟩ := bind_eq_ok _ _ _ h3
    obtain ⟨e, hi⟩ := append_of_ok t0 i0 F B (fromRowPerm_wf_of_ok p F hF) (fromColPerm_wf_of_ok p B hB) t h4
    subst e
    refine ⟨hi, ?_, ?_⟩
    · intro x; simp only [Hist.fFactors, fwdSem_append, f0, hF, resToList]
    · intro y; simp only [Hist.bFactors, bwdSem_append, b0, hB, resToList]
  | merge h o ih1 ih2 =>
    simp only [Hist.run] at hr
    obtain ⟨t0, h0, h1⟩ := bind_eq_ok _ _ _ hr
    obtain ⟨u, hu, h2⟩ := bind_eq_ok _ _ _ h1
    obtain ⟨i0, f0, b0⟩ := ih1 hg.1 t0 h0
    obtain ⟨iu, fu, bu⟩ := ih2 hg.2 u hu
    by_cases hd : t0.tgtDim = u.srcDim
    · obtain ⟨e, hi⟩ := merge_spec t0 u i0 iu hd
      rw [e] at h2; cases h2
      refine ⟨hi, ?_, ?_⟩
      · intro x; simp only [Hist.fFactors, fwdSem_append, f0, fu]
      · intro y; simp only [Hist.bFactors, bwdSem_append, b0, bu]
    · rw [merge_reject t0 u hd] at h2; cases h2
  | sub h idx ih =>
    simp only [Hist.run] at hr
    obtain ⟨t0, h0, h1⟩ := bind_eq_ok _ _ _ hr
    obtain ⟨i0, f0, b0⟩ := ih hg t0 h0
    unfold Trans.sub at h1
    simp only [] at h1
    obtain ⟨F, hF, h3⟩ := bind_eq_ok _ _ _ h1
    obtain ⟨B, hB, h4⟩ := bind_eq_ok _ _ _ h3
    obtain ⟨e, hi⟩ := append_of_ok t0 i0 F B (fromEntries_wf_of_ok _ _ _ F hF) (fromEntries_wf_of_ok _ _ _ B hB) t h4
    subst e
    refine ⟨hi, ?_, ?_⟩
    · intro x; simp only [Hist.fFactors, fwdSem_append, f0, h0, hF, resToList]
    · intro y; simp only [Hist.bFactors, bwdSem_append, b0, h0, hB, resToList]
  | reduce h ih =>
    simp only [Hist.run] at hr
    obtain ⟨t0, h0, h1⟩ := bind_eq_ok _ _ _ hr
    obtain ⟨i0, f0, b0⟩ := ih hg t0 h0
    obtain ⟨t', e, hi, _, _, f1, b1, _⟩ := reduce_spec t0 i0
    rw [e] at h1; cases h1
    exact ⟨hi, fun x => by rw [f1, f0]; rfl, fun y => by rw [b1, b0]; rfl⟩

end Yuiv.C13
