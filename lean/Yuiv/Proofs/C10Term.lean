import Yuiv.Proofs.C10GS
/-
C10 — termination and total correctness of the LLL main loop (`LLLCalc::process`): spec definitions and helper lemmas
(no property theorem here; those are in `Yuiv/Props/C10Term.lean`).

Everything is about the literal model `Yuiv/Model/C10.lean`.  The argument is the classical one, carried out on the
INTEGER fields `det` / `lambda` of `LLLData` (the bookkeeping invariant `Data.Book` of `Proofs/C10GS.lean` is only
needed for: `det[i] > 0`, hence no division by zero, and for translating the final integer inequalities into the
rational statement `IsLLLReduced`):

  * potential  `pot d = ∏_{i<m} det[i]`  (`det[i] = d_{i+1}` = Gram determinant of the first `i+1` rows, a positive
    integer), unchanged by `reduce`, strictly smaller after every `swap(k)` done because `lovasz_ok(k)` failed:
        new `det[k-1] = (d_{k-1}·d_{k+1} + λ_{k,k-1}²) / d_k  <  3/4 · d_k`;
  * measure    `lllMeasure d = pot d · (m+1) + (m − step)`  strictly decreases at every iteration;
  * loop invariant `Data.Red`: rows `< step` are size-reduced (`2|λ_ij| ≤ det[j]`) and Lovász-ordered
    (`3·det[k-1]² ≤ 4·(det[k-2]·det[k] + λ_{k,k-1}²)`).
-/
namespace Yuiv.C10
open Yuiv Res Finset

/-! ### reading the fields -/

/-- `det[i]` (`= d_{i+1}`) -/
def Data.dv (d : Data) (i : Nat) : Int := d.det.getD i 0
/-- `if k >= 2 { d[k-2] } else { 1 }` (`= d_{k-1}`) -/
def Data.dprev (d : Data) (k : Nat) : Int := if k ≥ 2 then d.det.getD (k - 2) 0 else 1

theorem Data.Book.dv_pos {d : Data} (hB : d.Book) {i : Nat} (hi : i < d.tr.m) : 0 < d.dv i := by
  obtain ⟨_, bs, mu, hD⟩ := hB
  have h1 := hD.det_eq i hi
  have h2 := hD.gs.gsP_pos (i + 1) (by omega)
  rw [← h1] at h2
  exact_mod_cast h2

theorem Data.Book.dprev_pos {d : Data} (hB : d.Book) {k : Nat} (hk : k ≤ d.tr.m) : 0 < d.dprev k := by
  unfold Data.dprev
  split
  · exact hB.dv_pos (by omega)
  · exact one_pos

theorem detAt_eq (d : Data) (i : Nat) (hi : i < d.det.size) : detAt d i = ok (d.dv i) := by
  unfold detAt; rw [if_pos hi]; rfl

theorem detPrev_eq (d : Data) (k : Nat) (hk : k ≤ d.det.size) : detPrev d k = ok (d.dprev k) := by
  unfold detPrev Data.dprev
  split
  · exact detAt_eq d (k - 2) (by omega)
  · rfl

/-! ### the primitives return (no panic) and what they do to `det` / `lambda` / `step` -/

theorem divRound_total' (a b : Int) (hb : b ≠ 0) : ∃ q, divRound a b = ok q := by
  unfold divRound
  rw [if_neg hb]
  dsimp only
  generalize (if 0 < a.tmod b then -a.tmod b else a.tmod b) = nr
  generalize (if 0 < b then -b else b) = nb
  split
  · split <;> exact ⟨_, rfl⟩
  · exact ⟨_, rfl⟩

theorem Data.addRowTo_ok (d : Data) (i k : Nat) (r : Int) (hik : i < k) (hk : k < d.tr.m)
    (hsz : d.det.size = d.tr.m) :
    ∃ d', d.addRowTo i k r = ok d' ∧ d'.det = d.det ∧ d'.step = d.step ∧ d'.tr.m = d.tr.m ∧ d'.tr.n = d.tr.n ∧
      (∀ a < d.tr.m, ∀ b < d.tr.m, ent d'.lam a b =
        if a = k then (if b = i then ent d.lam k i + r * d.dv i
          else if b < i then ent d.lam k b + r * ent d.lam i b else ent d.lam a b)
        else ent d.lam a b) := by
  have hi : i < d.det.size := by omega
  unfold Data.addRowTo Tr.addRowTo
  simp only [Res.assert, hik, hk, decide_true, if_true, bind_ok, pure_eq, detAt_eq d i hi]
  refine ⟨_, rfl, rfl, rfl, rfl, rfl, ?_⟩
  intro a ha b hb
  show ent (mkMat d.tr.m d.tr.m _) a b = _
  rw [ent_mkMat _ ha hb]

/-- `reduce(i, k)` returns; `det`, `step` unchanged; only `λ_{k,j}`, `j ≤ i`, change; `2|λ'_{k,i}| ≤ det[i]` -/
theorem Data.reduce_ok (d : Data) (hB : d.Book) (i k : Nat) (hik : i < k) (hk : k < d.tr.m) :
    ∃ d', d.reduce i k = ok d' ∧ d'.Book ∧ d'.det = d.det ∧ d'.step = d.step ∧ d'.tr.m = d.tr.m ∧
      d'.tr.n = d.tr.n ∧
      (∀ a < d.tr.m, ∀ b < d.tr.m, (a ≠ k ∨ i < b) → ent d'.lam a b = ent d.lam a b) ∧
      2 * |ent d'.lam k i| ≤ d.dv i := by
  have hsz := hB.1
  have hi : i < d.tr.m := by omega
  have hpos := hB.dv_pos hi
  obtain ⟨q, hq⟩ := divRound_total' (ent d.lam k i) (d.dv i) (ne_of_gt hpos)
  obtain ⟨_, hq2⟩ := divRound_spec' _ _ _ hq
  have hq3 : 2 * |ent d.lam k i - q * d.dv i| ≤ d.dv i := by
    have : (2 * (ent d.lam k i - q * d.dv i).natAbs : ℤ) ≤ ((d.dv i).natAbs : ℤ) := by exact_mod_cast hq2
    rw [Int.natCast_natAbs, Int.natCast_natAbs, abs_of_pos hpos] at this
    exact this
  have hred : d.reduce i k = (if q ≠ 0 then d.addRowTo i k (-q) else pure d) := by
    unfold Data.reduce
    simp only [Res.assert, hik, hk, decide_true, if_true, bind_ok, detAt_eq d i (by omega : i < d.det.size)]
    rw [hq]
    rfl
  by_cases hq0 : q = 0
  · refine ⟨d, ?_, hB, rfl, rfl, rfl, rfl, fun _ _ _ _ _ => rfl, ?_⟩
    · rw [hred, if_neg (by simpa using hq0)]; rfl
    · rw [hq0] at hq3; simpa using hq3
  · obtain ⟨d', h1, h2, h3, h4, h5, h6⟩ := Data.addRowTo_ok d i k (-q) hik hk hsz
    have hr : d.reduce i k = ok d' := by rw [hred, if_pos hq0]; exact h1
    refine ⟨d', hr, Data.reduce_book d d' i k hr hB, h2, h3, h4, h5, ?_, ?_⟩
    · intro a ha b hb hab
      rw [h6 a ha b hb]
      by_cases hak : a = k
      · subst hak
        have hib : i < b := by rcases hab with h | h; exact absurd rfl h; exact h
        rw [if_pos rfl, if_neg (by omega), if_neg (by omega)]
      · rw [if_neg hak]
    · rw [h6 k hk i hi, if_pos rfl, if_pos rfl]
      have : ent d.lam k i + -q * d.dv i = ent d.lam k i - q * d.dv i := by ring
      rw [this]
      exact hq3

/-- `lovasz_ok(k)` returns the integer test `3·det[k-1]² ≤ 4·(d_{k-1}·det[k] + λ_{k,k-1}²)` -/
theorem Data.lovaszOk_eq (d : Data) (k : Nat) (hk0 : 0 < k) (hk : k < d.tr.m) (hsz : d.det.size = d.tr.m) :
    d.lovaszOk k = ok (decide (3 * (d.dv (k - 1) * d.dv (k - 1))
      ≤ 4 * (d.dprev k * d.dv k + ent d.lam k (k - 1) * ent d.lam k (k - 1)))) := by
  unfold Data.lovaszOk
  simp only [Res.assert, hk0, decide_true, if_true, bind_ok, alphaZ, detPrev_eq d k (by omega),
    detAt_eq d (k - 1) (by omega), detAt_eq d k (by omega), pure_eq]
  rfl

/-- `swap(k)` returns when `det[k-1] ≠ 0`; only `det[k-1]` changes in `det`; rows `< k-1` of `λ` are untouched -/
theorem Data.swap_ok (d : Data) (k : Nat) (hk0 : 0 < k) (hk : k < d.tr.m) (hsz : d.det.size = d.tr.m)
    (hne : d.dv (k - 1) ≠ 0) :
    ∃ d', d.swap k = ok d' ∧ d'.step = d.step ∧ d'.tr.m = d.tr.m ∧ d'.tr.n = d.tr.n ∧
      d'.det = d.det.set! (k - 1)
        ((d.dprev k * d.dv k + ent d.lam k (k - 1) * ent d.lam k (k - 1)).tdiv (d.dv (k - 1))) ∧
      (∀ a < k - 1, ∀ b < d.tr.m, ent d'.lam a b = ent d.lam a b) := by
  have hk1 : k - 1 < d.tr.m := by omega
  have hl0 : ent (mkMat d.tr.m d.tr.m fun a b =>
      if b < k - 1 then ent d.lam (if a = k - 1 then k else if a = k then k - 1 else a) b else ent d.lam a b) k (k - 1)
      = ent d.lam k (k - 1) := by
    rw [ent_mkMat _ hk hk1, if_neg (lt_irrefl _)]
  unfold Data.swap Tr.swapRows
  simp only [Res.assert, hk0, hk, hk1, decide_true, Bool.and_self, if_true, bind_ok, pure_eq, detPrev_eq d k (by omega),
    detAt_eq d (k - 1) (by omega), detAt_eq d k (by omega), bne_iff_ne, ne_eq, hne, not_false_eq_true]
  refine ⟨_, rfl, rfl, rfl, rfl, ?_, ?_⟩
  · show d.det.set! (k - 1) _ = d.det.set! (k - 1) _
    rw [hl0]
  · intro a ha b hb
    have ham : a < d.tr.m := by omega
    show ent (mkMat d.tr.m d.tr.m _) a b = _
    rw [ent_mkMat _ ham hb, if_neg (by omega), ent_mkMat _ ham hb]
    split
    · rw [if_neg (by omega), if_neg (by omega)]
    · rfl

/-- `for i in (0..cnt).rev() { reduce(i, k) }` returns; only row `k` of `λ` changes, on the columns `< cnt`, and
these end up size-reduced -/
theorem revLoop_reduce_ok (k : Nat) : ∀ (cnt : Nat) (d : Data), d.Book → cnt ≤ k → k < d.tr.m →
    ∃ d', revLoop (fun d i => d.reduce i k) d cnt = ok d' ∧ d'.Book ∧ d'.det = d.det ∧ d'.step = d.step ∧
      d'.tr.m = d.tr.m ∧ d'.tr.n = d.tr.n ∧
      (∀ a < d.tr.m, ∀ b < d.tr.m, (a ≠ k ∨ cnt ≤ b) → ent d'.lam a b = ent d.lam a b) ∧
      (∀ b < cnt, 2 * |ent d'.lam k b| ≤ d.dv b) := by
  intro cnt
  induction cnt with
  | zero =>
    intro d hB _ _
    exact ⟨d, rfl, hB, rfl, rfl, rfl, rfl, fun _ _ _ _ _ => rfl, fun b hb => absurd hb (Nat.not_lt_zero b)⟩
  | succ cnt ih =>
    intro d hB hc hk
    obtain ⟨d1, h1, hB1, e1, s1, m1, n1, l1, r1⟩ := Data.reduce_ok d hB cnt k (by omega) hk
    obtain ⟨d2, h2, hB2, e2, s2, m2, n2, l2, r2⟩ := ih d1 hB1 (by omega) (by omega)
    refine ⟨d2, ?_, hB2, e2.trans e1, s2.trans s1, m2.trans m1, n2.trans n1, ?_, ?_⟩
    · show (d.reduce cnt k >>= fun d' => revLoop (fun d i => d.reduce i k) d' cnt) = ok d2
      rw [h1]; exact h2
    · intro a ha b hb hab
      rw [l2 a (by omega) b (by omega) (by omega), l1 a ha b hb (by omega)]
    · intro b hb
      have dv1 : ∀ j, d1.dv j = d.dv j := fun j => by unfold Data.dv; rw [e1]
      rcases Nat.lt_or_ge b cnt with hlt | hge
      · rw [← dv1]; exact r2 b hlt
      · have hbc : b = cnt := by omega
        subst hbc
        rw [l2 k (by omega) b (by omega) (Or.inr (le_refl _))]
        exact r1

/-! ### potential, measure, loop invariant -/

/-- `∏_{i<m} det[i]` — the product of the Gram determinants `d_1 … d_m` (the classical LLL potential times the
constant `d_m`) -/
def Data.pot (d : Data) : Nat := ∏ i ∈ range d.tr.m, (d.dv i).toNat

/-- `swapBound p` = the least `s` with `(3/4)^s·p < 1` (rounding down at every step), about `log_{4/3} p`: an upper
bound for the number of times a positive integer `≤ p` can be replaced by one that is `< 3/4` of it -/
def swapBound : Nat → Nat
  | 0 => 0
  | p + 1 => 1 + swapBound (3 * (p + 1) / 4)
decreasing_by omega

theorem swapBound_mono : ∀ (q p : Nat), p ≤ q → swapBound p ≤ swapBound q := by
  intro q
  induction q using Nat.strong_induction_on with
  | _ q ih =>
    intro p hpq
    cases p with
    | zero => rw [swapBound]; exact Nat.zero_le _
    | succ p =>
      obtain ⟨q', rfl⟩ : ∃ q', q = q' + 1 := ⟨q - 1, by omega⟩
      rw [swapBound, swapBound]
      have := ih (3 * (q' + 1) / 4) (by omega) (3 * (p + 1) / 4) (by omega)
      omega

theorem swapBound_lt {p' p : Nat} (h : 4 * p' < 3 * p) : swapBound p' + 1 ≤ swapBound p := by
  obtain ⟨p0, rfl⟩ : ∃ p0, p = p0 + 1 := ⟨p - 1, by omega⟩
  rw [swapBound]
  have := swapBound_mono (3 * (p0 + 1) / 4) p' (by omega)
  omega

theorem swapBound_le_succ (x : Nat) : swapBound x ≤ 1 + swapBound (3 * x / 4) := by
  cases x with
  | zero => simp [swapBound]
  | succ p => rw [swapBound]

/-- `swapBound p ≤ 3·⌊log₂ p⌋ + 2`: the number of swaps is logarithmic in the potential -/
theorem swapBound_le_log : ∀ p : Nat, swapBound p ≤ 3 * Nat.log 2 p + 2 := by
  intro p
  induction p using Nat.strong_induction_on with
  | _ p ih =>
    rcases Nat.lt_or_ge p 2 with hlt | hge
    · have h1 := swapBound_le_succ p
      have h2 := swapBound_mono 0 (3 * p / 4) (by omega)
      have h3 : swapBound 0 = 0 := by rw [swapBound]
      omega
    · have h1 := swapBound_le_succ p
      have h2 := swapBound_le_succ (3 * p / 4)
      have h3 := swapBound_le_succ (3 * (3 * p / 4) / 4)
      have h4 := swapBound_mono (p / 2) (3 * (3 * (3 * p / 4) / 4) / 4) (by omega)
      have h5 := ih (p / 2) (by omega)
      have h6 : Nat.log 2 p = Nat.log 2 (p / 2) + 1 := Nat.log_of_one_lt_of_le (by omega) hge
      omega

/-- the termination measure of the main loop: the lexicographic pair `(pot, m − step)` packed into one number, using
that `pot` shrinks by the factor `3/4` whenever it changes: `2·swapBound(pot) + (m − step)` -/
def lllMeasure (d : Data) : Nat := 2 * swapBound d.pot + (d.tr.m - d.step)

theorem Data.Book.pot_pos {d : Data} (hB : d.Book) : 0 < d.pot := by
  unfold Data.pot
  apply Finset.prod_pos
  intro i hi
  have := hB.dv_pos (mem_range.mp hi)
  omega

/-- the loop invariant on the integer data: rows `< step` are size-reduced and Lovász-ordered (α = 3/4) -/
structure Data.Red (d : Data) : Prop where
  size : ∀ i < d.step, ∀ j < i, 2 * |ent d.lam i j| ≤ d.dv j
  lov : ∀ k, 0 < k → k < d.step →
    3 * (d.dv (k - 1) * d.dv (k - 1)) ≤ 4 * (d.dprev k * d.dv k + ent d.lam k (k - 1) * ent d.lam k (k - 1))

theorem Data.back_step (d : Data) : d.back.step = if d.step > 1 then d.step - 1 else d.step := by
  unfold Data.back; split <;> rfl
theorem Data.back_det (d : Data) : d.back.det = d.det := by unfold Data.back; split <;> rfl
theorem Data.back_lam (d : Data) : d.back.lam = d.lam := by unfold Data.back; split <;> rfl

/-- ONE ITERATION of `LLLCalc::iterate` at `1 ≤ step < m` under the bookkeeping invariant: it returns (no panic), keeps
the bookkeeping invariant and `1 ≤ step ≤ m`, and EITHER (Lovász test passed) leaves `pot` alone and advances `step`
by one, OR (test failed, swap) strictly decreases `pot` and moves `step` back by one (but not below 1).  It also keeps
the loop invariant `Data.Red`. -/
theorem lllIterate_spec (d : Data) (hB : d.Book) (h1 : 1 ≤ d.step) (h2 : d.step < d.tr.m) :
    ∃ d', lllIterate d = ok d' ∧ d'.Book ∧ d'.tr.m = d.tr.m ∧ d'.tr.n = d.tr.n ∧
      ((d'.pot = d.pot ∧ d'.step = d.step + 1) ∨
       (4 * d'.pot < 3 * d.pot ∧ d'.step = (if d.step > 1 then d.step - 1 else d.step))) ∧
      (d.Red → d'.Red) := by
  obtain ⟨k, hk⟩ : ∃ k, d.step = k := ⟨_, rfl⟩
  have hkm : k < d.tr.m := by omega
  obtain ⟨d1, r1, hB1, e1, s1, m1, n1, l1, z1⟩ := Data.reduce_ok d hB (k - 1) k (by omega) hkm
  have hkm1 : k < d1.tr.m := by omega
  have dv1 : ∀ j, d1.dv j = d.dv j := fun j => by unfold Data.dv; rw [e1]
  have dp1 : ∀ j, d1.dprev j = d.dprev j := fun j => by unfold Data.dprev; rw [e1]
  have hlov := Data.lovaszOk_eq d1 k (by omega) hkm1 hB1.1
  unfold lllIterate
  rw [hk]
  simp only [r1, bind_ok, hlov]
  by_cases hL : 3 * (d1.dv (k - 1) * d1.dv (k - 1))
      ≤ 4 * (d1.dprev k * d1.dv k + ent d1.lam k (k - 1) * ent d1.lam k (k - 1))
  · -- Lovász test passed: size-reduce the rest of row `k`, `next`
    obtain ⟨d2, r2, hB2, e2, s2, m2, n2, l2, z2⟩ := revLoop_reduce_ok k (k - 1) d1 hB1 (by omega) hkm1
    have dv2 : ∀ j, d2.dv j = d.dv j := fun j => by unfold Data.dv; rw [e2, e1]
    have dp2 : ∀ j, d2.dprev j = d.dprev j := fun j => by unfold Data.dprev; rw [e2, e1]
    have hl : ∀ a < d.tr.m, ∀ b < d.tr.m, (a ≠ k ∨ k - 1 ≤ b) → ent d2.lam a b = ent d1.lam a b := by
      intro a ha b hb hab
      exact l2 a (by omega) b (by omega) hab
    refine ⟨d2.next, ?_, Data.next_book d2 hB2, m2.trans m1, n2.trans n1, Or.inl ⟨?_, ?_⟩, ?_⟩
    · simp only [decide_eq_true hL, if_true, r2, bind_ok, pure_eq]
    · show (∏ i ∈ range d2.tr.m, (d2.dv i).toNat) = ∏ i ∈ range d.tr.m, (d.dv i).toNat
      rw [m2, m1]
      exact Finset.prod_congr rfl (fun i _ => by rw [dv2])
    · show d2.step + 1 = k + 1
      rw [s2, s1, hk]
    · intro hR
      have hstep : d2.next.step = k + 1 := by show d2.step + 1 = k + 1; rw [s2, s1, hk]
      constructor
      · intro i hi j hj
        rw [hstep] at hi
        show 2 * |ent d2.lam i j| ≤ d2.dv j
        rw [dv2]
        rcases Nat.lt_or_ge i k with hik | hik
        · rw [hl i (by omega) j (by omega) (Or.inl (by omega)), l1 i (by omega) j (by omega) (Or.inl (by omega))]
          exact hR.size i (by omega) j hj
        · have hik' : i = k := by omega
          subst hik'
          rcases Nat.lt_or_ge j (i - 1) with hj1 | hj1
          · rw [← dv1]; exact z2 j hj1
          · have : j = i - 1 := by omega
            subst this
            rw [hl i (by omega) (i - 1) (by omega) (Or.inr (le_refl _))]
            exact z1
      · intro k' hk0 hk'
        rw [hstep] at hk'
        show 3 * (d2.dv (k' - 1) * d2.dv (k' - 1))
          ≤ 4 * (d2.dprev k' * d2.dv k' + ent d2.lam k' (k' - 1) * ent d2.lam k' (k' - 1))
        rw [dv2, dv2, dp2]
        rcases Nat.lt_or_ge k' k with hlt | hge
        · rw [hl k' (by omega) (k' - 1) (by omega) (Or.inl (by omega)),
            l1 k' (by omega) (k' - 1) (by omega) (Or.inl (by omega))]
          exact hR.lov k' hk0 (by omega)
        · have : k' = k := by omega
          subst this
          rw [hl k' (by omega) (k' - 1) (by omega) (Or.inr (le_refl _)), ← dv1, ← dv1, ← dp1]
          exact hL
  · -- Lovász test failed: swap rows `k-1`, `k`, `back`
    have hpos1 : 0 < d1.dv (k - 1) := hB1.dv_pos (by omega)
    obtain ⟨d2, r2, s2, m2, n2, e2, l2⟩ := Data.swap_ok d1 k (by omega) hkm1 hB1.1 (ne_of_gt hpos1)
    have hB2 : d2.Book := Data.swap_book d1 d2 k r2 hB1
    have hk1sz : k - 1 < d1.det.size := by rw [hB1.1]; omega
    have dv2 : ∀ j, d2.dv j = if j = k - 1 then
        (d1.dprev k * d1.dv k + ent d1.lam k (k - 1) * ent d1.lam k (k - 1)).tdiv (d1.dv (k - 1)) else d.dv j := by
      intro j
      show d2.det.getD j 0 = _
      rw [e2, Data.swap_getD_set _ _ _ _ hk1sz, e1]
      rfl
    -- the new `det[k-1]` is strictly smaller
    have hX0 : 0 ≤ d1.dprev k * d1.dv k + ent d1.lam k (k - 1) * ent d1.lam k (k - 1) := by
      have a1 := hB1.dprev_pos (show k ≤ d1.tr.m by omega)
      have a2 := hB1.dv_pos hkm1
      have a3 := mul_self_nonneg (ent d1.lam k (k - 1))
      have a4 := mul_pos a1 a2
      omega
    have hlt : 4 * d2.dv (k - 1) < 3 * d.dv (k - 1) := by
      rw [dv2, if_pos rfl, ← dv1]
      rw [Int.tdiv_eq_ediv_of_nonneg hX0]
      have a1 := Int.ediv_mul_le (d1.dprev k * d1.dv k + ent d1.lam k (k - 1) * ent d1.lam k (k - 1))
        (ne_of_gt hpos1)
      have a2 : 4 * (d1.dprev k * d1.dv k + ent d1.lam k (k - 1) * ent d1.lam k (k - 1))
          < 3 * (d1.dv (k - 1) * d1.dv (k - 1)) := not_le.mp hL
      by_contra hcon
      have a3 := mul_le_mul_of_nonneg_right (not_lt.mp hcon) (le_of_lt hpos1)
      nlinarith
    have hpos2 : 0 < d2.dv (k - 1) := hB2.dv_pos (by omega)
    refine ⟨d2.back, ?_, Data.back_book d2 hB2, ?_, ?_, Or.inr ⟨?_, ?_⟩, ?_⟩
    · simp only [decide_eq_false hL, Bool.false_eq_true, if_false, r2, bind_ok, pure_eq]
    · rw [Data.back_tr]; exact m2.trans m1
    · rw [Data.back_tr]; exact n2.trans n1
    · show 4 * (∏ i ∈ range d2.back.tr.m, (d2.back.dv i).toNat) < 3 * ∏ i ∈ range d.tr.m, (d.dv i).toNat
      have hbk : ∀ j, d2.back.dv j = d2.dv j := fun j => by unfold Data.dv; rw [Data.back_det]
      rw [Data.back_tr, m2, m1]
      have hmem : k - 1 ∈ range d.tr.m := mem_range.mpr (by omega)
      rw [← Finset.mul_prod_erase _ _ hmem, ← Finset.mul_prod_erase _ _ hmem]
      have hrest : ∏ x ∈ (range d.tr.m).erase (k - 1), (d2.back.dv x).toNat
          = ∏ x ∈ (range d.tr.m).erase (k - 1), (d.dv x).toNat := by
        refine Finset.prod_congr rfl (fun i hi => ?_)
        rw [hbk, dv2, if_neg (Finset.ne_of_mem_erase hi)]
      have hRpos : 0 < ∏ x ∈ (range d.tr.m).erase (k - 1), (d.dv x).toNat := by
        apply Finset.prod_pos
        intro i hi
        have := hB.dv_pos (mem_range.mp (Finset.mem_of_mem_erase hi))
        omega
      rw [hrest, hbk]
      have h4 : 4 * (d2.dv (k - 1)).toNat < 3 * (d.dv (k - 1)).toNat := by omega
      calc 4 * ((d2.dv (k - 1)).toNat * ∏ x ∈ (range d.tr.m).erase (k - 1), (d.dv x).toNat)
          = (4 * (d2.dv (k - 1)).toNat) * ∏ x ∈ (range d.tr.m).erase (k - 1), (d.dv x).toNat := by ring
        _ < (3 * (d.dv (k - 1)).toNat) * ∏ x ∈ (range d.tr.m).erase (k - 1), (d.dv x).toNat :=
            Nat.mul_lt_mul_of_pos_right h4 hRpos
        _ = _ := by ring
    · rw [Data.back_step, s2, s1, hk]
    · intro hR
      have hstep : d2.back.step = if k > 1 then k - 1 else k := by rw [Data.back_step, s2, s1, hk]
      constructor
      · intro i hi j hj
        rw [hstep] at hi
        have hik : i < k - 1 := by split at hi <;> omega
        show 2 * |ent d2.back.lam i j| ≤ d2.back.dv j
        unfold Data.dv
        rw [Data.back_lam, Data.back_det]
        show 2 * |ent d2.lam i j| ≤ d2.dv j
        rw [l2 i hik j (by omega), dv2, if_neg (by omega), l1 i (by omega) j (by omega) (Or.inl (by omega))]
        exact hR.size i (by omega) j hj
      · intro k' hk0 hk'
        rw [hstep] at hk'
        have hkk : k' < k - 1 := by split at hk' <;> omega
        have hdp : d2.back.dprev k' = d.dprev k' := by
          unfold Data.dprev
          rw [Data.back_det]
          split
          · show d2.dv (k' - 2) = d.dv (k' - 2)
            rw [dv2, if_neg (by omega)]
          · rfl
        rw [hdp]
        unfold Data.dv
        rw [Data.back_lam, Data.back_det]
        show 3 * (d2.dv (k' - 1) * d2.dv (k' - 1))
          ≤ 4 * (d.dprev k' * d2.dv k' + ent d2.lam k' (k' - 1) * ent d2.lam k' (k' - 1))
        rw [dv2, if_neg (by omega), dv2, if_neg (by omega), l2 k' hkk (k' - 1) (by omega),
          l1 k' (by omega) (k' - 1) (by omega) (Or.inl (by omega))]
        exact hR.lov k' hk0 (by omega)

/-! ### termination of the main loop -/

theorem lllMeasure_lt {d d' : Data} (hm : d'.tr.m = d.tr.m) (h2 : d.step < d.tr.m)
    (h : (d'.pot = d.pot ∧ d'.step = d.step + 1) ∨
         (4 * d'.pot < 3 * d.pot ∧ d'.step = (if d.step > 1 then d.step - 1 else d.step))) :
    lllMeasure d' < lllMeasure d := by
  unfold lllMeasure
  rw [hm]
  rcases h with ⟨e1, e2⟩ | ⟨e1, e2⟩
  · rw [e1, e2]; omega
  · have := swapBound_lt e1
    rw [e2]
    split <;> omega

/-- the main loop `while step < m { iterate }` returns whenever the fuel is at least the measure of the start state;
it ends with `step = m` and keeps both invariants -/
theorem loopWhile_lll_ok : ∀ (fuel : Nat) (d : Data), d.Book → 1 ≤ d.step → d.step ≤ d.tr.m → lllMeasure d ≤ fuel →
    ∃ d', loopWhile lllIterate fuel d = ok d' ∧ d'.Book ∧ d'.step = d'.tr.m ∧ d'.tr.m = d.tr.m ∧ d'.tr.n = d.tr.n ∧
      (d.Red → d'.Red) := by
  intro fuel
  induction fuel with
  | zero =>
    intro d hB h1 h2 hM
    by_cases hlt : d.step < d.tr.m
    · exfalso
      unfold lllMeasure at hM
      omega
    · refine ⟨d, ?_, hB, by omega, rfl, rfl, id⟩
      simp only [loopWhile, if_neg hlt, pure_eq]
  | succ fuel ih =>
    intro d hB h1 h2 hM
    by_cases hlt : d.step < d.tr.m
    · obtain ⟨d1, r1, hB1, m1, n1, hmeas, hR1⟩ := lllIterate_spec d hB h1 hlt
      have hM1 := lllMeasure_lt m1 hlt hmeas
      have hs1 : 1 ≤ d1.step ∧ d1.step ≤ d1.tr.m := by
        rw [m1]
        rcases hmeas with ⟨_, e⟩ | ⟨_, e⟩
        · omega
        · rw [e]; split <;> omega
      obtain ⟨d2, r2, hB2, s2, m2, n2, hR2⟩ := ih d1 hB1 hs1.1 hs1.2 (by omega)
      refine ⟨d2, ?_, hB2, s2, m2.trans m1, n2.trans n1, fun h => hR2 (hR1 h)⟩
      simp only [loopWhile, if_pos hlt, r1, bind_ok]
      exact r2
    · refine ⟨d, ?_, hB, by omega, rfl, rfl, id⟩
      simp only [loopWhile, if_neg hlt, pure_eq]

/-- fuel monotonicity of the fuel loop: once it does not run out of fuel, more fuel gives the same result -/
theorem loopWhile_mono (it : Data → Res Data) : ∀ (fuel : Nat) (d : Data), loopWhile it fuel d ≠ err →
    ∀ fuel', fuel ≤ fuel' → loopWhile it fuel' d = loopWhile it fuel d := by
  intro fuel
  induction fuel with
  | zero =>
    intro d h fuel' _
    by_cases hlt : d.step < d.tr.m
    · exfalso; apply h; simp only [loopWhile, if_pos hlt]
    · cases fuel' <;> simp only [loopWhile, if_neg hlt]
  | succ fuel ih =>
    intro d h fuel' hle
    obtain ⟨f', rfl⟩ : ∃ f', fuel' = f' + 1 := ⟨fuel' - 1, by omega⟩
    by_cases hlt : d.step < d.tr.m
    · simp only [loopWhile, if_pos hlt] at h ⊢
      cases hit : it d with
      | ok d1 =>
        rw [hit] at h
        simp only [bind_ok] at h ⊢
        exact ih d1 h f' (by omega)
      | panic => rfl
      | err => rfl
    · simp only [loopWhile, if_neg hlt]

/-- the explicit fuel bound: the measure of the state after `setup()`, i.e.
`2·swapBound(∏_{i<m} d_{i+1}) + (m−1)` with `d_k` the Gram determinant of the first `k` rows of `A`
(`swapBound p ≈ log_{4/3} p`, so the bound is polynomial in the size of the input) -/
def lllBound (m n : Nat) (A : Mat) : Nat :=
  match (Data.new m n A).setup with
  | ok d => lllMeasure d
  | _ => 0

theorem Data.Red.init (d : Data) (h : d.step = 1) : d.Red := by
  constructor
  · intro i hi j hj; omega
  · intro k hk0 hk; omega

theorem lll_terminates' (m n : Nat) (A : Mat) (hm : 0 < m) (hI : RowsIndep m n (ent A)) (fuel : Nat)
    (hf : lllBound m n A ≤ fuel) :
    ∃ d, lll fuel m n A = ok d ∧ d.Book ∧ d.Red ∧ d.step = m ∧ d.tr.m = m ∧ d.tr.n = n := by
  obtain ⟨d0, h0, t0, s0, hB0⟩ := Data.setup_book (Data.new m n A) hm hI.init
  have hs : d0.step = 1 := s0
  have hm0 : d0.tr.m = m := by rw [t0]; rfl
  have hn0 : d0.tr.n = n := by rw [t0]; rfl
  have hb : lllBound m n A = lllMeasure d0 := by unfold lllBound; rw [h0]
  obtain ⟨d, r, hB, s, m1, n1, hR⟩ := loopWhile_lll_ok fuel d0 hB0 (by omega) (by omega) (by omega)
  refine ⟨d, ?_, hB, hR (Data.Red.init d0 hs), by rw [s, m1, hm0], m1.trans hm0, n1.trans hn0⟩
  unfold lll
  rw [h0]
  exact r

theorem lll_mono (m n : Nat) (A : Mat) (fuel fuel' : Nat) (h : lll fuel m n A ≠ err) (hle : fuel ≤ fuel') :
    lll fuel' m n A = lll fuel m n A := by
  unfold lll at h ⊢
  cases hs : (Data.new m n A).setup with
  | ok d0 =>
    rw [hs] at h
    simp only [bind_ok] at h ⊢
    exact loopWhile_mono lllIterate fuel d0 h fuel' hle
  | panic => rfl
  | err => rfl

/-! ### the final state is LLL-reduced -/

/-- under the bookkeeping invariant the integer loop invariant at `step = m` IS the rational statement: the rows are
size-reduced (`|μ_ij| ≤ 1/2`) and satisfy the Lovász condition with `α = 3/4` -/
theorem Data.Red.reduced {d : Data} (hB : d.Book) (hR : d.Red) (hs : d.step = d.tr.m) :
    IsLLLReduced d.tr.m d.tr.n (ent d.tr.target) (3 / 4) := by
  obtain ⟨hsz, bs, mu, hD⟩ := hB
  refine ⟨bs, mu, hD.gs, ?_, ?_⟩
  · intro i hi j hj
    have h1 := hR.size i (by omega) j hj
    have hP : 0 < gsP d.tr.n bs (j + 1) := hD.gs.gsP_pos (j + 1) (by omega)
    have c1 : ((d.dv j : ℤ) : ℚ) = gsP d.tr.n bs (j + 1) := hD.det_eq j (by omega)
    have c2 := hD.lam_eq i hi j hj
    have h1q : 2 * |((ent d.lam i j : ℤ) : ℚ)| ≤ ((d.dv j : ℤ) : ℚ) := by exact_mod_cast h1
    rw [c1, c2, abs_mul, abs_of_pos hP] at h1q
    have h3 : gsP d.tr.n bs (j + 1) * (2 * |mu i j|) ≤ gsP d.tr.n bs (j + 1) * 1 := by linarith
    have := le_of_mul_le_mul_left h3 hP
    linarith
  · intro k hk0 hk
    have h1 := hR.lov k hk0 (by omega)
    have h2 := Data.lovaszOk_eq d k hk0 hk hsz
    rw [decide_eq_true h1] at h2
    have h3 := (Data.lovaszOk_book d k true h2 hsz bs mu hD).2.2.mp rfl
    exact h3

/-! ### the bound in terms of the input; a checker for `RowsIndep` (used for the non-vacuity examples) -/

/-- the Gram determinants of the input: `lllBound` only depends on them -/
theorem lllBound_eq (m n : Nat) (A : Mat) (hm : 0 < m) (hI : RowsIndep m n (ent A)) :
    lllBound m n A = 2 * swapBound (∏ k ∈ range m, ((gsGz n (k + 1) (ent A)).det).toNat) + (m - 1) := by
  obtain ⟨d0, h0, t0, s0, hB0⟩ := Data.setup_book (Data.new m n A) hm hI.init
  have hs : d0.step = 1 := s0
  have hm0 : d0.tr.m = m := by rw [t0]; rfl
  have hn0 : d0.tr.n = n := by rw [t0]; rfl
  unfold lllBound
  rw [h0]
  show 2 * swapBound d0.pot + (d0.tr.m - d0.step) = _
  rw [hs, hm0]
  have hpot : d0.pot = ∏ k ∈ range m, ((gsGz n (k + 1) (ent A)).det).toNat := ?_
  · rw [hpot]
  unfold Data.pot
  rw [hm0]
  refine Finset.prod_congr rfl (fun k hk => ?_)
  have hk' := mem_range.mp hk
  obtain ⟨_, bs, mu, hD⟩ := hB0
  rw [hm0, hn0] at hD
  have e1 := hD.det_eq k hk'
  have e2 := hD.gs.gram_det_cast (N := k + 1) (by omega)
  have e3 : gsGz n (k + 1) (ent d0.tr.target) = gsGz n (k + 1) (ent A) := by
    unfold gsGz gsBz
    have : (fun (l : Fin (k + 1)) (c : Fin n) => ent d0.tr.target l.val c.val)
        = fun (l : Fin (k + 1)) (c : Fin n) => ent A l.val c.val := by
      funext l c
      rw [t0]
      show ent (mkMat m n (ent A)) l.val c.val = _
      rw [ent_mkMat _ (by omega) c.isLt]
    rw [this]
  rw [e3] at e2
  have : d0.dv k = (gsGz n (k + 1) (ent A)).det := by
    have := e1.trans e2.symm
    exact_mod_cast this
  rw [this]

/-- executable check of the defining equations of a Gram–Schmidt decomposition (the first three clauses of
`reducedWith`) -/
def gsOk (m n : Nat) (B : Mat) (bs mu : QMat) : Bool :=
  let nrm : Nat → Rat := fun i => sumLtQ n fun c => entQ bs i c * entQ bs i c
  (allLt m fun i => allLt n fun c =>
      (ent B i c : Rat) == entQ bs i c + sumLtQ i fun j => entQ mu i j * entQ bs j c)
  && (allLt m fun i => allLt i fun j => (sumLtQ n fun c => entQ bs i c * entQ bs j c) == 0)
  && (allLt m fun i => decide (0 < nrm i))

theorem gsOk_sound (m n : Nat) (B : Mat) (bs mu : QMat) (h : gsOk m n B bs mu = true) :
    IsGS m n (ent B) (entQ bs) (entQ mu) := by
  simp only [gsOk, allLt_iff, Bool.and_eq_true, decide_eq_true_eq, beq_iff_eq, sumLtQ_eq] at h
  obtain ⟨⟨h1, h2⟩, h3⟩ := h
  exact ⟨h1, h2, h3⟩

/-- the rows are independent if the (untrusted) `gramSchmidt` of the model passes the check -/
theorem rowsIndep_of_gsOk (m n : Nat) (B : Mat)
    (h : gsOk m n B (gramSchmidt m n B).1 (gramSchmidt m n B).2 = true) : RowsIndep m n (ent B) :=
  ⟨_, _, gsOk_sound m n B _ _ h⟩

end Yuiv.C10
