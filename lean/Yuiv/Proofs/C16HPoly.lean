import Yuiv.Proofs.C16
/-
C16 — `HPoly<X,R>` (h_poly.rs): helper definitions and lemmas for `+ − neg ==` and their interplay with `*`.

A value is ONE term `coeff · X^deg`; the zero polynomial is any value with `coeff = 0` (its `deg` is arbitrary:
`HPoly::zero()` stores degree 0, `x² − x²` stores degree 2) and `==` identifies all of them.  The denotation is the
coefficient function `hval a n` of `Proofs/C16.lean`; `a.eqv b ↔ hval a = hval b` is proved there.

* `HPoly.reqv`  "same outcome" of two `Res`-valued computations: both panic, or both `ok` with `==` results.
* `HPoly.InDeg d a`  `a` lies in the degree-`d` part: it is zero or has `deg = d`.
-/
namespace Yuiv.C16
open Yuiv

section HPolyAddProofs
set_option linter.unusedSectionVars false
variable {R : Type} [DecidableEq R] [CommRing R]

/-- same outcome: both panic / both out of fuel (never happens here) / both `ok` with `==` values -/
def HPoly.reqv : Res (HPoly R) → Res (HPoly R) → Prop
  | .ok x, .ok y => x.eqv y = true
  | .panic, .panic => True
  | .err, .err => True
  | _, _ => False

/-- the homogeneous part of degree `d`: zero (stored with any degree) or of degree `d` -/
def HPoly.InDeg (d : Nat) (a : HPoly R) : Prop := a.coeff = 0 ∨ a.deg = d

/-! ### closed forms of the branchy definitions -/

theorem hp_add_eq (a b : HPoly R) :
    a.add b = if a.coeff = 0 then .ok b else if b.coeff = 0 then .ok a
      else if a.deg = b.deg then .ok ⟨a.deg, a.coeff + b.coeff⟩ else .panic := by
  simp [HPoly.add, HPoly.isZero]

theorem hp_sub_eq (a b : HPoly R) :
    a.sub b = if a.coeff = 0 then .ok b.neg else if b.coeff = 0 then .ok a
      else if a.deg = b.deg then .ok ⟨a.deg, a.coeff + -b.coeff⟩ else .panic := by
  simp [HPoly.sub, HPoly.isZero]

theorem hp_neg_coeff_eq_zero (a : HPoly R) : a.neg.coeff = 0 ↔ a.coeff = 0 := by
  simp [HPoly.neg]

/-- `a − b` is literally `a + (−b)` in the model (same branch, same stored pair) -/
theorem hp_sub_eq_add_neg (a b : HPoly R) : a.sub b = a.add b.neg := by
  rw [hp_sub_eq, hp_add_eq]
  simp only [hp_neg_coeff_eq_zero]
  by_cases ha : a.coeff = 0
  · simp [ha]
  · by_cases hb : b.coeff = 0
    · simp [ha, hb]
    · by_cases hd : a.deg = b.deg <;> simp [ha, hb, hd, HPoly.neg]

/-! ### denotations -/

theorem hval_neg (a : HPoly R) (n : Nat) : hval a.neg n = - hval a n := by
  unfold hval HPoly.neg
  by_cases h : a.deg = n <;> simp [h]

theorem hval_mul (a b : HPoly R) (n : Nat) :
    hval (a.mul b) n = if a.deg + b.deg = n then a.coeff * b.coeff else 0 := by
  unfold HPoly.mul HPoly.isOne
  by_cases h : (b.deg == 0 && decide (b.coeff = 1)) = true
  · simp only [h, if_true]
    simp only [Bool.and_eq_true, beq_iff_eq, decide_eq_true_eq] at h
    simp [hval, h.1, h.2]
  · simp [h, hval]

/-- `a · b` as a coefficient function: shift `b` by `a.deg` and scale by `a.coeff` -/
theorem hval_mul_left (a b : HPoly R) (n : Nat) :
    hval (a.mul b) n = if a.deg ≤ n then a.coeff * hval b (n - a.deg) else 0 := by
  rw [hval_mul]
  unfold hval
  by_cases h1 : a.deg ≤ n
  · by_cases h2 : a.deg + b.deg = n
    · have : b.deg = n - a.deg := by omega
      simp [h1, this]
    · have : ¬ b.deg = n - a.deg := by omega
      simp [h1, h2, this]
  · have : ¬ a.deg + b.deg = n := by omega
    simp [h1, this]

theorem hval_mul_right (a b : HPoly R) (n : Nat) :
    hval (b.mul a) n = if a.deg ≤ n then hval b (n - a.deg) * a.coeff else 0 := by
  have h := hval_mul_left a b n
  rw [hval_mul] at h
  rw [hval_mul, Nat.add_comm, mul_comm b.coeff, h]
  by_cases h1 : a.deg ≤ n <;> simp [h1, mul_comm]

theorem hval_smul (a : HPoly R) (r : R) (n : Nat) : hval (a.smul r) n = hval a n * r := by
  unfold HPoly.smul hval
  by_cases hr : r = 1
  · simp [hr]
  · by_cases h : a.deg = n <;> simp [hr, h]

theorem hpoly_sub_val {a b c : HPoly R} (h : a.sub b = Res.ok c) (n : Nat) :
    hval c n = hval a n - hval b n := by
  rw [hp_sub_eq_add_neg] at h
  rw [hpoly_add_val h n, hval_neg, sub_eq_add_neg]

/-! ### `==` -/

theorem hp_eqv_refl (a : HPoly R) : a.eqv a = true := (hpoly_eqv_iff_val a a).2 (fun _ => rfl)
theorem hp_eqv_symm {a b : HPoly R} (h : a.eqv b = true) : b.eqv a = true :=
  (hpoly_eqv_iff_val b a).2 (fun n => ((hpoly_eqv_iff_val a b).1 h n).symm)
theorem hp_eqv_trans {a b c : HPoly R} (h1 : a.eqv b = true) (h2 : b.eqv c = true) : a.eqv c = true :=
  (hpoly_eqv_iff_val a c).2 (fun n => ((hpoly_eqv_iff_val a b).1 h1 n).trans ((hpoly_eqv_iff_val b c).1 h2 n))

theorem hp_eqv_iff_struct (a b : HPoly R) :
    a.eqv b = true ↔ (a.coeff = 0 ∧ b.coeff = 0) ∨ (a.deg = b.deg ∧ a.coeff = b.coeff) := by
  unfold HPoly.eqv
  by_cases h0 : a.coeff = 0 ∧ b.coeff = 0
  · simp [h0]
  · simp [h0]

theorem hp_coeff_zero_of_eqv {a b : HPoly R} (h : a.eqv b = true) : a.coeff = 0 ↔ b.coeff = 0 := by
  rcases (hp_eqv_iff_struct a b).1 h with h | h
  · simp [h.1, h.2]
  · rw [h.2]

/-! ### totality on a homogeneous part -/

theorem hp_add_inDeg {d : Nat} {a b : HPoly R} (ha : a.InDeg d) (hb : b.InDeg d) :
    ∃ c, a.add b = .ok c ∧ c.InDeg d ∧ ∀ n, hval c n = hval a n + hval b n := by
  have key : ∃ c, a.add b = .ok c ∧ c.InDeg d := by
    rw [hp_add_eq]
    by_cases h1 : a.coeff = 0
    · exact ⟨b, by simp [h1], hb⟩
    · by_cases h2 : b.coeff = 0
      · exact ⟨a, by simp [h1, h2], ha⟩
      · have e1 : a.deg = d := ha.resolve_left h1
        have e2 : b.deg = d := hb.resolve_left h2
        exact ⟨⟨a.deg, a.coeff + b.coeff⟩, by simp [h1, h2, e1, e2], Or.inr e1⟩
  obtain ⟨c, hc, hd⟩ := key
  exact ⟨c, hc, hd, hpoly_add_val hc⟩

theorem hp_neg_inDeg {d : Nat} {a : HPoly R} (ha : a.InDeg d) : a.neg.InDeg d := by
  rcases ha with h | h
  · exact Or.inl ((hp_neg_coeff_eq_zero a).2 h)
  · exact Or.inr h

theorem hp_mul_inDeg {d e : Nat} {a b : HPoly R} (ha : a.InDeg d) (hb : b.InDeg e) : (a.mul b).InDeg (d + e) := by
  unfold HPoly.mul HPoly.isOne
  by_cases h : (b.deg == 0 && decide (b.coeff = 1)) = true
  · simp only [h, if_true]
    simp only [Bool.and_eq_true, beq_iff_eq, decide_eq_true_eq] at h
    rcases ha with h1 | h1
    · exact Or.inl h1
    · rcases hb with h2 | h2
      · -- b.coeff = 1 = 0: the trivial ring
        left
        have : (1 : R) = 0 := by rw [← h.2, h2]
        calc a.coeff = a.coeff * 1 := (mul_one _).symm
          _ = 0 := by rw [this, mul_zero]
      · right; omega
  · simp only [h]
    rcases ha with h1 | h1
    · left; simp [h1]
    · rcases hb with h2 | h2
      · left; simp [h2]
      · right; simp [h1, h2]

/-! ### when is `+` defined -/

theorem hp_add_ok_iff (a b : HPoly R) :
    (∃ c, a.add b = .ok c) ↔ a.coeff = 0 ∨ b.coeff = 0 ∨ a.deg = b.deg := by
  rw [hp_add_eq]
  by_cases h1 : a.coeff = 0
  · simp [h1]
  · by_cases h2 : b.coeff = 0
    · simp [h1, h2]
    · by_cases h3 : a.deg = b.deg <;> simp [h1, h2, h3]

theorem hp_add_ne_err (a b : HPoly R) : a.add b ≠ .err := by
  rw [hp_add_eq]
  by_cases h1 : a.coeff = 0
  · simp [h1]
  · by_cases h2 : b.coeff = 0
    · simp [h1, h2]
    · by_cases h3 : a.deg = b.deg <;> simp [h1, h2, h3]

/-- two summands whose sum is defined lie in a common homogeneous part -/
theorem hp_common_deg_of_ok {a b : HPoly R} (h : ∃ c, a.add b = .ok c) : ∃ e, a.InDeg e ∧ b.InDeg e := by
  rcases (hp_add_ok_iff a b).1 h with h | h | h
  · exact ⟨b.deg, Or.inl h, Or.inr rfl⟩
  · exact ⟨a.deg, Or.inr rfl, Or.inl h⟩
  · exact ⟨b.deg, Or.inr h, Or.inr rfl⟩

/-! ### `reqv` and congruence -/

theorem hp_reqv_refl (x : Res (HPoly R)) : HPoly.reqv x x := by
  cases x <;> simp [HPoly.reqv, hp_eqv_refl]

theorem hp_eq_of_eqv_of_ne_zero {a b : HPoly R} (h : a.eqv b = true) (ha : a.coeff ≠ 0) : a = b := by
  rcases (hp_eqv_iff_struct a b).1 h with h | h
  · exact absurd h.1 ha
  · cases a; cases b; simp_all

theorem hp_add_comm (a b : HPoly R) : HPoly.reqv (a.add b) (b.add a) := by
  rw [hp_add_eq, hp_add_eq]
  by_cases h1 : a.coeff = 0
  · by_cases h2 : b.coeff = 0
    · simp only [h1, h2, if_true, HPoly.reqv]
      exact (hp_eqv_iff_struct b a).2 (Or.inl ⟨h2, h1⟩)
    · simp only [h1, h2, if_true, if_false, HPoly.reqv]
      exact hp_eqv_refl b
  · by_cases h2 : b.coeff = 0
    · simp only [h1, h2, if_true, if_false, HPoly.reqv]
      exact hp_eqv_refl a
    · by_cases h3 : a.deg = b.deg
      · simp only [h1, h2, h3, if_true, if_false, HPoly.reqv]
        exact (hp_eqv_iff_struct _ _).2 (Or.inr ⟨rfl, add_comm _ _⟩)
      · have h3' : ¬ b.deg = a.deg := fun e => h3 e.symm
        simp only [h1, h2, h3, h3', if_false, HPoly.reqv]

theorem hp_add_congr {a a' b b' : HPoly R} (ha : a.eqv a' = true) (hb : b.eqv b' = true) :
    HPoly.reqv (a.add b) (a'.add b') := by
  by_cases h1 : a.coeff = 0
  · have h1' : a'.coeff = 0 := (hp_coeff_zero_of_eqv ha).1 h1
    rw [hp_add_eq, hp_add_eq]
    simp only [h1, h1', if_true, HPoly.reqv]
    exact hb
  · have e := hp_eq_of_eqv_of_ne_zero ha h1
    subst e
    by_cases h2 : b.coeff = 0
    · have h2' : b'.coeff = 0 := (hp_coeff_zero_of_eqv hb).1 h2
      rw [hp_add_eq, hp_add_eq]
      simp only [h1, h2, h2', if_true, if_false, HPoly.reqv]
      exact hp_eqv_refl a
    · have e := hp_eq_of_eqv_of_ne_zero hb h2
      subst e
      exact hp_reqv_refl _

theorem hp_neg_congr {a a' : HPoly R} (ha : a.eqv a' = true) : a.neg.eqv a'.neg = true := by
  rw [hpoly_eqv_iff_val] at *
  intro n; rw [hval_neg, hval_neg, ha n]

theorem hp_mul_eqv_pair (a b : HPoly R) : (a.mul b).eqv ⟨a.deg + b.deg, a.coeff * b.coeff⟩ = true := by
  rw [hpoly_eqv_iff_val]
  intro n; rw [hval_mul]; rfl

theorem hp_mul_congr {a a' b b' : HPoly R} (ha : a.eqv a' = true) (hb : b.eqv b' = true) :
    (a.mul b).eqv (a'.mul b') = true := by
  rw [hpoly_eqv_iff_val]
  intro n
  by_cases h1 : a.coeff = 0
  · have h1' : a'.coeff = 0 := (hp_coeff_zero_of_eqv ha).1 h1
    rw [hval_mul, hval_mul, h1, h1']; simp
  · have e := hp_eq_of_eqv_of_ne_zero ha h1
    subst e
    rw [hval_mul_left, hval_mul_left, (hpoly_eqv_iff_val b b').1 hb]

end HPolyAddProofs

end Yuiv.C16
