import Yuiv.Proofs.C19Inv
import Yuiv.Proofs.C19ConeDefs
import Yuiv.Proofs.C06CycleCirc
/-
C19Hyp — helper lemmas for `Props/C19Hyp.lean`.

(G1) the hypotheses of `C19Inv.inv_x_involutive_of_checks` from validity of the planar-diagram code:
  * `ValidPD xs` : every crossing has four slots and every label that occurs, occurs in exactly two slots
    (`C19Cone.validKB` / `C06Cycle.validK` in Prop form);
  * `mt_symm_of_valid` : valid code + involutive edge map + "every crossing has a match" (the acceptance condition of
    `InvLink::new`) ⇒ the matching relation is symmetric.  No `sameCard` hypothesis;
  * `ConnectedPD xs` : the diagram is connected (a set of crossings closed under "shares a label" is empty or everything);
  * `distinct_of_connected` : valid + connected + at least three pairwise different crossings ⇒ a crossing is determined
    by its label set.  False for two crossings (see the examples in `Props/C19Hyp.lean`).
(G2) circles of a state go bijectively to the circles of another state, from a condition on the arcs only.
-/
namespace Yuiv.C19Hyp
open Yuiv Yuiv.KhRef Yuiv.C19 Yuiv.C19Inv

/-! ### (G1) validity and counting -/

/-- every crossing has four slots; every label that occurs, occurs in exactly two slots -/
def ValidPD (xs : List Crossing) : Prop :=
  (∀ x ∈ xs, x.e.toList.length = 4) ∧ ∀ e ∈ edgesOf xs, (edgesOf xs).count e = 2

theorem validPD_of_validKB (l : Link) (h : C19Cone.validKB l = true) : ValidPD l.toList := by
  unfold C19Cone.validKB at h
  simp only [Bool.and_eq_true, List.all_eq_true, beq_iff_eq] at h
  obtain ⟨h1, h2⟩ := h
  refine ⟨?_, fun e he => h2 e he⟩
  intro x hx
  have := (Array.all_eq_true_iff_forall_mem.1 h1) x (by simpa using hx)
  simpa using this

theorem edgesOf_cons (x : Crossing) (r : List Crossing) : edgesOf (x :: r) = x.e.toList ++ edgesOf r := by
  simp [edgesOf]

/-- splitting off one crossing -/
theorem count_split (xs : List Crossing) (x : Crossing) (hx : x ∈ xs) (e : Nat) :
    (edgesOf xs).count e = x.e.toList.count e + (edgesOf (xs.erase x)).count e := by
  have hp : (edgesOf xs).Perm (edgesOf (x :: xs.erase x)) := by
    unfold edgesOf
    exact (List.perm_cons_erase hx).flatMap_right _
  rw [hp.count_eq, edgesOf_cons, List.count_append]

theorem count_le_of_mem (xs : List Crossing) (x : Crossing) (hx : x ∈ xs) (e : Nat) :
    x.e.toList.count e ≤ (edgesOf xs).count e := by
  rw [count_split xs x hx e]; omega

/-- in a valid code a label occurring twice in one crossing occurs in no other crossing -/
theorem not_mem_of_twice (xs : List Crossing) (hv : ValidPD xs) (x y : Crossing) (hx : x ∈ xs) (hy : y ∈ xs)
    (hne : y ≠ x) (e : Nat) (h2 : 2 ≤ x.e.toList.count e) : e ∉ y.e.toList := by
  intro hey
  have hmem : e ∈ edgesOf xs := (mem_edgesOf xs e).2 ⟨y, hy, hey⟩
  have h := hv.2 e hmem
  rw [count_split xs x hx e] at h
  have hy' : y ∈ xs.erase x := (List.mem_erase_of_ne hne).2 hy
  have := count_le_of_mem (xs.erase x) y hy' e
  have : 1 ≤ y.e.toList.count e := List.count_pos_iff.2 hey
  omega

/-- in a valid code a label shared by two different crossings occurs in no third one -/
theorem not_mem_third (xs : List Crossing) (hv : ValidPD xs) (x y z : Crossing) (hx : x ∈ xs) (hy : y ∈ xs) (hz : z ∈ xs)
    (hxy : y ≠ x) (hzx : z ≠ x) (hzy : z ≠ y) (e : Nat) (hex : e ∈ x.e.toList) (hey : e ∈ y.e.toList) :
    e ∉ z.e.toList := by
  intro hez
  have hmem : e ∈ edgesOf xs := (mem_edgesOf xs e).2 ⟨y, hy, hey⟩
  have h := hv.2 e hmem
  rw [count_split xs x hx e] at h
  have hy' : y ∈ xs.erase x := (List.mem_erase_of_ne hxy).2 hy
  have hz' : z ∈ xs.erase x := (List.mem_erase_of_ne hzx).2 hz
  rw [count_split (xs.erase x) y hy' e] at h
  have hz'' : z ∈ (xs.erase x).erase y := (List.mem_erase_of_ne hzy).2 hz'
  have := count_le_of_mem _ z hz'' e
  have : 1 ≤ x.e.toList.count e := List.count_pos_iff.2 hex
  have : 1 ≤ y.e.toList.count e := List.count_pos_iff.2 hey
  have : 1 ≤ z.e.toList.count e := List.count_pos_iff.2 hez
  omega

/-- symmetric matching from validity: no cardinality hypothesis -/
theorem mt_symm_of_valid (xs : List Crossing) (f : Nat → Nat) (hv : ValidPD xs)
    (hinv : ∀ e ∈ edgesOf xs, f (f e) = e)
    (hm : ∀ x ∈ xs, ∃ y ∈ xs, Mt f x y) :
    ∀ x ∈ xs, ∀ y ∈ xs, Mt f x y → Mt f y x := by
  intro x hx y hy hxy
  have hE : ∀ a ∈ x.e.toList, a ∈ edgesOf xs := fun a ha => (mem_edgesOf _ a).2 ⟨x, hx, ha⟩
  by_cases hnd : x.e.toList.Nodup
  · -- four distinct labels: cardinalities
    apply Mt_symm_of_card f x y _ (fun a ha => hinv a (hE a ha)) _ hxy
    · intro a ha b hb hab
      rw [← hinv a (hE a ha), ← hinv b (hE b hb), hab]
    · rw [List.toFinset_card_of_nodup hnd, hv.1 x hx]
      calc y.e.toList.toFinset.card ≤ y.e.toList.length := List.toFinset_card_le _
        _ = 4 := hv.1 y hy
  · -- a repeated label `e`: the match of `y` contains `e`, hence is `x`
    rw [List.nodup_iff_count_le_one] at hnd
    simp only [not_forall, not_le] at hnd
    obtain ⟨e, he2⟩ := hnd
    have hex : e ∈ x.e.toList := List.count_pos_iff.1 (by omega)
    obtain ⟨y', hy', hyy'⟩ := hm y hy
    have : e ∈ y'.e.toList := by
      have := hyy' (f e) (hxy e hex)
      rwa [hinv e (hE e hex)] at this
    have hy'x : y' = x := by
      by_contra hne
      exact not_mem_of_twice xs hv x y' hx hy' hne e he2 this
    rw [← hy'x]; exact hyy'

/-- the diagram is connected: a non-empty set of crossings closed under "shares a label with" is everything -/
def ConnectedPD (xs : List Crossing) : Prop :=
  ∀ S : Crossing → Prop, (∃ x ∈ xs, S x) →
    (∀ x ∈ xs, ∀ y ∈ xs, S x → (∃ e ∈ x.e.toList, e ∈ y.e.toList) → S y) → ∀ x ∈ xs, S x

/-- two different crossings of a valid code with the same label set form a closed sub-diagram -/
theorem twins_closed (xs : List Crossing) (hv : ValidPD xs) (x y : Crossing) (hx : x ∈ xs) (hy : y ∈ xs) (hne : y ≠ x)
    (hsame : ∀ e, e ∈ x.e.toList ↔ e ∈ y.e.toList) :
    ∀ z ∈ xs, (∃ e ∈ x.e.toList, e ∈ z.e.toList) → z = x ∨ z = y := by
  intro z hz ⟨e, hex, hez⟩
  by_contra hcon
  rw [not_or] at hcon
  exact not_mem_third xs hv x y z hx hy hz hne hcon.1 hcon.2 e hex ((hsame e).1 hex) hez

/-- valid + connected + at least three pairwise different crossings: a crossing is determined by its label set -/
theorem distinct_of_connected (xs : List Crossing) (hv : ValidPD xs) (hc : ConnectedPD xs) (hnd : xs.Nodup)
    (h3 : 3 ≤ xs.length) :
    ∀ x ∈ xs, ∀ y ∈ xs, (∀ e, e ∈ x.e.toList ↔ e ∈ y.e.toList) → x = y := by
  intro x hx y hy hsame
  by_contra hne
  have hne' : y ≠ x := fun h => hne h.symm
  have hall := hc (fun z => z = x ∨ z = y) ⟨x, hx, Or.inl rfl⟩ (by
    intro a ha b hb hS hshare
    rcases hS with rfl | rfl
    · exact twins_closed xs hv a y ha hy hne' hsame b hb hshare
    · obtain ⟨e, hea, heb⟩ := hshare
      exact twins_closed xs hv x a hx ha hne' hsame b hb ⟨e, (hsame e).2 hea, heb⟩)
  have hsub : xs ⊆ [x, y] := by
    intro z hz
    rcases hall z hz with rfl | rfl <;> simp
  have := (List.subperm_of_subset hnd hsub).length_le
  simp at this
  omega

/-! ### (G2) circles of `s` ↦ circles of `τ s` from a condition on arcs -/

open Yuiv.C04Inv Yuiv.C06Cycle

/-- an arc-compatible label map carries connected labels to connected labels -/
theorem conn_map (P Q : List (Nat × Nat)) (f : Nat → Nat)
    (hPQ : ∀ p ∈ P, Conn Q (f p.1) (f p.2)) (x y : Nat) (h : Conn P x y) : Conn Q (f x) (f y) := by
  induction h with
  | rel a b hab => exact hPQ (a, b) hab
  | refl a => exact Conn.refl _
  | symm a b _ ih => exact ih.symm
  | trans a b c _ _ ih1 ih2 => exact ih1.trans ih2

theorem circle_nonempty {labels : Array Nat} {P : List (Nat × Nat)} {cs : Array (Array Nat)}
    (h : CirclesSpec labels P cs) (i : Nat) (hi : i < cs.size) : ∃ x, x ∈ cs[i]! ∧ x ∈ labels := by
  obtain ⟨x, hx, p, hp, hq⟩ := h.rep i hi
  refine ⟨x, ?_, hx⟩
  have : x ∈ (cs[i]!).toList := by
    rw [hp]; exact List.mem_filter.2 ⟨by simpa using hx, (hq x hx).2 (Conn.refl x)⟩
  simpa using this

/-- one direction: every circle of `cs` is carried by `f` onto (the member set of) a circle of `ct` -/
theorem circle_image {labels : Array Nat} {P Q : List (Nat × Nat)} {cs ct : Array (Array Nat)}
    (hs : CirclesSpec labels P cs) (ht : CirclesSpec labels Q ct) (f : Nat → Nat)
    (hlab : ∀ x, x ∈ labels → f x ∈ labels) (hinv : ∀ x, x ∈ labels → f (f x) = x)
    (hPQ : ∀ p ∈ P, Conn Q (f p.1) (f p.2)) (hQP : ∀ p ∈ Q, Conn P (f p.1) (f p.2))
    (i : Nat) (hi : i < cs.size) :
    ∃ j, j < ct.size ∧ ∀ y, y ∈ ct[j]! ↔ ∃ x, x ∈ cs[i]! ∧ f x = y := by
  obtain ⟨x, hx, hxl⟩ := circle_nonempty hs i hi
  obtain ⟨j, hj, hfx⟩ := ht.cover (f x) (hlab x hxl)
  refine ⟨j, hj, fun y => ⟨fun hy => ?_, ?_⟩⟩
  · have hyl := ht.mem_labels hj hy
    have hc := conn_map Q P f hQP _ _ (ht.conn_of_mem hj hfx hy)
    rw [hinv x hxl] at hc
    exact ⟨f y, hs.mem_of_conn hi hx (hlab y hyl) hc, hinv y hyl⟩
  · rintro ⟨x', hx', rfl⟩
    have hx'l := hs.mem_labels hi hx'
    exact ht.mem_of_conn hj hfx (hlab x' hx'l) (conn_map P Q f hPQ _ _ (hs.conn_of_mem hi hx hx'))

/-- the circles of `cs` go BIJECTIVELY to the circles of `ct`: an index map `σ` with contents `f(circle i) = circle σ i`,
injective and surjective -/
theorem circle_bij {labels : Array Nat} {P Q : List (Nat × Nat)} {cs ct : Array (Array Nat)}
    (hs : CirclesSpec labels P cs) (ht : CirclesSpec labels Q ct) (f : Nat → Nat)
    (hlab : ∀ x, x ∈ labels → f x ∈ labels) (hinv : ∀ x, x ∈ labels → f (f x) = x)
    (hPQ : ∀ p ∈ P, Conn Q (f p.1) (f p.2)) (hQP : ∀ p ∈ Q, Conn P (f p.1) (f p.2)) :
    ∃ σ : Nat → Nat,
      (∀ i, i < cs.size → σ i < ct.size ∧ ∀ y, y ∈ ct[σ i]! ↔ ∃ x, x ∈ cs[i]! ∧ f x = y) ∧
      (∀ i j, i < cs.size → j < cs.size → σ i = σ j → i = j) ∧
      (∀ j, j < ct.size → ∃ i, i < cs.size ∧ σ i = j) := by
  have h1 := circle_image hs ht f hlab hinv hPQ hQP
  have h2 := circle_image ht hs f hlab hinv hQP hPQ
  choose! σ hσ using h1
  refine ⟨σ, hσ, ?_, ?_⟩
  · intro i j hi hj hij
    obtain ⟨x, hx, _⟩ := circle_nonempty hs i hi
    obtain ⟨x', hx', _⟩ := circle_nonempty hs j hj
    have a : f x ∈ ct[σ i]! := ((hσ i hi).2 _).2 ⟨x, hx, rfl⟩
    have b : f x' ∈ ct[σ j]! := ((hσ j hj).2 _).2 ⟨x', hx', rfl⟩
    rw [← hij] at b
    have hc := conn_map Q P f hQP _ _ (ht.conn_of_mem (hσ i hi).1 a b)
    rw [hinv x (hs.mem_labels hi hx), hinv x' (hs.mem_labels hj hx')] at hc
    exact hs.sep i j hi hj x x' hx hx' hc
  · intro j hj
    obtain ⟨i, hi, hc⟩ := h2 j hj
    obtain ⟨y, hy, hyl⟩ := circle_nonempty ht j hj
    refine ⟨i, hi, ?_⟩
    have hfy : f y ∈ cs[i]! := (hc _).2 ⟨y, hy, rfl⟩
    have : y ∈ ct[σ i]! := ((hσ i hi).2 y).2 ⟨f y, hfy, hinv y hyl⟩
    exact ht.sep (σ i) j (hσ i hi).1 hj y y this hy (Conn.refl y)

/-- a bijection between the index sets: equally many circles -/
theorem size_eq_of_bij (n m : Nat) (σ : Nat → Nat) (h1 : ∀ i, i < n → σ i < m)
    (h2 : ∀ i j, i < n → j < n → σ i = σ j → i = j) (h3 : ∀ j, j < m → ∃ i, i < n ∧ σ i = j) : n = m := by
  have hle : n ≤ m := by
    have := Finset.card_le_card_of_injOn σ (s := Finset.range n) (t := Finset.range m)
      (fun i hi => by simpa using h1 i (by simpa using hi))
      (fun i hi j hj hij => h2 i j (by simpa using hi) (by simpa using hj) hij)
    simpa using this
  have hge : m ≤ n := by
    have : Finset.range m ⊆ (Finset.range n).image σ := by
      intro j hj
      obtain ⟨i, hi, rfl⟩ := h3 j (by simpa using hj)
      exact Finset.mem_image.2 ⟨i, by simpa using hi, rfl⟩
    have := (Finset.card_le_card this).trans Finset.card_image_le
    simpa using this
  omega

/-! ### the arc pairs of a state, crossing by crossing -/

theorem mem_pairsL_iff (cs : List Crossing) (ts : List CT) (p : Nat × Nat) :
    p ∈ pairsL cs ts ↔ ∃ (i : Nat) (c : Crossing) (t : CT), cs[i]? = some c ∧ ts[i]? = some t ∧ p ∈ arcs c t := by
  induction cs generalizing ts with
  | nil => simp [pairsL]
  | cons c cs ih =>
    cases ts with
    | nil => simp [pairsL]
    | cons t ts =>
      simp only [pairsL, List.mem_append, ih]
      constructor
      · rintro (h | ⟨i, c', t', h1, h2, h3⟩)
        · exact ⟨0, c, t, rfl, rfl, h⟩
        · exact ⟨i + 1, c', t', by simpa using h1, by simpa using h2, h3⟩
      · rintro ⟨i, c', t', h1, h2, h3⟩
        cases i with
        | zero =>
          simp only [List.getElem?_cons_zero, Option.some.injEq] at h1 h2
          subst h1 h2; exact Or.inl h3
        | succ i => exact Or.inr ⟨i, c', t', by simpa using h1, by simpa using h2, h3⟩

/-- in a diagram without resolved crossings bit `i` of the state resolves crossing `i` -/
theorem resTypes_get (cs : List Crossing) (hun : ∀ c ∈ cs, c.ct.isResolved = false) (s i : Nat) :
    (resTypes cs s)[i]? = cs[i]?.map (fun c => c.ct.resolve (s.testBit i)) := by
  induction cs generalizing s i with
  | nil => simp [resTypes]
  | cons c cs ih =>
    have hc : c.ct.isResolved = false := hun c (by simp)
    have ih' := ih (fun c hc => hun c (by simp [hc]))
    unfold resTypes
    simp only [hc, Bool.false_eq_true, if_false]
    cases i with
    | zero => simp
    | succ i =>
      simp only [List.getElem?_cons_succ, ih' (s / 2) i, Nat.testBit_succ]

/-- LOCAL compatibility of the label map `f` with the crossing permutation `π` (positions in the data array): for every
crossing `i` and both smoothings `b`, the two arcs of the `b`-smoothing of crossing `i` go to arcs (either direction) of the
`b`-smoothing of crossing `π i`.  One condition per crossing; decidable. -/
def ArcCompat (l : Link) (f : Nat → Nat) (π : Nat → Nat) : Prop :=
  ∀ i, i < l.size → ∀ b : Bool, ∀ p ∈ arcs l[i]! ((l[i]!).ct.resolve b),
    (f p.1, f p.2) ∈ arcs l[π i]! ((l[π i]!).ct.resolve b) ∨ (f p.2, f p.1) ∈ arcs l[π i]! ((l[π i]!).ct.resolve b)

/-- executable form of `ArcCompat` -/
def arcCompatB (l : Link) (f : Nat → Nat) (π : Nat → Nat) : Bool :=
  (List.range l.size).all (fun i => [false, true].all (fun b =>
    (arcs l[i]! ((l[i]!).ct.resolve b)).all (fun p =>
      (arcs l[π i]! ((l[π i]!).ct.resolve b)).contains (f p.1, f p.2) ||
      (arcs l[π i]! ((l[π i]!).ct.resolve b)).contains (f p.2, f p.1))))

theorem arcCompatB_spec (l : Link) (f π : Nat → Nat) (h : arcCompatB l f π = true) : ArcCompat l f π := by
  intro i hi b p hp
  unfold arcCompatB at h
  simp only [List.all_eq_true, List.mem_range, Bool.or_eq_true, List.contains_iff_mem] at h
  exact h i hi b (by cases b <;> simp) p hp

theorem toList_get (l : Link) (i : Nat) (hi : i < l.size) : l.toList[i]? = some l[i]! := by
  rw [getElem!_pos l i hi]; simp [hi]

/-- arcs of state `s` go to connected labels of state `t`, when `t` at `π i` has the bit of `s` at `i` -/
theorem arcs_into (l : Link) (hun : ∀ c ∈ l.toList, c.ct.isResolved = false) (f π : Nat → Nat)
    (hπ : ∀ i, i < l.size → π i < l.size) (hc : ArcCompat l f π) (s t : Nat)
    (hbits : ∀ i, i < l.size → t.testBit (π i) = s.testBit i) :
    ∀ p ∈ statePairs l s, Conn (statePairs l t) (f p.1) (f p.2) := by
  intro p hp
  unfold statePairs at hp
  rw [mem_pairsL_iff] at hp
  obtain ⟨i, c, ty, h1, h2, h3⟩ := hp
  have hi : i < l.size := by
    have := (List.getElem?_eq_some_iff.1 h1).1
    simpa using this
  rw [toList_get l i hi] at h1
  rw [resTypes_get _ hun, toList_get l i hi] at h2
  simp only [Option.map_some, Option.some.injEq] at h1 h2
  subst h1 h2
  have hmem : ∀ q, q ∈ arcs l[π i]! ((l[π i]!).ct.resolve (s.testBit i)) → q ∈ statePairs l t := by
    intro q hq
    unfold statePairs
    rw [mem_pairsL_iff]
    refine ⟨π i, l[π i]!, _, toList_get l _ (hπ i hi), ?_, hq⟩
    rw [resTypes_get _ hun, toList_get l _ (hπ i hi), hbits i hi]
    rfl
  rcases hc i hi (s.testBit i) p h3 with h | h
  · exact Conn.of_mem (hmem _ h)
  · exact (Conn.of_mem (hmem _ h)).symm

/-- the circle list stored at vertex `s` of the reference cube (private copy of `C18Bridge.mkCube_circ'`) -/
theorem mkCube_circ_eq (l : Link) (p : Params) (s : Nat) (hs : s < 2 ^ crossingNum l) :
    (mkCube l p).circ[s]! = circles l (edgeLabels l) s := by
  show ((Array.range (2 ^ crossingNum l)).map (fun s => circles l (edgeLabels l) s))[s]! = _
  rw [getElem!_pos _ _ (by simpa using hs)]
  simp [Array.getElem_range]

/-- the state `τ s` of a crossing permutation `π` of `0..n`: bit `π i` of it is bit `i` of `s` (the shape of `C19.tState`) -/
def permState (n : Nat) (π : Nat → Nat) (s : Nat) : Nat := tauMask ((Array.range n).map π) s

theorem permState_spec (n : Nat) (π : Nat → Nat) (s : Nat) (hπ : ∀ i, i < n → π i < n) (hππ : ∀ i, i < n → π (π i) = i) :
    permState n π s < 2 ^ n ∧ ∀ i, i < n → (permState n π s).testBit (π i) = s.testBit i := by
  have hsz : ((Array.range n).map π).size = n := by simp
  have hget : ∀ i, i < n → ((Array.range n).map π)[i]! = π i := by
    intro i hi
    rw [getElem!_pos _ i (by simpa using hi)]
    simp
  constructor
  · apply Nat.lt_pow_two_of_testBit
    intro j hj
    by_contra hne
    have ht : (permState n π s).testBit j = true := by simpa using hne
    obtain ⟨i, hi, _, hij⟩ := (tauMask_testBit' _ _ _).1 ht
    rw [hsz] at hi
    rw [hget i hi] at hij
    have := hπ i hi
    omega
  · intro i hi
    rw [Bool.eq_iff_iff]
    unfold permState
    rw [tauMask_testBit', hsz]
    constructor
    · rintro ⟨i', hi', hs, hij⟩
      rw [hget i' hi'] at hij
      have : i' = i := by rw [← hππ i' hi', hij, hππ i hi]
      rw [← this]; exact hs
    · intro hs
      exact ⟨i, hi, hs, hget i hi⟩

theorem crossingNum_eq_size (l : Link) (hun : ∀ c ∈ l.toList, c.ct.isResolved = false) : crossingNum l = l.size := by
  unfold crossingNum
  rw [← Array.length_toList, Array.toList_filter, List.filter_eq_self.2]
  · simp
  · intro c hc
    simp [hun c hc]

end Yuiv.C19Hyp
