import Yuiv.Proofs.KhiSpecCheck
import Yuiv.Proofs.KhSnfF2
import Yuiv.Proofs.C03UctHom
/-
KhiSpec — the matrices over `ZMod 2` of the cone differential on the enumerated generators: the bit rows built by `homo`
are these matrices, `rankF2` of the rows is their rank, consecutive matrices multiply to zero, and the reported dimension
is the dimension of `ker / im`.
-/
namespace Yuiv.KhiSpec
open Yuiv Yuiv.KhRef Yuiv.C19 Yuiv.C06Cycle Yuiv.C19Inv Yuiv.C19Comm Matrix

/-- the cone generators of degree `i` (`#[]` outside `0..n+1`) -/
def cgens (ic : ICube) (i : Nat) : Array IGen := (coneGens ic.cube (kgensOf ic.cube))[i]!

/-- THE MATRIX OF THE CONE DIFFERENTIAL out of degree `i` over `𝔽₂`: rows = generators of degree `i`, columns = generators
of degree `i + 1`, entry = multiplicity (mod 2) of the column generator in `dI` of the row generator -/
def Dm (ic : ICube) (p : Params) (i : Nat) : Matrix (Fin (cgens ic i).size) (Fin (cgens ic (i + 1)).size) (ZMod 2) :=
  fun a b => (((dI ic p (cgens ic i)[a]).count (cgens ic (i + 1))[b] : Nat) : ZMod 2)

theorem natCast_zmod2 (n : Nat) : ((n : Nat) : ZMod 2) = if n % 2 = 1 then 1 else 0 := by
  rw [← ZMod.natCast_mod]
  rcases Nat.mod_two_eq_zero_or_one n with h | h <;> rw [h] <;> simp

section
variable (ic : ICube) (p : Params) (G : GensOk ic p)
include G

theorem row_closed (i : Nat) (hi : i < (coneGens ic.cube (kgensOf ic.cube)).size) (x : IGen) (hx : x ∈ cgens ic i) :
    (dIm ic p x).toList = dI ic p x ∧ ∀ y ∈ reduce2 (dIm ic p x), y ∈ cgens ic (i + 1) := by
  have e1 : (dIm ic p x).toList = dI ic p x := by rw [dIm_eq ic p i x hx, dIA_toList]
  refine ⟨e1, ?_⟩
  intro y hy
  rw [mem_reduce2, e1] at hy
  apply G.closed i hi x hx y
  apply List.count_pos_iff.1
  omega

/-- the bit rows are the rows of `Dm`, and `rankF2` of them is its rank -/
theorem rankF2_rows (i : Nat) (hi : i < (coneGens ic.cube (kgensOf ic.cube)).size) :
    rankF2 (rowsOf (dIm ic p) (coneGens ic.cube (kgensOf ic.cube)) i) = (Dm ic p i).rank := by
  have hsz : (rowsOf (dIm ic p) (coneGens ic.cube (kgensOf ic.cube)) i).size = (cgens ic i).size := by
    simp [rowsOf, cgens]
  have hbit : ∀ (a : Nat) (ha : a < (cgens ic i).size) (j : Nat),
      ((rowsOf (dIm ic p) (coneGens ic.cube (kgensOf ic.cube)) i)[a]'(by omega)).testBit j = true ↔
        j < (cgens ic (i + 1)).size ∧ (dI ic p (cgens ic i)[a]).count (cgens ic (i + 1))[j]! % 2 = 1 := by
    intro a ha j
    have hx : (cgens ic i)[a] ∈ cgens ic i := Array.getElem_mem ha
    obtain ⟨e1, hcl⟩ := row_closed ic p G i hi _ hx
    have := row_testBit (cgens ic (i + 1)) (G.nodup (i + 1)) (dIm ic p (cgens ic i)[a]) hcl j
    rw [e1] at this
    rw [← this]
    simp only [rowsOf, Array.getElem_map]
    rfl
  rw [KhSnf.rankF2_spec (cgens ic (i + 1)).size]
  · have : KhSnf.bitMat (cgens ic (i + 1)).size (rowsOf (dIm ic p) (coneGens ic.cube (kgensOf ic.cube)) i) =
        (Dm ic p i).submatrix (finCongr hsz) (Equiv.refl _) := by
      funext a b
      simp only [KhSnf.bitMat, Matrix.submatrix_apply, Dm, Equiv.refl_apply, finCongr_apply]
      rw [natCast_zmod2]
      have := hbit a.1 (by have := a.2; omega) b.1
      rw [getElem!_pos _ b.1 b.2] at this
      by_cases h : (List.count (cgens ic (i + 1))[b] (dI ic p (cgens ic i)[(Fin.cast hsz a)])) % 2 = 1
      · rw [if_pos h, if_pos]
        exact this.2 ⟨b.2, h⟩
      · rw [if_neg h, if_neg]
        intro h'
        exact h (this.1 h').2
    rw [this, Matrix.rank_submatrix]
  · intro r hr
    obtain ⟨a, ha, rfl⟩ := List.mem_iff_getElem.1 hr
    have ha' : a < (cgens ic i).size := by simpa [hsz] using ha
    apply Nat.lt_pow_two_of_testBit
    intro j hj
    cases hb : ((rowsOf (dIm ic p) (coneGens ic.cube (kgensOf ic.cube)) i).toList[a]).testBit j with
    | false => rfl
    | true =>
      rw [Array.getElem_toList] at hb
      have := ((hbit a ha' j).1 hb).1
      omega

end

/-! ### consecutive matrices multiply to zero -/

/-- summing a function against the multiplicities of a list inside a duplicate-free array -/
theorem sum_count_arr {R : Type} [CommRing R] (tgt : Array IGen) (hnd : tgt.toList.Nodup) (L : List IGen)
    (hL : ∀ y ∈ L, y ∈ tgt) (w : IGen → R) :
    ∑ k : Fin tgt.size, ((L.count tgt[k] : Nat) : R) * w tgt[k] = (L.map w).sum := by
  induction L with
  | nil => simp
  | cons a L ih =>
    have ih' := ih (fun y hy => hL y (List.mem_cons_of_mem _ hy))
    obtain ⟨k0, hk0, e0⟩ := Array.mem_iff_getElem.1 (hL a (by simp))
    simp only [List.count_cons, Nat.cast_add, add_mul, Finset.sum_add_distrib, ih', List.map_cons, List.sum_cons]
    rw [add_comm]
    congr 1
    rw [Finset.sum_eq_single ⟨k0, hk0⟩]
    · simp [e0]
    · intro b _ hb
      have : (a == tgt[b]) = false := by
        rw [beq_eq_false_iff_ne, ← e0]
        intro e
        apply hb
        apply Fin.ext
        have hb2 : b.1 < tgt.toList.length := by rw [Array.length_toList]; exact b.2
        have hk2 : k0 < tgt.toList.length := by rw [Array.length_toList]; exact hk0
        have := (List.Nodup.getElem_inj_iff hnd (hi := hk2) (hj := hb2)).1
          (by rw [Array.getElem_toList, Array.getElem_toList]; exact e)
        exact this.symm
      rw [this]
      simp
    · intro h; exact absurd (Finset.mem_univ _) h

theorem Dm_mul (ic : ICube) (p : Params) (G : GensOk ic p)
    (hcone : ∀ (i : Nat) (x : IGen), x ∈ cgens ic i → ∀ z, ((dI ic p x).flatMap (dI ic p)).count z % 2 = 0)
    (i : Nat) (hi : i < (coneGens ic.cube (kgensOf ic.cube)).size) : Dm ic p i * Dm ic p (i + 1) = 0 := by
  funext a c
  rw [Matrix.mul_apply, Matrix.zero_apply]
  have hx : (cgens ic i)[a] ∈ cgens ic i := Array.getElem_mem a.2
  have := sum_count_arr (R := ZMod 2) (cgens ic (i + 1)) (G.nodup (i + 1)) (dI ic p (cgens ic i)[a])
    (fun y hy => G.closed i hi _ hx y hy)
    (fun y => (((dI ic p y).count (cgens ic (i + 1 + 1))[c] : Nat) : ZMod 2))
  unfold Dm
  rw [this]
  have e0 : (List.map (fun y => (((dI ic p y).count (cgens ic (i + 1 + 1))[c] : Nat) : ZMod 2)) (dI ic p (cgens ic i)[a])) =
      List.map Nat.cast (List.map (fun y => List.count (cgens ic (i + 1 + 1))[c] (dI ic p y)) (dI ic p (cgens ic i)[a])) := by
    rw [List.map_map]; rfl
  rw [e0, ← Nat.cast_list_sum]
  have e : (List.map (fun y => List.count (cgens ic (i + 1 + 1))[c] (dI ic p y)) (dI ic p (cgens ic i)[a])).sum =
      ((dI ic p (cgens ic i)[a]).flatMap (dI ic p)).count (cgens ic (i + 1 + 1))[c] := by
    rw [List.count_flatMap]
    rfl
  rw [e, natCast_zmod2, if_neg]
  rw [hcone i _ hx]
  decide

/-! ### the reported dimensions -/

theorem rkAt_eq (ic : ICube) (p : Params) (G : GensOk ic p) (i : Nat)
    (hi : i < (coneGens ic.cube (kgensOf ic.cube)).size) :
    rkAt (dIm ic p) (coneGens ic.cube (kgensOf ic.cube)) i = (Dm ic p i).rank := by
  unfold rkAt
  split
  · exact rankF2_rows ic p G i hi
  · rename_i h
    have hz : (cgens ic (i + 1)).size = 0 := by
      unfold cgens
      rw [getElem!_neg (coneGens ic.cube (kgensOf ic.cube)) (i + 1) h]
      rfl
    have := Matrix.rank_le_card_width (Dm ic p i)
    rw [Fintype.card_fin] at this
    omega

/-- the dimension reported by `homo` at position `i` -/
theorem dimAt_eq (ic : ICube) (p : Params) (G : GensOk ic p) (i : Nat)
    (hi : i < (coneGens ic.cube (kgensOf ic.cube)).size) :
    dimAt (dIm ic p) (coneGens ic.cube (kgensOf ic.cube)) i =
      (cgens ic i).size - (Dm ic p i).rank - (if i = 0 then 0 else (Dm ic p (i - 1)).rank) := by
  unfold dimAt
  rw [rkAt_eq ic p G i hi]
  by_cases h0 : i = 0
  · simp [h0, cgens]
  · rw [rkAt_eq ic p G (i - 1) (by omega)]
    simp [h0, cgens]

/-- `ker / im` at an inner position `j + 1`: the reported dimension is the dimension of the homology of
`𝔽₂^{gens j} → 𝔽₂^{gens (j+1)} → 𝔽₂^{gens (j+2)}` -/
theorem homology_dim (ic : ICube) (p : Params) (G : GensOk ic p)
    (hcone : ∀ (i : Nat) (x : IGen), x ∈ cgens ic i → ∀ z, ((dI ic p x).flatMap (dI ic p)).count z % 2 = 0)
    (j : Nat) (hj : j < (coneGens ic.cube (kgensOf ic.cube)).size) :
    Module.finrank (ZMod 2) (C03Uct.Homology (Dm ic p j)ᵀ (Dm ic p (j + 1))ᵀ) =
      (cgens ic (j + 1)).size - (Dm ic p j).rank - (Dm ic p (j + 1)).rank := by
  have : Fact (Nat.Prime 2) := ⟨Nat.prime_two⟩
  have h0 : (Dm ic p (j + 1))ᵀ * (Dm ic p j)ᵀ = 0 := by
    rw [← Matrix.transpose_mul, Dm_mul ic p G hcone j hj, Matrix.transpose_zero]
  rw [C03Uct.finrank_homology _ _ h0, Matrix.rank_transpose, Matrix.rank_transpose]

end Yuiv.KhiSpec
