import Yuiv.Proofs.C07Euc
import Yuiv.Proofs.C07EucTie
/-
C07 — from the generic statement at `intOps` back to the vocabulary of `Props/C07Full.lean` (`Mat`, `HomologySpec`,
`nzCount`, `nonUnitFactors`), so that the ℤ end-to-end theorem can be re-derived from the generic one.
-/
set_option linter.unusedVariables false

namespace Yuiv.C07
open Matrix Yuiv

theorem toG_toM (A : Mat) (r c : Nat) : A.toG.toM (id : Int → Int) C09.intOps.toROps r c = A.toM r c := rfl

theorem nzCountG_int {m n : Nat} (st : C09.St Int m n) : nzCountG C09.intOps st = nzCount st := rfl

/-- the entries of a diagonal list which the checker accepts over ℤ are `≥ 0` -/
theorem shapeL_int_nonneg : ∀ l : List Int, C09.shapeL C09.intOps l = true → ∀ x ∈ l, 0 ≤ x := by
  intro l
  induction l with
  | nil => intro _ x hx; cases hx
  | cons a rest ih =>
    intro h x hx
    unfold C09.shapeL at h
    split at h
    · rename_i hz
      have hx0 : C09.intOps.isZero x = true := by
        rcases List.mem_cons.1 hx with rfl | hx
        · exact hz
        · exact List.all_eq_true.1 h x hx
      have : x = 0 := by simpa [C09.ROps.isZero, C09.intOps] using hx0
      omega
    · simp only [Bool.and_eq_true] at h
      rcases List.mem_cons.1 hx with rfl | hx
      · have h1 : C09.intOps.isNorm x = true := h.1.1
        have : (if x < 0 then (-1 : Int) else 1) = 1 := by
          simpa [C09.EOps.isNorm, C09.ROps.isOne, C09.intOps] using h1
        by_contra hlt
        rw [if_pos (by omega)] at this
        omega
      · exact ih h.2 x hx

theorem nonUnitFactorsG_int {m n : Nat} (st : C09.St Int m n) (h : C09.isSnfShape C09.intOps st.t = true) :
    nonUnitFactorsG C09.intOps st = nonUnitFactors st := by
  unfold nonUnitFactorsG nonUnitFactors
  simp only [C09.isSnfShape, Bool.and_eq_true] at h
  apply List.filter_congr
  intro x hx
  have h0 := shapeL_int_nonneg _ h.2 x hx
  show (!(x == 0) && !(x == 1 || x == -1)) = (x != 0 && x != 1)
  have : (x == -1) = false := by
    rw [beq_eq_false_iff_ne]; omega
  rw [this, Bool.or_false]
  rfl

/-- the generic specification at `(intOps, id)` is the ℤ specification of `Proofs/C07Full.lean` -/
theorem HomologySpecG.to_int {d1 d2 : Mat} {n m k rank : Nat} {tors : List Int} {P Q : Mat}
    (h : HomologySpecG C09.intOps (id : Int → Int) d1.toG d2.toG n m k rank tors P.toG Q.toG) :
    HomologySpec d1 d2 n m k rank tors P Q := by
  refine ⟨h.shP, h.shQ, ?_, h.tors_chain, h.pq, h.cycles, h.bdry, h.gens, h.complete⟩
  intro x hx
  obtain ⟨h1, h2, h3⟩ := h.tors_nonunit x hx
  simp only [id] at h1 h2 h3
  have h3' : (if x < 0 then (-1 : Int) else 1) = 1 := h3
  have hx0 : ¬ x < 0 := by
    intro hlt; rw [if_pos hlt] at h3'; omega
  have hx1 : x ≠ 1 := by
    intro h'; exact h2 (h' ▸ isUnit_one)
  omega

/-- reading an `ok` answer of the generic code at `intOps` back through the tie -/
theorem calculate_of_calculateG_int {fuel : Nat} {d1 d2 : Mat} {rank : Nat} {tors : List Int} {T : GTrans Int}
    (h : calculateG C09.intOps (snfC09G C09.intOps fuel) d1.toG d2.toG true = .ok (rank, tors, some T)) :
    ∃ T' : Trans, T'.toG = T ∧ calculate (snfC09 fuel) d1 d2 true = .ok (rank, tors, some T') := by
  rw [calculateG_snfC09_int] at h
  cases hc : calculate (snfC09 fuel) d1 d2 true with
  | panic => rw [hc] at h; cases h
  | err => rw [hc] at h; cases h
  | ok x =>
    rw [hc] at h
    obtain ⟨r, t, oT⟩ := x
    simp only [Res.mapR_ok, ansToG, Res.ok.injEq, Prod.mk.injEq] at h
    obtain ⟨rfl, rfl, h3⟩ := h
    cases oT with
    | none => cases h3
    | some T' =>
      simp only [Option.map_some, Option.some.injEq] at h3
      exact ⟨T', h3, rfl⟩

theorem mapR_toG_ok {x : Res Mat} {P : GMat Int} (h : Res.mapR Mat.toG x = .ok P) : x = .ok P.toZ := by
  cases x with
  | ok a =>
    simp only [Res.mapR_ok, Res.ok.injEq] at h
    subst h; rfl
  | panic => cases h
  | err => cases h

end Yuiv.C07
