import Yuiv.Proofs.C09Shape2
/-
C09 — termination of the loops of the code model of `SnfCalc` over ℤ (`snf_terminates`):
 * `eliminate_at`: `|pivot|` strictly decreases whenever a further iteration is needed  (fuel ≥ |pivot| + 2);
 * `diag_normalize`'s `'outer` loop: the sum of the prefix products `Σ_k Π_{l<k} |d_l|` strictly decreases
   with every pass that does not go through  (fuel ≥ that sum + 1);
 * `eliminate_all` is a `for` loop; the fuel only reaches `eliminate_at`;
 * fuel monotonicity, and the composition: for every input there is a fuel bound from which on the code model
   never reports fuel exhaustion.
-/
namespace Yuiv.C09
open Yuiv
variable {m n : Nat} {α : Type}

/-! ### the `for` loops and the primitives never report fuel exhaustion -/

theorem foldlM_ne_err {σ β : Type} (f : σ → β → Res σ) (hf : ∀ s x, f s x ≠ .err) :
    ∀ (l : List β) (s : σ), l.foldlM f s ≠ .err
  | [], s => by simp
  | x :: l, s => by
    rw [List.foldlM_cons]
    cases h : f s x with
    | ok y => exact foldlM_ne_err f hf l y
    | panic => simp
    | err => exact absurd h (hf s x)

theorem sLeft_ne_err {α : Type} (o : ROps α) (dbg : Bool) (s : St α m n) (a b c d : α) (i j : Fin m) :
    sLeft o dbg s a b c d i j ≠ .err := by
  unfold sLeft; split <;> simp

theorem sRight_ne_err {α : Type} (o : ROps α) (dbg : Bool) (s : St α m n) (a b c d : α) (i j : Fin n) :
    sRight o dbg s a b c d i j ≠ .err := by
  unfold sRight; split <;> simp

theorem eliminateColStep_ne_err {α : Type} (e : EOps α) (dbg : Bool) (i : Fin m) (jc : Fin n)
    (sm : St α m n × Bool) (i1 : Fin m) : eliminateColStep e dbg i jc sm i1 ≠ .err := by
  unfold eliminateColStep
  simp only
  split
  · simp
  · split
    · simp
    · simp
    · rename_i h; exact absurd h (sLeft_ne_err _ _ _ _ _ _ _ _ _)

theorem eliminateRowStep_ne_err {α : Type} (e : EOps α) (dbg : Bool) (i : Fin m) (jc : Fin n)
    (sm : St α m n × Bool) (j1 : Fin n) : eliminateRowStep e dbg i jc sm j1 ≠ .err := by
  unfold eliminateRowStep
  simp only
  split
  · simp
  · split
    · simp
    · simp
    · rename_i h; exact absurd h (sRight_ne_err _ _ _ _ _ _ _ _ _)

theorem eliminateCol_ne_err {α : Type} (e : EOps α) (dbg : Bool) (s : St α m n) (i : Fin m) (jc : Fin n) :
    eliminateCol e dbg s i jc ≠ .err :=
  foldlM_ne_err _ (eliminateColStep_ne_err e dbg i jc) _ _

theorem eliminateRow_ne_err {α : Type} (e : EOps α) (dbg : Bool) (s : St α m n) (i : Fin m) (jc : Fin n) :
    eliminateRow e dbg s i jc ≠ .err :=
  foldlM_ne_err _ (eliminateRowStep_ne_err e dbg i jc) _ _

/-! ### `eliminate_at` terminates: `|pivot|` is a strictly decreasing measure -/

/-- on an isolated pivot the `while` condition is false -/
theorem eliminateAt_clean (dbg : Bool) (i : Fin m) (jc : Fin n) (fuel : Nat) (s : St Int m n)
    (hp : s.t.get i jc ≠ 0) (hrow : ∀ c, c ≠ jc → s.t.get i c = 0) (hcol : ∀ r, r ≠ i → s.t.get r jc = 0) :
    eliminateAt intOps dbg i jc (fuel + 1) s = .ok s := by
  rw [eliminateAt]
  have h1 := (rowNz_le_one_iff s.t i jc hp).2 hrow
  have h2 := (colNz_le_one_iff s.t i jc hp).2 hcol
  rw [if_neg]
  simp only [Bool.or_eq_true, decide_eq_true_eq, not_or, Nat.not_lt]
  exact ⟨h1, h2⟩

/-- **eliminateAt_fuel_ok** — with `fuel ≥ |pivot| + 2` the `while` loop of `eliminate_at` never runs out of
fuel: an iteration either leaves an isolated pivot (the next test exits) or strictly decreases `|pivot|` -/
theorem eliminateAt_fuel_ok (dbg : Bool) (i : Fin m) (jc : Fin n) : ∀ (fuel : Nat) (s : St Int m n),
    s.t.get i jc ≠ 0 → (s.t.get i jc).natAbs + 2 ≤ fuel → eliminateAt intOps dbg i jc fuel s ≠ .err := by
  intro fuel
  induction fuel with
  | zero => intro s _ h; omega
  | succ fuel ih =>
    intro s hp hf h
    rw [eliminateAt] at h
    split at h
    · split at h
      · rename_i r1 h1
        obtain ⟨_, c2, c3, c4⟩ := eliminateCol_post (frameOK_true i jc) dbg s r1 h1 trivial hp
        split at h
        · rename_i r2 h2
          obtain ⟨_, d2, d3, d4, d5⟩ := eliminateRow_post (frameOK_true i jc) dbg r1.1 r2 h2 trivial c2 c4
          split at h
          · cases h
          · have hle1 : |r1.1.t.get i jc| ≤ |s.t.get i jc| :=
              Int.le_of_dvd (abs_pos.2 hp) ((abs_dvd_abs _ _).2 c3)
            rcases d5 with d5 | d5
            · obtain ⟨f', hf'⟩ : ∃ f', fuel = f' + 1 := ⟨fuel - 1, by omega⟩
              rw [hf', eliminateAt_clean dbg i jc f' r2.1 d2 d4 d5] at h
              cases h
            · refine ih r2.1 d2 ?_ h
              rw [Int.abs_eq_natAbs, Int.abs_eq_natAbs] at d5 hle1
              omega
        · cases h
        · rename_i h2; exact eliminateRow_ne_err _ _ _ _ _ h2
      · cases h
      · rename_i h1; exact eliminateCol_ne_err _ _ _ _ _ h1
    · cases h

/-! ### `diag_normalize` terminates: the sum of the prefix products of `|d_k|` is a decreasing measure -/

/-- `Π_{l<k} f l` -/
def prefProd (f : Nat → Nat) : Nat → Nat
  | 0 => 1
  | k + 1 => prefProd f k * f k

/-- `Σ_{j<k} Π_{l<j} f l` -/
def sumPref (f : Nat → Nat) : Nat → Nat
  | 0 => 0
  | k + 1 => sumPref f k + prefProd f k

theorem prefProd_congr (f g : Nat → Nat) : ∀ k, (∀ l, l < k → f l = g l) → prefProd f k = prefProd g k
  | 0, _ => rfl
  | k + 1, h => by
    rw [prefProd, prefProd, prefProd_congr f g k (fun l hl => h l (by omega)), h k (by omega)]

theorem prefProd_pos (f : Nat → Nat) : ∀ k, (∀ l, l < k → 0 < f l) → 0 < prefProd f k
  | 0, _ => Nat.one_pos
  | k + 1, h => by
    rw [prefProd]
    exact Nat.mul_pos (prefProd_pos f k (fun l hl => h l (by omega))) (h k (by omega))

theorem sumPref_mono (f g : Nat → Nat) : ∀ K, (∀ k, k < K → prefProd f k ≤ prefProd g k) →
    sumPref f K ≤ sumPref g K ∧ (∀ k0, k0 < K → prefProd f k0 < prefProd g k0 → sumPref f K < sumPref g K)
  | 0, _ => ⟨Nat.le_refl _, fun k0 h => absurd h (Nat.not_lt_zero _)⟩
  | K + 1, h => by
    obtain ⟨h1, h2⟩ := sumPref_mono f g K (fun k hk => h k (by omega))
    have hK := h K (by omega)
    refine ⟨by rw [sumPref, sumPref]; omega, ?_⟩
    intro k0 hk0 hlt
    rw [sumPref, sumPref]
    by_cases e : k0 = K
    · subst e; omega
    · have := h2 k0 (by omega) hlt
      omega

/-- replacing `(f i, f (i+1))` by a pair with the same product and a strictly smaller first component strictly
decreases the sum of the prefix products (all `f l`, `l < i`, positive) -/
theorem sumPref_step (f g : Nat → Nat) (i K : Nat) (hK : i + 2 ≤ K) (hother : ∀ l, l ≠ i → l ≠ i + 1 → g l = f l)
    (hlt : g i < f i) (hprod : g i * g (i + 1) = f i * f (i + 1)) (hpos : ∀ l, l < i → 0 < f l) :
    sumPref g K < sumPref f K := by
  have e1 : ∀ k, k ≤ i → prefProd g k = prefProd f k := fun k hk =>
    prefProd_congr g f k (fun l hl => hother l (by omega) (by omega))
  have e2 : prefProd g (i + 1) < prefProd f (i + 1) := by
    rw [prefProd, prefProd, e1 i (Nat.le_refl _)]
    exact Nat.mul_lt_mul_of_pos_left hlt (prefProd_pos f i hpos)
  have e3 : ∀ k, i + 2 ≤ k → prefProd g k = prefProd f k := by
    intro k hk
    induction k with
    | zero => omega
    | succ k ih =>
      by_cases e : k = i + 1
      · subst e
        rw [prefProd, prefProd, prefProd, prefProd, e1 i (Nat.le_refl _), Nat.mul_assoc, Nat.mul_assoc, hprod]
      · rw [prefProd, prefProd, ih (by omega), hother k (by omega) (by omega)]
  refine (sumPref_mono g f K ?_).2 (i + 1) (by omega) e2
  intro k _
  by_cases h1 : k ≤ i
  · exact Nat.le_of_eq (e1 k h1)
  · by_cases h2 : k = i + 1
    · rw [h2]; exact Nat.le_of_lt e2
    · exact Nat.le_of_eq (e3 k (by omega))

/-- the measure of `diag_normalize`'s `'outer` loop -/
def diagMeasure (r : Nat) (T : Mat Int m n) : Nat := sumPref (fun l => (dgz T l).natAbs) r

theorem diagPass_ne_err_of {α : Type} {e : EOps α} (dbg : Bool) (r : Nat)
    (hstep : ∀ (s : St α m n) i hm hn, diagNormalizeStep e dbg s i hm hn ≠ .err) :
    ∀ (cnt i : Nat) (s : St α m n), diagPass e dbg r cnt i s ≠ .err := by
  intro cnt
  induction cnt with
  | zero => intro i s; rw [diagPass]; simp
  | succ cnt ih =>
    intro i s
    rw [diagPass]
    split
    · split
      · split
        · exact ih _ _
        · simp
      · simp
      · rename_i h; exact absurd h (hstep _ _ _ _)
    · simp

theorem diagNormalizeStep_ne_err {α : Type} (e : EOps α) (dbg : Bool) (s : St α m n) (i : Nat) (hm : i + 1 < m)
    (hn : i + 1 < n) : diagNormalizeStep e dbg s i hm hn ≠ .err := by
  unfold diagNormalizeStep
  simp only
  split
  · simp
  · split
    · simp
    · split
      · simp
      · split
        · split
          · simp
          · simp
          · rename_i h; exact absurd h (sRight_ne_err _ _ _ _ _ _ _ _ _)
        · simp
        · rename_i h; exact absurd h (sLeft_ne_err _ _ _ _ _ _ _ _ _)

/-- **diagOuter_fuel_ok** — on a diagonal matrix whose first `r` diagonal entries are non-zero, with
`fuel ≥ Σ_{k<r} Π_{l<k} |d_l| + 1` the `'outer` loop of `diag_normalize` never runs out of fuel -/
theorem diagOuter_fuel_ok (dbg : Bool) (r : Nat) : ∀ (fuel : Nat) (s : St Int m n), DiagZ s.t →
    (∀ k, k < r → dgz s.t k ≠ 0) → diagMeasure r s.t + 1 ≤ fuel → diagOuter intOps dbg r fuel s ≠ .err := by
  intro fuel
  induction fuel with
  | zero => intro s _ _ h; omega
  | succ fuel ih =>
    intro s hD hnz hf h
    rw [diagOuter] at h
    split at h
    · rename_i r1 h1
      rcases diagPass_spec dbg r r 0 s r1 h1 with rfl | ⟨i0, hm, hn, hir, hb, hstep⟩
      · simp at h
      · rw [if_neg (by simp [hb])] at h
        obtain ⟨d1, d2, _, _, d5, d6, d7⟩ := diagStep_dg dbg s i0 hm hn r1 hstep hD
        obtain ⟨d7a, d7b⟩ := d7 hb
        have hnz1 : ∀ k, k < r → dgz r1.1.t k ≠ 0 := by
          intro k hk
          by_cases e1 : k = i0
          · rw [e1]; exact d5
          · by_cases e2 : k = i0 + 1
            · rw [e2]; exact d6
            · rw [d2 k e1 e2]; exact hnz k hk
        refine ih r1.1 d1 hnz1 ?_ h
        have hlt : diagMeasure r r1.1.t < diagMeasure r s.t := by
          unfold diagMeasure
          apply sumPref_step _ _ i0 r (by omega)
          · intro l h1 h2; rw [d2 l h1 h2]
          · rw [Int.abs_eq_natAbs, Int.abs_eq_natAbs] at d7a
            exact_mod_cast d7a
          · rw [Int.abs_eq_natAbs, Int.abs_eq_natAbs, Int.abs_eq_natAbs, Int.abs_eq_natAbs] at d7b
            exact_mod_cast d7b
          · intro l hl
            have := hnz l (by omega)
            omega
        omega
    · cases h
    · rename_i h1
      exact diagPass_ne_err_of dbg r (diagNormalizeStep_ne_err intOps dbg) _ _ _ h1

/-! ### fuel monotonicity: more fuel does not change a result other than fuel exhaustion -/

theorem eliminateAt_mono (e : EOps α) (dbg : Bool) (i : Fin m) (jc : Fin n) : ∀ (fuel : Nat) (s : St α m n),
    eliminateAt e dbg i jc fuel s ≠ .err → ∀ fuel', fuel ≤ fuel' →
      eliminateAt e dbg i jc fuel' s = eliminateAt e dbg i jc fuel s := by
  intro fuel
  induction fuel with
  | zero => intro s h; simp [eliminateAt] at h
  | succ fuel ih =>
    intro s h fuel' hle
    obtain ⟨f', rfl⟩ : ∃ f', fuel' = f' + 1 := ⟨fuel' - 1, by omega⟩
    rw [eliminateAt] at h
    rw [eliminateAt, eliminateAt]
    split
    · rename_i hc
      rw [if_pos hc] at h
      split
      · split
        · split
          · rfl
          · rename_i r1 h1 _ r2 h2 hb
            rw [h1] at h; simp only at h
            rw [h2] at h; simp only at h
            rw [if_neg hb] at h
            exact ih _ h _ (by omega)
        · rfl
        · rfl
      · rfl
      · rfl
    · rfl


theorem sMulCol_ne_err (e : EOps α) (s : St α m n) (j : Fin n) (u : α) : sMulCol e s j u ≠ .err := by
  unfold sMulCol; split <;> simp

theorem sMulRow_ne_err (e : EOps α) (s : St α m n) (i : Fin m) (u : α) : sMulRow e s i u ≠ .err := by
  unfold sMulRow; split <;> simp

theorem eliminateStep_mono (e : EOps α) (dbg : Bool) (s : St α m n) (i : Fin m) (j : Fin n) (hi : i.1 < n)
    (fuel : Nat) (h : eliminateStep e dbg fuel s i j hi ≠ .err) (fuel' : Nat) (hle : fuel ≤ fuel') :
    eliminateStep e dbg fuel' s i j hi = eliminateStep e dbg fuel s i j hi := by
  unfold eliminateStep at h ⊢
  split
  · rfl
  · rename_i ip hsel
    rw [hsel] at h
    simp only at h ⊢
    split
    · split
      · rfl
      · rename_i s2 h2 hz
        rw [h2] at h; simp only at h
        rw [if_neg hz] at h
        have hne : eliminateAt e dbg i ⟨i.1, hi⟩ fuel s2 ≠ .err := by
          intro hh; rw [hh] at h; exact h rfl
        rw [eliminateAt_mono e dbg i ⟨i.1, hi⟩ fuel s2 hne fuel' hle]
    · rfl
    · rfl

theorem eliminateAllStep_mono (e : EOps α) (dbg : Bool) (fuel : Nat) (si : St α m n × Nat) (j : Fin n)
    (h : eliminateAllStep e dbg fuel si j ≠ .err) (fuel' : Nat) (hle : fuel ≤ fuel') :
    eliminateAllStep e dbg fuel' si j = eliminateAllStep e dbg fuel si j := by
  unfold eliminateAllStep at h ⊢
  split
  · rename_i hc
    rw [dif_pos hc] at h
    have hne : eliminateStep e dbg fuel si.1 ⟨si.2, hc.1⟩ j (Nat.lt_of_le_of_lt hc.2 j.2) ≠ .err := by
      intro hh; rw [hh] at h; exact h rfl
    rw [eliminateStep_mono e dbg si.1 ⟨si.2, hc.1⟩ j _ fuel hne fuel' hle]
  · rfl

theorem foldlM_fuel_mono {σ β : Type} (f : Nat → σ → β → Res σ)
    (hmono : ∀ fuel s x, f fuel s x ≠ .err → ∀ fuel', fuel ≤ fuel' → f fuel' s x = f fuel s x) :
    ∀ (l : List β) (fuel : Nat) (s : σ), l.foldlM (f fuel) s ≠ .err → ∀ fuel', fuel ≤ fuel' →
      l.foldlM (f fuel') s = l.foldlM (f fuel) s
  | [], _, _, _, _, _ => rfl
  | x :: l, fuel, s, h, fuel', hle => by
    rw [List.foldlM_cons] at h ⊢
    rw [List.foldlM_cons]
    cases hx : f fuel s x with
    | ok y =>
      rw [hx] at h
      rw [hmono fuel s x (by rw [hx]; simp) fuel' hle, hx]
      exact foldlM_fuel_mono f hmono l fuel y h fuel' hle
    | panic => rw [hmono fuel s x (by rw [hx]; simp) fuel' hle, hx]; rfl
    | err => rw [hx] at h; exact absurd rfl h

theorem eliminateAll_mono (e : EOps α) (dbg : Bool) (fuel : Nat) (s : St α m n)
    (h : eliminateAll e dbg fuel s ≠ .err) (fuel' : Nat) (hle : fuel ≤ fuel') :
    eliminateAll e dbg fuel' s = eliminateAll e dbg fuel s := by
  unfold eliminateAll at h ⊢
  have hne : (List.finRange n).foldlM (eliminateAllStep e dbg fuel) (s, 0) ≠ .err := by
    intro hh; rw [hh] at h; exact h rfl
  rw [foldlM_fuel_mono (fun fuel => eliminateAllStep e dbg fuel)
    (fun fuel si j hh fuel' hle => eliminateAllStep_mono e dbg fuel si j hh fuel' hle) _ fuel (s, 0) hne fuel' hle]

theorem diagOuter_mono (e : EOps α) (dbg : Bool) (r : Nat) : ∀ (fuel : Nat) (s : St α m n),
    diagOuter e dbg r fuel s ≠ .err → ∀ fuel', fuel ≤ fuel' → diagOuter e dbg r fuel' s = diagOuter e dbg r fuel s := by
  intro fuel
  induction fuel with
  | zero => intro s h; simp [diagOuter] at h
  | succ fuel ih =>
    intro s h fuel' hle
    obtain ⟨f', rfl⟩ : ∃ f', fuel' = f' + 1 := ⟨fuel' - 1, by omega⟩
    rw [diagOuter] at h
    rw [diagOuter, diagOuter]
    split
    · split
      · rfl
      · rename_i r1 h1 hb
        rw [h1] at h; simp only at h
        rw [if_neg hb] at h
        exact ih _ h _ (by omega)
    · rfl
    · rfl

theorem diagNormalize_mono (e : EOps α) (dbg : Bool) (fuel : Nat) (s : St α m n)
    (h : diagNormalize e dbg fuel s ≠ .err) (fuel' : Nat) (hle : fuel ≤ fuel') :
    diagNormalize e dbg fuel' s = diagNormalize e dbg fuel s := by
  unfold diagNormalize at h ⊢
  split
  · rfl
  · rename_i hc
    rw [if_neg hc] at h
    split
    · rfl
    · rename_i hz
      rw [if_neg hz] at h
      have hne : diagOuter e dbg (firstZeroDiag e s.t) fuel s ≠ .err := by
        intro hh; rw [hh] at h; exact h rfl
      rw [diagOuter_mono e dbg _ fuel s hne fuel' hle]

theorem snfCalc_mono (e : EOps α) (dbg : Bool) (pre : St α m n → Res (St α m n)) (fuel : Nat) (A : Mat α m n)
    (h : snfCalc e dbg pre fuel A ≠ .err) (fuel' : Nat) (hle : fuel ≤ fuel') :
    snfCalc e dbg pre fuel' A = snfCalc e dbg pre fuel A := by
  unfold snfCalc at h ⊢
  split
  · rfl
  · rename_i hz
    rw [if_neg hz] at h
    split
    · rename_i s1 h1
      rw [h1] at h; simp only at h
      have hne : eliminateAll e dbg fuel s1 ≠ .err := by
        intro hh; rw [hh] at h; exact h rfl
      rw [eliminateAll_mono e dbg fuel s1 hne fuel' hle]
      split
      · rename_i s2 h2
        rw [h2] at h; simp only at h
        exact diagNormalize_mono e dbg fuel s2 h fuel' hle
      · rfl
      · rfl
    · rfl
    · rfl

/-! ### composition: a fuel bound exists for every input -/

/-- a `for` loop whose body is fuel-monotone and has a fuel bound for every state has a fuel bound itself -/
theorem foldlM_exists_fuel {σ β : Type} (f : Nat → σ → β → Res σ)
    (hmono : ∀ fuel s x, f fuel s x ≠ .err → ∀ fuel', fuel ≤ fuel' → f fuel' s x = f fuel s x)
    (hex : ∀ s x, ∃ N, ∀ fuel, N ≤ fuel → f fuel s x ≠ .err) :
    ∀ (l : List β) (s : σ), ∃ N, ∀ fuel, N ≤ fuel → l.foldlM (f fuel) s ≠ .err
  | [], s => ⟨0, fun fuel _ => by simp⟩
  | x :: l, s => by
    obtain ⟨N1, h1⟩ := hex s x
    have h1' := h1 N1 (Nat.le_refl _)
    cases hx : f N1 s x with
    | ok y =>
      obtain ⟨N2, h2⟩ := foldlM_exists_fuel f hmono hex l y
      refine ⟨max N1 N2, fun fuel hf => ?_⟩
      rw [List.foldlM_cons, hmono N1 s x h1' fuel (by omega), hx]
      exact h2 fuel (by omega)
    | panic =>
      refine ⟨N1, fun fuel hf => ?_⟩
      rw [List.foldlM_cons, hmono N1 s x h1' fuel hf, hx]
      simp
    | err => exact absurd hx h1'

/-- `eliminate_step`: the fuel only reaches `eliminate_at`, on a pivot that has been checked to be non-zero -/
theorem eliminateStep_exists_fuel (dbg : Bool) (s : St Int m n) (i : Fin m) (j : Fin n) (hi : i.1 < n) :
    ∃ N, ∀ fuel, N ≤ fuel → eliminateStep intOps dbg fuel s i j hi ≠ .err := by
  unfold eliminateStep
  split
  · exact ⟨0, fun _ _ => by simp⟩
  · rename_i ip _
    simp only
    split
    · rename_i s2 _
      split
      · exact ⟨0, fun _ _ => by simp⟩
      · rename_i hz
        have hpz : s2.t.get i ⟨i.1, hi⟩ ≠ 0 := by simpa using hz
        refine ⟨(s2.t.get i ⟨i.1, hi⟩).natAbs + 2, fun fuel hf => ?_⟩
        have := eliminateAt_fuel_ok dbg i ⟨i.1, hi⟩ fuel s2 hpz hf
        split
        · simp
        · simp
        · rename_i h; exact absurd h this
    · exact ⟨0, fun _ _ => by simp⟩
    · rename_i h
      exfalso
      split at h
      · exact sMulCol_ne_err _ _ _ _ h
      · cases h

theorem eliminateAllStep_exists_fuel (dbg : Bool) (si : St Int m n × Nat) (j : Fin n) :
    ∃ N, ∀ fuel, N ≤ fuel → eliminateAllStep intOps dbg fuel si j ≠ .err := by
  unfold eliminateAllStep
  split
  · rename_i hc
    obtain ⟨N, hN⟩ := eliminateStep_exists_fuel dbg si.1 ⟨si.2, hc.1⟩ j (Nat.lt_of_le_of_lt hc.2 j.2)
    refine ⟨N, fun fuel hf => ?_⟩
    have := hN fuel hf
    split
    · simp
    · simp
    · simp
    · rename_i h; exact absurd h this
  · exact ⟨0, fun _ _ => by simp⟩

/-- **eliminateAll fuel bound** — `eliminate_all` is a `for` loop over the columns; for every start state there is
a fuel bound (the maximum of `|pivot| + 2` over the pivots met) from which on it never reports exhaustion -/
theorem eliminateAll_exists_fuel (dbg : Bool) (s : St Int m n) :
    ∃ N, ∀ fuel, N ≤ fuel → eliminateAll intOps dbg fuel s ≠ .err := by
  obtain ⟨N, hN⟩ := foldlM_exists_fuel (fun fuel => eliminateAllStep intOps dbg fuel)
    (fun fuel si j hh fuel' hle => eliminateAllStep_mono intOps dbg fuel si j hh fuel' hle)
    (fun si j => eliminateAllStep_exists_fuel dbg si j) (List.finRange n) (s, 0)
  refine ⟨N, fun fuel hf => ?_⟩
  have := hN fuel hf
  unfold eliminateAll
  split
  · simp
  · simp
  · rename_i h; exact absurd h this

theorem normalizeStep_ne_err {α : Type} (e : EOps α) (s : St α m n) (k : Nat) : normalizeStep e s k ≠ .err := by
  unfold normalizeStep
  split
  · simp only
    split
    · exact sMulRow_ne_err _ _ _ _
    · simp
  · simp

/-- **diagNormalize_fuel_ok** — on a diagonal matrix, with `fuel ≥ Σ_{k<r} Π_{l<k} |d_l| + 1`
(`r` = number of leading non-zero diagonal entries) `diag_normalize` never reports exhaustion -/
theorem diagNormalize_fuel_ok (dbg : Bool) (fuel : Nat) (s : St Int m n) (hD : DiagZ s.t)
    (hf : diagMeasure (firstZeroDiag intOps s.t) s.t + 1 ≤ fuel) : diagNormalize intOps dbg fuel s ≠ .err := by
  obtain ⟨_, z2, _⟩ := firstZeroDiag_spec s.t
  have := diagOuter_fuel_ok dbg _ fuel s hD z2 hf
  unfold diagNormalize
  split
  · simp
  · split
    · simp
    · split
      · exact foldlM_ne_err _ (normalizeStep_ne_err intOps) _ _
      · simp
      · rename_i h; exact absurd h this

/-- **snf_terminates over ℤ** — for every matrix (and every preprocessing that itself does not report an error)
there is a fuel bound from which on the code model of `SnfCalc::process` never reports fuel exhaustion -/
theorem snfCalc_exists_fuel (dbg : Bool) (pre : St Int m n → Res (St Int m n)) (A : Mat Int m n)
    (hpre : pre (St.init intOps.toROps A) ≠ .err) :
    ∃ N, ∀ fuel, N ≤ fuel → snfCalc intOps dbg pre fuel A ≠ .err := by
  unfold snfCalc
  split
  · exact ⟨0, fun _ _ => by simp⟩
  · split
    · rename_i s1 h1
      obtain ⟨N1, hN1⟩ := eliminateAll_exists_fuel dbg s1
      have h1' := hN1 N1 (Nat.le_refl _)
      cases h2 : eliminateAll intOps dbg N1 s1 with
      | ok s2 =>
        obtain ⟨hD, _⟩ := eliminateAll_post dbg N1 s1 s2 h2
        refine ⟨max N1 (diagMeasure (firstZeroDiag intOps s2.t) s2.t + 1), fun fuel hf => ?_⟩
        rw [eliminateAll_mono intOps dbg N1 s1 h1' fuel (by omega), h2]
        exact diagNormalize_fuel_ok dbg fuel s2 hD (by omega)
      | panic =>
        refine ⟨N1, fun fuel hf => ?_⟩
        rw [eliminateAll_mono intOps dbg N1 s1 h1' fuel hf, h2]
        simp
      | err => exact absurd h2 h1'
    · exact ⟨0, fun _ _ => by simp⟩
    · rename_i h; exact absurd h hpre

/-! ### over ℤ the code model never panics (so, with enough fuel, it returns) -/

theorem foldlM_total {σ β : Type} (f : σ → β → Res σ) (P : σ → Prop)
    (hstep : ∀ s x, P s → ∃ s', f s x = .ok s' ∧ P s') :
    ∀ (l : List β) (s : σ), P s → ∃ s', l.foldlM f s = .ok s' ∧ P s'
  | [], s, hp => ⟨s, rfl, hp⟩
  | x :: l, s, hp => by
    obtain ⟨y, hy, hpy⟩ := hstep s x hp
    rw [List.foldlM_cons, hy]
    exact foldlM_total f P hstep l y hpy

theorem foldlM_ne_panic {σ β : Type} (f : σ → β → Res σ) (hf : ∀ s x, f s x ≠ .panic) :
    ∀ (l : List β) (s : σ), l.foldlM f s ≠ .panic
  | [], s => by simp
  | x :: l, s => by
    rw [List.foldlM_cons]
    cases h : f s x with
    | ok y => exact foldlM_ne_panic f hf l y
    | panic => exact absurd h (hf s x)
    | err => simp

/-- the `debug_assert!((a*d - b*c).is_one())` of `left/right_elementary` holds for the matrices built from the
wrapper's coefficients on a non-zero pivot -/
theorem det_ok (x y : Int) (hx : x ≠ 0) :
    detIsOne intOps.toROps (gcdxW intOps x y).2.1 (gcdxW intOps x y).2.2
      (intOps.toROps.neg (intOps.quo y (gcdxW intOps x y).1)) (intOps.quo x (gcdxW intOps x y).1) = true := by
  obtain ⟨_, _, _, g4, _⟩ := gcdxW_int_data x y hx
  rw [detIsOne_iff lawful_int]
  simp only [id, int_neg]
  linarith

theorem colStep_total (dbg : Bool) (i : Fin m) (jc : Fin n) (sm : St Int m n × Bool) (i1 : Fin m)
    (hp : sm.1.t.get i jc ≠ 0) :
    ∃ sm', eliminateColStep intOps dbg i jc sm i1 = .ok sm' ∧ sm'.1.t.get i jc ≠ 0 := by
  have key : ∃ sm', eliminateColStep intOps dbg i jc sm i1 = .ok sm' := by
    unfold eliminateColStep
    simp only
    split
    · exact ⟨_, rfl⟩
    · unfold sLeft
      rw [det_ok _ _ hp]
      simp
  obtain ⟨sm', h⟩ := key
  refine ⟨sm', h, ?_⟩
  rcases colStep_ok dbg i jc sm sm' i1 h hp with ⟨rfl, _⟩ | ⟨hne, _, _, s', t', a, b, d, hd, hx, hy', hbez, _, hT⟩
  · exact hp
  · have hpiv : sm'.1.t.get i jc = d := by
      rw [hT, leftElem_get, if_neg hne, if_pos rfl, hx, hy']
      linear_combination d * hbez
    rw [hpiv]; omega

theorem rowStep_total (dbg : Bool) (i : Fin m) (jc : Fin n) (sm : St Int m n × Bool) (j1 : Fin n)
    (hp : sm.1.t.get i jc ≠ 0) :
    ∃ sm', eliminateRowStep intOps dbg i jc sm j1 = .ok sm' ∧ sm'.1.t.get i jc ≠ 0 := by
  have key : ∃ sm', eliminateRowStep intOps dbg i jc sm j1 = .ok sm' := by
    unfold eliminateRowStep
    simp only
    split
    · exact ⟨_, rfl⟩
    · unfold sRight
      rw [det_ok _ _ hp]
      simp
  obtain ⟨sm', h⟩ := key
  refine ⟨sm', h, ?_⟩
  rcases rowStep_ok dbg i jc sm sm' j1 h hp with ⟨rfl, _⟩ | ⟨hne, _, _, s', t', a, b, d, hd, hx, hy', hbez, _, hT⟩
  · exact hp
  · have hpiv : sm'.1.t.get i jc = d := by
      rw [hT, rightElem_get, if_neg hne, if_pos rfl, hx, hy']
      linear_combination d * hbez
    rw [hpiv]; omega

theorem eliminateCol_total (dbg : Bool) (s : St Int m n) (i : Fin m) (jc : Fin n) (hp : s.t.get i jc ≠ 0) :
    ∃ r, eliminateCol intOps dbg s i jc = .ok r := by
  obtain ⟨r, h, _⟩ := foldlM_total (eliminateColStep intOps dbg i jc) (fun sm => sm.1.t.get i jc ≠ 0)
    (fun sm i1 hsm => colStep_total dbg i jc sm i1 hsm) (List.finRange m) (s, false) hp
  exact ⟨r, h⟩

theorem eliminateRow_total (dbg : Bool) (s : St Int m n) (i : Fin m) (jc : Fin n) (hp : s.t.get i jc ≠ 0) :
    ∃ r, eliminateRow intOps dbg s i jc = .ok r := by
  obtain ⟨r, h, _⟩ := foldlM_total (eliminateRowStep intOps dbg i jc) (fun sm => sm.1.t.get i jc ≠ 0)
    (fun sm j1 hsm => rowStep_total dbg i jc sm j1 hsm) (List.finRange n) (s, false) hp
  exact ⟨r, h⟩

/-- `modified == false` after `eliminate_col` means: nothing was done because the column was already clear -/
theorem eliminateCol_flag {α : Type} (e : EOps α) (dbg : Bool) (s : St α m n) (i : Fin m) (jc : Fin n)
    (r : St α m n × Bool) (h : eliminateCol e dbg s i jc = .ok r) (hfl : r.2 = false) :
    r.1 = s ∧ ∀ r', r' ≠ i → e.isZero (s.t.get r' jc) = true := by
  unfold eliminateCol at h
  have key := foldlM_prefix (σ := St α m n × Bool) (β := Fin m) (eliminateColStep e dbg i jc)
    (fun pre sm => sm.2 = false → sm.1 = s ∧ ∀ r' ∈ pre, r' ≠ i → e.isZero (s.t.get r' jc) = true) ?_
    (List.finRange m) [] (s, false) r (fun _ => ⟨rfl, by simp⟩) h
  · obtain ⟨k1, k2⟩ := key hfl
    exact ⟨k1, fun r' hr' => k2 r' (by simp) hr'⟩
  · intro pre i1 sm sm' hP hstep hfl'
    unfold eliminateColStep at hstep
    simp only at hstep
    split at hstep
    · rename_i hc
      injection hstep with hstep; subst hstep
      obtain ⟨p1, p2⟩ := hP hfl'
      refine ⟨p1, ?_⟩
      intro r' hr' hri
      rw [List.mem_append, List.mem_singleton] at hr'
      rcases hr' with hr' | rfl
      · exact p2 r' hr' hri
      · simp only [Bool.or_eq_true, decide_eq_true_eq] at hc
        rcases hc with hc | hc
        · exact absurd hc.symm hri
        · rw [← p1]; exact hc
    · split at hstep
      · injection hstep with hstep; subst hstep; cases hfl'
      · cases hstep
      · cases hstep

theorem eliminateRow_flag {α : Type} (e : EOps α) (dbg : Bool) (s : St α m n) (i : Fin m) (jc : Fin n)
    (r : St α m n × Bool) (h : eliminateRow e dbg s i jc = .ok r) (hfl : r.2 = false) :
    r.1 = s ∧ ∀ c, c ≠ jc → e.isZero (s.t.get i c) = true := by
  unfold eliminateRow at h
  have key := foldlM_prefix (σ := St α m n × Bool) (β := Fin n) (eliminateRowStep e dbg i jc)
    (fun pre sm => sm.2 = false → sm.1 = s ∧ ∀ c ∈ pre, c ≠ jc → e.isZero (s.t.get i c) = true) ?_
    (List.finRange n) [] (s, false) r (fun _ => ⟨rfl, by simp⟩) h
  · obtain ⟨k1, k2⟩ := key hfl
    exact ⟨k1, fun c hc => k2 c (by simp) hc⟩
  · intro pre j1 sm sm' hP hstep hfl'
    unfold eliminateRowStep at hstep
    simp only at hstep
    split at hstep
    · rename_i hc
      injection hstep with hstep; subst hstep
      obtain ⟨p1, p2⟩ := hP hfl'
      refine ⟨p1, ?_⟩
      intro c hc' hcj
      rw [List.mem_append, List.mem_singleton] at hc'
      rcases hc' with hc' | rfl
      · exact p2 c hc' hcj
      · simp only [Bool.or_eq_true, decide_eq_true_eq] at hc
        rcases hc with hc | hc
        · exact absurd hc.symm hcj
        · rw [← p1]; exact hc
    · split at hstep
      · injection hstep with hstep; subst hstep; cases hfl'
      · cases hstep
      · cases hstep

/-- `eliminate_at` on a non-zero pivot never panics: the determinant assertions hold, and the
`assert!(modified)` cannot fire while the loop condition is true -/
theorem eliminateAt_ne_panic (dbg : Bool) (i : Fin m) (jc : Fin n) : ∀ (fuel : Nat) (s : St Int m n),
    s.t.get i jc ≠ 0 → eliminateAt intOps dbg i jc fuel s ≠ .panic := by
  intro fuel
  induction fuel with
  | zero => intro s _; simp [eliminateAt]
  | succ fuel ih =>
    intro s hp h
    rw [eliminateAt] at h
    split at h
    · rename_i hc
      obtain ⟨r1, h1⟩ := eliminateCol_total dbg s i jc hp
      obtain ⟨_, c2, _, _⟩ := eliminateCol_post (frameOK_true i jc) dbg s r1 h1 trivial hp
      obtain ⟨r2, h2⟩ := eliminateRow_total dbg r1.1 i jc c2
      obtain ⟨_, d2, _, _, _⟩ := eliminateRow_post (frameOK_true i jc) dbg r1.1 r2 h2 trivial c2
        (eliminateCol_post (frameOK_true i jc) dbg s r1 h1 trivial hp).2.2.2
      rw [h1] at h; simp only at h
      rw [h2] at h; simp only at h
      split at h
      · rename_i hfl
        simp only [Bool.not_eq_true', Bool.or_eq_false_iff] at hfl
        obtain ⟨e1, e2⟩ := eliminateCol_flag intOps dbg s i jc r1 h1 hfl.1
        obtain ⟨_, e4⟩ := eliminateRow_flag intOps dbg r1.1 i jc r2 h2 hfl.2
        rw [e1] at e4
        have h1' := (rowNz_le_one_iff s.t i jc hp).2 (fun c hc => (int_isZero _).1 (e4 c hc))
        have h2' := (colNz_le_one_iff s.t i jc hp).2 (fun r hr => (int_isZero _).1 (e2 r hr))
        simp only [Bool.or_eq_true, decide_eq_true_eq] at hc
        omega
      · exact ih r2.1 d2 h
    · cases h

theorem selectPivot_nz (T : Mat Int m n) (below : Nat) (j : Fin n) (ip : Fin m)
    (h : selectPivot intOps T below j = some ip) : T.get ip j ≠ 0 := by
  unfold selectPivot at h
  have key := foldl_prefix (σ := Option (Fin m × Nat)) (β := Fin m)
    (fun (acc : Option (Fin m × Nat)) i =>
      if below ≤ i.1 && !intOps.toROps.isZero (T.get i j) then
        let k := rowNz intOps T i
        match acc with
        | none => some (i, k)
        | some (_, k0) => if k < k0 then some (i, k) else acc
      else acc)
    (fun _ acc => ∀ p, acc = some p → T.get p.1 j ≠ 0) ?_ (List.finRange m) [] none (by simp)
  · generalize List.foldl _ none (List.finRange m) = acc at key h
    cases acc with
    | none => simp at h
    | some p =>
      simp only [Option.map_some, Option.some.injEq] at h
      rw [← h]; exact key p rfl
  · intro pre x acc p1
    split
    · rename_i hc
      simp only [Bool.and_eq_true, decide_eq_true_eq, Bool.not_eq_true', int_isZero_false] at hc
      cases acc with
      | none =>
        intro p hp; simp only [Option.some.injEq] at hp; rw [← hp]; exact hc.2
      | some p0 =>
        obtain ⟨i0, k0⟩ := p0
        simp only
        split
        · intro p hp; simp only [Option.some.injEq] at hp; rw [← hp]; exact hc.2
        · exact p1
    · exact p1

/-- `eliminate_step` never panics over ℤ: `mul_col` by `±1` is fine and the pivot handed to `eliminate_at` is
non-zero -/
theorem eliminateStep_ne_panic (dbg : Bool) (fuel : Nat) (s : St Int m n) (i : Fin m) (j : Fin n) (hi : i.1 < n)
    (hij : i.1 ≤ j.1) : eliminateStep intOps dbg fuel s i j hi ≠ .panic := by
  have hsel := selectPivot_spec s.t i.1 j
  unfold eliminateStep
  split
  · simp
  · rename_i ip hsome
    have hip := hsel.1 ip hsome
    have hnz := selectPivot_nz s.t i.1 j ip hsome
    have hx : (stepPrep s i ip ⟨i.1, hi⟩ j).t.get i ⟨i.1, hi⟩ ≠ 0 := by
      rw [stepPrep_get s i ip ⟨i.1, hi⟩ j hip hij, if_pos rfl, if_pos rfl]; exact hnz
    generalize stepPrep s i ip ⟨i.1, hi⟩ j = s1 at hx
    simp only
    have key : ∃ s2, (if (!intOps.toROps.isOne (intOps.normUnit (s1.t.get i ⟨i.1, hi⟩))) = true then
        sMulCol intOps s1 ⟨i.1, hi⟩ (intOps.normUnit (s1.t.get i ⟨i.1, hi⟩)) else Res.ok s1) = .ok s2 ∧
        s2.t.get i ⟨i.1, hi⟩ ≠ 0 := by
      by_cases hneg : s1.t.get i ⟨i.1, hi⟩ < 0
      · have hu : intOps.normUnit (s1.t.get i ⟨i.1, hi⟩) = -1 := by rw [int_normUnit, if_pos hneg]
        rw [hu]
        have h1 : (!intOps.toROps.isOne (-1 : Int)) = true := rfl
        rw [if_pos h1]
        unfold sMulCol
        have hinv : intOps.inv (-1) = some (-1) := rfl
        rw [hinv]
        refine ⟨_, rfl, ?_⟩
        simp only [mulCol_get, if_pos]
        omega
      · have hu : intOps.normUnit (s1.t.get i ⟨i.1, hi⟩) = 1 := by rw [int_normUnit, if_neg hneg]
        rw [hu]
        have h1 : ¬ ((!intOps.toROps.isOne (1 : Int)) = true) := by decide
        rw [if_neg h1]
        exact ⟨s1, rfl, hx⟩
    obtain ⟨s2, h2, hp2⟩ := key
    rw [h2]
    simp only
    rw [if_neg (by rw [int_isZero]; exact hp2)]
    have := eliminateAt_ne_panic dbg i ⟨i.1, hi⟩ fuel s2 hp2
    split
    · simp
    · rename_i h; exact absurd h this
    · simp

theorem eliminateAllStep_ne_panic (dbg : Bool) (fuel : Nat) (si : St Int m n × Nat) (j : Fin n) :
    eliminateAllStep intOps dbg fuel si j ≠ .panic := by
  unfold eliminateAllStep
  split
  · rename_i hc
    have := eliminateStep_ne_panic dbg fuel si.1 ⟨si.2, hc.1⟩ j (Nat.lt_of_le_of_lt hc.2 j.2) hc.2
    split
    · simp
    · simp
    · rename_i h; exact absurd h this
    · simp
  · simp

theorem eliminateAll_ne_panic (dbg : Bool) (fuel : Nat) (s : St Int m n) :
    eliminateAll intOps dbg fuel s ≠ .panic := by
  have := foldlM_ne_panic (eliminateAllStep intOps dbg fuel) (eliminateAllStep_ne_panic dbg fuel)
    (List.finRange n) (s, 0)
  unfold eliminateAll
  split
  · simp
  · rename_i h; exact absurd h this
  · simp

theorem diagNormalizeStep_ne_panic (dbg : Bool) (s : St Int m n) (i : Nat) (hm : i + 1 < m) (hn : i + 1 < n)
    (hx : s.t.get ⟨i, Nat.lt_of_succ_lt hm⟩ ⟨i, Nat.lt_of_succ_lt hn⟩ ≠ 0)
    (hy : s.t.get ⟨i + 1, hm⟩ ⟨i + 1, hn⟩ ≠ 0) : diagNormalizeStep intOps dbg s i hm hn ≠ .panic := by
  unfold diagNormalizeStep
  simp only
  generalize s.t.get ⟨i, Nat.lt_of_succ_lt hm⟩ ⟨i, Nat.lt_of_succ_lt hn⟩ = x at hx ⊢
  generalize s.t.get ⟨i + 1, hm⟩ ⟨i + 1, hn⟩ = y at hy ⊢
  rw [if_neg (by simp [hx, hy])]
  split
  · simp
  · split
    · simp
    · obtain ⟨_, _, _, g4, _⟩ := gcdxW_int_data x y hx
      have hdet1 : detIsOne intOps.toROps intOps.toROps.one intOps.toROps.one
          (intOps.toROps.neg (intOps.toROps.mul (gcdxW intOps x y).2.2 (intOps.quo y (gcdxW intOps x y).1)))
          (intOps.toROps.mul (gcdxW intOps x y).2.1 (intOps.quo x (gcdxW intOps x y).1)) = true := by
        rw [detIsOne_iff lawful_int]
        simp only [id, int_neg, int_mul, int_one]
        linarith
      unfold sLeft sRight
      rw [hdet1, det_ok x y hx]
      simp

theorem diagPass_ne_panic (dbg : Bool) (r : Nat) : ∀ (cnt i : Nat) (s : St Int m n),
    (∀ k, k < r → dgz s.t k ≠ 0) → diagPass intOps dbg r cnt i s ≠ .panic := by
  intro cnt
  induction cnt with
  | zero => intro i s _; rw [diagPass]; simp
  | succ cnt ih =>
    intro i s hnz
    rw [diagPass]
    split
    · rename_i hc
      have hx := hnz i (by omega)
      have hy := hnz (i + 1) hc.1
      rw [dgz, dg_eq _ _ i (Nat.lt_of_succ_lt hc.2.1) (Nat.lt_of_succ_lt hc.2.2)] at hx
      rw [dgz, dg_eq _ _ (i + 1) hc.2.1 hc.2.2] at hy
      have := diagNormalizeStep_ne_panic dbg s i hc.2.1 hc.2.2 hx hy
      split
      · rename_i r1 h1
        split
        · rename_i hb
          obtain ⟨s1, b1⟩ := r1
          simp only at hb
          subst hb
          obtain ⟨e1, _⟩ := diagNormalizeStep_true dbg s i hc.2.1 hc.2.2 s1 h1
          subst e1
          exact ih _ _ hnz
        · simp
      · rename_i h; exact absurd h this
      · simp
    · simp

theorem diagOuter_ne_panic (dbg : Bool) (r : Nat) : ∀ (fuel : Nat) (s : St Int m n), DiagZ s.t →
    (∀ k, k < r → dgz s.t k ≠ 0) → diagOuter intOps dbg r fuel s ≠ .panic := by
  intro fuel
  induction fuel with
  | zero => intro s _ _; simp [diagOuter]
  | succ fuel ih =>
    intro s hD hnz h
    rw [diagOuter] at h
    split at h
    · rename_i r1 h1
      rcases diagPass_spec dbg r r 0 s r1 h1 with rfl | ⟨i0, hm, hn, hir, hb, hstep⟩
      · simp at h
      · rw [if_neg (by simp [hb])] at h
        obtain ⟨d1, d2, _, _, d5, d6, _⟩ := diagStep_dg dbg s i0 hm hn r1 hstep hD
        have hnz1 : ∀ k, k < r → dgz r1.1.t k ≠ 0 := by
          intro k hk
          by_cases e1 : k = i0
          · rw [e1]; exact d5
          · by_cases e2 : k = i0 + 1
            · rw [e2]; exact d6
            · rw [d2 k e1 e2]; exact hnz k hk
        exact ih r1.1 d1 hnz1 h
    · rename_i h1
      exact diagPass_ne_panic dbg r _ _ _ hnz h1
    · cases h

theorem normalizeStep_ne_panic (s : St Int m n) (k : Nat) : normalizeStep intOps s k ≠ .panic := by
  unfold normalizeStep
  split
  · rename_i hk
    simp only
    by_cases hneg : s.t.get ⟨k, hk.1⟩ ⟨k, hk.2⟩ < 0
    · have hu : intOps.normUnit (s.t.get ⟨k, hk.1⟩ ⟨k, hk.2⟩) = -1 := by rw [int_normUnit, if_pos hneg]
      rw [hu]
      have h1 : (!intOps.toROps.isOne (-1 : Int)) = true := rfl
      rw [if_pos h1]
      unfold sMulRow
      have hinv : intOps.inv (-1) = some (-1) := rfl
      rw [hinv]
      simp
    · have hu : intOps.normUnit (s.t.get ⟨k, hk.1⟩ ⟨k, hk.2⟩) = 1 := by rw [int_normUnit, if_neg hneg]
      rw [hu]
      have h1 : ¬ ((!intOps.toROps.isOne (1 : Int)) = true) := by decide
      rw [if_neg h1]
      simp
  · simp

theorem diagNormalize_ne_panic (dbg : Bool) (fuel : Nat) (s : St Int m n) (hD : DiagZ s.t) :
    diagNormalize intOps dbg fuel s ≠ .panic := by
  obtain ⟨_, z2, _⟩ := firstZeroDiag_spec s.t
  have hdiag : isDiag intOps.toROps s.t = true := (isDiag_iff lawful_int s.t).2 hD
  have := diagOuter_ne_panic dbg _ fuel s hD z2
  unfold diagNormalize
  rw [hdiag]
  rw [if_neg (by simp)]
  split
  · simp
  · split
    · exact foldlM_ne_panic _ normalizeStep_ne_panic _ _
    · rename_i h; exact absurd h this
    · simp

/-- over ℤ the code model of `SnfCalc::process` never panics (unless the preprocessing does) -/
theorem snfCalc_ne_panic (dbg : Bool) (pre : St Int m n → Res (St Int m n)) (fuel : Nat) (A : Mat Int m n)
    (hpre : pre (St.init intOps.toROps A) ≠ .panic) : snfCalc intOps dbg pre fuel A ≠ .panic := by
  unfold snfCalc
  split
  · simp
  · split
    · rename_i s1 h1
      have h2 := eliminateAll_ne_panic dbg fuel s1
      split
      · rename_i s2 h2'
        exact diagNormalize_ne_panic dbg fuel s2 (eliminateAll_post dbg fuel s1 s2 h2').1
      · rename_i h; exact absurd h h2
      · simp
    · rename_i h; exact absurd h hpre
    · simp

/-- **totality over ℤ**: if the preprocessing returns, there are a fuel bound `N` and a state `s` such that the
code model returns `s` for every `fuel ≥ N` -/
theorem snfCalc_total (dbg : Bool) (pre : St Int m n → Res (St Int m n)) (A : Mat Int m n) (s1 : St Int m n)
    (hpre : pre (St.init intOps.toROps A) = .ok s1) :
    ∃ N s, ∀ fuel, N ≤ fuel → snfCalc intOps dbg pre fuel A = .ok s := by
  obtain ⟨N, hN⟩ := snfCalc_exists_fuel dbg pre A (by rw [hpre]; simp)
  have h1 := hN N (Nat.le_refl _)
  have h2 := snfCalc_ne_panic dbg pre N A (by rw [hpre]; simp)
  cases h : snfCalc intOps dbg pre N A with
  | ok s =>
    refine ⟨N, s, fun fuel hf => ?_⟩
    rw [snfCalc_mono intOps dbg pre N A h1 fuel hf, h]
  | panic => exact absurd h h2
  | err => exact absurd h h1

end Yuiv.C09
