import Yuiv.Model.C16
import Yuiv.Gen.PolyFn
/-
Helper lemmas for `Yuiv/Props/C16Gen.lean`: the association-list primitives of `Yuiv/Model/RustMap.lean` against the
walking functions of the hand model `Yuiv/Model/C16.lean`, and the fold form of `Poly.forM`.  No Mathlib.
-/
set_option linter.unusedSectionVars false
namespace Yuiv.GenP
open Yuiv Res Yuiv.Rust Yuiv.GenPoly

/-- result projection -/
def mapR {α β : Type} (f : α → β) : Res α → Res β
  | .ok a => .ok (f a)
  | .panic => .panic
  | .err => .err

@[simp] theorem mapR_ok {α β : Type} (f : α → β) (a : α) : mapR f (.ok a) = .ok (f a) := rfl

/-- the term list of a polynomial -/
def polyData {X R : Type} (p : PolyBaseS X R) : List (X × R) := p.data.data
/-- `Var<X, I>` as the model's monomial -/
def toVar {I : Type} (v : VarS I) : C16.Var I := ⟨v.f0⟩
def toVar2 {I : Type} (v : Var2S I) : C16.Var2 I := ⟨v.f0, v.f1⟩
def toMVar {I : Type} (v : MultiVarS I) : C16.MVar I := ⟨v.f0.data⟩
def toH {R : Type} (h : HPolyS R) : C16.HPoly R := ⟨h.deg, h.coeff⟩

theorem nat_beq (a b : Nat) : (a == b) = decide (a = b) := by
  by_cases h : a = b <;> simp [h]

section
variable {X R : Type} [DecidableEq X] [DecidableEq R] [Zero R] [One R] [Add R] [Sub R] [Neg R] [Mul R]

theorem get_eq_lookup (l : List (X × R)) (x : X) : AMap.get l x = C16.lookup? l x := by
  induction l with
  | nil => rfl
  | cons p t ih => obtain ⟨y, v⟩ := p; simp only [AMap.get, C16.lookup?, ih]

theorem getD_eq_coeff (l : List (X × R)) (x : X) : (AMap.get l x).getD 0 = C16.coeff l x := by
  induction l with
  | nil => rfl
  | cons p t ih =>
    obtain ⟨y, v⟩ := p
    simp only [AMap.get, C16.coeff]
    split <;> simp_all

theorem upd_absent (l : List (X × R)) (x : X) (r : R) (h : AMap.contains_key l x = false) :
    l ++ [(x, r)] = C16.upd l x r := by
  induction l with
  | nil => rfl
  | cons p t ih =>
    obtain ⟨y, v⟩ := p
    simp only [AMap.contains_key, AMap.get] at h ih ⊢
    by_cases hy : y = x
    · simp [hy] at h
    · simp only [hy, if_false] at h
      simp only [C16.upd, hy, if_false, List.cons_append, ih h]

theorem upd_present (l : List (X × R)) (x : X) (r : R) (h : AMap.contains_key l x = true) :
    ∃ v, AMap.get l x = some v ∧ AMap.set l x (v + r) = C16.upd l x r := by
  induction l with
  | nil => simp [AMap.contains_key, AMap.get] at h
  | cons p t ih =>
    obtain ⟨y, v⟩ := p
    by_cases hy : y = x
    · exact ⟨v, by simp [AMap.get, hy], by simp [AMap.set, C16.upd, hy]⟩
    · have h' : AMap.contains_key t x = true := by
        simpa [AMap.contains_key, AMap.get, hy] using h
      obtain ⟨w, hw, hs⟩ := ih h'
      exact ⟨w, by simp [AMap.get, hy, hw], by simp [AMap.set, C16.upd, hy, hs]⟩

theorem forM_ok {β σ : Type} (f : σ → β → Res σ) (g : σ → β → σ) (h : ∀ s x, f s x = .ok (g s x)) (xs : List β) (s : σ) :
    Poly.forM xs s f = .ok (xs.foldl g s) := by
  induction xs generalizing s with
  | nil => rfl
  | cons x xs ih => simp only [Poly.forM, h, Res.bind, List.foldl_cons, ih]

/-- a fold that only touches the `data` field -/
theorem foldl_data {β : Type} (g : List (X × R) → β → List (X × R)) (xs : List β) (s : LcS X R) :
    xs.foldl (fun (s : LcS X R) x => (⟨g s.data x, s.r_zero⟩ : LcS X R)) s = ⟨xs.foldl g s.data, s.r_zero⟩ := by
  induction xs generalizing s with
  | nil => rfl
  | cons x xs ih => simp only [List.foldl_cons, ih]

theorem filterMap_ite {α : Type} (p : α → Bool) (l : List α) :
    l.filterMap (fun a => if p a then some a else none) = l.filter p := by
  induction l with
  | nil => rfl
  | cons a t ih =>
    by_cases h : p a = true
    · simp only [List.filterMap_cons, List.filter_cons, h, if_true, ih]
    · simp only [List.filterMap_cons, List.filter_cons, h, ih]; simp

theorem foldl_pairs (f : X → X → X) (a b acc : List (X × R)) :
    a.foldl (fun acc p => b.foldl (fun acc q => C16.addPair acc (f p.1 q.1, p.2 * q.2)) acc) acc
      = (C16.pairs f a b).foldl C16.addPair acc := by
  unfold C16.pairs
  induction a generalizing acc with
  | nil => rfl
  | cons p t ih => simp only [List.foldl_cons, List.flatMap_cons, List.foldl_append, List.foldl_map, ih]

theorem max_by_eq {M : Type} (cmp : M → M → Ordering) (l : List (M × R)) :
    Poly.max_by (fun t1 t2 => cmp t1.1 t2.1) l = C16.maxBy cmp l := by
  cases l <;> rfl

end
/-! ### `MultiDeg<I>` (mdeg.rs): `BTreeMap` as the key-sorted entry list -/
section MDeg
variable {I : Type} [DecidableEq I] [Zero I] [Add I] [LT I] [DecidableLT I]

/-- the entry list of a `BTreeMap`: strictly increasing keys -/
def keysSorted (l : List (Nat × I)) : Prop := (l.map (fun e => e.1)).Pairwise (· < ·)

theorem keysSorted_cons (p : Nat × I) (t : List (Nat × I)) :
    keysSorted (p :: t) ↔ (∀ k, k ∈ t.map (fun e => e.1) → p.1 < k) ∧ keysSorted t := by
  simp only [keysSorted, List.map_cons, List.pairwise_cons]

theorem bget_eq_mdGet (l : List (Nat × I)) (i : Nat) : (BMap.get l i).getD 0 = C16.mdGet l i := by
  induction l with
  | nil => rfl
  | cons p t ih =>
    obtain ⟨j, e⟩ := p
    simp only [BMap.get, C16.mdGet]
    split <;> simp_all

theorem bcontains_mem (l : List (Nat × I)) (i : Nat) (h : BMap.contains_key l i = true) : i ∈ l.map (fun e => e.1) := by
  induction l with
  | nil => simp [BMap.contains_key, BMap.get] at h
  | cons p t ih =>
    obtain ⟨j, e⟩ := p
    by_cases hj : j = i
    · simp [hj]
    · have : BMap.contains_key t i = true := by simpa [BMap.contains_key, BMap.get, hj] using h
      simp only [List.map_cons, List.mem_cons]
      exact Or.inr (ih this)

/-- `if !contains_key(i) { insert(i, 0) }; *get_mut(i).unwrap() op= d` is one walk `mdUpd` of the model -/
theorem upd_step (op : I → I → I) (l : List (Nat × I)) (hs : keysSorted l) (i : Nat) (d : I) :
    ∃ v, BMap.get (if BMap.contains_key l i = true then l else BMap.insert l i 0) i = some v ∧
      BMap.set (if BMap.contains_key l i = true then l else BMap.insert l i 0) i (op v d) = C16.mdUpd op l i d := by
  induction l with
  | nil => exact ⟨0, by simp [BMap.contains_key, BMap.get, BMap.insert], by simp [BMap.contains_key, BMap.get, BMap.insert, BMap.set, C16.mdUpd]⟩
  | cons p t ih =>
    obtain ⟨j, e⟩ := p
    rw [keysSorted_cons] at hs
    obtain ⟨hlt, hst⟩ := hs
    by_cases h1 : i < j
    · have hji : ¬ j = i := by omega
      have hc : BMap.contains_key ((j, e) :: t) i = false := by
        cases hcc : BMap.contains_key ((j, e) :: t) i with
        | false => rfl
        | true =>
          have hm := bcontains_mem _ _ hcc
          simp only [List.map_cons, List.mem_cons] at hm
          cases hm with
          | inl h => omega
          | inr h => have := hlt i h; simp at this; omega
      refine ⟨0, ?_, ?_⟩
      · simp [hc, BMap.insert, h1, BMap.get]
      · simp [hc, BMap.insert, h1, BMap.set, C16.mdUpd]
    · by_cases h2 : i = j
      · subst h2
        refine ⟨e, ?_, ?_⟩
        · simp [BMap.contains_key, BMap.get]
        · simp [BMap.contains_key, BMap.get, BMap.set, C16.mdUpd]
      · have hji : ¬ j = i := fun h => h2 h.symm
        obtain ⟨v, hv, hset⟩ := ih hst
        have hcc : BMap.contains_key ((j, e) :: t) i = BMap.contains_key t i := by
          simp [BMap.contains_key, BMap.get, hji]
        refine ⟨v, ?_, ?_⟩
        · rw [hcc]
          by_cases hc : BMap.contains_key t i = true
          · simp only [hc, if_true] at hv ⊢
            simp only [BMap.get, hji, if_false, hv]
          · simp only [hc, if_false, Bool.false_eq_true] at hv ⊢
            simp only [BMap.insert, h1, h2, if_false, BMap.get, hji, hv]
        · rw [hcc]
          by_cases hc : BMap.contains_key t i = true
          · simp only [hc, if_true] at hset ⊢
            simp only [BMap.set, hji, if_false, hset, C16.mdUpd, h1, h2]
          · simp only [hc, if_false, Bool.false_eq_true] at hset ⊢
            simp only [BMap.insert, h1, h2, if_false, BMap.set, hji, hset, C16.mdUpd]

theorem keys_mdUpd (op : I → I → I) (l : List (Nat × I)) (i : Nat) (d : I) (k : Nat)
    (hk : k ∈ (C16.mdUpd op l i d).map (fun e => e.1)) : k = i ∨ k ∈ l.map (fun e => e.1) := by
  induction l with
  | nil => simp [C16.mdUpd] at hk; exact Or.inl hk
  | cons p t ih =>
    obtain ⟨j, e⟩ := p
    by_cases h1 : i < j
    · simp only [C16.mdUpd, h1, if_true, List.map_cons, List.mem_cons] at hk ⊢
      cases hk with
      | inl h => exact Or.inl h
      | inr h => exact Or.inr h
    · by_cases h2 : i = j
      · subst h2
        simp only [C16.mdUpd, Nat.lt_irrefl, if_true, if_false, List.map_cons, List.mem_cons] at hk ⊢
        exact Or.inr hk
      · simp only [C16.mdUpd, h1, h2, if_false, List.map_cons, List.mem_cons] at hk ⊢
        cases hk with
        | inl h => exact Or.inr (Or.inl h)
        | inr h =>
          cases ih h with
          | inl h' => exact Or.inl h'
          | inr h' => exact Or.inr (Or.inr h')

theorem keysSorted_mdUpd (op : I → I → I) (l : List (Nat × I)) (hs : keysSorted l) (i : Nat) (d : I) :
    keysSorted (C16.mdUpd op l i d) := by
  induction l with
  | nil => simp [C16.mdUpd, keysSorted]
  | cons p t ih =>
    obtain ⟨j, e⟩ := p
    have hs0 := hs
    rw [keysSorted_cons] at hs
    obtain ⟨hlt, hst⟩ := hs
    by_cases h1 : i < j
    · simp only [C16.mdUpd, h1, if_true]
      rw [keysSorted_cons]
      refine ⟨?_, hs0⟩
      intro k hk
      simp only [List.map_cons, List.mem_cons] at hk
      cases hk with
      | inl h => simp only; omega
      | inr h => have := hlt k h; simp only at this ⊢; omega
    · by_cases h2 : i = j
      · subst h2
        simp only [C16.mdUpd, Nat.lt_irrefl, if_true, if_false]
        rw [keysSorted_cons]
        exact ⟨hlt, hst⟩
      · simp only [C16.mdUpd, h1, h2, if_false]
        rw [keysSorted_cons]
        refine ⟨?_, ih hst⟩
        intro k hk
        cases keys_mdUpd op t i d k hk with
        | inl h => simp only; omega
        | inr h => exact hlt k h

theorem forM_ok_inv {β σ : Type} (P : σ → Prop) (f : σ → β → Res σ) (g : σ → β → σ)
    (h : ∀ s x, P s → f s x = .ok (g s x) ∧ P (g s x)) (xs : List β) (s : σ) (hs : P s) :
    Poly.forM xs s f = .ok (xs.foldl g s) ∧ P (xs.foldl g s) := by
  induction xs generalizing s with
  | nil => exact ⟨rfl, hs⟩
  | cons x xs ih =>
    obtain ⟨h1, h2⟩ := h s x hs
    simp only [Poly.forM, h1, Res.bind, List.foldl_cons]
    exact ih _ h2

theorem foldl_mdata {β : Type} (g : List (Nat × I) → β → List (Nat × I)) (xs : List β) (s : MultiDegS I) :
    xs.foldl (fun (s : MultiDegS I) x => (⟨g s.data x, s._zero_⟩ : MultiDegS I)) s = ⟨xs.foldl g s.data, s._zero_⟩ := by
  induction xs generalizing s with
  | nil => rfl
  | cons x xs ih => simp only [List.foldl_cons, ih]

theorem pmin_eq (l : List (Nat × I)) : Poly.min (l.map (fun e => e.1)) = C16.mdMinIndex l := by
  cases l with
  | nil => rfl
  | cons p t => simp only [List.map_cons, Poly.min, C16.mdMinIndex, List.foldl_map]

theorem pmax_eq (l : List (Nat × I)) : Poly.max (l.map (fun e => e.1)) = C16.mdMaxIndex l := by
  cases l with
  | nil => rfl
  | cons p t => simp only [List.map_cons, Poly.max, C16.mdMaxIndex, List.foldl_map]

end MDeg

end Yuiv.GenP
