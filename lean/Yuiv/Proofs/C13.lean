import Yuiv.Model.C13
import Mathlib.Data.Matrix.Mul
import Mathlib.Tactic.Ring
import Mathlib.Tactic.Linarith
/-
C13 — spec definitions and helper lemmas, part 1: entries of triplet lists, the COO→CSC kernel,
`from_entries`, `extract` and its clients.
-/
namespace Yuiv.C13
open Yuiv Res

set_option linter.unusedSectionVars false
set_option linter.unusedSimpArgs false
set_option linter.unusedVariables false

variable {R : Type} [CommRing R] [DecidableEq R]

theorem assert_true' {c : Bool} (h : c = true) : Res.assert c = ok () := by simp [Res.assert, h]
theorem assert_false' {c : Bool} (h : c = false) : Res.assert c = panic := by simp [Res.assert, h]

/-! ### sums over one column / over a triplet list -/

@[simp] theorem sumAt_nil (i : Nat) : sumAt ([] : List (Nat × R)) i = 0 := rfl

theorem sumAt_cons (k : Nat) (a : R) (c : List (Nat × R)) (i : Nat) :
    sumAt ((k, a) :: c) i = (if k = i then a else 0) + sumAt c i := by
  unfold sumAt
  by_cases h : k = i <;> simp [List.filter_cons, h]

theorem sumAt_append (c d : List (Nat × R)) (i : Nat) : sumAt (c ++ d) i = sumAt c i + sumAt d i := by
  unfold sumAt; simp [List.filter_append]

@[simp] theorem entryT_nil (i j : Nat) : entryT ([] : List (Trip R)) i j = 0 := rfl

theorem entryT_cons (t : Trip R) (ts : List (Trip R)) (i j : Nat) :
    entryT (t :: ts) i j = (if t.1 = i ∧ t.2.1 = j then t.2.2 else 0) + entryT ts i j := by
  unfold entryT
  by_cases h : t.1 = i ∧ t.2.1 = j
  · simp [List.filter_cons, h]
  · have : (t.1 == i && t.2.1 == j) = false := by
      simpa [Bool.and_eq_false_iff] using (not_and_or.mp h).imp id id |> fun h' => by tauto
    simp [List.filter_cons, this, h]

theorem entryT_append (ts us : List (Trip R)) (i j : Nat) :
    entryT (ts ++ us) i j = entryT ts i j + entryT us i j := by
  unfold entryT; simp [List.filter_append]

/-- dropping zero-valued triplets does not change any entry -/
theorem entryT_filter_ne_zero (ts : List (Trip R)) (i j : Nat) :
    entryT (ts.filter (fun t => t.2.2 ≠ 0)) i j = entryT ts i j := by
  induction ts with
  | nil => rfl
  | cons t ts ih =>
    rw [List.filter_cons]
    by_cases h : t.2.2 = 0
    · rw [if_neg (by simp [h]), entryT_cons, ih, h]; simp
    · rw [if_pos (by simp [h]), entryT_cons, entryT_cons, ih]

theorem sumAt_filter_ne_zero (c : List (Nat × R)) (i : Nat) :
    sumAt (c.filter (fun p => p.2 ≠ 0)) i = sumAt c i := by
  induction c with
  | nil => rfl
  | cons p c ih =>
    obtain ⟨k, a⟩ := p
    rw [List.filter_cons]
    by_cases h : a = 0
    · rw [if_neg (by simp [h]), sumAt_cons, ih, h]; simp
    · rw [if_pos (by simp [h]), sumAt_cons, sumAt_cons, ih]

/-- entries of a triplet list that is empty at `(i, j)` -/
theorem entryT_eq_zero (ts : List (Trip R)) (i j : Nat) (h : ∀ t ∈ ts, ¬ (t.1 = i ∧ t.2.1 = j)) :
    entryT ts i j = 0 := by
  induction ts with
  | nil => rfl
  | cons t ts ih =>
    rw [entryT_cons, if_neg (h t (by simp)), ih (fun t ht => h t (by simp [ht]))]; simp

theorem sumAt_eq_zero (c : List (Nat × R)) (i : Nat) (h : ∀ p ∈ c, p.1 ≠ i) : sumAt c i = 0 := by
  induction c with
  | nil => rfl
  | cons p c ih =>
    obtain ⟨k, a⟩ := p
    rw [sumAt_cons, if_neg (h (k, a) (by simp)), ih (fun p hp => h p (by simp [hp]))]; simp

/-! ### triplets of a CSC matrix -/

theorem entryT_tripsFrom (cs : List (List (Nat × R))) (j0 i j : Nat) :
    entryT (tripsFrom j0 cs) i j = if j0 ≤ j then sumAt (cs.getD (j - j0) []) i else 0 := by
  induction cs generalizing j0 with
  | nil => simp [tripsFrom]
  | cons c cs ih =>
    rw [tripsFrom, entryT_append, ih]
    have hc : entryT (c.map (fun p => (p.1, j0, p.2))) i j = if j0 = j then sumAt c i else 0 := by
      induction c with
      | nil => simp
      | cons p c ihc =>
        obtain ⟨k, a⟩ := p
        simp only [List.map_cons, entryT_cons, ihc, sumAt_cons]
        by_cases h1 : j0 = j <;> by_cases h2 : k = i <;> simp [h1, h2]
    rw [hc]
    by_cases h1 : j0 = j
    · subst h1; simp
    · by_cases h2 : j0 + 1 ≤ j
      · have h3 : j0 ≤ j := by omega
        have h4 : j - j0 = (j - (j0 + 1)) + 1 := by omega
        simp [h1, h2, h3, h4]
      · have h3 : ¬ j0 ≤ j := by omega
        simp [h1, h2, h3]

theorem entryT_triplets (A : SpMat R) (i j : Nat) : entryT A.triplets i j = A.entry i j := by
  unfold SpMat.triplets SpMat.entry; rw [entryT_tripsFrom]; simp

/-! ### well-formed CSC data -/

structure SpMat.WF (A : SpMat R) : Prop where
  len : A.cols.length = A.ncols
  bound : ∀ c ∈ A.cols, ∀ p ∈ c, p.1 < A.nrows
  sorted : ∀ c ∈ A.cols, (c.map (·.1)).Pairwise (· < ·)

theorem mem_tripsFrom (cs : List (List (Nat × R))) (j0 : Nat) (t : Trip R) :
    t ∈ tripsFrom j0 cs ↔ ∃ k, ∃ h : k < cs.length, t.2.1 = j0 + k ∧ (t.1, t.2.2) ∈ cs[k] := by
  induction cs generalizing j0 with
  | nil => simp [tripsFrom]
  | cons c cs ih =>
    simp only [tripsFrom, List.mem_append, List.mem_map, ih, List.length_cons]
    constructor
    · rintro (⟨p, hp, rfl⟩ | ⟨k, hk, h1, h2⟩)
      · exact ⟨0, by omega, by simp, by simpa using hp⟩
      · exact ⟨k + 1, by omega, by omega, by simpa using h2⟩
    · rintro ⟨k, hk, h1, h2⟩
      cases k with
      | zero => left; exact ⟨(t.1, t.2.2), by simpa using h2, by ext <;> simp_all⟩
      | succ k => right; exact ⟨k, by omega, by omega, by simpa using h2⟩

theorem SpMat.WF.trip_bound {A : SpMat R} (h : A.WF) {t : Trip R} (ht : t ∈ A.triplets) :
    t.1 < A.nrows ∧ t.2.1 < A.ncols := by
  unfold SpMat.triplets at ht
  rw [mem_tripsFrom] at ht
  obtain ⟨k, hk, h1, h2⟩ := ht
  exact ⟨h.bound _ (List.getElem_mem hk) _ h2, by rw [h1, ← h.len]; omega⟩

theorem SpMat.WF.entry_oob {A : SpMat R} (h : A.WF) (i j : Nat) (hij : ¬ (i < A.nrows ∧ j < A.ncols)) :
    A.entry i j = 0 := by
  rw [← entryT_triplets]
  apply entryT_eq_zero
  intro t ht ⟨h1, h2⟩
  have := h.trip_bound ht
  omega

/-! ### the COO → CSC kernel -/

theorem sumAt_colEntries (es : List (Trip R)) (i j : Nat) : sumAt (colEntries es j) i = entryT es i j := by
  induction es with
  | nil => rfl
  | cons t es ih =>
    obtain ⟨a, b, v⟩ := t
    by_cases h : b = j
    · simp [colEntries, List.filter_cons, h, sumAt_cons, entryT_cons] at ih ⊢
      rw [ih]
    · simp [colEntries, List.filter_cons, h, entryT_cons] at ih ⊢
      rw [ih]

theorem filter_map_key {α : Type} (l : List Nat) (g : Nat → α) (hl : l.Nodup) (i : Nat) :
    (l.map (fun k => (k, g k))).filter (fun p => p.1 == i) = if i ∈ l then [(i, g i)] else [] := by
  induction l with
  | nil => simp
  | cons a l ih =>
    have hn := List.nodup_cons.mp hl
    rw [List.map_cons, List.filter_cons, ih hn.2]
    by_cases h : a = i
    · subst h; simp [hn.1]
    · have h' : i ≠ a := fun e => h e.symm
      simp [h, h']

theorem sumAt_compressCol (m : Nat) (c : List (Nat × R)) (i : Nat) :
    sumAt (compressCol m c) i = if i < m then sumAt c i else 0 := by
  unfold compressCol
  have hnd : ((List.range m).filter (fun i => c.any (fun p => p.1 == i))).Nodup :=
    (List.nodup_range).filter _
  unfold sumAt
  rw [filter_map_key _ _ hnd]
  by_cases h1 : i < m
  · by_cases h2 : c.any (fun p => p.1 == i) = true
    · simp [h1, h2]
    · have : c.filter (fun p => p.1 == i) = [] := by
        rw [List.filter_eq_nil_iff]; intro p hp hpi
        exact h2 (List.any_eq_true.mpr ⟨p, hp, hpi⟩)
      simp [h1, h2, this]
  · simp [h1]

theorem entry_cooToCsc (m n : Nat) (es : List (Trip R)) (i j : Nat) :
    (cooToCsc m n es).entry i j = if i < m ∧ j < n then entryT es i j else 0 := by
  unfold SpMat.entry cooToCsc
  by_cases hj : j < n
  · simp only [List.getD_eq_getElem?_getD, List.getElem?_map]
    rw [List.getElem?_range hj]
    simp [sumAt_compressCol, sumAt_colEntries, hj]
  · have : ((List.range n).map (fun j => compressCol m (colEntries es j)))[j]? = none := by
      simp; omega
    simp [List.getD_eq_getElem?_getD, this, hj]

theorem cooToCsc_wf (m n : Nat) (es : List (Trip R)) : (cooToCsc m n es).WF := by
  refine ⟨by simp [cooToCsc], ?_, ?_⟩
  · intro c hc p hp
    simp only [cooToCsc, List.mem_map, List.mem_range] at hc
    obtain ⟨j, _, rfl⟩ := hc
    simp only [compressCol, List.mem_map, List.mem_filter, List.mem_range] at hp
    obtain ⟨i, ⟨hi, _⟩, rfl⟩ := hp
    exact hi
  · intro c hc
    simp only [cooToCsc, List.mem_map, List.mem_range] at hc
    obtain ⟨j, _, rfl⟩ := hc
    simp only [compressCol, List.map_map]
    have : ((fun p : Nat × R => p.1) ∘ fun i => (i, sumAt (colEntries es j) i)) = id := by
      funext i; rfl
    rw [this, List.map_id]
    exact (List.pairwise_lt_range).filter _

/-! ### `from_entries` -/

/-- the precondition of `from_entries`: every non-zero entry is inside the shape -/
def InShape (m n : Nat) (es : List (Trip R)) : Prop := ∀ t ∈ es, t.2.2 ≠ 0 → t.1 < m ∧ t.2.1 < n

theorem fromEntries_ok (m n : Nat) (es : List (Trip R)) (h : InShape m n es) :
    fromEntries m n es = ok (cooToCsc m n (es.filter (fun t => t.2.2 ≠ 0))) := by
  unfold fromEntries cooFrom
  rw [if_pos]
  rw [List.all_eq_true]
  intro t ht
  rw [List.mem_filter] at ht
  have := h t ht.1 (by simpa using ht.2)
  simp [this.1, this.2]

theorem fromEntries_panic (m n : Nat) (es : List (Trip R)) (h : ¬ InShape m n es) :
    fromEntries m n es = panic := by
  unfold fromEntries cooFrom
  rw [if_neg]
  intro hall
  apply h
  intro t ht hnz
  rw [List.all_eq_true] at hall
  have := hall t (List.mem_filter.mpr ⟨ht, by simpa using hnz⟩)
  simpa using this

/-- what `from_entries` returns: shape, well-formedness and the entries (duplicates summed) -/
theorem fromEntries_spec (m n : Nat) (es : List (Trip R)) (A : SpMat R) (h : fromEntries m n es = ok A) :
    A.nrows = m ∧ A.ncols = n ∧ A.WF ∧ ∀ i j, A.entry i j = if i < m ∧ j < n then entryT es i j else 0 := by
  by_cases hs : InShape m n es
  · rw [fromEntries_ok m n es hs] at h
    cases h
    refine ⟨rfl, rfl, cooToCsc_wf _ _ _, ?_⟩
    intro i j
    rw [entry_cooToCsc, entryT_filter_ne_zero]
  · rw [fromEntries_panic m n es hs] at h; cases h

/-! ### permutations (`sprs`) -/

/-- the map `i ↦ p.at(i)` of a permutation value -/
def Perm.fn (p : Perm) (i : Nat) : Nat :=
  match p.map with
  | none => i
  | some l => l.getD i i

/-- a value that `PermOwned::new` / `identity` can produce -/
def Perm.Valid (p : Perm) : Prop :=
  ∀ l, p.map = some l → l.length = p.dim ∧ l.Nodup ∧ ∀ x ∈ l, x < p.dim

theorem Perm.at_ok (p : Perm) (hv : p.Valid) (i : Nat) (hi : i < p.dim) : p.at i = ok (p.fn i) := by
  unfold Perm.at Perm.fn
  rw [if_pos hi]
  cases hm : p.map with
  | none => rfl
  | some l =>
    have hl := (hv l hm).1
    have : i < l.length := by omega
    simp [List.getElem?_eq_getElem this, List.getD_eq_getElem?_getD]

theorem Perm.at_panic (p : Perm) (i : Nat) (hi : ¬ i < p.dim) : p.at i = panic := by
  unfold Perm.at; rw [if_neg hi]

theorem Perm.fn_lt (p : Perm) (hv : p.Valid) (i : Nat) (hi : i < p.dim) : p.fn i < p.dim := by
  unfold Perm.fn
  cases hm : p.map with
  | none => exact hi
  | some l =>
    obtain ⟨hl, _, hb⟩ := hv l hm
    have : i < l.length := by omega
    simp only [List.getD_eq_getElem?_getD, List.getElem?_eq_getElem this, Option.getD_some]
    exact hb _ (List.getElem_mem this)

theorem Perm.fn_inj (p : Perm) (hv : p.Valid) (i j : Nat) (hi : i < p.dim) (hj : j < p.dim)
    (h : p.fn i = p.fn j) : i = j := by
  unfold Perm.fn at h
  cases hm : p.map with
  | none => simpa [hm] using h
  | some l =>
    obtain ⟨hl, hnd, _⟩ := hv l hm
    have h1 : i < l.length := by omega
    have h2 : j < l.length := by omega
    simp only [hm, List.getD_eq_getElem?_getD, List.getElem?_eq_getElem h1, List.getElem?_eq_getElem h2,
      Option.getD_some] at h
    exact (List.Nodup.getElem_inj_iff hnd).mp h

theorem Perm.identity_valid (n : Nat) : (Perm.identity n).Valid := by
  intro l h; simp [Perm.identity] at h

@[simp] theorem Perm.identity_fn (n i : Nat) : (Perm.identity n).fn i = i := rfl
@[simp] theorem Perm.identity_dim (n : Nat) : (Perm.identity n).dim = n := rfl

theorem permIsValidGo_iff (n : Nat) (seen l : List Nat) :
    permIsValidGo n seen l = true ↔ (∀ x ∈ l, x < n ∧ x ∉ seen) ∧ l.Nodup := by
  induction l generalizing seen with
  | nil => simp [permIsValidGo]
  | cons a l ih =>
    rw [permIsValidGo]
    by_cases h : a ≥ n ∨ a ∈ seen
    · have : (decide (a ≥ n) || seen.contains a) = true := by
        rcases h with h | h <;> simp [h]
      rw [if_pos this]
      constructor
      · intro hf; cases hf
      · rintro ⟨h1, _⟩
        have := h1 a (by simp)
        rcases h with h | h
        · omega
        · exact absurd h this.2
    · have h' : ¬ a ≥ n ∧ a ∉ seen := not_or.mp h
      have : ¬ ((decide (a ≥ n) || seen.contains a) = true) := by simp [h'.1, h'.2]
      rw [if_neg this, ih]
      simp only [List.mem_cons, List.nodup_cons]
      constructor
      · rintro ⟨h1, h2⟩
        refine ⟨?_, ?_, h2⟩
        · rintro x (rfl | hx)
          · exact ⟨by omega, h'.2⟩
          · exact ⟨(h1 x hx).1, fun hs => (h1 x hx).2 (Or.inr hs)⟩
        · intro ha; exact (h1 a ha).2 (Or.inl rfl)
      · rintro ⟨h1, h2, h3⟩
        refine ⟨?_, h3⟩
        intro x hx
        refine ⟨(h1 x (Or.inr hx)).1, ?_⟩
        rintro (rfl | hs)
        · exact h2 hx
        · exact (h1 x (Or.inr hx)).2 hs

theorem permIsValid_iff (l : List Nat) : permIsValid l = true ↔ (∀ x ∈ l, x < l.length) ∧ l.Nodup := by
  unfold permIsValid; rw [permIsValidGo_iff]; simp

theorem Perm.new_ok (l : List Nat) (h1 : ∀ x ∈ l, x < l.length) (h2 : l.Nodup) :
    Perm.new l = ok ⟨l.length, some l⟩ ∧ (⟨l.length, some l⟩ : Perm).Valid := by
  refine ⟨by unfold Perm.new; rw [if_pos ((permIsValid_iff l).mpr ⟨h1, h2⟩)], ?_⟩
  intro l' hl'; cases hl'; exact ⟨rfl, h2, h1⟩

theorem Perm.new_panic (l : List Nat) (h : ¬ ((∀ x ∈ l, x < l.length) ∧ l.Nodup)) : Perm.new l = panic := by
  unfold Perm.new; rw [if_neg (fun hv => h ((permIsValid_iff l).mp hv))]

/-! ### `extract` -/

theorem mapTrips_ok (f : Nat → Nat → Res (Option (Nat × Nat))) (g : Nat → Nat → Option (Nat × Nat))
    (ts : List (Trip R)) (h : ∀ t ∈ ts, f t.1 t.2.1 = ok (g t.1 t.2.1)) :
    mapTrips f ts = ok (ts.filterMap (fun t => (g t.1 t.2.1).map (fun x => (x.1, x.2, t.2.2)))) := by
  induction ts with
  | nil => rfl
  | cons t ts ih =>
    obtain ⟨i, j, a⟩ := t
    have h0 := h (i, j, a) (by simp)
    simp only at h0
    rw [mapTrips, h0, ih (fun t ht => h t (by simp [ht]))]
    cases hg : g i j with
    | none => simp [List.filterMap_cons, hg]
    | some x => obtain ⟨x1, x2⟩ := x; simp [List.filterMap_cons, hg]

theorem mapTrips_panic (f : Nat → Nat → Res (Option (Nat × Nat))) (ts : List (Trip R))
    (hne : ∀ t ∈ ts, f t.1 t.2.1 ≠ err) (h : ∃ t ∈ ts, f t.1 t.2.1 = panic) : mapTrips f ts = panic := by
  induction ts with
  | nil => obtain ⟨t, ht, _⟩ := h; cases ht
  | cons t ts ih =>
    obtain ⟨i, j, a⟩ := t
    rw [mapTrips]
    cases hf : f i j with
    | panic => rfl
    | err => exact absurd hf (hne (i, j, a) (by simp))
    | ok r =>
      have : mapTrips f ts = panic := by
        apply ih (fun t ht => hne t (by simp [ht]))
        obtain ⟨t, ht, hp⟩ := h
        rcases List.mem_cons.mp ht with rfl | ht'
        · simp only at hp; rw [hf] at hp; cases hp
        · exact ⟨t, ht', hp⟩
      simp [this]

/-- entries of the relocated triplets: the sum of everything that is sent to `(i', j')` -/
theorem entryT_filterMap (g : Nat → Nat → Option (Nat × Nat)) (ts : List (Trip R)) (i' j' : Nat) :
    entryT (ts.filterMap (fun t => (g t.1 t.2.1).map (fun x => (x.1, x.2, t.2.2)))) i' j'
      = ((ts.filter (fun t => g t.1 t.2.1 = some (i', j'))).map (·.2.2)).sum := by
  induction ts with
  | nil => rfl
  | cons t ts ih =>
    obtain ⟨i, j, a⟩ := t
    rw [List.filterMap_cons, List.filter_cons]
    cases hg : g i j with
    | none => simp [ih]
    | some x =>
      obtain ⟨x1, x2⟩ := x
      simp only [Option.map_some, entryT_cons, ih]
      by_cases hx : x1 = i' ∧ x2 = j'
      · obtain ⟨rfl, rfl⟩ := hx; simp
      · have : ¬ ((x1, x2) = (i', j')) := by simpa [Prod.ext_iff] using hx
        simp [hx, this]

theorem decide_eq_beq_and {P : Prop} [Decidable P] (a i b j : Nat) (h : P ↔ a = i ∧ b = j) :
    decide P = (a == i && b == j) := by
  by_cases hp : P
  · have := h.mp hp; simp [hp, this.1, this.2]
  · have hn : ¬ (a = i ∧ b = j) := fun e => hp (h.mpr e)
    rw [decide_eq_false hp]; symm
    rw [Bool.and_eq_false_iff]
    by_cases e : a = i
    · right; simpa using fun e2 => hn ⟨e, e2⟩
    · left; simpa using e

theorem sum_filter_congr (ts : List (Trip R)) (P Q : Trip R → Bool) (h : ∀ t ∈ ts, P t = Q t) :
    ((ts.filter P).map (·.2.2)).sum = ((ts.filter Q).map (·.2.2)).sum := by
  rw [List.filter_congr h]

/-- if exactly the triplets at `(i, j)` are sent to `(i', j')`, the new entry is the old one -/
theorem entryT_filterMap_of_iff (g : Nat → Nat → Option (Nat × Nat)) (ts : List (Trip R)) (i j i' j' : Nat)
    (h : ∀ t ∈ ts, g t.1 t.2.1 = some (i', j') ↔ t.1 = i ∧ t.2.1 = j) :
    entryT (ts.filterMap (fun t => (g t.1 t.2.1).map (fun x => (x.1, x.2, t.2.2)))) i' j' = entryT ts i j := by
  rw [entryT_filterMap]
  unfold entryT
  apply sum_filter_congr
  intro t ht
  exact decide_eq_beq_and _ _ _ _ (h t ht)

theorem mem_filterMap_trips (g : Nat → Nat → Option (Nat × Nat)) (ts : List (Trip R)) (u : Trip R)
    (hu : u ∈ ts.filterMap (fun t => (g t.1 t.2.1).map (fun x => (x.1, x.2, t.2.2)))) :
    ∃ t ∈ ts, g t.1 t.2.1 = some (u.1, u.2.1) ∧ u.2.2 = t.2.2 := by
  rw [List.mem_filterMap] at hu
  obtain ⟨t, ht, h⟩ := hu
  refine ⟨t, ht, ?_⟩
  cases hg : g t.1 t.2.1 with
  | none => simp [hg] at h
  | some x => simp [hg] at h; subst h; simp

/-- general description of `extract` for a total relocation `g` -/
theorem extract_spec (A : SpMat R) (m n : Nat) (f : Nat → Nat → Res (Option (Nat × Nat)))
    (g : Nat → Nat → Option (Nat × Nat))
    (hf : ∀ t ∈ A.triplets, f t.1 t.2.1 = ok (g t.1 t.2.1))
    (hg : ∀ t ∈ A.triplets, ∀ x, g t.1 t.2.1 = some x → x.1 < m ∧ x.2 < n) :
    ∃ B, A.extract m n f = ok B ∧ B.nrows = m ∧ B.ncols = n ∧ B.WF ∧
      ∀ i' j', i' < m → j' < n →
        B.entry i' j' = ((A.triplets.filter (fun t => g t.1 t.2.1 = some (i', j'))).map (·.2.2)).sum := by
  unfold SpMat.extract
  rw [mapTrips_ok f g _ hf]
  simp only [bind_ok]
  have hs : InShape m n (A.triplets.filterMap (fun t => (g t.1 t.2.1).map (fun x => (x.1, x.2, t.2.2)))) := by
    intro u hu _
    obtain ⟨t, ht, h1, _⟩ := mem_filterMap_trips g _ u hu
    exact hg t ht _ h1
  rw [fromEntries_ok _ _ _ hs]
  obtain ⟨h1, h2, h3, h4⟩ := fromEntries_spec m n _ _ (fromEntries_ok _ _ _ hs)
  refine ⟨_, rfl, h1, h2, h3, ?_⟩
  intro i' j' hi hj
  rw [h4, if_pos ⟨hi, hj⟩, entryT_filterMap]

/-! ### `permute`, `submat` -/

theorem permute_spec (A : SpMat R) (hA : A.WF) (p q : Perm) (hp : p.Valid) (hq : q.Valid)
    (hpd : p.dim = A.nrows) (hqd : q.dim = A.ncols) :
    ∃ B, A.permute p q = ok B ∧ B.nrows = A.nrows ∧ B.ncols = A.ncols ∧ B.WF ∧
      ∀ i j, i < A.nrows → j < A.ncols → B.entry (p.fn i) (q.fn j) = A.entry i j := by
  unfold SpMat.permute
  obtain ⟨B, hB, h1, h2, h3, h4⟩ := extract_spec A A.nrows A.ncols
    (fun i j => do let i' ← p.at i; let j' ← q.at j; ok (some (i', j')))
    (fun i j => some (p.fn i, q.fn j))
    (by
      intro t ht
      have hb := hA.trip_bound ht
      simp [p.at_ok hp t.1 (by omega), q.at_ok hq t.2.1 (by omega)])
    (by
      intro t ht x hx
      have hb := hA.trip_bound ht
      simp only [Option.some.injEq] at hx; subst hx
      exact ⟨by rw [← hpd]; exact p.fn_lt hp _ (by omega), by rw [← hqd]; exact q.fn_lt hq _ (by omega)⟩)
  refine ⟨B, hB, h1, h2, h3, ?_⟩
  intro i j hi hj
  rw [h4 _ _ (by rw [← hpd]; exact p.fn_lt hp _ (by omega)) (by rw [← hqd]; exact q.fn_lt hq _ (by omega)),
    ← entryT_triplets]
  unfold entryT
  apply sum_filter_congr
  intro t ht
  have hb := hA.trip_bound ht
  apply decide_eq_beq_and
  simp only [Option.some.injEq, Prod.mk.injEq]
  constructor
  · rintro ⟨e1, e2⟩
    exact ⟨p.fn_inj hp _ _ (by omega) (by omega) e1, q.fn_inj hq _ _ (by omega) (by omega) e2⟩
  · rintro ⟨e1, e2⟩; rw [e1, e2]; exact ⟨rfl, rfl⟩

theorem submat_spec (A : SpMat R) (hA : A.WF) (i0 i1 j0 j1 : Nat)
    (hi : i0 ≤ i1 ∧ i1 ≤ A.nrows) (hj : j0 ≤ j1 ∧ j1 ≤ A.ncols) :
    ∃ B, A.submat i0 i1 j0 j1 = ok B ∧ B.nrows = i1 - i0 ∧ B.ncols = j1 - j0 ∧ B.WF ∧
      ∀ i j, i < i1 - i0 → j < j1 - j0 → B.entry i j = A.entry (i0 + i) (j0 + j) := by
  unfold SpMat.submat
  simp only [Res.assert, hi.1, hi.2, hj.1, hj.2, decide_true, Bool.and_self, if_true, bind_ok]
  obtain ⟨B, hB, h1, h2, h3, h4⟩ := extract_spec A (i1 - i0) (j1 - j0)
    (fun i j => ok (if (i0 ≤ i && i < i1) && (j0 ≤ j && j < j1) then some (i - i0, j - j0) else none))
    (fun i j => if (i0 ≤ i && i < i1) && (j0 ≤ j && j < j1) then some (i - i0, j - j0) else none)
    (fun t _ => rfl)
    (by
      intro t _ x hx
      split at hx
      · rename_i hc
        simp only [Bool.and_eq_true, decide_eq_true_eq] at hc
        simp only [Option.some.injEq] at hx; subst hx
        simp only; omega
      · cases hx)
  refine ⟨B, hB, h1, h2, h3, ?_⟩
  intro i j hi' hj'
  rw [h4 i j hi' hj', ← entryT_triplets]
  unfold entryT
  apply sum_filter_congr
  intro t ht
  have hb := hA.trip_bound ht
  apply decide_eq_beq_and
  split
  · rename_i hc
    simp only [Bool.and_eq_true, decide_eq_true_eq] at hc
    simp only [Option.some.injEq, Prod.mk.injEq]
    omega
  · rename_i hc
    simp only [Bool.and_eq_true, decide_eq_true_eq] at hc
    simp only [reduceCtorEq, false_iff]
    omega

theorem submat_reject (A : SpMat R) (i0 i1 j0 j1 : Nat)
    (h : ¬ ((i0 ≤ i1 ∧ i1 ≤ A.nrows) ∧ (j0 ≤ j1 ∧ j1 ≤ A.ncols))) : A.submat i0 i1 j0 j1 = panic := by
  unfold SpMat.submat
  by_cases h1 : i0 ≤ i1 ∧ i1 ≤ A.nrows
  · have h2 : ¬ (j0 ≤ j1 ∧ j1 ≤ A.ncols) := fun e => h ⟨h1, e⟩
    have : (decide (j0 ≤ j1) && decide (j1 ≤ A.ncols)) = false := by
      rw [Bool.and_eq_false_iff]; simp only [decide_eq_false_iff_not]; omega
    simp [Res.assert, h1.1, h1.2, this]
  · have : (decide (i0 ≤ i1) && decide (i1 ≤ A.nrows)) = false := by
      rw [Bool.and_eq_false_iff]; simp only [decide_eq_false_iff_not]; omega
    simp [Res.assert, this]

/-! ### sparse vectors -/

def SpVec.WF (v : SpVec R) : Prop := v.toMat.WF

theorem SpVec.toMat_entry (v : SpVec R) (i : Nat) : v.toMat.entry i 0 = v.entry i := rfl

theorem intoSpVec_spec (A : SpMat R) (hA : A.WF) (h : A.ncols = 1) :
    ∃ v, A.intoSpVec = ok v ∧ v.dim = A.nrows ∧ v.WF ∧ ∀ i, v.entry i = A.entry i 0 := by
  refine ⟨⟨A.nrows, A.cols.getD 0 []⟩, by simp [SpMat.intoSpVec, h], rfl, ?_, fun i => rfl⟩
  have hl := hA.len
  rw [h] at hl
  obtain ⟨c, hc⟩ := List.length_eq_one_iff.mp hl
  unfold SpVec.WF SpVec.toMat
  simp only [hc, List.getD_cons_zero]
  exact ⟨rfl, by simpa [hc] using hA.bound, by simpa [hc] using hA.sorted⟩


end Yuiv.C13
