import Yuiv.Proofs.C11Kahn
/-
C11 — the fuel of `traverse` always suffices (the model's `while let Some(j) = dequeue()` loop terminates
within `P.length + queue.length + 1` iterations), so a `search` step never fails for lack of fuel.
-/
namespace Yuiv.C11
open Yuiv Res Std

/-- pivot columns of the snapshot that have not been queued yet, plus the queue length -/
def travMeasure (P : Pivs) (w : Worker) : Nat :=
  (P.map (·.2)).countP (fun j => !w.queued.contains j) + w.queue.length

theorem countP_cons_le (V qd : List Nat) (j : Nat) :
    V.countP (fun v => !(j :: qd).contains v) ≤ V.countP (fun v => !qd.contains v) := by
  induction V with
  | nil => simp
  | cons a V ih =>
    rw [List.countP_cons, List.countP_cons]
    by_cases h1 : (j :: qd).contains a = true
    · simp only [h1, Bool.not_true, Bool.false_eq_true, if_false, Nat.add_zero]; omega
    · have h1' : (j :: qd).contains a = false := by simpa using h1
      have h2 : qd.contains a = false := by
        simp only [List.contains_eq_mem, List.mem_cons, not_or, decide_eq_false_iff_not] at h1' ⊢
        exact h1'.2
      simp only [h1', h2, Bool.not_false, if_true]; omega

theorem countP_cons_new (V qd : List Nat) (j : Nat) (hj : j ∈ V) (hq : j ∉ qd) :
    V.countP (fun v => !(j :: qd).contains v) + 1 ≤ V.countP (fun v => !qd.contains v) := by
  induction V with
  | nil => simp at hj
  | cons a V ih =>
    rw [List.countP_cons, List.countP_cons]
    by_cases ha : a = j
    · subst ha
      have h1 : (a :: qd).contains a = true := by simp
      have h2 : qd.contains a = false := by simpa using hq
      simp only [h1, h2, Bool.not_true, Bool.not_false, Bool.false_eq_true, if_false, if_true, Nat.add_zero]
      have := countP_cons_le V qd a
      omega
    · have hjV : j ∈ V := by
        rcases List.mem_cons.1 hj with h | h
        · exact absurd h.symm ha
        · exact h
      have := ih hjV
      have h1 : (j :: qd).contains a = qd.contains a := by simp [ha]
      rw [h1]
      omega

theorem setOccupied_ne_err (w : Worker) (j : Nat) : w.setOccupied j ≠ .err := by
  unfold Worker.setOccupied
  split
  · split <;> intro h <;> cases h
  · intro h; cases h

theorem setOccupied_queues {w w' : Worker} {j : Nat} (h : w.setOccupied j = .ok w') :
    w'.queue = w.queue ∧ w'.queued = w.queued := by
  unfold Worker.setOccupied at h
  split at h
  · split at h
    · cases h
    · cases h; exact ⟨rfl, rfl⟩
  · cases h; exact ⟨rfl, rfl⟩

theorem rowLoop_measure (P : Pivs) (js : List Nat) : ∀ (w : Worker),
    rowLoop P js w ≠ .err ∧ ∀ w', rowLoop P js w = .ok w' → travMeasure P w' ≤ travMeasure P w := by
  induction js with
  | nil => intro w; exact ⟨(fun h => nomatch h), fun w' h => by cases h; exact Nat.le_refl _⟩
  | cons j2 js ih =>
    intro w
    rw [rowLoop]
    generalize hw1 : (if (hasCol P j2 && !w.isQueued j2) = true then w.enqueue j2 else w) = w1
    have hm1 : travMeasure P w1 ≤ travMeasure P w := by
      by_cases hc : (hasCol P j2 && !w.isQueued j2) = true
      · rw [if_pos hc] at hw1; subst hw1
        simp only [Bool.and_eq_true, Bool.not_eq_true', Worker.isQueued] at hc
        have hj : j2 ∈ P.map (·.2) := hasCol_iff.1 hc.1
        have hq : j2 ∉ w.queued := by simpa using hc.2
        have := countP_cons_new (P.map (·.2)) w.queued j2 hj hq
        simp only [travMeasure, Worker.enqueue, List.length_append, List.length_cons, List.length_nil]
        omega
      · rw [if_neg hc] at hw1; subst hw1; exact Nat.le_refl _
    cases hso : w1.setOccupied j2 with
    | err => exact absurd hso (setOccupied_ne_err w1 j2)
    | panic => rw [Res.bind_panic]; exact ⟨(fun h => nomatch h), fun w' h => nomatch h⟩
    | ok w2 =>
      obtain ⟨hq1, hq2⟩ := setOccupied_queues hso
      have hm2 : travMeasure P w2 = travMeasure P w1 := by simp only [travMeasure, hq1, hq2]
      rw [Res.bind_ok]
      split
      · refine ⟨(fun h => nomatch h), fun w' h => ?_⟩
        cases h; omega
      · obtain ⟨h1, h2⟩ := ih w2
        refine ⟨h1, fun w' h => ?_⟩
        have := h2 w' h; omega

theorem travLoop_ne_err (s : Str) (P : Pivs) : ∀ (fuel : Nat) (w : Worker), travMeasure P w + 1 ≤ fuel →
    travLoop s P fuel w ≠ .err := by
  intro fuel
  induction fuel with
  | zero => intro w h; omega
  | succ fuel ih =>
    intro w h
    rw [travLoop]
    cases hq : w.queue with
    | nil => intro h; cases h
    | cons j q =>
      simp only
      cases hr : rowFor P j with
      | none => intro h; cases h
      | some i2 =>
        simp only
        obtain ⟨h1, h2⟩ := rowLoop_measure P (colsIn s i2) { w with queue := q }
        cases hrl : rowLoop P (colsIn s i2) { w with queue := q } with
        | err => exact absurd hrl h1
        | panic => rw [Res.bind_panic]; intro h; cases h
        | ok w1 =>
          rw [Res.bind_ok]
          apply ih
          have := h2 w1 hrl
          have hm : travMeasure P { w with queue := q } + 1 = travMeasure P w := by
            simp only [travMeasure, hq, List.length_cons]; omega
          omega

/-- the fuel given to `traverse` always suffices -/
theorem traverse_ne_err (s : Str) (P : Pivs) (w : Worker) : traverse s P w ≠ .err := by
  unfold traverse
  split
  · intro h; cases h
  · apply travLoop_ne_err
    have : (P.map (·.2)).countP (fun j => !w.queued.contains j) ≤ (P.map (·.2)).length := List.countP_le_length
    simp only [List.length_map] at this
    simp only [travMeasure]
    omega

end Yuiv.C11
