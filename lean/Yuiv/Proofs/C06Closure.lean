import Yuiv.Proofs.C18InvBraid
import Yuiv.Proofs.C18BridgeDefs
import Yuiv.Proofs.C06CycleMain
/-
C06Closure — the hypothesis H of `canon_is_cycle` for BRAID CLOSURES (helper; property theorems in
`Props/C06Closure.lean`).

For `closure n w = .ok l` every label `e` has a strand position `posLab n w e`; the crossing of the letter `σ_g^{±1}` has
two labels at position `g` and two at position `g+1`, and in the orientation preserving state `braidState w` (bit `j` =
"letter `j` is negative") both arcs of every crossing join labels of the SAME position.  Hence the position is constant on
every circle of that state, every crossing touches exactly two circles (positions `g`, `g+1`), and colouring a circle by
the parity of its position is a proper colouring: `bicoloured` holds.
-/
namespace Yuiv.C06Closure
open Yuiv Yuiv.KhRef Yuiv.C04Inv Yuiv.C06Cycle Yuiv.C06Canon
open Yuiv.C18 (closure BForm closure_bform posLab bX closure_valid')
open Yuiv.C18Bridge (toKh crossingKh ctKh)

/-- colour of a strand position -/
def par (n : Nat) : Colour := if n % 2 = 0 then .a else .b

/-- resolution bits of the orientation preserving state: `true` (1-resolution) for a negative letter -/
def braidBits (w : List Int) : List Bool := w.map (fun s => !(decide (s > 0)))

/-- the orientation preserving state of the closure of `w` (all strands downwards) -/
def braidState (w : List Int) : Nat := bitsToNat (braidBits w)

/-- the colours of the circles of `cs` by the parity of the strand position -/
def parityCols (n : Nat) (w : List Int) (cs : Array (Array Nat)) : List Colour :=
  cs.toList.map (fun c => par (posLab n w (c[0]!)))

theorem braidState_eq (w : List Int) :
    braidState w = oriPresState (w.map (fun s => if s > 0 then (1 : Int) else -1)) := by
  unfold braidState braidBits oriPresState oriPresBits
  rw [List.map_map]
  congr 1
  apply List.map_congr_left
  intro s _
  by_cases hs : s > 0 <;> simp [hs]

theorem testBit_bitsToNat (bs : List Bool) (j : Nat) : (bitsToNat bs).testBit j = bs.getD j false := by
  induction bs generalizing j with
  | nil => simp [bitsToNat]
  | cons b bs ih =>
    have hdiv : ((if b then 1 else 0) + 2 * bitsToNat bs) / 2 = bitsToNat bs := by
      cases b <;> simp <;> omega
    cases j with
    | zero =>
      simp only [bitsToNat, Nat.testBit_zero, List.getD_cons_zero]
      cases b <;> simp <;> omega
    | succ j =>
      simp only [bitsToNat, Nat.testBit_succ, hdiv, List.getD_cons_succ]
      exact ih j

theorem braidState_lt (w : List Int) : braidState w < 2 ^ w.length := by
  have := bitsToNat_lt (braidBits w)
  simpa [braidState, braidBits] using this

/-- all crossings unresolved of type `X`: the resolved type at position `j` is decided by bit `j` -/
theorem resTypes_allX (L : List Crossing) (hL : ∀ c ∈ L, c.ct = .X) (s j : Nat) :
    (resTypes L s)[j]? = (L[j]?).map (fun _ => CT.X.resolve (s.testBit j)) := by
  induction L generalizing s j with
  | nil => simp [resTypes]
  | cons c cs ih =>
    have hc : c.ct = .X := hL c (by simp)
    have hres : c.ct.isResolved = false := by rw [hc]; rfl
    unfold resTypes
    simp only [hres, Bool.false_eq_true, if_false]
    cases j with
    | zero => simp [hc]
    | succ j =>
      simp only [List.getElem?_cons_succ]
      rw [ih (fun c' hc' => hL c' (List.mem_cons_of_mem _ hc')) (s / 2) j, Nat.testBit_succ]

theorem arcs_pos (i0 i1 o0 o1 : Nat) :
    arcs (crossingKh ⟨.X, i0, o0, o1, i1⟩) (CT.X.resolve (!true)) = [(i0, o0), (o1, i1)] := rfl

theorem arcs_neg (i0 i1 o0 o1 : Nat) :
    arcs (crossingKh ⟨.X, i0, i1, o0, o1⟩) (CT.X.resolve (!false)) = [(i0, o1), (i1, o0)] := rfl

section closure
variable {n : Nat} {w : List Int} {l : C18.Link} {ins outs : List Nat}

theorem toKh_getElem? (l : C18.Link) (j : Nat) : (toKh l).toList[j]? = (l[j]?).map crossingKh := by
  simp [toKh]

theorem toKh_allX (hB : BForm n w l ins outs) : ∀ c ∈ (toKh l).toList, c.ct = .X := by
  intro c hc
  obtain ⟨j, hj, e⟩ := List.getElem_of_mem hc
  have hj' : j < w.length := by simpa [toKh, hB.len] using hj
  have h1 : (toKh l).toList[j]? = some c := by rw [List.getElem?_eq_getElem hj, e]
  rw [toKh_getElem?, (hB.cr j hj').2] at h1
  simp only [Option.map_some, Option.some.injEq] at h1
  rw [← h1]
  unfold bX crossingKh
  split <;> rfl

theorem crossingNum_toKh_closure (hB : BForm n w l ins outs) : crossingNum (toKh l) = w.length := by
  unfold crossingNum
  have : (toKh l).filter (fun c => !c.ct.isResolved) = toKh l := by
    apply Array.toList_inj.1
    rw [Array.toList_filter, List.filter_eq_self]
    intro c hc
    rw [toKh_allX hB c hc]; rfl
  rw [this]
  simp [toKh, hB.len]

/-- the pairs of the orientation preserving state join labels of equal strand position; more precisely they are the
two pairs (entrance, exit) at the two positions of the crossing -/
theorem statePairs_closure (hB : BForm n w l ins outs) (p : Nat × Nat) :
    p ∈ statePairs (toKh l) (braidState w) ↔ ∃ j, j < w.length ∧
      (p = (if w.getD j 0 > 0 then (ins.getD (2 * j) 0, outs.getD (2 * j) 0)
            else (ins.getD (2 * j) 0, outs.getD (2 * j + 1) 0)) ∨
       p = (if w.getD j 0 > 0 then (outs.getD (2 * j + 1) 0, ins.getD (2 * j + 1) 0)
            else (ins.getD (2 * j + 1) 0, outs.getD (2 * j) 0))) := by
  unfold statePairs
  rw [mem_pairsL_iff]
  have hbit : ∀ j, j < w.length → (braidState w).testBit j = !(decide (w.getD j 0 > 0)) := by
    intro j hj
    unfold braidState
    rw [testBit_bitsToNat]
    unfold braidBits
    rw [List.getD_eq_getElem?_getD, List.getElem?_map, List.getD_eq_getElem?_getD, List.getElem?_eq_getElem hj]
    rfl
  constructor
  · rintro ⟨j, c, t, h1, h2, h3⟩
    rw [resTypes_allX _ (toKh_allX hB), h1] at h2
    simp only [Option.map_some, Option.some.injEq] at h2
    have hj : j < w.length := by
      have := (List.getElem?_eq_some_iff.1 h1).1
      simpa [toKh, hB.len] using this
    rw [toKh_getElem?, (hB.cr j hj).2] at h1
    simp only [Option.map_some, Option.some.injEq] at h1
    refine ⟨j, hj, ?_⟩
    rw [hbit j hj] at h2
    subst h1 h2
    by_cases hs : w.getD j 0 > 0
    · rw [if_pos hs, if_pos hs]
      rw [bX, if_pos hs, decide_eq_true hs, arcs_pos] at h3
      simpa using h3
    · rw [if_neg hs, if_neg hs]
      rw [bX, if_neg hs, decide_eq_false hs, arcs_neg] at h3
      simpa using h3
  · rintro ⟨j, hj, hp⟩
    refine ⟨j, crossingKh (bX (w.getD j 0) (ins.getD (2 * j) 0) (ins.getD (2 * j + 1) 0) (outs.getD (2 * j) 0)
      (outs.getD (2 * j + 1) 0)), CT.X.resolve (!(decide (w.getD j 0 > 0))), ?_, ?_, ?_⟩
    · rw [toKh_getElem?, (hB.cr j hj).2]; rfl
    · rw [resTypes_allX _ (toKh_allX hB), toKh_getElem?, (hB.cr j hj).2, hbit j hj]; rfl
    · by_cases hs : w.getD j 0 > 0
      · rw [if_pos hs, if_pos hs] at hp
        rw [bX, if_pos hs, decide_eq_true hs, arcs_pos]
        simpa using hp
      · rw [if_neg hs, if_neg hs] at hp
        rw [bX, if_neg hs, decide_eq_false hs, arcs_neg]
        simpa using hp

/-- the strand position is constant along the arcs … -/
theorem pos_of_pair (hB : BForm n w l ins outs) (p : Nat × Nat) (hp : p ∈ statePairs (toKh l) (braidState w)) :
    posLab n w p.1 = posLab n w p.2 := by
  obtain ⟨j, hj, h⟩ := (statePairs_closure hB p).1 hp
  obtain ⟨p1, p2, p3, p4⟩ := hB.pos j hj
  by_cases hs : w.getD j 0 > 0
  · simp only [hs, if_true] at h p1 p2
    rcases h with rfl | rfl
    · simp only; rw [p1, p3]; omega
    · simp only; rw [p4, p2]
  · simp only [hs, if_false] at h p1 p2
    rcases h with rfl | rfl
    · simp only; rw [p1, p4]
    · simp only; rw [p2, p3]; omega

/-- … hence on the circles of the orientation preserving state -/
theorem pos_of_conn (hB : BForm n w l ins outs) {x y : Nat} (h : Conn (statePairs (toKh l) (braidState w)) x y) :
    posLab n w x = posLab n w y := by
  induction h with
  | rel x y h => exact pos_of_pair hB (x, y) h
  | refl x => rfl
  | symm x y _ ih => exact ih.symm
  | trans x y z _ _ ih1 ih2 => exact ih1.trans ih2

/-- validity of the translated closure -/
theorem validK_toKh (l : C18.Link) (hv : C18.Valid l) : validK (toKh l) = true := by
  unfold validK
  have hs : slotLabels (toKh l) = C18.allEdges l := by
    unfold slotLabels C18.allEdges toKh
    simp only [List.flatMap_map]
    rfl
  rw [Bool.and_eq_true]
  constructor
  · rw [Array.all_eq_true_iff_forall_mem]
    intro c hc
    simp only [toKh, List.mem_toArray, List.mem_map] at hc
    obtain ⟨c', _, rfl⟩ := hc
    rfl
  · rw [hs, List.all_eq_true]
    intro x hx
    simpa using hv x hx

end closure

/-- `bicoloured` from its three clauses -/
theorem bicoloured_intro (l : Link) (cs : Array (Array Nat)) (cols : List Colour)
    (h : ∀ x ∈ l, x.ct.isResolved = false →
      (∀ e ∈ x.e.toList, circleIdx cs e < cs.size) ∧
      (∃ e1 ∈ x.e.toList, ∃ e2 ∈ x.e.toList, circleIdx cs e1 ≠ circleIdx cs e2) ∧
      (∀ e1 ∈ x.e.toList, ∀ e2 ∈ x.e.toList, circleIdx cs e1 ≠ circleIdx cs e2 →
        cols.getD (circleIdx cs e1) .a ≠ cols.getD (circleIdx cs e2) .a)) :
    bicoloured l cs cols = true := by
  unfold bicoloured
  rw [Array.all_eq_true_iff_forall_mem]
  intro x hx
  cases hr : x.ct.isResolved
  · obtain ⟨h1, ⟨e1, he1, e2, he2, hne⟩, h3⟩ := h x hx hr
    simp only [Bool.false_or, Bool.and_eq_true, List.all_eq_true, List.any_eq_true, List.mem_map,
      decide_eq_true_eq, Bool.or_eq_true, beq_iff_eq, bne_iff_ne, ne_eq]
    refine ⟨⟨?_, ?_⟩, ?_⟩
    · rintro i ⟨e, he, rfl⟩; exact h1 e he
    · exact ⟨_, ⟨e1, he1, rfl⟩, _, ⟨e2, he2, rfl⟩, hne⟩
    · rintro i ⟨e, he, rfl⟩ j ⟨e', he', rfl⟩
      by_cases heq : circleIdx cs e = circleIdx cs e'
      · exact Or.inl heq
      · exact Or.inr (h3 e he e' he' heq)
  · simp

theorem par_ne (g : Nat) : par g ≠ par (g + 1) := by
  unfold par
  rcases Nat.mod_two_eq_zero_or_one g with h | h
  · rw [if_pos h, if_neg (by omega)]; exact fun h => Colour.noConfusion h
  · rw [if_neg (by omega), if_pos (by omega)]; exact fun h => Colour.noConfusion h

/-- four labels, two at position `g` (joined by `R`), two at position `g+1` (joined by `R`) -/
theorem four_labels (f : Nat → Nat) (R : Nat → Nat → Prop) (hrefl : ∀ x, R x x) (hsymm : ∀ x y, R x y → R y x)
    (a b c d g : Nat) (ha : f a = g) (hb : f b = g) (hc : f c = g + 1) (hd : f d = g + 1) (hab : R a b) (hcd : R c d)
    (L : List Nat) (hL : ∀ e, e ∈ L ↔ e = a ∨ e = b ∨ e = c ∨ e = d) :
    (∀ e ∈ L, f e = g ∨ f e = g + 1) ∧ (∀ e ∈ L, ∀ e' ∈ L, f e = f e' → R e e') ∧
      (∃ e ∈ L, ∃ e' ∈ L, f e = g ∧ f e' = g + 1) := by
  refine ⟨?_, ?_, ⟨a, (hL a).2 (Or.inl rfl), c, (hL c).2 (Or.inr (Or.inr (Or.inl rfl))), ha, hc⟩⟩
  · intro e he
    rcases (hL e).1 he with rfl | rfl | rfl | rfl
    · exact Or.inl ha
    · exact Or.inl hb
    · exact Or.inr hc
    · exact Or.inr hd
  · intro e he e' he' hf
    rcases (hL e).1 he with rfl | rfl | rfl | rfl <;> rcases (hL e').1 he' with rfl | rfl | rfl | rfl <;>
      first
        | exact hrefl _
        | exact hab
        | exact hcd
        | exact hsymm _ _ hab
        | exact hsymm _ _ hcd
        | (exfalso; omega)

section closure2
variable {n : Nat} {w : List Int} {l : C18.Link} {ins outs : List Nat}

/-- the crossing of letter `j`: positions `g`, `g+1` only; equal positions are joined by an arc of the orientation
preserving state; both positions occur -/
theorem crossing_facts (hB : BForm n w l ins outs) (j : Nat) (hj : j < w.length) :
    let x := crossingKh (bX (w.getD j 0) (ins.getD (2 * j) 0) (ins.getD (2 * j + 1) 0) (outs.getD (2 * j) 0)
      (outs.getD (2 * j + 1) 0))
    let g := (w.getD j 0).natAbs - 1
    let P := statePairs (toKh l) (braidState w)
    (∀ e ∈ x.e.toList, posLab n w e = g ∨ posLab n w e = g + 1) ∧
      (∀ e ∈ x.e.toList, ∀ e' ∈ x.e.toList, posLab n w e = posLab n w e' → Conn P e e') ∧
      (∃ e ∈ x.e.toList, ∃ e' ∈ x.e.toList, posLab n w e = g ∧ posLab n w e' = g + 1) := by
  intro x g P
  obtain ⟨p1, p2, p3, p4⟩ := hB.pos j hj
  have hpair : ∀ p, (p = (if w.getD j 0 > 0 then (ins.getD (2 * j) 0, outs.getD (2 * j) 0)
            else (ins.getD (2 * j) 0, outs.getD (2 * j + 1) 0)) ∨
       p = (if w.getD j 0 > 0 then (outs.getD (2 * j + 1) 0, ins.getD (2 * j + 1) 0)
            else (ins.getD (2 * j + 1) 0, outs.getD (2 * j) 0))) → Conn P p.1 p.2 := fun p hp =>
    Conn.of_mem ((statePairs_closure hB p).2 ⟨j, hj, hp⟩)
  by_cases hs : w.getD j 0 > 0
  · simp only [hs, if_true] at hpair p1 p2
    have hx : x.e.toList = [ins.getD (2 * j) 0, outs.getD (2 * j) 0, outs.getD (2 * j + 1) 0, ins.getD (2 * j + 1) 0] := by
      show (crossingKh (bX _ _ _ _ _)).e.toList = _
      rw [bX, if_pos hs]; rfl
    rw [hx]
    exact four_labels (posLab n w) (Conn P) Conn.refl (fun _ _ h => h.symm) _ _ _ _ g (by rw [p1]; omega) p3 p4 (by rw [p2])
      (hpair (_, _) (Or.inl rfl)) (hpair (_, _) (Or.inr rfl)) _ (by intro e; simp only [List.mem_cons, List.not_mem_nil, or_false])
  · simp only [hs, if_false] at hpair p1 p2
    have hx : x.e.toList = [ins.getD (2 * j) 0, ins.getD (2 * j + 1) 0, outs.getD (2 * j) 0, outs.getD (2 * j + 1) 0] := by
      show (crossingKh (bX _ _ _ _ _)).e.toList = _
      rw [bX, if_neg hs]; rfl
    rw [hx]
    exact four_labels (posLab n w) (Conn P) Conn.refl (fun _ _ h => h.symm) _ _ _ _ g (by rw [p2]; omega) p3 (by rw [p1]) p4
      (hpair (_, _) (Or.inr rfl)) (hpair (_, _) (Or.inl rfl)) _ (by intro e; simp only [List.mem_cons, List.not_mem_nil, or_false]; tauto)

theorem mem_toKh_closure (hB : BForm n w l ins outs) (x : Crossing) (hx : x ∈ toKh l) :
    ∃ j, j < w.length ∧ x = crossingKh (bX (w.getD j 0) (ins.getD (2 * j) 0) (ins.getD (2 * j + 1) 0)
      (outs.getD (2 * j) 0) (outs.getD (2 * j + 1) 0)) := by
  obtain ⟨j, hj, e⟩ := List.getElem_of_mem (Array.mem_toList_iff.2 hx)
  have hj' : j < w.length := by simpa [toKh, hB.len] using hj
  have h1 : (toKh l).toList[j]? = some x := by rw [List.getElem?_eq_getElem hj, e]
  rw [toKh_getElem?, (hB.cr j hj').2] at h1
  simp only [Option.map_some, Option.some.injEq] at h1
  exact ⟨j, hj', h1.symm⟩

theorem parityCols_getD (cs : Array (Array Nat)) (i : Nat) (hi : i < cs.size) :
    (parityCols n w cs).getD i .a = par (posLab n w ((cs[i]!)[0]!)) := by
  unfold parityCols
  rw [List.getD_eq_getElem?_getD, List.getElem?_map, Array.getElem?_toList, Array.getElem?_eq_getElem hi,
    getElem!_pos cs i hi]
  rfl

/-- **H for braid closures.** -/
theorem bicoloured_closure (hB : BForm n w l ins outs) (hv : validK (toKh l) = true) :
    bicoloured (toKh l) (circles (toKh l) (edgeLabels (toKh l)) (braidState w))
      (parityCols n w (circles (toKh l) (edgeLabels (toKh l)) (braidState w))) = true := by
  have spec := circles_spec (toKh l) (wf_of_validK _ hv) (braidState w)
  generalize circles (toKh l) (edgeLabels (toKh l)) (braidState w) = cs at spec
  -- colour of the circle through `e`
  have hcol : ∀ i e, i < cs.size → e ∈ cs[i]! → (parityCols n w cs).getD i .a = par (posLab n w e) := by
    intro i e hi he
    rw [parityCols_getD cs i hi]
    have h0 : (cs[i]!)[0]! ∈ cs[i]! := by
      have hpos : 0 < (cs[i]!).size := by
        rcases Nat.eq_zero_or_pos (cs[i]!).size with h | h
        · rw [Array.size_eq_zero_iff.1 h] at he; simp at he
        · exact h
      rw [getElem!_pos (cs[i]!) 0 hpos]; exact Array.getElem_mem hpos
    rw [pos_of_conn hB (spec.conn_of_mem hi h0 he)]
  apply bicoloured_intro
  intro x hx _
  obtain ⟨j, hj, rfl⟩ := mem_toKh_closure hB x hx
  obtain ⟨f1, f2, e1, he1, e2, he2, q1, q2⟩ := crossing_facts hB j hj
  -- every label of the crossing lies on a circle
  have hcov : ∀ e ∈ (crossingKh (bX (w.getD j 0) (ins.getD (2 * j) 0) (ins.getD (2 * j + 1) 0) (outs.getD (2 * j) 0)
      (outs.getD (2 * j + 1) 0))).e.toList, ∃ i, i < cs.size ∧ e ∈ cs[i]! ∧ circleIdx cs e = i := by
    intro e he
    obtain ⟨i, hi, hm⟩ := spec.cover e ((mem_edgeLabels _ e).2 ⟨_, hx, by simpa using he⟩)
    exact ⟨i, hi, hm, circleIdx_of_mem spec hi hm⟩
  refine ⟨?_, ⟨e1, he1, e2, he2, ?_⟩, ?_⟩
  · intro e he
    obtain ⟨i, hi, _, hc⟩ := hcov e he
    rw [hc]; exact hi
  · intro heq
    obtain ⟨i1, hi1, hm1, hc1⟩ := hcov e1 he1
    obtain ⟨i2, hi2, hm2, hc2⟩ := hcov e2 he2
    rw [hc1, hc2] at heq
    subst heq
    have := pos_of_conn hB (spec.conn_of_mem hi1 hm1 hm2)
    omega
  · intro a ha b hb hne
    obtain ⟨i1, hi1, hm1, hc1⟩ := hcov a ha
    obtain ⟨i2, hi2, hm2, hc2⟩ := hcov b hb
    rw [hc1, hc2] at hne ⊢
    rw [hcol i1 a hi1 hm1, hcol i2 b hi2 hm2]
    have hpne : posLab n w a ≠ posLab n w b := fun hp =>
      hne (spec.sep i1 i2 hi1 hi2 a b hm1 hm2 (f2 a ha b hb hp))
    rcases f1 a ha with pa | pa <;> rcases f1 b hb with pb | pb
    · exact absurd (pa.trans pb.symm) hpne
    · rw [pa, pb]; exact par_ne _
    · rw [pa, pb]; exact (par_ne _).symm
    · exact absurd (pa.trans pb.symm) hpne

end closure2

end Yuiv.C06Closure
