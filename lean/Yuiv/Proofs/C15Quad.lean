import Yuiv.Proofs.C15
/-
C15 — Z[i] and Z[ω] (and Z) as lawful instances of the generic Euclidean structure:
commutative-ring structure on the model type, multiplicativity of the norm, the unit groups
(4 resp. 6 units), the quadrant / sextant tables of `normalizing_unit`.
-/
namespace Yuiv.C15
open Yuiv

namespace QInt
theorem gNormUnit_eq (a b : Int) : gNormUnit ⟨a, b⟩ =
    if 0 < a ∧ 0 ≤ b then one else if a ≤ 0 ∧ 0 < b then neg omega
    else if a < 0 ∧ b ≤ 0 then neg one else if 0 ≤ a ∧ b < 0 then omega else one := by
  unfold gNormUnit
  simp only [gt_iff_lt, Bool.and_eq_true, decide_eq_true_eq, Bool.not_eq_true', decide_eq_false_iff_not, not_lt]
theorem eNormUnit_eq (a b : Int) : eNormUnit ⟨a, b⟩ =
    if 0 < a ∧ 0 ≤ b then one else if a ≤ 0 ∧ 0 < a + b then ⟨1, -1⟩
    else if a + b ≤ 0 ∧ 0 < b then neg omega else if a < 0 ∧ b ≤ 0 then neg one
    else if 0 ≤ a ∧ a + b < 0 then ⟨-1, 1⟩ else if 0 ≤ a + b ∧ b < 0 then omega else one := by
  unfold eNormUnit
  simp only [gt_iff_lt, Bool.and_eq_true, decide_eq_true_eq, Bool.not_eq_true', decide_eq_false_iff_not, not_lt]
end QInt

/-- `QInt` with the Gaussian multiplication -/
def GInt := QInt

namespace GInt
open QInt
instance : Add GInt := ⟨QInt.add⟩
instance : Mul GInt := ⟨QInt.gMul⟩
instance : Neg GInt := ⟨QInt.neg⟩
instance : Zero GInt := ⟨QInt.zero⟩
instance : One GInt := ⟨QInt.one⟩

@[simp] theorem add_a (x y : GInt) : QInt.a (x + y) = QInt.a x + QInt.a y := rfl
@[simp] theorem add_b (x y : GInt) : QInt.b (x + y) = QInt.b x + QInt.b y := rfl
@[simp] theorem mul_a (x y : GInt) : QInt.a (x * y) = QInt.a x * QInt.a y + QInt.b x * QInt.b y * (-1) := rfl
@[simp] theorem mul_b (x y : GInt) : QInt.b (x * y) = QInt.a x * QInt.b y + QInt.b x * QInt.a y := rfl
@[simp] theorem neg_a (x : GInt) : QInt.a (-x) = -QInt.a x := rfl
@[simp] theorem neg_b (x : GInt) : QInt.b (-x) = -QInt.b x := rfl
@[simp] theorem zero_a : QInt.a (0 : GInt) = 0 := rfl
@[simp] theorem zero_b : QInt.b (0 : GInt) = 0 := rfl
@[simp] theorem one_a : QInt.a (1 : GInt) = 1 := rfl
@[simp] theorem one_b : QInt.b (1 : GInt) = 0 := rfl

theorem ext {x y : GInt} (h1 : QInt.a x = QInt.a y) (h2 : QInt.b x = QInt.b y) : x = y := QInt.ext' h1 h2

instance : CommRing GInt := CommRing.ofMinimalAxioms
  (by intros; apply ext <;> simp <;> ring)
  (by intros; apply ext <;> simp)
  (by intros; apply ext <;> simp)
  (by intros; apply ext <;> simp <;> ring)
  (by intros; apply ext <;> simp <;> ring)
  (by intros; apply ext <;> simp)
  (by intros; apply ext <;> simp <;> ring)

@[simp] theorem sub_a (x y : GInt) : QInt.a (x - y) = QInt.a x - QInt.a y := by
  rw [sub_eq_add_neg]; simp; ring
@[simp] theorem sub_b (x y : GInt) : QInt.b (x - y) = QInt.b x - QInt.b y := by
  rw [sub_eq_add_neg]; simp; ring

theorem eq_zero_iff (x : GInt) : x = 0 ↔ QInt.a x = 0 ∧ QInt.b x = 0 :=
  ⟨fun h => by rw [h]; exact ⟨rfl, rfl⟩, fun h => ext h.1 h.2⟩

theorem norm_mul (x y : GInt) : gNorm (x * y) = gNorm x * gNorm y := by
  simp only [gNorm, mul_a, mul_b]; ring

theorem norm_nonneg (x : GInt) : 0 ≤ gNorm x := by
  simp only [gNorm]; nlinarith [sq_nonneg (QInt.a x), sq_nonneg (QInt.b x)]

theorem norm_eq_zero (x : GInt) (h : gNorm x = 0) : x = 0 := by
  by_contra hx
  have := gNorm_pos x hx
  omega

theorem isUnit_of_norm_one (u : GInt) (h : gNorm u = 1) : IsUnit u := by
  refine isUnit_iff_exists_inv.2 ⟨(QInt.gConj u : GInt), ?_⟩
  change QInt.gMul u (QInt.gConj u) = QInt.one
  simp only [gNorm] at h
  apply QInt.ext' <;> simp only [gMul, gConj, QInt.one] <;> linarith

theorem norm_one_of_isUnit (u : GInt) (h : IsUnit u) : gNorm u = 1 := by
  obtain ⟨v, hv⟩ := h.exists_right_inv
  have := congrArg gNorm hv
  rw [norm_mul] at this
  have h1 : gNorm (1 : GInt) = 1 := by decide
  rw [h1] at this
  have := norm_nonneg u; have := norm_nonneg v
  exact Int.eq_one_of_mul_eq_one_right (by assumption) (by assumption)

/-- the four units of Z[i] -/
theorem units_cases (u : GInt) (h : IsUnit u) :
    (QInt.a u = 1 ∧ QInt.b u = 0) ∨ (QInt.a u = 0 ∧ QInt.b u = 1) ∨
    (QInt.a u = -1 ∧ QInt.b u = 0) ∨ (QInt.a u = 0 ∧ QInt.b u = -1) := by
  have h1 := norm_one_of_isUnit u h
  simp only [gNorm] at h1
  have ha : -1 ≤ QInt.a u ∧ QInt.a u ≤ 1 := by constructor <;> nlinarith [sq_nonneg (QInt.b u)]
  have hb : -1 ≤ QInt.b u ∧ QInt.b u ≤ 1 := by constructor <;> nlinarith [sq_nonneg (QInt.a u)]
  generalize QInt.a u = a at *
  generalize QInt.b u = b at *
  have : a = -1 ∨ a = 0 ∨ a = 1 := by omega
  have : b = -1 ∨ b = 0 ∨ b = 1 := by omega
  rcases ‹a = -1 ∨ a = 0 ∨ a = 1› with rfl | rfl | rfl <;> rcases ‹b = -1 ∨ b = 0 ∨ b = 1› with rfl | rfl | rfl <;> simp_all

theorem normUnit_norm (x : GInt) : gNorm (gNormUnit x) = 1 := by
  unfold gNormUnit; simp only; split_ifs <;> decide

theorem nu_assoc_0 (a1 a2 : Int) (hne : a1 ≠ 0 ∨ a2 ≠ 0) :
    gMul (gNormUnit (gMul ⟨a1, a2⟩ ⟨1, 0⟩)) ⟨1, 0⟩ = gNormUnit ⟨a1, a2⟩ := by
  simp only [gMul]
  rw [gNormUnit_eq, gNormUnit_eq]
  split_ifs <;> first | decide | (exfalso; omega)

theorem nu_assoc_1 (a1 a2 : Int) (hne : a1 ≠ 0 ∨ a2 ≠ 0) :
    gMul (gNormUnit (gMul ⟨a1, a2⟩ ⟨0, 1⟩)) ⟨0, 1⟩ = gNormUnit ⟨a1, a2⟩ := by
  simp only [gMul]
  rw [gNormUnit_eq, gNormUnit_eq]
  split_ifs <;> first | decide | (exfalso; omega)

theorem nu_assoc_2 (a1 a2 : Int) (hne : a1 ≠ 0 ∨ a2 ≠ 0) :
    gMul (gNormUnit (gMul ⟨a1, a2⟩ ⟨-1, 0⟩)) ⟨-1, 0⟩ = gNormUnit ⟨a1, a2⟩ := by
  simp only [gMul]
  rw [gNormUnit_eq, gNormUnit_eq]
  split_ifs <;> first | decide | (exfalso; omega)

theorem nu_assoc_3 (a1 a2 : Int) (hne : a1 ≠ 0 ∨ a2 ≠ 0) :
    gMul (gNormUnit (gMul ⟨a1, a2⟩ ⟨0, -1⟩)) ⟨0, -1⟩ = gNormUnit ⟨a1, a2⟩ := by
  simp only [gMul]
  rw [gNormUnit_eq, gNormUnit_eq]
  split_ifs <;> first | decide | (exfalso; omega)

theorem lawful : LawfulEuc (α := GInt) gaussOps where
  zero_eq := rfl
  one_eq := rfl
  isZero_iff a := by
    rw [eq_zero_iff]; simp [gaussOps, QInt.isZero]
  isOne_iff a := by
    constructor
    · intro h; simp [gaussOps, QInt.isOne] at h; exact ext h.1 h.2
    · intro h; rw [h]; rfl
  sub_eq a b := by apply ext <;> simp [gaussOps, QInt.sub]
  mul_eq _ _ := rfl
  div_rem a b _ := g_div_rem a b
  norm_rem a b hb := by
    have h := g_rem_bound a b hb
    have hp := gNorm_pos b hb
    have hn := norm_nonneg (gRem a b)
    simp only [gaussOps]
    omega
  rem_of_dvd a b hb hd := by
    obtain ⟨c, rfl⟩ := hd
    have h := g_rem_bound (b * c) b hb
    have hp := gNorm_pos b hb
    obtain ⟨q, hq⟩ : ∃ q : GInt, q = gDiv (b * c) b := ⟨_, rfl⟩
    have e : gRem (b * c) b = b * (c - q) := by
      show QInt.sub (b * c) (QInt.gMul b (gDiv (b * c) b)) = _
      rw [← hq]; apply ext <;> simp [QInt.sub, gMul] <;> ring
    simp only [gaussOps]
    rw [e] at h ⊢
    rw [norm_mul] at h
    have hn := norm_nonneg (c - q)
    have : gNorm (c - q) = 0 := by nlinarith
    rw [norm_eq_zero _ this, mul_zero]
  normUnit_isUnit a := isUnit_of_norm_one _ (normUnit_norm a)
  normUnit_assoc a u ha hu := by
    have hne := (QInt.ne_zero_iff a).1 ha
    have hc := units_cases u hu
    obtain ⟨a1, a2⟩ := a
    obtain ⟨u1, u2⟩ := u
    simp only at hne hc
    rcases hc with ⟨h1, h2⟩ | ⟨h1, h2⟩ | ⟨h1, h2⟩ | ⟨h1, h2⟩
    · subst h1 h2; exact nu_assoc_0 a1 a2 hne
    · subst h1 h2; exact nu_assoc_1 a1 a2 hne
    · subst h1 h2; exact nu_assoc_2 a1 a2 hne
    · subst h1 h2; exact nu_assoc_3 a1 a2 hne


instance : IsDomain GInt := by
  have : Nontrivial GInt := ⟨⟨0, 1, by intro h; have := congrArg QInt.a h; simp at this⟩⟩
  have : NoZeroDivisors GInt := ⟨fun {x y} h => by
    have := congrArg gNorm h
    rw [norm_mul] at this
    have h0 : gNorm (0 : GInt) = 0 := by decide
    rw [h0] at this
    rcases mul_eq_zero.1 this with h | h
    · left; exact norm_eq_zero _ h
    · right; exact norm_eq_zero _ h⟩
  exact NoZeroDivisors.to_isDomain _

end GInt
/-- `QInt` with the Eisenstein multiplication -/
def EInt := QInt

namespace EInt
open QInt
instance : Add EInt := ⟨QInt.add⟩
instance : Mul EInt := ⟨QInt.eMul⟩
instance : Neg EInt := ⟨QInt.neg⟩
instance : Zero EInt := ⟨QInt.zero⟩
instance : One EInt := ⟨QInt.one⟩

@[simp] theorem add_a (x y : EInt) : QInt.a (x + y) = QInt.a x + QInt.a y := rfl
@[simp] theorem add_b (x y : EInt) : QInt.b (x + y) = QInt.b x + QInt.b y := rfl
@[simp] theorem mul_a (x y : EInt) : QInt.a (x * y) = QInt.a x * QInt.a y + QInt.b x * QInt.b y * (-1) := rfl
@[simp] theorem mul_b (x y : EInt) : QInt.b (x * y) = QInt.a x * QInt.b y + QInt.b x * QInt.a y + QInt.b x * QInt.b y := rfl
@[simp] theorem neg_a (x : EInt) : QInt.a (-x) = -QInt.a x := rfl
@[simp] theorem neg_b (x : EInt) : QInt.b (-x) = -QInt.b x := rfl
@[simp] theorem zero_a : QInt.a (0 : EInt) = 0 := rfl
@[simp] theorem zero_b : QInt.b (0 : EInt) = 0 := rfl
@[simp] theorem one_a : QInt.a (1 : EInt) = 1 := rfl
@[simp] theorem one_b : QInt.b (1 : EInt) = 0 := rfl

theorem ext {x y : EInt} (h1 : QInt.a x = QInt.a y) (h2 : QInt.b x = QInt.b y) : x = y := QInt.ext' h1 h2

instance : CommRing EInt := CommRing.ofMinimalAxioms
  (by intros; apply ext <;> simp <;> ring)
  (by intros; apply ext <;> simp)
  (by intros; apply ext <;> simp)
  (by intros; apply ext <;> simp <;> ring)
  (by intros; apply ext <;> simp <;> ring)
  (by intros; apply ext <;> simp)
  (by intros; apply ext <;> simp <;> ring)

@[simp] theorem sub_a (x y : EInt) : QInt.a (x - y) = QInt.a x - QInt.a y := by
  rw [sub_eq_add_neg]; simp; ring
@[simp] theorem sub_b (x y : EInt) : QInt.b (x - y) = QInt.b x - QInt.b y := by
  rw [sub_eq_add_neg]; simp; ring

theorem eq_zero_iff (x : EInt) : x = 0 ↔ QInt.a x = 0 ∧ QInt.b x = 0 :=
  ⟨fun h => by rw [h]; exact ⟨rfl, rfl⟩, fun h => ext h.1 h.2⟩

theorem norm_mul (x y : EInt) : eNorm (x * y) = eNorm x * eNorm y := by
  simp only [eNorm, mul_a, mul_b]; ring

theorem norm_nonneg (x : EInt) : 0 ≤ eNorm x := by
  simp only [eNorm]; nlinarith [sq_nonneg (2 * QInt.a x + QInt.b x), sq_nonneg (QInt.b x)]

theorem norm_eq_zero (x : EInt) (h : eNorm x = 0) : x = 0 := by
  by_contra hx
  have := eNorm_pos x hx
  omega

theorem isUnit_of_norm_one (u : EInt) (h : eNorm u = 1) : IsUnit u := by
  refine isUnit_iff_exists_inv.2 ⟨(QInt.eConj u : EInt), ?_⟩
  change QInt.eMul u (QInt.eConj u) = QInt.one
  simp only [eNorm] at h
  apply QInt.ext' <;> simp only [eMul, eConj, QInt.one] <;> linarith

theorem norm_one_of_isUnit (u : EInt) (h : IsUnit u) : eNorm u = 1 := by
  obtain ⟨v, hv⟩ := h.exists_right_inv
  have := congrArg eNorm hv
  rw [norm_mul] at this
  have h1 : eNorm (1 : EInt) = 1 := by decide
  rw [h1] at this
  have := norm_nonneg u; have := norm_nonneg v
  exact Int.eq_one_of_mul_eq_one_right (by assumption) (by assumption)

/-- the six units of Z[ω] -/
theorem units_cases (u : EInt) (h : IsUnit u) :
    (QInt.a u = 1 ∧ QInt.b u = 0) ∨ (QInt.a u = 0 ∧ QInt.b u = 1) ∨ (QInt.a u = -1 ∧ QInt.b u = 1) ∨
    (QInt.a u = -1 ∧ QInt.b u = 0) ∨ (QInt.a u = 0 ∧ QInt.b u = -1) ∨ (QInt.a u = 1 ∧ QInt.b u = -1) := by
  have h1 := norm_one_of_isUnit u h
  simp only [eNorm] at h1
  have ha : -1 ≤ QInt.a u ∧ QInt.a u ≤ 1 := by constructor <;> nlinarith [sq_nonneg (QInt.a u + 2 * QInt.b u)]
  have hb : -1 ≤ QInt.b u ∧ QInt.b u ≤ 1 := by constructor <;> nlinarith [sq_nonneg (2 * QInt.a u + QInt.b u)]
  generalize QInt.a u = a at *
  generalize QInt.b u = b at *
  have : a = -1 ∨ a = 0 ∨ a = 1 := by omega
  have : b = -1 ∨ b = 0 ∨ b = 1 := by omega
  rcases ‹a = -1 ∨ a = 0 ∨ a = 1› with rfl | rfl | rfl <;> rcases ‹b = -1 ∨ b = 0 ∨ b = 1› with rfl | rfl | rfl <;> simp_all

theorem normUnit_norm (x : EInt) : eNorm (eNormUnit x) = 1 := by
  unfold eNormUnit; simp only; split_ifs <;> decide

theorem nu_assoc_0 (a1 a2 : Int) (hne : a1 ≠ 0 ∨ a2 ≠ 0) :
    eMul (eNormUnit (eMul ⟨a1, a2⟩ ⟨1, 0⟩)) ⟨1, 0⟩ = eNormUnit ⟨a1, a2⟩ := by
  simp only [eMul]
  rw [eNormUnit_eq, eNormUnit_eq]
  split_ifs <;> first | decide | (exfalso; omega)

theorem nu_assoc_1 (a1 a2 : Int) (hne : a1 ≠ 0 ∨ a2 ≠ 0) :
    eMul (eNormUnit (eMul ⟨a1, a2⟩ ⟨0, 1⟩)) ⟨0, 1⟩ = eNormUnit ⟨a1, a2⟩ := by
  simp only [eMul]
  rw [eNormUnit_eq, eNormUnit_eq]
  split_ifs <;> first | decide | (exfalso; omega)

theorem nu_assoc_2 (a1 a2 : Int) (hne : a1 ≠ 0 ∨ a2 ≠ 0) :
    eMul (eNormUnit (eMul ⟨a1, a2⟩ ⟨-1, 1⟩)) ⟨-1, 1⟩ = eNormUnit ⟨a1, a2⟩ := by
  simp only [eMul]
  rw [eNormUnit_eq, eNormUnit_eq]
  split_ifs <;> first | decide | (exfalso; omega)

theorem nu_assoc_3 (a1 a2 : Int) (hne : a1 ≠ 0 ∨ a2 ≠ 0) :
    eMul (eNormUnit (eMul ⟨a1, a2⟩ ⟨-1, 0⟩)) ⟨-1, 0⟩ = eNormUnit ⟨a1, a2⟩ := by
  simp only [eMul]
  rw [eNormUnit_eq, eNormUnit_eq]
  split_ifs <;> first | decide | (exfalso; omega)

theorem nu_assoc_4 (a1 a2 : Int) (hne : a1 ≠ 0 ∨ a2 ≠ 0) :
    eMul (eNormUnit (eMul ⟨a1, a2⟩ ⟨0, -1⟩)) ⟨0, -1⟩ = eNormUnit ⟨a1, a2⟩ := by
  simp only [eMul]
  rw [eNormUnit_eq, eNormUnit_eq]
  split_ifs <;> first | decide | (exfalso; omega)

theorem nu_assoc_5 (a1 a2 : Int) (hne : a1 ≠ 0 ∨ a2 ≠ 0) :
    eMul (eNormUnit (eMul ⟨a1, a2⟩ ⟨1, -1⟩)) ⟨1, -1⟩ = eNormUnit ⟨a1, a2⟩ := by
  simp only [eMul]
  rw [eNormUnit_eq, eNormUnit_eq]
  split_ifs <;> first | decide | (exfalso; omega)

theorem lawful : LawfulEuc (α := EInt) eisenOps where
  zero_eq := rfl
  one_eq := rfl
  isZero_iff a := by
    rw [eq_zero_iff]; simp [eisenOps, QInt.isZero]
  isOne_iff a := by
    constructor
    · intro h; simp [eisenOps, QInt.isOne] at h; exact ext h.1 h.2
    · intro h; rw [h]; rfl
  sub_eq a b := by apply ext <;> simp [eisenOps, QInt.sub]
  mul_eq _ _ := rfl
  div_rem a b _ := e_div_rem a b
  norm_rem a b hb := by
    have h := e_rem_bound a b hb
    have hp := eNorm_pos b hb
    have hn := norm_nonneg (eRem a b)
    simp only [eisenOps]
    omega
  rem_of_dvd a b hb hd := by
    obtain ⟨c, rfl⟩ := hd
    have h := e_rem_bound (b * c) b hb
    have hp := eNorm_pos b hb
    obtain ⟨q, hq⟩ : ∃ q : EInt, q = eDiv (b * c) b := ⟨_, rfl⟩
    have e : eRem (b * c) b = b * (c - q) := by
      show QInt.sub (b * c) (QInt.eMul b (eDiv (b * c) b)) = _
      rw [← hq]; apply ext <;> simp [QInt.sub, eMul] <;> ring
    simp only [eisenOps]
    rw [e] at h ⊢
    rw [norm_mul] at h
    have hn := norm_nonneg (c - q)
    have : eNorm (c - q) = 0 := by nlinarith
    rw [norm_eq_zero _ this, mul_zero]
  normUnit_isUnit a := isUnit_of_norm_one _ (normUnit_norm a)
  normUnit_assoc a u ha hu := by
    have hne := (QInt.ne_zero_iff a).1 ha
    have hc := units_cases u hu
    obtain ⟨a1, a2⟩ := a
    obtain ⟨u1, u2⟩ := u
    simp only at hne hc
    rcases hc with ⟨h1, h2⟩ | ⟨h1, h2⟩ | ⟨h1, h2⟩ | ⟨h1, h2⟩ | ⟨h1, h2⟩ | ⟨h1, h2⟩
    · subst h1 h2; exact nu_assoc_0 a1 a2 hne
    · subst h1 h2; exact nu_assoc_1 a1 a2 hne
    · subst h1 h2; exact nu_assoc_2 a1 a2 hne
    · subst h1 h2; exact nu_assoc_3 a1 a2 hne
    · subst h1 h2; exact nu_assoc_4 a1 a2 hne
    · subst h1 h2; exact nu_assoc_5 a1 a2 hne


instance : IsDomain EInt := by
  have : Nontrivial EInt := ⟨⟨0, 1, by intro h; have := congrArg QInt.a h; simp at this⟩⟩
  have : NoZeroDivisors EInt := ⟨fun {x y} h => by
    have := congrArg eNorm h
    rw [norm_mul] at this
    have h0 : eNorm (0 : EInt) = 0 := by decide
    rw [h0] at this
    rcases mul_eq_zero.1 this with h | h
    · left; exact norm_eq_zero _ h
    · right; exact norm_eq_zero _ h⟩
  exact NoZeroDivisors.to_isDomain _

end EInt
/-! ## integers as a lawful instance; units -/

theorem int_lawful' : LawfulEuc (α := Int) intOps where
  zero_eq := rfl
  one_eq := rfl
  isZero_iff a := by simp [intOps]
  isOne_iff a := by simp [intOps]
  sub_eq _ _ := rfl
  mul_eq _ _ := rfl
  div_rem a b _ := zdiv_rem a b
  norm_rem a b hb := by
    have := zrem_lt a b hb
    simp only [intOps, iabs] at *
    split at this <;> split at this <;> omega
  rem_of_dvd a b _ hd := by
    simp only [intOps, zRemT]
    exact Int.tmod_eq_zero_of_dvd hd
  normUnit_isUnit a := by
    simp only [intOps, zNormUnit]
    split <;> simp
  normUnit_assoc a u ha hu := by
    rcases Int.isUnit_iff.1 hu with rfl | rfl <;>
    · simp only [intOps, zNormUnit, Bool.not_eq_true', decide_eq_false_iff_not]
      split_ifs <;> omega

theorem int_units' (a : Int) :
    (zIsUnit a = true ↔ zInv a ≠ none) ∧ (∀ u, zInv a = some u → a * u = 1) ∧ (zIsUnit a = true ↔ IsUnit a) := by
  refine ⟨?_, ?_, ?_⟩
  · unfold zInv; split <;> simp_all
  · intro u h
    unfold zInv at h
    split at h
    · rename_i hu
      injection h with h; subst h
      simp only [zIsUnit, Bool.or_eq_true, beq_iff_eq] at hu
      rcases hu with h | h
      · rw [h]; rfl
      · have : a = -1 := by omega
        rw [this]; rfl
    · cases h
  · rw [Int.isUnit_iff]
    simp only [zIsUnit, Bool.or_eq_true, beq_iff_eq]
    omega

namespace QInt
theorem g_units (x : QInt) :
    (gIsUnit x = true ↔ gInv x ≠ none) ∧ (∀ u, gInv x = some u → gMul x u = one) := by
  refine ⟨?_, ?_⟩
  · unfold gIsUnit gInv
    have := (int_units' (gNorm x)).1
    cases h : zInv (gNorm x) <;> simp_all
  · intro u h
    unfold gInv at h
    cases hz : zInv (gNorm x) with
    | none => rw [hz] at h; cases h
    | some v =>
      rw [hz] at h
      injection h with h; subst h
      have hv := (int_units' (gNorm x)).2.1 v hz
      simp only [gNorm] at hv
      apply ext' <;> simp only [gMul, gConj, one] <;> linarith

theorem e_units (x : QInt) :
    (eIsUnit x = true ↔ eInv x ≠ none) ∧ (∀ u, eInv x = some u → eMul x u = one) := by
  refine ⟨?_, ?_⟩
  · unfold eIsUnit eInv
    have := (int_units' (eNorm x)).1
    cases h : zInv (eNorm x) <;> simp_all
  · intro u h
    unfold eInv at h
    cases hz : zInv (eNorm x) with
    | none => rw [hz] at h; cases h
    | some v =>
      rw [hz] at h
      injection h with h; subst h
      have hv := (int_units' (eNorm x)).2.1 v hz
      simp only [eNorm] at hv
      apply ext' <;> simp only [eMul, eConj, one] <;> linarith
end QInt

end Yuiv.C15
