import Yuiv.Model.KhRef
/-
KhSnf — loop-free form of `KhRef.homologyOf` (helper, no property theorem here).

  * `rowsAt / invAt / groupAt` : the rows, Smith invariants and group that `homologyOf` computes for position `i`
    (the construction of the rows, including the hash map, is kept syntactically as in the code);
  * `homologyOf_eq`       : `homologyOf k gens d = ((List.range gens.size).map (groupAt k gens d)).toArray`;
  * `homologyOf_size`, `homologyOf_getElem` : consequences.
-/
namespace Yuiv.KhSnf
open Yuiv Yuiv.KhRef

/-- the sparse rows of the differential `gens[i] → gens[i+1]` as built by `homologyOf` (rows = generators of degree `i`,
columns = positions in `gens[i+1]`) -/
def rowsAt (gens : Array (Array Gen)) (d : Gen → Array Term) (i : Nat) : Array Row :=
  let tgt := gens[i + 1]!
  let idx : Std.HashMap Gen Nat := Id.run do
    let mut idx : Std.HashMap Gen Nat := {}
    for j in [0:tgt.size] do idx := idx.insert tgt[j]! j
    return idx
  (gens[i]!).map (fun g => normalizeRow ((d g).map (fun (y, a) => ((idx.get? y).getD 0, a))))

/-- the Smith invariants `homologyOf` computes for position `i` -/
def invAt (gens : Array (Array Gen)) (d : Gen → Array Term) (i : Nat) : Nat × Array Int :=
  if i + 1 < gens.size then smithInvariants (rowsAt gens d i) else (0, #[])

/-- the group `homologyOf` reports at position `i` -/
def groupAt (k : Coeff) (gens : Array (Array Gen)) (d : Gen → Array Term) (i : Nat) : Group :=
  let inPrev : Nat × Array Int := if i == 0 then (0, #[]) else invAt gens d (i - 1)
  ⟨(gens[i]!).size - rankOver k (invAt gens d i) - rankOver k inPrev, match k with | .Z => inPrev.2 | _ => #[]⟩

/-- a `for` loop over a list that pushes `f i` in every round -/
theorem push_loop {γ} (l : List Nat) (f : Nat → γ) (body : Nat → Array γ → Id (ForInStep (Array γ)))
    (h : ∀ i ∈ l, ∀ out, body i out = pure (ForInStep.yield (out.push (f i)))) (out : Array γ) :
    (forIn l out body).run = out ++ (l.map f).toArray := by
  induction l generalizing out with
  | nil => simp
  | cons i l ih =>
    rw [List.forIn_cons, h i (List.mem_cons_self ..)]
    simp only [pure_bind]
    rw [ih (fun j hj => h j (List.mem_cons_of_mem _ hj))]
    simp

theorem range_map_getElem! {γ} [Inhabited γ] (f : Nat → γ) (n i : Nat) (hi : i < n) :
    (((List.range n).map f).toArray)[i]! = f i := by
  simp [hi]

theorem homologyOf_eq (k : Coeff) (gens : Array (Array Gen)) (d : Gen → Array Term) :
    homologyOf k gens d = ((List.range gens.size).map (groupAt k gens d)).toArray := by
  unfold homologyOf
  simp only [Std.Legacy.Range.forIn_eq_forIn_range', Std.Legacy.Range.size, Nat.sub_zero, Nat.add_sub_cancel, Nat.div_one]
  have h1 := push_loop (List.range' 0 gens.size) (invAt gens d)
    (fun i (__s : Array (Nat × Array Int)) =>
              if i + 1 < gens.size then do
                let __s_1 ←
                  forIn (m := Id) (List.range' 0 gens[i + 1]!.size) (∅ : Std.HashMap Gen Nat) fun j __s =>
                      pure (ForInStep.yield (__s.insert gens[i + 1]![j]! j))
                pure
                    (ForInStep.yield
                      (__s.push
                        (smithInvariants
                          (Array.map
                            (fun g => normalizeRow (Array.map (fun x => ((__s_1.get? x.fst).getD 0, x.snd)) (d g)))
                            gens[i]!))))
              else pure (ForInStep.yield (__s.push (0, #[]))))
    (by
      intro i _ out
      unfold invAt rowsAt
      simp only [Std.Legacy.Range.forIn_eq_forIn_range', Std.Legacy.Range.size, Nat.sub_zero, Nat.add_sub_cancel, Nat.div_one]
      split
      · rfl
      · rfl) #[]
  simp only [Id.run_bind, Id.run_pure]
  rw [h1]
  simp only [Array.empty_append, ← List.range_eq_range']
  rw [push_loop (List.range gens.size) (groupAt k gens d)]
  · simp
  · intro i hi out
    have hi : i < gens.size := List.mem_range.mp hi
    rw [range_map_getElem! _ _ _ hi]
    congr 3
    unfold groupAt
    by_cases h0 : i = 0
    · subst h0; rfl
    · have : i - 1 < gens.size := by omega
      simp only [beq_iff_eq, h0, if_false, range_map_getElem! _ _ _ this]
      cases k <;> rfl

theorem homologyOf_size (k : Coeff) (gens : Array (Array Gen)) (d : Gen → Array Term) :
    (homologyOf k gens d).size = gens.size := by
  rw [homologyOf_eq]; simp

theorem homologyOf_getElem (k : Coeff) (gens : Array (Array Gen)) (d : Gen → Array Term) (i : Nat) (hi : i < gens.size) :
    (homologyOf k gens d)[i]! = groupAt k gens d i := by
  rw [homologyOf_eq, range_map_getElem! _ _ _ hi]

end Yuiv.KhSnf
