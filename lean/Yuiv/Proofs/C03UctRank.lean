import Mathlib.LinearAlgebra.Matrix.Rank
/-
C03Uct, part 1 — linear algebra used by the counting form of the universal coefficient theorem.

* `rectDiag m n d` : the rectangular `m × n` "diagonal" matrix with entries `d 0, d 1, …` (what a Smith
  normal form looks like);
* `rank_rectDiag` : over a field its rank is the number of non-zero `d k`, `k < min m n`
  (Mathlib has this only for square `Matrix.diagonal`);
* `rank_eq_of_equiv`, `rank_map_eq_of_equiv` : if `P * A * Q = D` with `det P`, `det Q` units then `A` and `D`
  have the same rank, and the same holds after pushing everything through a ring homomorphism into any
  commutative ring (units stay units) — used for `ℤ → ℚ` and `ℤ → ZMod p`.
-/
namespace Yuiv.C03Uct
open Matrix

/-- rectangular diagonal matrix: entry `(i,j)` is `d i` when `i = j` and `0` otherwise -/
def rectDiag {R : Type*} [Zero R] (m n : ℕ) (d : ℕ → R) : Matrix (Fin m) (Fin n) R :=
  Matrix.of fun i j => if i.val = j.val then d i.val else 0

@[simp] theorem rectDiag_apply {R : Type*} [Zero R] (m n : ℕ) (d : ℕ → R) (i : Fin m) (j : Fin n) :
    rectDiag m n d i j = if i.val = j.val then d i.val else 0 := rfl

theorem rectDiag_map {R S : Type*} [Zero R] [Zero S] (m n : ℕ) (d : ℕ → R) (f : R → S) (hf : f 0 = 0) :
    (rectDiag m n d).map f = rectDiag m n (fun k => f (d k)) := by
  ext i j
  simp only [map_apply, rectDiag_apply]
  split <;> simp [hf]

/-- a square `rectDiag` is Mathlib's `diagonal` -/
theorem rectDiag_square {R : Type*} [Zero R] (n : ℕ) (d : ℕ → R) :
    rectDiag n n d = Matrix.diagonal (fun i : Fin n => d i.val) := by
  ext i j
  simp only [rectDiag_apply, diagonal_apply, Fin.ext_iff]

/-- rank of a rectangular diagonal matrix over a field = number of non-zero diagonal entries -/
theorem rank_rectDiag {K : Type*} [Field K] [DecidableEq K] (m n : ℕ) (d : ℕ → K) :
    (rectDiag m n d).rank = ((Finset.range (min m n)).filter (fun k => d k ≠ 0)).card := by
  set S := (Finset.range (min m n)).filter (fun k => d k ≠ 0) with hS
  have hSmem : ∀ k, k ∈ S ↔ (k < m ∧ k < n) ∧ d k ≠ 0 := by
    intro k; simp [hS]
  have hSn : ∀ k : S, k.val < n := fun k => ((hSmem k.val).1 k.2).1.2
  have hSm : ∀ k : S, k.val < m := fun k => ((hSmem k.val).1 k.2).1.1
  have hSd : ∀ k : S, d k.val ≠ 0 := fun k => ((hSmem k.val).1 k.2).2
  let f : S → Fin n := fun k => ⟨k.val, hSn k⟩
  have hf : Function.Injective f := fun a b h => Subtype.ext (by simpa [f] using congrArg Fin.val h)
  let b : S → (Fin n → K) := fun k => Pi.single (f k) 1
  have hb : LinearIndependent K b := by
    have h := (Pi.basisFun K (Fin n)).linearIndependent.comp f hf
    have hbe : b = (Pi.basisFun K (Fin n)) ∘ f := by
      funext k; simp [b]
    rw [hbe]; exact h
  have hrow : ∀ i : Fin m, (rectDiag m n d).row i =
      if h : i.val < n then d i.val • Pi.single (⟨i.val, h⟩ : Fin n) (1 : K) else 0 := by
    intro i
    ext j
    by_cases h : i.val < n
    · simp only [row, rectDiag_apply, h, dite_true, Pi.smul_apply, Pi.single_apply, smul_eq_mul,
        Fin.ext_iff]
      by_cases hij : i.val = j.val
      · simp [hij]
      · have : ¬ j.val = i.val := fun e => hij e.symm
        simp [hij, this]
    · have : i.val ≠ j.val := by have := j.2; omega
      simp [row, h, this]
  have hspan : Submodule.span K (Set.range (rectDiag m n d).row) = Submodule.span K (Set.range b) := by
    apply le_antisymm
    · rw [Submodule.span_le]
      rintro _ ⟨i, rfl⟩
      rw [hrow]
      by_cases h : i.val < n
      · rw [dif_pos h]
        by_cases hd : d i.val = 0
        · simp [hd]
        · have hi : i.val ∈ S := (hSmem _).2 ⟨⟨i.2, h⟩, hd⟩
          exact Submodule.smul_mem _ _ (Submodule.subset_span ⟨⟨i.val, hi⟩, rfl⟩)
      · rw [dif_neg h]; exact Submodule.zero_mem _
    · rw [Submodule.span_le]
      rintro _ ⟨k, rfl⟩
      have hk : b k = (d k.val)⁻¹ • (rectDiag m n d).row ⟨k.val, hSm k⟩ := by
        rw [hrow, dif_pos (hSn k), smul_smul, inv_mul_cancel₀ (hSd k), one_smul]
      rw [hk]
      exact Submodule.smul_mem _ _ (Submodule.subset_span ⟨_, rfl⟩)
  rw [rank_eq_finrank_span_row, hspan, finrank_span_eq_card hb, Fintype.card_coe]

/-- equivalent matrices (`P * A * Q = D`, `det P` and `det Q` units) have the same rank -/
theorem rank_eq_of_equiv {R : Type*} [CommRing R] {m n : ℕ} (A D : Matrix (Fin m) (Fin n) R)
    (P : Matrix (Fin m) (Fin m) R) (Q : Matrix (Fin n) (Fin n) R)
    (hP : IsUnit P.det) (hQ : IsUnit Q.det) (h : P * A * Q = D) : A.rank = D.rank := by
  rw [← h, rank_mul_eq_left_of_isUnit_det Q _ hQ, rank_mul_eq_right_of_isUnit_det P _ hP]

/-- the same after base change along a ring homomorphism: `P, Q` stay invertible, so `f(A)` and `f(D)` have
the same rank -/
theorem rank_map_eq_of_equiv {R S : Type*} [CommRing R] [CommRing S] (f : R →+* S) {m n : ℕ}
    (A D : Matrix (Fin m) (Fin n) R) (P : Matrix (Fin m) (Fin m) R) (Q : Matrix (Fin n) (Fin n) R)
    (hP : IsUnit P.det) (hQ : IsUnit Q.det) (h : P * A * Q = D) :
    (A.map f).rank = (D.map f).rank := by
  apply rank_eq_of_equiv (A.map f) (D.map f) (P.map f) (Q.map f)
  · rw [← RingHom.mapMatrix_apply, ← RingHom.map_det]; exact hP.map f
  · rw [← RingHom.mapMatrix_apply, ← RingHom.map_det]; exact hQ.map f
  · rw [← h, Matrix.map_mul, Matrix.map_mul]

end Yuiv.C03Uct
