import Yuiv.Model.C19Inv
import Mathlib.Data.List.Perm.Subperm
import Mathlib.Data.List.Nodup
import Mathlib.Data.Finset.Card
import Mathlib.Data.Finset.Image
import Mathlib.Order.Interval.Finset.Nat
/- spec definitions and helper lemmas for `Props/C19Inv.lean` -/
namespace Yuiv.C19Inv
open Yuiv Yuiv.KhRef Yuiv.C19

/-- the matching test of `InvLink::new`: the images of all labels of `x` occur among the labels of `y` -/
def Mt (f : Nat → Nat) (x y : Crossing) : Prop := ∀ e ∈ x.e.toList, f e ∈ y.e.toList

/-- keys of the crossing map -/
def keys (m : XMap) : List Crossing := m.map Prod.fst

/-- `e_map` as built by `new` -/
def buildE (f : Nat → Nat) (L : List Nat) : EMap := L.map (fun e => (e, f e))

/-! ### dedup -/

theorem mem_dedup (a : Nat) (l : List Nat) : a ∈ dedup l ↔ a ∈ l := by
  induction l with
  | nil => simp [dedup]
  | cons b r ih =>
    unfold dedup
    by_cases h : b ∈ r
    · simp only [h, if_true, ih, List.mem_cons]
      constructor
      · intro h'; exact Or.inr h'
      · rintro (rfl | h')
        · exact h
        · exact h'
    · simp only [h, if_false, List.mem_cons, ih]

theorem nodup_dedup (l : List Nat) : (dedup l).Nodup := by
  induction l with
  | nil => simp [dedup]
  | cons b r ih =>
    unfold dedup
    by_cases h : b ∈ r
    · simpa [h] using ih
    · rw [if_neg h, List.nodup_cons, mem_dedup]
      exact ⟨h, ih⟩

/-! ### the edge map -/

theorem emGet_build (f : Nat → Nat) (L : List Nat) (e : Nat) :
    emGet (buildE f L) e = if e ∈ L then some (f e) else none := by
  induction L with
  | nil => simp [buildE, emGet]
  | cons a r ih =>
    simp only [buildE, List.map_cons, emGet, List.mem_cons]
    by_cases h : a = e
    · subst h; simp
    · have h' : ¬ e = a := fun h'' => h h''.symm
      simp only [h, if_false, h', false_or]
      exact ih

theorem imgOf_build (f : Nat → Nat) (L es : List Nat) (h : ∀ e ∈ es, e ∈ L) :
    imgOf (buildE f L) es = .ok (es.map f) := by
  induction es with
  | nil => simp [imgOf]
  | cons a r ih =>
    have ha : a ∈ L := h a (by simp)
    have hr : ∀ e ∈ r, e ∈ L := fun e he => h e (by simp [he])
    simp [imgOf, emGet_build, ha, ih hr]

theorem covers_iff (f : Nat → Nat) (x y : Crossing) : covers (x.e.toList.map f) y = true ↔ Mt f x y := by
  unfold covers Mt
  rw [List.all_eq_true]
  constructor
  · intro h e he
    have := h (f e) (List.mem_map_of_mem he)
    simpa using this
  · intro h v hv
    obtain ⟨e, he, rfl⟩ := List.mem_map.1 hv
    have := h e he
    simpa using this

/-! ### the crossing map -/

theorem keys_amInsert (m : XMap) (k v a : Crossing) : a ∈ keys (amInsert m k v) ↔ a = k ∨ a ∈ keys m := by
  induction m with
  | nil => simp [amInsert, keys]
  | cons p r ih =>
    obtain ⟨k', v'⟩ := p
    unfold amInsert
    by_cases h : k' = k
    · subst h
      simp only [if_true, keys, List.map_cons, List.mem_cons]
      tauto
    · simp only [h, if_false, keys, List.map_cons, List.mem_cons] at ih ⊢
      rw [ih]; tauto

theorem nodup_amInsert (m : XMap) (k v : Crossing) (h : (keys m).Nodup) : (keys (amInsert m k v)).Nodup := by
  induction m with
  | nil => simp [amInsert, keys]
  | cons p r ih =>
    obtain ⟨k', v'⟩ := p
    unfold amInsert
    by_cases hk : k' = k
    · subst hk
      simpa [keys] using h
    · simp only [hk, if_false]
      have h' : k' ∉ keys r ∧ (keys r).Nodup := by simpa [keys] using h
      have : keys ((k', v') :: amInsert r k v) = k' :: keys (amInsert r k v) := rfl
      rw [this, List.nodup_cons]
      refine ⟨?_, ih h'.2⟩
      rw [keys_amInsert]
      rintro (h1 | h1)
      · exact hk h1
      · exact h'.1 h1

theorem mem_amInsert (m : XMap) (k v : Crossing) (p : Crossing × Crossing) (h : p ∈ amInsert m k v) :
    p = (k, v) ∨ p ∈ m := by
  induction m with
  | nil => simpa [amInsert] using h
  | cons q r ih =>
    obtain ⟨k', v'⟩ := q
    unfold amInsert at h
    by_cases hk : k' = k
    · simp only [hk, if_true, List.mem_cons] at h
      rcases h with h | h
      · exact Or.inl h
      · exact Or.inr (by simp [h])
    · simp only [hk, if_false, List.mem_cons] at h
      rcases h with h | h
      · exact Or.inr (by simp [h])
      · rcases ih h with h' | h'
        · exact Or.inl h'
        · exact Or.inr (by simp [h'])

theorem amGet_mem (m : XMap) (k v : Crossing) (h : amGet m k = some v) : (k, v) ∈ m := by
  induction m with
  | nil => simp [amGet] at h
  | cons q r ih =>
    obtain ⟨k', v'⟩ := q
    unfold amGet at h
    by_cases hk : k' = k
    · simp only [hk, if_true, Option.some.injEq] at h
      simp [hk, h]
    · simp only [hk, if_false] at h
      simp [ih h]

theorem amGet_of_key (m : XMap) (k : Crossing) (h : k ∈ keys m) : ∃ v, amGet m k = some v := by
  induction m with
  | nil => simp [keys] at h
  | cons q r ih =>
    obtain ⟨k', v'⟩ := q
    unfold amGet
    by_cases hk : k' = k
    · exact ⟨v', by simp [hk]⟩
    · have : k ∈ keys r := by
        have : k = k' ∨ k ∈ keys r := by simpa [keys] using h
        rcases this with h1 | h1
        · exact absurd h1.symm hk
        · exact h1
      obtain ⟨v, hv⟩ := ih this
      exact ⟨v, by simp [hk, hv]⟩

/-! ### the loop of `new` -/

/-- first crossing (in data order) whose labels contain all images of the labels of `x` -/
def firstMatch (f : Nat → Nat) (all : List Crossing) (x : Crossing) : Option Crossing :=
  all.find? (covers (x.e.toList.map f))

theorem firstMatch_some (f : Nat → Nat) (all : List Crossing) (x y : Crossing) (h : firstMatch f all x = some y) :
    y ∈ all ∧ Mt f x y := by
  unfold firstMatch at h
  exact ⟨List.mem_of_find?_eq_some h, (covers_iff f x y).1 (List.find?_some h)⟩

theorem firstMatch_none (f : Nat → Nat) (all : List Crossing) (x : Crossing) :
    firstMatch f all x = none ↔ ∀ y ∈ all, ¬ Mt f x y := by
  unfold firstMatch
  rw [List.find?_eq_none]
  constructor
  · intro h y hy hm; exact h y hy ((covers_iff f x y).2 hm)
  · intro h y hy hc; exact h y hy ((covers_iff f x y).1 hc)

/-- one iteration of the loop, as a function on the map -/
def stepMap (m : XMap) (x y : Crossing) : XMap :=
  if x ≠ y then amInsert (amInsert m x y) y x else amInsert m x y

theorem newLoop_cons (f : Nat → Nat) (L : List Nat) (all : List Crossing) (x : Crossing) (r : List Crossing) (m : XMap)
    (hx : ∀ e ∈ x.e.toList, e ∈ L) :
    newLoop (buildE f L) all (x :: r) m =
      match firstMatch f all x with
      | none => .panic
      | some y => newLoop (buildE f L) all r (stepMap m x y) := by
  simp only [newLoop, imgOf_build f L _ hx, firstMatch, stepMap]
  cases List.find? (covers (List.map f x.e.toList)) all <;> rfl

/-- invariants of the loop -/
theorem newLoop_inv (f : Nat → Nat) (L : List Nat) (all : List Crossing)
    (hE : ∀ x ∈ all, ∀ e ∈ x.e.toList, e ∈ L) (P : XMap → Prop)
    (hstep : ∀ m x y, P m → x ∈ all → firstMatch f all x = some y → P (stepMap m x y))
    (xs : List Crossing) (hsub : ∀ x ∈ xs, x ∈ all) (m m' : XMap) (h0 : P m)
    (h : newLoop (buildE f L) all xs m = .ok m') : P m' := by
  induction xs generalizing m with
  | nil => simp only [newLoop, Res.ok.injEq] at h; exact h ▸ h0
  | cons x r ih =>
    have hx : x ∈ all := hsub x (by simp)
    rw [newLoop_cons f L all x r m (hE x hx)] at h
    cases hm : firstMatch f all x with
    | none => simp [hm] at h
    | some y =>
      simp only [hm] at h
      exact ih (fun z hz => hsub z (by simp [hz])) _ (hstep m x y h0 hx hm) h

theorem keys_stepMap (m : XMap) (x y a : Crossing) : a ∈ keys (stepMap m x y) ↔ a = x ∨ a = y ∨ a ∈ keys m := by
  unfold stepMap
  by_cases h : x = y
  · subst h; simp [keys_amInsert]
  · simp only [ne_eq, h, not_false_eq_true, if_true, keys_amInsert]; tauto

theorem nodup_stepMap (m : XMap) (x y : Crossing) (h : (keys m).Nodup) : (keys (stepMap m x y)).Nodup := by
  unfold stepMap
  split
  · exact nodup_amInsert _ _ _ (nodup_amInsert _ _ _ h)
  · exact nodup_amInsert _ _ _ h

theorem mem_stepMap (m : XMap) (x y : Crossing) (p : Crossing × Crossing) (h : p ∈ stepMap m x y) :
    p = (x, y) ∨ p = (y, x) ∨ p ∈ m := by
  unfold stepMap at h
  split at h
  · rcases mem_amInsert _ _ _ _ h with h | h
    · exact Or.inr (Or.inl h)
    · rcases mem_amInsert _ _ _ _ h with h | h
      · exact Or.inl h
      · exact Or.inr (Or.inr h)
  · rcases mem_amInsert _ _ _ _ h with h | h
    · exact Or.inl h
    · exact Or.inr (Or.inr h)

/-- every processed crossing is a key afterwards -/
theorem newLoop_keys (f : Nat → Nat) (L : List Nat) (all : List Crossing)
    (hE : ∀ x ∈ all, ∀ e ∈ x.e.toList, e ∈ L)
    (xs : List Crossing) (hsub : ∀ x ∈ xs, x ∈ all) (m m' : XMap)
    (h : newLoop (buildE f L) all xs m = .ok m') : ∀ a, (a ∈ xs ∨ a ∈ keys m) → a ∈ keys m' := by
  induction xs generalizing m with
  | nil =>
    simp only [newLoop, Res.ok.injEq] at h
    intro a ha; subst h; simpa using ha
  | cons x r ih =>
    have hx : x ∈ all := hsub x (by simp)
    rw [newLoop_cons f L all x r m (hE x hx)] at h
    cases hm : firstMatch f all x with
    | none => simp [hm] at h
    | some y =>
      simp only [hm] at h
      intro a ha
      apply ih (fun z hz => hsub z (by simp [hz])) _ h a
      rw [keys_stepMap]
      rcases ha with ha | ha
      · rcases List.mem_cons.1 ha with ha | ha
        · exact Or.inr (Or.inl ha)
        · exact Or.inl ha
      · exact Or.inr (Or.inr (Or.inr ha))

/-- the loop never reports `err`, and succeeds exactly when every crossing has a match -/
theorem newLoop_ok_iff (f : Nat → Nat) (L : List Nat) (all : List Crossing)
    (hE : ∀ x ∈ all, ∀ e ∈ x.e.toList, e ∈ L)
    (xs : List Crossing) (hsub : ∀ x ∈ xs, x ∈ all) (m : XMap) :
    ((∃ m', newLoop (buildE f L) all xs m = .ok m') ↔ ∀ x ∈ xs, ∃ y ∈ all, Mt f x y) ∧
    newLoop (buildE f L) all xs m ≠ .err := by
  induction xs generalizing m with
  | nil => simp [newLoop]
  | cons x r ih =>
    have hx : x ∈ all := hsub x (by simp)
    have hr : ∀ z ∈ r, z ∈ all := fun z hz => hsub z (by simp [hz])
    rw [newLoop_cons f L all x r m (hE x hx)]
    cases hm : firstMatch f all x with
    | none =>
      have hn := (firstMatch_none f all x).1 hm
      simp only [List.mem_cons, forall_eq_or_imp]
      refine ⟨⟨fun ⟨_, h⟩ => by simp at h, fun ⟨⟨y, hy, hmy⟩, _⟩ => absurd hmy (hn y hy)⟩, by simp⟩
    | some y =>
      obtain ⟨hy, hmy⟩ := firstMatch_some f all x y hm
      simp only [List.mem_cons, forall_eq_or_imp]
      refine ⟨?_, (ih hr _).2⟩
      rw [(ih hr _).1]
      exact ⟨fun h => ⟨⟨y, hy, hmy⟩, h⟩, fun h => h.2⟩

theorem mem_edgesOf (xs : List Crossing) (e : Nat) : e ∈ edgesOf xs ↔ ∃ x ∈ xs, e ∈ x.e.toList := by
  simp [edgesOf, List.mem_flatMap]

/-- `x_map.len() == n` holds exactly when the crossings are pairwise distinct as values -/
theorem length_eq_iff_nodup (ks xs : List Crossing) (hk : ks.Nodup) (h1 : ∀ a ∈ ks, a ∈ xs) (h2 : ∀ a ∈ xs, a ∈ ks) :
    ks.length = xs.length ↔ xs.Nodup := by
  have sp1 : ks.Subperm xs := List.subperm_of_subset hk h1
  constructor
  · intro h
    have : ks.Perm xs := sp1.perm_of_length_le (by omega)
    exact this.nodup_iff.1 hk
  · intro h
    have sp2 : xs.Subperm ks := List.subperm_of_subset h h2
    exact Nat.le_antisymm sp1.length_le sp2.length_le

/-! ### symmetric matching from cardinalities -/

theorem Mt_symm_of_card (f : Nat → Nat) (x y : Crossing)
    (hinj : ∀ a ∈ x.e.toList, ∀ b ∈ x.e.toList, f a = f b → a = b)
    (hinv : ∀ a ∈ x.e.toList, f (f a) = a)
    (hcard : y.e.toList.toFinset.card ≤ x.e.toList.toFinset.card)
    (h : Mt f x y) : Mt f y x := by
  have himg : (x.e.toList.toFinset.image f) = y.e.toList.toFinset := by
    apply Finset.eq_of_subset_of_card_le
    · intro e he
      obtain ⟨a, ha, rfl⟩ := Finset.mem_image.1 he
      exact List.mem_toFinset.2 (h a (List.mem_toFinset.1 ha))
    · rw [Finset.card_image_of_injOn]
      · exact hcard
      · intro a ha b hb hab
        exact hinj a (List.mem_toFinset.1 ha) b (List.mem_toFinset.1 hb) hab
  intro e he
  have : e ∈ x.e.toList.toFinset.image f := by rw [himg]; exact List.mem_toFinset.2 he
  obtain ⟨a, ha, rfl⟩ := Finset.mem_image.1 this
  rw [hinv a (List.mem_toFinset.1 ha)]
  exact List.mem_toFinset.1 ha

/-! ### labels `1..n` -/

theorem foldl_min_le (r : List Nat) (a : Nat) : r.foldl min a ≤ a ∧ ∀ b ∈ r, r.foldl min a ≤ b := by
  induction r generalizing a with
  | nil => simp
  | cons c r ih =>
    simp only [List.foldl_cons, List.mem_cons, forall_eq_or_imp]
    have h1 := (ih (min a c)).1
    refine ⟨by omega, by omega, (ih (min a c)).2⟩

theorem foldl_min_mem (r : List Nat) (a : Nat) : r.foldl min a = a ∨ r.foldl min a ∈ r := by
  induction r generalizing a with
  | nil => simp
  | cons c r ih =>
    simp only [List.foldl_cons, List.mem_cons]
    rcases ih (min a c) with h | h
    · rcases Nat.le_total a c with h' | h'
      · left; rw [h]; omega
      · right; left; rw [h]; omega
    · right; right; exact h

theorem foldl_max_ge (r : List Nat) (a : Nat) : a ≤ r.foldl max a ∧ ∀ b ∈ r, b ≤ r.foldl max a := by
  induction r generalizing a with
  | nil => simp
  | cons c r ih =>
    simp only [List.foldl_cons, List.mem_cons, forall_eq_or_imp]
    have h1 := (ih (max a c)).1
    refine ⟨by omega, by omega, (ih (max a c)).2⟩

theorem listMin_spec (l : List Nat) (k : Nat) (h : listMin l = some k) : k ∈ l ∧ ∀ b ∈ l, k ≤ b := by
  cases l with
  | nil => simp [listMin] at h
  | cons a r =>
    simp only [listMin, Option.some.injEq] at h
    subst h
    refine ⟨?_, ?_⟩
    · rcases foldl_min_mem r a with h | h
      · rw [h]; simp
      · simp [h]
    · intro b hb
      rcases List.mem_cons.1 hb with rfl | hb
      · exact (foldl_min_le r b).1
      · exact (foldl_min_le r a).2 b hb

theorem listMax_spec (l : List Nat) (k : Nat) (h : listMax l = some k) : ∀ b ∈ l, b ≤ k := by
  cases l with
  | nil => simp [listMax] at h
  | cons a r =>
    simp only [listMax, Option.some.injEq] at h
    subst h
    intro b hb
    rcases List.mem_cons.1 hb with rfl | hb
    · exact (foldl_max_ge r b).1
    · exact (foldl_max_ge r a).2 b hb

/-- a duplicate-free list of `n` labels between `1` and `n` contains every label `1..n` -/
theorem labels_full (l : List Nat) (hn : l.Nodup) (hlo : ∀ b ∈ l, 1 ≤ b) (hhi : ∀ b ∈ l, b ≤ l.length) :
    ∀ e, e ∈ l ↔ 1 ≤ e ∧ e ≤ l.length := by
  have hsub : l.toFinset ⊆ Finset.Icc 1 l.length := by
    intro e he
    have := List.mem_toFinset.1 he
    exact Finset.mem_Icc.2 ⟨hlo e this, hhi e this⟩
  have hcard : (Finset.Icc 1 l.length).card ≤ l.toFinset.card := by
    rw [List.toFinset_card_of_nodup hn, Nat.card_Icc]; omega
  have heq := Finset.eq_of_subset_of_card_le hsub hcard
  intro e
  rw [← List.mem_toFinset, heq, Finset.mem_Icc]

end Yuiv.C19Inv

namespace Yuiv.C19Inv
open Yuiv Yuiv.KhRef Yuiv.C19

/-! ### `new`, taken apart -/

/-- the label set `link.edges()` as `new` sees it -/
def labelsOf (link : Link) : List Nat := dedup (edgesOf link.toList)

theorem labelsOf_cover (link : Link) : ∀ x ∈ link.toList, ∀ e ∈ x.e.toList, e ∈ labelsOf link := by
  intro x hx e he
  rw [labelsOf, mem_dedup, mem_edgesOf]
  exact ⟨x, hx, he⟩

/-- the part of `new` after the loop -/
def newTail (link : Link) (f : Nat → Nat) (base : Option Nat) (xmap : XMap) : Res InvData :=
  if xmap.length ≠ link.toList.length then .panic
  else
    match base with
    | none => .ok ⟨link, base, buildE f (labelsOf link), xmap⟩
    | some p =>
      match emGet (buildE f (labelsOf link)) p with
      | none => .panic
      | some q => if p ≠ q then .panic else .ok ⟨link, base, buildE f (labelsOf link), xmap⟩

theorem new_def (link : Link) (f : Nat → Nat) (base : Option Nat) :
    new link f base =
      match newLoop (buildE f (labelsOf link)) link.toList link.toList [] with
      | .ok xmap => newTail link f base xmap
      | .panic => .panic
      | .err => .err := rfl

theorem newTail_eq (link : Link) (f : Nat → Nat) (base : Option Nat) (xmap : XMap) :
    newTail link f base xmap =
      if xmap.length = link.toList.length ∧ (∀ p, base = some p → p ∈ labelsOf link ∧ f p = p)
      then .ok ⟨link, base, buildE f (labelsOf link), xmap⟩ else .panic := by
  unfold newTail
  by_cases hlen : xmap.length = link.toList.length
  · rw [if_neg (by simpa using hlen)]
    cases base with
    | none => simp only [hlen, true_and]; rw [if_pos (by simp)]
    | some p =>
      simp only [emGet_build, hlen, true_and]
      by_cases hp : p ∈ labelsOf link
      · simp only [hp, if_true]
        by_cases hq : p = f p
        · rw [if_neg (by simpa using hq), if_pos]
          intro p' hp'
          simp only [Option.some.injEq] at hp'
          subst hp'
          exact ⟨hp, hq.symm⟩
        · rw [if_pos hq, if_neg]
          intro h
          exact hq (h p rfl).2.symm
      · simp only [hp, if_false]
        rw [if_neg]
        intro h
        exact hp (h p rfl).1
  · rw [if_pos hlen, if_neg]
    exact fun h => hlen h.1

theorem new_ok_elim (link : Link) (f : Nat → Nat) (base : Option Nat) (d : InvData) (h : new link f base = .ok d) :
    ∃ xmap, newLoop (buildE f (labelsOf link)) link.toList link.toList [] = .ok xmap ∧ xmap.length = link.toList.length ∧
      d = ⟨link, base, buildE f (labelsOf link), xmap⟩ ∧ (∀ p, base = some p → p ∈ labelsOf link ∧ f p = p) := by
  rw [new_def] at h
  cases hl : newLoop (buildE f (labelsOf link)) link.toList link.toList [] with
  | panic => rw [hl] at h; exact absurd h (by simp)
  | err => rw [hl] at h; exact absurd h (by simp)
  | ok xmap =>
    rw [hl] at h
    simp only [newTail_eq] at h
    split at h
    · rename_i hc
      simp only [Res.ok.injEq] at h
      exact ⟨xmap, rfl, hc.1, h.symm, hc.2⟩
    · exact absurd h (by simp)

theorem new_ok_intro (link : Link) (f : Nat → Nat) (base : Option Nat) (xmap : XMap)
    (hl : newLoop (buildE f (labelsOf link)) link.toList link.toList [] = .ok xmap)
    (hlen : xmap.length = link.toList.length)
    (hb : ∀ p, base = some p → p ∈ labelsOf link ∧ f p = p) :
    new link f base = .ok ⟨link, base, buildE f (labelsOf link), xmap⟩ := by
  rw [new_def, hl]
  simp only [newTail_eq]
  rw [if_pos ⟨hlen, hb⟩]

theorem new_ne_err (link : Link) (f : Nat → Nat) (base : Option Nat) : new link f base ≠ .err := by
  rw [new_def]
  have hne := (newLoop_ok_iff f (labelsOf link) link.toList (labelsOf_cover link) link.toList (fun _ h => h) []).2
  cases hl : newLoop (buildE f (labelsOf link)) link.toList link.toList [] with
  | panic => simp
  | err => exact absurd hl hne
  | ok xmap =>
    simp only [newTail_eq]
    split <;> simp

/-- the key set of the final crossing map is the set of crossings -/
theorem loop_keys (link : Link) (f : Nat → Nat) (xmap : XMap)
    (hl : newLoop (buildE f (labelsOf link)) link.toList link.toList [] = .ok xmap) :
    (keys xmap).Nodup ∧ (∀ a ∈ keys xmap, a ∈ link.toList) ∧ (∀ a ∈ link.toList, a ∈ keys xmap) := by
  have h1 := newLoop_inv f (labelsOf link) link.toList (labelsOf_cover link)
    (fun m => (keys m).Nodup ∧ ∀ a ∈ keys m, a ∈ link.toList)
    (by
      intro m x y hP hx hm
      obtain ⟨hy, _⟩ := firstMatch_some f _ x y hm
      refine ⟨nodup_stepMap m x y hP.1, ?_⟩
      intro a ha
      rcases (keys_stepMap m x y a).1 ha with rfl | rfl | h
      · exact hx
      · exact hy
      · exact hP.2 a h)
    link.toList (fun _ h => h) [] xmap (by simp [keys]) hl
  refine ⟨h1.1, h1.2, ?_⟩
  intro a ha
  exact newLoop_keys f (labelsOf link) link.toList (labelsOf_cover link) link.toList (fun _ h => h) [] xmap hl a (Or.inl ha)

/-- under a symmetric matching relation every entry of the final map is a matching pair of crossings -/
theorem loop_entries (link : Link) (f : Nat → Nat) (xmap : XMap)
    (hsym : ∀ x ∈ link.toList, ∀ y ∈ link.toList, Mt f x y → Mt f y x)
    (hl : newLoop (buildE f (labelsOf link)) link.toList link.toList [] = .ok xmap) :
    ∀ p ∈ xmap, p.1 ∈ link.toList ∧ p.2 ∈ link.toList ∧ Mt f p.1 p.2 := by
  refine newLoop_inv f (labelsOf link) link.toList (labelsOf_cover link)
    (fun m => ∀ p ∈ m, p.1 ∈ link.toList ∧ p.2 ∈ link.toList ∧ Mt f p.1 p.2) ?_
    link.toList (fun _ h => h) [] xmap (by simp) hl
  intro m x y hP hx hm
  obtain ⟨hy, hxy⟩ := firstMatch_some f _ x y hm
  intro p hp
  rcases mem_stepMap m x y p hp with rfl | rfl | h
  · exact ⟨hx, hy, hxy⟩
  · exact ⟨hy, hx, hsym x hx y hy hxy⟩
  · exact hP p h

end Yuiv.C19Inv

namespace Yuiv.C19Inv
open Yuiv Yuiv.KhRef Yuiv.C19

theorem okAnd_elim {α : Type} (r : Res α) (p : α → Bool) (h : okAnd r p = true) : ∃ a, r = .ok a ∧ p a = true := by
  cases r with
  | ok a => exact ⟨a, rfl, h⟩
  | panic => simp [okAnd] at h
  | err => simp [okAnd] at h

theorem involB_spec (f : Nat → Nat) (es : List Nat) (h : involB f es = true) : ∀ e ∈ es, f (f e) = e := by
  intro e he
  have := List.all_eq_true.1 h e he
  simpa using this

theorem dedup_length (l : List Nat) : (dedup l).length = l.toFinset.card := by
  rw [← List.toFinset_card_of_nodup (nodup_dedup l)]
  congr 1
  ext a
  simp [mem_dedup]

theorem sameCardB_spec (xs : List Crossing) (h : sameCardB xs = true) :
    ∀ x ∈ xs, ∀ y ∈ xs, x.e.toList.toFinset.card = y.e.toList.toFinset.card := by
  intro x hx y hy
  have := List.all_eq_true.1 (List.all_eq_true.1 h x hx) y hy
  rw [← dedup_length, ← dedup_length]
  simpa using this

theorem distinctSetsB_spec (xs : List Crossing) (h : distinctSetsB xs = true) :
    ∀ x ∈ xs, ∀ y ∈ xs, (∀ e, e ∈ x.e.toList ↔ e ∈ y.e.toList) → x = y := by
  intro x hx y hy hxy
  have := List.all_eq_true.1 (List.all_eq_true.1 h x hx) y hy
  simp only [Bool.or_eq_true, Bool.not_eq_true', decide_eq_true_eq] at this
  rcases this with h1 | h1
  · exfalso
    have h2 : (x.e.toList.all (fun e => y.e.toList.contains e) && y.e.toList.all (fun e => x.e.toList.contains e)) = true := by
      simp only [Bool.and_eq_true, List.all_eq_true, List.contains_iff_mem]
      exact ⟨fun e he => (hxy e).1 he, fun e he => (hxy e).2 he⟩
    rw [h1] at h2
    exact absurd h2 (by simp)
  · exact h1

end Yuiv.C19Inv

namespace Yuiv.C19Inv
open Yuiv Yuiv.KhRef Yuiv.C19

/-! ### (d) the reference involutive cube -/

theorem allBelow_spec (n : Nat) (p : Nat → Bool) : allBelow n p = true ↔ ∀ i < n, p i = true := by
  simp [allBelow, List.all_eq_true]

/-- what `icubeWf` says about one state -/
structure WFs (ic : ICube) (s : Nat) : Prop where
  lt : ic.tst[s]! < 2 ^ ic.cube.n
  inv : ic.tst[ic.tst[s]!]! = s
  wt : popcount (ic.tst[s]!) ic.cube.n = popcount s ic.cube.n
  circ : (ic.cube.circ[ic.tst[s]!]!).size = (ic.cube.circ[s]!).size
  lab : (ic.tlab[s]!).size = (ic.cube.circ[s]!).size
  bij : ∀ i < (ic.cube.circ[s]!).size,
    (ic.tlab[s]!)[i]! < (ic.cube.circ[s]!).size ∧ (ic.tlab[ic.tst[s]!]!)[(ic.tlab[s]!)[i]!]! = i
  base : ∀ b, ic.cube.baseCircle s = some b →
    b < (ic.cube.circ[s]!).size ∧ ic.cube.baseCircle (ic.tst[s]!) = some ((ic.tlab[s]!)[b]!)

theorem wf_spec (ic : ICube) (h : icubeWf ic = true) : ∀ s < 2 ^ ic.cube.n, WFs ic s := by
  intro s hs
  unfold icubeWf at h
  simp only [Bool.and_eq_true, allBelow_spec, beq_iff_eq, decide_eq_true_eq] at h
  obtain ⟨_, hall⟩ := h
  obtain ⟨⟨⟨⟨⟨⟨h1, h2⟩, h3⟩, h4⟩, h5⟩, h6⟩, h7⟩ := hall s hs
  refine ⟨h1, h2, h3, h4, h5, h6, ?_⟩
  intro b hb
  rw [hb] at h7
  simpa using h7

/-- bits of the mask computed by `ICube.tau` -/
theorem tauMask_testBit (m : Array Nat) (x : Nat) (is : List Nat) (acc j : Nat) :
    (is.foldl (fun acc i => if x.testBit i then acc ||| (1 <<< m[i]!) else acc) acc).testBit j =
      (acc.testBit j || is.any (fun i => x.testBit i && m[i]! == j)) := by
  induction is generalizing acc with
  | nil => simp
  | cons i r ih =>
    simp only [List.foldl_cons, List.any_cons]
    rw [ih]
    by_cases hx : x.testBit i
    · simp only [hx, if_true, Nat.testBit_or, Nat.one_shiftLeft, Nat.testBit_two_pow, Bool.true_and, Bool.or_assoc]
      congr 2
    · simp [hx]

def tauMask (m : Array Nat) (x : Nat) : Nat :=
  (List.range m.size).foldl (fun acc i => if x.testBit i then acc ||| (1 <<< m[i]!) else acc) 0

theorem tau_eq (ic : ICube) (g : Gen) : ic.tau g = ⟨ic.tst[g.s]!, tauMask (ic.tlab[g.s]!) g.mask⟩ := rfl

theorem tauMask_testBit' (m : Array Nat) (x j : Nat) :
    (tauMask m x).testBit j = true ↔ ∃ i < m.size, x.testBit i = true ∧ m[i]! = j := by
  unfold tauMask
  rw [tauMask_testBit]
  simp [List.any_eq_true]

/-- if `m'` inverts `m` on `0..r`, the new mask is the old one read through `m'` -/
theorem tauMask_bit_of_inverse (m m' : Array Nat) (r x j : Nat) (hm : m.size = r)
    (h' : ∀ i < r, m'[i]! < r ∧ m[m'[i]!]! = i) (h : ∀ i < r, m[i]! < r ∧ m'[m[i]!]! = i) :
    (tauMask m x).testBit j = (decide (j < r) && x.testBit (m'[j]!)) := by
  rw [Bool.eq_iff_iff, tauMask_testBit', hm]
  simp only [Bool.and_eq_true, decide_eq_true_eq]
  constructor
  · rintro ⟨i, hi, hx, rfl⟩
    exact ⟨(h i hi).1, by rw [(h i hi).2]; exact hx⟩
  · rintro ⟨hj, hx⟩
    exact ⟨m'[j]!, (h' j hj).1, hx, (h' j hj).2⟩

theorem testBit_false_of_lt (x r j : Nat) (hx : x < 2 ^ r) (hj : r ≤ j) : x.testBit j = false :=
  Nat.testBit_lt_two_pow (Nat.lt_of_lt_of_le hx (Nat.pow_le_pow_right (by omega) hj))

/-- counting the set bits below `r` is invariant under a bijection of `0..r` -/
theorem count_perm (r : Nat) (σ σ' : Nat → Nat) (hσ' : ∀ j < r, σ' j < r ∧ σ (σ' j) = j)
    (hσ : ∀ i < r, σ i < r ∧ σ' (σ i) = i) (p : Nat → Bool) :
    ((List.range r).filter (fun j => p (σ' j))).length = ((List.range r).filter p).length := by
  have hperm : ((List.range r).map σ').Perm (List.range r) := by
    apply (List.perm_ext_iff_of_nodup _ List.nodup_range).2
    · intro a
      simp only [List.mem_map, List.mem_range]
      constructor
      · rintro ⟨j, hj, rfl⟩; exact (hσ' j hj).1
      · intro ha; exact ⟨σ a, (hσ a ha).1, (hσ a ha).2⟩
    · apply List.Nodup.map_on _ List.nodup_range
      intro a ha b hb hab
      rw [← (hσ' a (List.mem_range.1 ha)).2, ← (hσ' b (List.mem_range.1 hb)).2, hab]
  have h1 : (((List.range r).map σ').filter p).length = ((List.range r).filter p).length :=
    (hperm.filter p).length_eq
  rw [← h1, List.filter_map, List.length_map]
  rfl

theorem popcount_congr (x y r : Nat) (h : ∀ j < r, x.testBit j = y.testBit j) : popcount x r = popcount y r := by
  unfold popcount
  congr 1
  apply List.filter_congr
  intro j hj
  exact h j (List.mem_range.1 hj)

end Yuiv.C19Inv
