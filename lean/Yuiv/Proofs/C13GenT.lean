import Yuiv.Gen.TransFn
set_option linter.unusedSectionVars false
set_option linter.unusedSimpArgs false
/-
Helper definitions and lemmas for `Yuiv/Props/C13GenT.lean` (no property theorem here).

`Yuiv.GenTrans.*` is GENERATED from `/repo/yui-matrix/src/sparse/trans.rs` by `tools/rs2lean_fn.py fn:trans`; `C13.Trans.*`
(`Yuiv/Model/C13.lean`) is the hand-written model.  `ofT` embeds the model's `Trans R` into the generated structure
`TransS R` (field by field); `mapR` lifts it to results.
-/
namespace Yuiv.C13GenT
open Yuiv Res Yuiv.Rust Yuiv.C13

variable {R : Type} [Zero R] [One R] [Add R] [Mul R] [Neg R] [DecidableEq R]

/-- the generated struct of a model transform -/
def ofT (t : Trans R) : GenTrans.TransS R := ⟨t.srcDim, t.tgtDim, t.fMats, t.bMats⟩

def mapR {β γ} (f : β → γ) : Res β → Res γ
  | .ok a => .ok (f a)
  | .panic => .panic
  | .err => .err

theorem mapR_ok {β γ} (f : β → γ) (a : β) : mapR f (ok a) = ok (f a) := rfl
theorem assert_true : Res.assert true = ok () := rfl
theorem assert_false : Res.assert false = (.panic : Res Unit) := rfl
theorem pure_eq_ok {β} (a : β) : (pure a : Res β) = ok a := rfl
theorem bind_mapR {β γ δ} (f : β → γ) (x : Res β) (g : γ → Res δ) : (mapR f x >>= g) = (x >>= fun a => g (f a)) := by
  cases x <;> rfl
theorem mapR_bind {α β γ} (f : β → γ) (x : Res α) (g : α → Res β) : mapR f (x >>= g) = (x >>= fun a => mapR f (g a)) := by
  cases x <;> rfl
theorem bind_congr' {α β} (x : Res α) {f g : α → Res β} (h : ∀ a, f a = g a) : (x >>= f) = (x >>= g) := by
  cases x <;> simp [h] <;> rfl
theorem bind_ok_right {α} (x : Res α) : (x >>= fun a => ok a) = x := by cases x <;> rfl

/-- `it.enumerate()` of the prelude is the model's `enumFrom'` -/
theorem enum_eq {β : Type} (l : List β) : ∀ k, Sp.enumFrom k l = enumFrom' k l := by
  induction l with
  | nil => intro k; rfl
  | cons a l ih => intro k; simp [Sp.enumFrom, enumFrom', ih]

theorem bind_assoc' {β γ δ} (x : Res β) (f : β → Res γ) (g : γ → Res δ) :
    ((x >>= f) >>= g) = (x >>= fun a => f a >>= g) := by cases x <;> rfl

/-- `if v.len() == 1 { v[0] } else { fold }` is the model's `match v with | [x] => x | _ => fold` -/
theorem single_or (l : List (SpMat R)) (k : List (SpMat R) → Res (SpMat R)) :
    (if decide (l.length = 1) = true then Sp.list_get l 0 else k l) = (match l with | [f] => ok f | fs => k fs) := by
  match l with
  | [] => rfl
  | [f] => rfl
  | a :: b :: rest => simp

end Yuiv.C13GenT
