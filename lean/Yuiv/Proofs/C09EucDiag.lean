import Yuiv.Proofs.C09EucShape
/-
C09 — the full Smith shape of the code model for ANY lawful Euclidean operation record, part 2:
`diag_normalize` (diagonality, the non-zero prefix, `(x, y) ↦ (gcd, lcm)` with `size d_i` strictly decreasing),
the final multiplication by normalising units, and the checker `isSnfShape`.
-/
set_option linter.unusedSectionVars false
set_option linter.unusedSimpArgs false
set_option linter.unusedVariables false
namespace Yuiv.C09.Euc
open Yuiv Yuiv.C09

variable {α K : Type} [CommRing K] [IsDomain K] {e : EOps α} {φ : α → K} {m n : Nat}

section diag
variable (L : LawfulEuc e φ)
include L

/-- the two elementary operations of the third branch of `diag_normalize_step` turn the diagonal block
`diag(x, y) = diag(a·d, b·d)` into `diag(d, a·b·d)` and change nothing else -/
theorem diagStep_entries (T : Mat α m n) (hD : DiagZ φ T) (I I1 : Fin m) (J J1 : Fin n) (hI : I.1 = J.1)
    (hI1 : I1.1 = J1.1) (hne : I.1 ≠ I1.1) (s t a b d : α) (hx : φ (T.get I J) = φ a * φ d)
    (hy : φ (T.get I1 J1) = φ b * φ d) (hbez : φ s * φ a + φ t * φ b = 1) (r : Fin m) (c : Fin n) :
    φ ((rightElem e.toROps (leftElem e.toROps T e.one e.one (e.neg (e.mul t b)) (e.mul s a) I I1)
        s t (e.neg b) a J J1).get r c) =
      if r = I ∧ c = J then φ d else if r = I1 ∧ c = J1 then φ a * φ b * φ d else φ (T.get r c) := by
  have z1 : φ (T.get I J1) = 0 := hD I J1 (by omega)
  have z2 : φ (T.get I1 J) = 0 := hD I1 J (by omega)
  have hII : I ≠ I1 := fun h => hne (congrArg Fin.val h)
  have hJJ : J ≠ J1 := fun h => hne (by rw [hI, hI1]; exact congrArg Fin.val h)
  have hrJ : ∀ r, r ≠ I → φ (T.get r J) = 0 := fun r hr => hD r J (fun h => hr (Fin.ext (by omega)))
  have hrJ1 : ∀ r, r ≠ I1 → φ (T.get r J1) = 0 := fun r hr => hD r J1 (fun h => hr (Fin.ext (by omega)))
  have hIc : ∀ c, c ≠ J → φ (T.get I c) = 0 := fun c hc => hD I c (fun h => hc (Fin.ext (by omega)))
  have hI1c : ∀ c, c ≠ J1 → φ (T.get I1 c) = 0 := fun c hc => hD I1 c (fun h => hc (Fin.ext (by omega)))
  rw [rightElem_get L]
  simp only [leftElem_get L, L.phi_one, L.phi_neg, L.phi_mul]
  by_cases hc1 : c = J1 <;> by_cases hc : c = J <;> by_cases hr1 : r = I1 <;> by_cases hr : r = I
  all_goals (try (exact absurd (hc.symm.trans hc1) hJJ))
  all_goals (try (exact absurd (hr.symm.trans hr1) hII))
  all_goals
    simp only [hII, hII.symm, hJJ, hJJ.symm, hr, hr1, hc, hc1, if_true, if_false, and_true,
      and_false, and_self, hx, hy, z1, z2, hrJ, hrJ1, hIc, hI1c, ne_eq, not_false_eq_true]
  all_goals (first | done | ring1 | linear_combination φ d * hbez | linear_combination (φ a * φ b * φ d) * hbez)

/-- `diag_normalize_step(i)` on a diagonal matrix, whenever it returns: the two entries were non-zero; the result
is diagonal, the other diagonal entries are unchanged, the two new entries are non-zero; and when it answers
`false`, the Euclidean size of `d_i` has strictly decreased (`(x, y) ↦ (gcd, lcm)`) -/
theorem diagStep_spec (dbg : Bool) (s : St α m n) (i : Nat) (hm : i + 1 < m) (hn : i + 1 < n)
    (r : St α m n × Bool) (h : diagNormalizeStep e dbg s i hm hn = .ok r) (hD : DiagZ φ s.t) :
    φ (s.t.get ⟨i, Nat.lt_of_succ_lt hm⟩ ⟨i, Nat.lt_of_succ_lt hn⟩) ≠ 0 ∧ φ (s.t.get ⟨i + 1, hm⟩ ⟨i + 1, hn⟩) ≠ 0 ∧
    DiagZ φ r.1.t ∧
    (∀ (R : Fin m) (C : Fin n), R.1 = C.1 → R.1 ≠ i → R.1 ≠ i + 1 → φ (r.1.t.get R C) = φ (s.t.get R C)) ∧
    φ (r.1.t.get ⟨i, Nat.lt_of_succ_lt hm⟩ ⟨i, Nat.lt_of_succ_lt hn⟩) ≠ 0 ∧
    φ (r.1.t.get ⟨i + 1, hm⟩ ⟨i + 1, hn⟩) ≠ 0 ∧
    (r.2 = false →
      e.size (r.1.t.get ⟨i, Nat.lt_of_succ_lt hm⟩ ⟨i, Nat.lt_of_succ_lt hn⟩) <
        e.size (s.t.get ⟨i, Nat.lt_of_succ_lt hm⟩ ⟨i, Nat.lt_of_succ_lt hn⟩)) := by
  unfold diagNormalizeStep at h
  simp only at h
  generalize hI : (⟨i, Nat.lt_of_succ_lt hm⟩ : Fin m) = I at h ⊢
  generalize hI1 : (⟨i + 1, hm⟩ : Fin m) = I1 at h ⊢
  generalize hJ : (⟨i, Nat.lt_of_succ_lt hn⟩ : Fin n) = J at h ⊢
  generalize hJ1 : (⟨i + 1, hn⟩ : Fin n) = J1 at h ⊢
  have vI : I.1 = i := by rw [← hI]
  have vI1 : I1.1 = i + 1 := by rw [← hI1]
  have vJ : J.1 = i := by rw [← hJ]
  have vJ1 : J1.1 = i + 1 := by rw [← hJ1]
  split at h
  · cases h
  · rename_i hz
    simp only [Bool.or_eq_true, L.isZero_iff, not_or] at hz
    obtain ⟨hx0, hy0⟩ := hz
    split at h
    · injection h with h; subst h
      exact ⟨hx0, hy0, hD, fun _ _ _ _ _ => rfl, hx0, hy0, fun h => by cases h⟩
    · rename_i hxy
      have hxy' : ¬ (φ (s.t.get I J) ∣ φ (s.t.get I1 J1)) := fun hh => hxy ((L.dvd_iff _ _).2 ⟨hx0, hh⟩)
      split at h
      · rename_i hyx
        injection h with h; subst h
        rw [L.dvd_iff] at hyx
        have hget : ∀ (R : Fin m) (C : Fin n), (sSwapCols (sSwapRows s I I1) J J1).t.get R C =
            s.t.get (if R = I then I1 else if R = I1 then I else R) (if C = J then J1 else if C = J1 then J else C) := by
          intro R C
          simp only [sSwapCols, sSwapRows]
          rw [swapCols_get, swapRows_get]
        refine ⟨hx0, hy0, ?_, ?_, ?_, ?_, fun _ => ?_⟩
        · intro R C hRC
          rw [hget]
          apply hD
          split <;> split <;> (try split) <;> (try split) <;> simp_all <;> omega
        · intro R C hRC h1 h2
          rw [hget, if_neg (fun hh => by subst hh; omega), if_neg (fun hh => by subst hh; omega),
            if_neg (fun hh => by subst hh; omega), if_neg (fun hh => by subst hh; omega)]
        · rw [hget, if_pos rfl, if_pos rfl]; exact hy0
        · rw [hget, if_neg (fun hh => by rw [Fin.ext_iff] at hh; omega), if_pos rfl,
            if_neg (fun hh => by rw [Fin.ext_iff] at hh; omega), if_pos rfl]; exact hx0
        · rw [hget, if_pos rfl, if_pos rfl]
          exact L.size_lt_of_dvd_not_dvd _ _ hx0 hyx.2 hxy'
      · rename_i hyx
        obtain ⟨g1, _, g2, g3, g4, _⟩ := L.gcdxW_data (s.t.get I J) (s.t.get I1 J1) hx0 (Or.inr hxy')
        split at h
        · rename_i s1 h1
          split at h
          · rename_i s2 h2
            injection h with h; subst h
            unfold sLeft at h1
            split at h1
            · cases h1
            · injection h1 with h1; subst h1
              unfold sRight at h2
              split at h2
              · cases h2
              · injection h2 with h2; subst h2
                generalize (gcdxW e (s.t.get I J) (s.t.get I1 J1)) = g at *
                obtain ⟨d, s', t'⟩ := g
                simp only at g1 g2 g3 g4
                generalize e.quo (s.t.get I J) d = a at *
                generalize e.quo (s.t.get I1 J1) d = b at *
                have hent := diagStep_entries L s.t hD I I1 J J1 (by omega) (by omega) (by omega) s' t' a b d g2 g3 g4
                have hent' : ∀ R C, φ ((sRightRaw e.toROps (sLeftRaw e.toROps s e.one e.one
                    (e.neg (e.mul t' b)) (e.mul s' a) I I1) s' t' (e.neg b) a J J1).t.get R C) =
                      if R = I ∧ C = J then φ d else if R = I1 ∧ C = J1 then φ a * φ b * φ d
                      else φ (s.t.get R C) := hent
                have ha0 : φ a ≠ 0 := by intro h0; rw [h0, zero_mul] at g2; exact hx0 g2
                have hb0 : φ b ≠ 0 := by intro h0; rw [h0, zero_mul] at g3; exact hy0 g3
                refine ⟨hx0, hy0, ?_, ?_, ?_, ?_, fun _ => ?_⟩
                · intro R C hRC
                  rw [hent', if_neg (fun hh => by obtain ⟨rfl, rfl⟩ := hh; omega),
                    if_neg (fun hh => by obtain ⟨rfl, rfl⟩ := hh; omega)]
                  exact hD R C hRC
                · intro R C hRC hh1 hh2
                  rw [hent', if_neg (fun hh => by obtain ⟨rfl, rfl⟩ := hh; omega),
                    if_neg (fun hh => by obtain ⟨rfl, rfl⟩ := hh; omega)]
                · rw [hent', if_pos ⟨rfl, rfl⟩]; exact g1
                · rw [hent', if_neg (fun hh => by rw [Fin.ext_iff] at hh; omega), if_pos ⟨rfl, rfl⟩]
                  exact mul_ne_zero (mul_ne_zero ha0 hb0) g1
                · have hpiv : φ ((sRightRaw e.toROps (sLeftRaw e.toROps s e.one e.one
                      (e.neg (e.mul t' b)) (e.mul s' a) I I1) s' t' (e.neg b) a J J1).t.get I J) = φ d := by
                    rw [hent', if_pos ⟨rfl, rfl⟩]
                  rw [L.size_congr _ _ hpiv g1]
                  refine L.size_lt_of_dvd_not_dvd _ _ hx0 ⟨φ a, by rw [g2]; ring⟩ ?_
                  intro hxd
                  exact hxy' (dvd_trans hxd ⟨φ b, by rw [g3]; ring⟩)
          · cases h
          · cases h
        · cases h
        · cases h

theorem dgz_eq (T : Mat α m n) (k : Nat) (hm : k < m) (hn : k < n) :
    dgz e φ T k = φ (T.get ⟨k, hm⟩ ⟨k, hn⟩) := by
  unfold dgz; rw [dg_eq]

theorem dgz_out (T : Mat α m n) (k : Nat) (h : ¬ (k < m ∧ k < n)) : dgz e φ T k = 0 := by
  unfold dgz dg; rw [dif_neg h]; exact L.phi_zero

/-- `diag_normalize_step` in terms of the diagonal -/
theorem diagStep_dg (dbg : Bool) (s : St α m n) (i : Nat) (hm : i + 1 < m) (hn : i + 1 < n)
    (r : St α m n × Bool) (h : diagNormalizeStep e dbg s i hm hn = .ok r) (hD : DiagZ φ s.t) :
    DiagZ φ r.1.t ∧ (∀ k, k ≠ i → k ≠ i + 1 → dgz e φ r.1.t k = dgz e φ s.t k) ∧
    dgz e φ s.t i ≠ 0 ∧ dgz e φ s.t (i + 1) ≠ 0 ∧ dgz e φ r.1.t i ≠ 0 ∧ dgz e φ r.1.t (i + 1) ≠ 0 ∧
    (r.2 = false → e.size (dg e.toROps r.1.t i) < e.size (dg e.toROps s.t i)) := by
  obtain ⟨h1, h2, h3, h4, h5, h6, h7⟩ := diagStep_spec L dbg s i hm hn r h hD
  have hm' : i < m := Nat.lt_of_succ_lt hm
  have hn' : i < n := Nat.lt_of_succ_lt hn
  simp only [dgz, dg_eq _ _ i hm' hn', dg_eq _ _ (i + 1) hm hn]
  refine ⟨h3, ?_, h1, h2, h5, h6, h7⟩
  intro k hk1 hk2
  unfold dg
  split
  · rename_i hk
    exact h4 ⟨k, hk.1⟩ ⟨k, hk.2⟩ rfl hk1 hk2
  · rfl

/-- **invariants of the `'outer` loop of `diag_normalize`**: diagonality, the non-zero prefix, and the entries
from `r` on are not touched -/
theorem diagOuter_post (dbg : Bool) (r : Nat) : ∀ (fuel : Nat) (s s' : St α m n),
    diagOuter e dbg r fuel s = .ok s' → DiagZ φ s.t → (∀ k, k < r → dgz e φ s.t k ≠ 0) →
    DiagZ φ s'.t ∧ (∀ k, k < r → dgz e φ s'.t k ≠ 0) ∧ (∀ k, r ≤ k → dgz e φ s'.t k = dgz e φ s.t k) := by
  intro fuel
  induction fuel with
  | zero => intro s s' h; simp [diagOuter] at h
  | succ fuel ih =>
    intro s s' h hD hnz
    rw [diagOuter] at h
    split at h
    · rename_i r1 h1
      rcases diagPass_spec dbg r r 0 s r1 h1 with rfl | ⟨i0, hm, hn, hir, hb, hstep⟩
      · simp only at h
        injection h with h; subst h
        exact ⟨hD, hnz, fun _ _ => rfl⟩
      · rw [if_neg (by simp [hb])] at h
        obtain ⟨d1, d2, _, _, d5, d6, _⟩ := diagStep_dg L dbg s i0 hm hn r1 hstep hD
        have hnz1 : ∀ k, k < r → dgz e φ r1.1.t k ≠ 0 := by
          intro k hk
          by_cases e1 : k = i0
          · rw [e1]; exact d5
          · by_cases e2 : k = i0 + 1
            · rw [e2]; exact d6
            · rw [d2 k e1 e2]; exact hnz k hk
        obtain ⟨f1, f2, f3⟩ := ih r1.1 s' h d1 hnz1
        refine ⟨f1, f2, ?_⟩
        intro k hk
        rw [f3 k hk, d2 k (by omega) (by omega)]
    · cases h
    · cases h

end diag

/-! ### the final multiplication by units -/

/-- equal up to a unit, entry by entry -/
def AssocEq (φ : α → K) (T T' : Mat α m n) : Prop :=
  ∀ r c, ∃ u : K, IsUnit u ∧ φ (T'.get r c) = φ (T.get r c) * u

theorem AssocEq.refl (T : Mat α m n) : AssocEq φ T T := fun _ _ => ⟨1, isUnit_one, by ring⟩

theorem AssocEq.trans {T T' T'' : Mat α m n} (h1 : AssocEq φ T T') (h2 : AssocEq φ T' T'') : AssocEq φ T T'' := by
  intro r c
  obtain ⟨u, hu, a⟩ := h1 r c
  obtain ⟨v, hv, b⟩ := h2 r c
  exact ⟨u * v, hu.mul hv, by rw [b, a]; ring⟩

section units
variable (L : LawfulEuc e φ)
include L

theorem AssocEq.dgz {T T' : Mat α m n} (h : AssocEq φ T T') (k : Nat) :
    ∃ u : K, IsUnit u ∧ dgz e φ T' k = dgz e φ T k * u := by
  unfold Euc.dgz dg
  split
  · exact h _ _
  · exact ⟨1, isUnit_one, by ring⟩

theorem normalizeStep_spec (s s' : St α m n) (k : Nat) (h : normalizeStep e s k = .ok s') :
    AssocEq φ s.t s'.t ∧ (k < m ∧ k < n → φ (e.normUnit (dg e.toROps s'.t k)) = 1) ∧
      ∀ k', k' ≠ k → dg e.toROps s'.t k' = dg e.toROps s.t k' := by
  unfold normalizeStep at h
  split at h
  · rename_i hk
    simp only at h
    split at h
    · unfold sMulRow at h
      split at h
      · cases h
      · injection h with h; subst h
        refine ⟨?_, fun _ => ?_, ?_⟩
        · intro r c
          rw [mulRow_get L]
          split
          · exact ⟨_, L.normUnit_isUnit _, rfl⟩
          · exact ⟨1, isUnit_one, by ring⟩
        · rw [dg_eq _ _ k hk.1 hk.2]
          simp only [mulRow, get_ofFn, if_pos]
          exact L.norm_mul _
        · intro k' hk'
          unfold dg
          split
          · simp only [mulRow, get_ofFn]
            rw [if_neg (fun hh => hk' (by rw [Fin.ext_iff] at hh; exact hh))]
          · rfl
    · rename_i hc
      injection h with h; subst h
      simp only [Bool.not_eq_true', Bool.not_eq_false] at hc
      refine ⟨AssocEq.refl _, fun _ => ?_, fun _ _ => rfl⟩
      rw [dg_eq _ _ k hk.1 hk.2]
      exact (L.isOne_iff _).1 hc
  · rename_i hk
    injection h with h; subst h
    exact ⟨AssocEq.refl _, fun h => absurd h hk, fun _ _ => rfl⟩

theorem normalizeFold_post (r0 : Nat) (s s' : St α m n)
    (h : (List.range r0).foldlM (normalizeStep e) s = .ok s') :
    AssocEq φ s.t s'.t ∧ ∀ k, k < r0 → k < m ∧ k < n → φ (e.normUnit (dg e.toROps s'.t k)) = 1 := by
  have key := foldlM_prefix (normalizeStep e)
    (fun pre s1 => AssocEq φ s.t s1.t ∧ ∀ k ∈ pre, k < m ∧ k < n → φ (e.normUnit (dg e.toROps s1.t k)) = 1) ?_
    (List.range r0) [] s s' ⟨AssocEq.refl _, by simp⟩ h
  · exact ⟨key.1, fun k hk => key.2 k (by simpa using hk)⟩
  · intro pre x s1 s2 ⟨p1, p2⟩ hstep
    obtain ⟨q1, q2, q3⟩ := normalizeStep_spec L s1 s2 x hstep
    refine ⟨p1.trans q1, ?_⟩
    intro k hk hkr
    rw [List.mem_append, List.mem_singleton] at hk
    by_cases hkx : k = x
    · rw [hkx]; exact q2 (hkx ▸ hkr)
    · rcases hk with hk | hk
      · rw [q3 k hkx]; exact p2 k hk hkr
      · exact absurd hk hkx

/-! ### from the facts to the checker `isSnfShape` -/

theorem shapeL_of : ∀ (l : List α) (r0 : Nat),
    (∀ k (h : k < l.length), k < r0 → φ l[k] ≠ 0 ∧ φ (e.normUnit l[k]) = 1) →
    (∀ k (h : k < l.length), r0 ≤ k → φ l[k] = 0) →
    (∀ k (h : k + 1 < l.length), k + 1 < r0 → φ l[k] ∣ φ l[k + 1]) →
    shapeL e l = true
  | [], _, _, _, _ => rfl
  | a :: rest, r0, h1, h2, h3 => by
    unfold shapeL
    by_cases hr : r0 = 0
    · have ha : φ a = 0 := h2 0 (by simp) (by omega)
      rw [if_pos ((L.isZero_iff a).2 ha)]
      rw [List.all_eq_true]
      intro x hx
      obtain ⟨k, hk, rfl⟩ := List.getElem_of_mem hx
      rw [L.isZero_iff]
      have := h2 (k + 1) (by simpa using hk) (by omega)
      simpa using this
    · have ha := h1 0 (by simp) (by omega)
      simp only [List.getElem_cons_zero] at ha
      rw [if_neg (by rw [L.isZero_iff]; exact ha.1)]
      have hnorm : e.isNorm a = true := (L.isNorm_iff a).2 ha.2
      have hrest : shapeL e rest = true := by
        apply shapeL_of rest (r0 - 1)
        · intro k hk hkr
          have := h1 (k + 1) (by simpa using hk) (by omega)
          simpa using this
        · intro k hk hkr
          have := h2 (k + 1) (by simpa using hk) (by omega)
          simpa using this
        · intro k hk hkr
          have := h3 (k + 1) (by simpa using hk) (by omega)
          simpa using this
      rw [hnorm, hrest, Bool.true_and, Bool.and_true]
      cases rest with
      | nil => rfl
      | cons b rest' =>
        simp only [Bool.or_eq_true]
        by_cases hr1 : 1 < r0
        · right
          rw [L.dvd_iff]
          refine ⟨ha.1, ?_⟩
          have := h3 0 (by simp) (by omega)
          simpa using this
        · left
          rw [L.isZero_iff]
          have := h2 1 (by simp) (by omega)
          simpa using this

omit L in
theorem diagL_getElem (T : Mat α m n) (k : Nat) (h : k < (diagL T).length) : (diagL T)[k] = dg e.toROps T k := by
  have hk : k < min m n := by simpa [diagL] using h
  simp only [diagL, List.getElem_ofFn]
  rw [dg_eq _ _ k (by omega) (by omega)]

theorem isSnfShape_of (T : Mat α m n) (r0 : Nat) (hD : DiagZ φ T)
    (h1 : ∀ k, k < r0 → k < min m n → dgz e φ T k ≠ 0 ∧ φ (e.normUnit (dg e.toROps T k)) = 1)
    (h2 : ∀ k, r0 ≤ k → dgz e φ T k = 0) (h3 : ∀ k, k + 1 < r0 → dgz e φ T k ∣ dgz e φ T (k + 1)) :
    isSnfShape e T = true := by
  unfold isSnfShape
  rw [Bool.and_eq_true]
  constructor
  · rw [isDiag_iff L.lawful]
    exact hD
  · apply shapeL_of L _ r0
    · intro k hk hkr
      have hk' : k < min m n := by simpa [diagL] using hk
      rw [diagL_getElem (e := e)]; exact h1 k hkr hk'
    · intro k hk hkr; rw [diagL_getElem (e := e)]; exact h2 k hkr
    · intro k hk hkr; rw [diagL_getElem (e := e), diagL_getElem (e := e)]; exact h3 k hkr

/-- what `firstZeroDiag` computes -/
theorem firstZeroDiag_spec (T : Mat α m n) :
    firstZeroDiag e T ≤ min m n ∧ (∀ k, k < firstZeroDiag e T → dgz e φ T k ≠ 0) ∧
      (firstZeroDiag e T < min m n → dgz e φ T (firstZeroDiag e T) = 0) := by
  obtain ⟨h1, h2, h3⟩ := find_range_spec (fun i => e.isZero (dg e.toROps T i)) (min m n)
  refine ⟨h1, ?_, ?_⟩
  · intro k hk
    have := h2 k hk
    exact (L.isZero_false _).1 this
  · intro hlt
    have := h3 hlt
    exact (L.isZero_iff _).1 this

/-- **post-condition of `diag_normalize`**: on a diagonal matrix with the non-zero entries first, whenever it
returns, the checker `isSnfShape` accepts the result -/
theorem diagNormalize_post (dbg : Bool) (fuel : Nat) (s s' : St α m n)
    (h : diagNormalize e dbg fuel s = .ok s') (hD : DiagZ φ s.t) (hN : NzFirst e φ s.t) :
    isSnfShape e s'.t = true := by
  obtain ⟨z1, z2, z3⟩ := firstZeroDiag_spec L s.t
  have htail : ∀ k, firstZeroDiag e s.t ≤ k → dgz e φ s.t k = 0 := by
    intro k hk
    by_cases hlt : firstZeroDiag e s.t < min m n
    · exact hN _ k hk (z3 hlt)
    · exact dgz_out L _ _ (by omega)
  unfold diagNormalize at h
  split at h
  · cases h
  · split at h
    · rename_i hz
      injection h with h; subst h
      exact isSnfShape_of L s.t 0 hD (fun k hk => absurd hk (Nat.not_lt_zero _))
        (fun k _ => htail k (by omega)) (fun k hk => absurd hk (Nat.not_lt_zero _))
    · split at h
      · rename_i s1 h1
        obtain ⟨o1, o2, o3⟩ := diagOuter_post L dbg _ fuel s s1 h1 hD z2
        have hchain := diagOuter_chain dbg _ fuel s s1 h1
        obtain ⟨n1, n2⟩ := normalizeFold_post L _ s1 s' h
        refine isSnfShape_of L s'.t (firstZeroDiag e s.t) ?_ ?_ ?_ ?_
        · intro r c hrc
          obtain ⟨u, _, hu⟩ := n1 r c
          rw [hu, o1 r c hrc, zero_mul]
        · intro k hk hkmn
          obtain ⟨u, hu, hu'⟩ := AssocEq.dgz L n1 k
          refine ⟨?_, n2 k hk ⟨by omega, by omega⟩⟩
          rw [hu']
          exact mul_ne_zero (o2 k hk) hu.ne_zero
        · intro k hk
          obtain ⟨u, hu, hu'⟩ := AssocEq.dgz L n1 k
          rw [hu', o3 k hk, htail k hk, zero_mul]
        · intro k hk
          have hk' : k + 1 < firstZeroDiag e s.t ∧ k + 1 < m ∧ k + 1 < n := ⟨hk, by omega, by omega⟩
          have hc := hchain k hk'
          rw [L.dvd_iff] at hc
          have e1 : dgz e φ s1.t k = φ (s1.t.get ⟨k, Nat.lt_of_succ_lt hk'.2.1⟩ ⟨k, Nat.lt_of_succ_lt hk'.2.2⟩) :=
            dgz_eq L _ _ _ _
          have e2 : dgz e φ s1.t (k + 1) = φ (s1.t.get ⟨k + 1, hk'.2.1⟩ ⟨k + 1, hk'.2.2⟩) := dgz_eq L _ _ _ _
          rw [← e1, ← e2] at hc
          obtain ⟨u, hu, hu'⟩ := AssocEq.dgz L n1 k
          obtain ⟨v, hv, hv'⟩ := AssocEq.dgz L n1 (k + 1)
          rw [hu', hv', hu.mul_right_dvd, hv.dvd_mul_right]
          exact hc.2
      · cases h
      · cases h

/-- **snf_shape** (code model, any lawful Euclidean operations, any preprocessing `pre`, any fuel, debug or
release build): whenever `SnfCalc::process` returns, the checker accepts its target -/
theorem snfCalc_shape (dbg : Bool) (pre : St α m n → Res (St α m n)) (fuel : Nat) (A : Mat α m n)
    (s : St α m n) (h : snfCalc e dbg pre fuel A = .ok s) : isSnfShape e s.t = true := by
  unfold snfCalc at h
  split at h
  · rename_i hz
    injection h with h; subst h
    have hz' : ∀ (i : Fin m) (j : Fin n), φ (A.get i j) = 0 := by
      intro i j
      have := congrFun (congrFun ((isZeroMat_iff L.lawful A).1 hz) i) j
      simpa using this
    refine isSnfShape_of L _ 0 (fun r c _ => hz' r c) (fun k hk => absurd hk (Nat.not_lt_zero _)) ?_
      (fun k hk => absurd hk (Nat.not_lt_zero _))
    intro k _
    unfold dgz dg
    split
    · exact hz' _ _
    · exact L.phi_zero
  · split at h
    · rename_i s1 h1
      split at h
      · rename_i s2 h2
        obtain ⟨hD, hN⟩ := eliminateAll_post L dbg fuel s1 s2 h2
        exact diagNormalize_post L dbg fuel s2 s h hD hN
      · cases h
      · cases h
    · cases h
    · cases h

end units

end Yuiv.C09.Euc
