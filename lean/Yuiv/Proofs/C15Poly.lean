import Yuiv.Proofs.C15Field
import Mathlib.Algebra.Polynomial.Degree.Operations
import Mathlib.Algebra.Polynomial.Degree.SmallDegree
import Mathlib.Algebra.Polynomial.Degree.Domain
import Mathlib.Algebra.Polynomial.Coeff
import Mathlib.Algebra.Field.Basic
import Mathlib.Algebra.Field.ZMod
import Mathlib.Data.Rat.Lemmas
import Mathlib.Data.ZMod.Basic
import Mathlib.Tactic.Ring
import Mathlib.Tactic.FieldSimp
import Mathlib.Tactic.LinearCombination
/-
C15 — `Poly<'x', R>::div_rem` (poly.rs) and `HPoly::div_rem` (h_poly.rs) over a field: helper lemmas.

The model (`Yuiv/Model/C15.lean`, `Poly.divRem`, `HP.divRem`) is generic over an `EucOps F` record of coefficient
operations.  `FieldRep E V φ` says that these operations compute, on the valid representatives `V`, the
operations of a (Mathlib) field `K` through an interpretation `φ : F → K` that is injective on `V`; it is
proved for the models of `Ratio` (`ratOps`, canonical fractions, `K = ℚ`) and of `FF<p>` (`ffOps p`, residues
`< p`, `K = ZMod p`, any prime `p`).  A coefficient list denotes `toPoly φ f = Σ φ(fᵢ) Xⁱ ∈ K[X]`; canonical
lists (valid coefficients, no trailing zero) are determined by their polynomials (`canon_inj`).
`EucRep E V ψ` is the representation form of `LawfulEuc` (Proofs/C15.lean); the generic Euclid loops are proved
over it and `Poly.eucRep` shows that `polyOps E` on canonical lists satisfies it.
-/
namespace Yuiv.C15
open Yuiv Polynomial

/-- what `Poly::div_rem` / `HPoly::div_rem` assume of the coefficient type (`R: Field`): the operations of
`E` compute, on the valid representatives `V` (e.g. canonical fractions, residues `< p`), the operations
of a field `K` through an interpretation `φ` that is injective on valid representatives. -/
structure FieldRep {F K : Type} [Field K] (E : EucOps F) (V : F → Prop) (φ : F → K) : Prop where
  inj : ∀ a b, V a → V b → φ a = φ b → a = b
  v_zero : V E.zero
  phi_zero : φ E.zero = 0
  v_one : V E.one
  phi_one : φ E.one = 1
  isZero_iff : ∀ a, V a → (E.isZero a = true ↔ φ a = 0)
  isOne_iff : ∀ a, V a → (E.isOne a = true ↔ φ a = 1)
  add : ∀ a b, V a → V b → V (E.add a b) ∧ φ (E.add a b) = φ a + φ b
  sub : ∀ a b, V a → V b → V (E.sub a b) ∧ φ (E.sub a b) = φ a - φ b
  mul : ∀ a b, V a → V b → V (E.mul a b) ∧ φ (E.mul a b) = φ a * φ b
  div : ∀ a b, V a → V b → φ b ≠ 0 → V (E.div a b) ∧ φ (E.div a b) = φ a / φ b
  normUnit : ∀ a, V a → V (E.normUnit a) ∧ φ (E.normUnit a) ≠ 0

namespace Poly
variable {F K : Type} [Field K] {E : EucOps F} {V : F → Prop} {φ : F → K}

/-- all coefficients are valid representatives -/
def PV (V : F → Prop) (f : List F) : Prop := ∀ x ∈ f, V x

/-- canonical coefficient list: valid coefficients, no trailing zero (the form of `Poly`'s term map) -/
def Canon (E : EucOps F) (V : F → Prop) (f : List F) : Prop :=
  PV V f ∧ ∀ c, f.getLast? = some c → E.isZero c = false

/-- the polynomial `Σ φ(fᵢ) Xⁱ` of `K[X]` denoted by a coefficient list -/
noncomputable def toPoly (φ : F → K) : List F → K[X]
  | [] => 0
  | x :: f => C (φ x) + X * toPoly φ f

@[simp] theorem toPoly_nil : toPoly φ ([] : List F) = 0 := rfl
@[simp] theorem toPoly_cons (x : F) (f : List F) : toPoly φ (x :: f) = C (φ x) + X * toPoly φ f := rfl

theorem pv_nil : PV V ([] : List F) := fun _ h => by cases h
theorem pv_cons {x : F} {f : List F} : PV V (x :: f) ↔ V x ∧ PV V f := by
  simp [PV]
theorem pv_append {f g : List F} : PV V (f ++ g) ↔ PV V f ∧ PV V g := by
  simp only [PV, List.mem_append]
  exact ⟨fun h => ⟨fun x hx => h x (Or.inl hx), fun x hx => h x (Or.inr hx)⟩,
    fun h x hx => hx.elim (h.1 x) (h.2 x)⟩

theorem toPoly_append (f g : List F) :
    toPoly φ (f ++ g) = toPoly φ f + X ^ f.length * toPoly φ g := by
  induction f with
  | nil => simp
  | cons x f ih => simp only [List.cons_append, toPoly_cons, ih, List.length_cons]; ring

theorem coeff_toPoly (f : List F) (i : Nat) :
    (toPoly φ f).coeff i = ((f[i]?).map φ).getD 0 := by
  induction f generalizing i with
  | nil => simp
  | cons x f ih =>
    cases i with
    | zero => simp
    | succ i => simp [coeff_X_mul, ih, coeff_C_succ]

/-! ### `trim` -/

theorem trim_append_one (f : List F) (c : F) :
    trim E (f ++ [c]) = if E.isZero c then trim E f else f ++ [c] := by
  unfold trim
  rw [List.reverse_append, List.reverse_singleton, List.singleton_append, List.dropWhile_cons]
  split <;> simp

theorem trim_nil : trim E ([] : List F) = [] := rfl

variable (H : FieldRep E V φ)
include H

theorem toPoly_trim (f : List F) (hf : PV V f) : toPoly φ (trim E f) = toPoly φ f := by
  induction f using List.reverseRecOn with
  | nil => rfl
  | append_singleton f c ih =>
    rw [trim_append_one]
    have hv := pv_append.1 hf
    split
    · rename_i hz
      have : φ c = 0 := (H.isZero_iff c (hv.2 c (by simp))).1 hz
      rw [ih hv.1, toPoly_append]; simp [this]
    · rfl

omit [Field K] H in
theorem canon_trim (f : List F) (hf : PV V f) : Canon E V (trim E f) := by
  induction f using List.reverseRecOn with
  | nil => exact ⟨pv_nil, by simp [trim_nil]⟩
  | append_singleton f c ih =>
    rw [trim_append_one]
    have hv := pv_append.1 hf
    split
    · exact ih hv.1
    · rename_i hz
      refine ⟨hf, fun d hd => ?_⟩
      rw [List.getLast?_append_of_ne_nil _ (by simp)] at hd
      simp at hd; subst hd; simpa using hz

omit H in
theorem trim_of_canon (f : List F) (hf : Canon E V f) : trim E f = f := by
  induction f using List.reverseRecOn with
  | nil => rfl
  | append_singleton f c _ =>
    rw [trim_append_one]
    have := hf.2 c (by simp)
    simp [this]

/-! ### length and degree -/

omit H in
theorem length_le_of_degree_lt (f : List F) (n : Nat) (h : f.length ≤ n) :
    (toPoly φ f).degree < n := by
  rw [degree_lt_iff_coeff_zero]
  intro m hm
  rw [coeff_toPoly, List.getElem?_eq_none (by omega)]; rfl

theorem canon_last_ne (f : List F) (hf : Canon E V f) (hne : f ≠ []) :
    (toPoly φ f).coeff (f.length - 1) ≠ 0 := by
  rw [coeff_toPoly]
  have hl : f.length - 1 < f.length := by
    have := List.length_pos_of_ne_nil hne; omega
  rw [List.getElem?_eq_getElem hl]
  simp only [Option.map_some, Option.getD_some]
  have hlast : f.getLast? = some f[f.length - 1] := by
    rw [List.getLast?_eq_getElem?, List.getElem?_eq_getElem hl]
  have hz := hf.2 _ hlast
  have hv : V f[f.length - 1] := hf.1 _ (List.getElem_mem hl)
  intro h0
  have := (H.isZero_iff _ hv).2 h0
  rw [hz] at this; cases this

/-- for canonical lists the length is the degree bound: `|f| ≤ n ↔ deg f < n` -/
theorem length_le_iff (f : List F) (hf : Canon E V f) (n : Nat) :
    f.length ≤ n ↔ (toPoly φ f).degree < n := by
  refine ⟨length_le_of_degree_lt f n, fun h => ?_⟩
  by_contra hlt
  have hne : f ≠ [] := by rintro rfl; simp at hlt
  rw [degree_lt_iff_coeff_zero] at h
  exact canon_last_ne H f hf hne (h _ (by omega))

theorem toPoly_eq_zero_iff (f : List F) (hf : Canon E V f) : toPoly φ f = 0 ↔ f = [] := by
  refine ⟨fun h => ?_, fun h => by rw [h]; rfl⟩
  have := (length_le_iff H f hf 0).2 (by rw [h]; simp)
  exact List.length_eq_zero_iff.1 (by omega)

/-- canonical lists are determined by the polynomial they denote -/
theorem canon_inj (f g : List F) (hf : Canon E V f) (hg : Canon E V g)
    (h : toPoly φ f = toPoly φ g) : f = g := by
  have hl : f.length = g.length := by
    have h1 := (length_le_iff H f hf g.length).2 (by rw [h]; exact length_le_of_degree_lt g _ le_rfl)
    have h2 := (length_le_iff H g hg f.length).2 (by rw [← h]; exact length_le_of_degree_lt f _ le_rfl)
    omega
  apply List.ext_getElem hl
  intro i h1 h2
  have := congrArg (fun p => p.coeff i) h
  simp only [coeff_toPoly, List.getElem?_eq_getElem h1, List.getElem?_eq_getElem h2,
    Option.map_some, Option.getD_some] at this
  exact H.inj _ _ (hf.1 _ (List.getElem_mem h1)) (hg.1 _ (List.getElem_mem h2)) this

/-! ### the ring operations -/

omit H in
theorem map_lin (h : F → F) (t : K) (hh : ∀ y, V y → V (h y) ∧ φ (h y) = t * φ y) (g : List F)
    (hg : PV V g) : PV V (g.map h) ∧ toPoly φ (g.map h) = C t * toPoly φ g := by
  induction g with
  | nil => exact ⟨pv_nil, by simp⟩
  | cons y g ih =>
    have hv := pv_cons.1 hg
    have := ih hv.2
    refine ⟨?_, ?_⟩
    · rw [List.map_cons]; exact pv_cons.2 ⟨(hh y hv.1).1, this.1⟩
    · rw [List.map_cons, toPoly_cons, toPoly_cons, this.2, (hh y hv.1).2, C_mul]; ring

theorem zipLong_lin (op : F → F → F) (s : K)
    (hop : ∀ a b, V a → V b → V (op a b) ∧ φ (op a b) = φ a + s * φ b)
    (f g : List F) (hf : PV V f) (hg : PV V g) :
    PV V (zipLong E op f g) ∧ toPoly φ (zipLong E op f g) = toPoly φ f + C s * toPoly φ g := by
  induction f generalizing g with
  | nil =>
    rw [zipLong]
    have := map_lin (V := V) (φ := φ) (fun y => op E.zero y) s
      (fun y hy => ⟨(hop _ _ H.v_zero hy).1, by rw [(hop _ _ H.v_zero hy).2, H.phi_zero, zero_add]⟩) g hg
    exact ⟨this.1, by rw [this.2]; simp⟩
  | cons x f ih =>
    cases g with
    | nil =>
      rw [zipLong]
      · have := map_lin (V := V) (φ := φ) (fun y => op y E.zero) 1
          (fun y hy => ⟨(hop _ _ hy H.v_zero).1, by rw [(hop _ _ hy H.v_zero).2, H.phi_zero]; ring⟩) (x :: f) hf
        exact ⟨this.1, by rw [this.2]; simp⟩
      · simp
    | cons y g =>
      rw [zipLong]
      have hv := pv_cons.1 hf
      have hw := pv_cons.1 hg
      have := ih g hv.2 hw.2
      refine ⟨pv_cons.2 ⟨(hop x y hv.1 hw.1).1, this.1⟩, ?_⟩
      rw [toPoly_cons, toPoly_cons, toPoly_cons, this.2, (hop x y hv.1 hw.1).2, C_add, C_mul]; ring

theorem add_spec (f g : List F) (hf : PV V f) (hg : PV V g) :
    Canon E V (add E f g) ∧ toPoly φ (add E f g) = toPoly φ f + toPoly φ g := by
  have := zipLong_lin H E.add 1 (fun a b ha hb => by rw [one_mul]; exact H.add a b ha hb) f g hf hg
  unfold add
  exact ⟨canon_trim _ this.1, by rw [toPoly_trim H _ this.1, this.2]; simp⟩

theorem sub_spec (f g : List F) (hf : PV V f) (hg : PV V g) :
    Canon E V (sub E f g) ∧ toPoly φ (sub E f g) = toPoly φ f - toPoly φ g := by
  have := zipLong_lin H E.sub (-1) (fun a b ha hb => by rw [neg_one_mul, ← sub_eq_add_neg]; exact H.sub a b ha hb) f g hf hg
  unfold sub
  exact ⟨canon_trim _ this.1, by rw [toPoly_trim H _ this.1, this.2]; simp [sub_eq_add_neg]⟩

theorem scale_spec (c : F) (hc : V c) (f : List F) (hf : PV V f) :
    Canon E V (scale E c f) ∧ toPoly φ (scale E c f) = C (φ c) * toPoly φ f := by
  have := map_lin (V := V) (φ := φ) (fun x => E.mul c x) (φ c) (fun y hy => H.mul c y hc hy) f hf
  unfold scale
  exact ⟨canon_trim _ this.1, by rw [toPoly_trim H _ this.1, this.2]⟩

theorem mul_spec (f g : List F) (hf : PV V f) (hg : PV V g) :
    Canon E V (mul E f g) ∧ toPoly φ (mul E f g) = toPoly φ f * toPoly φ g := by
  induction f with
  | nil => rw [mul]; exact ⟨⟨pv_nil, by simp⟩, by simp⟩
  | cons x f ih =>
    have hv := pv_cons.1 hf
    have ih := ih hv.2
    rw [mul]
    have hs := scale_spec H x hv.1 g hg
    generalize mul E f g = m at ih ⊢
    cases m with
    | nil =>
      have ha := add_spec H (scale E x g) [] hs.1.1 pv_nil
      refine ⟨ha.1, Eq.trans ha.2 ?_⟩
      have h0 := ih.2
      rw [toPoly_nil] at h0
      rw [hs.2, toPoly_cons, toPoly_nil, add_mul, mul_assoc, ← h0]; simp
    | cons a t =>
      have ha := add_spec H (scale E x g) (E.zero :: a :: t) hs.1.1 (pv_cons.2 ⟨H.v_zero, ih.1.1⟩)
      refine ⟨ha.1, Eq.trans ha.2 ?_⟩
      rw [hs.2, toPoly_cons E.zero, H.phi_zero, ih.2, toPoly_cons]; simp; ring

theorem toPoly_replicate_zero (k : Nat) : toPoly φ (List.replicate k E.zero) = 0 := by
  induction k with
  | zero => rfl
  | succ k ih => rw [List.replicate_succ, toPoly_cons, ih, H.phi_zero]; simp

theorem mono_spec (k : Nat) (c : F) (hc : V c) :
    PV V (mono E k c) ∧ toPoly φ (mono E k c) = C (φ c) * X ^ k := by
  unfold mono
  split
  · rename_i hz
    rw [(H.isZero_iff c hc).1 hz]; exact ⟨pv_nil, by simp⟩
  · refine ⟨pv_append.2 ⟨fun x hx => ?_, fun x hx => ?_⟩, ?_⟩
    · rw [List.eq_of_mem_replicate hx]; exact H.v_zero
    · simp at hx; subst hx; exact hc
    · rw [toPoly_append, toPoly_replicate_zero H, List.length_replicate]; simp

theorem lead_spec (f : List F) (hf : PV V f) :
    V (lead E f) ∧ φ (lead E f) = (toPoly φ f).coeff (f.length - 1) := by
  unfold lead
  by_cases hne : f = []
  · subst hne; exact ⟨H.v_zero, by simp [H.phi_zero]⟩
  · have hl : f.length - 1 < f.length := by
      have := List.length_pos_of_ne_nil hne; omega
    rw [List.getLast?_eq_getElem?, List.getElem?_eq_getElem hl, coeff_toPoly, List.getElem?_eq_getElem hl]
    exact ⟨hf _ (List.getElem_mem hl), rfl⟩

/-! ### `div_rem` -/

/-- one round of the closure `iter`: the division identity is kept, the remainder loses its leading term -/
theorem divIter_spec (r g : List F) (hr : Canon E V r) (hg : Canon E V g) (hg0 : g ≠ []) :
    PV V (divIter E r g).1 ∧ Canon E V (divIter E r g).2 ∧
    toPoly φ r = toPoly φ (divIter E r g).1 * toPoly φ g + toPoly φ (divIter E r g).2 ∧
    (divIter E r g).2.length ≤ max (r.length - 1) (g.length - 1) := by
  unfold divIter deg
  split
  · refine ⟨pv_nil, hr, by simp, ?_⟩
    show r.length ≤ _
    omega
  · rename_i hdeg
    simp only
    have hlr := lead_spec H r hr.1
    have hlg := lead_spec H g hg.1
    have hgne : φ (lead E g) ≠ 0 := by rw [hlg.2]; exact canon_last_ne H g hg hg0
    have hc := H.div _ _ hlr.1 hlg.1 hgne
    have hm := mono_spec H (r.length - 1 - (g.length - 1)) _ hc.1
    have hmul := mul_spec H _ g hm.1 hg.1
    have hs := sub_spec H r _ hr.1 hmul.1.1
    refine ⟨hm.1, hs.1, by rw [hs.2, hmul.2]; ring, ?_⟩
    refine le_trans ?_ (le_max_left _ _)
    rw [length_le_iff H _ hs.1, degree_lt_iff_coeff_zero]
    intro m hm'
    rw [hs.2, hmul.2, hm.2, hc.2, coeff_sub, mul_assoc, coeff_C_mul, coeff_X_pow_mul', if_pos (by omega)]
    rcases Nat.lt_or_ge (r.length - 1) m with hlt | hle
    · rw [coeff_toPoly, coeff_toPoly, List.getElem?_eq_none (by omega), List.getElem?_eq_none (by omega)]
      simp
    · have hm1 : m = r.length - 1 := by omega
      subst hm1
      have : r.length - 1 - (r.length - 1 - (g.length - 1)) = g.length - 1 := by omega
      rw [this, ← hlr.2, ← hlg.2]
      field_simp
      ring

omit H [Field K] in
theorem divLoop_succ (g : List F) (n : Nat) (q r : List F) :
    divLoop E g (n + 1) q r = divLoop E g n (add E q (divIter E r g).1) (divIter E r g).2 := rfl

theorem divLoop_spec (f g : List F) (hg : Canon E V g) (hg0 : g ≠ []) (n : Nat) (q r : List F)
    (hq : Canon E V q) (hr : Canon E V r)
    (he : toPoly φ f = toPoly φ q * toPoly φ g + toPoly φ r)
    (hl : r.length ≤ g.length - 1 + n) :
    Canon E V (divLoop E g n q r).1 ∧ Canon E V (divLoop E g n q r).2 ∧
    toPoly φ f = toPoly φ (divLoop E g n q r).1 * toPoly φ g + toPoly φ (divLoop E g n q r).2 ∧
    (divLoop E g n q r).2.length < g.length := by
  induction n generalizing q r with
  | zero =>
    rw [divLoop]
    have := List.length_pos_of_ne_nil hg0
    exact ⟨hq, hr, he, by show r.length < _; omega⟩
  | succ n ih =>
    rw [divLoop_succ]
    have hi := divIter_spec H r g hr hg hg0
    have ha := add_spec H q _ hq.1 hi.1
    refine ih _ _ ha.1 hi.2.1 ?_ ?_
    · rw [ha.2, he, hi.2.2.1]; ring
    · have := hi.2.2.2
      omega

theorem divRem_spec (f g : List F) (hf : Canon E V f) (hg : Canon E V g) (hg0 : g ≠ []) :
    Canon E V (divRem E f g).1 ∧ Canon E V (divRem E f g).2 ∧
    toPoly φ f = toPoly φ (divRem E f g).1 * toPoly φ g + toPoly φ (divRem E f g).2 ∧
    (divRem E f g).2.length < g.length := by
  unfold divRem deg
  refine divLoop_spec H f g hg hg0 _ [] f ⟨pv_nil, by simp⟩ hf (by simp) ?_
  split <;> omega


/-- quotient and remainder are unique -/
theorem divRem_unique (f g q r q' r' : List F) (hg : Canon E V g)
    (hq : Canon E V q) (hr : Canon E V r) (hq' : Canon E V q') (hr' : Canon E V r')
    (e : toPoly φ f = toPoly φ q * toPoly φ g + toPoly φ r) (hl : r.length < g.length)
    (e' : toPoly φ f = toPoly φ q' * toPoly φ g + toPoly φ r') (hl' : r'.length < g.length) :
    q = q' ∧ r = r' := by
  have d1 := length_le_of_degree_lt (φ := φ) r (g.length - 1) (by omega)
  have d2 := length_le_of_degree_lt (φ := φ) r' (g.length - 1) (by omega)
  have dg : ((g.length - 1 : ℕ) : WithBot ℕ) ≤ (toPoly φ g).degree := by
    by_contra hlt
    have := (length_le_iff H g hg (g.length - 1)).2 (not_le.1 hlt)
    omega
  have key : (toPoly φ q - toPoly φ q') * toPoly φ g = toPoly φ r' - toPoly φ r := by
    have : toPoly φ q * toPoly φ g + toPoly φ r = toPoly φ q' * toPoly φ g + toPoly φ r' := by rw [← e, ← e']
    linear_combination this
  have hQ : toPoly φ q - toPoly φ q' = 0 := by
    by_contra hne
    have hd : (toPoly φ r' - toPoly φ r).degree < ((g.length - 1 : ℕ) : WithBot ℕ) :=
      lt_of_le_of_lt (degree_sub_le _ _) (max_lt d2 d1)
    rw [← key, degree_mul] at hd
    have h0 : (0 : WithBot ℕ) ≤ (toPoly φ q - toPoly φ q').degree := zero_le_degree_iff.2 hne
    have : (toPoly φ g).degree ≤ (toPoly φ q - toPoly φ q').degree + (toPoly φ g).degree := by
      calc (toPoly φ g).degree = 0 + (toPoly φ g).degree := (zero_add _).symm
        _ ≤ _ := add_le_add_left h0 _
    exact absurd (lt_of_le_of_lt (le_trans dg this) hd) (lt_irrefl _)
  rw [hQ, zero_mul] at key
  exact ⟨canon_inj H q q' hq hq' (sub_eq_zero.1 hQ), canon_inj H r r' hr hr' (sub_eq_zero.1 key.symm).symm⟩

/-- in `K[X]`: a shorter list has smaller degree than a canonical one (`⊥` for the zero polynomial) -/
theorem degree_lt_of_length_lt (r g : List F) (hg : Canon E V g) (hl : r.length < g.length) :
    (toPoly φ r).degree < (toPoly φ g).degree := by
  have d1 := length_le_of_degree_lt (φ := φ) r (g.length - 1) (by omega)
  have dg : ((g.length - 1 : ℕ) : WithBot ℕ) ≤ (toPoly φ g).degree := by
    by_contra hlt
    have := (length_le_iff H g hg (g.length - 1)).2 (not_le.1 hlt)
    omega
  exact lt_of_lt_of_le d1 dg

end Poly
/-! ## homogeneous polynomials -/
namespace HP
variable {F K : Type} [Field K] {E : EucOps F} {V : F → Prop} {φ : F → K}

/-- the polynomial `φ(c)·X^d` denoted by `⟨d, c⟩` -/
noncomputable def toPoly (φ : F → K) (x : HP F) : K[X] := C (φ x.coeff) * X ^ x.deg

/-- `PartialEq for HPoly`: all zeros are equal, otherwise degree and coefficient agree -/
def Equiv (E : EucOps F) (x y : HP F) : Prop :=
  (isZero E x = true ∧ isZero E y = true) ∨ (x.deg = y.deg ∧ x.coeff = y.coeff)

variable (H : FieldRep E V φ)
include H

theorem divRem_spec (x y : HP F) (hx : V x.coeff) (hy : V y.coeff) (hy0 : isZero E y = false) :
    V (divRem E x y).1.coeff ∧ V (divRem E x y).2.coeff ∧
    toPoly φ x = toPoly φ (divRem E x y).1 * toPoly φ y + toPoly φ (divRem E x y).2 ∧
    (isZero E (divRem E x y).2 = true ∨ (divRem E x y).2.deg < y.deg) ∧
    Equiv E x (add E (mul E (divRem E x y).1 y) (divRem E x y).2) := by
  have hyne : φ y.coeff ≠ 0 := by
    intro h0; have := (H.isZero_iff _ hy).2 h0
    unfold isZero at hy0; rw [hy0] at this; cases this
  have hz : E.isZero E.zero = true := (H.isZero_iff _ H.v_zero).2 H.phi_zero
  unfold divRem
  split
  · rename_i hlt
    refine ⟨H.v_zero, hx, ?_, Or.inr hlt, ?_⟩
    · simp [toPoly, H.phi_zero]
    · simp only
      have hm : isZero E (mul E ⟨0, E.zero⟩ y) = true := by
        unfold mul; split
        · exact hz
        · have := H.mul _ _ H.v_zero hy
          exact (H.isZero_iff _ this.1).2 (by rw [this.2, H.phi_zero, zero_mul])
      unfold add; rw [if_pos hm]; exact Or.inr ⟨rfl, rfl⟩
  · rename_i hge
    have hd := H.div _ _ hx hy hyne
    refine ⟨hd.1, H.v_zero, ?_, Or.inl hz, ?_⟩
    · simp only [toPoly, H.phi_zero, hd.2]
      have : x.deg = (x.deg - y.deg) + y.deg := by omega
      conv_lhs => rw [this, pow_add]
      have e : φ x.coeff = φ x.coeff / φ y.coeff * φ y.coeff := by field_simp
      conv_lhs => rw [e, C_mul]
      simp; ring
    · simp only
      have hr0 : isZero E (⟨0, E.zero⟩ : HP F) = true := hz
      -- the product `q·y`
      have hm : V (mul E ⟨x.deg - y.deg, E.div x.coeff y.coeff⟩ y).coeff ∧
          (mul E ⟨x.deg - y.deg, E.div x.coeff y.coeff⟩ y).deg = x.deg ∧
          φ (mul E ⟨x.deg - y.deg, E.div x.coeff y.coeff⟩ y).coeff = φ x.coeff := by
        unfold mul; split
        · rename_i h1
          unfold isOne at h1
          rw [Bool.and_eq_true, beq_iff_eq] at h1
          have := (H.isOne_iff _ hy).1 h1.2
          refine ⟨hd.1, by simp only; omega, by simp only; rw [hd.2, this, div_one]⟩
        · have := H.mul _ _ hd.1 hy
          refine ⟨this.1, by simp only; omega, ?_⟩
          simp only; rw [this.2, hd.2]; field_simp
      unfold add
      split
      · rename_i h0
        left
        refine ⟨?_, hr0⟩
        unfold isZero at h0 ⊢
        rw [H.isZero_iff _ hm.1, hm.2.2] at h0
        exact (H.isZero_iff _ hx).2 h0
      · exact Or.inr ⟨hm.2.1.symm, H.inj _ _ hx hm.1 hm.2.2.symm⟩

end HP

/-! ## instances of `FieldRep` -/

/-- any `EucOps` that implements the operations of a field `F` on all of `F` -/
theorem FieldRep.of_field {F : Type} [Field F] (E : EucOps F)
    (h0 : E.zero = 0) (h1 : E.one = 1) (hz : ∀ a, E.isZero a = true ↔ a = 0) (ho : ∀ a, E.isOne a = true ↔ a = 1)
    (ha : ∀ a b, E.add a b = a + b) (hs : ∀ a b, E.sub a b = a - b) (hm : ∀ a b, E.mul a b = a * b)
    (hd : ∀ a b, b ≠ 0 → E.div a b = a / b) (hu : ∀ a, E.normUnit a ≠ 0) : FieldRep E (fun _ => True) id where
  inj := fun _ _ _ _ h => h
  v_zero := trivial
  phi_zero := h0
  v_one := trivial
  phi_one := h1
  isZero_iff := fun a _ => hz a
  isOne_iff := fun a _ => ho a
  add := fun a b _ _ => ⟨trivial, ha a b⟩
  sub := fun a b _ _ => ⟨trivial, hs a b⟩
  mul := fun a b _ _ => ⟨trivial, hm a b⟩
  div := fun a b _ _ hb => ⟨trivial, hd a b hb⟩
  normUnit := fun a _ => ⟨trivial, hu a⟩

namespace Q
/-- the rational number denoted by a fraction -/
def toRat (x : Q) : ℚ := (x.num : ℚ) / (x.den : ℚ)

theorem toRat_make (n d : Int) (hd : d ≠ 0) : toRat (make n d) = (n : ℚ) / (d : ℚ) := by
  unfold make toRat
  by_cases hn : n = 0
  · simp [hn]
  · simp only [beq_iff_eq, hn, if_false]
    have hg : 0 < Int.gcd n d := Int.gcd_pos_of_ne_zero_left d hn
    obtain ⟨s, hs, hds⟩ : ∃ s : Int, (s = 1 ∨ s = -1) ∧ (if d < 0 then (-1 : Int) else 1) = s := ⟨_, by split <;> simp, rfl⟩
    rw [hds]
    have h1 : ((Int.gcd n d : Nat) : Int) ∣ n * s := Dvd.dvd.mul_right (Int.gcd_dvd_left n d) s
    have h2 : ((Int.gcd n d : Nat) : Int) ∣ d * s := Dvd.dvd.mul_right (Int.gcd_dvd_right n d) s
    rw [Int.tdiv_eq_ediv_of_dvd h1, Int.tdiv_eq_ediv_of_dvd h2]
    have hgq : (((Int.gcd n d : Nat) : Int) : ℚ) ≠ 0 := by
      have : ((Int.gcd n d : Nat) : Int) ≠ 0 := by omega
      exact_mod_cast this
    rw [Int.cast_div h1 hgq, Int.cast_div h2 hgq]
    have hsq : (s : ℚ) ≠ 0 := by rcases hs with rfl | rfl <;> simp
    have hdq : (d : ℚ) ≠ 0 := by exact_mod_cast hd
    push_cast
    field_simp

theorem den_ne {x : Q} (h : WF x) : (x.den : ℚ) ≠ 0 := by
  have := h.1
  have : x.den ≠ 0 := by omega
  exact_mod_cast this

theorem toRat_eq_zero {x : Q} (h : WF x) : toRat x = 0 ↔ x.num = 0 := by
  unfold toRat
  rw [div_eq_zero_iff]
  constructor
  · rintro (h0 | h0)
    · exact_mod_cast h0
    · exact absurd h0 (den_ne h)
  · intro h0; left; exact_mod_cast h0

theorem fieldRep : FieldRep ratOps WF toRat where
  inj := by
    intro a b ha hb h
    have := Rat.div_int_inj ha.1 hb.1 ha.2 hb.2 h
    cases a; cases b; simp_all
  v_zero := wf_zero
  phi_zero := by simp [ratOps, zero, toRat]
  v_one := wf_one
  phi_one := by simp [ratOps, one, toRat]
  isZero_iff := by
    intro a ha
    rw [toRat_eq_zero ha]; simp [ratOps, isZero]
  isOne_iff := by
    intro a ha
    simp only [ratOps, isOne, beq_iff_eq, toRat]
    rw [div_eq_one_iff_eq (den_ne ha)]
    exact ⟨fun h => by exact_mod_cast h, fun h => by exact_mod_cast h⟩
  add := by
    intro a b ha hb
    have hd : a.den * b.den ≠ 0 := Int.mul_ne_zero (by have := ha.1; omega) (by have := hb.1; omega)
    refine ⟨make_wf _ _ hd, ?_⟩
    show toRat (make _ _) = _
    rw [toRat_make _ _ hd]; unfold toRat
    have := den_ne ha; have := den_ne hb
    push_cast; field_simp
  sub := by
    intro a b ha hb
    have hd : a.den * b.den ≠ 0 := Int.mul_ne_zero (by have := ha.1; omega) (by have := hb.1; omega)
    refine ⟨make_wf _ _ hd, ?_⟩
    show toRat (make _ _) = _
    rw [toRat_make _ _ hd]; unfold toRat
    have := den_ne ha; have := den_ne hb
    push_cast; field_simp
  mul := by
    intro a b ha hb
    have hd : a.den * b.den ≠ 0 := Int.mul_ne_zero (by have := ha.1; omega) (by have := hb.1; omega)
    refine ⟨make_wf _ _ hd, ?_⟩
    show toRat (make _ _) = _
    rw [toRat_make _ _ hd]; unfold toRat
    have := den_ne ha; have := den_ne hb
    push_cast; field_simp
  div := by
    intro a b ha hb hb0
    have hn : b.num ≠ 0 := fun h => hb0 ((toRat_eq_zero hb).2 h)
    have hz : isZero b = false := by simp [isZero, hn]
    have hi : WF (make b.den b.num) := make_wf _ _ hn
    have hd : a.den * (make b.den b.num).den ≠ 0 :=
      Int.mul_ne_zero (by have := ha.1; omega) (by have := hi.1; omega)
    have e : ratOps.div a b = make (a.num * (make b.den b.num).num) (a.den * (make b.den b.num).den) := by
      simp [ratOps, div, inv, hz, mul]
    rw [e]
    refine ⟨make_wf _ _ hd, ?_⟩
    rw [toRat_make _ _ hd]
    have h2 := toRat_make b.den b.num hn
    unfold toRat at h2 ⊢
    have := den_ne ha; have := den_ne hb; have := den_ne hi
    have hnq : (b.num : ℚ) ≠ 0 := by exact_mod_cast hn
    push_cast
    rw [mul_div_mul_comm, h2]
    field_simp
  normUnit := by
    intro a ha
    show WF (normUnit a) ∧ toRat (normUnit a) ≠ 0
    by_cases hn : a.num = 0
    · have e : normUnit a = one := by simp [normUnit, inv, isZero, hn]
      rw [e]
      exact ⟨wf_one, by simp [one, toRat]⟩
    · have e : normUnit a = make a.den a.num := by simp [normUnit, inv, isZero, hn]
      rw [e]
      refine ⟨make_wf _ _ hn, ?_⟩
      rw [toRat_make _ _ hn]
      have hnq : (a.num : ℚ) ≠ 0 := by exact_mod_cast hn
      exact div_ne_zero (den_ne ha) hnq

end Q

namespace FF
variable (p : Nat) [hp : Fact p.Prime]

theorem inv_spec (b : Nat) (hb : b < p) (hb0 : (b : ZMod p) ≠ 0) :
    ∃ i, inv p b = some i ∧ i < p ∧ (b : ZMod p) * (i : ZMod p) = 1 := by
  have hpp := hp.out
  have hbz : (b == 0) = false := by
    rw [beq_eq_false_iff_ne]; rintro rfl; simp at hb0
  have hsome : ((List.range p).find? (fun x => (b * x) % p == 1 % p)).isSome = true := by
    rw [List.find?_isSome]
    refine ⟨((b : ZMod p)⁻¹).val, List.mem_range.2 (ZMod.val_lt _), ?_⟩
    rw [beq_iff_eq, ← ZMod.natCast_eq_natCast_iff']
    push_cast
    rw [ZMod.natCast_val, ZMod.cast_id', id, mul_inv_cancel₀ hb0]
  obtain ⟨i, hi⟩ := Option.isSome_iff_exists.1 hsome
  refine ⟨i, by unfold inv; rw [hbz]; simpa using hi, List.mem_range.1 (List.mem_of_find?_eq_some hi), ?_⟩
  have := List.find?_some hi
  rw [beq_iff_eq, ← ZMod.natCast_eq_natCast_iff'] at this
  push_cast at this
  exact this

theorem fieldRep : FieldRep (ffOps p) (fun a => a < p) (fun a => (a : ZMod p)) where
  inj := by
    intro a b ha hb h
    rw [ZMod.natCast_eq_natCast_iff', Nat.mod_eq_of_lt ha, Nat.mod_eq_of_lt hb] at h
    exact h
  v_zero := hp.out.pos
  phi_zero := by simp [ffOps]
  v_one := Nat.mod_lt _ hp.out.pos
  phi_one := by simp [ffOps]
  isZero_iff := by
    intro a ha
    simp only [ffOps, beq_iff_eq]
    rw [ZMod.natCast_eq_zero_iff]
    exact ⟨fun h => by rw [h]; exact dvd_zero _, fun h => Nat.eq_zero_of_dvd_of_lt h ha⟩
  isOne_iff := by
    intro a ha
    simp only [ffOps, beq_iff_eq]
    refine ⟨fun h => by rw [h]; simp, fun h => ?_⟩
    have : (a : ZMod p) = ((1 : ℕ) : ZMod p) := by rw [h]; simp
    rw [ZMod.natCast_eq_natCast_iff', Nat.mod_eq_of_lt ha, Nat.mod_eq_of_lt hp.out.one_lt] at this
    exact this
  add := by
    intro a b _ _
    exact ⟨Nat.mod_lt _ hp.out.pos, by simp [ffOps, add]⟩
  sub := by
    intro a b _ _
    have hp0 : (p : Int) ≠ 0 := by have := hp.out.pos; omega
    have h1 := Int.emod_nonneg ((a : Int) - b) hp0
    have h2 := Int.emod_lt_of_pos ((a : Int) - b) (by have := hp.out.pos; omega : (0 : Int) < p)
    refine ⟨?_, ?_⟩
    · show (((a : Int) - b).emod p).toNat < p
      change (((a : Int) - b) % p).toNat < p
      omega
    · show (((((a : Int) - b).emod p).toNat : ℕ) : ZMod p) = _
      change ((((a : Int) - b) % p).toNat : ZMod p) = _
      have : (((((a : Int) - b) % p).toNat : ℕ) : ZMod p) = (((((a : Int) - b) % p : ℤ)) : ZMod p) := by
        rw [← Int.cast_natCast, Int.toNat_of_nonneg h1]
      rw [this, ZMod.intCast_mod]; simp
  mul := by
    intro a b _ _
    exact ⟨Nat.mod_lt _ hp.out.pos, by simp [ffOps, mul]⟩
  div := by
    intro a b ha hb hb0
    obtain ⟨i, hi, hip, he⟩ := inv_spec p b hb hb0
    have e : (ffOps p).div a b = (a * i) % p := by simp [ffOps, div, hi, mul]
    rw [e]
    refine ⟨Nat.mod_lt _ hp.out.pos, ?_⟩
    rw [ZMod.natCast_mod]; push_cast
    rw [div_eq_mul_inv, eq_comm, ← eq_inv_of_mul_eq_one_right he]
  normUnit := by
    intro a ha
    show FF.normUnit p a < p ∧ ((FF.normUnit p a : ℕ) : ZMod p) ≠ 0
    unfold FF.normUnit
    by_cases h0 : (a : ZMod p) = 0
    · have : a = 0 := Nat.eq_zero_of_dvd_of_lt ((ZMod.natCast_eq_zero_iff a p).1 h0) ha
      subst this
      have : inv p 0 = none := by simp [inv]
      rw [this]
      exact ⟨Nat.mod_lt _ hp.out.pos, by simp⟩
    · obtain ⟨i, hi, hip, he⟩ := inv_spec p a ha h0
      rw [hi]
      exact ⟨hip, right_ne_zero_of_mul_eq_one he⟩

end FF

/-! ## the generic Euclid loops over a representation -/

/-- representation version of `LawfulEuc`: the operations of `E` compute, on the valid representatives `V`,
a commutative ring `R` through `ψ`; `/`, `%` are a Euclidean division w.r.t. `E.norm`. -/
structure EucRep {α R : Type} [CommRing R] (E : EucOps α) (V : α → Prop) (ψ : α → R) : Prop where
  inj : ∀ a b, V a → V b → ψ a = ψ b → a = b
  v_zero : V E.zero
  psi_zero : ψ E.zero = 0
  v_one : V E.one
  psi_one : ψ E.one = 1
  isZero_iff : ∀ a, V a → (E.isZero a = true ↔ ψ a = 0)
  isOne_imp : ∀ a, V a → E.isOne a = true → ψ a = 1
  sub : ∀ a b, V a → V b → V (E.sub a b) ∧ ψ (E.sub a b) = ψ a - ψ b
  mul : ∀ a b, V a → V b → V (E.mul a b) ∧ ψ (E.mul a b) = ψ a * ψ b
  div_rem : ∀ a b, V a → V b → ψ b ≠ 0 → V (E.div a b) ∧ V (E.rem a b) ∧
    ψ a = ψ (E.div a b) * ψ b + ψ (E.rem a b) ∧ E.norm (E.rem a b) < E.norm b
  rem_of_dvd : ∀ a b, V a → V b → ψ b ≠ 0 → ψ b ∣ ψ a → ψ (E.rem a b) = 0
  normUnit : ∀ a, V a → V (E.normUnit a) ∧ IsUnit (ψ (E.normUnit a))

namespace EucRep
variable {α R : Type} [CommRing R] {E : EucOps α} {V : α → Prop} {ψ : α → R} (L : EucRep E V ψ)
include L

theorem normalized_spec (x : α) (hx : V x) :
    V (E.normalized x) ∧ ψ (E.normalized x) = ψ x * ψ (E.normUnit x) := by
  unfold EucOps.normalized
  simp only
  have hu := L.normUnit x hx
  split
  · rename_i h; rw [L.isOne_imp _ hu.1 h, mul_one]; exact ⟨hx, rfl⟩
  · exact L.mul x _ hx hu.1

theorem dvd_normalized (c : R) (x : α) (hx : V x) : c ∣ ψ (E.normalized x) ↔ c ∣ ψ x := by
  rw [(L.normalized_spec x hx).2]; exact (L.normUnit x hx).2.dvd_mul_right

theorem divides_imp (x y : α) (hx : V x) (hy : V y) (h : E.divides x y = true) : ψ x ≠ 0 ∧ ψ x ∣ ψ y := by
  unfold EucOps.divides at h
  rw [Bool.and_eq_true, Bool.not_eq_true', ← Bool.not_eq_true, L.isZero_iff x hx] at h
  have := L.div_rem y x hy hx h.1
  refine ⟨h.1, ?_⟩
  have e := this.2.2.1
  rw [(L.isZero_iff _ this.2.1).1 h.2, add_zero] at e
  exact ⟨ψ (E.div y x), e.trans (mul_comm _ _)⟩

theorem gcdLoop_spec (fuel : Nat) (x y : α) (hx : V x) (hy : V y) (hf : E.norm y < fuel) :
    ∃ d, E.gcdLoop fuel x y = some d ∧ V d ∧ ∀ c, c ∣ ψ d ↔ (c ∣ ψ x ∧ c ∣ ψ y) := by
  induction fuel generalizing x y with
  | zero => omega
  | succ f ih =>
    unfold EucOps.gcdLoop
    by_cases hz : E.isZero y = true
    · simp only [hz, if_true]
      refine ⟨x, rfl, hx, fun c => ?_⟩
      rw [(L.isZero_iff y hy).1 hz]; simp
    · simp only [hz]
      have hy0 : ψ y ≠ 0 := fun h => hz ((L.isZero_iff y hy).2 h)
      obtain ⟨_, hvr, e, hn⟩ := L.div_rem x y hx hy hy0
      obtain ⟨d, hd, hvd, hc⟩ := ih y (E.rem x y) hy hvr (by omega)
      refine ⟨d, by simpa using hd, hvd, fun c => ?_⟩
      rw [hc c]
      constructor
      · rintro ⟨h1, h2⟩
        refine ⟨?_, h1⟩
        rw [e]; exact dvd_add (Dvd.dvd.mul_left h1 _) h2
      · rintro ⟨h1, h2⟩
        refine ⟨h2, ?_⟩
        have : ψ (E.rem x y) = ψ x - ψ (E.div x y) * ψ y := (sub_eq_of_eq_add' e).symm
        rw [this]; exact dvd_sub h1 (Dvd.dvd.mul_left h2 _)

/-- `gcd` returns (no fuel exhaustion, no panic) a valid `d` whose divisors are exactly the common divisors -/
theorem gcd_spec (x y : α) (hx : V x) (hy : V y) :
    ∃ d, E.gcd x y = .ok d ∧ V d ∧ (∀ c, c ∣ ψ d ↔ (c ∣ ψ x ∧ c ∣ ψ y)) := by
  unfold EucOps.gcd
  by_cases h0 : (E.isZero x && E.isZero y) = true
  · rw [if_pos h0]
    rw [Bool.and_eq_true, L.isZero_iff x hx, L.isZero_iff y hy] at h0
    refine ⟨E.zero, rfl, L.v_zero, fun c => ?_⟩
    rw [L.psi_zero, h0.1, h0.2]; simp
  rw [if_neg h0]
  by_cases h1 : E.divides x y = true
  · rw [if_pos h1]
    have ⟨_, hd⟩ := L.divides_imp x y hx hy h1
    refine ⟨_, rfl, (L.normalized_spec x hx).1, fun c => ?_⟩
    rw [L.dvd_normalized c x hx]
    exact ⟨fun h => ⟨h, dvd_trans h hd⟩, fun h => h.1⟩
  rw [if_neg h1]
  by_cases h2 : E.divides y x = true
  · rw [if_pos h2]
    have ⟨_, hd⟩ := L.divides_imp y x hy hx h2
    refine ⟨_, rfl, (L.normalized_spec y hy).1, fun c => ?_⟩
    rw [L.dvd_normalized c y hy]
    exact ⟨fun h => ⟨dvd_trans h hd, h⟩, fun h => h.2⟩
  rw [if_neg h2]
  obtain ⟨d, hd, hvd, hc⟩ := L.gcdLoop_spec (E.norm y + 1) x y hx hy (by omega)
  rw [hd]
  refine ⟨_, rfl, (L.normalized_spec d hvd).1, fun c => ?_⟩
  rw [L.dvd_normalized c d hvd]; exact hc c

theorem gcdxLoop_spec (X Y : R) (fuel : Nat) (x y s0 s1 t0 t1 : α)
    (hx : V x) (hy : V y) (hs0 : V s0) (hs1 : V s1) (ht0 : V t0) (ht1 : V t1)
    (h0 : ψ s0 * X + ψ t0 * Y = ψ x) (h1 : ψ s1 * X + ψ t1 * Y = ψ y) (hf : E.norm y < fuel) :
    ∃ d s t, E.gcdxLoop fuel x y s0 s1 t0 t1 = some (d, s, t) ∧ V d ∧ V s ∧ V t ∧
      ψ s * X + ψ t * Y = ψ d ∧ E.gcdLoop fuel x y = some d := by
  induction fuel generalizing x y s0 s1 t0 t1 with
  | zero => omega
  | succ f ih =>
    unfold EucOps.gcdxLoop EucOps.gcdLoop
    by_cases hz : E.isZero y = true
    · simp only [hz, if_true]
      exact ⟨x, s0, t0, rfl, hx, hs0, ht0, h0, rfl⟩
    · simp only [hz]
      have hy0 : ψ y ≠ 0 := fun h => hz ((L.isZero_iff y hy).2 h)
      obtain ⟨hvq, hvr, e, hn⟩ := L.div_rem x y hx hy hy0
      have hr : ψ (E.rem x y) = ψ x - ψ (E.div x y) * ψ y := (sub_eq_of_eq_add' e).symm
      have m1 := L.mul _ _ hvq hs1
      have m2 := L.mul _ _ hvq ht1
      have n1 := L.sub _ _ hs0 m1.1
      have n2 := L.sub _ _ ht0 m2.1
      obtain ⟨d, s, t, hd, hvd, hvs, hvt, hb, hg⟩ := ih y (E.rem x y) s1 (E.sub s0 (E.mul (E.div x y) s1)) t1
        (E.sub t0 (E.mul (E.div x y) t1)) hy hvr hs1 n1.1 ht1 n2.1 h1
        (by rw [n1.2, n2.2, m1.2, m2.2, hr, ← h0, ← h1]; ring) (by omega)
      exact ⟨d, s, t, by simpa using hd, hvd, hvs, hvt, hb, by simpa using hg⟩

/-- `gcdx` returns valid `(d, s, t)` with `s·x + t·y = d`, and `d` is what `gcd` returns -/
theorem gcdx_spec (x y : α) (hx : V x) (hy : V y) :
    ∃ d s t, E.gcdx x y = .ok (d, s, t) ∧ V d ∧ V s ∧ V t ∧
      ψ s * ψ x + ψ t * ψ y = ψ d ∧ E.gcd x y = .ok d := by
  unfold EucOps.gcdx EucOps.gcd
  by_cases h0 : (E.isZero x && E.isZero y) = true
  · rw [if_pos h0, if_pos h0]
    exact ⟨_, _, _, rfl, L.v_zero, L.v_zero, L.v_zero, by rw [L.psi_zero]; simp, rfl⟩
  rw [if_neg h0, if_neg h0]
  have key : ∀ z, V z → E.normalized z = E.mul z (E.normUnit z) := by
    intro z hz
    unfold EucOps.normalized; simp only
    have hu := L.normUnit z hz
    have hm := L.mul z _ hz hu.1
    split
    · rename_i h
      exact L.inj _ _ hz hm.1 (by rw [hm.2, L.isOne_imp _ hu.1 h, mul_one])
    · rfl
  by_cases h1 : E.divides x y = true
  · rw [if_pos h1, if_pos h1]
    have hu := L.normUnit x hx
    have hm := L.mul x _ hx hu.1
    refine ⟨_, _, _, rfl, hm.1, hu.1, L.v_zero, ?_, by rw [key x hx]⟩
    rw [hm.2, L.psi_zero]; ring
  rw [if_neg h1, if_neg h1]
  by_cases h2 : E.divides y x = true
  · rw [if_pos h2, if_pos h2]
    have hu := L.normUnit y hy
    have hm := L.mul y _ hy hu.1
    refine ⟨_, _, _, rfl, hm.1, L.v_zero, hu.1, ?_, by rw [key y hy]⟩
    rw [hm.2, L.psi_zero]; ring
  rw [if_neg h2, if_neg h2]
  obtain ⟨d, s, t, hd, hvd, hvs, hvt, hb, hg⟩ := L.gcdxLoop_spec (ψ x) (ψ y) (E.norm y + 1) x y E.one E.zero E.zero E.one
    hx hy L.v_one L.v_zero L.v_zero L.v_one
    (by rw [L.psi_one, L.psi_zero]; ring) (by rw [L.psi_one, L.psi_zero]; ring) (by omega)
  rw [hd, hg]
  simp only
  have hu := L.normUnit d hvd
  by_cases hone : E.isOne (E.normUnit d) = true
  · rw [if_pos hone]
    refine ⟨_, _, _, rfl, hvd, hvs, hvt, hb, ?_⟩
    unfold EucOps.normalized; simp only [hone, if_true]
  · rw [if_neg hone]
    have m1 := L.mul d _ hvd hu.1
    have m2 := L.mul s _ hvs hu.1
    have m3 := L.mul t _ hvt hu.1
    refine ⟨_, _, _, rfl, m1.1, m2.1, m3.1, ?_, ?_⟩
    · rw [m1.2, m2.2, m3.2, ← hb]; ring
    · unfold EucOps.normalized; simp only [hone]; rfl

/-- `lcm·gcd` is an associate of `x·y` (`x`, `y` not both zero) -/
theorem lcm_spec (x y : α) (hx : V x) (hy : V y) (hxy : ¬(ψ x = 0 ∧ ψ y = 0)) :
    ∃ l g, E.lcm x y = .ok l ∧ E.gcd x y = .ok g ∧ V l ∧ V g ∧ Associated (ψ l * ψ g) (ψ x * ψ y) := by
  obtain ⟨g, e, hvg, hc⟩ := L.gcd_spec x y hx hy
  have hg : ψ g ≠ 0 := by
    intro h0
    have := (hc (ψ g)).1 dvd_rfl
    rw [h0, zero_dvd_iff, zero_dvd_iff] at this
    exact hxy this
  have hgy : ψ g ∣ ψ y := ((hc (ψ g)).1 dvd_rfl).2
  unfold EucOps.lcm
  rw [e]
  have hz : E.isZero g = false := by
    rw [← Bool.not_eq_true, L.isZero_iff g hvg]; exact hg
  simp only [hz]
  obtain ⟨hvq, _, hy', _⟩ := L.div_rem y g hy hvg hg
  rw [L.rem_of_dvd y g hy hvg hg hgy, add_zero] at hy'
  have hm := L.mul x _ hx hvq
  have hn := L.normalized_spec _ hm.1
  refine ⟨_, g, rfl, rfl, hn.1, hvg, ?_⟩
  have hu := (L.normUnit _ hm.1).2
  refine Associated.symm ⟨hu.unit, ?_⟩
  rw [IsUnit.unit_spec, hn.2, hm.2, hy']; ring

/-- `lcm(0, 0)` divides by the gcd `0`: panic -/
theorem lcm_zero_zero (x y : α) (hx : V x) (hy : V y) (hx0 : ψ x = 0) (hy0 : ψ y = 0) : E.lcm x y = .panic := by
  obtain ⟨g, e, hvg, hc⟩ := L.gcd_spec x y hx hy
  have : ψ g = 0 := by
    have := (hc 0).2 ⟨by rw [hx0], by rw [hy0]⟩
    exact zero_dvd_iff.1 this
  unfold EucOps.lcm
  rw [e]
  simp only [(L.isZero_iff g hvg).2 this, if_true]

end EucRep

namespace Poly
variable {F K : Type} [Field K] {E : EucOps F} {V : F → Prop} {φ : F → K}

/-- `F[x]` (canonical coefficient lists with `polyOps`) is a lawful Euclidean structure over `K[X]` -/
theorem eucRep (H : FieldRep E V φ) :
    EucRep (polyOps E) (Canon E V) (toPoly φ) where
  inj := fun a b ha hb h => canon_inj H a b ha hb h
  v_zero := ⟨pv_nil, by simp [polyOps]⟩
  psi_zero := rfl
  v_one := canon_trim _ (pv_cons.2 ⟨H.v_one, pv_nil⟩)
  psi_one := by
    show toPoly φ (trim E [E.one]) = 1
    rw [toPoly_trim H _ (pv_cons.2 ⟨H.v_one, pv_nil⟩)]; simp [H.phi_one]
  isZero_iff := by
    intro a ha
    rw [toPoly_eq_zero_iff H a ha]
    show a.isEmpty = true ↔ _
    exact List.isEmpty_iff
  isOne_imp := by
    intro a ha h
    change Poly.isOne E a = true at h
    unfold Poly.isOne at h
    split at h
    · rename_i c
      have hv : V c := ha.1 c (by simp)
      simp [(H.isOne_iff c hv).1 h]
    · cases h
  sub := fun a b ha hb => sub_spec H a b ha.1 hb.1
  mul := fun a b ha hb => mul_spec H a b ha.1 hb.1
  div_rem := by
    intro a b ha hb hb0
    have hne : b ≠ [] := fun h => hb0 ((toPoly_eq_zero_iff H b hb).2 h)
    obtain ⟨hq, hr, e, hl⟩ := divRem_spec H a b ha hb hne
    exact ⟨hq, hr, e, hl⟩
  rem_of_dvd := by
    intro a b ha hb hb0 hd
    have hne : b ≠ [] := fun h => hb0 ((toPoly_eq_zero_iff H b hb).2 h)
    obtain ⟨hq, hr, e, hl⟩ := divRem_spec H a b ha hb hne
    have hlt := degree_lt_of_length_lt H _ b hb hl
    refine eq_zero_of_dvd_of_degree_lt ?_ hlt
    have : toPoly φ (divRem E a b).2 = toPoly φ a - toPoly φ (divRem E a b).1 * toPoly φ b :=
      (sub_eq_of_eq_add' e).symm
    show toPoly φ b ∣ toPoly φ (divRem E a b).2
    rw [this]; exact dvd_sub hd (Dvd.intro_left _ rfl)
  normUnit := by
    intro a ha
    have hl := lead_spec H a ha.1
    have hu := H.normUnit _ hl.1
    have hp : PV V [E.normUnit (lead E a)] := pv_cons.2 ⟨hu.1, pv_nil⟩
    refine ⟨canon_trim _ hp, ?_⟩
    show IsUnit (toPoly φ (trim E [E.normUnit (lead E a)]))
    rw [toPoly_trim H _ hp]
    simp only [toPoly_cons, toPoly_nil, mul_zero, add_zero]
    exact isUnit_C.2 (isUnit_iff_ne_zero.2 hu.2)

end Poly
end Yuiv.C15
