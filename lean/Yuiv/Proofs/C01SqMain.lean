import Yuiv.Proofs.C01SqGeom3
import Yuiv.Proofs.C01SqAsm
/-
C01Sq — assembly: the faces of the reference cube of a valid diagram commute (`faceComm_mkCube`), hence `d ∘ d = 0`
(helper; the property theorems are in `Props/C01Sq.lean`).
-/
namespace Yuiv.C01Sq
open Yuiv Yuiv.KhRef Yuiv.C04Inv Yuiv.C06Cycle
open Yuiv.C02Mirror (Circ edgeOK cubeOK)

theorem tb_or_ne' (m i j : Nat) (h : i ≠ j) : (m ||| 1 <<< i).testBit j = m.testBit j := by
  simp [Nat.testBit_or, Nat.one_shiftLeft, Nat.testBit_two_pow, h]

theorem or_or_comm (s a b : Nat) : (s ||| 1 <<< b) ||| 1 <<< a = (s ||| 1 <<< a) ||| 1 <<< b := by
  rw [Nat.or_assoc, Nat.or_comm (1 <<< b), ← Nat.or_assoc]

/-- a face of the cube whose four edges are merges/splits, with the geometry of a valid diagram, commutes -/
theorem pathSum_comm_of_face {cs00 cs10 cs01 cs11 : Circ} (hF : Face cs00 cs10 cs01 cs11)
    (p0010 : C02Mirror.Pair cs00 cs10) (p1011 : C02Mirror.Pair cs10 cs11) (p0001 : C02Mirror.Pair cs00 cs01)
    (p0111 : C02Mirror.Pair cs01 cs11) (h t : Int) (m m'' : Nat) :
    pathSum h t cs00 cs10 cs11 m m'' = pathSum h t cs00 cs01 cs11 m m'' := by
  obtain ⟨ea0, eb1, eb0, ea1, h1, h2, h3, h4, h5⟩ := hF
  by_cases hm : m'' < 2 ^ cs11.size
  · rw [pathSum_eq_pathF p0010 p1011 h t ea0 eb1 h1 h2 m m'' hm, pathSum_eq_pathF p0001 p0111 h t eb0 ea1 h3 h4 m m'' hm]
    exact h5 h t _ _
  · rw [pathSum_big p1011 h t m m'' (by omega), pathSum_big p0111 h t m m'' (by omega)]

/-- ALL FACES COMMUTE: valid diagram, at most 64 edge labels, every edge of the cube a merge or a split -/
theorem faceComm_mkCube (l : Link) (hv : validK l = true) (hL : (edgeLabels l).size ≤ 64) (p : Params)
    (hok : cubeOK (mkCube l p)) : FaceComm (mkCube l p) p := by
  intro s a b hs ha hb hab hba hbb m m''
  have hn : (mkCube l p).n = crossingNum l := rfl
  rw [hn] at hs ha hb
  have hwf := wf_of_validK l hv
  have hs10 := C02Mirror.or_bit_lt _ s a hs ha
  have hs01 := C02Mirror.or_bit_lt _ s b hs hb
  have hs11 := C02Mirror.or_bit_lt _ _ b hs10 hb
  have bit10 : (s ||| 1 <<< a).testBit b = false := by rw [tb_or_ne' s a b hab]; exact hbb
  have bit01 : (s ||| 1 <<< b).testBit a = false := by rw [tb_or_ne' s b a (fun e => hab e.symm)]; exact hba
  obtain ⟨a1, a2, a3, a4, hga⟩ := edge_geom l hv a ha
  obtain ⟨b1, b2, b3, b4, hgb⟩ := edge_geom l hv b hb
  have ga1 := hga _ bit01
  rw [or_or_comm s a b] at ga1
  have spec : ∀ t, t < 2 ^ crossingNum l →
      CirclesSpec (edgeLabels l) (statePairs l t) (mkCube l p).circ[t]! := by
    intro t ht
    rw [C02Mirror.mkCube_circ l p t ht]
    exact circles_spec l hwf t
  have q : Sq (edgeLabels l) (statePairs l s) (statePairs l (s ||| 1 <<< a)) (statePairs l (s ||| 1 <<< b))
      (statePairs l ((s ||| 1 <<< a) ||| 1 <<< b)) (mkCube l p).circ[s]! (mkCube l p).circ[s ||| 1 <<< a]!
      (mkCube l p).circ[s ||| 1 <<< b]! (mkCube l p).circ[(s ||| 1 <<< a) ||| 1 <<< b]! a1 a2 a3 a4 b1 b2 b3 b4 :=
    ⟨spec _ hs, spec _ hs10, spec _ hs01, spec _ hs11, hga s hba, ga1, hgb s hbb, hgb _ bit10,
      hok s hs a ha hba, by have := hok _ hs01 a ha bit01; rwa [or_or_comm s a b] at this, hok s hs b hb hbb,
      hok _ hs10 b hb bit10⟩
  exact pathSum_comm_of_face (face_of_sq q) (C02Mirror.cube_pair l p hL _ _ hs hs10)
    (C02Mirror.cube_pair l p hL _ _ hs10 hs11) (C02Mirror.cube_pair l p hL _ _ hs hs01)
    (C02Mirror.cube_pair l p hL _ _ hs01 hs11) p.h p.t m m''

end Yuiv.C01Sq
