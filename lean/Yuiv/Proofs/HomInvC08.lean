import Yuiv.Proofs.HomInv
import Yuiv.Proofs.C08Sched
/-
Helper lemmas for `Props/HomInvC08.lean`: renumbering the bases of a three-term piece does not change its homology, and the
homology `Hn C.d n` of a bundled complex (`Proofs/C08Sched.lean`) is the `HZ` (`Proofs/HomInv.lean`) of numbered copies of
the two differentials around degree `n`.
-/
namespace Yuiv.C08
open Matrix Yuiv Yuiv.HomInv

section reindex
variable {a b a' b' X X' : Type*} [Fintype a] [DecidableEq a] [Fintype b] [DecidableEq b]
  [Fintype a'] [DecidableEq a'] [Fintype b'] [DecidableEq b']
  [AddCommGroup X] [Module ℤ X] [AddCommGroup X'] [Module ℤ X']

/-- renumbering the bases of the source and of the middle module (and any compatible change of the target) does not
change the homology at the middle module -/
theorem Hmod_reindex (dIn : Matrix b a ℤ) (ea : a' ≃ a) (eb : b' ≃ b)
    (g : (b → ℤ) →ₗ[ℤ] X) (g' : (b' → ℤ) →ₗ[ℤ] X') (φC : X →ₗ[ℤ] X') (ψC : X' →ₗ[ℤ] X)
    (hg : g' ∘ₗ Matrix.toLin' ((1 : Matrix b b ℤ).submatrix eb id) = φC ∘ₗ g)
    (hg' : g ∘ₗ Matrix.toLin' ((1 : Matrix b b ℤ).submatrix id eb) = ψC ∘ₗ g') :
    Nonempty (Hmod (Matrix.toLin' dIn) g ≃ₗ[ℤ] Hmod (Matrix.toLin' (dIn.submatrix eb ea)) g') := by
  have hFin : (1 : Matrix b b ℤ).submatrix eb id * dIn
      = dIn.submatrix eb ea * (1 : Matrix a a ℤ).submatrix ea id := by
    rw [one_submatrix_mul, Matrix.submatrix_mul_equiv, Matrix.mul_one]
  have hBin : (1 : Matrix b b ℤ).submatrix id eb * dIn.submatrix eb ea
      = dIn * (1 : Matrix a a ℤ).submatrix id ea := by
    rw [mul_one_submatrix, Matrix.submatrix_mul_equiv, Matrix.one_mul]
  have hBF : (1 : Matrix b b ℤ).submatrix id eb * (1 : Matrix b b ℤ).submatrix eb id = 1 := by
    rw [Matrix.submatrix_mul_equiv, Matrix.mul_one, Matrix.submatrix_id_id]
  have hFB : (1 : Matrix b b ℤ).submatrix eb id * (1 : Matrix b b ℤ).submatrix id eb = 1 := by
    rw [one_submatrix_mul, Matrix.submatrix_submatrix]
    simp
  refine ⟨homologyIso (Matrix.toLin' ((1 : Matrix a a ℤ).submatrix ea id))
    (Matrix.toLin' ((1 : Matrix b b ℤ).submatrix eb id)) φC (toLin'_comm hFin) hg
    (Matrix.toLin' ((1 : Matrix a a ℤ).submatrix id ea)) (Matrix.toLin' ((1 : Matrix b b ℤ).submatrix id eb)) ψC
    (toLin'_comm hBin) hg' 0 0 ?_ 0 0 ?_⟩
  · rw [← Matrix.toLin'_mul, hBF, Matrix.toLin'_one, sub_self]; simp
  · rw [← Matrix.toLin'_mul, hFB, Matrix.toLin'_one, sub_self]; simp

end reindex

/-- `H_{i+1}(C) = ker d_i / im d_{i+1}` of a complex, computed from numbered copies of the two differentials -/
theorem Hn_succ_numbered (C : Cpx ℤ) (i : ℕ) {k n m : ℕ} (e0 : Fin k ≃ C.ι i) (e1 : Fin n ≃ C.ι (i + 1))
    (e2 : Fin m ≃ C.ι (i + 2)) :
    Nonempty (Hn C.d (i + 1) ≃ₗ[ℤ] HZ ((C.d (i + 1)).submatrix e1 e2) ((C.d i).submatrix e0 e1)) := by
  have hout : (C.d i).submatrix e0 e1 * (1 : Matrix (C.ι (i + 1)) (C.ι (i + 1)) ℤ).submatrix e1 id
      = (1 : Matrix (C.ι i) (C.ι i) ℤ).submatrix e0 id * C.d i := by
    rw [one_submatrix_mul, Matrix.submatrix_mul_equiv, Matrix.mul_one]
  have hout' : C.d i * (1 : Matrix (C.ι (i + 1)) (C.ι (i + 1)) ℤ).submatrix id e1
      = (1 : Matrix (C.ι i) (C.ι i) ℤ).submatrix id e0 * (C.d i).submatrix e0 e1 := by
    rw [mul_one_submatrix, Matrix.submatrix_mul_equiv, Matrix.one_mul]
  exact Hmod_reindex (C.d (i + 1)) e2 e1 (Matrix.toLin' (C.d i)) (Matrix.toLin' ((C.d i).submatrix e0 e1))
    (Matrix.toLin' ((1 : Matrix (C.ι i) (C.ι i) ℤ).submatrix e0 id))
    (Matrix.toLin' ((1 : Matrix (C.ι i) (C.ι i) ℤ).submatrix id e0)) (toLin'_comm hout) (toLin'_comm hout')

/-- `H_0(C) = C_0 / im d_0`, computed from a numbered copy of `d_0` and any zero matrix as outgoing differential -/
theorem Hn_zero_numbered (C : Cpx ℤ) {k n m : ℕ} (e0 : Fin n ≃ C.ι 0) (e1 : Fin m ≃ C.ι 1) :
    Nonempty (Hn C.d 0 ≃ₗ[ℤ] HZ ((C.d 0).submatrix e0 e1) (0 : Matrix (Fin k) (Fin n) ℤ)) := by
  refine Hmod_reindex (C.d 0) e1 e0 (dOut C.d 0) (Matrix.toLin' (0 : Matrix (Fin k) (Fin n) ℤ)) 0 0 ?_ ?_
  · rw [map_zero]; simp
  · show (0 : _ →ₗ[ℤ] _) ∘ₗ _ = _
    simp

end Yuiv.C08
