import Yuiv.Proofs.KhiSpecModel
import Yuiv.Proofs.C06CycleHash
import Std.Data.HashMap.Lemmas
/-
KhiSpec — the loops of `khiHomology` in functional form: generic `forIn` lemmas (no early exit under hypotheses on the
elements), `reduce2` (parity reduction through a hash map), the index map, the push loops of `homo`, the cell list.
-/
namespace Yuiv.KhiSpec
open Yuiv Yuiv.KhRef Yuiv.C19

/-! ### generic loops in `Id` -/

/-- a loop whose body never exits on the elements of the list is a fold; the first component of the state stays `none` -/
theorem forIn_list_noexit {α σ ρ : Type} (l : List α) (f : α → Option ρ × σ → Id (ForInStep (Option ρ × σ)))
    (step : σ → α → σ) (h : ∀ a ∈ l, ∀ s, f a s = pure (ForInStep.yield (none, step s.snd a))) (init : Option ρ × σ) :
    forIn l init f = pure (if l = [] then init else (none, l.foldl step init.snd)) := by
  induction l generalizing init with
  | nil => rfl
  | cons a l ih =>
    rw [List.forIn_cons, h a (by simp)]
    show forIn l (none, step init.snd a) f = _
    rw [ih (fun b hb s => h b (List.mem_cons_of_mem _ hb) s)]
    by_cases hl : l = []
    · subst hl; rfl
    · simp [hl]

theorem forIn_array_noexit {α σ ρ : Type} (xs : Array α) (f : α → Option ρ × σ → Id (ForInStep (Option ρ × σ)))
    (step : σ → α → σ) (h : ∀ a ∈ xs, ∀ s, f a s = pure (ForInStep.yield (none, step s.snd a))) (init : σ) :
    forIn xs ((none : Option ρ), init) f = pure (none, xs.foldl step init) := by
  rw [← Array.forIn_toList, forIn_list_noexit xs.toList f step (fun a ha s => h a (Array.mem_toList_iff.1 ha) s)]
  by_cases hl : xs.toList = []
  · have : xs = #[] := by simpa using hl
    subst this; rfl
  · rw [if_neg hl, Array.foldl_toList]

/-- a push loop over a range -/
theorem forIn_range_push {β : Type} (n : Nat) (g : Nat → β) (f : Nat → Array β → Id (ForInStep (Array β)))
    (h : ∀ i a, f i a = pure (ForInStep.yield (a.push (g i)))) (init : Array β) :
    forIn [:n] init f = pure (init ++ ((List.range n).map g).toArray) := by
  rw [Std.Legacy.Range.forIn_eq_forIn_range']
  simp only [Std.Legacy.Range.size, Nat.sub_zero, Nat.add_sub_cancel, Nat.div_one]
  rw [List.range_eq_range']
  generalize 0 = k
  induction n generalizing k init with
  | zero => simp
  | succ n ih =>
    rw [List.range'_succ, List.forIn_cons, h]
    show forIn (List.range' (k + 1) n) (init.push (g k)) f = _
    rw [ih]
    simp

theorem forIn_range_filterPush {β : Type} (n : Nat) (g : Nat → Option β) (f : Nat → Array β → Id (ForInStep (Array β)))
    (h : ∀ i a, f i a = pure (ForInStep.yield (match g i with | some v => a.push v | none => a))) (init : Array β) :
    forIn [:n] init f = pure (init ++ ((List.range n).filterMap g).toArray) := by
  rw [Std.Legacy.Range.forIn_eq_forIn_range']
  simp only [Std.Legacy.Range.size, Nat.sub_zero, Nat.add_sub_cancel, Nat.div_one]
  rw [List.range_eq_range']
  generalize 0 = k
  induction n generalizing k init with
  | zero => simp
  | succ n ih =>
    rw [List.range'_succ, List.forIn_cons, h, List.filterMap_cons]
    cases hg : g k with
    | none =>
      show forIn (List.range' (k + 1) n) init f = _
      rw [ih]
    | some v =>
      show forIn (List.range' (k + 1) n) (init.push v) f = _
      rw [ih]
      simp

/-! ### `homo` -/

/-- rank of the differential out of position `i` as `homo` computes it (`0` at the last position) -/
def rkAt (dI : IGen → Array IGen) (gens : Array (Array IGen)) (i : Nat) : Nat :=
  if i + 1 < gens.size then rankF2 (rowsOf dI gens i) else 0

theorem ranksOf_eq (dI : IGen → Array IGen) (gens : Array (Array IGen)) :
    ranksOf dI gens = ((List.range gens.size).map (rkAt dI gens)).toArray := by
  unfold ranksOf
  rw [forIn_range_push gens.size (rkAt dI gens)]
  · simp only [Id.run, pure, List.append_toArray, List.nil_append]
  · intro i a
    unfold rkAt
    split <;> rfl

theorem ranksOf_get (dI : IGen → Array IGen) (gens : Array (Array IGen)) (i : Nat) (hi : i < gens.size) :
    (ranksOf dI gens)[i]! = rkAt dI gens i := by
  rw [ranksOf_eq, getElem!_pos _ _ (by simpa using hi)]
  simp

/-- the dimension `homo` reports at position `i` -/
def dimAt (dI : IGen → Array IGen) (gens : Array (Array IGen)) (i : Nat) : Nat :=
  gens[i]!.size - rkAt dI gens i - (if i = 0 then 0 else rkAt dI gens (i - 1))

theorem homoA_eq (dI : IGen → Array IGen) (gens : Array (Array IGen)) :
    homoA dI gens = ((List.range gens.size).map (dimAt dI gens)).toArray := by
  unfold homoA
  rw [forIn_range_push gens.size (fun i => gens[i]!.size - (ranksOf dI gens)[i]! -
      if (i == 0) = true then 0 else (ranksOf dI gens)[i - 1]!) _ (fun i a => rfl)]
  simp only [Id.run, pure, List.append_toArray, List.nil_append]
  congr 1
  apply List.map_congr_left
  intro i hi
  have hi' := List.mem_range.1 hi
  unfold dimAt
  rw [ranksOf_get _ _ i hi']
  by_cases h0 : i = 0
  · simp [h0]
  · rw [ranksOf_get _ _ (i - 1) (by omega)]
    simp [h0]

theorem cellsOf_eq (h0 : Int) (q : Option Int) (hs : Array Nat) :
    cellsOf h0 q hs #[] = ((List.range hs.size).filterMap (fun (i : Nat) =>
      if hs[i]! ≠ 0 then some (h0 + (i : Int), q, hs[i]!) else none)).toArray := by
  unfold cellsOf
  rw [forIn_range_filterPush hs.size (fun (i : Nat) => if hs[i]! ≠ 0 then some (h0 + (i : Int), q, hs[i]!) else none)]
  · simp only [Id.run, pure, List.append_toArray, List.nil_append]
  · intro i a
    by_cases h : hs[i]! = 0
    · simp [h]
    · simp [h]

end Yuiv.KhiSpec
