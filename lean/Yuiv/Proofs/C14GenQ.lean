import Yuiv.Gen.QIntFn
import Yuiv.Model.C14
import Yuiv.Model.C15
/-
Helper definitions and lemmas for `Yuiv/Props/C14GenQ.lean` and `Yuiv/Props/C15GenQ.lean` (no property theorem here).

`Yuiv.GenQInt.*` is GENERATED from `/repo/yui/src/types/qint.rs` by `tools/rs2lean_fn.py fn:qint` (`I := Int`, the const
generic `D` an explicit argument).  The generated tuple struct `QuadIntS` (fields `f0`, `f1`) is mapped to the model
structs `C14.QI` (fields `l`, `r`) by `toQ` and `C15.QInt` (fields `a`, `b`) by `toQ'`.
-/
namespace Yuiv.GenQ
open Yuiv Res Yuiv.Rust Yuiv.GenQInt

def toQ (s : QuadIntS) : C14.QI := ⟨s.f0, s.f1⟩
def toQ' (s : QuadIntS) : C15.QInt := ⟨s.f0, s.f1⟩
def mapR {α β} (f : α → β) : Res α → Res β
  | .ok a => .ok (f a)
  | .panic => .panic
  | .err => .err

theorem mapR_ok {α β} (f : α → β) (a : α) : mapR f (ok a) = ok (f a) := rfl
theorem mapR_panic {α β} (f : α → β) : mapR f (.panic : Res α) = .panic := rfl
theorem mapR_err {α β} (f : α → β) : mapR f (.err : Res α) = .err := rfl
theorem mapR_bind {α β γ} (f : β → γ) (x : Res α) (g : α → Res β) :
    mapR f (x >>= g) = x >>= fun a => mapR f (g a) := by cases x <;> rfl
theorem mapR_ite {α β} (f : α → β) (c : Prop) [Decidable c] (x y : Res α) :
    mapR f (if c then x else y) = if c then mapR f x else mapR f y := by split <;> rfl
theorem bind_assoc' {α β γ} (x : Res α) (f : α → Res β) (g : β → Res γ) :
    ((x >>= f) >>= g) = (x >>= fun a => f a >>= g) := by cases x <;> rfl
theorem ite_bind {α β} (c : Prop) [Decidable c] (x y : Res α) (f : α → Res β) :
    ((if c then x else y) >>= f) = if c then x >>= f else y >>= f := by split <;> rfl
theorem bind_congr' {α β} (x : Res α) {f g : α → Res β} (h : ∀ a, f a = g a) : (x >>= f) = (x >>= g) := by
  cases x <;> simp [h]
theorem assert_true : Res.assert true = ok () := rfl
theorem assert_false : Res.assert false = (.panic : Res Unit) := rfl

theorem rem4 (D : Int) : RInt.rem D 4 = ok (D.tmod 4) := by simp [RInt.rem]
theorem div4 (x : Int) : RInt.div x 4 = ok (x.tdiv 4) := by simp [RInt.div]
theorem rem_euclid4 (D : Int) : RInt.rem_euclid D 4 = ok (D % 4) := by simp [RInt.rem_euclid]
theorem unwrap_from (x : Int) : Opt.unwrap (RInt.from_i32 x) = ok x := rfl

/-- `D % 4 ∈ {1, 2, 3}` (the cases in which `conj`/`norm`/`mul` do not panic) excludes `D.tmod 4 = 0` (the assert of `new`) -/
theorem tmod4_ne (D : Int) (h : D % 4 ≠ 0) : D.tmod 4 ≠ 0 := by
  intro h0
  have : (4 : Int) ∣ D := Int.dvd_of_tmod_eq_zero h0
  exact h (Int.emod_eq_zero_of_dvd this)
theorem tmod4_eq (D : Int) (h : D % 4 = 0) : D.tmod 4 = 0 := by
  have : (4 : Int) ∣ D := Int.dvd_of_emod_eq_zero h
  exact Int.tmod_eq_zero_of_dvd this

end Yuiv.GenQ
