import Yuiv.Gen.BraidFn
import Yuiv.Proofs.C18Gen
import Yuiv.Proofs.C18Closure
/-
C18 — tie by translation, part 2 (`fn:braid`): the generated functions of yui-link/src/braid.rs (`Yuiv.GenBraid.*`,
Yuiv/Gen/BraidFn.lean) equal the hand model `C18.closure` (Yuiv/Model/C18.lean), panics included.

The `for` loop of `Braid::closure` is `closureStep` through the state conversion `convB` (`forIn_sim`); the assertion is
`hasFreeLoop`; `conn` (a `HashMap` collected from `zip(bottom_edges, 0..strands)`, later bindings overwriting) is `connRename`
because the bottom labels are pairwise distinct (`CInv.cb`, Proofs/C18Closure).
-/
namespace Yuiv.C18.GenFn
open Yuiv Yuiv.Rust Yuiv.GenLink Yuiv.GenBraid

def to4 (x : Lk.Arr4 Nat) : Nat × Nat × Nat × Nat := (x.a0, x.a1, x.a2, x.a3)
def of4 (x : Nat × Nat × Nat × Nat) : Lk.Arr4 Nat := ⟨x.1, x.2.1, x.2.2.1, x.2.2.2⟩
def word (b : Braid) : List Int := b.elements_.map (·.v0_)

abbrev BSt := Nat × List Nat × List (Lk.Arr4 Nat)
def convB (s : BSt) : Nat × List Nat × List (Nat × Nat × Nat × Nat) := (s.1, s.2.1, s.2.2.map to4)

theorem g_gen_index_eq (g : Generator) : g.index = g.v0_.natAbs := by
  simp only [Generator.index, Lk.iabs]; split <;> omega

theorem g_gen_sign_eq (g : Generator) : g.sign.is_positive = decide (g.v0_ > 0) := by
  simp only [Generator.sign, Lk.isign, Lk.Sign.is_positive]; split <;> simp [*]

theorem g_gen_new_eq (i : Nat) (s : Lk.Sign) :
    Generator.new i s = if i = 0 then .panic else .ok ⟨if s = .Pos then (i : Int) else -(i : Int)⟩ := by
  unfold Generator.new
  by_cases h : i = 0
  · subst h; rfl
  · cases s <;> simp [Res.assert, h, Lk.Sign.is_positive]

theorem g_gen_inv_eq (g : Generator) : g.inv.v0_ = -g.v0_ := rfl

theorem g_braid_inv_eq (b : Braid) : word b.inv = (word b).reverse.map (fun x => -x) ∧ b.inv.strands_ = b.strands_ := by
  simp [Braid.inv, Braid.new, word, Lk.iter, Lk.Iter.toList, Functor.map, List.map_reverse, Function.comp_def, Generator.inv]

theorem g_mul_assign_eq (a b : Braid) :
    a.mul_assign b = if a.strands_ = b.strands_ then .ok ⟨a.strands_, a.elements_ ++ b.elements_⟩ else .panic := by
  unfold Braid.mul_assign
  by_cases h : a.strands_ = b.strands_ <;> simp [Res.assert, h, Lk.iter, Lk.Iter.toList]

/-- body of the loop of `Braid::closure` as the `do` elaborator leaves it -/
def closureBody (s : Generator) (st : BSt) : Res (ForInStep BSt) := do
  let i ← Lk.usub s.index 1
  let a ← Lk.idx st.2.1 i
  let b ← Lk.idx st.2.1 (i + 1)
  if s.sign.is_positive = true then do
    let b1 ← Lk.idxSet st.2.1 i st.1
    let b2 ← Lk.idxSet b1 (i + 1) (st.1 + 1)
    pure (ForInStep.yield (st.1 + 2, b2, st.2.2 ++ [⟨a, st.1, st.1 + 1, b⟩]))
  else do
    let b1 ← Lk.idxSet st.2.1 i st.1
    let b2 ← Lk.idxSet b1 (i + 1) (st.1 + 1)
    pure (ForInStep.yield (st.1 + 2, b2, st.2.2 ++ [⟨b, a, st.1, st.1 + 1⟩]))

theorem closureBody_eq (s : Generator) (st : BSt) :
    rmap (stepConv convB) (closureBody s st) = (closureStep (convB st) s.v0_ >>= fun t => .ok (ForInStep.yield t)) := by
  obtain ⟨count, bottom, pd⟩ := st
  unfold closureBody closureStep
  simp only [g_gen_index_eq, g_gen_sign_eq, Lk.usub, convB, Lk.idx, Lk.Index.get, listGet_eq, Lk.idxSet]
  by_cases h0 : s.v0_.natAbs = 0
  · simp [h0, rmap]
  · have h1 : 1 ≤ s.v0_.natAbs := by omega
    simp only [h1, if_true, h0, if_false, Res.bind_ok]
    cases ha : bottom[s.v0_.natAbs - 1]? with
    | none => simp [rmap]
    | some a =>
      cases hb : bottom[s.v0_.natAbs - 1 + 1]? with
      | none => simp [rmap]
      | some b =>
        have hlt1 : s.v0_.natAbs - 1 + 1 < bottom.length := (List.getElem?_eq_some_iff.1 hb).1
        have hlt0 : s.v0_.natAbs - 1 < bottom.length := by omega
        by_cases hp : s.v0_ > 0 <;>
          simp [hp, to4, convB, hlt0, hlt1, rmap, stepConv]

theorem enumFrom_all (l : List Nat) (k : Nat) :
    (Lk.enumFrom k l).all (fun x => match x with | (i, j) => i != j) =
      (List.range l.length).all (fun i => k + i != l.getD i 0) := by
  induction l generalizing k with
  | nil => rfl
  | cons a l ih =>
    rw [Lk.enumFrom, List.all_cons, ih, List.length_cons, List.range_succ_eq_map, List.all_cons, List.all_map]
    congr 1
    apply List.all_congr rfl
    intro i
    simp only [Function.comp, List.getD_cons_succ]
    rw [show k + 1 + i = k + (i + 1) by omega]

theorem assert_free (bottom : List Nat) :
    ((Lk.enumerate (Lk.iter bottom)).all fun x => match x with | (i, j) => i != j) = !hasFreeLoop bottom := by
  show (Lk.enumFrom 0 bottom).all _ = _
  rw [enumFrom_all, hasFreeLoop, List.all_eq_not_any_not]
  congr 2
  funext i
  simp only [Nat.zero_add, Bool.not_not, bne, Bool.not_not]
  rw [Bool.eq_iff_iff]; simp only [beq_iff_eq]; exact eq_comm

theorem amap_get_append_none (m : AMap Nat Nat) (k v x : Nat) (h : AMap.get m x = none) (hk : k ≠ x) :
    AMap.get (m ++ [(k, v)]) x = none := by
  induction m with
  | nil => simp [AMap.get, hk]
  | cons e m ih =>
    obtain ⟨y, w⟩ := e
    simp only [List.cons_append, AMap.get] at h ⊢
    split
    · rename_i hy; simp [hy] at h
    · rename_i hy; simp only [hy, if_false] at h; exact ih h

theorem from_iter_fold (l : List (Nat × Nat)) (acc : AMap Nat Nat)
    (h1 : ∀ kv ∈ l, AMap.get acc kv.1 = none) (h2 : (l.map (·.1)).Pairwise (· ≠ ·)) :
    l.foldl (fun m kv => AMap.insert m kv.1 kv.2) acc = acc ++ l := by
  induction l generalizing acc with
  | nil => simp
  | cons kv l ih =>
    obtain ⟨k, v⟩ := kv
    simp only [List.map_cons, List.pairwise_cons] at h2
    have hk := h1 (k, v) (List.mem_cons_self ..)
    simp only at hk
    rw [List.foldl_cons, AMap.insert, AMap.contains_key, hk]
    simp only [Option.isSome_none, Bool.false_eq_true, if_false]
    rw [ih]
    · simp
    · intro kv' hkv'
      apply amap_get_append_none _ _ _ _ (h1 kv' (List.mem_cons_of_mem _ hkv'))
      exact h2.1 kv'.1 (List.mem_map_of_mem hkv')
    · exact h2.2

theorem amap_get_zip (b : List Nat) (k : Nat) (a : Nat) :
    AMap.get (b.zip (List.range' k b.length)) a = if b.idxOf a < b.length then some (k + b.idxOf a) else none := by
  induction b generalizing k with
  | nil => simp [AMap.get]
  | cons x b ih =>
    simp only [List.length_cons, List.range'_succ, List.zip_cons_cons, AMap.get, List.idxOf_cons]
    by_cases hx : x = a
    · simp [hx]
    · have : (x == a) = false := by simp [hx]
      simp only [hx, if_false, this, cond_false, ih, Nat.add_lt_add_iff_right]
      split <;> simp; omega

theorem conn_get (bottom : List Nat) (hnd : bottom.Nodup) (a : Nat) :
    (AMap.get (Lk.HashMap.from_iter ((Lk.iter bottom).zip (List.range bottom.length))) a).getD a = connRename bottom a := by
  have hz : ((bottom.zip (List.range bottom.length)).map (·.1)) = bottom := by
    rw [List.map_fst_zip]; simp
  show (AMap.get ((bottom.zip (List.range bottom.length)).foldl (fun m kv => AMap.insert m kv.1 kv.2) AMap.new) a).getD a = _
  rw [from_iter_fold]
  · rw [AMap.new, List.nil_append, List.range_eq_range', amap_get_zip, connRename]
    split <;> simp
  · intros; rfl
  · rw [hz]; exact hnd

theorem g_braid_closure_eq (b : Braid) : rmap toL b.closure = C18.closure b.strands_ (word b) := by
  have hloop := forIn_sim convB b.elements_ (fun s st => closureBody s st) (fun t s => closureStep t s.v0_)
    (fun a _ s => closureBody_eq a s) (b.strands_, List.range b.strands_, [])
  have hfold : b.elements_.foldlM (fun t s => closureStep t s.v0_) (b.strands_, List.range b.strands_, [])
      = (word b).foldlM closureStep (b.strands_, List.range b.strands_, []) := by
    rw [word, List.foldlM_map]
  rw [show convB (b.strands_, List.range b.strands_, []) = (b.strands_, List.range b.strands_, []) from rfl, hfold] at hloop
  have hgen : b.closure = (do
      let st ← forIn b.elements_ ((b.strands_, List.range b.strands_, []) : BSt) (fun s st => closureBody s st)
      Res.assert ((Lk.enumerate (Lk.iter st.2.1)).all fun x => match x with | (i, j) => i != j)
      let conn := Lk.HashMap.from_iter ((Lk.iter st.2.1).zip (List.range b.strands_))
      pure (GenLink.Link.from_pd_code ((fun x => (fun a => (AMap.get conn a).getD a) <$> x) <$> Lk.iter st.2.2))) := rfl
  rw [hgen, C18.closure, closurePD]
  cases hf : forIn b.elements_ ((b.strands_, List.range b.strands_, []) : BSt) (fun s st => closureBody s st) with
  | panic => rw [hf] at hloop; simp only [rmap] at hloop; rw [← hloop]; rfl
  | err => rw [hf] at hloop; simp only [rmap] at hloop; rw [← hloop]; rfl
  | ok st =>
    rw [hf] at hloop; simp only [rmap] at hloop; rw [← hloop]
    have hI := cinv_foldl b.strands_ (word b) _ _ (cinv_init b.strands_) hloop.symm
    obtain ⟨count, bottom, pd⟩ := st
    simp only [convB] at hI ⊢
    have hnd : bottom.Nodup := List.nodup_iff_count.2 hI.cb
    have hlen : bottom.length = b.strands_ := hI.len
    simp only [Res.bind_ok, assert_free, Res.assert]
    cases hfl : hasFreeLoop bottom with
    | true => rfl
    | false =>
      simp only [Bool.not_false, if_true, Res.bind_ok, Bool.false_eq_true, if_false, Res.pure_eq, rmap, Res.ok.injEq]
      rw [← hlen]
      have : ((fun x => (fun a => (AMap.get (Lk.HashMap.from_iter ((Lk.iter bottom).zip (List.range bottom.length))) a).getD a) <$> x) <$> Lk.iter pd)
          = ((pd.map to4).map (fun x => (connRename bottom x.1, connRename bottom x.2.1, connRename bottom x.2.2.1, connRename bottom x.2.2.2))).map
              (fun x => (⟨x.1, x.2.1, x.2.2.1, x.2.2.2⟩ : Lk.Arr4 Nat)) := by
        simp only [Functor.map, Lk.iter, Lk.Iter.toList, id, List.map_map]
        apply List.map_congr_left
        intro x _
        simp only [Function.comp, Lk.Arr4.map, to4]
        have := conn_get bottom hnd
        simp only [Lk.iter, Lk.Iter.toList, id] at this
        simp only [this]
      rw [this, g_link_from_pd_code_eq]

end Yuiv.C18.GenFn
