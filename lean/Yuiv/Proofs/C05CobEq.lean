import Yuiv.Model.C05Tng
import Mathlib.Data.List.Rotate
import Mathlib.Data.List.Nodup
import Mathlib.Algebra.BigOperators.Group.List.Basic
/-
C05 (cobordisms) — (C1, first half): the Rust equality of tangle components (`Path::unori_eq` = `PartialEq for
TngComp`), tangles, cobordism components and cobordisms in the model.

 * arcs: `unoriEq a b` ⇔ same edge list or the reversed one — unconditionally an equivalence relation;
 * circles: `unoriEq a b` ⇒ the edge lists are rotations of each other, possibly after reversal (always), and the
   converse holds when no edge label occurs twice.  With a repeated label the code's test (it looks at the FIRST
   occurrence of `a[0]` in `b`) is not symmetric — counterexample in `Props/C05Cob.lean`.
-/
namespace Yuiv.C05.Tng
open Yuiv Yuiv.C05

theorem zip_all_beq_iff : ∀ (l1 l2 : List Nat), l1.length = l2.length →
    ((List.zip l1 l2).all (fun ef => ef.1 == ef.2) = true ↔ l1 = l2)
  | [], [], _ => by simp
  | [], _ :: _, h => by simp at h
  | _ :: _, [], h => by simp at h
  | a :: l1, b :: l2, h => by
    have ih := zip_all_beq_iff l1 l2 (by simpa using h)
    simp only [List.zip_cons_cons, List.all_cons, Bool.and_eq_true, beq_iff_eq, ih, List.cons.injEq]

theorem sumL_reverse (l : List Nat) : sumL l.reverse = sumL l := by
  unfold sumL; exact List.sum_reverse l

/-- arcs: equal up to reversal -/
theorem unoriEq_arc (a b : Path) (ha : a.closed = false) :
    unoriEq a b = true ↔ b.closed = false ∧ (a.edges = b.edges ∨ a.edges = b.edges.reverse) := by
  unfold unoriEq
  constructor
  · intro h
    split at h
    · cases h
    · rename_i hc
      simp only [Bool.or_eq_true, bne_iff_ne, ne_eq, not_or, Decidable.not_not] at hc
      obtain ⟨⟨hcl, hlen⟩, _⟩ := hc
      refine ⟨by rw [← hcl, ha], ?_⟩
      split at h
      · rename_i he; exact .inl (by simpa using he)
      · simp only [ha, Bool.false_eq_true, if_false] at h
        exact .inr ((zip_all_beq_iff _ _ (by simpa using hlen)).1 h)
  · rintro ⟨hb, h | h⟩
    · simp [ha, hb, h]
    · have hlen : a.edges.length = b.edges.length := by rw [h]; simp
      have hsum : sumL a.edges = sumL b.edges := by rw [h, sumL_reverse]
      simp only [ha, hb, hlen, hsum, bne_self_eq_false, Bool.or_self, Bool.false_eq_true, if_false]
      split
      · rfl
      · exact (zip_all_beq_iff _ _ (by simpa using hlen)).2 h

theorem getD_eq (l : List Nat) (i : Nat) (h : i < l.length) : l.getD i 0 = l[i] := by
  simp [List.getD_eq_getElem?_getD, h]

/-- the forward test of the circle comparison -/
theorem fwd_iff (a b : List Nat) (hlen : a.length = b.length) (p : Nat) :
    ((List.range a.length).all (fun i => a.getD i 0 == b.getD ((p + i) % a.length) 0) = true) ↔ a = b.rotate p := by
  simp only [List.all_eq_true, List.mem_range, beq_iff_eq]
  constructor
  · intro h
    apply List.ext_getElem (by rw [List.length_rotate, hlen])
    intro i h1 h2
    have := h i h1
    rw [List.getElem_rotate]
    have hi : (p + i) % a.length < b.length := by rw [← hlen]; exact Nat.mod_lt _ (by omega)
    rw [getD_eq _ _ h1, getD_eq _ _ hi] at this
    rw [this]
    congr 1
    rw [hlen, Nat.add_comm]
  · intro h i hi
    have hi' : (p + i) % a.length < b.length := by rw [← hlen]; exact Nat.mod_lt _ (by omega)
    rw [getD_eq _ _ hi, getD_eq _ _ hi']
    have h2 : i < (b.rotate p).length := by rw [List.length_rotate, ← hlen]; exact hi
    have := List.getElem_rotate b p i h2
    simp only [← h] at this
    rw [this]
    congr 1
    rw [hlen, Nat.add_comm]

/-- the backward test of the circle comparison -/
theorem bwd_iff (a b : List Nat) (hlen : a.length = b.length) (p : Nat) (hp : p < a.length) :
    ((List.range a.length).all (fun i => a.getD i 0 == b.getD ((p + a.length - i) % a.length) 0) = true) ↔
      a.reverse = b.rotate (p + 1) := by
  simp only [List.all_eq_true, List.mem_range, beq_iff_eq]
  constructor
  · intro h
    apply List.ext_getElem (by rw [List.length_rotate, List.length_reverse, hlen])
    intro j h1 h2
    have hj : j < a.length := by simpa using h1
    rw [List.getElem_reverse, List.getElem_rotate]
    have hi : a.length - 1 - j < a.length := by omega
    have := h (a.length - 1 - j) hi
    have hi' : (p + a.length - (a.length - 1 - j)) % a.length < b.length := by
      rw [← hlen]; exact Nat.mod_lt _ (by omega)
    rw [getD_eq _ _ hi, getD_eq _ _ hi'] at this
    rw [this]
    congr 1
    rw [hlen]
    congr 1
    rw [← hlen]; omega
  · intro h i hi
    have hi' : (p + a.length - i) % a.length < b.length := by rw [← hlen]; exact Nat.mod_lt _ (by omega)
    rw [getD_eq _ _ hi, getD_eq _ _ hi']
    have hj : a.length - 1 - i < a.reverse.length := by rw [List.length_reverse]; omega
    have e1 := List.getElem_reverse (l := a) hj
    have hj2 : a.length - 1 - i < (b.rotate (p + 1)).length := by rw [List.length_rotate, ← hlen]; omega
    have e2 := List.getElem_rotate b (p + 1) (a.length - 1 - i) hj2
    have e3 : a.reverse[a.length - 1 - i] = (b.rotate (p + 1))[a.length - 1 - i] := by simp only [h]
    rw [e1, e2] at e3
    have e4 : a.length - 1 - (a.length - 1 - i) = i := by omega
    simp only [e4] at e3
    rw [e3]
    congr 1
    rw [hlen]
    congr 1
    rw [← hlen]; omega

/-- circles, soundness: the code only says `true` for rotations, possibly of the reversed list -/
theorem unoriEq_circle_sound (a b : Path) (ha : a.closed = true) (h : unoriEq a b = true) :
    b.closed = true ∧ a.edges.length = b.edges.length ∧
      (b.edges ~r a.edges ∨ b.edges ~r a.edges.reverse) := by
  unfold unoriEq at h
  split at h
  · cases h
  · rename_i hc
    simp only [Bool.or_eq_true, bne_iff_ne, ne_eq, not_or, Decidable.not_not] at hc
    obtain ⟨⟨hcl, hlen⟩, _⟩ := hc
    refine ⟨by rw [← hcl, ha], hlen, ?_⟩
    split at h
    · rename_i he
      have : a.edges = b.edges := by simpa using he
      exact .inl (this ▸ List.IsRotated.refl _)
    · simp only [ha, if_true] at h
      split at h
      · cases h
      · rename_i a0 _
        split at h
        · cases h
        · rename_i p hp
          have hpl : p < b.edges.length := by
            obtain ⟨hlt, _⟩ := List.findIdx?_eq_some_iff_getElem.1 hp
            exact hlt
          simp only [Bool.or_eq_true] at h
          rcases h with h | h
          · exact .inl ⟨p, ((fwd_iff a.edges b.edges hlen p).1 h).symm⟩
          · exact .inr ⟨p + 1, ((bwd_iff a.edges b.edges hlen p (hlen ▸ hpl)).1 h).symm⟩

theorem findIdx?_of_nodup (b : List Nat) (hn : b.Nodup) (q : Nat) (hq : q < b.length) :
    b.findIdx? (· == b[q]) = some q := by
  rw [List.findIdx?_eq_some_iff_getElem]
  refine ⟨hq, by simp, ?_⟩
  intro j hj
  simp only [beq_iff_eq]
  intro e
  have := (hn.getElem_inj_iff (hi := Nat.lt_trans hj hq) (hj := hq)).1 e
  omega

/-- circles, completeness: for a circle without repeated labels the code says `true` for every rotation of the edge
list and of its reverse -/
theorem unoriEq_circle_complete (a b : Path) (ha : a.closed = true) (hb : b.closed = true) (hn : b.edges.Nodup)
    (hne : a.edges ≠ []) (h : b.edges ~r a.edges ∨ b.edges ~r a.edges.reverse) : unoriEq a b = true := by
  have hperm : b.edges.Perm a.edges := by
    rcases h with h | h
    · exact h.perm
    · exact h.perm.trans (List.reverse_perm _)
  have hlen : a.edges.length = b.edges.length := hperm.length_eq.symm
  have hsum : sumL a.edges = sumL b.edges := by unfold sumL; exact hperm.sum_eq.symm
  have hpos : 0 < a.edges.length := List.length_pos_iff.2 hne
  have hcond : (a.closed != b.closed || a.edges.length != b.edges.length || sumL a.edges != sumL b.edges) = false := by
    simp [ha, hb, hlen, hsum]
  unfold unoriEq
  rw [if_neg (by rw [hcond]; decide)]
  by_cases he : (a.edges == b.edges) = true
  · rw [if_pos he]
  · rw [if_neg he, if_pos ha]
    obtain ⟨a0, as, hcons⟩ := List.exists_cons_of_ne_nil hne
    have hhead : a.edges.head? = some a0 := by rw [hcons]; rfl
    have ha0 : a.edges[0] = a0 := by simp [hcons]
    rw [hhead]
    simp only
    rcases h with ⟨k, hk⟩ | ⟨k, hk⟩
    · -- a = b.rotate k
      have hq : k % b.edges.length < b.edges.length := Nat.mod_lt _ (by omega)
      have hbq : b.edges[k % b.edges.length] = a0 := by
        have h0 : 0 < (b.edges.rotate k).length := by rw [List.length_rotate]; omega
        have := List.getElem_rotate b.edges k 0 h0
        simp only [hk, Nat.zero_add] at this
        rw [← this, ha0]
      have hfind := findIdx?_of_nodup b.edges hn _ hq
      rw [hbq] at hfind
      rw [hfind]
      simp only [Bool.or_eq_true]
      left
      exact (fwd_iff a.edges b.edges hlen (k % b.edges.length)).2 (by rw [List.rotate_mod]; exact hk.symm)
    · -- a.reverse = b.rotate k
      have hq : (a.edges.length - 1 + k) % b.edges.length < b.edges.length := Nat.mod_lt _ (by omega)
      have hbq : b.edges[(a.edges.length - 1 + k) % b.edges.length] = a0 := by
        have h0 : a.edges.length - 1 < (b.edges.rotate k).length := by rw [List.length_rotate]; omega
        have e2 := List.getElem_rotate b.edges k (a.edges.length - 1) h0
        have h1 : a.edges.length - 1 < a.edges.reverse.length := by rw [List.length_reverse]; omega
        have e1 := List.getElem_reverse (l := a.edges) h1
        have e3 : (b.edges.rotate k)[a.edges.length - 1] = a.edges.reverse[a.edges.length - 1] := by simp only [hk]
        rw [e2, e1] at e3
        have e4 : a.edges.length - 1 - (a.edges.length - 1) = 0 := by omega
        simp only [e4] at e3
        rw [e3, ha0]
      have hfind := findIdx?_of_nodup b.edges hn _ hq
      rw [hbq] at hfind
      rw [hfind]
      simp only [Bool.or_eq_true]
      right
      have hp : (a.edges.length - 1 + k) % b.edges.length < a.edges.length := lt_of_lt_of_eq hq hlen.symm
      have hrot : b.edges.rotate ((a.edges.length - 1 + k) % b.edges.length + 1) = b.edges.rotate k := by
        rw [← List.rotate_mod b.edges ((a.edges.length - 1 + k) % b.edges.length + 1), ← List.rotate_mod b.edges k]
        congr 1
        rw [Nat.add_mod, Nat.mod_mod, ← Nat.add_mod]
        have : a.edges.length - 1 + k + 1 = k + b.edges.length := by omega
        rw [this, Nat.add_mod_right]
      exact (bwd_iff a.edges b.edges hlen _ hp).2 (by rw [hrot]; exact hk.symm)

/-! ### the equivalence relation -/

/-- well-formed tangle component: no repeated edge label, at least one edge -/
def Path.WFP (p : Path) : Prop := p.edges.Nodup ∧ p.edges ≠ []

/-- the specification of `unori_eq` -/
def Path.Same (a b : Path) : Prop :=
  a.closed = b.closed ∧
    (if a.closed then (b.edges ~r a.edges ∨ b.edges ~r a.edges.reverse)
     else (a.edges = b.edges ∨ a.edges = b.edges.reverse))

theorem unoriEq_iff_same (a b : Path) (hb : b.WFP) (ha : a.WFP) : unoriEq a b = true ↔ Path.Same a b := by
  unfold Path.Same
  by_cases hc : a.closed = true
  · simp only [hc, if_true]
    constructor
    · intro h
      obtain ⟨h1, _, h3⟩ := unoriEq_circle_sound a b hc h
      exact ⟨h1.symm, h3⟩
    · rintro ⟨h1, h3⟩
      exact unoriEq_circle_complete a b hc h1.symm hb.1 ha.2 h3
  · have hc' : a.closed = false := by simpa using hc
    simp only [hc', Bool.false_eq_true, if_false]
    rw [unoriEq_arc a b hc']
    constructor
    · rintro ⟨h1, h2⟩; exact ⟨h1.symm, h2⟩
    · rintro ⟨h1, h2⟩; exact ⟨h1.symm, h2⟩

theorem Path.Same.refl (a : Path) : Path.Same a a := by
  unfold Path.Same
  refine ⟨rfl, ?_⟩
  split
  · exact .inl (List.IsRotated.refl _)
  · exact .inl rfl

theorem Path.Same.symm {a b : Path} (h : Path.Same a b) : Path.Same b a := by
  unfold Path.Same at *
  obtain ⟨hc, h⟩ := h
  refine ⟨hc.symm, ?_⟩
  rw [← hc]
  split
  · rename_i hcl
    simp only [hcl, if_true] at h
    rcases h with h | h
    · exact .inl h.symm
    · exact .inr (List.isRotated_reverse_comm_iff.1 h.symm)
  · rename_i hcl
    simp only [hcl, if_false] at h
    rcases h with h | h
    · exact .inl h.symm
    · exact .inr (by rw [h, List.reverse_reverse])

theorem Path.Same.trans {a b c : Path} (h1 : Path.Same a b) (h2 : Path.Same b c) : Path.Same a c := by
  unfold Path.Same at *
  obtain ⟨hc1, h1⟩ := h1
  obtain ⟨hc2, h2⟩ := h2
  refine ⟨hc1.trans hc2, ?_⟩
  rw [← hc1] at h2
  split
  · rename_i hcl
    simp only [hcl, if_true] at h1 h2
    rcases h1 with h1 | h1 <;> rcases h2 with h2 | h2
    · exact .inl (h2.trans h1)
    · exact .inr (h2.trans h1.reverse)
    · exact .inr (h2.trans h1)
    · refine .inl (h2.trans ?_)
      have := h1.reverse
      rwa [List.reverse_reverse] at this
  · rename_i hcl
    simp only [hcl, if_false] at h1 h2
    rcases h1 with h1 | h1 <;> rcases h2 with h2 | h2
    · exact .inl (h1.trans h2)
    · exact .inr (h1.trans h2)
    · exact .inr (by rw [h1, h2])
    · exact .inl (by rw [h1, h2, List.reverse_reverse])

/-! ### tangles, components, cobordisms: component-wise comparison of lists -/

theorem unoriEq_refl (a : Path) : unoriEq a a = true := by
  unfold unoriEq; simp

theorem unoriEq_symm (a b : Path) (ha : a.WFP) (hb : b.WFP) (h : unoriEq a b = true) : unoriEq b a = true :=
  (unoriEq_iff_same b a ha hb).2 ((unoriEq_iff_same a b hb ha).1 h).symm

theorem unoriEq_trans (a b c : Path) (ha : a.WFP) (hb : b.WFP) (hc : c.WFP)
    (h1 : unoriEq a b = true) (h2 : unoriEq b c = true) : unoriEq a c = true :=
  (unoriEq_iff_same a c hc ha).2 (((unoriEq_iff_same a b hb ha).1 h1).trans ((unoriEq_iff_same b c hc hb).1 h2))

/-- `a.len() == b.len() && zip(a, b).all(r)` — the derived `PartialEq` of a `Vec` -/
def listRel {α : Type} (r : α → α → Bool) (a b : List α) : Bool :=
  a.length == b.length && (List.zip a b).all (fun xy => r xy.1 xy.2)

theorem listRel_iff {α : Type} (r : α → α → Bool) : ∀ (a b : List α),
    listRel r a b = true ↔ List.Forall₂ (fun x y => r x y = true) a b
  | [], [] => by simp [listRel]
  | [], _ :: _ => by simp [listRel]
  | _ :: _, [] => by simp [listRel]
  | x :: a, y :: b => by
    have ih := listRel_iff r a b
    simp only [listRel, List.length_cons, Nat.add_right_cancel_iff, beq_iff_eq, List.zip_cons_cons, List.all_cons,
      Bool.and_eq_true, List.forall₂_cons] at ih ⊢
    rw [← ih]; tauto

theorem forall₂_symm_on {α : Type} (P : α → Prop) (R : α → α → Prop)
    (hs : ∀ x y, P x → P y → R x y → R y x) :
    ∀ (a b : List α), (∀ x ∈ a, P x) → (∀ y ∈ b, P y) → List.Forall₂ R a b → List.Forall₂ R b a := by
  intro a b ha hb h
  induction h with
  | nil => exact .nil
  | cons hxy _ ih =>
    exact .cons (hs _ _ (ha _ List.mem_cons_self) (hb _ List.mem_cons_self) hxy)
      (ih (fun x hx => ha x (List.mem_cons_of_mem _ hx)) (fun y hy => hb y (List.mem_cons_of_mem _ hy)))

theorem forall₂_trans_on {α : Type} (P : α → Prop) (R : α → α → Prop)
    (ht : ∀ x y z, P x → P y → P z → R x y → R y z → R x z) :
    ∀ (a b c : List α), (∀ x ∈ a, P x) → (∀ y ∈ b, P y) → (∀ z ∈ c, P z) →
      List.Forall₂ R a b → List.Forall₂ R b c → List.Forall₂ R a c := by
  intro a b c ha hb hc h1
  induction h1 generalizing c with
  | nil => intro h2; cases h2; exact .nil
  | cons hxy _ ih =>
    intro h2
    cases h2 with
    | cons hyz h2' =>
      exact .cons (ht _ _ _ (ha _ List.mem_cons_self) (hb _ List.mem_cons_self) (hc _ List.mem_cons_self) hxy hyz)
        (ih _ (fun x hx => ha x (List.mem_cons_of_mem _ hx)) (fun y hy => hb y (List.mem_cons_of_mem _ hy))
          (fun z hz => hc z (List.mem_cons_of_mem _ hz)) h2')

/-- well-formed tangle / component / cobordism: every tangle component is well formed -/
def WFT (t : Tng) : Prop := ∀ p ∈ t, p.WFP
def CobComp.WFC (c : CobComp) : Prop := WFT c.src ∧ WFT c.tgt
def WFK (k : Cob) : Prop := ∀ c ∈ k, c.WFC

theorem tngEq_eq_listRel (a b : Tng) : tngEq a b = listRel unoriEq a b := rfl
theorem cobEq_eq_listRel (a b : Cob) : cobEq a b = listRel cobCompEq a b := rfl

theorem tngEq_refl (a : Tng) : tngEq a a = true := by
  rw [tngEq_eq_listRel, listRel_iff]
  induction a with
  | nil => exact .nil
  | cons x a ih => exact .cons (unoriEq_refl x) ih

theorem tngEq_symm (a b : Tng) (ha : WFT a) (hb : WFT b) (h : tngEq a b = true) : tngEq b a = true := by
  rw [tngEq_eq_listRel, listRel_iff] at *
  exact forall₂_symm_on Path.WFP _ (fun x y hx hy => unoriEq_symm x y hx hy) a b ha hb h

theorem tngEq_trans (a b c : Tng) (ha : WFT a) (hb : WFT b) (hc : WFT c)
    (h1 : tngEq a b = true) (h2 : tngEq b c = true) : tngEq a c = true := by
  rw [tngEq_eq_listRel, listRel_iff] at *
  exact forall₂_trans_on Path.WFP _ (fun x y z hx hy hz => unoriEq_trans x y z hx hy hz) a b c ha hb hc h1 h2

theorem cobCompEq_refl (a : CobComp) : cobCompEq a a = true := by
  unfold cobCompEq; simp [tngEq_refl]

theorem cobCompEq_symm (a b : CobComp) (ha : a.WFC) (hb : b.WFC) (h : cobCompEq a b = true) :
    cobCompEq b a = true := by
  unfold cobCompEq at *
  simp only [Bool.and_eq_true, beq_iff_eq] at h ⊢
  obtain ⟨⟨⟨h1, h2⟩, h3⟩, h4⟩ := h
  exact ⟨⟨⟨tngEq_symm _ _ ha.1 hb.1 h1, tngEq_symm _ _ ha.2 hb.2 h2⟩, h3.symm⟩, h4.symm⟩

theorem cobCompEq_trans (a b c : CobComp) (ha : a.WFC) (hb : b.WFC) (hc : c.WFC)
    (h1 : cobCompEq a b = true) (h2 : cobCompEq b c = true) : cobCompEq a c = true := by
  unfold cobCompEq at *
  simp only [Bool.and_eq_true, beq_iff_eq] at h1 h2 ⊢
  obtain ⟨⟨⟨a1, a2⟩, a3⟩, a4⟩ := h1
  obtain ⟨⟨⟨b1, b2⟩, b3⟩, b4⟩ := h2
  exact ⟨⟨⟨tngEq_trans _ _ _ ha.1 hb.1 hc.1 a1 b1, tngEq_trans _ _ _ ha.2 hb.2 hc.2 a2 b2⟩, a3.trans b3⟩, a4.trans b4⟩

theorem cobEq_refl (a : Cob) : cobEq a a = true := by
  rw [cobEq_eq_listRel, listRel_iff]
  induction a with
  | nil => exact .nil
  | cons x a ih => exact .cons (cobCompEq_refl x) ih

theorem cobEq_symm (a b : Cob) (ha : WFK a) (hb : WFK b) (h : cobEq a b = true) : cobEq b a = true := by
  rw [cobEq_eq_listRel, listRel_iff] at *
  exact forall₂_symm_on CobComp.WFC _ (fun x y hx hy => cobCompEq_symm x y hx hy) a b ha hb h

theorem cobEq_trans (a b c : Cob) (ha : WFK a) (hb : WFK b) (hc : WFK c)
    (h1 : cobEq a b = true) (h2 : cobEq b c = true) : cobEq a c = true := by
  rw [cobEq_eq_listRel, listRel_iff] at *
  exact forall₂_trans_on CobComp.WFC _ (fun x y z hx hy hz => cobCompEq_trans x y z hx hy hz) a b c ha hb hc h1 h2

end Yuiv.C05.Tng
