import Yuiv.Proofs.C02MirrorEx
import Yuiv.Proofs.C06CycleDefs
/-
C01Sq — the figure-eight knot `X[4,2,5,1] X[8,6,1,5] X[6,3,7,4] X[2,7,3,8]` for the non-vacuity `example`s of
`Props/C01Sq.lean` (the value of `edgeLabels` by unfolding `Array.qsort`, then kernel evaluation); trefoil, Hopf link,
the kink and the non-planar code `X[1,2,1,2]` are in `Proofs/C02MirrorEx.lean`.
-/
open private Array.qsort.sort from Init.Data.Array.QSort.Basic
open private Array.qpartition.loop from Init.Data.Array.QSort.Basic
namespace Yuiv.C01Sq.Ex
open Yuiv Yuiv.KhRef Yuiv.C04Inv Yuiv.C02Mirror Yuiv.C02Mirror.Ex

def fig8 : Link := #[⟨.X, #[4, 2, 5, 1]⟩, ⟨.X, #[8, 6, 1, 5]⟩, ⟨.X, #[6, 3, 7, 4]⟩, ⟨.X, #[2, 7, 3, 8]⟩]

theorem edgeLabels_fig8 : edgeLabels fig8 = #[1, 2, 3, 4, 5, 6, 7, 8] := by
  rw [edgeLabels_eq]
  have : preLabels fig8 = #[4, 2, 5, 1, 8, 6, 3, 7] := by decide +kernel
  rw [this]
  simp [Array.qsort, Array.qsort.sort, Array.qpartition, Array.qpartition.loop, Vector.swap]

theorem fig8_ok : cubeOK (mkCube fig8 p0) ∧ (edgeLabels fig8).size ≤ 64 := by
  rw [mkCube_eq_cubeWith _ _ rfl, edgeLabels_fig8]
  decide +kernel

theorem valid_examples : C06Cycle.validK trefoil = true ∧ C06Cycle.validK hopf = true ∧
    C06Cycle.validK fig8 = true ∧ C06Cycle.validK kink = true ∧ C06Cycle.validK virt = true := by
  decide +kernel

/-- Bar-Natan-type parameters with `t = 1`, reduced theory -/
def pT1 : Params := ⟨0, 1, true⟩

/-- the reduced cube of the trefoil with the label array as a parameter -/
def cubeR (labels : Array Nat) : Cube :=
  { n := crossingNum trefoil, circ := (Array.range (2 ^ crossingNum trefoil)).map (fun s => circles trefoil labels s),
    base := some ((trefoil[0]!).e.foldl min (trefoil[0]!).e[0]!) }

theorem mkCube_trefoil_reduced : mkCube trefoil pT1 = cubeR (edgeLabels trefoil) := by
  unfold mkCube cubeR
  simp [pT1, trefoil]

/-- for `t ≠ 0` the reduced "complex" of the reference is not a complex: `d (d g) ≠ 0` for the generator `X⊗X⊗X` of the
state `0` of the trefoil with `(h, t) = (0, 1)` -/
theorem reduced_t1_not_complex : C06Cycle.baseKeep (mkCube trefoil pT1) ⟨0, 7⟩ = true ∧
    C06Cycle.chainSum (fun g' => (((mkCube trefoil pT1).d pT1 g').getD #[]).toList)
      (((mkCube trefoil pT1).d pT1 ⟨0, 7⟩).getD #[]).toList ⟨6, 1⟩ = 1 := by
  rw [mkCube_trefoil_reduced, edgeLabels_trefoil]
  decide +kernel

end Yuiv.C01Sq.Ex
