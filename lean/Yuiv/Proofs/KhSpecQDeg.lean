import Yuiv.Proofs.C01SqBridge
import Yuiv.Proofs.C01SqAsm
import Yuiv.Proofs.C02MirrorDual
import Mathlib.Data.Finset.Card
import Mathlib.Data.Finset.Range

/-
KhSpec — the differential of the reference cube PRESERVES THE QUANTUM DEGREE for `h = t = 0`.

  * `QDeg.cnt n P`                 : number of `i < n` with `P i` (`popcount x r = cnt r x.testBit`, `popcount_eq_cnt`);
  * `QDeg.cnt_common`              : `i ↦ ix cs' cs[i]!` is a bijection between the common positions of `cs` and of `cs'`;
  * `QDeg.merge_count/split_count` : for a labelling `m'` of `cs'` that carries the labels of `m` on the common circles,
                                     `popcount m' |cs'|` − (labels on the born circles) = `popcount m |cs|` − (labels on the
                                     gone circles), and `|cs'| = |cs| ∓ 1`;
  * `edge_qdeg`                    : every term of `edgeTerms 0 0 cs cs' m` has `−2·#X + #circles` one less than `m`;
  * `qDeg_preserved`               : every term of `Cube.d` (unreduced, `h = t = 0`) has the quantum degree of its source.
-/
namespace Yuiv.KhSpec.QDeg
open Yuiv Yuiv.KhRef Yuiv.C02Mirror

/-- number of `i < n` with `P i` -/
def cnt (n : Nat) (P : Nat → Bool) : Nat := ((Finset.range n).filter (fun i => P i = true)).card

theorem cnt_succ (n : Nat) (P : Nat → Bool) : cnt (n + 1) P = cnt n P + (P n).toNat := by
  unfold cnt
  rw [Finset.range_add_one, Finset.filter_insert]
  cases h : P n
  · simp
  · simp [Finset.card_insert_of_notMem]

theorem popcount_eq_cnt (x r : Nat) : popcount x r = cnt r (fun i => x.testBit i) := by
  induction r with
  | zero => rfl
  | succ r ih =>
    rw [cnt_succ, ← ih]
    unfold popcount
    rw [List.range_succ, List.filter_append, List.length_append]
    cases h : x.testBit r <;> simp [h]

theorem cnt_congr (n : Nat) (P Q : Nat → Bool) (h : ∀ i, i < n → P i = Q i) : cnt n P = cnt n Q := by
  unfold cnt
  congr 1
  apply Finset.filter_congr
  intro i hi
  rw [h i (Finset.mem_range.1 hi)]

theorem cnt_true (n : Nat) : cnt n (fun _ => true) = n := by
  unfold cnt
  simp

theorem cnt_split (n : Nat) (P R : Nat → Bool) :
    cnt n P = cnt n (fun i => R i && P i) + cnt n (fun i => !R i && P i) := by
  unfold cnt
  rw [← Finset.card_filter_add_card_filter_not (s := (Finset.range n).filter (fun i => P i = true)) (fun i => R i = true),
    Finset.filter_filter, Finset.filter_filter]
  congr 2
  · apply Finset.filter_congr; intro i _; simp [and_comm]
  · apply Finset.filter_congr; intro i _; simp [and_comm]

/-- the common circles of `cs` and `cs'` correspond bijectively (`i ↦ ix cs' cs[i]!`) -/
theorem cnt_common {cs cs' : Circ} (hP : Pair cs cs') (P Q : Nat → Bool)
    (hPQ : ∀ i, i < cs.size → cs[i]! ∈ cs' → Q (ix cs' cs[i]!) = P i) :
    cnt cs.size (fun i => cs'.contains cs[i]! && P i) = cnt cs'.size (fun j => cs.contains cs'[j]! && Q j) := by
  unfold cnt
  apply Finset.card_bij (fun i _ => ix cs' cs[i]!)
  · intro i hi
    simp only [Finset.mem_filter, Finset.mem_range, Bool.and_eq_true, contains_iff] at hi ⊢
    obtain ⟨hi, hc, hp⟩ := hi
    obtain ⟨h1, h2⟩ := ix_spec cs' cs[i]! hc
    refine ⟨h1, ?_, ?_⟩
    · rw [h2]; exact getElem!_mem cs i hi
    · rw [hPQ i hi hc]; exact hp
  · intro i hi j hj e
    simp only [Finset.mem_filter, Finset.mem_range, Bool.and_eq_true, contains_iff] at hi hj
    exact idx_inj cs hP.nd i j hi.1 hj.1 (ix_inj cs' _ _ hi.2.1 hj.2.1 e)
  · intro j hj
    simp only [Finset.mem_filter, Finset.mem_range, Bool.and_eq_true, contains_iff] at hj
    obtain ⟨hj, hc, hq⟩ := hj
    obtain ⟨h1, h2⟩ := ix_spec cs cs'[j]! hc
    have hmem : cs[ix cs cs'[j]!]! ∈ cs' := by rw [h2]; exact getElem!_mem cs' j hj
    have hix : ix cs' cs[ix cs cs'[j]!]! = j := by rw [h2]; exact ix_getElem cs' hP.nd' j hj
    refine ⟨ix cs cs'[j]!, ?_, hix⟩
    simp only [Finset.mem_filter, Finset.mem_range, Bool.and_eq_true, contains_iff]
    refine ⟨h1, hmem, ?_⟩
    rw [← hPQ _ h1 hmem, hix]; exact hq

theorem cnt_gone_filter (cs cs' : Circ) (P : Nat → Bool) :
    cnt cs.size (fun i => !cs'.contains cs[i]! && P i)
      = (((goneOf cs cs').toList.toFinset).filter (fun i => P i = true)).card := by
  unfold cnt
  congr 1
  ext i
  simp only [Finset.mem_filter, Finset.mem_range, Bool.and_eq_true, List.mem_toFinset, Array.mem_toList_iff,
    mem_goneOf, Bool.not_eq_true', ← contains_iff]
  constructor
  · rintro ⟨h1, h2, h3⟩; exact ⟨⟨h1, by rw [h2]; simp⟩, h3⟩
  · rintro ⟨⟨h1, h2⟩, h3⟩; exact ⟨h1, by simpa using h2, h3⟩

theorem cnt_gone2 {cs cs' : Circ} {g0 g1 : Nat} (hG : goneOf cs cs' = #[g0, g1]) (P : Nat → Bool) :
    cnt cs.size (fun i => !cs'.contains cs[i]! && P i) = (P g0).toNat + (P g1).toNat := by
  have hne : g0 ≠ g1 := by
    have := goneOf_nodup cs cs'
    rw [hG] at this
    simpa using this
  rw [cnt_gone_filter, hG]
  cases h0 : P g0 <;> cases h1 : P g1 <;>
    simp [Finset.filter_insert, Finset.filter_singleton, h0, h1, hne]

theorem cnt_gone1 {cs cs' : Circ} {g : Nat} (hG : goneOf cs cs' = #[g]) (P : Nat → Bool) :
    cnt cs.size (fun i => !cs'.contains cs[i]! && P i) = (P g).toNat := by
  rw [cnt_gone_filter, hG]
  cases h0 : P g <;> simp [Finset.filter_singleton, h0]


/-- the labelled common circles are counted by both sides -/
theorem common_count {cs cs' : Circ} (hP : Pair cs cs') (m m' : Nat) (hC : Compat cs cs' m m') :
    cnt cs.size (fun i => cs'.contains cs[i]! && m.testBit i)
      = cnt cs'.size (fun j => cs.contains cs'[j]! && m'.testBit j) :=
  cnt_common hP (fun i => m.testBit i) (fun j => m'.testBit j) hC

theorem common_size {cs cs' : Circ} (hP : Pair cs cs') :
    cnt cs.size (fun i => cs'.contains cs[i]! && true) = cnt cs'.size (fun j => cs.contains cs'[j]! && true) :=
  cnt_common hP (fun _ => true) (fun _ => true) (fun _ _ _ => rfl)

/-- MERGE, counting: two circles `g0, g1` of `cs` disappear, one circle `b` of `cs'` appears -/
theorem merge_count {cs cs' : Circ} (hP : Pair cs cs') {g0 g1 b : Nat}
    (hG : goneOf cs cs' = #[g0, g1]) (hB : goneOf cs' cs = #[b]) (m m' : Nat) (hC : Compat cs cs' m m') :
    cs'.size + 1 = cs.size ∧
      popcount m' cs'.size + (m.testBit g0).toNat + (m.testBit g1).toNat = popcount m cs.size + (m'.testBit b).toNat := by
  have s1 := cnt_split cs.size (fun _ => true) (fun i => cs'.contains cs[i]!)
  have s2 := cnt_split cs'.size (fun _ => true) (fun j => cs.contains cs'[j]!)
  rw [cnt_true, cnt_gone2 hG] at s1
  rw [cnt_true, cnt_gone1 hB] at s2
  have s3 := common_size hP
  have p1 := cnt_split cs.size (fun i => m.testBit i) (fun i => cs'.contains cs[i]!)
  have p2 := cnt_split cs'.size (fun j => m'.testBit j) (fun j => cs.contains cs'[j]!)
  rw [← popcount_eq_cnt, cnt_gone2 hG] at p1
  rw [← popcount_eq_cnt, cnt_gone1 hB] at p2
  have p3 := common_count hP m m' hC
  simp only [Bool.toNat_true] at s1 s2
  omega

/-- SPLIT, counting: one circle `g` of `cs` disappears, two circles `b0, b1` of `cs'` appear -/
theorem split_count {cs cs' : Circ} (hP : Pair cs cs') {g b0 b1 : Nat}
    (hG : goneOf cs cs' = #[g]) (hB : goneOf cs' cs = #[b0, b1]) (m m' : Nat) (hC : Compat cs cs' m m') :
    cs'.size = cs.size + 1 ∧
      popcount m' cs'.size + (m.testBit g).toNat = popcount m cs.size + (m'.testBit b0).toNat + (m'.testBit b1).toNat := by
  have s1 := cnt_split cs.size (fun _ => true) (fun i => cs'.contains cs[i]!)
  have s2 := cnt_split cs'.size (fun _ => true) (fun j => cs.contains cs'[j]!)
  rw [cnt_true, cnt_gone1 hG] at s1
  rw [cnt_true, cnt_gone2 hB] at s2
  have s3 := common_size hP
  have p1 := cnt_split cs.size (fun i => m.testBit i) (fun i => cs'.contains cs[i]!)
  have p2 := cnt_split cs'.size (fun j => m'.testBit j) (fun j => cs.contains cs'[j]!)
  rw [← popcount_eq_cnt, cnt_gone1 hG] at p1
  rw [← popcount_eq_cnt, cnt_gone2 hB] at p2
  have p3 := common_count hP m m' hC
  simp only [Bool.toNat_true] at s1 s2
  omega

/-- the target labellings of a merge carry the labels of the common circles -/
theorem merge_target {cs cs' : Circ} (hP : Pair cs cs') {b : Nat} (hb : b ∈ goneOf cs' cs) (m : Nat) (y : Bool) :
    Compat cs cs' m (setBit (carry cs cs' m) b y) ∧ (setBit (carry cs cs' m) b y).testBit b = y := by
  have hM := (carry_spec cs cs' m hP.nd hP.le').1
  have hb64 : b < 64 := by have := ((mem_goneOf cs' cs b).1 hb).1; have := hP.le'; omega
  refine ⟨fun i hi hc => ?_, ?_⟩
  · rw [testBit_setBit _ _ _ _ hM hb64, if_neg (common_not_born i b hc hi hb)]
    exact carry_at hP m i hi hc
  · rw [testBit_setBit _ _ _ _ hM hb64, if_pos rfl]

theorem split_target {cs cs' : Circ} (hP : Pair cs cs') {b0 b1 : Nat} (hb0 : b0 ∈ goneOf cs' cs)
    (hb1 : b1 ∈ goneOf cs' cs) (hne : b0 ≠ b1) (m : Nat) (y1 y2 : Bool) :
    Compat cs cs' m (setBit (setBit (carry cs cs' m) b0 y1) b1 y2) ∧
      (setBit (setBit (carry cs cs' m) b0 y1) b1 y2).testBit b0 = y1 ∧
      (setBit (setBit (carry cs cs' m) b0 y1) b1 y2).testBit b1 = y2 := by
  have hM := (carry_spec cs cs' m hP.nd hP.le').1
  have h064 : b0 < 64 := by have := ((mem_goneOf cs' cs b0).1 hb0).1; have := hP.le'; omega
  have h164 : b1 < 64 := by have := ((mem_goneOf cs' cs b1).1 hb1).1; have := hP.le'; omega
  have hM1 := setBit_lt _ b0 y1 hM h064
  have tb : ∀ j, (setBit (setBit (carry cs cs' m) b0 y1) b1 y2).testBit j =
      if j = b1 then y2 else if j = b0 then y1 else (carry cs cs' m).testBit j := by
    intro j
    rw [testBit_setBit _ _ _ _ hM1 h164, testBit_setBit _ _ _ _ hM h064]
  refine ⟨fun i hi hc => ?_, ?_, ?_⟩
  · rw [tb, if_neg (common_not_born i b1 hc hi hb1), if_neg (common_not_born i b0 hc hi hb0)]
    exact carry_at hP m i hi hc
  · rw [tb, if_neg hne, if_pos rfl]
  · rw [tb, if_pos rfl]


/-- the surviving rows of the multiplication table at `h = t = 0` -/
theorem prod_rows (x0 x1 : Bool) : ∀ ya ∈ prod 0 0 x0 x1, (ya.2 != 0) = true → ya.1.toNat = x0.toNat + x1.toNat := by
  cases x0 <;> cases x1 <;> simp [prod]

/-- the surviving rows of the comultiplication table at `h = t = 0` -/
theorem coprod_rows (x : Bool) :
    ∀ ya ∈ coprod 0 0 x, (ya.2.2 != 0) = true → ya.1.toNat + ya.2.1.toNat = x.toNat + 1 := by
  cases x <;> simp [coprod]

end Yuiv.KhSpec.QDeg

namespace Yuiv.KhSpec
open Yuiv Yuiv.KhRef
open Yuiv.KhSpec.QDeg

set_option linter.unusedVariables false in
/-- one edge: every term of the edge map (h = t = 0) has `popcount m' r' = popcount m r` for a merge (`r' = r − 1`)
and `popcount m' r' = popcount m r + 1` for a split (`r' = r + 1`); uniformly: -/
theorem edge_qdeg {cs cs' : C02Mirror.Circ} (hP : C02Mirror.Pair cs cs') (m : Nat) (hm : m < 2 ^ cs.size)
    (ts : List (Nat × Int)) (h : C02Mirror.edgeTerms 0 0 cs cs' m = some ts) :
    ∀ x ∈ ts, (-2 : Int) * popcount x.1 cs'.size + cs'.size + 1 = (-2 : Int) * popcount m cs.size + cs.size := by
  have hok : C02Mirror.edgeOK cs cs' = true := by rw [← C02Mirror.edgeTerms_isSome 0 0 cs cs' m, h]; rfl
  unfold C02Mirror.edgeOK at hok
  rw [Bool.or_eq_true, Bool.and_eq_true, Bool.and_eq_true, beq_iff_eq, beq_iff_eq, beq_iff_eq, beq_iff_eq] at hok
  rcases hok with ⟨sG, sB⟩ | ⟨sG, sB⟩
  · have hG := C02Mirror.arr_two _ sG
    have hB := C02Mirror.arr_one _ sB
    have hb : (C02Mirror.goneOf cs' cs)[0]! ∈ C02Mirror.goneOf cs' cs := C02Mirror.getElem!_mem_nat _ _ (by omega)
    rw [C01Sq.edgeTerms_merge 0 0 m hG hB] at h
    injection h with h
    subst h
    intro x hx
    rw [List.mem_filterMap] at hx
    obtain ⟨ya, hya, hx⟩ := hx
    obtain ⟨hC, hy⟩ := merge_target hP hb m ya.1
    obtain ⟨c1, c2⟩ := merge_count hP hG hB m _ hC
    rw [hy] at c2
    have hrow := prod_rows _ _ ya hya
    split at hx
    · rename_i hne
      injection hx with hx
      subst hx
      have := hrow hne
      simp only []
      omega
    · cases hx
  · have hG := C02Mirror.arr_one _ sG
    have hB := C02Mirror.arr_two _ sB
    have hb0 : (C02Mirror.goneOf cs' cs)[0]! ∈ C02Mirror.goneOf cs' cs := C02Mirror.getElem!_mem_nat _ _ (by omega)
    have hb1 : (C02Mirror.goneOf cs' cs)[1]! ∈ C02Mirror.goneOf cs' cs := C02Mirror.getElem!_mem_nat _ _ (by omega)
    have hne : (C02Mirror.goneOf cs' cs)[0]! ≠ (C02Mirror.goneOf cs' cs)[1]! := by
      have := C02Mirror.goneOf_nodup cs' cs
      rw [hB] at this
      simpa using this
    rw [C01Sq.edgeTerms_split 0 0 m hG hB] at h
    injection h with h
    subst h
    intro x hx
    rw [List.mem_filterMap] at hx
    obtain ⟨ya, hya, hx⟩ := hx
    obtain ⟨hC, hy1, hy2⟩ := split_target hP hb0 hb1 hne m ya.1 ya.2.1
    obtain ⟨c1, c2⟩ := split_count hP hG hB m _ hC
    rw [hy1, hy2] at c2
    have hrow := coprod_rows _ ya hya
    split at hx
    · rename_i hne'
      injection hx with hx
      subst hx
      have := hrow hne'
      simp only []
      omega
    · cases hx

/-- flipping a clear bit `k < n` raises the weight by one -/
theorem QDeg.popcount_or_bit' (s k n : Nat) (hk : k < n) (hb : s.testBit k = false) :
    popcount (s ||| 1 <<< k) n = popcount s n + 1 := by
  rw [popcount_eq_cnt, popcount_eq_cnt]
  unfold cnt
  have e : (Finset.range n).filter (fun i => (s ||| 1 <<< k).testBit i = true)
      = insert k ((Finset.range n).filter (fun i => s.testBit i = true)) := by
    ext i
    simp only [Finset.mem_filter, Finset.mem_range, Finset.mem_insert, testBit_or_bit, Bool.or_eq_true,
      decide_eq_true_eq]
    constructor
    · rintro ⟨h1, h2 | h2⟩
      · exact Or.inr ⟨h1, h2⟩
      · exact Or.inl h2.symm
    · rintro (rfl | ⟨h1, h2⟩)
      · exact ⟨hk, Or.inr rfl⟩
      · exact ⟨h1, Or.inl h2⟩
  rw [e, Finset.card_insert_of_notMem]
  simp [hb]

theorem qDeg_preserved (c : Cube) (p : Params) (hh : p.h = 0) (ht : p.t = 0) (hb : c.base = none)
    (hok : C02Mirror.cubeOK c)
    (hP : ∀ s s', s < 2 ^ c.n → s' < 2 ^ c.n → C02Mirror.Pair c.circ[s]! c.circ[s']!)
    (g : Gen) (hs : g.s < 2 ^ c.n) (hm : g.mask < 2 ^ (c.circ[g.s]!).size) (ts : Array Term) (hd : c.d p g = some ts)
    (q0 : Int) : ∀ t ∈ ts.toList, c.qDeg q0 t.1 = c.qDeg q0 g := by
  obtain ⟨ts', hd', hl⟩ := C01Sq.d_toList c p hb hok g hs
  rw [hd] at hd'
  cases hd'
  intro t htm
  rw [hl] at htm
  obtain ⟨k, hk, hmk⟩ := List.mem_flatMap.1 htm
  have h1 : k < c.n := by
    simp only [List.mem_range'] at hk
    omega
  unfold C01Sq.edgeList at hmk
  split at hmk
  · rename_i hbit
    rw [hh, ht] at hmk
    obtain ⟨mt, hmt, rfl⟩ := List.mem_map.1 hmk
    cases he : C02Mirror.edgeTerms 0 0 c.circ[g.s]! c.circ[g.s ||| 1 <<< k]! g.mask with
    | none => rw [he] at hmt; cases hmt
    | some tl =>
      rw [he, Option.getD_some] at hmt
      have hs1 : g.s ||| 1 <<< k < 2 ^ c.n := C02Mirror.or_bit_lt _ _ _ hs h1
      have key := edge_qdeg (hP g.s (g.s ||| 1 <<< k) hs hs1) g.mask hm tl he mt hmt
      have hw := QDeg.popcount_or_bit' g.s k c.n h1 hbit
      unfold Cube.qDeg
      simp only []
      rw [hw]
      omega
  · cases hmk

end Yuiv.KhSpec
