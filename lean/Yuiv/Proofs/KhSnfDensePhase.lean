import Yuiv.Proofs.KhSnfGInv
import Yuiv.Proofs.KhSnfDense
import Mathlib.Tactic.Ring
/-
KhSnf — the dense phase `denseDiag` (helper): every round `pivotStep` is a row swap, a column swap, a family of row
operations and a family of column operations on the live matrix, so it preserves the elimination invariant `GInv`;
finished levels stay finished; the pivot values strictly decrease along the unclean rounds of one level, so the fuel of
`levelLoop` (the absolute value of the first pivot) is never exhausted; at the end the live matrix is diagonal.
-/
namespace Yuiv.KhSnf
open Yuiv Yuiv.KhRef Matrix Yuiv.C03Uct

/-- the levels `< t` of the dense matrix are finished: non-zero diagonal entry (recorded in `diag`), rest of the row and
of the column zero -/
structure Done (a : Array (Array Int)) (mr nc t : Nat) (diag : Array Int) : Prop where
  sz : diag.size = t
  le1 : t ≤ mr
  le2 : t ≤ nc
  dg : ∀ t', t' < t → afn a t' t' ≠ 0 ∧ diag[t']! = Int.ofNat (afn a t' t').natAbs
  row : ∀ t' c, t' < t → c < nc → c ≠ t' → afn a t' c = 0
  col : ∀ t' k, t' < t → k < mr → k ≠ t' → afn a k t' = 0

theorem sw_lt {x y i b : Nat} (hx : x < b) (hy : y < b) (hi : i < b) : sw x y i < b := by
  unfold sw; split
  · exact hy
  · split
    · exact hx
    · exact hi

theorem sw_sw (x y i : Nat) : sw x y (sw x y i) = i := by
  unfold sw
  by_cases h1 : i = x
  · subst h1
    by_cases h2 : y = i
    · simp [h2]
    · simp [h2]
  · by_cases h2 : i = y
    · subst h2; simp [h1]
    · simp [h1, h2]

theorem sw_fix {x y i : Nat} (h1 : i ≠ x) (h2 : i ≠ y) : sw x y i = i := by
  unfold sw; simp [h1, h2]

theorem sw_self_right (x y : Nat) : sw x y y = x := by
  unfold sw
  by_cases h : y = x
  · simp [h]
  · simp [h]

theorem sw_ge {x y i t : Nat} (hx : t ≤ x) (hy : t ≤ y) (hi : t ≤ i) : t ≤ sw x y i := by
  unfold sw; split
  · exact hy
  · split
    · exact hx
    · exact hi

variable {m n : Nat} {A : Matrix (Fin m) (Fin n) ℤ} {mr nc units : Nat}

/-- one round at level `t` -/
theorem pivotStep_dstate {a : Array (Array Int)} {t pi pj : Nat} {diag : Array Int} (hS : Shape a mr nc)
    (hG : GInv m n A mr nc (afn a) units) (hD : Done a mr nc t diag) (ht : t < mr) (ht' : t < nc)
    (hpi : t ≤ pi) (hpi' : pi < mr) (hpj : t ≤ pj) (hpj' : pj < nc) (hpv : afn a pi pj ≠ 0) :
    Shape (pivotStep a t mr nc pi pj).1 mr nc ∧ GInv m n A mr nc (afn (pivotStep a t mr nc pi pj).1) units ∧
    Done (pivotStep a t mr nc pi pj).1 mr nc t diag ∧ (pivotStep a t mr nc pi pj).2.1 = afn a pi pj ∧
    ((pivotStep a t mr nc pi pj).2.2 = true →
      Done (pivotStep a t mr nc pi pj).1 mr nc (t + 1) (diag.push (Int.ofNat (afn a pi pj).natAbs))) ∧
    ((pivotStep a t mr nc pi pj).2.2 = false → ∃ i j, t ≤ i ∧ i < mr ∧ t ≤ j ∧ j < nc ∧
      afn (pivotStep a t mr nc pi pj).1 i j ≠ 0 ∧
      (afn (pivotStep a t mr nc pi pj).1 i j).natAbs < (afn a pi pj).natAbs) := by
  have hspec := pivotStep_spec hS hpi hpi' hpj hpj' hpv
  simp only at hspec
  obtain ⟨hS', hpv', qr, qc, hqr, hqc, hqcz, hform, hclean, hunclean⟩ := hspec
  generalize pivotStep a t mr nc pi pj = r at hS' hpv' hform hclean hunclean ⊢
  have hswt : sw pi t t = pi := sw_self_right pi t
  have hswt' : sw pj t t = pj := sw_self_right pj t
  -- the invariant through the four kinds of operations
  have g1 := ginv_rows mr (sw pi t) (fun p hp => sw_lt hpi' ht hp)
    (fun p p' _ _ e => by rw [← sw_sw pi t p, e, sw_sw]) (fun k hk hno => absurd (sw_sw pi t k) (hno _ (sw_lt hpi' ht hk))) hG
  have g2 := ginv_cols nc (sw pj t) (fun p hp => sw_lt hpj' ht' hp)
    (fun p p' _ _ e => by rw [← sw_sw pj t p, e, sw_sw]) (fun k hk hno => absurd (sw_sw pj t k) (hno _ (sw_lt hpj' ht' hk))) g1
  have g3 := ginv_rowOps t ht (fun k => -qr k) (by simp [hqr t (Nat.le_refl t)]) g2
  have g4 := ginv_colOps t ht' (fun c => -qc c) (by simp [hqc t (Nat.le_refl t)])
    ⟨t, ht, by
      show afn a (sw pi t t) (sw pj t t) + -qr t * afn a (sw pi t t) (sw pj t t) ≠ 0
      rw [hqr t (Nat.le_refl t), hswt, hswt']; simpa using hpv⟩
    (by
      intro c hc hz
      have h0 : afn a (sw pi t t) (sw pj t c) + -qr t * afn a (sw pi t t) (sw pj t c) = 0 := hz t ht
      rw [hqr t (Nat.le_refl t), hswt] at h0
      have : afn a pi (sw pj t c) = 0 := by simpa using h0
      rw [hqcz c this]; simp) g3
  have hG' : GInv m n A mr nc (afn r.1) units := by
    refine ginv_congr ?_ g4
    intro k c hk hc
    rw [hform k c hk hc]
    ring
  -- finished levels stay finished
  have old_row : ∀ t' c, t' < t → c < nc → c ≠ t' → afn r.1 t' c = 0 := by
    intro t' c h1 h2 h3
    have hk : t' < mr := by omega
    rw [hform t' c hk h2, hqr t' (by omega)]
    have f1 : sw pi t t' = t' := sw_fix (by omega) (by omega)
    have e1 : afn a (sw pi t t') (sw pj t c) = 0 := by
      rw [f1]
      apply hD.row t' _ h1 (sw_lt hpj' ht' h2)
      intro e
      by_cases hc : c < t
      · rw [sw_fix (by omega) (by omega)] at e; exact h3 e
      · have := sw_ge hpj (Nat.le_refl t) (by omega : t ≤ c); omega
    have e2 : afn a (sw pi t t') (sw pj t t) = 0 := by
      rw [f1, hswt']; exact hD.row t' pj h1 hpj' (by omega)
    rw [e1, e2]; ring
  have old_col : ∀ t' k, t' < t → k < mr → k ≠ t' → afn r.1 k t' = 0 := by
    intro t' k h1 h2 h3
    have hc : t' < nc := by omega
    rw [hform k t' h2 hc, hqc t' (by omega)]
    have f1 : sw pj t t' = t' := sw_fix (by omega) (by omega)
    have e1 : afn a (sw pi t k) (sw pj t t') = 0 := by
      rw [f1]
      apply hD.col t' _ h1 (sw_lt hpi' ht h2)
      intro e
      by_cases hk : k < t
      · rw [sw_fix (by omega) (by omega)] at e; exact h3 e
      · have := sw_ge hpi (Nat.le_refl t) (by omega : t ≤ k); omega
    have e2 : afn a (sw pi t t) (sw pj t t') = 0 := by
      rw [f1, hswt]; exact hD.col t' pi h1 hpi' (by omega)
    rw [e1, e2]; ring
  have old_dg : ∀ t', t' < t → afn r.1 t' t' = afn a t' t' := by
    intro t' h1
    rw [hform t' t' (by omega) (by omega), hqr t' (by omega), hqc t' (by omega),
      sw_fix (by omega : t' ≠ pi) (by omega : t' ≠ t), sw_fix (by omega : t' ≠ pj) (by omega : t' ≠ t)]
    ring
  have hD' : Done r.1 mr nc t diag :=
    ⟨hD.sz, hD.le1, hD.le2, fun t' h1 => by rw [old_dg t' h1]; exact hD.dg t' h1, old_row, old_col⟩
  have new_dg : afn r.1 t t = afn a pi pj := by
    rw [hform t t ht ht', hqr t (Nat.le_refl t), hqc t (Nat.le_refl t), hswt, hswt']
    ring
  refine ⟨hS', hG', hD', hpv', ?_, hunclean⟩
  intro hok
  obtain ⟨c1, c2⟩ := hclean hok
  refine ⟨by rw [Array.size_push, hD.sz], by omega, by omega, ?_, ?_, ?_⟩
  · intro t' h1
    by_cases h2 : t' < t
    · have := hD'.dg t' h2
      refine ⟨this.1, ?_⟩
      rw [getElem!_pos _ t' (by rw [Array.size_push, hD.sz]; omega), Array.getElem_push_lt (by rw [hD.sz]; exact h2),
        ← getElem!_pos diag t' (by rw [hD.sz]; exact h2)]
      exact this.2
    · have : t' = t := by omega
      subst this
      rw [new_dg]
      refine ⟨hpv, ?_⟩
      rw [getElem!_pos _ t' (by rw [Array.size_push, hD.sz]; omega)]
      have : t' = diag.size := hD.sz.symm
      subst this
      rw [Array.getElem_push_eq]
  · intro t' c h1 h2 h3
    by_cases h4 : t' < t
    · exact old_row t' c h4 h2 h3
    · have : t' = t := by omega
      subst this
      by_cases h5 : c < t'
      · exact old_col c t' h5 ht (by omega)
      · exact c2 c (by omega) h2
  · intro t' k h1 h2 h3
    by_cases h4 : t' < t
    · exact old_col t' k h4 h2 h3
    · have : t' = t := by omega
      subst this
      by_cases h5 : k < t'
      · exact old_row k t' h5 ht' (by omega)
      · exact c1 k (by omega) h2

/-- the rounds of one level -/
theorem levelLoop_spec {t : Nat} (ht : t < mr) (ht' : t < nc) : ∀ (fuel : Nat) (a : Array (Array Int)) (diag : Array Int)
    (v pi pj : Nat), Shape a mr nc → GInv m n A mr nc (afn a) units → Done a mr nc t diag →
    t ≤ pi → pi < mr → t ≤ pj → pj < nc → v = (afn a pi pj).natAbs → v ≠ 0 → v ≤ fuel →
    Shape (levelLoop fuel a t mr nc (v, pi, pj)).1 mr nc ∧
    GInv m n A mr nc (afn (levelLoop fuel a t mr nc (v, pi, pj)).1) units ∧
    (match (levelLoop fuel a t mr nc (v, pi, pj)).2 with
     | some d => Done (levelLoop fuel a t mr nc (v, pi, pj)).1 mr nc (t + 1) (diag.push d) ∧ 0 < d
     | none => Done (levelLoop fuel a t mr nc (v, pi, pj)).1 mr nc t diag ∧
        ∀ i j, t ≤ i → i < mr → t ≤ j → j < nc → afn (levelLoop fuel a t mr nc (v, pi, pj)).1 i j = 0) := by
  intro fuel
  induction fuel with
  | zero => intro a diag v pi pj _ _ _ _ _ _ _ _ hv hf; omega
  | succ fuel ih =>
    intro a diag v pi pj hS hG hD hpi hpi' hpj hpj' hv hv0 hf
    have hpv : afn a pi pj ≠ 0 := by
      intro e; rw [e] at hv; exact hv0 hv
    obtain ⟨s1, s2, s3, s4, s5, s6⟩ := pivotStep_dstate hS hG hD ht ht' hpi hpi' hpj hpj' hpv
    unfold levelLoop
    simp only
    by_cases hok : (pivotStep a t mr nc pi pj).2.2 = true
    · simp only [hok, if_true]
      refine ⟨s1, s2, ?_, ?_⟩
      · rw [s4]; exact s5 hok
      · rw [s4]
        have : (afn a pi pj).natAbs ≠ 0 := by rw [← hv]; exact hv0
        exact Int.natCast_pos.2 (Nat.pos_of_ne_zero this)
    · have hok' : (pivotStep a t mr nc pi pj).2.2 = false := by simpa using hok
      simp only [hok', Bool.false_eq_true, if_false]
      obtain ⟨i, j, w1, w2, w3, w4, w5, w6⟩ := s6 hok'
      cases hf' : findPivot (pivotStep a t mr nc pi pj).1 t mr nc with
      | none =>
        exact ⟨s1, s2, s3, findPivot_none hf'⟩
      | some p' =>
        obtain ⟨v', pi', pj'⟩ := p'
        obtain ⟨f1, f2, f3, f4, f5, f6, f7⟩ := findPivot_some hf'
        have hlt := f7 i j w1 w2 w3 w4 w5
        exact ih _ diag v' pi' pj' s1 s2 s3 f1 f2 f3 f4 f5 f6 (by omega)

/-- the final state of the dense phase -/
def DenseFinal (m n : Nat) (A : Matrix (Fin m) (Fin n) ℤ) (mr nc units : Nat) (dg : Array Int) : Prop :=
  ∃ (a : Array (Array Int)) (r : Nat), GInv m n A mr nc (afn a) units ∧ Done a mr nc r dg ∧
    (∀ k c, k < mr → c < nc → ¬ (k = c ∧ k < r) → afn a k c = 0) ∧ ∀ x ∈ dg.toList, 0 < x

theorem final_of_block {a : Array (Array Int)} {t : Nat} {diag : Array Int} (hD : Done a mr nc t diag)
    (hb : ∀ i j, t ≤ i → i < mr → t ≤ j → j < nc → afn a i j = 0) :
    ∀ k c, k < mr → c < nc → ¬ (k = c ∧ k < t) → afn a k c = 0 := by
  intro k c hk hc hn
  by_cases h1 : k < t
  · exact hD.row k c h1 hc (fun e => hn ⟨e.symm, h1⟩)
  · by_cases h2 : c < t
    · exact hD.col c k h2 hk (by omega)
    · exact hb k c (by omega) hk (by omega) hc

theorem denseLoop_spec : ∀ (fuel : Nat) (a : Array (Array Int)) (t : Nat) (diag : Array Int), Shape a mr nc →
    GInv m n A mr nc (afn a) units → Done a mr nc t diag → (∀ x ∈ diag.toList, 0 < x) → min mr nc + 1 ≤ fuel + t →
    DenseFinal m n A mr nc units (denseLoop fuel a t mr nc diag) := by
  intro fuel
  induction fuel with
  | zero =>
    intro a t diag _ _ hD _ hf
    have := hD.le1; have := hD.le2
    omega
  | succ fuel ih =>
    intro a t diag hS hG hD hpos hf
    unfold denseLoop
    by_cases hc : (decide (t < mr) && decide (t < nc)) = true
    · simp only [hc, if_true]
      simp only [Bool.and_eq_true, decide_eq_true_eq] at hc
      cases hp : findPivot a t mr nc with
      | none =>
        exact ⟨a, t, hG, hD, final_of_block hD (findPivot_none hp), hpos⟩
      | some p =>
        obtain ⟨v, pi, pj⟩ := p
        obtain ⟨f1, f2, f3, f4, f5, f6, _⟩ := findPivot_some hp
        obtain ⟨l1, l2, l3⟩ := levelLoop_spec hc.1 hc.2 v a diag v pi pj hS hG hD f1 f2 f3 f4 f5 f6 (Nat.le_refl v)
        simp only
        generalize levelLoop v a t mr nc (v, pi, pj) = res at l1 l2 l3
        obtain ⟨a', od⟩ := res
        cases od with
        | some d =>
          simp only at l1 l2 l3 ⊢
          refine ih a' (t + 1) (diag.push d) l1 l2 l3.1 ?_ (by omega)
          intro x hx
          rw [Array.toList_push, List.mem_append] at hx
          rcases hx with hx | hx
          · exact hpos x hx
          · simp at hx; subst hx; exact l3.2
        | none =>
          simp only at l1 l2 l3 ⊢
          exact ⟨a', t, l2, l3.1, final_of_block l3.1 l3.2, hpos⟩
    · simp only [hc]
      simp only [Bool.and_eq_true, decide_eq_true_eq, not_and_or, Nat.not_lt] at hc
      refine ⟨a, t, hG, hD, final_of_block hD ?_, hpos⟩
      intro i j h1 h2 h3 h4
      have := hD.le1; have := hD.le2
      rcases hc with hc | hc <;> omega

/-- THE DENSE PHASE: if the invariant holds for the dense matrix `a0`, the diagonal computed by `denseDiag` (all entries
positive) together with the unit pivots is a diagonal form of `A` -/
theorem denseDiag_equivDiag {a0 : Array (Array Int)} (hS : Shape a0 mr nc) (hG : GInv m n A mr nc (afn a0) units) :
    EquivDiag A (List.replicate units 1 ++ (denseDiag a0).toList) ∧ ∀ x ∈ (denseDiag a0).toList, 0 < x := by
  have key : DenseFinal m n A mr nc units (denseDiag a0) := by
    unfold denseDiag
    by_cases h0 : (a0.size == 0) = true
    · simp only [h0, if_true]
      have hmr : mr = 0 := by rw [← hS.1]; simpa using h0
      subst hmr
      exact ⟨a0, 0, hG, ⟨rfl, Nat.le_refl 0, Nat.zero_le _, fun _ h => absurd h (Nat.not_lt_zero _),
        fun _ _ h => absurd h (Nat.not_lt_zero _), fun _ _ h => absurd h (Nat.not_lt_zero _)⟩,
        fun k c hk => absurd hk (Nat.not_lt_zero _), by simp⟩
    · simp only [h0]
      have hmr : 0 < mr := by
        rw [← hS.1]
        have : a0.size ≠ 0 := by simpa using h0
        omega
      have e1 : a0.size = mr := hS.1
      have e2 : (a0[0]!).size = nc := hS.2 0 hmr
      rw [e1, e2]
      exact denseLoop_spec (min mr nc + 1) a0 0 #[] hS hG
        ⟨rfl, Nat.zero_le _, Nat.zero_le _, fun _ h => absurd h (Nat.not_lt_zero _),
          fun _ _ h => absurd h (Nat.not_lt_zero _), fun _ _ h => absurd h (Nat.not_lt_zero _)⟩ (by simp) (by omega)
  obtain ⟨a, r, hG', hD, hz, hpos⟩ := key
  refine ⟨?_, hpos⟩
  have hfin := ginv_final r hD.le1 hD.le2 (fun t => afn a t t) (fun t ht => (hD.dg t ht).1) (fun t _ => rfl) hz hG'
  have : (List.range r).map (fun t => (Int.ofNat (afn a t t).natAbs : ℤ)) = (denseDiag a0).toList := by
    apply List.ext_getElem
    · simp [hD.sz]
    · intro k h1 h2
      simp only [List.length_map, List.length_range] at h1
      simp only [List.getElem_map, List.getElem_range]
      have := (hD.dg k h1).2
      rw [getElem!_pos _ k (by rw [hD.sz]; exact h1)] at this
      simp only [Array.getElem_toList]
      exact this.symm
  rw [this] at hfin
  exact hfin

end Yuiv.KhSnf
