import Yuiv.Proofs.C16
import Mathlib.Order.PiLex
import Mathlib.Data.Prod.Lex
import Mathlib.Algebra.Order.Monoid.Defs
import Mathlib.Algebra.Order.Group.Defs
import Mathlib.Algebra.Order.Group.Int
import Mathlib.Algebra.Order.Group.Nat
/-
Monomial orders of C16: `cmp_lex` / `cmp_grlex` of `Var`, `Var2`, `Var3` and `MultiDeg` are comparisons of an
injective key in a linear order (lexicographic products / `Pi.Lex`), hence total orders; and they are
compatible with multiplication.  The exponent type `I` is any linearly ordered cancellative commutative monoid
(`ℕ` for `usize`, `ℤ` for `isize`).
-/
set_option linter.unusedSectionVars false
set_option linter.unusedSimpArgs false
set_option linter.unusedVariables false

namespace Yuiv.C16

section CmpI
variable {I : Type} [LinearOrder I]

theorem cmpI_lt {a b : I} : cmpI a b = .lt ↔ a < b := by
  unfold cmpI; split
  · simp [*]
  · split <;> simp [*]

theorem cmpI_eq {a b : I} : cmpI a b = .eq ↔ a = b := by
  unfold cmpI; split
  · rename_i h; simp [ne_of_lt h]
  · split <;> simp [*]

theorem cmpI_gt {a b : I} : cmpI a b = .gt ↔ b < a := by
  unfold cmpI; split
  · rename_i h; simp [not_lt_of_gt h]
  · rename_i h; split
    · rename_i e; simp [e]
    · rename_i e; simp; exact lt_of_le_of_ne (not_lt.mp h) (fun e' => e e'.symm)

theorem cmpI_self (a : I) : cmpI a a = .eq := cmpI_eq.mpr rfl

theorem cmpI_swap (a b : I) : cmpI b a = (cmpI a b).swap := by
  rcases lt_trichotomy a b with h | h | h
  · rw [cmpI_lt.mpr h, cmpI_gt.mpr h]; rfl
  · subst h; rw [cmpI_self]; rfl
  · rw [cmpI_gt.mpr h, cmpI_lt.mpr h]; rfl

/-- two orderings agree as soon as they agree on `lt` and `eq` -/
theorem ordering_ext {o o' : Ordering} (hl : o = .lt ↔ o' = .lt) (he : o = .eq ↔ o' = .eq) : o = o' := by
  cases o <;> cases o' <;> simp_all

theorem cmpI_ne_gt {a b : I} : cmpI a b ≠ .gt ↔ a ≤ b := by
  rw [Ne, cmpI_gt, not_lt]

variable {M K : Type} [LinearOrder K]

/-- `cmpI` with all instances taken from a `LinearOrder` (used for the keys) -/
def cmpK (a b : K) : Ordering := cmpI a b
theorem cmpK_lt {a b : K} : cmpK a b = .lt ↔ a < b := cmpI_lt
theorem cmpK_eq {a b : K} : cmpK a b = .eq ↔ a = b := cmpI_eq
theorem cmpK_gt {a b : K} : cmpK a b = .gt ↔ b < a := cmpI_gt

/-- a comparison that is the comparison of an injective key is a total order -/
theorem ordLaws_of_key (P : M → Prop) (key : M → K) (cmp : M → M → Ordering)
    (hinj : ∀ x y, P x → P y → key x = key y → x = y)
    (hcmp : ∀ x y, P x → P y → cmp x y = cmpK (key x) (key y)) : OrdLaws P cmp := by
  constructor
  · intro x y hx hy
    rw [hcmp x y hx hy, cmpK_eq]
    exact ⟨hinj x y hx hy, fun e => by rw [e]⟩
  · intro x y hx hy
    rw [hcmp x y hx hy, hcmp y x hy hx]; exact cmpI_swap _ _
  · intro x y z hx hy hz
    rw [hcmp x y hx hy, hcmp y z hy hz, hcmp x z hx hz]
    unfold cmpK
    rw [cmpI_ne_gt, cmpI_ne_gt, cmpI_ne_gt]
    exact le_trans

theorem cmpK_then_lex {J : Type} [LinearOrder J] (a c : I) (b d : J) :
    (cmpI a c).then (cmpK b d) = cmpK (toLex (a, b)) (toLex (c, d)) := by
  apply ordering_ext
  · rw [cmpK_lt, Prod.Lex.toLex_lt_toLex]
    rcases lt_trichotomy a c with h | h | h
    · simp [cmpI_lt.mpr h, h, Ordering.then]
    · subst h; simp [cmpI_self, Ordering.then, cmpK_lt]
    · simp [cmpI_gt.mpr h, Ordering.then, not_lt_of_gt h, ne_of_gt h]
  · rw [cmpK_eq]
    rcases lt_trichotomy a c with h | h | h
    · simp [cmpI_lt.mpr h, Ordering.then, ne_of_lt h]
    · subst h; simp [cmpI_self, Ordering.then, cmpK_eq]
    · simp [cmpI_gt.mpr h, Ordering.then, ne_of_gt h]

theorem cmpI_then_lex {J : Type} [LinearOrder J] (a c : I) (b d : J) :
    (cmpI a c).then (cmpI b d) = cmpK (toLex (a, b)) (toLex (c, d)) := by
  apply ordering_ext
  · rw [cmpK_lt, Prod.Lex.toLex_lt_toLex]
    rcases lt_trichotomy a c with h | h | h
    · simp [cmpI_lt.mpr h, h, Ordering.then]
    · subst h; simp [cmpI_self, Ordering.then, cmpI_lt]
    · simp [cmpI_gt.mpr h, Ordering.then, not_lt_of_gt h, ne_of_gt h]
  · rw [cmpK_eq]
    rcases lt_trichotomy a c with h | h | h
    · simp [cmpI_lt.mpr h, Ordering.then, ne_of_lt h]
    · subst h; simp [cmpI_self, Ordering.then, cmpI_eq]
    · simp [cmpI_gt.mpr h, Ordering.then, ne_of_gt h]

end CmpI

section Compat
variable {I : Type} [AddCommMonoid I] [LinearOrder I] [IsOrderedCancelAddMonoid I]

theorem cmpI_add_right (a b c : I) : cmpI (a + c) (b + c) = cmpI a b := by
  apply ordering_ext
  · rw [cmpI_lt, cmpI_lt, add_lt_add_iff_right]
  · rw [cmpI_eq, cmpI_eq, add_left_inj]

end Compat

/-! ### `Var`, `Var2`, `Var3` -/
section Vars
variable {I : Type} [AddCommMonoid I] [LinearOrder I] [IsOrderedCancelAddMonoid I]

theorem Var.ext' {a b : Var I} (h : a.e = b.e) : a = b := by cases a; cases b; simp_all
theorem Var2.ext' {a b : Var2 I} (h0 : a.e0 = b.e0) (h1 : a.e1 = b.e1) : a = b := by
  cases a; cases b; simp_all
theorem Var3.ext' {a b : Var3 I} (h0 : a.e0 = b.e0) (h1 : a.e1 = b.e1) (h2 : a.e2 = b.e2) : a = b := by
  cases a; cases b; simp_all

theorem var_ordLaws_lex : OrdLaws (fun _ => True) (Var.cmpLex (I := I)) :=
  ordLaws_of_key _ (fun a => a.e) _ (fun x y _ _ h => Var.ext' h) (fun _ _ _ _ => rfl)
theorem var_ordLaws_grlex : OrdLaws (fun _ => True) (Var.cmpGrlex (I := I)) :=
  ordLaws_of_key _ (fun a => a.e) _ (fun x y _ _ h => Var.ext' h) (fun _ _ _ _ => rfl)

theorem var2_ordLaws_lex : OrdLaws (fun _ => True) (Var2.cmpLex (I := I)) :=
  ordLaws_of_key _ (fun a => toLex (a.e0, a.e1)) _
    (fun x y _ _ h => by
      have := toLex.injective h; simp only [Prod.mk.injEq] at this; exact Var2.ext' this.1 this.2)
    (fun x y _ _ => by unfold Var2.cmpLex; rw [cmpI_then_lex])

theorem var2_ordLaws_grlex : OrdLaws (fun _ => True) (Var2.cmpGrlex (I := I)) :=
  ordLaws_of_key _ (fun a => toLex (a.total, toLex (a.e0, a.e1))) _
    (fun x y _ _ h => by
      have := toLex.injective h; simp only [Prod.mk.injEq] at this
      have := toLex.injective this.2; simp only [Prod.mk.injEq] at this; exact Var2.ext' this.1 this.2)
    (fun x y _ _ => by unfold Var2.cmpGrlex Var2.cmpLex; rw [cmpI_then_lex, cmpK_then_lex])

theorem then_assoc (a b c : Ordering) : (a.then b).then c = a.then (b.then c) := by
  cases a <;> simp [Ordering.then]

theorem var3_ordLaws_lex : OrdLaws (fun _ => True) (Var3.cmpLex (I := I)) :=
  ordLaws_of_key _ (fun a => toLex (a.e0, toLex (a.e1, a.e2))) _
    (fun x y _ _ h => by
      have h1 := toLex.injective h; simp only [Prod.mk.injEq] at h1
      have h2 := toLex.injective h1.2; simp only [Prod.mk.injEq] at h2; exact Var3.ext' h1.1 h2.1 h2.2)
    (fun x y _ _ => by unfold Var3.cmpLex; rw [then_assoc, cmpI_then_lex, cmpK_then_lex])

theorem var3_ordLaws_grlex : OrdLaws (fun _ => True) (Var3.cmpGrlex (I := I)) :=
  ordLaws_of_key _ (fun a => toLex (a.total, toLex (a.e0, toLex (a.e1, a.e2)))) _
    (fun x y _ _ h => by
      have h0 := toLex.injective h; simp only [Prod.mk.injEq] at h0
      have h1 := toLex.injective h0.2; simp only [Prod.mk.injEq] at h1
      have h2 := toLex.injective h1.2; simp only [Prod.mk.injEq] at h2; exact Var3.ext' h1.1 h2.1 h2.2)
    (fun x y _ _ => by
      unfold Var3.cmpGrlex Var3.cmpLex; rw [then_assoc, cmpI_then_lex, cmpK_then_lex, cmpK_then_lex])

theorem var_mul_e (a c : Var I) : (a * c).e = a.e + c.e := rfl
theorem var2_mul (a c : Var2 I) : a * c = ⟨a.e0 + c.e0, a.e1 + c.e1⟩ := rfl
theorem var3_mul (a c : Var3 I) : a * c = ⟨a.e0 + c.e0, a.e1 + c.e1, a.e2 + c.e2⟩ := rfl

theorem var_cmp_mul (a b c : Var I) : Var.cmpLex (a * c) (b * c) = Var.cmpLex a b := by
  simp only [Var.cmpLex, var_mul_e, cmpI_add_right]

theorem var2_cmpLex_mul (a b c : Var2 I) : Var2.cmpLex (a * c) (b * c) = Var2.cmpLex a b := by
  simp only [Var2.cmpLex, var2_mul, cmpI_add_right]

theorem var2_cmpGrlex_mul (a b c : Var2 I) : Var2.cmpGrlex (a * c) (b * c) = Var2.cmpGrlex a b := by
  unfold Var2.cmpGrlex
  rw [var2_cmpLex_mul]
  have h : ∀ x : Var2 I, (x * c).total = x.total + c.total := fun x => by
    simp only [Var2.total, var2_mul]; exact add_add_add_comm _ _ _ _
  rw [h, h, cmpI_add_right]

theorem var3_cmpLex_mul (a b c : Var3 I) : Var3.cmpLex (a * c) (b * c) = Var3.cmpLex a b := by
  simp only [Var3.cmpLex, var3_mul, cmpI_add_right]

theorem var3_cmpGrlex_mul (a b c : Var3 I) : Var3.cmpGrlex (a * c) (b * c) = Var3.cmpGrlex a b := by
  unfold Var3.cmpGrlex
  rw [var3_cmpLex_mul]
  have h : ∀ x : Var3 I, (x * c).total = x.total + c.total := fun x => by
    simp only [Var3.total, var3_mul]
    abel
  rw [h, h, cmpI_add_right]

/-! the monomial types are commutative monoids under the model's multiplication -/
instance : CommMonoid (Var I) where
  mul := (· * ·)
  one := 1
  mul_assoc a b c := Var.ext' (add_assoc _ _ _)
  one_mul a := Var.ext' (zero_add _)
  mul_one a := Var.ext' (add_zero _)
  mul_comm a b := Var.ext' (add_comm _ _)

instance : CommMonoid (Var2 I) where
  mul := (· * ·)
  one := 1
  mul_assoc a b c := Var2.ext' (add_assoc _ _ _) (add_assoc _ _ _)
  one_mul a := Var2.ext' (zero_add _) (zero_add _)
  mul_one a := Var2.ext' (add_zero _) (add_zero _)
  mul_comm a b := Var2.ext' (add_comm _ _) (add_comm _ _)

instance : CommMonoid (Var3 I) where
  mul := (· * ·)
  one := 1
  mul_assoc a b c := Var3.ext' (add_assoc _ _ _) (add_assoc _ _ _) (add_assoc _ _ _)
  one_mul a := Var3.ext' (zero_add _) (zero_add _) (zero_add _)
  mul_one a := Var3.ext' (add_zero _) (add_zero _) (add_zero _)
  mul_comm a b := Var3.ext' (add_comm _ _) (add_comm _ _) (add_comm _ _)

end Vars
end Yuiv.C16
