import Yuiv.Proofs.C06WalkFinal
/-
C06Walk — the reply STRING of the C06 driver on braid closures ends with `chk=ok` (helper).
-/
namespace Yuiv.C06Walk
open Yuiv Yuiv.KhRef Yuiv.C06Canon Yuiv.C04Inv Yuiv.C06Cycle Yuiv.Drv.C06 Yuiv.C06Closure
open Yuiv.C18 (closure)
open Yuiv.C18Bridge (toKh)

open Lean Meta Elab Tactic in
/-- unfold all matcher applications of the goal into `casesOn` -/
elab "delta_matchers_w" : tactic => do
  let g ← getMainGoal
  let t ← instantiateMVars (← g.getType)
  let env ← getEnv
  let t' ← Meta.deltaExpand t (fun n => (Lean.Meta.getMatcherInfoCore? env n).isSome ||
    (match n with | .str _ s => s.startsWith "_sparseCasesOn" | _ => false))
  let g' ← g.replaceTargetDefEq t'
  replaceMainGoal [g']

/-- on a valid diagram the construction never runs out of budget (`.err` = "hang") -/
theorem canonCyclesAt_ne_err (L : Link) (hv : validK L = true) (signs : List Int) (h : Int) (base : Option Nat) :
    canonCyclesAt L signs h base ≠ .err := by
  obtain ⟨comps, hc, _⟩ := components_spec L hv
  obtain ⟨paths, hp, _⟩ := stateCircles_spec L hv (oriPresState signs)
  have hcs : ∀ e, coloredSeifertCircles L signs e ≠ .err := by
    intro e
    unfold coloredSeifertCircles
    rw [hc]
    dsimp only
    split
    · exact fun h => by cases h
    · have : seifertCircles L signs = .ok paths := hp
      rw [this]
      dsimp only
      split
      · exact fun h => by cases h
      · rename_i i _
        obtain ⟨r, hr⟩ := colouring_returns (fun i1 i2 => isAdj L (paths[i1]!).edges (paths[i2]!).edges) ascending
          (fun _ _ => List.Perm.refl _) paths.length i
        rw [hr]
        exact fun h => by cases h
  unfold canonCyclesAt
  rw [hc]
  dsimp only
  split
  · exact fun h => by cases h
  · split
    · exact fun h => by cases h
    · rename_i start _
      have := hcs start
      cases hcc : coloredSeifertCircles L signs start with
      | err => exact absurd hcc this
      | panic => dsimp only; exact fun h => by cases h
      | ok cc => dsimp only; split <;> exact fun h => by cases h

theorem canonReply_closure (n : Nat) (w : List Int) (l : C18.Link) (hcl : closure n w = .ok l) (h : Int)
    (base : Option Nat) :
    canonReply (toKh l) h base = "panic" ∨ ∃ pre, canonReply (toKh l) h base = pre ++ " chk=ok" := by
  obtain ⟨s, _, hsg⟩ := C18Bridge.khSigns_eq l (C18.closure_valid' n w l hcl)
  cases hz : canonCyclesAt (toKh l) ((s.map C18Bridge.encSign).toArray).toList h base with
  | panic => left; unfold canonReply; rw [hsg]; dsimp only; rw [hz]
  | err => exact absurd hz (canonCyclesAt_ne_err _ (validK_toKh l (C18.closure_valid' n w l hcl)) _ h base)
  | ok zs =>
    right
    obtain ⟨k1, k2⟩ := reply_flags_closure n w l hcl _ hsg h base zs hz
    unfold replyDz at k1
    unfold replyFlags at k2
    dsimp only at k1 k2
    unfold canonReply
    rw [hsg]
    dsimp only
    rw [hz]
    dsimp only
    revert k1 k2
    delta_matchers_w
    intro k1 k2
    rw [k1, k2]
    simp only [Bool.and_self, if_true]
    have key : ∀ P : String, P ++ toString " chk=" ++ toString "ok" = P ++ " chk=ok" := fun P => by
      show P ++ " chk=" ++ "ok" = _
      rw [String.append_assoc]
      rfl
    exact ⟨_, key _⟩

end Yuiv.C06Walk
