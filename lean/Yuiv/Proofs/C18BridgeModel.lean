import Yuiv.Proofs.C18BridgeDefs
import Init.Internal.Order.While
/-
C18BridgeModel — the imperative reference code `KhRef.partner` / `KhRef.crossingSigns` (`Id.run do` with nested
`for` loops, mutable variables, a bounded `while go do` loop and early `return`s) equals, for ALL inputs, the
loop-free functional form `partnerF` / `signsF` of `Proofs/C18BridgeDefs.lean`:

    theorem partner_eq       (l) (i k) : KhRef.partner l i k = partnerF l i k
    theorem crossingSigns_eq (l)       : KhRef.crossingSigns l = signsF l

Method: `crossingSigns` is first shown equal to a copy `Model.crossingSignsM` whose loop bodies are named functions
(definitional unfolding + one case split for the final `match`); `for` loops over ranges become `forIn` over
`List.range'` (`Std.Legacy.Range.forIn_eq_forIn_range'`) and then folds; the `while` loop is `Lean.Loop.forIn`,
unfolded one step at a time with `Lean.Loop.forIn_eq_of_monadTail` (instance `MonadTail Id`), by induction on
`fuel = 4·n − steps` (the loop ends by its own step bound, so no fuel is added).
Core Lean only; no hypotheses on the input (malformed links included).
-/
namespace Yuiv.C18Bridge
open Yuiv Yuiv.KhRef

namespace Model

/-! ### `partner`: two nested `for` loops with early `return` = `List.find?` over `allSlots` -/

theorem inner_find {α : Type} (p : Nat → Bool) (g : Nat → α) (ys : List Nat) :
    (forIn (m := Id) ys ((none : Option (Option α)), ()) fun j' _ =>
        if p j' = true then pure (ForInStep.done (some (some (g j')), ()))
        else pure (ForInStep.yield (none, ())))
      = pure ((ys.find? p).map (fun j => some (g j)), ()) := by
  induction ys with
  | nil => rfl
  | cons y ys ih =>
    rw [List.forIn_cons]
    by_cases h : p y = true
    · simp [h]
    · simp only [h, List.find?_cons]
      exact ih

theorem outer_find {β : Type} (q : Nat → Option β) (xs : List Nat)
    (body : Nat → Option β × Unit → Id (ForInStep (Option β × Unit)))
    (hbody : ∀ i' s, body i' s = match q i' with
          | some r => pure (ForInStep.done (some r, ()))
          | none => pure (ForInStep.yield (none, ()))) :
    forIn (m := Id) xs ((none : Option β), ()) body = pure (xs.findSome? q, ()) := by
  induction xs with
  | nil => rfl
  | cons y ys ih =>
    rw [List.forIn_cons, hbody]
    cases h : q y with
    | some r => simp [h]
    | none =>
      simp only [List.findSome?_cons, h]
      exact ih

end Model

theorem partner_eq (l : KhRef.Link) (i k : Nat) : KhRef.partner l i k = partnerF l i k := by
  unfold KhRef.partner partnerF allSlots
  simp only [Std.Legacy.Range.forIn_eq_forIn_range', Model.inner_find, pure_bind]
  rw [Model.outer_find (fun i' => Option.map (fun j => some (i', j))
                  (List.find? (fun j' => l[i']!.e[j']! == l[i]!.e[k]! && !(i' == i && j' == k))
                    (List.range' 0 [:4].size))) _ _ ?_]
  · simp only [pure_bind, List.find?_flatMap, List.find?_map, Std.Legacy.Range.size, List.range_eq_range']
    simp only [Nat.sub_zero, Nat.add_sub_cancel, Nat.div_one]
    generalize List.range' 0 l.size = xs
    induction xs with
    | nil => rfl
    | cons x xs ih =>
      simp only [List.findSome?_cons]
      simp only [Function.comp_def] at ih ⊢
      cases List.find? (fun j' => l[x]!.e[j']! == l[i]!.e[k]! && !(x == i && j' == k)) (List.range' 0 4) with
      | some r => rfl
      | none => exact ih
  · intro _ _; rfl

namespace Model

/-! ### `crossingSigns` with named loop bodies -/

abbrev WS := Array Int × Array Nat × Bool × Nat × Nat × Nat × Bool
abbrev S3 := Array Int × Array Nat × Bool

def whileBody (l : Link) (i0 j0 : Nat) (_ : Unit) (s : WS) : Id (ForInStep WS) :=
  let sg := s.1
  let passed := s.2.1
  let bad := s.2.2.1
  let i := s.2.2.2.1
  let j := s.2.2.2.2.1
  let steps := s.2.2.2.2.2.1
  let go := s.2.2.2.2.2.2
  if go = true then
    if steps ≥ 4 * l.size then
      pure (ForInStep.yield (sg, passed, true, i, j, steps, false))
    else
      let steps := steps + 1
      let c := l[i]!
      let passed := passed.push c.e[j]!
      let jp := fun (sg : Array Int) =>
        let k := c.ct.pass j
        match partner l i k with
        | none => pure (ForInStep.yield (sg, passed.push (c.e[k]!), bad, i, j, steps, false))
        | some (i', j') =>
          if (i' == i0 && j' == j0) = true then pure (ForInStep.yield (sg, passed, bad, i, j, steps, false))
          else pure (ForInStep.yield (sg, passed, bad, i', j', steps, go))
      if (slotSign c.ct j != 0) = true then jp (sg.set! i (slotSign c.ct j)) else jp sg
  else pure (ForInStep.done (sg, passed, bad, i, j, steps, go))

def stepBody (l : Link) (j0 i0 : Nat) (s : S3) : Id (ForInStep S3) :=
  if (!s.2.1.contains l[i0]!.e[j0]!) = true then do
    let r ← forIn Lean.Loop.mk (s.1, s.2.1, s.2.2, i0, j0, 0, true) (whileBody l i0 j0)
    pure (ForInStep.yield (r.1, r.2.1, r.2.2.1))
  else pure (ForInStep.yield (s.1, s.2.1, s.2.2))

def passBody (l : Link) (j0 : Nat) (s : S3) : Id (ForInStep S3) :=
  if (j0 == 0 || (Array.range l.size).any fun i => !l[i]!.ct.isResolved && s.1[i]! == 0) = true then do
    let r ← forIn [:l.size] (s.1, s.2.1, s.2.2) (stepBody l j0)
    pure (ForInStep.yield (r.1, r.2.1, r.2.2))
  else pure (ForInStep.yield (s.1, s.2.1, s.2.2))

def outBody (l : Link) (sg : Array Int) (i : Nat) (s : Option (Option (Array Int)) × Array Int) :
    Id (ForInStep (Option (Option (Array Int)) × Array Int)) :=
  if (!l[i]!.ct.isResolved) = true then
    if (sg[i]! == 0) = true then pure (ForInStep.done (some none, s.2))
    else pure (ForInStep.yield (none, s.2.push sg[i]!))
  else pure (ForInStep.yield (none, s.2))

def crossingSignsM (l : Link) : Option (Array Int) := Id.run do
  let s ← forIn [0, 1, 2] ((Array.replicate l.size 0, #[], false) : S3) (passBody l)
  if s.2.2 = true then pure none
  else do
    let r ← forIn [:l.size] (none, #[]) (outBody l s.1)
    match r.1 with
    | some r => pure r
    | none => pure (some r.2)

theorem crossingSigns_eqM (l : Link) : KhRef.crossingSigns l = crossingSignsM l := by
  unfold KhRef.crossingSigns crossingSignsM
  show Id.run (forIn [0,1,2] _ _ >>= _) = Id.run (forIn [0,1,2] _ _ >>= _)
  congr 2
  funext s
  show (if _ then _ else (forIn [:l.size] _ _ >>= _)) = (if _ then _ else (forIn [:l.size] _ _ >>= _))
  congr 2
  funext r
  obtain ⟨a, b⟩ := r
  cases a <;> rfl

theorem loop_unfold (l : Link) (i0 j0 : Nat) (s : WS) :
    forIn (m := Id) Lean.Loop.mk s (whileBody l i0 j0) =
      (match whileBody l i0 j0 () s with
        | ForInStep.done v => v
        | ForInStep.yield v => forIn (m := Id) Lean.Loop.mk v (whileBody l i0 j0)) := by
  show Lean.Loop.forIn Lean.Loop.mk s (whileBody l i0 j0) = _
  rw [Lean.Loop.forIn_eq_of_monadTail]
  cases whileBody l i0 j0 () s <;> rfl

theorem loop_stop (l : Link) (i0 j0 : Nat) (sg : Array Int) (passed : Array Nat) (bad : Bool) (i j steps : Nat) :
    forIn (m := Id) Lean.Loop.mk (sg, passed, bad, i, j, steps, false) (whileBody l i0 j0)
      = (sg, passed, bad, i, j, steps, false) := by
  rw [loop_unfold]
  rfl

theorem whileBody_stop (l : Link) (i0 j0 : Nat) (sg : Array Int) (passed : Array Nat) (bad : Bool) (i j steps : Nat)
    (h : 4 * l.size ≤ steps) :
    whileBody l i0 j0 () (sg, passed, bad, i, j, steps, true)
      = ForInStep.yield (sg, passed, true, i, j, steps, false) := by
  simp only [whileBody, ge_iff_le, h, if_true]
  rfl

theorem whileBody_go (l : Link) (i0 j0 : Nat) (sg : Array Int) (passed : Array Nat) (bad : Bool) (i j steps : Nat)
    (h : steps < 4 * l.size) :
    whileBody l i0 j0 () (sg, passed, bad, i, j, steps, true)
      = (let c := l[i]!
         let passed' := passed.push (c.e[j]!)
         let sg' := if slotSign c.ct j != 0 then sg.set! i (slotSign c.ct j) else sg
         let k := c.ct.pass j
         match partnerF l i k with
         | none => ForInStep.yield (sg', passed'.push (c.e[k]!), bad, i, j, steps + 1, false)
         | some (i', j') =>
           if i' == i0 && j' == j0 then ForInStep.yield (sg', passed', bad, i, j, steps + 1, false)
           else ForInStep.yield (sg', passed', bad, i', j', steps + 1, true)) := by
  have h' : ¬ (4 * l.size ≤ steps) := by omega
  simp only [whileBody, ge_iff_le, h', if_true, if_false, partner_eq]
  split <;> rfl


theorem loop_go (l : Link) (i0 j0 : Nat) : ∀ (fuel : Nat) (sg : Array Int) (passed : Array Nat) (bad : Bool)
    (i j steps : Nat), fuel + steps = 4 * l.size →
    let r := forIn (m := Id) Lean.Loop.mk (sg, passed, bad, i, j, steps, true) (whileBody l i0 j0)
    let w := walkF l i0 j0 fuel i j (sg, passed)
    (r.1, r.2.1, r.2.2.1) = (w.1.1, w.1.2, (bad || w.2)) := by
  intro fuel
  induction fuel with
  | zero =>
    intro sg passed bad i j steps h
    simp only
    rw [loop_unfold, whileBody_stop _ _ _ _ _ _ _ _ _ (by omega)]
    simp only [loop_stop, walkF, Bool.or_true]
  | succ fuel ih =>
    intro sg passed bad i j steps h
    simp only
    rw [loop_unfold, whileBody_go _ _ _ _ _ _ _ _ _ (by omega)]
    simp only [walkF]
    cases hp : partnerF l i (l[i]!.ct.pass j) with
    | none => simp only [loop_stop, Bool.or_false]
    | some p =>
      obtain ⟨i', j'⟩ := p
      simp only
      by_cases hc : (i' == i0 && j' == j0) = true
      · simp only [hc, if_true, loop_stop, Bool.or_false]
      · simp only [hc]
        exact ih _ _ _ _ _ _ (by omega)


def cv (s : S3) : (Array Int × Array Nat) × Bool := ((s.1, s.2.1), s.2.2)
def un (t : (Array Int × Array Nat) × Bool) : S3 := (t.1.1, t.1.2, t.2)

theorem forIn_fold (f : (Array Int × Array Nat) × Bool → Nat → (Array Int × Array Nat) × Bool)
    (body : Nat → S3 → Id (ForInStep S3))
    (hb : ∀ a s, body a s = ForInStep.yield (un (f (cv s) a))) (xs : List Nat) (s : S3) :
    forIn (m := Id) xs s body = un (xs.foldl f (cv s)) := by
  induction xs generalizing s with
  | nil => rfl
  | cons x xs ih =>
    rw [List.forIn_cons, hb]
    simp only [List.foldl_cons]
    exact ih _

theorem stepBody_eq (l : Link) (j0 i0 : Nat) (s : S3) :
    stepBody l j0 i0 s = ForInStep.yield (un (stepF l j0 (cv s) i0)) := by
  unfold stepBody stepF
  by_cases h : (!s.2.1.contains l[i0]!.e[j0]!) = true
  · simp only [h, if_true, cv]
    have := loop_go l i0 j0 (4 * l.size) s.1 s.2.1 s.2.2 i0 j0 0 (by omega)
    simp only at this
    show ForInStep.yield _ = _
    rw [this]
    rfl
  · simp only [h, cv]
    rfl


theorem passBody_eq (l : Link) (j0 : Nat) (s : S3) :
    passBody l j0 s = ForInStep.yield (un (passF l (cv s) j0)) := by
  unfold passBody passF needF
  by_cases h : (j0 == 0 || (Array.range l.size).any fun i => !l[i]!.ct.isResolved && s.1[i]! == 0) = true
  · have h' : (j0 == 0 || (Array.range l.size).any fun i => !l[i]!.ct.isResolved && (cv s).1.1[i]! == 0) = true := h
    simp only [h, h', if_true, Std.Legacy.Range.forIn_eq_forIn_range', Std.Legacy.Range.size]
    rw [forIn_fold (stepF l j0) _ (stepBody_eq l j0)]
    simp only [Nat.sub_zero, Nat.add_sub_cancel, Nat.div_one, List.range_eq_range']
    rfl
  · have h' : ¬ (j0 == 0 || (Array.range l.size).any fun i => !l[i]!.ct.isResolved && (cv s).1.1[i]! == 0) = true := h
    simp only [h, h']
    rfl

theorem out_eq (l : Link) (sg : Array Int) (xs : List Nat) (out : Array Int) :
    (match (forIn (m := Id) xs (none, out) (outBody l sg)).1 with
      | some r => r
      | none => some (forIn (m := Id) xs (none, out) (outBody l sg)).2)
    = xs.foldlM (fun out i =>
        if l[i]!.ct.isResolved then some out else if sg[i]! == 0 then none else some (out.push sg[i]!)) out := by
  induction xs generalizing out with
  | nil => rfl
  | cons x xs ih =>
    rw [List.forIn_cons, List.foldlM_cons]
    unfold outBody
    cases h1 : l[x]!.ct.isResolved
    · by_cases h2 : (sg[x]! == 0) = true
      · simp only [h2]
        rfl
      · simp only [h2]
        exact ih _
    · exact ih _

theorem crossingSignsM_eq (l : Link) : crossingSignsM l = signsF l := by
  unfold crossingSignsM signsF runF outF
  rw [forIn_fold (passF l) _ (passBody_eq l)]
  simp only [Std.Legacy.Range.forIn_eq_forIn_range', Std.Legacy.Range.size, Nat.sub_zero, Nat.add_sub_cancel,
    Nat.div_one, List.range_eq_range']
  have hcv : cv (Array.replicate (Array.size l) 0, #[], false) = ((Array.replicate (Array.size l) 0, #[]), false) := rfl
  rw [hcv]
  generalize List.foldl (passF l) ((Array.replicate (Array.size l) 0, #[]), false) [0, 1, 2] = t
  obtain ⟨⟨sg, passed⟩, bad⟩ := t
  cases bad
  · exact out_eq l sg _ _
  · rfl

end Model

theorem crossingSigns_eq (l : KhRef.Link) : KhRef.crossingSigns l = signsF l :=
  (Model.crossingSigns_eqM l).trans (Model.crossingSignsM_eq l)

end Yuiv.C18Bridge
