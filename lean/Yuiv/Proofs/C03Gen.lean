import Yuiv.Model.C03
import Yuiv.Gen.GenInfoFn
/-
Helper lemmas for `Yuiv/Props/C03Gen.lean`: the association-list primitives of `Yuiv/Model/RustMap.lean` against
`C03.Table.bump`, under the invariant that the keys of the generated table are distinct.  No Mathlib.
-/
set_option linter.unusedSectionVars false
set_option linter.unusedSimpArgs false
namespace Yuiv.GenGI
open Yuiv Res Yuiv.Rust Yuiv.GenGenInfo

abbrev Key := Int × Int
abbrev Val := Nat × List Int × List Nat
abbrev GTable := AMap Key Val

def mapR {α β : Type} (f : α → β) : Res α → Res β
  | .ok a => .ok (f a)
  | .panic => .panic
  | .err => .err

/-- (rank, torsion) of a generated entry; the third component (generator indices) is not part of the model -/
def cell (v : Val) : C03.Cell := ⟨v.1, v.2.1⟩
/-- the generated table as the model's table -/
def toTable (t : GTable) : C03.Table := t.map (fun e => (e.1, cell e.2))
def keys (t : GTable) : List Key := t.map (fun e => e.1)

/-- generator `k` of a summand as the model sees it -/
def genInfo (h : GI.Summand Int) (k : Nat) : C03.GenInfo :=
  ⟨if k < h.rank then none else some (h.tors.getD (k - h.rank) 0), h.gens k⟩
/-- the reported generators of a summand: `rank` free ones followed by the torsion ones -/
def gensOf (h : GI.Summand Int) : List C03.GenInfo :=
  (List.range' 0 (h.rank + h.tors.length)).map (genInfo h)
/-- the grid as the model's input -/
def toModel (grid : List (Int × GI.Summand Int)) : List (Int × List C03.GenInfo) :=
  grid.map (fun ih => (ih.1, gensOf ih.2))

/-- what the model does to a cell for generator `g` -/
def cellFn (g : C03.GenInfo) : C03.Cell → C03.Cell := fun c =>
  match g.order with
  | none => ⟨c.rank + 1, c.tors⟩
  | some a => ⟨c.rank, c.tors ++ [a]⟩

/-- the pure form of one pass of the inner loop body -/
def valFn (h : GI.Summand Int) (k : Nat) (e : Val) : Val :=
  if k < h.rank then (e.1 + 1, e.2.1, e.2.2 ++ [k])
  else (e.1, e.2.1 ++ [h.tors.getD (k - h.rank) 0], e.2.2 ++ [k])

def stepP (i : Int) (h : GI.Summand Int) (t : GTable) (k : Nat) : GTable :=
  let key := (i, GI.Chain.q_deg (h.gens k))
  let t1 := AMap.or_insert t key (0, [], [])
  AMap.set t1 key (valFn h k ((AMap.get t1 key).getD (0, [], [])))

theorem cell_valFn (h : GI.Summand Int) (k : Nat) (e : Val) : cell (valFn h k e) = cellFn (genInfo h k) (cell e) := by
  unfold valFn cellFn genInfo cell
  by_cases hk : k < h.rank <;> simp [hk]

theorem forM_ok_mem {β σ : Type} (f : σ → β → Res σ) (g : σ → β → σ) (xs : List β)
    (h : ∀ x, x ∈ xs → ∀ s, f s x = .ok (g s x)) (s : σ) : Poly.forM xs s f = .ok (xs.foldl g s) := by
  induction xs generalizing s with
  | nil => rfl
  | cons x xs ih =>
    simp only [Poly.forM, h x (List.mem_cons_self), Res.bind, List.foldl_cons]
    exact ih (fun y hy => h y (List.mem_cons_of_mem _ hy)) _

theorem foldl_sim {σ τ β : Type} (P : σ → Prop) (T : σ → τ) (g : σ → β → σ) (g' : τ → β → τ)
    (h : ∀ s x, P s → P (g s x) ∧ T (g s x) = g' (T s) x) (xs : List β) (s : σ) (hs : P s) :
    P (xs.foldl g s) ∧ T (xs.foldl g s) = xs.foldl g' (T s) := by
  induction xs generalizing s with
  | nil => exact ⟨hs, rfl⟩
  | cons x xs ih =>
    obtain ⟨h1, h2⟩ := h s x hs
    simp only [List.foldl_cons]
    rw [← h2]
    exact ih _ h1

/-! ### association list against `Table.bump` -/

theorem contains_iff (t : GTable) (k : Key) : AMap.contains_key t k = true ↔ k ∈ keys t := by
  induction t with
  | nil => simp [AMap.contains_key, AMap.get, keys]
  | cons p t ih =>
    obtain ⟨y, v⟩ := p
    by_cases hy : y = k
    · simp [AMap.contains_key, AMap.get, keys, hy]
    · have : AMap.contains_key ((y, v) :: t) k = AMap.contains_key t k := by
        simp [AMap.contains_key, AMap.get, hy]
      rw [this, ih]
      simp only [keys, List.map_cons, List.mem_cons]
      constructor
      · intro h; exact Or.inr h
      · intro h; cases h with
        | inl h => exact absurd h.symm hy
        | inr h => exact h

theorem any_key (t : GTable) (k : Key) : (toTable t).any (fun e => e.1 == k) = AMap.contains_key t k := by
  induction t with
  | nil => rfl
  | cons p t ih =>
    obtain ⟨y, v⟩ := p
    by_cases hy : y = k
    · simp [toTable, AMap.contains_key, AMap.get, hy]
    · have : AMap.contains_key ((y, v) :: t) k = AMap.contains_key t k := by
        simp [AMap.contains_key, AMap.get, hy]
      rw [this, ← ih]
      simp [toTable, hy]

theorem keys_set (t : GTable) (k : Key) (w : Val) : keys (AMap.set t k w) = keys t := by
  induction t with
  | nil => rfl
  | cons p t ih =>
    obtain ⟨y, v⟩ := p
    by_cases hy : y = k
    · simp [AMap.set, keys, hy]
    · simp only [AMap.set, hy, if_false, keys, List.map_cons] at ih ⊢
      exact congrArg _ ih

theorem map_absent (l : C03.Table) (k : Key) (f : C03.Cell → C03.Cell) (h : ∀ e, e ∈ l → e.1 ≠ k) :
    l.map (fun e => if e.1 == k then (e.1, f e.2) else e) = l := by
  induction l with
  | nil => rfl
  | cons p l ih =>
    have hp : p.1 ≠ k := h p (List.mem_cons_self)
    have hb : (p.1 == k) = false := by simpa using hp
    simp only [List.map_cons, hb, Bool.false_eq_true, if_false]
    rw [ih (fun e he => h e (List.mem_cons_of_mem _ he))]

theorem set_present (t : GTable) (k : Key) (g : Val → Val) (f : C03.Cell → C03.Cell) (hfg : ∀ v, cell (g v) = f (cell v))
    (hn : (keys t).Nodup) (hc : k ∈ keys t) (d : Val) :
    toTable (AMap.set t k (g ((AMap.get t k).getD d)))
      = (toTable t).map (fun e => if e.1 == k then (e.1, f e.2) else e) := by
  induction t with
  | nil => simp [keys] at hc
  | cons p t ih =>
    obtain ⟨y, v⟩ := p
    simp only [keys, List.map_cons, List.nodup_cons] at hn
    by_cases hy : y = k
    · subst hy
      have habs : ∀ e, e ∈ toTable t → e.1 ≠ y := by
        intro e he hey
        simp only [toTable, List.mem_map] at he
        obtain ⟨a, ha, rfl⟩ := he
        exact hn.1 (List.mem_map.mpr ⟨a, ha, hey⟩)
      simp only [AMap.set, AMap.get, if_true, Option.getD_some, toTable, List.map_cons, beq_self_eq_true, hfg]
      rw [show List.map (fun e => (e.1, cell e.2)) t = toTable t from rfl, map_absent _ _ _ habs]
    · have hc' : k ∈ keys t := by
        simp only [keys, List.map_cons, List.mem_cons] at hc
        cases hc with
        | inl h => exact absurd h.symm hy
        | inr h => exact h
      have := ih hn.2 hc'
      simp only [AMap.set, AMap.get, hy, if_false, toTable, List.map_cons, beq_iff_eq] at this ⊢
      rw [this]

theorem get_append_absent (t : GTable) (k : Key) (d : Val) (h : k ∉ keys t) : AMap.get (t ++ [(k, d)]) k = some d := by
  induction t with
  | nil => simp [AMap.get]
  | cons p t ih =>
    obtain ⟨y, v⟩ := p
    simp only [keys, List.map_cons, List.mem_cons, not_or] at h
    have hy : ¬ y = k := fun e => h.1 e.symm
    simp only [List.cons_append, AMap.get, hy, if_false]
    exact ih h.2

theorem set_append_absent (t : GTable) (k : Key) (d w : Val) (h : k ∉ keys t) :
    AMap.set (t ++ [(k, d)]) k w = t ++ [(k, w)] := by
  induction t with
  | nil => simp [AMap.set]
  | cons p t ih =>
    obtain ⟨y, v⟩ := p
    simp only [keys, List.map_cons, List.mem_cons, not_or] at h
    have hy : ¬ y = k := fun e => h.1 e.symm
    simp only [List.cons_append, AMap.set, hy, if_false]
    rw [ih h.2]

/-- one pass of the loop body is one `bump` of the model, and keeps the keys distinct -/
theorem bump_step (t : GTable) (k : Key) (g : Val → Val) (f : C03.Cell → C03.Cell)
    (hfg : ∀ v, cell (g v) = f (cell v)) (hn : (keys t).Nodup) :
    let t1 := AMap.or_insert t k (0, [], [])
    (keys (AMap.set t1 k (g ((AMap.get t1 k).getD (0, [], []))))).Nodup ∧
    toTable (AMap.set t1 k (g ((AMap.get t1 k).getD (0, [], [])))) = (toTable t).bump k f := by
  intro t1
  by_cases hc : AMap.contains_key t k = true
  · have hk : k ∈ keys t := (contains_iff t k).mp hc
    have e1 : t1 = t := by simp [t1, AMap.or_insert, hc]
    rw [e1]
    refine ⟨by rw [keys_set]; exact hn, ?_⟩
    rw [set_present t k g f hfg hn hk]
    simp [C03.Table.bump, any_key, hc]
  · have hc' : AMap.contains_key t k = false := by simpa using hc
    have hk : k ∉ keys t := fun h => hc ((contains_iff t k).mpr h)
    have e1 : t1 = t ++ [(k, (0, [], []))] := by simp [t1, AMap.or_insert, hc']
    rw [e1, get_append_absent t k _ hk, set_append_absent t k _ _ hk]
    refine ⟨?_, ?_⟩
    · simp only [keys, List.map_append, List.map_cons, List.map_nil]
      rw [List.nodup_append]
      refine ⟨hn, by simp, ?_⟩
      intro a ha b hb
      simp only [List.mem_singleton] at hb
      subst hb
      intro hab; subst hab; exact hk ha
    · have ha : (toTable t).any (fun e => e.1 == k) = false := by rw [any_key]; exact hc'
      unfold C03.Table.bump
      rw [ha]
      simp only [Bool.false_eq_true, if_false, toTable, List.map_append, List.map_cons,
        List.map_nil, Option.getD_some, hfg]
      rfl

theorem set_set (t : GTable) (k : Key) (v w : Val) : AMap.set (AMap.set t k v) k w = AMap.set t k w := by
  induction t with
  | nil => rfl
  | cons p t ih =>
    obtain ⟨y, u⟩ := p
    by_cases hy : y = k
    · simp [AMap.set, hy]
    · simp only [AMap.set, hy, if_false, ih]

theorem forM_ok {β σ : Type} (f : σ → β → Res σ) (g : σ → β → σ) (h : ∀ s x, f s x = .ok (g s x)) (xs : List β) (s : σ) :
    Poly.forM xs s f = .ok (xs.foldl g s) := by
  induction xs generalizing s with
  | nil => rfl
  | cons x xs ih => simp only [Poly.forM, h, Res.bind, List.foldl_cons, ih]

end Yuiv.GenGI
